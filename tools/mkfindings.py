#!/venv/bin/python
"""tools/mkfindings.py: merge findings.d/*.json (one finding per file, edited by hand at development time) into
known_findings.json, the file the checks read.  Never run by a check."""
import json, pathlib, subprocess
root = pathlib.Path('/verif')
items = [json.loads(p.read_text()) for p in sorted((root / 'findings.d').glob('*.json'))]
def key(f):
    return (f['property'], f['id'])
items.sort(key=key)
fixed_lines = []
for f in items:
    assert f['status'] in ('open', 'fixed'), f['id']
    if f['status'] == 'fixed':
        assert f.get('commit'), f['id']
        what = f.get('what failed') or f['what']
        f['line'] = f"fixed: property={f['property']} {f['commit']} {what}"
        fixed_lines.append(f['line'])
out = {
    'comment': ('Genuine defects of nolar/kopf found by the checks. status=open: recorded rather than repaired; the check of `property` '
                '(and of `also_properties`) prints one KNOWN-FINDING line when a failure matches the narrow signature implemented by the '
                'matcher function of that finding in harness/kv/props/ (signature described in `signature`), and still reports every other '
                'violation. status=fixed: repaired in /repo by the "fix:" commit named in `commit`; such entries suppress nothing. '
                'Read-only at run time; generated from findings.d/ by tools/mkfindings.py at development time.'),
    'fixed': fixed_lines,
    'findings': items,
}
(root / 'known_findings.json').write_text(json.dumps(out, indent=1, ensure_ascii=False) + '\n')
print(f"{len(items)} findings: {sum(f['status']=='open' for f in items)} open, {len(fixed_lines)} fixed")
