#!/venv/bin/python
"""tools/refresh_design.py: regenerate the generated regions of DESIGN.md (seeded-changes table)."""
import subprocess, re, pathlib
p = pathlib.Path('/verif/DESIGN.md')
s = p.read_text()
table = subprocess.run(['/venv/bin/python', '/verif/tools/mkmutants_md.py'], capture_output=True, text=True, check=True).stdout
s = re.sub(r'<!-- MUTANTS-BEGIN -->.*?<!-- MUTANTS-END -->', lambda m: '<!-- MUTANTS-BEGIN -->\n' + table + '<!-- MUTANTS-END -->', s, flags=re.S)
counts = subprocess.run(['/venv/bin/python', '/verif/tools/mkcounts_md.py'], capture_output=True, text=True, check=True).stdout
s = re.sub(r'<!-- COUNTS-BEGIN -->.*?<!-- COUNTS-END -->', lambda m: '<!-- COUNTS-BEGIN -->\n' + counts + '<!-- COUNTS-END -->', s, flags=re.S)
mx = subprocess.run(['/venv/bin/python', '/verif/tools/mkmatrix_md.py'], capture_output=True, text=True, check=True).stdout
s = re.sub(r'<!-- MATRIX-BEGIN -->.*?<!-- MATRIX-END -->', lambda m: '<!-- MATRIX-BEGIN -->\n' + mx + '<!-- MATRIX-END -->', s, flags=re.S)
p.write_text(s)
print('refreshed; rows:', table.count('\n') - 2)
