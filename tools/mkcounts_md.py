#!/venv/bin/python
"""tools/mkcounts_md.py: per-property counts table for DESIGN.md 12.3 from the committed evidence files and Props/*.v."""
import json, pathlib, re
root = pathlib.Path('/verif')
print('| prop | property theorems (Props) | obligations in the cone (all discharged) | quick: evaluations | distinct non-trivial | ties (D/T) with case counts | known findings reproduced | wall s |')
print('|---|---|---|---|---|---|---|---|')
for i in range(1, 21):
    p = f'C{i:02d}'
    e = json.loads((root / 'evidence' / f'{p}.json').read_text())
    c = e['coverage']
    files = [root / 'coq' / 'Props' / f'{p}.v']
    if p in ('C02', 'C03'):
        files.append(root / 'coq' / 'Props' / 'C02History.v')
    th = sum(len(re.findall(r'^(Theorem|Example)\s', f.read_text(), flags=re.M)) for f in files if f.exists())
    ties = c.get('histograms', {}).get('differential', {})
    ties_s = ', '.join(f'{k} {v}' for k, v in ties.items())
    known = ', '.join(c.get('known_findings_reproduced', {}).keys()) if isinstance(c.get('known_findings_reproduced'), dict) else ', '.join(c.get('known_findings_reproduced', []))
    print(f"| {p} | {th} | {c.get('obligations')} | {c['evaluations']} | {c['distinct_nontrivial']} | {ties_s} | {known or '-'} | {round(e['wall_s'])} |")
