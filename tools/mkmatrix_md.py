#!/venv/bin/python
"""tools/mkmatrix_md.py: cross-detection summary from build/matrix/*.txt (tools/matrix runs: every check against every seeded change)."""
import pathlib, re
rows = []
for f in sorted(pathlib.Path('/verif/seeded/matrix').glob('C*.txt')):
    name = f.stem
    cells = []
    for line in f.read_text().splitlines():
        m = re.match(r'(\S+) (C\d\d) exit=(\d+) \| (.*?) \|', line)
        if not m:
            continue
        _, prop, rc, viol = m.groups()
        if rc == '1':
            cells.append(prop + ('°' if 'no-failing-input-found' in viol else ''))
        elif rc not in ('0', '1'):
            cells.append(prop + '!')
    rows.append((name, cells))
print('| change | checks that exit 1 on it (° = only a proof/tie breaks: no-failing-input-found) |')
print('|---|---|')
for name, cells in rows:
    print(f"| {name} | {' '.join(cells) or '-'} |")
