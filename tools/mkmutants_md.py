#!/venv/bin/python
"""tools/mkmutants_md.py: the seeded-changes table of DESIGN.md 12.6 from seeded/*/meta.json and seeded/detection.json."""
import json, pathlib, re
root = pathlib.Path('/verif/seeded')
det = json.loads((root / 'detection.json').read_text())
rows = []
for d in sorted(p for p in root.iterdir() if p.is_dir() and (p / 'meta.json').exists()):
    m = json.loads((d / 'meta.json').read_text())
    patch = (d / 'patch.diff').read_text()
    files = sorted(set(re.findall(r'^\+\+\+ b/(\S+)', patch, flags=re.M)))
    mine = {k.split(':', 1)[1]: v for k, v in det.items() if k.startswith(m['id'] + ':')}
    cells = []
    for prop, v in sorted(mine.items()):
        verdict = v['verdict']
        tag = 'caught' if verdict.startswith('VIOLATION with concrete replay') else verdict
        after = ''
        mm = re.search(r'\(after strengthening: (.*?)(; before: (.*))?\)$', verdict)
        if mm:
            after = f" — *after strengthening* ({mm.group(1)}); before: {mm.group(3) or 'missed'}"
        cells.append(f"**{prop}**: {v['signature']}{after}")
    rows.append(f"| {m['id']} | {m['property']} | `{', '.join(f.replace('kopf/', '') for f in files)}` | {m['what_it_needs_to_manifest']} | {'<br>'.join(cells)} |")
print('| change | breaks | touches | needs, to manifest | caught by (check: failure signature) |')
print('|---|---|---|---|---|')
print('\n'.join(rows))
