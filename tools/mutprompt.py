#!/venv/bin/python
"""tools/mutprompt.py Cxx N -> prompt for an independent sub-agent producing a property-breaking change."""
import json, sys
pid, n = sys.argv[1], sys.argv[2]
hint = sys.argv[3] if len(sys.argv) > 3 else ''
p = next(json.loads(l) for l in open('/verif/properties.jsonl') if json.loads(l)['id'] == pid)
wt = f'/tmp/mut_{pid}_{n}'
out = f'/tmp/mut_out/{pid}_{n}'
print(f'''You are a software engineer experienced with the Python project nolar/kopf (an asyncio framework for Kubernetes operators). The repository is at /repo (git, pinned commit, tests pass, NO network). Your job: produce ONE realistic change (a "mutant") to kopf's source that BREAKS the semantic property below, while the code still imports/compiles and the existing test suite still passes — the kind of regression a reviewer could let through — together with a small demonstration that fails with your change and passes without it.

THE PROPERTY ({pid}: {p['title']})
{p['statement']}
It must hold {p['quantifier']['text']}.
Code it is anchored in: {', '.join(p['anchors']['files'])}.

RULES
- Work ONLY in your own scratch git worktree: run `git -C /repo worktree add -q {wt} HEAD && cp /repo/kopf/_cogs/helpers/versions.py {wt}/kopf/_cogs/helpers/versions.py` and make all edits under {wt}. NEVER modify /repo itself. Do not read or write anything under /verif (it does not concern you). Use /venv/bin/python (kopf's dependencies are installed there); run things with `cd {wt} && PYTHONPATH={wt} /venv/bin/python ...` so that YOUR copy of kopf is imported (check `kopf.__file__`).
- The change must be to kopf's library code under {wt}/kopf/ (not tests, not docs), small (typically 1-15 lines), and plausible as an honest refactoring/optimisation/bug-fix gone wrong. Do not add obviously malicious code, do not special-case test names or environment variables.
- It must need something SPECIFIC to manifest — a particular interleaving or timing, a crash/fault at a particular point, a multi-step sequence of operations, an unusual input, or two cooperating sites that each look fine alone — NOT something that ordinary use or the simplest input would expose at once. {hint}
- The existing tests must still pass with the change: run at least the test directories relevant to the touched modules, and then the full suite: `cd {wt} && PYTHONPATH={wt} /venv/bin/python -m pytest -q -p no:cacheprovider --timeout=900 -x -q 2>&1 | tail -5` (about 6-10 minutes; 7332 tests pass on the unchanged tree). If a test fails because of your change, choose a different change.
- Write a demonstration: a standalone script or pytest file `demo.py` that exercises real kopf code (your worktree's) and exits non-zero / fails WITH the change, and exits zero / passes on the unchanged /repo (run it both ways: `PYTHONPATH={wt}` and `PYTHONPATH=/repo`). It should show the property violated in terms of observable behaviour (what a handler saw, what was sent to the API, what state resulted), not merely that a line differs.
- Deliver into {out}/ (create it): `patch.diff` (output of `git -C {wt} diff`), `demo.py`, and `notes.md` (which clause of the property breaks, what exactly is needed for it to manifest, why the test suite does not notice, the commands you ran and their results for: full suite with the change, demo with the change, demo without the change).
- When done, remove the worktree: `git -C /repo worktree remove --force {wt}`.
Work autonomously; do not ask questions. Final answer: a 10-line summary (the change, what it needs to manifest, test-suite result, demo results both ways, path of the delivered files).''')
