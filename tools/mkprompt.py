#!/venv/bin/python
import sys
pid, files, extra = sys.argv[1], sys.argv[2], (sys.argv[3] if len(sys.argv) > 3 else '')
t = open('/verif/tools/agent_prompt.txt').read()
print(t.replace('{PID}', pid).replace('{FILES}', files).replace('{EXTRA}', extra))
