#!/venv/bin/python
"""Writes /verif/MANIFEST.json from the table below (one entry per claimed property)."""
import json, pathlib
ROOT = pathlib.Path(__file__).resolve().parents[1]
ALL = [f'C{i:02d}' for i in range(1, 21)]

TB = ('Trusted: Coq 8.16.1 kernel (full .vo build, vm_compute, no native_compute); no axioms (Print Assumptions output of each '
      'property theorem is copied into the evidence); the hand-written Gallina model is tied to /repo by the correspondence check '
      'run in the same command (Python harness, generators, Coq-term encoders); third-party functions are oracles with stated laws. ')

CHECKS = {}
READY = set((ROOT / 'manifest.d' / 'READY').read_text().split())   # validated by the lead: exit 0 twice on the unchanged tree
for f in sorted((ROOT / 'manifest.d').glob('C*.json')):
    d = json.loads(f.read_text())
    if d['property_id'] not in READY:
        continue
    d['note'] = TB + d.get('note', '')
    CHECKS[d['property_id']] = d


def main():
    checks = []
    for pid in ALL:
        if pid not in CHECKS:
            continue
        c = CHECKS[pid]
        checks.append({
            'property_id': pid,
            'quick_cmd': f'./check {pid} quick',
            'thorough_cmd': f'./check {pid} thorough',
            'evidence_file': f'/verif/evidence/{pid}.json',
            'replay_cmd_template': f'./check {pid} --replay {{path}}',
            'engine': 'kv',
            'level_claimed': {'category': 'proof', 'text': c['text'], 'design_ref': c['design']},
            'level_note': c['note'],
            'technique': c['technique'],
        })
    na = [{'property_id': p, 'reason': 'check not built yet in this round (work in progress; see DESIGN.md §11 build order) — not a claim of inapplicability'}
          for p in ALL if p not in CHECKS]
    m = {
        'version': 1,
        'setup_cmd': './setup.sh',
        'hooks': {'guard': 'NOLAR_KOPF_VERIF', 'enable': 'no source hooks: checks import /repo as it is (PYTHONPATH=/repo) and observe through public parameters and harness-side wrappers',
                  'baseline_off_cmd': 'cd /repo && /venv/bin/python -m pytest -ra -q -p no:cacheprovider --timeout=900 --continue-on-collection-errors',
                  'source_commits': [], 'add_only': True},
        'engines': [{'name': 'kv', 'path': '/verif/harness/kv', 'serves_properties': sorted(CHECKS),
                     'kind_free_text': 'Coq 8.16 development (coq/) + Python correspondence harness; ./check Cxx quick|thorough'}],
        'checks': checks,
        'not_applicable': na,
        'notes': 'Machine-checked proof in Coq about hand-written executable models; each model is tied to the current /repo source by a '
                 'correspondence check executed in the same command. See DESIGN.md.',
    }
    (ROOT / 'MANIFEST.json').write_text(json.dumps(m, indent=1) + '\n')
    print('MANIFEST.json:', len(checks), 'checks;', len(na), 'not yet claimed')


if __name__ == '__main__':
    main()
