(* C14 — lemmas about Model/ResumeCycle.v: the memory flags composed with the C02 pipeline.
   Uses the theorems of Proofs/Progress.v (C02) and the dict / selection lemmas of Proofs/Resume.v. *)
From Coq Require Import ZArith List String Bool Arith Lia.
From KV Require Import Base.Harness Base.Json Model.Resume Model.Progress Model.ResumeCycle Proofs.Resume Proofs.Progress.
Import ListNotations.
Open Scope nat_scope.
Open Scope list_scope.

Lemma rc_reason_handler : forall r, pg_handler_reason (rc_reason r) = rs_is_handler_reason r.
Proof. destruct r; reflexivity. Qed.

(* done = True implies fully_handled_once is set by this call; an invocation implies a handling call with handlers *)
Lemma pg_done_fho : forall body owned reason selected lc now nd orc,
  r_done (pg_pipeline body owned reason selected lc now nd orc) = Some true ->
  r_fho (pg_pipeline body owned reason selected lc now nd orc) = true.
Proof.
  intros *. unfold pg_pipeline. destruct (pg_handler_reason reason); simpl; [|discriminate].
  destruct selected; simpl; [discriminate|]. intro H. injection H as H. exact H.
Qed.

Lemma pg_invoked_handling : forall body owned reason selected lc now nd orc kn,
  In kn (r_invoked (pg_pipeline body owned reason selected lc now nd orc)) ->
  pg_handler_reason reason = true /\ selected <> [].
Proof.
  intros * H. unfold pg_pipeline in H. destruct (pg_handler_reason reason); simpl in H; [|contradiction].
  destruct selected; simpl in H; [contradiction|]. split; [reflexivity | discriminate].
Qed.

Section CycleProofs.
  Context {K : Type}.
  Variable keqb : K -> K -> bool.
  Hypothesis keqb_spec : forall a b, keqb a b = true <-> a = b.
  Variable name : nat -> pg_hid.

  Notation find := (rs_find keqb).
  Notation cstep := (rc_step keqb name).
  Notation ids := (rc_ids name).
  Notation owned := (rc_owned name).

  (* ---------- the step in terms of the recalled memory ---------- *)
  Definition crecalled (ms : rs_mems K) (i : rc_in K) : rs_mem :=
    match find (ci_key i) ms with
    | Some m => m
    | None => {| rs_noticed := rs_is_listed (ci_evt i); rs_handled := false |}
    end.

  Definition cdetect (m : rs_mem) (i : rc_in K) : rs_reason * bool :=
    rs_detect (ci_evt i) (rc_view i) (initial_of m).

  Definition csel (regs : list rs_hdecl) (m : rs_mem) (i : rc_in K) : list rs_hdecl :=
    if ci_gate i && rs_is_handler_reason (fst (cdetect m i))
    then rs_get_handlers regs (fst (cdetect m i)) (snd (cdetect m i)) (ci_deleting i) (ci_match i) else [].

  (* the reason process_changing_cause sees; "not called" behaves as a reactor-only cause *)
  Definition ceff (m : rs_mem) (i : rc_in K) : pg_reason :=
    if ci_gate i then rc_reason (fst (cdetect m i)) else PRNoop.

  Definition cres (regs : list rs_hdecl) (m : rs_mem) (i : rc_in K) : pg_result :=
    pg_pipeline (ci_body i) (owned regs) (ceff m i) (ids (csel regs m i)) (ci_lc i) (ci_now i) (ci_nd i) (ci_orc i).

  Lemma cstep_obs : forall regs ms i,
    let o := snd (cstep regs ms i) in
    let m := crecalled ms i in
    co_initial0 o = initial_of m /\
    (co_reason o, co_initial o) = cdetect m i /\
    co_sel o = csel regs m i /\
    co_result o = cres regs m i /\
    co_handled_after o = (rs_handled m || r_fho (cres regs m i)).
  Proof.
    intros regs ms i. unfold rc_step, rs_recall, crecalled, cres, ceff, csel, cdetect, initial_of.
    destruct (find (ci_key i) ms) as [m|] eqn:F; simpl;
      destruct (rs_detect (ci_evt i) (rc_view i) _) as [reason initial] eqn:D; simpl; repeat split; reflexivity.
  Qed.

  Lemma cstep_find_other : forall regs ms i k,
    keqb (ci_key i) k = false -> find k (fst (cstep regs ms i)) = find k ms.
  Proof.
    intros regs ms i k Hne. unfold rc_step, rs_recall, rs_forget.
    destruct (find (ci_key i) ms) as [m|] eqn:F; simpl;
      destruct (rs_detect (ci_evt i) (rc_view i) _) as [reason initial]; simpl.
    - destruct (rs_is_deleted (ci_evt i)); simpl.
      + rewrite F. rewrite (find_del_same keqb). simpl. apply (find_del_other keqb keqb_spec). exact Hne.
      + rewrite F. simpl. apply (find_set_other keqb keqb_spec). exact Hne.
    - destruct (rs_is_deleted (ci_evt i)); simpl.
      + rewrite (find_set_same keqb keqb_spec). rewrite (find_del_same keqb). simpl.
        rewrite (find_del_other keqb keqb_spec) by exact Hne. apply (find_set_other keqb keqb_spec). exact Hne.
      + rewrite (find_set_same keqb keqb_spec). simpl.
        rewrite (find_set_other keqb keqb_spec) by exact Hne. apply (find_set_other keqb keqb_spec). exact Hne.
  Qed.

  Lemma cstep_same_mem : forall regs ms i, ci_evt i <> EDeleted ->
    find (ci_key i) (fst (cstep regs ms i)) =
    Some {| rs_noticed := rs_noticed (crecalled ms i); rs_handled := co_handled_after (snd (cstep regs ms i)) |}.
  Proof.
    intros regs ms i Hd. unfold rc_step, rs_recall, rs_forget, crecalled.
    destruct (find (ci_key i) ms) as [m|] eqn:F; simpl;
      destruct (rs_detect (ci_evt i) (rc_view i) _) as [reason initial]; simpl;
      destruct (ci_evt i); simpl; try congruence.
    all: try (rewrite F; simpl; apply (find_set_same keqb keqb_spec)).
    all: rewrite (find_set_same keqb keqb_spec); simpl; apply (find_set_same keqb keqb_spec).
  Qed.

  Lemma crecalled_found : forall ms i m, find (ci_key i) ms = Some m -> crecalled ms i = m.
  Proof. intros ms i m F. unfold crecalled. rewrite F. reflexivity. Qed.

  Lemma chandled_monotone : forall regs ms i,
    rs_handled (crecalled ms i) = true -> co_handled_after (snd (cstep regs ms i)) = true.
  Proof. intros regs ms i H. destruct (cstep_obs regs ms i) as (_ & _ & _ & _ & Hh). rewrite Hh, H. reflexivity. Qed.

  (* ---------- selection ---------- *)
  Lemma csel_sound : forall regs m i h, In h (csel regs m i) ->
    In h regs /\
    rs_select (fst (cdetect m i)) (snd (cdetect m i)) (ci_deleting i) (rs_mem_nat (hd_ix h) (ci_match i)) h = true /\
    ci_gate i = true /\ rs_is_handler_reason (fst (cdetect m i)) = true.
  Proof.
    intros regs m i h H. unfold csel in H.
    destruct (ci_gate i && rs_is_handler_reason (fst (cdetect m i))) eqn:G; [|contradiction].
    apply andb_true_iff in G. destruct G as [G1 G2].
    apply get_handlers_sound in H. destruct H as [H1 H2]. repeat split; assumption.
  Qed.

  Lemma csel_no_resume_when_not_initial : forall regs m i h,
    initial_of m = false -> rs_is_resume_handler h = true -> ~ In h (csel regs m i).
  Proof.
    intros regs m i h Hi Hr Hin. apply csel_sound in Hin. destruct Hin as (_ & Hs & _).
    apply select_resume_needs_initial in Hs; [|exact Hr].
    unfold cdetect in Hs. apply detect_initial_le in Hs. congruence.
  Qed.

  (* the cause handlers are among the resource's handlers (what the registry guarantees) *)
  Lemma dedup_ids_incl : forall l seen h, In h l ->
    existsb (fun s => Nat.eqb (fst s) (hd_fn h) && Nat.eqb (snd s) (hd_id h)) seen = false ->
    In (name (hd_id h)) (ids (rs_dedup seen l)).
  Proof.
    intros l seen h Hin Hs. destruct (dedup_repr l seen h Hin Hs) as (h' & H1 & _ & H3).
    unfold rc_ids. apply in_map_iff. exists h'. split; [rewrite H3; reflexivity | exact H1].
  Qed.

  Lemma csel_incl_owned : forall regs m i, incl (ids (csel regs m i)) (owned regs).
  Proof.
    intros regs m i s Hs. unfold rc_ids in Hs. apply in_map_iff in Hs. destruct Hs as (h & E & Hin). subst s.
    apply csel_sound in Hin. destruct Hin as (Hreg & _). unfold rc_owned. apply dedup_ids_incl; [exact Hreg | reflexivity].
  Qed.

  Lemma ceff_handling : forall m i,
    pg_handler_reason (ceff m i) = true -> ci_gate i = true /\ rs_is_handler_reason (fst (cdetect m i)) = true /\
    ceff m i = rc_reason (fst (cdetect m i)).
  Proof.
    intros m i H. unfold ceff in *. destruct (ci_gate i); [|discriminate].
    rewrite rc_reason_handler in H. repeat split; [exact H].
  Qed.

  (* ---------- successes ---------- *)
  Lemma succeeded_spec : forall regs ms i h,
    NoDup (map hd_ix regs) -> In h regs ->
    rc_succeeded name (hd_ix h) i (snd (cstep regs ms i)) = true ->
    In h (csel regs (crecalled ms i) i) /\
    exists n, In (name (hd_id h), n) (r_invoked (cres regs (crecalled ms i) i)) /\
              rc_success (fst (ci_orc i (name (hd_id h)) n)) = true.
  Proof.
    intros regs ms i h ND Hin H. unfold rc_succeeded in H.
    destruct (cstep_obs regs ms i) as (_ & _ & Es & Er & _). rewrite Es, Er in H.
    apply existsb_exists in H. destruct H as (h' & Hsel & H).
    apply andb_true_iff in H. destruct H as [Hix H]. apply Nat.eqb_eq in Hix.
    assert (In h' regs) by (apply csel_sound in Hsel; tauto).
    assert (h' = h) by (eapply ix_unique; eassumption). subst h'.
    split; [exact Hsel|].
    apply existsb_exists in H. destruct H as ([s n] & Hinv & H). simpl in H.
    apply andb_true_iff in H. destruct H as [Hs Hok]. apply String.eqb_eq in Hs. subst s.
    exists n. split; assumption.
  Qed.

  Lemma no_success_on_deleted : forall regs ms i ix,
    ci_evt i = EDeleted -> rc_succeeded name ix i (snd (cstep regs ms i)) = false.
  Proof.
    intros regs ms i ix Hd. unfold rc_succeeded.
    destruct (cstep_obs regs ms i) as (_ & _ & Es & _). rewrite Es.
    unfold csel, cdetect, rs_detect. rewrite Hd. simpl. rewrite andb_false_r. reflexivity.
  Qed.

  (* ---------- runs ---------- *)
  Fixpoint crun (regs : list rs_hdecl) (ms : rs_mems K) (ls : list (rc_label K)) : rs_mems K :=
    match ls with
    | [] => ms
    | CRestart :: ls' => crun regs [] ls'
    | CEv i :: ls' => crun regs (fst (cstep regs ms i)) ls'
    end.

  Definition cobs_at (regs : list rs_hdecl) (pre : list (rc_label K)) (b : rc_in K) : rc_obs :=
    snd (cstep regs (crun regs [] pre) b).

  Lemma crun_app : forall regs l1 ms l2, crun regs ms (l1 ++ l2) = crun regs (crun regs ms l1) l2.
  Proof. intros regs l1. induction l1 as [|[i|] l1 IH]; intros ms l2; simpl; [reflexivity | apply IH | apply IH]. Qed.

  Fixpoint cepoch_after (e : nat) (ls : list (rc_label K)) : nat :=
    match ls with [] => e | CRestart :: ls' => cepoch_after (S e) ls' | CEv _ :: ls' => cepoch_after e ls' end.

  Lemma cexec_app : forall regs l1 ms e l2,
    snd (rc_exec keqb name regs ms e (l1 ++ l2)) =
    snd (rc_exec keqb name regs ms e l1) ++ snd (rc_exec keqb name regs (crun regs ms l1) (cepoch_after e l1) l2).
  Proof.
    intros regs l1. induction l1 as [|[i|] l1 IH]; intros ms e l2; simpl.
    - reflexivity.
    - destruct (cstep regs ms i) as [ms' o] eqn:S. specialize (IH ms' e l2).
      destruct (rc_exec keqb name regs ms' e (l1 ++ l2)) as [msf tr].
      destruct (rc_exec keqb name regs ms' e l1) as [msf1 tr1]. simpl in *. rewrite IH. reflexivity.
    - apply IH.
  Qed.

  Lemma ctrace_snoc : forall regs pre b,
    rc_trace keqb name regs (pre ++ [CEv b]) =
    rc_trace keqb name regs pre ++ [{| ce_epoch := cepoch_after 0 pre; ce_in := b; ce_obs := cobs_at regs pre b |}].
  Proof.
    intros regs pre b. unfold rc_trace. rewrite cexec_app. f_equal. simpl. unfold cobs_at.
    destruct (cstep regs (crun regs [] pre) b) as [ms' o]. reflexivity.
  Qed.

  (* ---------- clause A: the obligation to resume stays until a cycle closes ---------- *)
  Definition carmed (k : K) (ms : rs_mems K) : Prop :=
    exists m, find k ms = Some m /\ rs_noticed m = true /\ rs_handled m = false.

  Lemma carmed_step : forall regs k ms i,
    (keqb (ci_key i) k = true -> ci_evt i <> EDeleted /\ co_handled_after (snd (cstep regs ms i)) = false) ->
    carmed k ms -> carmed k (fst (cstep regs ms i)).
  Proof.
    intros regs k ms i Hq (m & F & N & H).
    destruct (keqb (ci_key i) k) eqn:E.
    - apply keqb_spec in E. subst k. destruct (Hq eq_refl) as [Hd Hh].
      unfold carmed. rewrite cstep_same_mem by exact Hd. eexists. split; [reflexivity|]. simpl.
      rewrite (crecalled_found ms i m F). split; [exact N | exact Hh].
    - exists m. split; [|split; assumption]. rewrite cstep_find_other by exact E. exact F.
  Qed.

  Lemma carmed_run : forall regs k l ms,
    rc_quiet keqb k l ->
    (forall l1 c l2, l = l1 ++ CEv c :: l2 -> keqb (ci_key c) k = true ->
                     co_handled_after (snd (cstep regs (crun regs ms l1) c)) = false) ->
    carmed k ms -> carmed k (crun regs ms l).
  Proof.
    intros regs k l. induction l as [|[i|] l IH]; intros ms Hq Hopen Ha; simpl in *.
    - exact Ha.
    - destruct Hq as [Hq1 Hq2]. apply IH.
      + exact Hq2.
      + intros l1 c l2 El Hk. apply (Hopen (CEv i :: l1) c l2); [rewrite El; reflexivity | exact Hk].
      + apply carmed_step; [|exact Ha]. intro Ek. split; [apply Hq1; exact Ek|].
        apply (Hopen [] i l); [reflexivity | exact Ek].
    - contradiction.
  Qed.

  Lemma carmed_initial : forall ms b, carmed (ci_key b) ms -> initial_of (crecalled ms b) = true.
  Proof. intros ms b (m & F & N & H). unfold crecalled. rewrite F. unfold initial_of. rewrite N, H. reflexivity. Qed.

  Lemma cfresh_listed_arms : forall regs ms a,
    find (ci_key a) ms = None -> ci_evt a = EListed -> co_handled_after (snd (cstep regs ms a)) = false ->
    carmed (ci_key a) (fst (cstep regs ms a)).
  Proof.
    intros regs ms a F E H. unfold carmed. rewrite cstep_same_mem by congruence.
    eexists. split; [reflexivity|]. simpl. unfold crecalled. rewrite F, E. simpl. split; [reflexivity | exact H].
  Qed.

  Lemma pending_until_closed : forall regs pre a l b,
    find (ci_key a) (crun regs [] pre) = None ->          (* first event of the object in this process ... *)
    ci_evt a = EListed ->                                  (* ... from the listing *)
    ci_key a = ci_key b -> rc_quiet keqb (ci_key b) (CEv a :: l) ->
    co_handled_after (cobs_at regs pre a) = false ->       (* no event of the object has closed a cycle so far *)
    (forall l1 c l2, l = l1 ++ CEv c :: l2 -> ci_key c = ci_key b ->
                     co_handled_after (cobs_at regs (pre ++ CEv a :: l1) c) = false) ->
    co_initial0 (cobs_at regs (pre ++ CEv a :: l) b) = true.
  Proof.
    intros regs pre a l b F Ev Hk Hq Ha Hopen. unfold cobs_at in *. rewrite crun_app. simpl.
    destruct (cstep_obs regs (crun regs (fst (cstep regs (crun regs [] pre) a)) l) b) as (E0 & _). rewrite E0.
    apply carmed_initial. simpl in Hq. destruct Hq as [_ Hq2]. apply carmed_run.
    - exact Hq2.
    - intros l1 c l2 El Hc. specialize (Hopen l1 c l2 El (proj1 (keqb_spec _ _) Hc)).
      rewrite crun_app in Hopen. simpl in Hopen. exact Hopen.
    - rewrite <- Hk. apply cfresh_listed_arms; assumption.
  Qed.

  (* what the reactor selects for an object whose recalled memory is initial (one step, any memories) *)
  Definition cselects_resume (regs : list rs_hdecl) (b : rc_in K) (h : rs_hdecl) (o : rc_obs) : Prop :=
    co_initial o = true /\
    co_reason o = (if ci_deleting b then RsDelete else if ci_diff_empty b then RsResume else RsUpdate) /\
    exists h', In h' (co_sel o) /\ hd_fn h' = hd_fn h /\ hd_id h' = hd_id h.

  Lemma initial_selects : forall regs ms b h,
    co_initial0 (snd (cstep regs ms b)) = true ->
    ci_evt b <> EDeleted -> ci_gate b = true -> ci_old_none b = false ->
    (ci_deleting b = true -> ci_blocked b = true /\ rs_ob (hd_deleted h) = true) ->
    In h regs -> hd_reason h = None -> rs_is_resume_handler h = true -> rs_mem_nat (hd_ix h) (ci_match b) = true ->
    cselects_resume regs b h (snd (cstep regs ms b)).
  Proof.
    intros regs ms b h Hi Hev Hg Hold Hdel Hin Hre Hr Hm.
    destruct (cstep_obs regs ms b) as (E0 & Ed & Es & _). set (o := snd (cstep regs ms b)) in *.
    set (m := crecalled ms b) in *. rewrite E0 in Hi.
    set (rz := if ci_deleting b then RsDelete else if ci_diff_empty b then RsResume else RsUpdate).
    assert (D : cdetect m b = (rz, true)).
    { unfold cdetect, rs_detect, rc_view, rz. simpl. rewrite Hi, Hold.
      destruct (ci_evt b) eqn:Ev; try congruence; simpl;
        (destruct (ci_deleting b) eqn:Dl; simpl;
         [destruct (Hdel eq_refl) as [Hb _]; rewrite Hb; reflexivity
         | destruct (ci_diff_empty b); reflexivity]). }
    rewrite D in Ed. injection Ed as Er Ei.
    assert (Hh : rs_is_handler_reason rz = true) by (unfold rz; destruct (ci_deleting b), (ci_diff_empty b); reflexivity).
    assert (Hsel : csel regs m b = rs_get_handlers regs rz true (ci_deleting b) (ci_match b)).
    { unfold csel. rewrite D. simpl. rewrite Hg, Hh. reflexivity. }
    destruct (get_handlers_complete regs rz true (ci_deleting b) (ci_match b) h Hin) as (h' & H1 & H2 & H3).
    { apply select_resume_true; try assumption. intro Dl. apply (Hdel Dl). }
    split; [exact Ei|]. split; [exact Er|].
    exists h'. rewrite Es, Hsel. repeat split; assumption.
  Qed.

  (* the cycle is closed in a step only when every selected handler — every selected resume handler — has finished *)
  Lemma closes_only_when_finished : forall regs ms i,
    rs_handled (crecalled ms i) = false ->
    co_handled_after (snd (cstep regs ms i)) = true ->
    ci_gate i = true /\ rs_is_handler_reason (co_reason (snd (cstep regs ms i))) = true /\
    forall h', In h' (co_sel (snd (cstep regs ms i))) ->
      exists hs, pg_find (name (hd_id h')) (st_items (r_final (co_result (snd (cstep regs ms i))))) = Some hs /\
                 pg_finished hs = true.
  Proof.
    intros regs ms i Hm Ha.
    destruct (cstep_obs regs ms i) as (_ & Ed & Es & Er & Eh). set (m := crecalled ms i) in *.
    rewrite Eh, Hm in Ha. simpl in Ha.
    assert (Hr : pg_handler_reason (ceff m i) = true).
    { destruct (pg_handler_reason (ceff m i)) eqn:E; [reflexivity|].
      destruct (pg_pipeline_idle (ci_body i) (owned regs) (ceff m i) (ids (csel regs m i)) (ci_lc i) (ci_now i) (ci_nd i)
                                 (ci_orc i) E) as (_ & _ & F & _). unfold cres in Ha. cbv zeta in F. congruence. }
    destruct (ceff_handling m i Hr) as (Hg & Hh & _).
    split; [exact Hg|]. split; [apply (f_equal fst) in Ed; simpl in Ed; rewrite Ed; exact Hh|].
    intros h' Hin. rewrite Es in Hin. rewrite Er.
    destruct (close_iff_done (ci_body i) (owned regs) (ceff m i) (ids (csel regs m i)) (ci_lc i) (ci_now i) (ci_nd i)
                             (ci_orc i) Hr) as [[Hc _] _].
    apply (Hc Ha). unfold rc_ids. apply in_map_iff. exists h'. split; [reflexivity | exact Hin].
  Qed.

  (* ---------- clause C: who is invoked ---------- *)
  Lemma invoked_are_selected : forall regs ms i s n,
    In (s, n) (r_invoked (co_result (snd (cstep regs ms i)))) ->
    (exists h', In h' (co_sel (snd (cstep regs ms i))) /\ name (hd_id h') = s) /\
    pg_rec_finished (pg_find s (ci_body i)) = false /\
    pg_rec_sleeping (ci_now i) (pg_find s (ci_body i)) = false /\
    n = pg_rec_retries (pg_find s (ci_body i)).
  Proof.
    intros regs ms i s n H.
    destruct (cstep_obs regs ms i) as (_ & _ & Es & Er & _). rewrite Er in H. rewrite Es.
    apply (invoked_only_unfinished _ _ _ _ _ _ _ _ _ _ (csel_incl_owned regs (crecalled ms i) i)) in H.
    destruct H as (Hsel & H2 & H3 & H4). split; [|repeat split; assumption].
    unfold rc_ids in Hsel. apply in_map_iff in Hsel. destruct Hsel as (h' & E & Hin). exists h'. split; assumption.
  Qed.

  Lemma cycle_not_on_deleting : forall regs ms i h,
    rs_is_resume_handler h = true -> ci_deleting i = true ->
    In h (co_sel (snd (cstep regs ms i))) -> rs_ob (hd_deleted h) = true.
  Proof.
    intros regs ms i h Hr Hd Hin. destruct (cstep_obs regs ms i) as (_ & _ & Es & _). rewrite Es in Hin.
    apply csel_sound in Hin. destruct Hin as (_ & Hs & _). rewrite Hd in Hs.
    eapply select_resume_deleting_opted; eassumption.
  Qed.

  (* ---------- clause B: at most once ---------- *)
  Notation csuccesses := (rc_successes keqb name).

  Lemma csuccesses_cons : forall e k ix en tr,
    csuccesses e k ix (en :: tr) = (if rc_entry_counts keqb name e k ix en then 1 else 0) + csuccesses e k ix tr.
  Proof. intros. unfold rc_successes. simpl. destruct (rc_entry_counts keqb name e k ix en); reflexivity. Qed.

  Definition cinv (k : K) (h : rs_hdecl) (ms : rs_mems K) (phase : nat) (prev : option rc_records) (seen : bool) : Prop :=
    (phase = 2 -> exists m, find k ms = Some m /\ rs_handled m = true) /\
    (phase = 1 -> exists b, prev = Some b /\ pg_rec_finished (pg_find (name (hd_id h)) b) = true) /\
    (3 <= phase -> seen = true /\ rs_ob (hd_deleted h) = false).

  Lemma at_most_once_cstep : forall regs k h ms i phase prev seen,
    NoDup (map hd_ix regs) -> In h regs -> rs_is_resume_handler h = true ->
    ci_key i = k -> ci_evt i <> EDeleted ->
    cinv k h ms phase prev seen ->
    match prev with Some b => forall s, pg_find s (ci_body i) = pg_find s b | None => True end ->
    pg_keeps_finished (ci_body i) (ci_orc i) ->
    (seen = true -> ci_deleting i = true) ->
    (phase = 1 -> ci_deleting i && negb (rs_ob (hd_deleted h)) = false -> rc_purges name regs i (snd (cstep regs ms i)) = false) ->
    let o := snd (cstep regs ms i) in
    let phase' := rc_phase_next keqb name k (hd_ix h) (rs_ob (hd_deleted h)) phase i o in
    cinv k h (fst (cstep regs ms i)) phase' (Some (rc_next_body i o)) (seen || ci_deleting i) /\
    (if rc_succeeded name (hd_ix h) i o then 1 else 0) + allowance false phase' <= allowance false phase.
  Proof.
    intros regs k h ms i phase prev seen ND Hin Hr Hk Hev (Inv2 & Inv1 & Inv3) Hw Hkf Hperm Hg o phase'.
    assert (Ek : keqb (ci_key i) k = true) by (apply keqb_spec; exact Hk).
    destruct (cstep_obs regs ms i) as (E0 & Ed & Es & Er & Eh). fold o in E0, Ed, Es, Er, Eh.
    set (m := crecalled ms i) in *. set (hid := name (hd_id h)) in *.
    assert (Hincl := csel_incl_owned regs m i).
    (* the memory after the step *)
    assert (Hmem : co_handled_after o = true ->
                   exists m', find k (fst (cstep regs ms i)) = Some m' /\ rs_handled m' = true).
    { intros Hh. rewrite <- Hk. rewrite cstep_same_mem by exact Hev.
      eexists. split; [reflexivity|]. simpl. exact Hh. }
    (* the record of a handler that succeeded in a step that leaves the cycle open says "finished" *)
    assert (Hrec : rc_succeeded name (hd_ix h) i o = true -> co_handled_after o = false ->
                   pg_rec_finished (pg_find hid (rc_next_body i o)) = true).
    { intros Su Ha. destruct (succeeded_spec regs ms i h ND Hin Su) as (_ & n & Hinv & Hok).
      fold m hid in Hinv, Hok.
      destruct (pg_invoked_handling _ _ _ _ _ _ _ _ _ Hinv) as [Hhr Hne].
      destruct (pg_pipeline_final (ci_body i) (owned regs) (ceff m i) (ids (csel regs m i)) (ci_lc i) (ci_now i) (ci_nd i)
                                  (ci_orc i) Hhr Hne) as (_ & Hdone & Hfho & _).
      cbv zeta in Hdone, Hfho. fold (cres regs m i) in Hdone, Hfho.
      rewrite Eh in Ha. apply orb_false_iff in Ha. destruct Ha as [_ Ha]. rewrite Hfho in Ha. rewrite Ha in Hdone.
      destruct (attempt_is_recorded (ci_body i) (owned regs) (ceff m i) (ids (csel regs m i)) (ci_lc i) (ci_now i) (ci_nd i)
                                    (ci_orc i) hid n Hhr Hne Hdone Hinv) as (d & Hd & _ & _ & _ & _ & _ & Hfin & _).
      unfold rc_next_body. rewrite pg_find_apply, Er. fold (cres regs m i) in Hd. rewrite Hd, Hfin.
      unfold rc_success in Hok. apply andb_true_iff in Hok. tauto. }
    unfold phase', rc_phase_next. rewrite Ek.
    destruct phase as [|[|[|phase]]].
    - (* not yet succeeded *)
      destruct (rc_succeeded name (hd_ix h) i o) eqn:Su.
      + destruct (co_handled_after o) eqn:Ha.
        * split; [split; [intros _; apply Hmem; reflexivity | split; intro; lia] | simpl; lia].
        * split; [|simpl; lia]. split; [intro; lia|]. split; [|intro; lia].
          intros _. eexists. split; [reflexivity | apply Hrec; reflexivity].
      + split; [split; [intro; lia | split; intro; lia] | simpl; lia].
    - (* succeeded, cycle open: the record says finished, here and (unless the cycle closes or a deletion dooms it) after *)
      destruct (Inv1 eq_refl) as (b & Hp & Hfb). subst prev.
      assert (Hfin : pg_rec_finished (pg_find hid (ci_body i)) = true) by (rewrite Hw; exact Hfb).
      assert (Hns : rc_succeeded name (hd_ix h) i o = false).
      { destruct (rc_succeeded name (hd_ix h) i o) eqn:Su; [|reflexivity]. exfalso.
        destruct (succeeded_spec regs ms i h ND Hin Su) as (_ & n & Hinv & _). fold m hid in Hinv.
        apply (finished_never_selected (ci_body i) (owned regs) (ceff m i) (ids (csel regs m i)) (ci_lc i) (ci_now i) (ci_nd i)
                                       (ci_orc i) hid Hincl Hfin).
        apply in_map_iff. exists (hid, n). split; [reflexivity | exact Hinv]. }
      rewrite Hns. destruct (co_handled_after o) eqn:Ha.
      + split; [split; [intros _; apply Hmem; reflexivity | split; intro; lia] | simpl; lia].
      + destruct (ci_deleting i && negb (rs_ob (hd_deleted h))) eqn:Dm.
        * (* doomed: deleting and not opted in *)
          apply andb_true_iff in Dm. destruct Dm as [Dl Dn]. apply negb_true_iff in Dn.
          split; [|simpl; lia]. split; [intro; lia|]. split; [intro; lia|].
          intros _. rewrite Dl, orb_true_r. split; [reflexivity | exact Dn].
        * split; [|simpl; lia]. split; [intro; lia|]. split; [|intro; lia]. intros _. eexists. split; [reflexivity|].
          unfold rc_next_body. rewrite pg_find_apply, Er.
          apply (finished_stays_finished (ci_body i) (owned regs) (ceff m i) (ids (csel regs m i)) (ci_lc i) (ci_now i) (ci_nd i)
                                         (ci_orc i) Hincl Hkf); [| |exact Hfin].
          -- intro Hd. apply pg_done_fho in Hd. fold (cres regs m i) in Hd.
             rewrite Hd, orb_true_r in Eh. discriminate.
          -- intro Hhr. destruct (ceff_handling m i Hhr) as (G1 & G2 & G3).
             specialize (Hg eq_refl eq_refl). unfold rc_purges in Hg. fold o in Hg.
             apply (f_equal fst) in Ed. simpl in Ed. rewrite Es, Ed, G1, G2 in Hg. simpl in Hg. rewrite G3. exact Hg.
    - (* a cycle has closed: the memory says "handled" *)
      destruct (Inv2 eq_refl) as (m0 & Fm & Hhm).
      assert (Hrc : m = m0) by (apply crecalled_found; rewrite Hk; exact Fm).
      assert (Hni : initial_of m = false) by (rewrite Hrc; unfold initial_of; rewrite Hhm; apply andb_false_r).
      assert (Hns : rc_succeeded name (hd_ix h) i o = false).
      { destruct (rc_succeeded name (hd_ix h) i o) eqn:Su; [|reflexivity]. exfalso.
        destruct (succeeded_spec regs ms i h ND Hin Su) as (Hsel & _). fold m in Hsel.
        eapply csel_no_resume_when_not_initial; eassumption. }
      assert (Ha : co_handled_after o = true) by (apply chandled_monotone; fold m; rewrite Hrc; exact Hhm).
      rewrite Hns. split; [split; [intros _; apply Hmem; exact Ha | split; intro; lia] | simpl; lia].
    - (* doomed: every event of the object shows the deletion, the registration has not opted in *)
      destruct (Inv3 ltac:(lia)) as [Hs Hno].
      assert (Hdl : ci_deleting i = true) by (apply Hperm; exact Hs).
      assert (Hns : rc_succeeded name (hd_ix h) i o = false).
      { destruct (rc_succeeded name (hd_ix h) i o) eqn:Su; [|reflexivity]. exfalso.
        destruct (succeeded_spec regs ms i h ND Hin Su) as (Hsel & _). fold m in Hsel.
        rewrite <- Es in Hsel. pose proof (cycle_not_on_deleting regs ms i h Hr Hdl Hsel). congruence. }
      rewrite Hns. split; [|simpl; lia]. split; [intro; lia|]. split; [intro; lia|].
      intros _. rewrite Hs. split; [reflexivity | exact Hno].
  Qed.

  Lemma at_most_once_cmodes : forall regs k h,
    NoDup (map hd_ix regs) -> In h regs -> rs_is_resume_handler h = true ->
    forall ls ms epoch phase prev seen (gone : bool),
      rc_uid_final keqb k ls ->
      rc_world keqb name regs k ms prev ls ->
      rc_orcs_ok keqb k ls ->
      rc_deleting_permanent keqb k seen ls ->
      rc_no_purge_while_open keqb name regs k (hd_ix h) (rs_ob (hd_deleted h)) ms phase ls ->
      (if gone then rc_no_key keqb k ls else cinv k h ms phase prev seen) ->
      forall e, csuccesses e k (hd_ix h) (snd (rc_exec keqb name regs ms epoch ls)) <= bound e epoch (allowance gone phase).
  Proof.
    intros regs k h ND Hin Hr ls.
    induction ls as [|[i|] ls IH]; intros ms epoch phase prev seen gone Hu Hw Ho Hp Hg Hm e.
    - simpl. unfold rc_successes. simpl. lia.
    - simpl in Hu, Hw, Ho, Hp, Hg. destruct Hu as [Hu1 Hu2]. destruct Ho as [Ho1 Ho2].
      simpl. destruct (cstep regs ms i) as [ms' o] eqn:S. destruct Hg as [Hg1 Hg2].
      assert (So : o = snd (cstep regs ms i)) by (rewrite S; reflexivity).
      assert (Sm : ms' = fst (cstep regs ms i)) by (rewrite S; reflexivity).
      destruct (rc_exec keqb name regs ms' epoch ls) as [msf tr] eqn:X. simpl.
      assert (Xs : tr = snd (rc_exec keqb name regs ms' epoch ls)) by (rewrite X; reflexivity).
      rewrite csuccesses_cons. unfold rc_entry_counts. simpl.
      destruct (keqb (ci_key i) k) eqn:Ek.
      + destruct Hw as [Hw1 Hw2]. destruct Hp as [Hp1 Hp2].
        destruct gone.
        { simpl in Hm. destruct Hm as [Hm _]. congruence. }
        assert (Hk : ci_key i = k) by (apply keqb_spec; exact Ek).
        destruct (evt_deleted_dec (ci_evt i)) as [Ev|Ev].
        * rewrite So. rewrite no_success_on_deleted by exact Ev. rewrite andb_false_r. simpl.
          specialize (IH ms' epoch (rc_phase_next keqb name k (hd_ix h) (rs_ob (hd_deleted h)) phase i o)
                         (Some (rc_next_body i o)) (seen || ci_deleting i) true Hu2 Hw2 Ho2 Hp2 Hg2 (Hu1 eq_refl Ev) e).
          rewrite <- Xs in IH. simpl in IH. eapply Nat.le_trans; [exact IH|]. apply bound_mono. lia.
        * destruct (at_most_once_cstep regs k h ms i phase prev seen ND Hin Hr Hk Ev Hm Hw1 (Ho1 eq_refl) Hp1) as [Hinv' Hbud].
          { intros P Q. rewrite <- So. apply Hg1; [reflexivity | exact P | exact Q]. }
          rewrite <- So, <- Sm in Hinv'. rewrite <- So in Hbud.
          specialize (IH ms' epoch (rc_phase_next keqb name k (hd_ix h) (rs_ob (hd_deleted h)) phase i o)
                         (Some (rc_next_body i o)) (seen || ci_deleting i) false Hu2 Hw2 Ho2 Hp2 Hg2 Hinv' e).
          rewrite <- Xs in IH. rewrite andb_true_r.
          pose proof (bound_add e epoch _ _ _ Hbud) as Hb.
          destruct (Nat.eqb epoch e); destruct (rc_succeeded name (hd_ix h) i o); simpl in *; lia.
      + rewrite andb_false_r. simpl.
        unfold rc_phase_next in Hg2. rewrite Ek in Hg2.
        specialize (IH ms' epoch phase prev seen gone Hu2 Hw Ho2 Hp Hg2).
        rewrite <- Xs in IH. apply IH.
        destruct gone.
        * simpl in Hm. tauto.
        * destruct Hm as (M2 & M1 & M3). split; [|split; assumption].
          intro Hge. destruct (M2 Hge) as (m & Fm & Hhm). exists m. split; [|exact Hhm].
          rewrite Sm. rewrite cstep_find_other by exact Ek. exact Fm.
    - simpl in Hu, Hw, Ho, Hp, Hg. simpl.
      assert (I0 : cinv k h [] 0 None false) by (split; [intro; lia | split; intro; lia]).
      specialize (IH [] (S epoch) 0 None false false Hu Hw Ho Hp Hg I0 e). simpl in IH.
      destruct (bound_restart e epoch (allowance gone phase)) as [B|B].
      + eapply Nat.le_trans; [exact IH | exact B].
      + subst e. unfold bound in IH. rewrite (proj2 (Nat.ltb_lt epoch (S epoch))) in IH by lia. lia.
  Qed.

  Lemma cycle_at_most_once : forall regs k h ls,
    NoDup (map hd_ix regs) -> In h regs -> rs_is_resume_handler h = true ->
    rc_uid_final keqb k ls ->
    rc_world keqb name regs k [] None ls ->
    rc_orcs_ok keqb k ls ->
    rc_deleting_permanent keqb k false ls ->
    rc_no_purge_while_open keqb name regs k (hd_ix h) (rs_ob (hd_deleted h)) [] 0 ls ->
    forall e, csuccesses e k (hd_ix h) (rc_trace keqb name regs ls) <= 1.
  Proof.
    intros regs k h ls ND Hin Hr Hu Hw Ho Hp Hg e. unfold rc_trace.
    eapply Nat.le_trans.
    - apply (at_most_once_cmodes regs k h ND Hin Hr ls [] 0 0 None false false Hu Hw Ho Hp Hg).
      split; [intro; lia | split; intro; lia].
    - apply bound_le_1. simpl. lia.
  Qed.

  (* which of the selected handlers run in a handling step: the due ones, as the lifecycle picks (C02_due_is_invoked) *)
  Lemma cycle_due_is_invoked : forall regs ms i,
    let o := snd (cstep regs ms i) in
    ci_gate i = true -> rs_is_handler_reason (co_reason o) = true ->
    let invoked := map fst (r_invoked (co_result o)) in
    let due := pg_due (ci_body i) (ids (co_sel o)) (ci_now i) in
    (ci_lc i = LAll -> invoked = due) /\
    (ci_lc i = LOne -> invoked = firstn 1 due) /\
    (ci_lc i = LAsap -> (due = [] /\ invoked = []) \/
                        exists s, invoked = [s] /\ In s due /\
                                  forall s', In s' due -> (pg_rec_retries (pg_find s (ci_body i)) <= pg_rec_retries (pg_find s' (ci_body i)))%Z).
  Proof.
    intros regs ms i o Hg Hh.
    destruct (cstep_obs regs ms i) as (_ & Ed & Es & Er & _). fold o in Ed, Es, Er.
    set (m := crecalled ms i) in *.
    assert (Hr : pg_handler_reason (ceff m i) = true).
    { unfold ceff. rewrite Hg, rc_reason_handler. apply (f_equal fst) in Ed. simpl in Ed. rewrite <- Ed. exact Hh. }
    rewrite Er, Es. unfold cres.
    exact (due_is_invoked (ci_body i) (owned regs) (ceff m i) (ids (csel regs m i)) (ci_lc i) (ci_now i) (ci_nd i) (ci_orc i)
                          Hr (csel_incl_owned regs m i)).
  Qed.

End CycleProofs.

(* ---------- concrete witnesses (uid strings as keys, handler ids "h0", "h1", ...) ---------- *)
Open Scope string_scope.

Definition xnames : list pg_hid := ["h0"; "h1"; "h2"].
Definition xname : nat -> pg_hid := rc_name_of xnames.
Definition xok : pg_outcome := mkPgOut true None None None [].
Definition xtmp : pg_outcome := mkPgOut false (Some "later") (Some 10000000%Z) None [].

(* plain handlers: an outcome per (id, retry), nothing written besides *)
Lemma table_oracle_keeps_finished : forall body tbl d, pg_keeps_finished body (pg_table_oracle tbl d).
Proof. intros body tbl d k n s r H. simpl in H. contradiction. Qed.

Definition xev (e : rs_evt) (diff_empty : bool) (body : rc_records) (matching : list nat) (lc : pg_lifecycle) (now : Z)
           (tbl : list (pg_hid * Z * pg_outcome)) : rc_in string :=
  {| ci_key := "u"; ci_evt := e; ci_old_none := false; ci_diff_empty := diff_empty; ci_deleting := false; ci_blocked := false;
     ci_body := body; ci_gate := true; ci_match := matching; ci_lc := lc; ci_now := now; ci_nd := negb diff_empty;
     ci_orc := pg_table_oracle tbl xok |}.

Definition xstep (regs : list rs_hdecl) (ms : rs_mems string) (i : rc_in string) := rc_step String.eqb xname regs ms i.
Definition xnext (regs : list rs_hdecl) (ms : rs_mems string) (i : rc_in string) : rc_records :=
  rc_next_body i (snd (xstep regs ms i)).

(* F1401 in the model: two resume handlers; h0 is filtered (registries.match follows a label), h1 keeps failing temporarily. *)
Definition xregs : list rs_hdecl := [rs_on_resume 0 0 0 None; rs_on_resume 1 1 1 None].
Definition xh1_fails : list (pg_hid * Z * pg_outcome) := [("h1", 0%Z, xtmp); ("h1", 1%Z, xtmp); ("h1", 2%Z, xtmp)].

Definition xf1 : rc_in string := xev EListed true [] [0; 1] LAll 0%Z xh1_fails.              (* start: h0 succeeds, h1 will retry *)
Definition xf_ms1 := fst (xstep xregs [] xf1).
Definition xf2 : rc_in string := xev EModified false (xnext xregs [] xf1) [1] LAll 1000000%Z xh1_fails.   (* label off: an update *)
Definition xf_ms2 := fst (xstep xregs xf_ms1 xf2).
Definition xf3 : rc_in string := xev EModified true (xnext xregs xf_ms1 xf2) [0; 1] LAll 2000000%Z xh1_fails.  (* label on again *)
Definition xflap : list (rc_label string) := [CEv xf1; CEv xf2; CEv xf3].

Lemma cycle_at_most_once_unguarded_refuted :
  exists regs ls k h,
    NoDup (map hd_ix regs) /\ In h regs /\ rs_is_resume_handler h = true /\
    rc_uid_final String.eqb k ls /\
    rc_world String.eqb xname regs k [] None ls /\
    rc_orcs_ok String.eqb k ls /\
    rc_deleting_permanent String.eqb k false ls /\
    rc_successes String.eqb xname 0 k (hd_ix h) (rc_trace String.eqb xname regs ls) = 2.
Proof.
  exists xregs, xflap, "u", (rs_on_resume 0 0 0 None).
  split; [repeat constructor; simpl; intuition discriminate|].
  split; [left; reflexivity|]. split; [reflexivity|].
  split; [simpl; repeat split; intros; discriminate|].
  split; [vm_compute; repeat split; intros; reflexivity|].
  split; [simpl; repeat split; intros; apply table_oracle_keeps_finished|].
  split; [simpl; repeat split; intros; try reflexivity; discriminate|].
  vm_compute. reflexivity.
Qed.

(* ... and it is the supersession purge of the second event that the guard excludes *)
Lemma xflap_purges : rc_purges xname xregs xf2 (snd (xstep xregs xf_ms1 xf2)) = true.
Proof. vm_compute. reflexivity. Qed.

(* Non-vacuity: a 410 re-listing in the middle of a retrying resume handler (lifecycle asap), the retry, a second
   re-listing after the cycle closed, an edit, a restart: every hypothesis of cycle_at_most_once holds, the bound is
   attained in both processes. *)
Definition yregs : list rs_hdecl := [rs_on_resume 0 0 0 None; rs_on_reason RsUpdate 1 1 1].
Definition yfail_once : list (pg_hid * Z * pg_outcome) := [("h0", 0%Z, xtmp)].

Definition y1 : rc_in string := xev EListed true [] [0; 1] LAsap 0%Z yfail_once.                              (* fails, retry in 10 s *)
Definition y_ms1 := fst (xstep yregs [] y1).
Definition y2 : rc_in string := xev EModified true (xnext yregs [] y1) [0; 1] LAsap 1000000%Z yfail_once.     (* echo: sleeping *)
Definition y_ms2 := fst (xstep yregs y_ms1 y2).
Definition y3 : rc_in string := xev EListed true (xnext yregs y_ms1 y2) [0; 1] LAsap 5000000%Z yfail_once.    (* 410: listed again *)
Definition y_ms3 := fst (xstep yregs y_ms2 y3).
Definition y4 : rc_in string := xev EModified true (xnext yregs y_ms2 y3) [0; 1] LAsap 11000000%Z yfail_once. (* retry: success *)
Definition y_ms4 := fst (xstep yregs y_ms3 y4).
Definition y5 : rc_in string := xev EListed true (xnext yregs y_ms3 y4) [0; 1] LAsap 20000000%Z yfail_once.   (* 410 again *)
Definition y_ms5 := fst (xstep yregs y_ms4 y5).
Definition y6 : rc_in string := xev EModified false (xnext yregs y_ms4 y5) [0; 1] LAsap 21000000%Z yfail_once. (* an edit *)
Definition y7 : rc_in string := xev EListed true [] [0; 1] LAsap 30000000%Z [].                                 (* next process *)
Definition y410 : list (rc_label string) := [CEv y1; CEv y2; CEv y3; CEv y4; CEv y5; CEv y6; CRestart; CEv y7].

Definition ysummary (en : rc_entry string) :=
  (ce_epoch en, co_reason (ce_obs en), co_initial (ce_obs en), map hd_ix (co_sel (ce_obs en)),
   r_invoked (co_result (ce_obs en)), co_handled_after (ce_obs en)).

Definition y410_expected : list (nat * rs_reason * bool * list nat * list (pg_hid * Z) * bool) :=
  [ (0, RsResume, true,  [0], [("h0", 0%Z)], false);
    (0, RsResume, true,  [0], [],            false);
    (0, RsResume, true,  [0], [],            false);
    (0, RsResume, true,  [0], [("h0", 1%Z)], true);
    (0, RsNoop,   false, [],  [],            true);
    (0, RsUpdate, false, [1], [("h1", 0%Z)], true);
    (1, RsResume, true,  [0], [("h0", 0%Z)], true) ].

Lemma y410_trace : map ysummary (rc_trace String.eqb xname yregs y410) = y410_expected.
Proof. vm_compute. reflexivity. Qed.

Lemma y410_hypotheses :
  NoDup (map hd_ix yregs) /\
  rc_uid_final String.eqb "u" y410 /\
  rc_world String.eqb xname yregs "u" [] None y410 /\
  rc_orcs_ok String.eqb "u" y410 /\
  rc_deleting_permanent String.eqb "u" false y410 /\
  rc_no_purge_while_open String.eqb xname yregs "u" 0 false [] 0 y410.
Proof.
  split; [repeat constructor; simpl; intuition discriminate|].
  split; [simpl; repeat split; intros; discriminate|].
  split; [vm_compute; repeat split; intros; reflexivity|].
  split; [simpl; repeat split; intros; apply table_oracle_keeps_finished|].
  split; [simpl; repeat split; intros; try reflexivity; discriminate|].
  vm_compute. repeat split; intros; try reflexivity; try discriminate.
Qed.

Lemma y410_counts :
  rc_successes String.eqb xname 0 "u" 0 (rc_trace String.eqb xname yregs y410) = 1 /\
  rc_successes String.eqb xname 1 "u" 0 (rc_trace String.eqb xname yregs y410) = 1.
Proof. split; vm_compute; reflexivity. Qed.

(* the hypotheses of pending_until_closed hold of the prefix up to the first re-listing, and its conclusion is visible *)
Lemma y410_pending :
  rs_find String.eqb "u" (crun String.eqb xname yregs [] []) = None /\
  co_handled_after (cobs_at String.eqb xname yregs [] y1) = false /\
  co_handled_after (cobs_at String.eqb xname yregs [CEv y1] y2) = false /\
  co_initial0 (cobs_at String.eqb xname yregs [CEv y1; CEv y2] y3) = true.
Proof. repeat split; vm_compute; reflexivity. Qed.

(* Non-vacuity of the deletion clause of the guard: the resuming is superseded by a deletion while h1 is still retrying;
   the supersession purge RUNS (and removes h0's finished record), every hypothesis of cycle_at_most_once still holds. *)
Definition zregs : list rs_hdecl := [rs_on_resume 0 0 0 None; rs_on_resume 1 1 1 None; rs_on_reason RsDelete 2 2 2].
Definition zev (e : rs_evt) (deleting : bool) (body : rc_records) (now : Z) : rc_in string :=
  {| ci_key := "u"; ci_evt := e; ci_old_none := false; ci_diff_empty := true; ci_deleting := deleting; ci_blocked := true;
     ci_body := body; ci_gate := true; ci_match := [0; 1; 2]; ci_lc := LAll; ci_now := now; ci_nd := false;
     ci_orc := pg_table_oracle xh1_fails xok |}.
Definition z1 : rc_in string := zev EListed false [] 0%Z.
Definition z_ms1 := fst (xstep zregs [] z1).
Definition z2 : rc_in string := zev EModified true (xnext zregs [] z1) 1000000%Z.          (* deletion requested *)
Definition z_ms2 := fst (xstep zregs z_ms1 z2).
Definition z3 : rc_in string := zev EListed true (xnext zregs z_ms1 z2) 2000000%Z.         (* re-listed while deleting *)
Definition zdel : list (rc_label string) := [CEv z1; CEv z2; CEv z3].

Lemma zdel_hypotheses :
  rc_purges xname zregs z2 (snd (xstep zregs z_ms1 z2)) = true /\
  pg_find "h0" (xnext zregs z_ms1 z2) = None /\
  NoDup (map hd_ix zregs) /\
  rc_uid_final String.eqb "u" zdel /\
  rc_world String.eqb xname zregs "u" [] None zdel /\
  rc_orcs_ok String.eqb "u" zdel /\
  rc_deleting_permanent String.eqb "u" false zdel /\
  rc_no_purge_while_open String.eqb xname zregs "u" 0 false [] 0 zdel /\
  rc_successes String.eqb xname 0 "u" 0 (rc_trace String.eqb xname zregs zdel) = 1.
Proof.
  split; [vm_compute; reflexivity|]. split; [vm_compute; reflexivity|].
  split; [repeat constructor; simpl; intuition discriminate|].
  split; [simpl; repeat split; intros; discriminate|].
  split; [vm_compute; repeat split; intros; reflexivity|].
  split; [simpl; repeat split; intros; apply table_oracle_keeps_finished|].
  split; [simpl; repeat split; intros; try reflexivity; discriminate|].
  split; [vm_compute; repeat split; intros; try reflexivity; try discriminate|].
  vm_compute. reflexivity.
Qed.
