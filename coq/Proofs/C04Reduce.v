(* C04_reduce_exact: the diff narrowed to a handler's field is exactly the diff of the field's
   old and new values (kopf diffs.reduce vs diffs.diff).  All helper lemmas are local, prefixed rd_ . *)
From Coq Require Import ZArith List String Bool Ascii Lia.
From KV Require Import Base.Json Base.Dicts Model.Diff.
Import ListNotations.
Open Scope string_scope.
Open Scope list_scope.

(* ---------- association lists ---------- *)
Lemma rd_mem_str_In : forall k l, mem_str k l = true <-> In k l.
Proof.
  intros k l. unfold mem_str. rewrite existsb_exists. split.
  - intros [x [Hin He]]. apply String.eqb_eq in He. subst. exact Hin.
  - intros Hin. exists k. split; [exact Hin | apply String.eqb_refl].
Qed.

Lemma rd_nodup_NoDup : forall l, nodup_keys l = true -> NoDup l.
Proof.
  induction l as [|k l IH]; simpl; intros H.
  - constructor.
  - apply andb_true_iff in H. destruct H as [H1 H2]. constructor.
    + intro Hin. apply rd_mem_str_In in Hin. rewrite Hin in H1. discriminate.
    + apply IH. exact H2.
Qed.

Lemma rd_lookup_none_notin : forall (V : Type) k (l : list (string * V)),
  lookup k l = None <-> ~ In k (map fst l).
Proof.
  intros V k l. induction l as [|[k' v] l IH]; simpl.
  - tauto.
  - destruct (String.eqb_spec k k') as [E|E].
    + split; [discriminate | intros H; exfalso; apply H; left; congruence].
    + rewrite IH. split; intros H.
      * intros [H1|H1]; [congruence | tauto].
      * tauto.
Qed.

Lemma rd_lookup_some_in : forall (V : Type) k (v : V) (l : list (string * V)),
  lookup k l = Some v -> In (k, v) l.
Proof.
  intros V k v l. induction l as [|[k' v'] l IH]; simpl; [discriminate|].
  destruct (String.eqb_spec k k') as [E|E].
  - intros H. inversion H. subst. left. reflexivity.
  - intros H. right. apply IH. exact H.
Qed.

Lemma rd_wf_lookup : forall xs k v, wf (JObj xs) = true -> lookup k xs = Some v -> wf v = true.
Proof.
  intros xs k v H Hl. cbn [wf] in H. apply andb_true_iff in H. destruct H as [_ H].
  rewrite forallb_forall in H. apply rd_lookup_some_in in Hl. apply (H _ Hl).
Qed.

Lemma rd_wf_nodup : forall xs, wf (JObj xs) = true -> nodup_keys (map fst xs) = true.
Proof.
  intros xs H. cbn [wf] in H. apply andb_true_iff in H. tauto.
Qed.

(* ---------- resolve_d ---------- *)
Lemma rd_resolve_d_nil : forall j, resolve_d j [] = j.
Proof. reflexivity. Qed.

Lemma rd_resolve_d_null : forall p, resolve_d JNull p = JNull.
Proof. destruct p; reflexivity. Qed.

Lemma rd_resolve_d_obj : forall xs k p',
  resolve_d (JObj xs) (k :: p') = match lookup k xs with Some v => resolve_d v p' | None => JNull end.
Proof.
  intros. unfold resolve_d. cbn [resolve]. destruct (lookup k xs); reflexivity.
Qed.

(* ---------- py_eqb on objects ---------- *)
Lemma rd_pyeq_obj : forall xs ys,
  py_eqb (JObj xs) (JObj ys) =
  Nat.eqb (List.length xs) (List.length ys)
  && forallb (fun kv => match lookup (fst kv) ys with
                        | Some w => py_eqb (snd kv) w
                        | None => false
                        end) xs.
Proof.
  intros. cbn [py_eqb]. f_equal.
  induction xs as [|[k v] l IH]; [reflexivity|].
  cbn [forallb fst snd]. rewrite <- IH. reflexivity.
Qed.

Lemma rd_pyeq_lookup : forall xs ys k,
  py_eqb (JObj xs) (JObj ys) = true -> nodup_keys (map fst xs) = true ->
  match lookup k xs, lookup k ys with
  | Some v, Some w => py_eqb v w = true
  | None, None => True
  | _, _ => False
  end.
Proof.
  intros xs ys k H Hnd. rewrite rd_pyeq_obj in H. apply andb_true_iff in H.
  destruct H as [Hlen Hall]. apply Nat.eqb_eq in Hlen. rewrite forallb_forall in Hall.
  destruct (lookup k xs) as [v|] eqn:Hx.
  - apply rd_lookup_some_in in Hx. specialize (Hall _ Hx). cbn [fst snd] in Hall.
    destruct (lookup k ys); [exact Hall | discriminate].
  - destruct (lookup k ys) as [w|] eqn:Hy; [|exact I].
    apply rd_lookup_none_notin in Hx. apply Hx.
    assert (Hincl : incl (map fst ys) (map fst xs)).
    { apply NoDup_length_incl.
      - apply rd_nodup_NoDup. exact Hnd.
      - rewrite !map_length. lia.
      - intros k' Hin. apply in_map_iff in Hin. destruct Hin as [[k'' v'] [He Hin]].
        cbn [fst] in He. subst k''. specialize (Hall _ Hin). cbn [fst snd] in Hall.
        destruct (lookup k' ys) as [w'|] eqn:E; [|discriminate].
        apply rd_lookup_some_in in E. apply in_map_iff. exists (k', w'). split; [reflexivity|exact E]. }
    apply Hincl. apply rd_lookup_some_in in Hy. apply in_map_iff. exists (k, w). split; [reflexivity|exact Hy].
Qed.

Lemma rd_pyeq_resolve : forall p a b,
  wf a = true -> py_eqb a b = true -> py_eqb (resolve_d a p) (resolve_d b p) = true.
Proof.
  induction p as [|k p' IH]; intros a b Hwa H; [exact H|].
  destruct a; destruct b; try (cbn in H; discriminate H); try reflexivity.
  rename kvs into xs, kvs0 into ys.
  pose proof (rd_pyeq_lookup xs ys k H (rd_wf_nodup _ Hwa)) as HL.
  rewrite !rd_resolve_d_obj.
  destruct (lookup k xs) as [v|] eqn:Hx; destruct (lookup k ys) as [w|] eqn:Hy; try contradiction.
  - apply IH; [apply (rd_wf_lookup _ _ _ Hwa Hx) | exact HL].
  - reflexivity.
Qed.

(* ---------- diff_iter unfoldings ---------- *)
Lemma rd_diff_obj : forall sc xs ys p,
  diff_iter sc (JObj xs) (JObj ys) p =
  if py_eqb (JObj xs) (JObj ys) then [] else
    (if sc_right sc
     then flat_map (fun kv => if has (fst kv) xs then [] else diff_add (p ++ [fst kv]) (snd kv)) ys
     else [])
    ++ (if sc_left sc
        then flat_map (fun kv => if has (fst kv) ys then [] else diff_rem (p ++ [fst kv]) (snd kv)) xs
        else [])
    ++ flat_map (fun kv => match lookup (fst kv) ys with
                           | Some w => diff_iter sc (snd kv) w (p ++ [fst kv])
                           | None => []
                           end) xs.
Proof.
  intros. cbn [diff_iter]. destruct (py_eqb (JObj xs) (JObj ys)); [reflexivity|].
  do 2 f_equal.
  induction xs as [|[k v] l IH]; [reflexivity|].
  cbn [flat_map fst snd]. rewrite <- IH. reflexivity.
Qed.

Lemma rd_diff_pyeq : forall sc a b p, py_eqb a b = true -> diff_iter sc a b p = [].
Proof.
  intros sc a b p H. destruct a; cbn [diff_iter]; rewrite H; reflexivity.
Qed.

Lemma rd_diff_single : forall sc a b p,
  py_eqb a b = false -> is_obj a && is_obj b = false ->
  exists op, diff_iter sc a b p = [mk_ditem op p a b].
Proof.
  intros sc a b p H Ho.
  destruct a; destruct b; try (cbn in Ho; discriminate Ho); try (cbn in H; discriminate H);
    cbn [diff_iter]; rewrite H; eexists; reflexivity.
Qed.

(* ---------- shifting the path of a diff ---------- *)
Definition rd_shift (q : path) (it : ditem) : ditem :=
  mk_ditem (d_op it) (q ++ d_field it) (d_old it) (d_new it).

Lemma rd_map_flat_map : forall (A B C : Type) (f : B -> C) (g : A -> list B) l,
  map f (flat_map g l) = flat_map (fun x => map f (g x)) l.
Proof.
  intros. induction l as [|x l IH]; [reflexivity|].
  cbn [flat_map]. rewrite map_app, IH. reflexivity.
Qed.

Lemma rd_shift_lemma : forall sc a b q,
  diff_iter sc a b q = map (rd_shift q) (diff_iter sc a b []).
Proof.
  intros sc a. induction a using json_ind'; intros b' q.
  all: try (cbn [diff_iter]; destruct (py_eqb _ b'); [reflexivity|]; destruct b';
            unfold rd_shift; cbn [map d_op d_field d_old d_new]; rewrite ?app_nil_r; reflexivity).
  destruct b';
    try (cbn [diff_iter]; destruct (py_eqb _ _); [reflexivity|];
         unfold rd_shift; cbn [map d_op d_field d_old d_new]; rewrite ?app_nil_r; reflexivity).
  rename kvs0 into ys.
  rewrite !rd_diff_obj. destruct (py_eqb (JObj kvs) (JObj ys)); [reflexivity|].
  rewrite !map_app. f_equal; [|f_equal].
  - destruct (sc_right sc); [|reflexivity]. rewrite rd_map_flat_map.
    apply flat_map_ext. intros [k' v']. cbn [fst snd].
    destruct (has k' kvs); [reflexivity|]. destruct v'; reflexivity.
  - destruct (sc_left sc); [|reflexivity]. rewrite rd_map_flat_map.
    apply flat_map_ext. intros [k' v']. cbn [fst snd].
    destruct (has k' ys); [reflexivity|]. destruct v'; reflexivity.
  - induction H as [|[k' v'] l Hv _ IHl]; [reflexivity|].
    cbn [flat_map map fst snd]. rewrite map_app. f_equal; [|exact IHl].
    destruct (lookup k' ys) as [w|]; [|reflexivity].
    cbn [snd] in Hv. rewrite (Hv w (q ++ [k'])). rewrite (Hv w ([] ++ [k'])).
    rewrite map_map. apply map_ext. intros it. unfold rd_shift.
    cbn [d_op d_field d_old d_new]. rewrite <- app_assoc. reflexivity.
Qed.

(* ---------- reduce ---------- *)
Lemma rd_reduce_app : forall d1 d2 p, reduce (d1 ++ d2) p = reduce d1 p ++ reduce d2 p.
Proof. intros. unfold reduce. apply flat_map_app. Qed.

Lemma rd_reduce_nil : forall p, reduce [] p = [].
Proof. reflexivity. Qed.

Lemma rd_reduce_nil_path : forall d, reduce d [] = d.
Proof.
  unfold reduce. induction d as [|it d IH]; [reflexivity|].
  cbn [flat_map]. rewrite IH. reflexivity.
Qed.

Lemma rd_reduce_item_shift : forall k it p',
  reduce_item (rd_shift [k] it) (k :: p') = reduce_item it p'.
Proof.
  intros k [op f o n] p'. unfold reduce_item, rd_shift.
  cbn [d_op d_field d_old d_new app strip_prefix].
  rewrite String.eqb_refl. destruct p' as [|k2 p'']; reflexivity.
Qed.

Lemma rd_reduce_shift : forall k d p', reduce (map (rd_shift [k]) d) (k :: p') = reduce d p'.
Proof.
  intros k d p'. unfold reduce. induction d as [|it d IH]; [reflexivity|].
  cbn [map flat_map]. rewrite rd_reduce_item_shift, IH. reflexivity.
Qed.

Definition rd_headed (k : string) (d : list ditem) : Prop :=
  Forall (fun it => exists f, d_field it = k :: f) d.

Lemma rd_reduce_headed_other : forall k k' d p',
  rd_headed k' d -> k' <> k -> reduce d (k :: p') = [].
Proof.
  intros k k' d p' H Hne. induction H as [|it d [f Hf] _ IH]; [reflexivity|].
  unfold reduce in *. cbn [flat_map]. rewrite IH. rewrite app_nil_r.
  unfold reduce_item. rewrite Hf. cbn [strip_prefix].
  destruct (String.eqb_spec k k'); [congruence|].
  destruct (String.eqb_spec k' k); [congruence|]. reflexivity.
Qed.

Lemma rd_reduce_keyed : forall (f : string -> json -> list ditem) k p' l,
  (forall k' v, rd_headed k' (f k' v)) ->
  nodup_keys (map fst l) = true ->
  reduce (flat_map (fun kv => f (fst kv) (snd kv)) l) (k :: p')
  = match lookup k l with Some v => reduce (f k v) (k :: p') | None => [] end.
Proof.
  intros f k p' l Hh. induction l as [|[k0 v0] l IH]; intros Hnd; [reflexivity|].
  cbn [map fst nodup_keys] in Hnd. apply andb_true_iff in Hnd. destruct Hnd as [Hn1 Hn2].
  cbn [flat_map fst snd lookup]. rewrite rd_reduce_app. rewrite (IH Hn2).
  destruct (String.eqb_spec k k0) as [E|Hne].
  - subst k0.
    assert (lookup k l = None) as ->.
    { apply rd_lookup_none_notin. intro Hin. apply rd_mem_str_In in Hin.
      rewrite Hin in Hn1. discriminate. }
    apply app_nil_r.
  - rewrite (rd_reduce_headed_other k k0); auto.
Qed.

Lemma rd_headed_nil : forall k, rd_headed k [].
Proof. intros. constructor. Qed.

Lemma rd_headed_add : forall k v, rd_headed k (diff_add [k] v).
Proof.
  intros k v. destruct v; try apply rd_headed_nil;
    (constructor; [exists []; reflexivity | constructor]).
Qed.

Lemma rd_headed_rem : forall k v, rd_headed k (diff_rem [k] v).
Proof.
  intros k v. destruct v; try apply rd_headed_nil;
    (constructor; [exists []; reflexivity | constructor]).
Qed.

Lemma rd_headed_shift : forall k d, rd_headed k (map (rd_shift [k]) d).
Proof.
  intros k d. unfold rd_headed. rewrite Forall_map. apply Forall_forall.
  intros it _. exists (d_field it). reflexivity.
Qed.

Lemma rd_reduce_single : forall op a b k p',
  reduce [mk_ditem op [] a b] (k :: p') = diff (resolve_d a (k :: p')) (resolve_d b (k :: p')).
Proof.
  intros. unfold reduce, reduce_item, diff.
  cbn [flat_map d_field d_op d_old d_new strip_prefix]. apply app_nil_r.
Qed.

Lemma rd_reduce_add : forall k w p',
  reduce (diff_add [k] w) (k :: p') = diff JNull (resolve_d w p').
Proof.
  intros k w p'. destruct p' as [|k2 p''].
  - destruct w; unfold reduce, reduce_item, diff_add, diff;
      cbn [flat_map d_field d_op d_old d_new strip_prefix];
      rewrite ?String.eqb_refl; reflexivity.
  - destruct w; unfold reduce, reduce_item, diff_add, diff;
      cbn [flat_map d_field d_op d_old d_new strip_prefix];
      rewrite ?String.eqb_refl; rewrite ?app_nil_r; reflexivity.
Qed.

Lemma rd_reduce_rem : forall k v p',
  reduce (diff_rem [k] v) (k :: p') = diff (resolve_d v p') JNull.
Proof.
  intros k v p'. destruct p' as [|k2 p''].
  - destruct v; unfold reduce, reduce_item, diff_rem, diff;
      cbn [flat_map d_field d_op d_old d_new strip_prefix];
      rewrite ?String.eqb_refl; reflexivity.
  - destruct v; unfold reduce, reduce_item, diff_rem, diff;
      cbn [flat_map d_field d_op d_old d_new strip_prefix];
      rewrite ?String.eqb_refl; rewrite ?app_nil_r; reflexivity.
Qed.

(* ---------- the theorem ---------- *)
Theorem reduce_exact : forall a b p,
  wf a = true -> wf b = true ->
  reduce (diff a b) p = diff (resolve_d a p) (resolve_d b p).
Proof.
  intros a b p; revert a b. induction p as [|k p' IH]; intros a b Hwa Hwb.
  - rewrite rd_reduce_nil_path. reflexivity.
  - destruct (py_eqb a b) eqn:Heq.
    + unfold diff. rewrite (rd_diff_pyeq _ _ _ _ Heq).
      rewrite (rd_diff_pyeq _ _ _ _ (rd_pyeq_resolve (k :: p') _ _ Hwa Heq)). reflexivity.
    + destruct (is_obj a && is_obj b) eqn:Ho.
      * destruct a; try discriminate Ho. destruct b; try discriminate Ho.
        rename kvs into xs, kvs0 into ys.
        unfold diff at 1. rewrite rd_diff_obj, Heq.
        cbn [sc_right sc_left scope_full app].
        rewrite !rd_reduce_app.
        pose proof (rd_reduce_keyed
                      (fun k' v => if has k' xs then [] else diff_add [k'] v) k p' ys) as E1.
        cbv beta in E1. rewrite E1; clear E1;
          [| intros k' v; destruct (has k' xs); [apply rd_headed_nil | apply rd_headed_add]
           | apply rd_wf_nodup; exact Hwb].
        pose proof (rd_reduce_keyed
                      (fun k' v => if has k' ys then [] else diff_rem [k'] v) k p' xs) as E2.
        cbv beta in E2. rewrite E2; clear E2;
          [| intros k' v; destruct (has k' ys); [apply rd_headed_nil | apply rd_headed_rem]
           | apply rd_wf_nodup; exact Hwa].
        pose proof (rd_reduce_keyed
                      (fun k' v => match lookup k' ys with
                                   | Some w => diff_iter scope_full v w [k']
                                   | None => []
                                   end) k p' xs) as E3.
        cbv beta in E3. rewrite E3; clear E3;
          [| intros k' v; destruct (lookup k' ys);
             [rewrite rd_shift_lemma; apply rd_headed_shift | apply rd_headed_nil]
           | apply rd_wf_nodup; exact Hwa].
        rewrite !rd_resolve_d_obj. unfold has.
        destruct (lookup k xs) as [v|] eqn:Hx; destruct (lookup k ys) as [w|] eqn:Hy.
        -- rewrite !rd_reduce_nil. cbn [app].
           rewrite rd_shift_lemma, rd_reduce_shift.
           apply IH; [apply (rd_wf_lookup _ _ _ Hwa Hx) | apply (rd_wf_lookup _ _ _ Hwb Hy)].
        -- rewrite !rd_reduce_nil. cbn [app]. rewrite app_nil_r. apply rd_reduce_rem.
        -- rewrite app_nil_r. apply rd_reduce_add.
        -- reflexivity.
      * destruct (rd_diff_single scope_full a b [] Heq Ho) as [op E].
        unfold diff at 1. rewrite E. apply rd_reduce_single.
Qed.

Example reduce_exact_ex :
  reduce (diff (JObj [("spec", JObj [("a", JNum 1); ("b", JNum 2)])])
               (JObj [("spec", JObj [("a", JNum 3); ("b", JNum 2)])]))
         ["spec"; "a"]
  = [mk_ditem DChange [] (JNum 1) (JNum 3)].
Proof. vm_compute. reflexivity. Qed.

(* wf is needed: with a duplicated key the narrowed diff is not the diff of the narrowed values *)
Example reduce_exact_needs_wf :
  let a := JObj [] in
  let b := JObj [("k", JNum 1); ("k", JNum 2)] in
  reduce (diff a b) ["k"] <> diff (resolve_d a ["k"]) (resolve_d b ["k"]).
Proof. vm_compute. discriminate. Qed.

Print Assumptions reduce_exact.
