(* C09 — lemmas about Model/Daemons.v *)
From Coq Require Import ZArith List Bool Arith Lia.
From KV Require Import Model.Daemons.
Import ListNotations.
Open Scope Z_scope.

Lemma placeholder_true : True. Proof. exact I. Qed.
