(* C09 — lemmas about Model/Daemons.v *)
From Coq Require Import ZArith List Bool Arith Lia.
From KV Require Import Model.Daemons.
Import ListNotations.
Open Scope Z_scope.

(* ------------------------------------------------------------------ reasons, stop flag *)

Lemma reason_eqb_eq : forall a b, reason_eqb a b = true <-> a = b.
Proof. intros a b; split; [destruct a, b; cbn; congruence | intros ->; destruct b; reflexivity]. Qed.

Lemma rmem_In : forall r l, rmem r l = true <-> In r l.
Proof.
  intros r l; unfold rmem; rewrite existsb_exists; split.
  - intros [x [Hx He]]; apply reason_eqb_eq in He; subst; exact Hx.
  - intros H; exists r; split; [exact H | apply reason_eqb_eq; reflexivity].
Qed.

Lemma radd_In : forall l r x, In x (radd l r) <-> In x l \/ x = r.
Proof.
  intros l r x; unfold radd; destruct (rmem r l) eqn:E.
  - apply rmem_In in E; split; [tauto | intros [H | ->]; assumption].
  - rewrite in_app_iff; cbn; split.
    + intros [H | [H | []]]; [left; exact H | right; symmetry; exact H].
    + intros [H | H]; [left; exact H | right; left; symmetry; exact H].
Qed.

Lemma fold_radd_In : forall l' l x, In x (fold_left radd l' l) <-> In x l \/ In x l'.
Proof.
  induction l' as [| a l' IH]; intros l x; cbn; [tauto |].
  rewrite IH, radd_In; intuition.
Qed.

Lemma is_set_after_set : forall sp r now, is_set (sp_set sp (Some r) now) (Some r) = true.
Proof.
  intros sp r now; unfold is_set, sp_set; cbn; rewrite andb_true_r.
  destruct (sp_reason sp) as [l |]; apply rmem_In; [apply radd_In; right; reflexivity | cbn; auto].
Qed.

Lemma is_set_mono : forall sp r r' now, is_set sp (Some r) = true -> is_set (sp_set sp (Some r') now) (Some r) = true.
Proof.
  intros sp r r' now; unfold is_set, sp_set; cbn; rewrite andb_true_r.
  destruct (sp_reason sp) as [l |]; cbn; [| discriminate].
  intros H; apply andb_prop in H as [H _]; apply rmem_In; apply radd_In; left; apply rmem_In; exact H.
Qed.

Lemma set_reason_some : forall sp r now, sp_reason (sp_set sp (Some r) now) <> None.
Proof. intros sp r now; unfold sp_set; cbn; destruct (sp_reason sp); discriminate. Qed.

Lemma is_set_reason_some : forall sp r, is_set sp (Some r) = true -> sp_reason sp <> None.
Proof. intros sp r; unfold is_set; destruct (sp_reason sp); [discriminate | cbn; discriminate]. Qed.

(* ------------------------------------------------------------------ the stage table of stop_daemons *)

Lemma stage_of_signal : forall bo tmo age, stage_of bo tmo age = SSignal -> exists b, bo = Some b /\ age < b.
Proof.
  intros bo tmo age; unfold stage_of.
  destruct bo as [b |]; [destruct (age <? b) eqn:E; [intros _; exists b; split; [reflexivity | apply Z.ltb_lt; exact E] |] |];
    destruct tmo as [t |]; try destruct (age <? t + _); discriminate.
Qed.

Lemma stage_of_cancel : forall bo tmo age, stage_of bo tmo age = SCancel ->
  exists t, tmo = Some t /\ age < t + oz bo /\ (forall b, bo = Some b -> b <= age).
Proof.
  intros bo tmo age; unfold stage_of.
  destruct bo as [b |]; cbn [oz].
  - destruct (age <? b) eqn:E; [discriminate |]. apply Z.ltb_ge in E.
    destruct tmo as [t |]; [| discriminate]. destruct (age <? t + b) eqn:E2; [| discriminate].
    apply Z.ltb_lt in E2. intros _; exists t; repeat split; auto. intros b' Hb; injection Hb as <-; exact E.
  - destruct tmo as [t |]; [| discriminate]. destruct (age <? t + 0) eqn:E2; [| discriminate].
    apply Z.ltb_lt in E2. intros _; exists t; repeat split; auto. discriminate.
Qed.

Lemma stage_of_abandon : forall bo tmo age, stage_of bo tmo age = SAbandon ->
  exists t, tmo = Some t /\ t + oz bo <= age /\ (forall b, bo = Some b -> b <= age).
Proof.
  intros bo tmo age; unfold stage_of.
  destruct bo as [b |]; cbn [oz].
  - destruct (age <? b) eqn:E; [discriminate |]. apply Z.ltb_ge in E.
    destruct tmo as [t |]; [| discriminate]. destruct (age <? t + b) eqn:E2; [discriminate |].
    apply Z.ltb_ge in E2. intros _; exists t; repeat split; auto. intros b' Hb; injection Hb as <-; exact E.
  - destruct tmo as [t |]; [| discriminate]. destruct (age <? t + 0) eqn:E2; [discriminate |].
    apply Z.ltb_ge in E2. intros _; exists t; repeat split; auto. discriminate.
Qed.

Lemma stage_of_poll : forall bo tmo age, stage_of bo tmo age = SPoll -> tmo = None.
Proof.
  intros bo tmo age; unfold stage_of.
  destruct bo as [b |]; [destruct (age <? b); [discriminate |] |];
    (destruct tmo as [t |]; [destruct (age <? t + _); discriminate | reflexivity]).
Qed.

Definition age_of (now : Z) (sp : stopper) : Z := now - (match sp_when sp with Some w => w | None => now end).

(* the first step of every turn: the reason of the stop is on the flag afterwards, whatever else happens *)
Lemma nudge_keeps : forall flag c now sp ex r sp' d ex' a,
  nudge flag c now sp ex = (sp', d, ex', a) -> is_set sp (Some r) = true -> is_set sp' (Some r) = true.
Proof.
  intros flag c now sp ex r sp' d ex' a; unfold nudge.
  destruct (is_set sp (Some flag)); [intros H; injection H as <- _ _ _; auto |].
  destruct (wait_instant false ex) as [d0 ex0]; intros H; injection H as <- _ _ _; apply is_set_mono.
Qed.

Lemma nudge_cancel : forall flag c now sp ex sp' d ex' a,
  nudge flag c now sp ex = (sp', d, ex', a) -> In ACancel a -> c = true /\ is_set sp (Some flag) = false.
Proof.
  intros flag c now sp ex sp' d ex' a; unfold nudge.
  destruct (is_set sp (Some flag)); [intros H; injection H as _ _ _ <-; intros [] |].
  destruct (wait_instant false ex) as [d0 ex0]; intros H; injection H as _ _ _ <-.
  destruct c; cbn; [auto |]. intros [H | [H | []]]; discriminate.
Qed.

Lemma nudge_acts : forall flag c now sp ex sp' d ex' a x,
  nudge flag c now sp ex = (sp', d, ex', a) -> In x a -> x = ASet flag \/ x = ACancel \/ x = AWait.
Proof.
  intros flag c now sp ex sp' d ex' a x; unfold nudge.
  destruct (is_set sp (Some flag)); [intros H; injection H as _ _ _ <-; intros [] |].
  destruct (wait_instant false ex) as [d0 ex0]; intros H; injection H as _ _ _ <-.
  destruct c; cbn; intuition.
Qed.

Section Stage.
  Variables (h : hcfg) (spoll now : Z) (why : reason) (sp : stopper) (done0 : bool) (ex : list bool).
  Let r := stage h spoll now why sp done0 ex.
  Let age := age_of now sp.
  Let bo := eff_backoff h.
  Let tmo := eff_timeout h.

  (* head of `stage`, named *)
  Definition stage_head : stopper * bool * list bool * list act :=
    if is_set sp (Some why) then (sp, done0, ex, [])
    else let '(d, ex') := wait_instant done0 ex in (sp_set sp (Some why) now, d, ex', [ASet why; AWait]).

  Lemma head_sets : forall sp1 d1 ex1 a1, stage_head = (sp1, d1, ex1, a1) -> is_set sp1 (Some why) = true.
  Proof.
    unfold stage_head; intros sp1 d1 ex1 a1.
    destruct (is_set sp (Some why)) eqn:E; [intros H; injection H as <- _ _ _; exact E |].
    destruct (wait_instant done0 ex); intros H; injection H as <- _ _ _; apply is_set_after_set.
  Qed.

  Lemma head_acts : forall sp1 d1 ex1 a1 x, stage_head = (sp1, d1, ex1, a1) -> In x a1 -> x = ASet why \/ x = AWait.
  Proof.
    unfold stage_head; intros sp1 d1 ex1 a1 x.
    destruct (is_set sp (Some why)); [intros H; injection H as _ _ _ <-; intros [] |].
    destruct (wait_instant done0 ex); intros H; injection H as _ _ _ <-; cbn; intuition.
  Qed.

  Lemma stage_unfold :
    r = let '(sp1, d1, ex1, a1) := stage_head in
        if d1 then {| r_sp := sp1; r_done := true; r_cancel := false; r_acts := a1; r_delays := []; r_ex := ex1 |}
        else match stage_of bo tmo age with
             | SSignal =>
                 let '(sp2, d2, ex2, a2) := nudge RSignalled false now sp1 ex1 in
                 {| r_sp := sp2; r_done := d2; r_cancel := false; r_acts := a1 ++ a2;
                    r_delays := if d2 then [] else [oz bo - age]; r_ex := ex2 |}
             | SCancel =>
                 let '(sp2, d2, ex2, a2) := nudge RCancelled true now sp1 ex1 in
                 {| r_sp := sp2; r_done := d2; r_cancel := negb (is_set sp1 (Some RCancelled)); r_acts := a1 ++ a2;
                    r_delays := if d2 then [] else [oz tmo + oz bo - age]; r_ex := ex2 |}
             | SAbandon =>
                 if is_set sp1 (Some RAbandoned)
                 then {| r_sp := sp1; r_done := false; r_cancel := false; r_acts := a1; r_delays := []; r_ex := ex1 |}
                 else {| r_sp := sp_set sp1 (Some RAbandoned) now; r_done := false; r_cancel := false;
                         r_acts := a1 ++ [ASet RAbandoned; AWarn]; r_delays := []; r_ex := ex1 |}
             | SPoll =>
                 {| r_sp := sp1; r_done := false; r_cancel := false; r_acts := a1; r_delays := [eff_polling h spoll]; r_ex := ex1 |}
             end.
  Proof. reflexivity. Qed.

  (* 1. flag first: whatever the stage, the stop reason is set on the flag when the turn is over *)
  Lemma stage_sets_reason : is_set (r_sp r) (Some why) = true.
  Proof.
    rewrite stage_unfold. destruct stage_head as [[[sp1 d1] ex1] a1] eqn:Eh. pose proof (head_sets _ _ _ _ Eh) as Hs.
    destruct d1; [exact Hs |].
    destruct (stage_of bo tmo age).
    - destruct (nudge RSignalled false now sp1 ex1) as [[[sp2 d2] ex2] a2] eqn:En; cbn. eapply nudge_keeps; eauto.
    - destruct (nudge RCancelled true now sp1 ex1) as [[[sp2 d2] ex2] a2] eqn:En; cbn. eapply nudge_keeps; eauto.
    - destruct (is_set sp1 (Some RAbandoned)); cbn; [exact Hs | apply is_set_mono; exact Hs].
    - exact Hs.
  Qed.

  (* 2. cancellation only in the cancellation stage: a timeout is configured, the backoff has elapsed, the timeout not *)
  Lemma stage_cancel_only_after_backoff :
    (r_cancel r = true \/ In ACancel (r_acts r)) ->
    exists t, tmo = Some t /\ age < t + oz bo /\ (forall b, bo = Some b -> b <= age).
  Proof.
    rewrite stage_unfold. destruct stage_head as [[[sp1 d1] ex1] a1] eqn:Eh.
    assert (Ha : ~ In ACancel a1).
    { intros Hin. destruct (head_acts _ _ _ _ _ Eh Hin); discriminate. }
    destruct d1; [cbn; intros [H | H]; [discriminate | contradiction] |].
    destruct (stage_of bo tmo age) eqn:Es.
    - destruct (nudge RSignalled false now sp1 ex1) as [[[sp2 d2] ex2] a2] eqn:En; cbn.
      intros [H | H]; [discriminate |]. apply in_app_or in H as [H | H]; [contradiction |].
      destruct (nudge_cancel _ _ _ _ _ _ _ _ _ En H); discriminate.
    - intros _. apply stage_of_cancel; exact Es.
    - destruct (is_set sp1 (Some RAbandoned)); cbn; intros [H | H]; try discriminate; try contradiction.
      apply in_app_or in H as [H | H]; [contradiction |]. cbn in H; destruct H as [H | [H | []]]; discriminate.
    - cbn; intros [H | H]; [discriminate | contradiction].
  Qed.

  (* 3. abandonment only after backoff + timeout, and only with a timeout configured *)
  Lemma stage_abandon_only_after_timeout :
    why <> RAbandoned -> In (ASet RAbandoned) (r_acts r) ->
    exists t, tmo = Some t /\ t + oz bo <= age /\ (forall b, bo = Some b -> b <= age).
  Proof.
    intros Hw. rewrite stage_unfold. destruct stage_head as [[[sp1 d1] ex1] a1] eqn:Eh.
    assert (Ha : ~ In (ASet RAbandoned) a1).
    { intros Hin. destruct (head_acts _ _ _ _ _ Eh Hin) as [H | H]; [injection H as H; congruence | discriminate]. }
    destruct d1; [cbn; intros H; contradiction |].
    destruct (stage_of bo tmo age) eqn:Es.
    - destruct (nudge RSignalled false now sp1 ex1) as [[[sp2 d2] ex2] a2] eqn:En; cbn.
      intros H. apply in_app_or in H as [H | H]; [contradiction |].
      destruct (nudge_acts _ _ _ _ _ _ _ _ _ _ En H) as [H1 | [H1 | H1]]; discriminate.
    - destruct (nudge RCancelled true now sp1 ex1) as [[[sp2 d2] ex2] a2] eqn:En; cbn.
      intros H. apply in_app_or in H as [H | H]; [contradiction |].
      destruct (nudge_acts _ _ _ _ _ _ _ _ _ _ En H) as [H1 | [H1 | H1]]; discriminate.
    - intros _. apply stage_of_abandon; exact Es.
    - cbn; intros H; contradiction.
  Qed.

  (* 4. a daemon that is still running is re-checked later (a positive delay landing exactly on the next stage
        boundary, or the polling period) unless it has been abandoned *)
  Lemma stage_delays_until_done :
    r_done r = false ->
    match stage_of bo tmo age with
    | SSignal => r_delays r = [oz bo - age] /\ 0 < oz bo - age
    | SCancel => r_delays r = [oz tmo + oz bo - age] /\ 0 < oz tmo + oz bo - age
    | SAbandon => r_delays r = [] /\ is_set (r_sp r) (Some RAbandoned) = true
    | SPoll => r_delays r = [eff_polling h spoll]
    end.
  Proof.
    rewrite stage_unfold. destruct stage_head as [[[sp1 d1] ex1] a1] eqn:Eh.
    destruct d1; [cbn; discriminate |].
    destruct (stage_of bo tmo age) eqn:Es.
    - destruct (nudge RSignalled false now sp1 ex1) as [[[sp2 d2] ex2] a2] eqn:En; cbn. intros ->.
      split; [reflexivity |]. destruct (stage_of_signal _ _ _ Es) as [b [Hb Hlt]]. rewrite Hb; cbn [oz]; lia.
    - destruct (nudge RCancelled true now sp1 ex1) as [[[sp2 d2] ex2] a2] eqn:En; cbn. intros ->.
      split; [reflexivity |]. destruct (stage_of_cancel _ _ _ Es) as [t [Ht [Hlt _]]]. rewrite Ht; cbn [oz]; lia.
    - destruct (is_set sp1 (Some RAbandoned)) eqn:Ea; cbn; intros _; split; auto. apply is_set_after_set.
    - cbn; reflexivity.
  Qed.

  (* 5. nothing is done to a daemon that has ended, beyond putting the reason on its (dead) flag *)
  Lemma stage_done_is_quiet : done0 = true -> r_done r = true /\ r_delays r = [] /\ r_cancel r = false.
  Proof.
    intros Hd. rewrite stage_unfold. unfold stage_head. rewrite Hd.
    destruct (is_set sp (Some why)); cbn; auto.
  Qed.
End Stage.

(* following the returned delays moves to the next stage: at most three calls until nothing is left to wait for,
   whenever a cancellation timeout is configured *)
Lemma stage_next_after_signal : forall bo tmo age, stage_of bo tmo age = SSignal ->
  stage_of bo tmo (age + (oz bo - age)) <> SSignal.
Proof.
  intros bo tmo age H. destruct (stage_of_signal _ _ _ H) as [b [-> Hlt]]. cbn [oz].
  replace (age + (b - age)) with b by lia. unfold stage_of. rewrite Z.ltb_irrefl.
  destruct tmo as [t |]; [destruct (b <? t + oz (Some b)) |]; discriminate.
Qed.

Lemma stage_next_after_cancel : forall bo tmo age, stage_of bo tmo age = SCancel ->
  stage_of bo tmo (age + (oz tmo + oz bo - age)) = SAbandon.
Proof.
  intros bo tmo age H. destruct (stage_of_cancel _ _ _ H) as [t [-> [Hlt Hb]]]. cbn [oz].
  replace (age + (t + oz bo - age)) with (t + oz bo) by lia. unfold stage_of.
  rewrite Z.ltb_irrefl. destruct bo as [b |]; [| reflexivity].
  cbn [oz] in *. specialize (Hb b eq_refl). destruct (t + b <? b) eqn:E; [apply Z.ltb_lt in E; lia | reflexivity].
Qed.

Lemma stage_abandon_is_final : forall bo tmo age d, stage_of bo tmo age = SAbandon -> 0 <= d -> stage_of bo tmo (age + d) = SAbandon.
Proof.
  intros bo tmo age d H Hd. destruct (stage_of_abandon _ _ _ H) as [t [-> [Hle Hb]]]. unfold stage_of.
  destruct bo as [b |]; cbn [oz] in *.
  - specialize (Hb b eq_refl). destruct (age + d <? b) eqn:E; [apply Z.ltb_lt in E; lia |].
    destruct (age + d <? t + b) eqn:E2; [apply Z.ltb_lt in E2; lia | reflexivity].
  - destruct (age + d <? t + 0) eqn:E2; [apply Z.ltb_lt in E2; lia | reflexivity].
Qed.

(* ------------------------------------------------------------------ stop_daemon (linear) *)

Lemma wait_until_bounds : forall r f c t limit, t <= wait_until r f c t limit <= t + Z.max 0 limit.
Proof.
  intros r f c t limit; unfold wait_until. destruct (endtime r f c) as [e |]; [destruct (e <=? t + Z.max 0 limit) eqn:E |]; lia.
Qed.

Lemma wait_until_not_done : forall x f c t limit,
  done_by x f c (wait_until x f c t limit) = false -> wait_until x f c t limit = t + Z.max 0 limit.
Proof.
  intros x f c t limit; unfold done_by, wait_until.
  destruct (endtime x f c) as [e |]; [| reflexivity].
  destruct (e <=? t + Z.max 0 limit) eqn:E; [| reflexivity].
  intros H; apply Z.leb_gt in H; lia.
Qed.

Section Linear.
  Variables (h : hcfg) (why : reason) (sp : stopper) (t0 : Z) (done0 : bool) (x : rx).
  Let r := linear_stop h why sp t0 done0 x.
  Let bo := eff_backoff h.
  Let tmo := eff_timeout h.

  Lemma linear_flag_first : exists tl, l_trace r = (t0, ASet why) :: tl.
  Proof.
    unfold r, linear_stop.
    destruct (eff_backoff h) as [b |]; destruct (eff_timeout h) as [t |];
      repeat match goal with |- context [if ?c then _ else _] => destruct c end; cbn; eexists; reflexivity.
  Qed.

  Lemma linear_sets_reason : is_set (l_sp r) (Some why) = true.
  Proof.
    unfold r, linear_stop.
    destruct (eff_backoff h) as [b |]; destruct (eff_timeout h) as [t |];
      repeat match goal with |- context [if ?c then _ else _] => destruct c end; cbn;
      repeat (first [apply is_set_after_set | apply is_set_mono]).
  Qed.

  (* bounded: the procedure returns within backoff + timeout, whatever the daemon does *)
  Lemma linear_bounded : t0 <= l_end r <= t0 + Z.max 0 (oz bo) + Z.max 0 (oz tmo).
  Proof.
    unfold r, linear_stop, bo, tmo.
    destruct (eff_backoff h) as [b |]; destruct (eff_timeout h) as [t |]; cbn [oz];
      repeat match goal with |- context [if ?c then _ else _] => destruct c end; cbn [l_end];
      repeat match goal with |- context [wait_until ?a ?b ?c ?d ?e] =>
        lazymatch goal with
        | _ : d <= wait_until a b c d e <= _ |- _ => fail
        | _ => pose proof (wait_until_bounds a b c d e)
        end end;
      try lia.
    all: pose proof (wait_until_bounds x (sp_when (sp_set sp (Some why) t0)) None t0 b); lia.
  Qed.

  (* the task is cancelled only with a timeout configured, and exactly when the backoff has been waited out in full *)
  Lemma linear_cancel_after_backoff : forall tc, l_cancelled r = Some tc ->
    exists t, tmo = Some t /\ In (tc, ACancel) (l_trace r) /\ t0 <= tc /\ (forall b, bo = Some b -> tc = t0 + Z.max 0 b).
  Proof.
    unfold r, linear_stop, bo, tmo. intros tc.
    destruct (eff_backoff h) as [b |]; destruct (eff_timeout h) as [t |]; cbn [oz].
    all: repeat match goal with |- context [if ?c then _ else _] => destruct c eqn:? end; cbn [l_cancelled l_trace]; try discriminate.
    all: intros H; injection H as <-; exists t; split; [reflexivity |].
    all: split; [cbn; auto 12 |].
    all: split; [try lia; try apply wait_until_bounds |].
    all: intros b' Hb'; try discriminate; injection Hb' as <-.
    all: try (apply wait_until_not_done;
              match goal with H : _ || done_by _ _ None (wait_until _ _ None _ _) = false |- _ =>
                apply orb_false_elim in H; destruct H as [_ H]; exact H end).
    all: exfalso; match goal with H1 : ?c = true, H2 : ?c = false |- _ => rewrite H1 in H2; discriminate end.
  Qed.

  (* never returns leaving a running daemon that was not given up explicitly *)
  Lemma linear_done_or_abandoned : l_done r = false -> is_set (l_sp r) (Some RAbandoned) = true.
  Proof.
    unfold r, linear_stop.
    destruct (eff_backoff h) as [b |]; destruct (eff_timeout h) as [t |];
      repeat match goal with |- context [if ?c then _ else _] => destruct c end; cbn; try discriminate;
      intros _; apply is_set_after_set.
  Qed.
End Linear.

(* ------------------------------------------------------------------ _timer under a set stopper (F1) *)

(* The faithful model is `timer_tail true` (the idle-only loop tests the stopper since ba077d7): once the stopper is set the
   coroutine leaves after at most one more (non-suspending) sleep() call, from every program point, for EVERY timer. *)
Lemma timer_tail_terminates : forall c ra p fuel, (4 <= fuel)%nat ->
  exists n, timer_tail true c ra fuel p = Some n /\ (n <= 1)%nat.
Proof.
  intros c ra p fuel Hf.
  do 4 (destruct fuel as [| fuel]; [lia |]).
  destruct p as [| | d | |]; cbn.
  - exists 0%nat; split; [reflexivity | lia].
  - exists 0%nat; split; [reflexivity | lia].
  - destruct d; cbn; [| exists 1%nat; split; [reflexivity | lia]].
    destruct (t_interval c); cbn; [exists 1%nat; split; [reflexivity | lia] |].
    destruct (t_idle c); cbn; [rewrite orb_true_r; cbn |]; exists 0%nat; split; try reflexivity; lia.
  - rewrite orb_true_r; cbn. exists 0%nat; split; [reflexivity | lia].
  - exists 0%nat; split; [reflexivity | lia].
Qed.

(* HYPOTHETICAL VARIANT, not the code: without that test (`guarded = false`, the loop as it was before ba077d7) an idle-only
   timer would spin for ever.  Kept as the regression statement of finding F1: it is what a revert of the fix re-introduces. *)
Lemma timer_tail_spin : forall c fuel,
  t_interval c = None -> t_idle c <> None -> timer_tail false c false fuel TIdleOnly = None.
Proof.
  intros c fuel Hi Hd; induction fuel as [| f IH]; cbn; [reflexivity |]. rewrite IH; reflexivity.
Qed.

Lemma unguarded_loop_would_spin :
  exists c p, forall fuel, timer_tail false c false fuel p = None.
Proof.
  exists {| t_interval := None; t_idle := Some 1000; t_sharp := false |}, (TAfterRun true).
  intros [| fuel]; cbn; [reflexivity |]. rewrite timer_tail_spin; cbn; congruence.
Qed.

Example timer_tail_nonvacuous :
  timer_tail true {| t_interval := Some 1000; t_idle := Some 2000; t_sharp := true |} false 4 (TAfterRun true) = Some 1%nat
  /\ timer_tail true {| t_interval := None; t_idle := Some 2000; t_sharp := false |} false 4 (TAfterRun true) = Some 0%nat
  /\ timer_tail true {| t_interval := None; t_idle := Some 2000; t_sharp := false |} false 4 TIdleOnly = Some 0%nat.
Proof. repeat split; reflexivity. Qed.

(* ------------------------------------------------------------------ the life-cycle LTS: invariant *)

Ltac prj := try unfold set_running; try unfold with_delays; try unfold forget; try unfold set_kiter; cbn [o_running o_live o_forever o_next o_known o_gone o_kstop o_kiter o_delays].

Definition proj (r : list (nat * inst)) : list (nat * nat) := map (fun kv => (fst kv, i_ser (snd kv))) r.

Definition Inv (s : ost) : Prop := NoDup (keys (o_running s)) /\ o_live s = proj (o_running s).

Lemma nmem_In : forall k l, nmem k l = true <-> In k l.
Proof.
  intros k l; unfold nmem; rewrite existsb_exists; split.
  - intros [x [Hx He]]; apply Nat.eqb_eq in He; subst; exact Hx.
  - intros H; exists k; split; [exact H | apply Nat.eqb_refl].
Qed.

Lemma nmem_false : forall k l, nmem k l = false <-> ~ In k l.
Proof. intros k l; rewrite <- nmem_In; destruct (nmem k l); split; congruence. Qed.

Lemma lookup_In : forall A k (l : list (nat * A)) v, lookup k l = Some v -> In (k, v) l.
Proof.
  induction l as [| [k' v'] l IH]; cbn; [discriminate |]. intros v.
  destruct (Nat.eqb k k') eqn:E; [apply Nat.eqb_eq in E; subst; intros H; injection H as ->; auto | auto].
Qed.

Lemma lookup_keys : forall A k (l : list (nat * A)), lookup k l = None <-> ~ In k (keys l).
Proof.
  induction l as [| [k' v'] l IH]; cbn; [tauto |].
  destruct (Nat.eqb k k') eqn:E.
  - apply Nat.eqb_eq in E; subst; split; [discriminate | intros H; exfalso; apply H; auto].
  - apply Nat.eqb_neq in E. rewrite IH. split; [intros H [H1 | H1]; [congruence | auto] | intros H H1; apply H; auto].
Qed.

Lemma In_lookup : forall A k v (l : list (nat * A)), NoDup (keys l) -> In (k, v) l -> lookup k l = Some v.
Proof.
  induction l as [| [k' v'] l IH]; cbn; [intros _ [] |]. intros Hnd [H | H].
  - injection H as -> ->. rewrite Nat.eqb_refl; reflexivity.
  - inversion Hnd as [| ? ? Hni Hnd']; subst. destruct (Nat.eqb k k') eqn:E.
    + apply Nat.eqb_eq in E; subst. exfalso; apply Hni. change k' with (fst (k', v)). apply in_map; exact H.
    + apply IH; assumption.
Qed.

Lemma keys_update : forall A k (v : A) l, keys (update k v l) = keys l.
Proof.
  induction l as [| [k' v'] l IH]; cbn; [reflexivity |]. destruct (Nat.eqb k k'); cbn; [reflexivity | f_equal; exact IH].
Qed.

Lemma proj_update : forall k i i' l, lookup k l = Some i -> i_ser i' = i_ser i -> proj (update k i' l) = proj l.
Proof.
  induction l as [| [k' v'] l IH]; cbn; [reflexivity |]. destruct (Nat.eqb k k') eqn:E; cbn.
  - intros H Hs; injection H as ->. rewrite Hs; reflexivity.
  - intros H Hs; f_equal; apply IH; auto.
Qed.

Lemma lookup_update_same : forall A k (v : A) l, lookup k l <> None -> lookup k (update k v l) = Some v.
Proof.
  induction l as [| [k' v'] l IH]; cbn; [congruence |]. destruct (Nat.eqb k k') eqn:E; cbn; rewrite E; auto.
Qed.

Lemma lookup_update_other : forall A k k2 (v : A) l, k2 <> k -> lookup k2 (update k v l) = lookup k2 l.
Proof.
  induction l as [| [k' v'] l IH]; cbn; [reflexivity |]. intros Hne. destruct (Nat.eqb k k') eqn:E; cbn.
  - apply Nat.eqb_eq in E; subst. destruct (Nat.eqb k2 k') eqn:E2; [apply Nat.eqb_eq in E2; congruence | reflexivity].
  - destruct (Nat.eqb k2 k'); auto.
Qed.

Lemma keys_remove : forall A k (l : list (nat * A)), keys (remove_key k l) = filter (fun x => negb (Nat.eqb k x)) (keys l).
Proof.
  induction l as [| [k' v'] l IH]; cbn; [reflexivity |]. destruct (Nat.eqb k k'); cbn; [| f_equal]; exact IH.
Qed.

Lemma remove_absent : forall A k (l : list (nat * A)), ~ In k (keys l) -> remove_key k l = l.
Proof.
  induction l as [| [k' v'] l IH]; cbn; [reflexivity |]. intros H.
  destruct (Nat.eqb k k') eqn:E; [apply Nat.eqb_eq in E; subst; exfalso; apply H; auto |].
  cbn. f_equal. apply IH. intros H1; apply H; auto.
Qed.

Lemma lookup_remove_other : forall A k k2 (l : list (nat * A)), k2 <> k -> lookup k2 (remove_key k l) = lookup k2 l.
Proof.
  induction l as [| [k' v'] l IH]; cbn; [reflexivity |]. intros Hne.
  destruct (Nat.eqb k k') eqn:E; cbn.
  - apply Nat.eqb_eq in E; subst. destruct (Nat.eqb k2 k') eqn:E2; [apply Nat.eqb_eq in E2; congruence |]. apply IH; auto.
  - destruct (Nat.eqb k2 k'); [reflexivity | apply IH; auto].
Qed.

Lemma lookup_remove_same : forall A k (l : list (nat * A)), lookup k (remove_key k l) = None.
Proof.
  intros A k l; apply lookup_keys. rewrite keys_remove, filter_In. rewrite Nat.eqb_refl; cbn. intros [_ H]; discriminate.
Qed.

Lemma proj_filter_absent : forall k ser l, ~ In k (keys l) ->
  filter (fun p => negb (Nat.eqb (fst p) k && Nat.eqb (snd p) ser)) (proj l) = proj l.
Proof.
  induction l as [| [k' v'] l IH]; cbn; [reflexivity |]. intros H.
  destruct (Nat.eqb k' k) eqn:E; [apply Nat.eqb_eq in E; subst; exfalso; apply H; auto |]. cbn. f_equal. apply IH. intros H1; apply H; auto.
Qed.

Lemma proj_remove : forall k i l, NoDup (keys l) -> lookup k l = Some i ->
  filter (fun p => negb (Nat.eqb (fst p) k && Nat.eqb (snd p) (i_ser i))) (proj l) = proj (remove_key k l).
Proof.
  induction l as [| [k' v'] l IH]; cbn; [discriminate |]. intros Hnd. inversion Hnd as [| ? ? Hni Hnd']; subst.
  destruct (Nat.eqb k k') eqn:E.
  - apply Nat.eqb_eq in E; subst. intros H; injection H as ->. rewrite !Nat.eqb_refl; cbn.
    etransitivity; [apply (proj_filter_absent k' (i_ser i) l Hni) |].
    symmetry. change (proj (remove_key k' l) = proj l). rewrite (remove_absent _ k' l Hni). reflexivity.
  - intros H. rewrite Nat.eqb_sym, E. cbn. f_equal. apply IH; auto.
Qed.

Lemma keys_proj : forall l, map fst (proj l) = keys l.
Proof. intros l; unfold proj, keys; rewrite map_map; reflexivity. Qed.

Lemma finish_inv : forall id s s', Inv s -> finish id s = Some s' -> Inv s'.
Proof.
  intros id s s' [Hnd Hl]; unfold finish. destruct (lookup id (o_running s)) as [i |] eqn:E; [| discriminate].
  intros H; injection H as <-; split; prj.
  - rewrite keys_remove. apply NoDup_filter; exact Hnd.
  - rewrite Hl. apply proj_remove; assumption.
Qed.

Lemma finish_forever_mono : forall id s s' x, finish id s = Some s' -> In x (o_forever s) -> In x (o_forever s').
Proof.
  intros id s s' x; unfold finish. destruct (lookup id (o_running s)) as [i |]; [| discriminate].
  intros H; injection H as <-; prj. destruct (sp_reason (i_sp i)); auto. destruct (nmem id (o_forever s)); auto.
  intros Hx; apply in_or_app; auto.
Qed.

Lemma finish_keys : forall id s s', finish id s = Some s' -> forall x, In x (keys (o_running s')) <-> In x (keys (o_running s)) /\ x <> id.
Proof.
  intros id s s'; unfold finish. destruct (lookup id (o_running s)) as [i |]; [| discriminate].
  intros H; injection H as <-; prj. intros x. rewrite keys_remove, filter_In. rewrite negb_true_iff, Nat.eqb_neq. intuition.
Qed.

Lemma finish_lookup_other : forall id s s' k, finish id s = Some s' -> k <> id -> lookup k (o_running s') = lookup k (o_running s).
Proof.
  intros id s s' k; unfold finish. destruct (lookup id (o_running s)) as [i |]; [| discriminate].
  intros H; injection H as <-; prj. apply lookup_remove_other.
Qed.

Lemma finish_misc : forall id s s', finish id s = Some s' ->
  o_known s' = o_known s /\ o_gone s' = o_gone s /\ o_kstop s' = o_kstop s /\ o_kiter s' = o_kiter s /\ o_next s' = o_next s.
Proof.
  intros id s s'; unfold finish. destruct (lookup id (o_running s)) as [i |]; [| discriminate].
  intros H; injection H as <-; prj; auto.
Qed.

(* an instance that ends while its stopper never got a reason is remembered forever *)
Lemma finish_own_exit : forall id s s' i, lookup id (o_running s) = Some i -> sp_reason (i_sp i) = None ->
  finish id s = Some s' -> In id (o_forever s') /\ ~ In id (keys (o_running s')).
Proof.
  intros id s s' i Hl Hr; unfold finish; rewrite Hl. intros H; injection H as <-; prj. rewrite Hr. split.
  - destruct (nmem id (o_forever s)) eqn:E; [apply nmem_In; exact E | apply in_or_app; right; cbn; auto].
  - apply lookup_keys. apply lookup_remove_same.
Qed.

Lemma NoDup_snoc : forall A (l : list A) a, NoDup l -> ~ In a l -> NoDup (l ++ [a]).
Proof.
  induction l as [| x l IH]; cbn; intros a Hnd Hni; [constructor; [intros [] | constructor] |].
  inversion Hnd as [| ? ? Hx Hnd']; subst. constructor.
  - rewrite in_app_iff; cbn. intros [H | [H | []]]; [contradiction | subst; apply Hni; auto].
  - apply IH; auto.
Qed.

Lemma spawn_all_inv : forall hs s, Inv s -> Inv (spawn_all hs s).
Proof.
  induction hs as [| [id h] hs IH]; cbn; [auto |]. intros s [Hnd Hl]. apply IH.
  destruct (nmem id (keys (o_running s))) eqn:E; [split; assumption |].
  apply nmem_false in E. split; prj.
  - unfold keys; rewrite map_app; cbn. apply NoDup_snoc; assumption.
  - rewrite Hl; unfold proj; rewrite map_app; reflexivity.
Qed.

Lemma set_running_inv : forall s id i i', Inv s -> lookup id (o_running s) = Some i -> i_ser i' = i_ser i ->
  Inv (set_running s (update id i' (o_running s))).
Proof.
  intros s id i i' [Hnd Hl] Hlk Hs; split; prj.
  - rewrite keys_update; exact Hnd.
  - rewrite Hl. symmetry. eapply proj_update; eauto.
Qed.

(* one turn of stop_daemons on a daemon that is in the dict *)
Definition turn (spoll now : Z) (why : reason) (id : nat) (i : inst) (ex : list bool) (s : ost) : ost * list Z :=
  let r := stage (i_h i) spoll now why (i_sp i) false ex in
  let i' := {| i_ser := i_ser i; i_h := i_h i; i_sp := r_sp r; i_canc := i_canc i || r_cancel r |} in
  let s1 := set_running s (update id i' (o_running s)) in
  (if r_done r then match finish id s1 with Some x => x | None => s1 end else s1, r_delays r).

Lemma stop_list_cons : forall spoll now why id rest orc s,
  stop_list spoll now why (id :: rest) orc s =
  match lookup id (o_running s) with
  | None => stop_list spoll now why rest (tl orc) s
  | Some i =>
      if fst (match orc with o :: _ => o | [] => (false, []) end)
      then stop_list spoll now why rest (tl orc) (match finish id s with Some x => x | None => s end)
      else let '(s3, ds, orc3) := stop_list spoll now why rest (tl orc)
                                   (fst (turn spoll now why id i (snd (match orc with o :: _ => o | [] => (false, []) end)) s)) in
           (s3, snd (turn spoll now why id i (snd (match orc with o :: _ => o | [] => (false, []) end)) s) ++ ds, orc3)
  end.
Proof.
  intros. cbn [stop_list]. destruct (match orc with o :: _ => o | [] => (false, []) end) as [d0 ex]. cbn [fst snd].
  destruct (lookup id (o_running s)); [| reflexivity]. destruct d0; reflexivity.
Qed.

(* A property of states that survives the two things a turn can do survives stop_list. *)
Section StopListInd.
  Variable R : ost -> ost -> Prop.
  Hypothesis R_refl : forall s, R s s.
  Hypothesis R_trans : forall a b c, R a b -> R b c -> R a c.
  Hypothesis R_upd : forall s id i i', lookup id (o_running s) = Some i -> i_ser i' = i_ser i ->
    R s (set_running s (update id i' (o_running s))).
  Hypothesis R_fin : forall s id s', finish id s = Some s' -> R s s'.

  Lemma turn_R : forall spoll now why id i ex s, lookup id (o_running s) = Some i -> R s (fst (turn spoll now why id i ex s)).
  Proof.
    intros. unfold turn; cbn [fst].
    match goal with |- R s (if ?c then _ else ?s1) => assert (H1 : R s s1) by (apply R_upd with (i := i); auto); destruct c; [| exact H1] end.
    match goal with |- R s (match finish id ?s1 with _ => _ end) => destruct (finish id s1) eqn:E; [| exact H1] end.
    eapply R_trans; [exact H1 | eapply R_fin; eauto].
  Qed.

  Lemma stop_list_R : forall spoll now why targets orc s, R s (fst (fst (stop_list spoll now why targets orc s))).
  Proof.
    induction targets as [| id rest IH]; intros orc s; [apply R_refl |].
    rewrite stop_list_cons. destruct (lookup id (o_running s)) as [i |] eqn:El; [| apply IH].
    match goal with |- context [if fst ?o then _ else _] => destruct (fst o) end.
    - destruct (finish id s) eqn:Ef; [eapply R_trans; [eapply R_fin; eauto | apply IH] | apply IH].
    - match goal with |- context [stop_list ?a ?b ?c ?d ?e ?f] => specialize (IH e f); destruct (stop_list a b c d e f) as [[s3 ds] orc3] end.
      cbn [fst] in *. eapply R_trans; [apply turn_R; exact El | exact IH].
  Qed.
End StopListInd.

Lemma stop_list_inv : forall spoll now why targets orc s, Inv s -> Inv (fst (fst (stop_list spoll now why targets orc s))).
Proof.
  intros spoll now why targets orc s.
  apply (stop_list_R (fun a b => Inv a -> Inv b)); auto.
  - intros; eapply set_running_inv; eauto.
  - intros; eapply finish_inv; eauto.
Qed.

Lemma stop_list_forever : forall spoll now why targets orc s x,
  In x (o_forever s) -> In x (o_forever (fst (fst (stop_list spoll now why targets orc s)))).
Proof.
  intros spoll now why targets orc s x.
  apply (stop_list_R (fun a b => In x (o_forever a) -> In x (o_forever b))); auto.
  intros; eapply finish_forever_mono; eauto.
Qed.

Lemma stop_list_keys_sub : forall spoll now why targets orc s x,
  In x (keys (o_running (fst (fst (stop_list spoll now why targets orc s))))) -> In x (keys (o_running s)).
Proof.
  intros spoll now why targets orc s x.
  apply (stop_list_R (fun a b => In x (keys (o_running b)) -> In x (keys (o_running a)))); auto.
  - intros s0 id i i' _ _; prj. rewrite keys_update; auto.
  - intros s0 id s' Hf H. apply (finish_keys _ _ _ Hf) in H. tauto.
Qed.

Lemma stop_list_misc : forall spoll now why targets orc s,
  let s' := fst (fst (stop_list spoll now why targets orc s)) in
  o_known s' = o_known s /\ o_gone s' = o_gone s /\ o_kstop s' = o_kstop s /\ o_kiter s' = o_kiter s /\ o_next s' = o_next s.
Proof.
  intros spoll now why targets orc s.
  apply (stop_list_R (fun a b => o_known b = o_known a /\ o_gone b = o_gone a /\ o_kstop b = o_kstop a /\ o_kiter b = o_kiter a /\ o_next b = o_next a)).
  - auto.
  - intros a b c (H1 & H2 & H3 & H4 & H5) (G1 & G2 & G3 & G4 & G5); repeat split; congruence.
  - intros; prj; auto.
  - intros s0 id s' Hf. apply finish_misc in Hf. exact Hf.
Qed.

Lemma with_delays_inv : forall s d, Inv s -> Inv (with_delays s d).
Proof. intros s d [H1 H2]; split; prj; assumption. Qed.

Lemma proc_inv : forall spoll v now orc s, Inv s -> Inv (proc spoll v now orc s).
Proof.
  intros spoll v now orc s H. unfold proc. destruct (v_deleting v).
  - pose proof (stop_list_inv spoll now RDeleted (keys (o_running s)) orc s H) as H1.
    destruct (stop_list spoll now RDeleted (keys (o_running s)) orc s) as [[s1 ds] o1]. apply with_delays_inv; exact H1.
  - match goal with |- context [spawn_all ?hs s] => pose proof (spawn_all_inv hs s H) as H0; set (s0 := spawn_all hs s) in * end.
    match goal with |- context [stop_list spoll now RMismatch ?t orc s0] =>
      pose proof (stop_list_inv spoll now RMismatch t orc s0 H0) as H1;
      destruct (stop_list spoll now RMismatch t orc s0) as [[s2 d2] orc2] end. cbn [fst] in H1.
    destruct (v_paused v); [| apply with_delays_inv; exact H1].
    pose proof (stop_list_inv spoll now RPausing (keys (o_running s2)) orc2 s2 H1) as H2.
    destruct (stop_list spoll now RPausing (keys (o_running s2)) orc2 s2) as [[s3 d3] o3]. apply with_delays_inv; exact H2.
Qed.

Lemma upd_inst_inv : forall s id ser f, (forall i, i_ser (f i) = i_ser i) -> Inv s -> Inv (upd_inst s id ser f).
Proof.
  intros s id ser f Hf H. unfold upd_inst. destruct (lookup id (o_running s)) as [i |] eqn:E; [| exact H].
  destruct (Nat.eqb (i_ser i) ser); [| exact H]. eapply set_running_inv; eauto.
Qed.

Lemma step_inv : forall spoll s l s', Inv s -> step spoll s l = Some s' -> Inv s'.
Proof.
  intros spoll s l s' H. destruct l; cbn [step].
  - destruct (o_gone s); [discriminate |]. intros E; injection E as <-. apply proc_inv.
    destruct deleted_event; [destruct H; split; prj; assumption | exact H].
  - destruct (lookup id (o_running s)) as [i |]; [| discriminate]. destruct (Nat.eqb (i_ser i) ser); [| discriminate].
    apply finish_inv; exact H.
  - destruct (o_known s); [| discriminate]. intros E; injection E as <-. destruct H; split; prj; assumption.
  - destruct (o_kiter s); [| discriminate]. intros E; injection E as <-. destruct H; split; prj; assumption.
  - destruct (_ && _); [| discriminate]. intros E; injection E as <-. apply upd_inst_inv; auto.
  - destruct (_ && _); [| discriminate]. intros E; injection E as <-. apply upd_inst_inv; auto.
  - destruct (_ || _); [| discriminate]. intros E; injection E as <-. apply upd_inst_inv; auto.
Qed.

Lemma init_inv : Inv init.
Proof. split; cbn; [constructor | reflexivity]. Qed.

Lemma run_inv : forall spoll tr s s', Inv s -> run spoll s tr = Some s' -> Inv s'.
Proof.
  induction tr as [| l tr IH]; cbn; intros s s' H.
  - intros E; injection E as <-; exact H.
  - destruct (step spoll s l) as [s1 |] eqn:E; [| discriminate]. apply IH. eapply step_inv; eauto.
Qed.

(* ---- at most one instance per handler id *)
Lemma inv_single : forall s id ser1 ser2, Inv s -> In (id, ser1) (o_live s) -> In (id, ser2) (o_live s) -> ser1 = ser2.
Proof.
  intros s id ser1 ser2 [Hnd Hl]; rewrite Hl; unfold proj; rewrite !in_map_iff.
  intros [[k1 i1] [E1 H1]] [[k2 i2] [E2 H2]]; cbn in *. injection E1 as -> <-. injection E2 as -> <-.
  apply (In_lookup _ _ _ _ Hnd) in H1. apply (In_lookup _ _ _ _ Hnd) in H2. congruence.
Qed.

Theorem single_instance : forall spoll tr s id ser1 ser2,
  run spoll init tr = Some s -> In (id, ser1) (o_live s) -> In (id, ser2) (o_live s) -> ser1 = ser2.
Proof. intros spoll tr s id ser1 ser2 Hr. apply inv_single. eapply run_inv; [apply init_inv | exact Hr]. Qed.

(* a new instance of a handler id can only be live once the previous one is not any more *)
Theorem no_respawn_before_end : forall spoll tr s l s' id ser ser',
  run spoll init tr = Some s -> step spoll s l = Some s' ->
  In (id, ser) (o_live s) -> In (id, ser') (o_live s') -> ser' <> ser -> ~ In (id, ser) (o_live s').
Proof.
  intros spoll tr s l s' id ser ser' Hr Hs _ H' Hne Hin. apply Hne.
  eapply inv_single; [eapply step_inv; [eapply run_inv; [apply init_inv | exact Hr] | exact Hs] | exact H' | exact Hin].
Qed.

(* the runner's self-removal never fails: `del daemons[handler.id]` finds its own entry *)
Theorem runner_finds_itself : forall spoll tr s id ser,
  run spoll init tr = Some s -> In (id, ser) (o_live s) ->
  exists i, lookup id (o_running s) = Some i /\ i_ser i = ser /\ finish id s <> None.
Proof.
  intros spoll tr s id ser Hr Hin. destruct (run_inv _ _ _ _ init_inv Hr) as [Hnd Hl].
  rewrite Hl in Hin. unfold proj in Hin. apply in_map_iff in Hin as [[k i] [E H]]. cbn in E; injection E as -> <-.
  exists i. apply (In_lookup _ _ _ _ Hnd) in H. repeat split; auto. unfold finish; rewrite H; discriminate.
Qed.

(* ---- spawning *)
Lemma spawn_all_keeps : forall hs s x, In x (keys (o_running s)) -> In x (keys (o_running (spawn_all hs s))).
Proof.
  induction hs as [| [id h] hs IH]; cbn; [auto |]. intros s x H. apply IH.
  destruct (nmem id (keys (o_running s))); [exact H |]. prj. unfold keys; rewrite map_app, in_app_iff; left; exact H.
Qed.

Lemma spawn_all_spawns : forall hs s x, In x (keys hs) -> In x (keys (o_running (spawn_all hs s))).
Proof.
  induction hs as [| [id h] hs IH]; cbn; [intros s x [] |]. intros s x [<- | H]; [| apply IH; exact H].
  apply spawn_all_keeps. destruct (nmem id (keys (o_running s))) eqn:E; [apply nmem_In; exact E |].
  prj. unfold keys; rewrite map_app, in_app_iff; right; cbn; auto.
Qed.

Lemma spawn_all_keys : forall hs s x, In x (keys (o_running (spawn_all hs s))) -> In x (keys (o_running s)) \/ In x (keys hs).
Proof.
  induction hs as [| [id h] hs IH]; cbn; [auto |]. intros s x H. apply IH in H as [H | H]; [| auto].
  destruct (nmem id (keys (o_running s))); [auto |]. revert H; prj. unfold keys; rewrite map_app, in_app_iff; cbn. intuition.
Qed.

Lemma spawn_all_forever : forall hs s, o_forever (spawn_all hs s) = o_forever s.
Proof.
  induction hs as [| [id h] hs IH]; cbn; [reflexivity |]. intros s. rewrite IH. destruct (nmem id (keys (o_running s))); reflexivity.
Qed.

Lemma turn_lookup_other : forall spoll now why id i ex s k, k <> id ->
  lookup k (o_running (fst (turn spoll now why id i ex s))) = lookup k (o_running s).
Proof.
  intros. unfold turn; cbn [fst].
  match goal with |- context [if ?c then _ else ?s1] =>
    assert (H1 : lookup k (o_running s1) = lookup k (o_running s)) by (prj; apply lookup_update_other; auto); destruct c; [| exact H1] end.
  match goal with |- context [finish id ?s1] => destruct (finish id s1) eqn:E; [| exact H1] end.
  rewrite (finish_lookup_other _ _ _ _ E H). exact H1.
Qed.

Lemma stop_list_keeps : forall spoll now why targets orc s k, ~ In k targets ->
  lookup k (o_running (fst (fst (stop_list spoll now why targets orc s)))) = lookup k (o_running s).
Proof.
  induction targets as [| id rest IH]; intros orc s k Hni; [reflexivity |].
  assert (Hne : k <> id) by (intros ->; apply Hni; cbn; auto).
  assert (Hr : ~ In k rest) by (intros H; apply Hni; cbn; auto).
  rewrite stop_list_cons. destruct (lookup id (o_running s)) as [i |] eqn:El; [| apply IH; exact Hr].
  match goal with |- context [if fst ?o then _ else _] => destruct (fst o) end.
  - rewrite IH by exact Hr. destruct (finish id s) eqn:Ef; [eapply finish_lookup_other; eauto | reflexivity].
  - match goal with |- context [stop_list ?a ?b ?c ?d ?e ?f] => specialize (IH e f k Hr); destruct (stop_list a b c d e f) as [[s3 ds] orc3] end.
    cbn [fst] in *. rewrite IH. apply turn_lookup_other; exact Hne.
Qed.

Lemma lookup_some_keys : forall A k (l : list (nat * A)) v, lookup k l = Some v -> In k (keys l).
Proof. intros A k l v H. apply lookup_In in H. change k with (fst (k, v)). apply in_map; exact H. Qed.

Lemma keys_lookup_some : forall A k (l : list (nat * A)), In k (keys l) -> exists v, lookup k l = Some v.
Proof.
  intros A k l H. destruct (lookup k l) eqn:E; [eauto |]. apply lookup_keys in E. contradiction.
Qed.

(* started on match: after an event of an object that is not marked for deletion (operator not paused), every matching
   handler that never exited on its own has an instance *)
Theorem spawn_on_match : forall spoll s v now orc s' id h,
  step spoll s (LProc false v now orc) = Some s' -> v_deleting v = false -> v_paused v = false ->
  In (id, h) (v_matching v) -> ~ In id (o_forever s) -> In id (keys (o_running s')).
Proof.
  intros spoll s v now orc s' id h; cbn [step]. destruct (o_gone s); [discriminate |]. intros E; injection E as <-.
  intros Hd Hp Hm Hf. unfold proc; rewrite Hd, Hp.
  set (hs := filter (fun h0 => negb (nmem (fst h0) (o_forever s))) (v_matching v)).
  assert (Hin : In id (keys hs)).
  { change id with (fst (id, h)). apply in_map. apply filter_In; split; [exact Hm |]. cbn. apply negb_true_iff, nmem_false; exact Hf. }
  pose proof (spawn_all_spawns hs s id Hin) as H0. set (s0 := spawn_all hs s) in *.
  set (mism := filter (fun id0 => negb (nmem id0 (keys hs))) (keys (o_running s0))).
  assert (Hni : ~ In id mism).
  { unfold mism; rewrite filter_In. intros [_ H]. apply negb_true_iff, nmem_false in H. contradiction. }
  pose proof (stop_list_keeps spoll now RMismatch mism orc s0 id Hni) as Hk.
  destruct (stop_list spoll now RMismatch mism orc s0) as [[s2 d2] orc2]. cbn [fst] in Hk. prj.
  destruct (keys_lookup_some _ _ _ H0) as [i Hi]. rewrite Hi in Hk. eapply lookup_some_keys; eauto.
Qed.

(* ---- no restart after an exit on its own accord *)
Lemma proc_forever_keys : forall spoll v now orc s id,
  In id (o_forever s) ->
  In id (o_forever (proc spoll v now orc s)) /\ (In id (keys (o_running (proc spoll v now orc s))) -> In id (keys (o_running s))).
Proof.
  intros spoll v now orc s id Hf. unfold proc. destruct (v_deleting v).
  - pose proof (stop_list_forever spoll now RDeleted (keys (o_running s)) orc s id Hf) as H1.
    pose proof (stop_list_keys_sub spoll now RDeleted (keys (o_running s)) orc s id) as H2.
    destruct (stop_list spoll now RDeleted (keys (o_running s)) orc s) as [[s1 ds] o1]. cbn [fst] in *. prj. auto.
  - set (hs := filter (fun h0 => negb (nmem (fst h0) (o_forever s))) (v_matching v)).
    assert (Hni : ~ In id (keys hs)).
    { unfold keys; rewrite in_map_iff. intros [[k h] [E H]]. cbn in E; subst k. apply filter_In in H as [_ H]. cbn in H.
      apply negb_true_iff, nmem_false in H. contradiction. }
    pose proof (spawn_all_keys hs s id) as Hk. pose proof (spawn_all_forever hs s) as Hff. set (s0 := spawn_all hs s) in *.
    assert (Hf0 : In id (o_forever s0)) by (rewrite Hff; exact Hf).
    match goal with |- context [stop_list spoll now RMismatch ?t orc s0] =>
      pose proof (stop_list_forever spoll now RMismatch t orc s0 id Hf0) as H1;
      pose proof (stop_list_keys_sub spoll now RMismatch t orc s0 id) as H2;
      destruct (stop_list spoll now RMismatch t orc s0) as [[s2 d2] orc2] end. cbn [fst] in *.
    destruct (v_paused v).
    + pose proof (stop_list_forever spoll now RPausing (keys (o_running s2)) orc2 s2 id H1) as H3.
      pose proof (stop_list_keys_sub spoll now RPausing (keys (o_running s2)) orc2 s2 id) as H4.
      destruct (stop_list spoll now RPausing (keys (o_running s2)) orc2 s2) as [[s3 d3] o3]. cbn [fst] in *. prj.
      split; [exact H3 |]. intros H. apply H4, H2, Hk in H. tauto.
    + prj. split; [exact H1 |]. intros H. apply H2, Hk in H. tauto.
Qed.

Lemma upd_inst_same : forall s id ser f, o_forever (upd_inst s id ser f) = o_forever s /\ keys (o_running (upd_inst s id ser f)) = keys (o_running s).
Proof.
  intros. unfold upd_inst. destruct (lookup id (o_running s)); [| auto]. destruct (Nat.eqb _ _); [| auto]. prj. rewrite keys_update; auto.
Qed.

Lemma step_forever_keys : forall spoll s l s' id, step spoll s l = Some s' -> In id (o_forever s) ->
  In id (o_forever s') /\ (In id (keys (o_running s')) -> In id (keys (o_running s))).
Proof.
  intros spoll s l s' id. destruct l; cbn [step].
  - destruct (o_gone s); [discriminate |]. intros E; injection E as <-. intros Hf.
    destruct deleted_event; [apply (proc_forever_keys spoll v now orc (forget s) id Hf) | apply proc_forever_keys; exact Hf].
  - destruct (lookup id0 (o_running s)) as [i |]; [| discriminate]. destruct (Nat.eqb (i_ser i) ser); [| discriminate].
    intros Hfin Hf. split; [eapply finish_forever_mono; eauto |]. intros H. apply (finish_keys _ _ _ Hfin) in H. tauto.
  - destruct (o_known s); [| discriminate]. intros E; injection E as <-. prj; auto.
  - destruct (o_kiter s); [| discriminate]. intros E; injection E as <-. prj; auto.
  - destruct (_ && _); [| discriminate]. intros E; injection E as <-.
    match goal with |- context [upd_inst s ?a ?b ?c] => destruct (upd_inst_same s a b c) as [-> ->] end; auto.
  - destruct (_ && _); [| discriminate]. intros E; injection E as <-.
    match goal with |- context [upd_inst s ?a ?b ?c] => destruct (upd_inst_same s a b c) as [-> ->] end; auto.
  - destruct (_ || _); [| discriminate]. intros E; injection E as <-.
    match goal with |- context [upd_inst s ?a ?b ?c] => destruct (upd_inst_same s a b c) as [-> ->] end; auto.
Qed.

Theorem no_restart_after_own_exit : forall spoll tr s s' id,
  run spoll s tr = Some s' -> In id (o_forever s) -> ~ In id (keys (o_running s)) ->
  In id (o_forever s') /\ ~ In id (keys (o_running s')).
Proof.
  induction tr as [| l tr IH]; cbn; intros s s' id.
  - intros E; injection E as <-; auto.
  - destruct (step spoll s l) as [s1 |] eqn:E; [| discriminate]. intros Hr Hf Hn.
    destruct (step_forever_keys _ _ _ _ id E Hf) as [H1 H2]. apply (IH s1 s' id Hr H1). intros H; apply Hn, H2, H.
Qed.

Theorem own_exit_is_remembered : forall spoll s id ser s' i,
  lookup id (o_running s) = Some i -> sp_reason (i_sp i) = None ->
  step spoll s (LEnd id ser) = Some s' -> In id (o_forever s') /\ ~ In id (keys (o_running s')).
Proof.
  intros spoll s id ser s' i Hl Hr; cbn [step]; rewrite Hl. destruct (Nat.eqb (i_ser i) ser); [| discriminate].
  eapply finish_own_exit; eauto.
Qed.

(* ---- asked to stop: every daemon targeted by stop_daemons and still there afterwards carries the reason *)
Definition flagged (why : reason) (s : ost) (id : nat) : Prop :=
  forall i, lookup id (o_running s) = Some i -> is_set (i_sp i) (Some why) = true.

Lemma finish_some : forall id s i, lookup id (o_running s) = Some i -> exists s', finish id s = Some s'.
Proof. intros id s i H; unfold finish; rewrite H; eauto. Qed.

Lemma finish_removes : forall id s s', finish id s = Some s' -> lookup id (o_running s') = None.
Proof.
  intros id s s'; unfold finish. destruct (lookup id (o_running s)); [| discriminate]. intros H; injection H as <-; prj.
  apply lookup_remove_same.
Qed.

Lemma turn_flagged : forall spoll now why id i ex s, lookup id (o_running s) = Some i ->
  flagged why (fst (turn spoll now why id i ex s)) id.
Proof.
  intros spoll now why id i ex s Hl. unfold turn; cbn [fst].
  set (r := stage (i_h i) spoll now why (i_sp i) false ex).
  set (i' := {| i_ser := i_ser i; i_h := i_h i; i_sp := r_sp r; i_canc := i_canc i || r_cancel r |}).
  set (s1 := set_running s (update id i' (o_running s))).
  assert (H1 : flagged why s1 id).
  { intros j; unfold s1; prj. rewrite lookup_update_same by congruence. intros E; injection E as <-. cbn. apply stage_sets_reason. }
  destruct (r_done r); [| exact H1]. destruct (finish id s1) eqn:Ef; [| exact H1].
  intros j Hj. rewrite (finish_removes _ _ _ Ef) in Hj; discriminate.
Qed.

Lemma stop_list_flags : forall spoll now why targets orc s id,
  (In id targets \/ flagged why s id) -> flagged why (fst (fst (stop_list spoll now why targets orc s))) id.
Proof.
  induction targets as [| id0 rest IH]; intros orc s id H.
  - destruct H as [[] | H]; exact H.
  - rewrite stop_list_cons. destruct (lookup id0 (o_running s)) as [i |] eqn:El.
    + match goal with |- context [if fst ?o then _ else _] => destruct (fst o) end.
      * destruct (finish_some _ _ _ El) as [s' Ef]. rewrite Ef. apply IH.
        destruct (Nat.eq_dec id id0) as [-> | Hne].
        -- right. intros j Hj. rewrite (finish_removes _ _ _ Ef) in Hj; discriminate.
        -- destruct H as [[H | H] | H]; [congruence | left; exact H |].
           right. intros j Hj. rewrite (finish_lookup_other _ _ _ _ Ef Hne) in Hj. apply H; exact Hj.
      * match goal with |- context [stop_list ?a ?b ?c ?d ?e ?f] => specialize (IH e f id); destruct (stop_list a b c d e f) as [[s3 ds] orc3] end.
        cbn [fst] in *. apply IH.
        destruct (Nat.eq_dec id id0) as [-> | Hne]; [right; apply turn_flagged; exact El |].
        destruct H as [[H | H] | H]; [congruence | left; exact H |].
        right. intros j Hj. rewrite turn_lookup_other in Hj by exact Hne. apply H; exact Hj.
    + apply IH. destruct (Nat.eq_dec id id0) as [-> | Hne].
      * right. intros j Hj. congruence.
      * destruct H as [[H | H] | H]; [congruence | left; exact H | right; exact H].
Qed.

Lemma with_delays_running : forall s d, o_running (with_delays s d) = o_running s.
Proof. reflexivity. Qed.

(* object marked for deletion (deletionTimestamp), whatever the event type — also DELETED: every remaining daemon is asked *)
Theorem stop_on_deletion_mark : forall spoll s del v now orc s' id i,
  step spoll s (LProc del v now orc) = Some s' -> v_deleting v = true ->
  lookup id (o_running s') = Some i -> is_set (i_sp i) (Some RDeleted) = true.
Proof.
  intros spoll s del v now orc s' id i; cbn [step]. destruct (o_gone s); [discriminate |]. intros E; injection E as <-.
  intros Hd. unfold proc; rewrite Hd.
  set (s0 := if del then forget s else s).
  pose proof (stop_list_flags spoll now RDeleted (keys (o_running s0)) orc s0 id) as H.
  pose proof (stop_list_keys_sub spoll now RDeleted (keys (o_running s0)) orc s0 id) as Hk.
  destruct (stop_list spoll now RDeleted (keys (o_running s0)) orc s0) as [[s1 ds] o1]. cbn [fst] in *.
  rewrite with_delays_running. intros Hl. apply H; [| exact Hl]. left. apply Hk. eapply lookup_some_keys; eauto.
Qed.

(* stops matching: asked with FILTERS_MISMATCH *)
Theorem stop_on_mismatch : forall spoll s v now orc s' id i,
  step spoll s (LProc false v now orc) = Some s' -> v_deleting v = false -> v_paused v = false ->
  ~ In id (keys (v_matching v)) -> lookup id (o_running s') = Some i -> is_set (i_sp i) (Some RMismatch) = true.
Proof.
  intros spoll s v now orc s' id i; cbn [step]. destruct (o_gone s); [discriminate |]. intros E; injection E as <-.
  intros Hd Hp Hm. unfold proc; rewrite Hd, Hp.
  set (hs := filter (fun h0 => negb (nmem (fst h0) (o_forever s))) (v_matching v)).
  set (s0 := spawn_all hs s).
  set (mism := filter (fun id0 => negb (nmem id0 (keys hs))) (keys (o_running s0))).
  pose proof (stop_list_flags spoll now RMismatch mism orc s0 id) as H.
  pose proof (stop_list_keys_sub spoll now RMismatch mism orc s0 id) as Hk.
  destruct (stop_list spoll now RMismatch mism orc s0) as [[s2 d2] orc2]. cbn [fst] in *.
  rewrite with_delays_running. intros Hl. apply H; [| exact Hl]. left. unfold mism. apply filter_In. split.
  - apply Hk. eapply lookup_some_keys; eauto.
  - apply negb_true_iff, nmem_false. intros Hin. apply Hm. unfold keys, hs in Hin. apply in_map_iff in Hin as [[k h] [Ek Hin]].
    apply filter_In in Hin as [Hin _]. cbn in Ek; subst k. change id with (fst (id, h)). apply in_map; exact Hin.
Qed.

(* operator paused: everything (also what this very event spawned) is asked with OPERATOR_PAUSING *)
Theorem stop_on_pause : forall spoll s v now orc s' id i,
  step spoll s (LProc false v now orc) = Some s' -> v_deleting v = false -> v_paused v = true ->
  lookup id (o_running s') = Some i -> is_set (i_sp i) (Some RPausing) = true.
Proof.
  intros spoll s v now orc s' id i; cbn [step]. destruct (o_gone s); [discriminate |]. intros E; injection E as <-.
  intros Hd Hp. unfold proc; rewrite Hd, Hp.
  match goal with |- context [stop_list spoll now RMismatch ?t orc ?s0] => destruct (stop_list spoll now RMismatch t orc s0) as [[s2 d2] orc2] end.
  pose proof (stop_list_flags spoll now RPausing (keys (o_running s2)) orc2 s2 id) as H.
  pose proof (stop_list_keys_sub spoll now RPausing (keys (o_running s2)) orc2 s2 id) as Hk.
  destruct (stop_list spoll now RPausing (keys (o_running s2)) orc2 s2) as [[s3 d3] o3]. cbn [fst] in *.
  rewrite with_delays_running. intros Hl. apply H; [| exact Hl]. left. apply Hk. eapply lookup_some_keys; eauto.
Qed.

(* ---- F7: the object disappears without ever having carried a deletionTimestamp *)
Definition h0 : hcfg := {| h_kind := KDaemon; h_backoff := None; h_timeout := None; h_polling := None |}.
Definition v_live : view := {| v_matching := [(0%nat, h0)]; v_deleting := false; v_paused := false |}.

Definition orphan (s : ost) (id ser : nat) : Prop :=
  o_gone s = true /\ o_known s = false /\ o_kiter s = false /\ ~ In ser (o_kstop s) /\
  exists i, lookup id (o_running s) = Some i /\ i_ser i = ser /\ sp_reason (i_sp i) = None.

Lemma stop_on_disappear_refuted :
  exists tr s, run 1000 init (tr ++ [LProc true v_live 0 []]) = Some s /\ orphan s 0 0 /\ In (0%nat, 0%nat) (o_live s).
Proof.
  exists [LProc false v_live 0 []]. eexists. split; [vm_compute; reflexivity |]. split.
  - unfold orphan; cbn. repeat split; auto. eexists; repeat split; reflexivity.
  - cbn; auto.
Qed.

(* ... and nothing the operator does afterwards (events, pause, exit) ever asks it to stop *)
Lemma orphan_step : forall spoll s l s' id ser, orphan s id ser -> step spoll s l = Some s' ->
  orphan s' id ser \/ lookup id (o_running s') = None.
Proof.
  intros spoll s l s' id ser (Hg & Hk & Hi & Hn & i & Hl & Hs & Hr). destruct l; cbn [step].
  - rewrite Hg; discriminate.
  - destruct (lookup id0 (o_running s)) as [j |] eqn:Ej; [| discriminate]. destruct (Nat.eqb (i_ser j) ser0); [| discriminate].
    intros Hf. destruct (Nat.eq_dec id id0) as [-> | Hne]; [right; eapply finish_removes; eauto |].
    left. destruct (finish_misc _ _ _ Hf) as (E1 & E2 & E3 & E4 & _). unfold orphan. rewrite E1, E2, E3, E4.
    repeat split; auto. exists i. rewrite (finish_lookup_other _ _ _ _ Hf Hne). auto.
  - rewrite Hk; discriminate.
  - rewrite Hi; discriminate.
  - destruct (_ && _) eqn:G; [| discriminate]. intros E; injection E as <-. left.
    apply andb_prop in G as [G _].
    unfold upd_inst. destruct (lookup id0 (o_running s)) as [j |] eqn:Ej; [| unfold orphan; repeat split; auto; exists i; auto].
    destruct (Nat.eqb (i_ser j) ser0) eqn:Es; [| unfold orphan; repeat split; auto; exists i; auto].
    destruct (Nat.eq_dec id id0) as [-> | Hne].
    + exfalso. rewrite Hl in Ej; injection Ej as <-. apply Nat.eqb_eq in Es. unfold has_inst in G. rewrite Hl in G.
      rewrite Hs in *. subst ser0. rewrite Nat.eqb_refl in G. cbn in G. rewrite orb_false_r in G. apply nmem_In in G. contradiction.
    + unfold orphan; prj. repeat split; auto. exists i. rewrite lookup_update_other by exact Hne. auto.
  - destruct (_ && _) eqn:G; [| discriminate]. intros E; injection E as <-. left.
    apply andb_prop in G as [G _].
    unfold upd_inst. destruct (lookup id0 (o_running s)) as [j |] eqn:Ej; [| unfold orphan; repeat split; auto; exists i; auto].
    destruct (Nat.eqb (i_ser j) ser0) eqn:Es; [| unfold orphan; repeat split; auto; exists i; auto].
    destruct (Nat.eq_dec id id0) as [-> | Hne].
    + exfalso. rewrite Hl in Ej; injection Ej as <-. apply Nat.eqb_eq in Es. unfold has_inst in G. rewrite Hl in G.
      rewrite Hs in *. subst ser0. rewrite Nat.eqb_refl in G. cbn in G. rewrite orb_false_r in G. apply nmem_In in G. contradiction.
    + unfold orphan; prj. repeat split; auto. exists i. rewrite lookup_update_other by exact Hne. auto.
  - destruct (_ || _) eqn:G; [| discriminate]. intros E; injection E as <-. left.
    unfold upd_inst. destruct (lookup id0 (o_running s)) as [j |] eqn:Ej; [| unfold orphan; repeat split; auto; exists i; auto].
    destruct (Nat.eqb (i_ser j) ser0) eqn:Es; [| unfold orphan; repeat split; auto; exists i; auto].
    destruct (Nat.eq_dec id id0) as [-> | Hne].
    + exfalso. rewrite Hl in Ej; injection Ej as <-. apply Nat.eqb_eq in Es. unfold has_inst in G. rewrite Hl in G.
      rewrite Hs in *. subst ser0. rewrite Nat.eqb_refl in G. cbn in G. rewrite orb_false_r in G. apply nmem_In in G. contradiction.
    + unfold orphan; prj. repeat split; auto. exists i. rewrite lookup_update_other by exact Hne. auto.
Qed.

Theorem orphan_never_stopped : forall spoll tr s s' id ser, orphan s id ser -> run spoll s tr = Some s' ->
  forall i, lookup id (o_running s') = Some i -> i_ser i = ser /\ sp_reason (i_sp i) = None.
Proof.
  induction tr as [| l tr IH]; cbn; intros s s' id ser Ho.
  - intros E; injection E as <-. destruct Ho as (_ & _ & _ & _ & i & Hl & Hs & Hr). intros j Hj. rewrite Hl in Hj; injection Hj as <-; auto.
  - destruct (step spoll s l) as [s1 |] eqn:E; [| discriminate]. intros Hr.
    destruct (orphan_step _ _ _ _ _ _ Ho E) as [Ho1 | Hnone]; [eapply IH; eauto |].
    (* the instance has ended; nothing of that id can reappear: the object is gone *)
    assert (Hg : o_gone s1 = true /\ lookup id (o_running s1) = None).
    { split; [| exact Hnone]. destruct Ho as (Hg & _). destruct l; cbn [step] in E.
      - rewrite Hg in E; discriminate.
      - destruct (lookup id0 (o_running s)); [| discriminate]. destruct (Nat.eqb _ _); [| discriminate].
        destruct (finish_misc _ _ _ E) as (_ & E2 & _). congruence.
      - destruct (o_known s); [| discriminate]. injection E as <-; exact Hg.
      - destruct (o_kiter s); [| discriminate]. injection E as <-; exact Hg.
      - destruct (_ && _); [| discriminate]. injection E as <-. unfold upd_inst. destruct (lookup id0 (o_running s)); [| exact Hg]. destruct (Nat.eqb _ _); exact Hg.
      - destruct (_ && _); [| discriminate]. injection E as <-. unfold upd_inst. destruct (lookup id0 (o_running s)); [| exact Hg]. destruct (Nat.eqb _ _); exact Hg.
      - destruct (_ || _); [| discriminate]. injection E as <-. unfold upd_inst. destruct (lookup id0 (o_running s)); [| exact Hg]. destruct (Nat.eqb _ _); exact Hg. }
    clear - Hg Hr. revert s1 Hg Hr. induction tr as [| l2 tr IH2]; cbn; intros s1 [Hg Hn].
    + intros E; injection E as <-. intros j Hj; congruence.
    + destruct (step spoll s1 l2) as [s2 |] eqn:E2; [| discriminate]. apply IH2. split.
      * destruct l2; cbn [step] in E2.
        -- rewrite Hg in E2; discriminate.
        -- destruct (lookup id0 (o_running s1)); [| discriminate]. destruct (Nat.eqb _ _); [| discriminate].
           destruct (finish_misc _ _ _ E2) as (_ & G2 & _). congruence.
        -- destruct (o_known s1); [| discriminate]. injection E2 as <-; exact Hg.
        -- destruct (o_kiter s1); [| discriminate]. injection E2 as <-; exact Hg.
        -- destruct (_ && _); [| discriminate]. injection E2 as <-. unfold upd_inst. destruct (lookup id0 (o_running s1)); [| exact Hg]. destruct (Nat.eqb _ _); exact Hg.
        -- destruct (_ && _); [| discriminate]. injection E2 as <-. unfold upd_inst. destruct (lookup id0 (o_running s1)); [| exact Hg]. destruct (Nat.eqb _ _); exact Hg.
        -- destruct (_ || _); [| discriminate]. injection E2 as <-. unfold upd_inst. destruct (lookup id0 (o_running s1)); [| exact Hg]. destruct (Nat.eqb _ _); exact Hg.
      * apply lookup_keys. intros Hin. apply lookup_keys in Hn. apply Hn.
        destruct l2; cbn [step] in E2.
        -- rewrite Hg in E2; discriminate.
        -- destruct (lookup id0 (o_running s1)); [| discriminate]. destruct (Nat.eqb _ _); [| discriminate].
           apply (finish_keys _ _ _ E2) in Hin. tauto.
        -- destruct (o_known s1); [| discriminate]. injection E2 as <-; exact Hin.
        -- destruct (o_kiter s1); [| discriminate]. injection E2 as <-; exact Hin.
        -- destruct (_ && _); [| discriminate]. injection E2 as <-.
           match type of Hin with context [upd_inst s1 ?a ?b ?c] => destruct (upd_inst_same s1 a b c) as [_ Ek]; rewrite Ek in Hin end; exact Hin.
        -- destruct (_ && _); [| discriminate]. injection E2 as <-.
           match type of Hin with context [upd_inst s1 ?a ?b ?c] => destruct (upd_inst_same s1 a b c) as [_ Ek]; rewrite Ek in Hin end; exact Hin.
        -- destruct (_ || _); [| discriminate]. injection E2 as <-.
           match type of Hin with context [upd_inst s1 ?a ?b ?c] => destruct (upd_inst_same s1 a b c) as [_ Ek]; rewrite Ek in Hin end; exact Hin.
Qed.

(* non-vacuity of the positive statements *)
Example stop_on_deletion_nonvacuous :
  exists s i, run 1000 init [LProc false v_live 0 []; LProc false {| v_matching := [(0%nat, h0)]; v_deleting := true; v_paused := false |} 5 [(false, [false])]] = Some s
              /\ lookup 0%nat (o_running s) = Some i /\ is_set (i_sp i) (Some RDeleted) = true /\ o_delays s = [1000].
Proof. eexists; eexists; split; [vm_compute; reflexivity |]. repeat split; reflexivity. Qed.

Example single_instance_nonvacuous :
  exists s, run 1000 init [LProc false v_live 0 []; LProc false v_live 1 []] = Some s /\ o_live s = [(0%nat, 0%nat)].
Proof. eexists; split; vm_compute; reflexivity. Qed.

(* ------------------------------------------------------------------ F702: forced removal while the daemons are being stopped *)

(* When the cycles continue, the staged stop proceeds: in the cancellation stage a not-yet-cancelled running daemon IS
   cancelled, in the abandonment stage it IS given up. *)
Lemma stage_cancels_when_due : forall h spoll now why sp ex,
  is_set sp (Some why) = true -> stage_of (eff_backoff h) (eff_timeout h) (age_of now sp) = SCancel ->
  is_set sp (Some RCancelled) = false ->
  r_cancel (stage h spoll now why sp false ex) = true /\ is_set (r_sp (stage h spoll now why sp false ex)) (Some RCancelled) = true.
Proof.
  intros h spoll now why sp ex Hw Hs Hc. rewrite stage_unfold. unfold stage_head. rewrite Hw. fold (age_of now sp) in *. rewrite Hs.
  unfold nudge. rewrite Hc. destruct (wait_instant false ex) as [d ex']. cbn. split; [reflexivity | apply is_set_after_set].
Qed.

Lemma stage_abandons_when_due : forall h spoll now why sp ex,
  is_set sp (Some why) = true -> stage_of (eff_backoff h) (eff_timeout h) (age_of now sp) = SAbandon ->
  is_set (r_sp (stage h spoll now why sp false ex)) (Some RAbandoned) = true /\ r_delays (stage h spoll now why sp false ex) = [].
Proof.
  intros h spoll now why sp ex Hw Hs. rewrite stage_unfold. unfold stage_head. rewrite Hw. fold (age_of now sp) in *. rewrite Hs.
  destruct (is_set sp (Some RAbandoned)) eqn:Ea; cbn; split; auto. apply is_set_after_set.
Qed.

(* An instance of a forgotten memory of a gone object that the killer does not hold: nothing can touch it any more. *)
Definition stranded (s : ost) (id ser : nat) (i : inst) : Prop :=
  o_gone s = true /\ o_known s = false /\ o_kiter s = false /\ ~ In ser (o_kstop s) /\
  lookup id (o_running s) = Some i /\ i_ser i = ser.

Lemma orphan_is_stranded : forall s id ser, orphan s id ser -> exists i, stranded s id ser i /\ sp_reason (i_sp i) = None.
Proof. intros s id ser (Hg & Hk & Hi & Hn & i & Hl & Hs & Hr). exists i; unfold stranded; auto 10. Qed.

Lemma gone_step : forall spoll s l s', o_gone s = true -> step spoll s l = Some s' -> o_gone s' = true.
Proof.
  intros spoll s l s' Hg. destruct l; cbn [step].
  - rewrite Hg; discriminate.
  - destruct (lookup id (o_running s)); [| discriminate]. destruct (Nat.eqb _ _); [| discriminate].
    intros E. destruct (finish_misc _ _ _ E) as (_ & E2 & _). congruence.
  - destruct (o_known s); [| discriminate]. intros E; injection E as <-; exact Hg.
  - destruct (o_kiter s); [| discriminate]. intros E; injection E as <-; exact Hg.
  - destruct (_ && _); [| discriminate]. intros E; injection E as <-. unfold upd_inst. destruct (lookup id (o_running s)); [| exact Hg]. destruct (Nat.eqb _ _); exact Hg.
  - destruct (_ && _); [| discriminate]. intros E; injection E as <-. unfold upd_inst. destruct (lookup id (o_running s)); [| exact Hg]. destruct (Nat.eqb _ _); exact Hg.
  - destruct (_ || _); [| discriminate]. intros E; injection E as <-. unfold upd_inst. destruct (lookup id (o_running s)); [| exact Hg]. destruct (Nat.eqb _ _); exact Hg.
Qed.

Lemma gone_absent_step : forall spoll s l s' id, o_gone s = true -> lookup id (o_running s) = None -> step spoll s l = Some s' ->
  lookup id (o_running s') = None.
Proof.
  intros spoll s l s' id Hg Hn E. apply lookup_keys. intros Hin. apply lookup_keys in Hn. apply Hn.
  destruct l; cbn [step] in E.
  - rewrite Hg in E; discriminate.
  - destruct (lookup id0 (o_running s)); [| discriminate]. destruct (Nat.eqb _ _); [| discriminate].
    apply (finish_keys _ _ _ E) in Hin. tauto.
  - destruct (o_known s); [| discriminate]. injection E as <-; exact Hin.
  - destruct (o_kiter s); [| discriminate]. injection E as <-; exact Hin.
  - destruct (_ && _); [| discriminate]. injection E as <-.
    match type of Hin with context [upd_inst s ?a ?b ?c] => destruct (upd_inst_same s a b c) as [_ Ek]; rewrite Ek in Hin end; exact Hin.
  - destruct (_ && _); [| discriminate]. injection E as <-.
    match type of Hin with context [upd_inst s ?a ?b ?c] => destruct (upd_inst_same s a b c) as [_ Ek]; rewrite Ek in Hin end; exact Hin.
  - destruct (_ || _); [| discriminate]. injection E as <-.
    match type of Hin with context [upd_inst s ?a ?b ?c] => destruct (upd_inst_same s a b c) as [_ Ek]; rewrite Ek in Hin end; exact Hin.
Qed.

Lemma gone_absent_run : forall spoll tr s s' id, o_gone s = true -> lookup id (o_running s) = None -> run spoll s tr = Some s' ->
  lookup id (o_running s') = None.
Proof.
  induction tr as [| l tr IH]; cbn; intros s s' id Hg Hn.
  - intros E; injection E as <-; exact Hn.
  - destruct (step spoll s l) as [s1 |] eqn:E; [| discriminate]. apply IH; [eapply gone_step; eauto | eapply gone_absent_step; eauto].
Qed.

Lemma stranded_upd : forall s id ser i id0 ser0 f,
  stranded s id ser i -> (nmem ser0 (o_kstop s) || negb (has_inst s id0 ser0)) = true -> stranded (upd_inst s id0 ser0 f) id ser i.
Proof.
  intros s id ser i id0 ser0 f (Hg & Hk & Hi & Hn & Hl & Hs) G.
  unfold upd_inst. destruct (lookup id0 (o_running s)) as [j |] eqn:Ej; [| unfold stranded; auto 10].
  destruct (Nat.eqb (i_ser j) ser0) eqn:Es; [| unfold stranded; auto 10].
  destruct (Nat.eq_dec id id0) as [-> | Hne].
  - exfalso. rewrite Hl in Ej; injection Ej as <-. apply Nat.eqb_eq in Es. unfold has_inst in G. rewrite Hl in G.
    rewrite Hs in *. subst ser0. rewrite Nat.eqb_refl in G. cbn in G. rewrite orb_false_r in G. apply nmem_In in G. contradiction.
  - unfold stranded; prj. repeat split; auto. rewrite lookup_update_other by exact Hne. exact Hl.
Qed.

Lemma stranded_step : forall spoll s l s' id ser i, stranded s id ser i -> step spoll s l = Some s' ->
  stranded s' id ser i \/ lookup id (o_running s') = None.
Proof.
  intros spoll s l s' id ser i Hst. pose proof Hst as (Hg & Hk & Hi & Hn & Hl & Hs). destruct l; cbn [step].
  - rewrite Hg; discriminate.
  - destruct (lookup id0 (o_running s)) as [j |] eqn:Ej; [| discriminate]. destruct (Nat.eqb (i_ser j) ser0); [| discriminate].
    intros Hf. destruct (Nat.eq_dec id id0) as [-> | Hne]; [right; eapply finish_removes; eauto |].
    left. destruct (finish_misc _ _ _ Hf) as (E1 & E2 & E3 & E4 & _). unfold stranded. rewrite E1, E2, E3, E4.
    repeat split; auto. rewrite (finish_lookup_other _ _ _ _ Hf Hne). exact Hl.
  - rewrite Hk; discriminate.
  - rewrite Hi; discriminate.
  - destruct (_ && _) eqn:G; [| discriminate]. intros E; injection E as <-. left. apply andb_prop in G as [G _]. apply stranded_upd; assumption.
  - destruct (_ && _) eqn:G; [| discriminate]. intros E; injection E as <-. left. apply andb_prop in G as [G _]. apply stranded_upd; assumption.
  - destruct (_ || _) eqn:G; [| discriminate]. intros E; injection E as <-. left. apply stranded_upd; assumption.
Qed.

(* whatever the operator does from then on — events of that uid cannot come, pause, resume, exit, other killer activity —
   the instance is exactly as it was: no further reason, no cancellation, no abandonment; it can only end by itself *)
Theorem stranded_never_touched : forall spoll tr s s' id ser i, stranded s id ser i -> run spoll s tr = Some s' ->
  forall i', lookup id (o_running s') = Some i' -> i' = i.
Proof.
  induction tr as [| l tr IH]; cbn; intros s s' id ser i Hst.
  - intros E; injection E as <-. destruct Hst as (_ & _ & _ & _ & Hl & _). intros i' Hi'. congruence.
  - destruct (step spoll s l) as [s1 |] eqn:E; [| discriminate]. intros Hr.
    destruct (stranded_step _ _ _ _ _ _ _ Hst E) as [H1 | Hnone]; [eapply IH; eauto |].
    intros i' Hi'. destruct Hst as (Hg & _). pose proof (gone_step _ _ _ _ Hg E) as Hg1.
    rewrite (gone_absent_run _ _ _ _ _ Hg1 Hnone Hr) in Hi'. discriminate.
Qed.

(* the witness: graceful deletion requested at 1000 (flag + SIGNALLED, next check asked for in 1000 ms), finalizers stripped by
   a foreign write at 1500 -> DELETED event WITH deletionTimestamp: stop_daemons again asks for a next check (500 ms) that never comes *)
Definition h_bt : hcfg := {| h_kind := KDaemon; h_backoff := Some 1000; h_timeout := Some 2000; h_polling := None |}.
Definition v_bt (deleting : bool) : view := {| v_matching := [(0%nat, h_bt)]; v_deleting := deleting; v_paused := false |}.
Definition forced_removal_trace : list label :=
  [LProc false (v_bt false) 0 []; LProc false (v_bt true) 1000 [(false, [false; false])]; LProc true (v_bt true) 1500 [(false, [])]].

Lemma stop_on_forced_removal_refuted :
  exists s i, run 1000 init forced_removal_trace = Some s /\ stranded s 0 0 i /\ In (0%nat, 0%nat) (o_live s) /\
    is_set (i_sp i) (Some RDeleted) = true /\ eff_backoff (i_h i) = Some 1000 /\ eff_timeout (i_h i) = Some 2000 /\
    o_delays s = [500] /\
    i_canc i = false /\ is_set (i_sp i) (Some RCancelled) = false /\ is_set (i_sp i) (Some RAbandoned) = false.
Proof.
  eexists; eexists. split; [vm_compute; reflexivity |]. unfold stranded; cbn. repeat split; auto; try (intros []).
Qed.

(* the same history with the cycles continuing (no forced removal: the touch after the returned delay arrives): cancelled at
   flag + backoff, given up at flag + backoff + timeout, then nothing left to wait for *)
Example stop_on_forced_removal_counterpart :
  exists s i, run 1000 init [LProc false (v_bt false) 0 []; LProc false (v_bt true) 1000 [(false, [false; false])];
                             LProc false (v_bt true) 2000 [(false, [false])]; LProc false (v_bt true) 4000 [(false, [])]] = Some s
    /\ lookup 0%nat (o_running s) = Some i /\ i_canc i = true /\ is_set (i_sp i) (Some RCancelled) = true
    /\ is_set (i_sp i) (Some RAbandoned) = true /\ o_delays s = [].
Proof. eexists; eexists. split; [vm_compute; reflexivity |]. cbn. repeat split; reflexivity. Qed.

(* ------------------------------------------------------------------ deepening: the staged stop completes when the cycles continue *)

(* stoppers as FlagSetter produces them: the event is set only by set(), which also fixes `when` *)
Definition wf_sp (sp : stopper) : Prop := sp_event sp = true -> exists w, sp_when sp = Some w.

Lemma wf_fresh : wf_sp fresh_stopper.
Proof. intros H; discriminate. Qed.

Lemma wf_set : forall sp r now, wf_sp (sp_set sp r now).
Proof. intros sp r now _; unfold sp_set; cbn. destruct (sp_when sp); eauto. Qed.

Definition when_or (sp : stopper) (now : Z) : Z := match sp_when sp with Some w => w | None => now end.

Lemma set_when : forall sp r now, sp_when (sp_set sp r now) = Some (when_or sp now).
Proof. intros; unfold sp_set, when_or; cbn. destruct (sp_when sp); reflexivity. Qed.

Lemma is_set_when : forall sp r, wf_sp sp -> is_set sp r = true -> exists w, sp_when sp = Some w.
Proof. intros sp r Hwf H. apply Hwf. unfold is_set in H. apply andb_prop in H as [_ H]; exact H. Qed.

Lemma nudge_when : forall flag c now sp ex sp' d ex' a, wf_sp sp -> (exists w, sp_when sp = Some w) ->
  nudge flag c now sp ex = (sp', d, ex', a) -> sp_when sp' = sp_when sp /\ wf_sp sp'.
Proof.
  intros flag c now sp ex sp' d ex' a Hwf [w Hw]; unfold nudge.
  destruct (is_set sp (Some flag)); [intros H; injection H as <- _ _ _; auto |].
  destruct (wait_instant false ex); intros H; injection H as <- _ _ _. split; [| apply wf_set].
  rewrite set_when; unfold when_or; rewrite Hw; reflexivity.
Qed.

Lemma stage_when : forall h spoll now why sp d0 ex, wf_sp sp ->
  sp_when (r_sp (stage h spoll now why sp d0 ex)) = Some (when_or sp now) /\ wf_sp (r_sp (stage h spoll now why sp d0 ex)).
Proof.
  intros h spoll now why sp d0 ex Hwf. rewrite stage_unfold.
  assert (Hh : forall sp1 d1 ex1 a1, stage_head now why sp d0 ex = (sp1, d1, ex1, a1) -> sp_when sp1 = Some (when_or sp now) /\ wf_sp sp1).
  { unfold stage_head; intros sp1 d1 ex1 a1. destruct (is_set sp (Some why)) eqn:E.
    - intros H; injection H as <- _ _ _. destruct (is_set_when _ _ Hwf E) as [w Hw]. unfold when_or; rewrite Hw; auto.
    - destruct (wait_instant d0 ex); intros H; injection H as <- _ _ _. split; [apply set_when | apply wf_set]. }
  destruct (stage_head now why sp d0 ex) as [[[sp1 d1] ex1] a1] eqn:Eh. destruct (Hh _ _ _ _ eq_refl) as [Hw1 Hwf1].
  destruct d1; [cbn [r_sp]; auto |].
  destruct (stage_of _ _ _).
  - destruct (nudge RSignalled false now sp1 ex1) as [[[sp2 d2] ex2] a2] eqn:En; cbn [r_sp].
    destruct (nudge_when _ _ _ _ _ _ _ _ _ Hwf1 (ex_intro _ _ Hw1) En) as [E1 E2]. rewrite E1; auto.
  - destruct (nudge RCancelled true now sp1 ex1) as [[[sp2 d2] ex2] a2] eqn:En; cbn [r_sp].
    destruct (nudge_when _ _ _ _ _ _ _ _ _ Hwf1 (ex_intro _ _ Hw1) En) as [E1 E2]. rewrite E1; auto.
  - destruct (is_set sp1 (Some RAbandoned)); cbn [r_sp]; [auto |]. split; [| apply wf_set]. rewrite set_when. unfold when_or at 1. rewrite Hw1. reflexivity.
  - cbn [r_sp]; auto.
Qed.

Lemma stage_age_next : forall h spoll now why sp d0 ex d, wf_sp sp ->
  age_of (now + d) (r_sp (stage h spoll now why sp d0 ex)) = age_of now sp + d.
Proof.
  intros h spoll now why sp d0 ex d Hwf. destruct (stage_when h spoll now why sp d0 ex Hwf) as [Hw _].
  unfold age_of. rewrite Hw. unfold when_or. destruct (sp_when sp); lia.
Qed.

Definition settled (r : sres) : Prop := r_done r = true \/ (r_delays r = [] /\ is_set (r_sp r) (Some RAbandoned) = true).

Lemma stage_settles_in_abandon : forall h spoll now why sp ex,
  stage_of (eff_backoff h) (eff_timeout h) (age_of now sp) = SAbandon -> settled (stage h spoll now why sp false ex).
Proof.
  intros h spoll now why sp ex Hs. destruct (r_done (stage h spoll now why sp false ex)) eqn:Ed; [left; exact Ed | right].
  pose proof (stage_delays_until_done h spoll now why sp false ex Ed) as H. fold (age_of now sp) in H. rewrite Hs in H. exact H.
Qed.

Lemma stage_settles_from_cancel : forall h spoll now why sp ex2 ex3, wf_sp sp ->
  stage_of (eff_backoff h) (eff_timeout h) (age_of now sp) = SCancel ->
  let r2 := stage h spoll now why sp false ex2 in
  settled r2 \/ exists d2, 0 < d2 /\ r_delays r2 = [d2] /\ settled (stage h spoll (now + d2) why (r_sp r2) false ex3).
Proof.
  intros h spoll now why sp ex2 ex3 Hwf Hs r2. destruct (r_done r2) eqn:Ed; [left; left; exact Ed | right].
  pose proof (stage_delays_until_done h spoll now why sp false ex2 Ed) as H. fold (age_of now sp) in H. rewrite Hs in H. destruct H as [Hd Hpos].
  eexists; split; [exact Hpos | split; [exact Hd |]].
  apply stage_settles_in_abandon. unfold r2. rewrite stage_age_next by exact Hwf. apply stage_next_after_cancel; exact Hs.
Qed.

(* With a cancellation timeout configured, following the delays the operator returns (one touch each) settles every daemon
   — ended, or cancelled and finally given up — within three processing cycles, whatever the daemon does. *)
Theorem stage_completion : forall h spoll now why sp ex1 ex2 ex3 t, wf_sp sp -> eff_timeout h = Some t ->
  let r1 := stage h spoll now why sp false ex1 in
  settled r1 \/ exists d1, 0 < d1 /\ r_delays r1 = [d1] /\
    let r2 := stage h spoll (now + d1) why (r_sp r1) false ex2 in
    settled r2 \/ exists d2, 0 < d2 /\ r_delays r2 = [d2] /\ settled (stage h spoll (now + d1 + d2) why (r_sp r2) false ex3).
Proof.
  intros h spoll now why sp ex1 ex2 ex3 t Hwf Ht r1.
  destruct (r_done r1) eqn:Ed; [left; left; exact Ed |].
  pose proof (stage_delays_until_done h spoll now why sp false ex1 Ed) as H. fold (age_of now sp) in H.
  destruct (stage_when h spoll now why sp false ex1 Hwf) as [_ Hwf1].
  destruct (stage_of (eff_backoff h) (eff_timeout h) (age_of now sp)) eqn:Es.
  - destruct H as [Hd Hpos]. right. eexists; split; [exact Hpos | split; [exact Hd |]]. cbv zeta.
    pose proof (stage_next_after_signal _ _ _ Es) as Hn.
    rewrite <- (stage_age_next h spoll now why sp false ex1 _ Hwf) in Hn. fold r1 in Hn.
    destruct (stage_of (eff_backoff h) (eff_timeout h) (age_of (now + (oz (eff_backoff h) - age_of now sp)) (r_sp r1))) eqn:Es2.
    + contradiction.
    + apply stage_settles_from_cancel; assumption.
    + left. apply stage_settles_in_abandon; exact Es2.
    + apply stage_of_poll in Es2. congruence.
  - destruct H as [Hd Hpos]. right. eexists; split; [exact Hpos | split; [exact Hd |]]. cbv zeta. left.
    apply stage_settles_in_abandon. unfold r1. rewrite stage_age_next by exact Hwf. apply stage_next_after_cancel; exact Es.
  - left. right. exact H.
  - apply stage_of_poll in Es. congruence.
Qed.

(* without a cancellation timeout (documented: the daemon is trusted to exit): never cancelled, never abandoned, polled for ever *)
Theorem stage_without_timeout_polls : forall h spoll now why sp ex, eff_timeout h = None ->
  let r := stage h spoll now why sp false ex in
  r_cancel r = false /\ (r_done r = false -> match eff_backoff h with
                                              | Some b => if age_of now sp <? b then r_delays r = [b - age_of now sp] else r_delays r = [eff_polling h spoll]
                                              | None => r_delays r = [eff_polling h spoll] end).
Proof.
  intros h spoll now why sp ex Ht r. split.
  - destruct (r_cancel r) eqn:E; [| reflexivity]. destruct (stage_cancel_only_after_backoff h spoll now why sp false ex (or_introl E)) as [t [H _]]. congruence.
  - intros Ed. pose proof (stage_delays_until_done h spoll now why sp false ex Ed) as H. fold (age_of now sp) in H.
    unfold stage_of in H. rewrite Ht in H. destruct (eff_backoff h) as [b |]; [destruct (age_of now sp <? b) |]; cbn [oz] in H; tauto.
Qed.

Example stage_completion_nonvacuous :
  let h := {| h_kind := KDaemon; h_backoff := Some 1000; h_timeout := Some 2000; h_polling := None |} in
  let r1 := stage h 1000 5000 RDeleted fresh_stopper false [false; false] in
  let r2 := stage h 1000 6000 RDeleted (r_sp r1) false [false] in
  let r3 := stage h 1000 8000 RDeleted (r_sp r2) false [] in
  r_delays r1 = [1000] /\ r_cancel r1 = false /\ r_delays r2 = [2000] /\ r_cancel r2 = true /\ r_delays r3 = [] /\
  is_set (r_sp r3) (Some RAbandoned) = true /\ r_done r3 = false.
Proof. vm_compute. repeat split; reflexivity. Qed.

(* ------------------------------------------------------------------ deepening: a pass of the daemon killer reaches every daemon *)

Definition kstart_of (why : reason) (now : Z) (kv : nat * inst) : label := LKStart (fst kv) (i_ser (snd kv)) why now.

Definition kready (s : ost) (l : list (nat * inst)) : Prop :=
  forall id i, In (id, i) l -> In (i_ser i) (o_kstop s) /\ exists j, lookup id (o_running s) = Some j /\ i_ser j = i_ser i.

Lemma kstart_run : forall spoll why now l s, kreason why = true -> kready s l ->
  exists s', run spoll s (map (kstart_of why now) l) = Some s' /\
    (forall id i, In (id, i) l -> flagged why s' id) /\
    (forall id, flagged why s id -> flagged why s' id) /\
    (forall id, lookup id (o_running s') = None <-> lookup id (o_running s) = None) /\
    o_known s' = o_known s /\ o_forever s' = o_forever s.
Proof.
  induction l as [| [id i] l IH]; intros s Hk Hr.
  - exists s; cbn; repeat split; auto; intros ? ? [].
  - destruct (Hr id i (or_introl eq_refl)) as [Hin [j [Hj Hs]]].
    cbn [map run kstart_of fst snd step]. rewrite Hk. apply nmem_In in Hin. rewrite Hin. cbn [orb andb].
    set (f := fun i0 : inst => {| i_ser := i_ser i0; i_h := i_h i0; i_sp := sp_set (i_sp i0) (Some why) now; i_canc := i_canc i0 |}).
    assert (Eu : upd_inst s id (i_ser i) f = set_running s (update id (f j) (o_running s))).
    { unfold upd_inst; rewrite Hj, Hs, Nat.eqb_refl; reflexivity. }
    rewrite Eu. set (s1 := set_running s (update id (f j) (o_running s))).
    assert (L1 : lookup id (o_running s1) = Some (f j)) by (unfold s1; prj; apply lookup_update_same; congruence).
    assert (L2 : forall k, k <> id -> lookup k (o_running s1) = lookup k (o_running s)) by (intros k Hne; unfold s1; prj; apply lookup_update_other; exact Hne).
    assert (Hr1 : kready s1 l).
    { intros id2 i2 Hin2. destruct (Hr id2 i2 (or_intror Hin2)) as [Hk2 [j2 [Hj2 Hs2]]]. split; [exact Hk2 |].
      destruct (Nat.eq_dec id2 id) as [-> | Hne]; [exists (f j); split; [exact L1 | cbn; congruence] | exists j2; rewrite L2 by exact Hne; auto]. }
    destruct (IH s1 Hk Hr1) as [s' (Hrun & Hall & Hkeep & Hkeys & Hkn & Hfo)].
    fold (kstart_of why now). exists s'. split; [exact Hrun |]. repeat split.
    + intros id2 i2 [E | Hin2]; [injection E as -> -> | eapply Hall; eauto].
      apply Hkeep. intros x Hx. rewrite L1 in Hx; injection Hx as <-. cbn. apply is_set_after_set.
    + intros id2 Hf. apply Hkeep. intros x Hx. destruct (Nat.eq_dec id2 id) as [-> | Hne].
      * rewrite L1 in Hx; injection Hx as <-. cbn. apply is_set_mono. apply Hf; exact Hj.
      * rewrite L2 in Hx by exact Hne. apply Hf; exact Hx.
    + intros H. apply Hkeys in H. destruct (Nat.eq_dec id0 id) as [-> | Hne]; [congruence | rewrite L2 in H by exact Hne; exact H].
    + intros H. apply Hkeys. destruct (Nat.eq_dec id0 id) as [-> | Hne]; [congruence | rewrite L2 by exact Hne; exact H].
    + exact Hkn.
    + exact Hfo.
Qed.

(* pause / exit: one pass of the killer over a memory it can still see is accepted by the LTS and leaves EVERY daemon of that
   memory with the reason on its flag (the stages then follow C09_linear_staged, bounded by C09_linear_stop_bounded);
   nothing is spawned, ended or forgotten by the pass itself *)
Theorem killer_pass_flags_all : forall spoll s why now, NoDup (keys (o_running s)) -> o_known s = true -> kreason why = true ->
  exists s', run spoll s (kpass_labels why now s) = Some s' /\
    (forall id i, lookup id (o_running s') = Some i -> is_set (i_sp i) (Some why) = true) /\
    (forall id, lookup id (o_running s') = None <-> lookup id (o_running s) = None) /\ o_forever s' = o_forever s.
Proof.
  intros spoll s why now Hnd Hkn Hk. unfold kpass_labels. cbn [run step]. rewrite Hkn. cbn [set_kiter o_kiter].
  set (s2 := {| o_running := o_running s; o_forever := o_forever s; o_live := o_live s; o_next := o_next s; o_known := o_known s;
               o_gone := o_gone s; o_kstop := map (fun kv => i_ser (snd kv)) (o_running s) ++ o_kstop s; o_kiter := false; o_delays := o_delays s |}).
  assert (Hr : kready s2 (o_running s)).
  { intros id i Hin. split.
    - unfold s2; prj. apply in_or_app; left. change (i_ser i) with ((fun kv : nat * inst => i_ser (snd kv)) (id, i)). apply in_map; exact Hin.
    - unfold s2; prj. exists i; split; [apply In_lookup; assumption | reflexivity]. }
  destruct (kstart_run spoll why now (o_running s) s2 Hk Hr) as [s' (Hrun & Hall & _ & Hkeys & _ & Hfo)].
  exists s'. split; [exact Hrun |]. split; [| split; [exact Hkeys | exact Hfo]].
  intros id i Hl. destruct (lookup id (o_running s)) as [i0 |] eqn:E0.
  - apply (Hall id i0); [apply lookup_In; exact E0 | exact Hl].
  - apply Hkeys in E0. unfold s2 in E0. congruence.
Qed.

Theorem killer_pass_reaches_all : forall spoll tr s why now, run spoll init tr = Some s -> o_known s = true -> kreason why = true ->
  exists s', run spoll s (kpass_labels why now s) = Some s' /\
    (forall id i, lookup id (o_running s') = Some i -> is_set (i_sp i) (Some why) = true) /\
    (forall id, lookup id (o_running s') = None <-> lookup id (o_running s) = None) /\ o_forever s' = o_forever s.
Proof.
  intros spoll tr s why now Hr. apply killer_pass_flags_all. destruct (run_inv _ _ _ _ init_inv Hr) as [Hnd _]. exact Hnd.
Qed.

(* ... and a memory the killer cannot see gets nothing: the pass is not even enabled (F7 / F702) *)
Theorem killer_pass_needs_known : forall spoll s why now, o_known s = false -> run spoll s (kpass_labels why now s) = None.
Proof. intros spoll s why now H. unfold kpass_labels. cbn [run step]. rewrite H. reflexivity. Qed.

Example killer_pass_nonvacuous :
  exists s s', run 1000 init [LProc false v_live 0 []] = Some s /\ run 1000 s (kpass_labels RExiting 7 s) = Some s' /\
    exists i, lookup 0%nat (o_running s') = Some i /\ sp_reason (i_sp i) = Some [RExiting] /\ sp_when (i_sp i) = Some 7.
Proof. eexists; eexists. split; [vm_compute; reflexivity |]. split; [vm_compute; reflexivity |]. eexists; repeat split; reflexivity. Qed.

(* ------------------------------------------------------------------ deepening: what an event must NOT do *)

Lemma spawn_all_lookup_existing : forall hs s id i, lookup id (o_running s) = Some i -> lookup id (o_running (spawn_all hs s)) = Some i.
Proof.
  induction hs as [| [k h] hs IH]; cbn; [auto |]. intros s id i H. apply IH.
  destruct (nmem k (keys (o_running s))) eqn:E; [exact H |]. prj.
  apply nmem_false in E. clear IH. revert H E. induction (o_running s) as [| [k' v'] l IHl]; cbn; [discriminate |].
  destruct (Nat.eqb id k'); [auto |]. intros H E. apply IHl; [exact H |]. intros Hin; apply E; auto.
Qed.

(* a running daemon/timer whose handler still matches is left completely alone by an event of a live, unpaused object:
   no reason, no cancellation, same instance *)
Theorem matching_untouched : forall spoll s v now orc s' id h i,
  step spoll s (LProc false v now orc) = Some s' -> v_deleting v = false -> v_paused v = false ->
  In (id, h) (v_matching v) -> ~ In id (o_forever s) -> lookup id (o_running s) = Some i -> lookup id (o_running s') = Some i.
Proof.
  intros spoll s v now orc s' id h i; cbn [step]. destruct (o_gone s); [discriminate |]. intros E; injection E as <-.
  intros Hd Hp Hm Hf Hl. unfold proc; rewrite Hd, Hp.
  set (hs := filter (fun h0 => negb (nmem (fst h0) (o_forever s))) (v_matching v)).
  assert (Hin : In id (keys hs)).
  { change id with (fst (id, h)). apply in_map. apply filter_In; split; [exact Hm |]. cbn. apply negb_true_iff, nmem_false; exact Hf. }
  pose proof (spawn_all_lookup_existing hs s id i Hl) as H0. set (s0 := spawn_all hs s) in *.
  set (mism := filter (fun id0 => negb (nmem id0 (keys hs))) (keys (o_running s0))).
  assert (Hni : ~ In id mism).
  { unfold mism; rewrite filter_In. intros [_ H]. apply negb_true_iff, nmem_false in H. contradiction. }
  pose proof (stop_list_keeps spoll now RMismatch mism orc s0 id Hni) as Hk.
  destruct (stop_list spoll now RMismatch mism orc s0) as [[s2 d2] orc2]. cbn [fst] in Hk. prj. congruence.
Qed.

Example matching_untouched_nonvacuous :
  exists s s' i, run 1000 init [LProc false v_live 0 []] = Some s /\ step 1000 s (LProc false v_live 5 []) = Some s' /\
    lookup 0%nat (o_running s) = Some i /\ lookup 0%nat (o_running s') = Some i.
Proof. eexists; eexists; eexists. repeat split; vm_compute; reflexivity. Qed.

(* ------------------------------------------------------------------ deepening: _daemon under a set stopper never spins *)

Theorem daemon_tail_terminates : forall p fuel, (3 <= fuel)%nat -> exists n, daemon_tail fuel p = Some n /\ (n <= 1)%nat.
Proof.
  intros p fuel Hf. do 3 (destruct fuel as [| fuel]; [lia |]).
  destruct p as [| [|] |]; cbn; eexists; split; try reflexivity; lia.
Qed.

(* ------------------------------------------------------------------ deepening: reasons are never taken back *)

Lemma stage_mono : forall h spoll now why sp d0 ex r, is_set sp (Some r) = true -> is_set (r_sp (stage h spoll now why sp d0 ex)) (Some r) = true.
Proof.
  intros h spoll now why sp d0 ex r H. rewrite stage_unfold.
  assert (Hh : forall sp1 d1 ex1 a1, stage_head now why sp d0 ex = (sp1, d1, ex1, a1) -> is_set sp1 (Some r) = true).
  { unfold stage_head; intros sp1 d1 ex1 a1. destruct (is_set sp (Some why)); [intros E; injection E as <- _ _ _; exact H |].
    destruct (wait_instant d0 ex); intros E; injection E as <- _ _ _. apply is_set_mono; exact H. }
  destruct (stage_head now why sp d0 ex) as [[[sp1 d1] ex1] a1] eqn:Eh. pose proof (Hh _ _ _ _ eq_refl) as H1.
  destruct d1; [exact H1 |]. destruct (stage_of _ _ _).
  - destruct (nudge RSignalled false now sp1 ex1) as [[[sp2 d2] ex2] a2] eqn:En; cbn [r_sp]. eapply nudge_keeps; eauto.
  - destruct (nudge RCancelled true now sp1 ex1) as [[[sp2 d2] ex2] a2] eqn:En; cbn [r_sp]. eapply nudge_keeps; eauto.
  - destruct (is_set sp1 (Some RAbandoned)); cbn [r_sp]; [exact H1 | apply is_set_mono; exact H1].
  - exact H1.
Qed.

Lemma turn_keeps_flag : forall spoll now why id i ex s r k, lookup id (o_running s) = Some i ->
  flagged r s k -> flagged r (fst (turn spoll now why id i ex s)) k.
Proof.
  intros spoll now why id i ex s r k Hl Hf. destruct (Nat.eq_dec k id) as [-> | Hne].
  - unfold turn; cbn [fst].
    set (rr := stage (i_h i) spoll now why (i_sp i) false ex).
    set (i' := {| i_ser := i_ser i; i_h := i_h i; i_sp := r_sp rr; i_canc := i_canc i || r_cancel rr |}).
    set (s1 := set_running s (update id i' (o_running s))).
    assert (H1 : flagged r s1 id).
    { intros j; unfold s1; prj. rewrite lookup_update_same by congruence. intros E; injection E as <-. cbn. apply stage_mono. apply Hf; exact Hl. }
    destruct (r_done rr); [| exact H1]. destruct (finish id s1) eqn:Ef; [| exact H1].
    intros j Hj. rewrite (finish_removes _ _ _ Ef) in Hj; discriminate.
  - intros j Hj. rewrite turn_lookup_other in Hj by exact Hne. apply Hf; exact Hj.
Qed.

Lemma stop_list_keeps_flag : forall spoll now why targets orc s r k,
  flagged r s k -> flagged r (fst (fst (stop_list spoll now why targets orc s))) k.
Proof.
  induction targets as [| id0 rest IH]; intros orc s r k H; [exact H |].
  rewrite stop_list_cons. destruct (lookup id0 (o_running s)) as [i |] eqn:El; [| apply IH; exact H].
  match goal with |- context [if fst ?o then _ else _] => destruct (fst o) end.
  - destruct (finish_some _ _ _ El) as [s' Ef]. rewrite Ef. apply IH.
    intros j Hj. destruct (Nat.eq_dec k id0) as [-> | Hne]; [rewrite (finish_removes _ _ _ Ef) in Hj; discriminate |].
    rewrite (finish_lookup_other _ _ _ _ Ef Hne) in Hj. apply H; exact Hj.
  - match goal with |- context [stop_list ?a ?b ?c ?d ?e ?f] => specialize (IH e f r k); destruct (stop_list a b c d e f) as [[s3 ds] orc3] end.
    cbn [fst] in *. apply IH. apply turn_keeps_flag; assumption.
Qed.

(* stops matching: asked with FILTERS_MISMATCH — whether or not the operator is paused at that moment *)
Theorem stop_on_mismatch_any : forall spoll s v now orc s' id i,
  step spoll s (LProc false v now orc) = Some s' -> v_deleting v = false ->
  ~ In id (keys (v_matching v)) -> lookup id (o_running s') = Some i -> is_set (i_sp i) (Some RMismatch) = true.
Proof.
  intros spoll s v now orc s' id i Hs Hd Hm. destruct (v_paused v) eqn:Hp; [| eapply stop_on_mismatch; eauto].
  revert Hs; cbn [step]. destruct (o_gone s); [discriminate |]. intros E; injection E as <-. unfold proc; rewrite Hd, Hp.
  set (hs := filter (fun h0 => negb (nmem (fst h0) (o_forever s))) (v_matching v)).
  set (s0 := spawn_all hs s).
  set (mism := filter (fun id0 => negb (nmem id0 (keys hs))) (keys (o_running s0))).
  pose proof (stop_list_flags spoll now RMismatch mism orc s0 id) as H.
  pose proof (stop_list_keys_sub spoll now RMismatch mism orc s0 id) as Hk.
  destruct (stop_list spoll now RMismatch mism orc s0) as [[s2 d2] orc2]. cbn [fst] in *.
  pose proof (stop_list_keeps_flag spoll now RPausing (keys (o_running s2)) orc2 s2 RMismatch id) as H3.
  pose proof (stop_list_keys_sub spoll now RPausing (keys (o_running s2)) orc2 s2 id) as Hk3.
  destruct (stop_list spoll now RPausing (keys (o_running s2)) orc2 s2) as [[s3 d3] o3]. cbn [fst] in *.
  rewrite with_delays_running. intros Hl. apply H3; [| exact Hl]. apply H. left. unfold mism. apply filter_In. split.
  - apply Hk, Hk3. eapply lookup_some_keys; eauto.
  - apply negb_true_iff, nmem_false. intros Hin. apply Hm. unfold keys, hs in Hin. apply in_map_iff in Hin as [[k h] [Ek Hin]].
    apply filter_In in Hin as [Hin _]. cbn in Ek; subst k. change id with (fst (id, h)). apply in_map; exact Hin.
Qed.

(* more non-vacuity: concrete, non-trivial states on which the hypotheses of the implications above hold *)
Definition v_none : view := {| v_matching := []; v_deleting := false; v_paused := false |}.
Definition v_paused_live : view := {| v_matching := [(0%nat, h_bt)]; v_deleting := false; v_paused := true |}.

Example stop_on_mismatch_nonvacuous :
  exists s i, run 1000 init [LProc false (v_bt false) 0 []; LProc false v_none 3 [(false, [false; false])]] = Some s /\
    lookup 0%nat (o_running s) = Some i /\ is_set (i_sp i) (Some RMismatch) = true /\ o_delays s = [1000].
Proof. eexists; eexists. split; [vm_compute; reflexivity |]. repeat split; reflexivity. Qed.

Example stop_on_pause_nonvacuous :
  exists s i, run 1000 init [LProc false v_paused_live 0 [(false, [false; false])]] = Some s /\
    lookup 0%nat (o_running s) = Some i /\ is_set (i_sp i) (Some RPausing) = true /\ o_live s = [(0%nat, 0%nat)].
Proof. eexists; eexists. split; [vm_compute; reflexivity |]. repeat split; reflexivity. Qed.

Example own_exit_nonvacuous :
  exists s s', run 1000 init [LProc false v_live 0 []; LEnd 0 0] = Some s /\ o_forever s = [0%nat] /\ o_running s = [] /\
    run 1000 s [LProc false v_live 9 []; LProc false v_live 10 []] = Some s' /\ o_running s' = [] /\ o_next s' = 1%nat.
Proof. eexists; eexists. repeat split; vm_compute; reflexivity. Qed.

Example staged_cancel_abandon_nonvacuous :
  let sp := {| sp_when := Some 0; sp_reason := Some [RDeleted; RSignalled]; sp_event := true |} in
  In ACancel (r_acts (stage h_bt 1000 1000 RDeleted sp false [false])) /\
  In (ASet RAbandoned) (r_acts (stage h_bt 1000 3000 RDeleted sp false [])).
Proof. vm_compute. split; auto 10. Qed.

Example linear_nonvacuous :
  let r := linear_stop h_bt RExiting fresh_stopper 100 false {| x_flag := None; x_cancel := Some 125 |} in
  l_cancelled r = Some 1100 /\ l_end r = 1225 /\ l_done r = true /\
  l_done (linear_stop h_bt RExiting fresh_stopper 100 false {| x_flag := None; x_cancel := None |}) = false.
Proof. vm_compute. repeat split; reflexivity. Qed.
