(* Proofs about Model/MatchCycle.v: which handlers one processing cycle hands to the execution / daemon
   machinery, the cause-kind gate against the documented kinds, and stealth for the whole decision skeleton. *)
From Coq Require Import ZArith List String Bool Lia.
From KV Require Import Base.Json Base.Dicts Model.Match Proofs.Match Model.MatchCycle.
Import ListNotations.
Open Scope string_scope.
Open Scope list_scope.

(* ---------------------------------------------------------------------------------------- *)
(* 1. the cause-kind gate of ChangingRegistry.iter_handlers is the documented one            *)
(* ---------------------------------------------------------------------------------------- *)
Lemma reason_eqb_eq : forall a b, reason_eqb a b = true <-> a = b.
Proof. intros [] []; cbn; split; intro H; try discriminate; try reflexivity. Qed.

Lemma reason_gate_iff : forall h c,
  match h_reason h with None => true | Some r => reason_eqb r (c_reason c) end = true <->
  (h_reason h = None \/ h_reason h = Some (c_reason c)).
Proof.
  intros h c. destruct (h_reason h) as [r|]; [|tauto].
  rewrite reason_eqb_eq. split.
  - intros ->. now right.
  - intros [H|H]; [discriminate | now injection H].
Qed.

Theorem cause_kind_iff : forall h c, cause_gate h c = Ok true <-> KindHolds h c.
Proof.
  intros h c. unfold cause_gate.
  destruct (c_class c) eqn:Ec;
    try (split; [intros _; apply K_other; congruence | reflexivity]).
  pose proof (reason_gate_iff h c) as HR.
  destruct (match h_reason h with None => true | Some r => reason_eqb r (c_reason c) end) eqn:Er.
  2:{ split; [discriminate|]. intro H. destruct HR as [_ HR].
      inversion H as [Hc | _ _ Hr | _ _ _ Hr _]; [congruence | |]; specialize (HR Hr); discriminate. }
  destruct HR as [HR _]. specialize (HR eq_refl).
  destruct (h_initial h) eqn:Ei; cbn [andb].
  - destruct (c_initial c) eqn:Eci; cbn [negb].
    + destruct (cause_deleted c) as [d| | |] eqn:Ed; cbn [bind].
      * destruct d, (h_deleted h) eqn:Ehd; cbn; split; intro H; try discriminate; try reflexivity.
        -- apply K_resume; auto.
        -- inversion H as [Hc | _ Hi _ | _ _ _ _ [Hd|[_ Hd]]]; congruence.
        -- apply K_resume; auto.
        -- apply K_resume; auto.
      * split; [discriminate|]. intro H. inversion H as [Hc | _ Hi _ | _ _ _ _ [Hd|[Hd _]]]; congruence.
      * split; [discriminate|]. intro H. inversion H as [Hc | _ Hi _ | _ _ _ _ [Hd|[Hd _]]]; congruence.
      * split; [discriminate|]. intro H. inversion H as [Hc | _ Hi _ | _ _ _ _ [Hd|[Hd _]]]; congruence.
    + split; [discriminate|]. intro H. inversion H as [Hc | _ Hi _ | _ _ Hci _ _]; congruence.
  - split; [intros _; apply K_regular; auto | reflexivity].
Qed.

(* ---------------------------------------------------------------------------------------- *)
(* 2. what one cycle hands over is exactly what the registries select                        *)
(* ---------------------------------------------------------------------------------------- *)
Ltac cycle_open H g i :=
  unfold cycle in H;
  destruct (cycle_watching g i) as [w| | |] eqn:EW; cbn [bind] in H; try discriminate;
  destruct (cycle_spawning g i) as [sp| | |] eqn:ES; cbn [bind] in H; try discriminate;
  destruct (cycle_scope g i) as [scope0| | |] eqn:EC; cbn [bind] in H; try discriminate;
  destruct (cause_deleted (mk_cause CChanging i)) as [ongoing| | |] eqn:EO; cbn [bind] in H; try discriminate;
  destruct (deletion_blocked (i_finalizer i) (i_body i)) as [blocked| | |] eqn:EB; cbn [bind] in H; try discriminate;
  destruct (cycle_must g i scope0) as [must| | |] eqn:EM; cbn [bind] in H; try discriminate;
  cbv zeta in H.

Theorem cycle_invoked_exactly : forall g i o, cycle g i = Ok o ->
  cycle_watching g i = Ok (o_watching o) /\
  cycle_spawning g i = Ok (o_spawning o) /\
  (forall l, o_changing o = Some l ->
     cycle_scope g i = Ok true /\ o_matched o = true /\ ~ In FBlock (o_fns o) /\
     (if handler_reason (i_reason i)
      then get_handlers [] (g_changing g) (mk_cause CChanging i) = Ok l else l = [])) /\
  (o_matched o = true -> cycle_scope g i = Ok true).
Proof.
  intros g i o H. cycle_open H g i.
  destruct (scope0 && negb (must && negb blocked && negb ongoing) && negb (negb must && blocked)) eqn:Escope.
  - (* still in scope after the finaliser decisions: no finaliser edit was queued *)
    assert (scope0 = true) by (destruct scope0; [reflexivity | discriminate]). subst scope0.
    assert (Hadd : must && negb blocked && negb ongoing = false) by (destruct must, blocked, ongoing; cbn in *; congruence).
    assert (Hrem : negb must && blocked = false) by (destruct must, blocked, ongoing; cbn in *; congruence).
    rewrite Hadd, Hrem in H. cbn [andb app] in H.
    destruct (negb ((reason_eqb (i_reason i) RGone || i_achieved i) && i_patch_empty i)).
    + injection H as <-. cbn.
      split; [reflexivity|]. split; [reflexivity|]. split; [intros l Hl; discriminate | intro; discriminate].
    + cbn [andb] in H.
      destruct (handler_reason (i_reason i)) eqn:Ehr.
      * destruct (get_handlers [] (g_changing g) (mk_cause CChanging i)) as [l| | |] eqn:EG; cbn [bind] in H; try discriminate.
        injection H as <-. cbn.
        split; [reflexivity|]. split; [reflexivity|]. split; [|intro; reflexivity].
        intros l' Hl. injection Hl as <-. split; [reflexivity|]. split; [reflexivity|]. split; [|reflexivity].
        intro Hin. destruct (negb (i_deleted_event i) && ongoing && blocked && negb _) in Hin; cbn in Hin;
          intuition discriminate.
      * cbn [bind] in H. injection H as <-. cbn.
        split; [reflexivity|]. split; [reflexivity|]. split; [|intro; reflexivity].
        intros l' Hl. injection Hl as <-. split; [reflexivity|]. split; [reflexivity|]. split; [|reflexivity].
        intro Hin. destruct (negb (i_deleted_event i) && ongoing && blocked && negb _) in Hin; cbn in Hin;
          intuition discriminate.
  - cbn [andb] in H. cbn [bind] in H. injection H as <-. cbn.
    split; [reflexivity|]. split; [reflexivity|]. split; [intros l Hl; discriminate | intro; discriminate].
Qed.

(* ---------------------------------------------------------------------------------------- *)
(* 3. stealth for the whole decision skeleton                                                *)
(* ---------------------------------------------------------------------------------------- *)
Definition no_watcher_matches (g : registry) (i : cycle_in) : Prop :=
  forall h, In h (g_watching g) -> matches h (mk_cause CWatching i) = Ok false.
Definition no_spawner_matches (g : registry) (i : cycle_in) : Prop :=
  forall h, In h (g_spawning g) -> matches h (mk_cause CSpawning i) = Ok false.

Theorem stealth_cycle : forall g i o,
  cycle g i = Ok o ->
  no_watcher_matches g i -> no_spawner_matches g i -> cycle_scope g i = Ok false ->
  o_watching o = [] /\ (o_spawning o = None \/ o_spawning o = Some []) /\
  o_changing o = None /\ o_matched o = false /\
  ~ In FBlock (o_fns o) /\
  (deletion_blocked (i_finalizer i) (i_body i) = Ok false -> o_fns o = []) /\
  (deletion_blocked (i_finalizer i) (i_body i) = Ok true -> In FAllow (o_fns o)).
Proof.
  intros g i o H Pw Ps Pc. cycle_open H g i.
  injection Pc as ->.
  assert (Hw : w = []).
  { unfold cycle_watching in EW. destruct (has_handlers (g_watching g) (i_resource i)); [|now injection EW].
    destruct (nothing_matches_nothing_selected (g_watching g) (mk_cause CWatching i)) as [Hg _]; [discriminate | exact Pw |].
    rewrite (Hg []) in EW. now injection EW. }
  assert (Hs : sp = None \/ sp = Some []).
  { unfold cycle_spawning in ES. destruct (has_handlers (g_spawning g) (i_resource i)); [|left; now injection ES].
    destruct (cause_deleted (mk_cause CSpawning i)) as [d| | |]; cbn [bind] in ES; try discriminate.
    destruct d; [left; now injection ES|].
    destruct (nothing_matches_nothing_selected (g_spawning g) (mk_cause CSpawning i)) as [Hg _]; [discriminate | exact Ps |].
    rewrite (Hg (i_forever_stopped i)) in ES. cbn [bind] in ES. right. now injection ES. }
  assert (Hm : must = false).
  { unfold cycle_must in EM. destruct (has_handlers (g_spawning g) (i_resource i)).
    - destruct (nothing_matches_nothing_selected (g_spawning g) (mk_cause CSpawning i)) as [_ Hr]; [discriminate | exact Ps |].
      rewrite (Hr (i_forever_stopped i)) in EM. cbn [bind] in EM. now injection EM.
    - cbn [bind] in EM. now injection EM. }
  subst w must. cbn [andb negb app bind] in H.
  injection H as <-. cbn.
  split; [reflexivity|]. split; [exact Hs|]. split; [reflexivity|]. split; [reflexivity|].
  destruct blocked; cbn.
  - split.
    + intro Hin. destruct (negb (i_deleted_event i) && ongoing && true && negb _) in Hin; cbn in Hin; intuition discriminate.
    + split; [discriminate | intros _; now left].
  - rewrite !andb_false_r. cbn. split; [tauto|]. split; [reflexivity | discriminate].
Qed.

(* the premise in terms of the registry: no changing handler for this resource kind, or none prematches *)
Lemma cycle_scope_false : forall g i,
  cycle_scope g i = Ok false <->
  (has_handlers (g_changing g) (i_resource i) = false \/
   (has_handlers (g_changing g) (i_resource i) = true /\ registry_prematch (g_changing g) (mk_cause CChanging i) = Ok false)).
Proof.
  intros g i. unfold cycle_scope. destruct (has_handlers (g_changing g) (i_resource i)); split; auto.
  - intros [H|[_ H]]; [discriminate | exact H].
Qed.

(* ---------------------------------------------------------------------------------------- *)
(* 4. "the set of handlers invoked is exactly the set whose declared criteria all hold"       *)
(* ---------------------------------------------------------------------------------------- *)
Definition guards (hs : list hdecl) (c : cause) : Prop :=
  body_ok c /\ forall h, In h hs -> wf_decl h /\ class_agree h c /\ essence_ok h c /\ old_silent h c.

(* a (function, id) pair is to be invoked: some registration of it is not excluded, is of the cause's kind,
   and all its declared criteria hold as documented *)
Definition Declared (excl : list string) (hs : list hdecl) (c : cause) (k : hkey) : Prop :=
  exists h, In h hs /\ hkey_of h = k /\ mem_str (h_id h) excl = false /\ KindHolds h c /\ Matches h c.

Theorem selected_keys_iff_spec : forall excl hs c l,
  get_handlers excl hs c = Ok l -> guards hs c ->
  NoDup (map hkey_of l) /\ (forall k, In k (map hkey_of l) <-> Declared excl hs c k).
Proof.
  intros excl hs c l Hg [Hbody Hall].
  destruct (selected_set excl hs c l Hg) as [-> Hin].
  destruct (dedup_spec (filter (selected_b excl c) hs)) as (Hnd & _ & Hkeys & _).
  split; [exact Hnd|].
  intro k. rewrite <- Hkeys. rewrite in_map_iff. unfold Declared.
  split.
  - intros (h & Hk & Hf). apply Hin in Hf as (Hhs & Hex & Hgate & Hm).
    destruct (Hall h Hhs) as (Hwf & Hcl & Hess & Hsil).
    exists h. split; [exact Hhs|]. split; [exact Hk|]. split; [exact Hex|]. split.
    + now apply cause_kind_iff.
    + now apply (match_iff_spec_partial h c Hwf Hbody Hcl Hess Hsil).
  - intros (h & Hhs & Hk & Hex & Hkind & Hmatch).
    destruct (Hall h Hhs) as (Hwf & Hcl & Hess & Hsil).
    exists h. split; [exact Hk|]. apply Hin. split; [exact Hhs|]. split; [exact Hex|]. split.
    + now apply cause_kind_iff.
    + now apply (match_iff_spec_partial h c Hwf Hbody Hcl Hess Hsil).
Qed.

(* ... through one whole processing cycle: the watching handlers handed to the executor, and -- when the changing cause is
   processed at all -- the changing handlers handed to it *)
Theorem cycle_invoked_iff_spec : forall g i o,
  cycle g i = Ok o ->
  (has_handlers (g_watching g) (i_resource i) = true -> guards (g_watching g) (mk_cause CWatching i) ->
     NoDup (map hkey_of (o_watching o)) /\
     forall k, In k (map hkey_of (o_watching o)) <-> Declared [] (g_watching g) (mk_cause CWatching i) k) /\
  (forall l, o_changing o = Some l -> handler_reason (i_reason i) = true -> guards (g_changing g) (mk_cause CChanging i) ->
     NoDup (map hkey_of l) /\
     forall k, In k (map hkey_of l) <-> Declared [] (g_changing g) (mk_cause CChanging i) k) /\
  (forall l, o_spawning o = Some l -> guards (g_spawning g) (mk_cause CSpawning i) ->
     NoDup (map hkey_of l) /\
     forall k, In k (map hkey_of l) <-> Declared (i_forever_stopped i) (g_spawning g) (mk_cause CSpawning i) k).
Proof.
  intros g i o H. destruct (cycle_invoked_exactly g i o H) as (HW & HS & HC & _).
  split; [|split].
  - intros Hh Hg. unfold cycle_watching in HW. rewrite Hh in HW.
    exact (selected_keys_iff_spec [] _ _ _ HW Hg).
  - intros l Hl Hr Hg. destruct (HC l Hl) as (_ & _ & _ & Hget). rewrite Hr in Hget.
    exact (selected_keys_iff_spec [] _ _ _ Hget Hg).
  - intros l Hl Hg. unfold cycle_spawning in HS. rewrite Hl in HS.
    destruct (has_handlers (g_spawning g) (i_resource i)); [|discriminate].
    destruct (cause_deleted (mk_cause CSpawning i)) as [d| | |]; cbn [bind] in HS; try discriminate.
    destruct d; [discriminate|].
    destruct (get_handlers (i_forever_stopped i) (g_spawning g) (mk_cause CSpawning i)) as [l'| | |] eqn:E;
      cbn [bind] in HS; try discriminate.
    injection HS as <-. exact (selected_keys_iff_spec _ _ _ _ E Hg).
Qed.

(* ---------------------------------------------------------------------------------------- *)
(* 5. non-vacuity                                                                            *)
(* ---------------------------------------------------------------------------------------- *)
Definition ex_registry : registry :=
  {| g_watching := [decorate DEvent "ev" 10 ex_sel [("l1", CVal (JStr "v"))] [] None None CNone CNone CNone];
     g_spawning := [decorate DDaemon "dm" 20 ex_sel [("l1", CVal (JStr "v"))] [] None None CNone CNone CNone];
     g_changing := ex_labelled ++ [decorate DUpdate "u" 2 ex_sel [("l1", CVal (JStr "v"))] [] None (Some ["spec"; "f"]) CNone CNone CNone] |}.

Definition ex_in (labels : list (string * json)) (fins : list json) (deleting : bool) (r : reason) (old : option json) : cycle_in :=
  {| i_resource := ex_resource;
     i_body := JObj [("metadata", JObj ([("name", JStr "x"); ("labels", JObj labels); ("finalizers", JList fins)]
                                        ++ if deleting then [("deletionTimestamp", JStr "2020-01-01T00:00:00Z")] else []));
                     ("spec", JObj [("f", JNum 2)])];
     i_old := old; i_new := Some (JObj [("spec", JObj [("f", JNum 2)])]);
     i_reason := r; i_initial := false; i_finalizer := "kopf/fin"; i_deleted_event := false;
     i_forever_stopped := []; i_patch_empty := true; i_achieved := true; i_spawn_delays := false;
     i_change_delays := fun _ => false |}.

(* unlabelled object: nothing matches -- nothing handed over, nothing queued; with a stale own finaliser: it is removed
   (twice when the object is being deleted: the code queues allow_deletion in two places) *)
Lemma ex_stealth_cycle :
  cycle_show (cycle ex_registry (ex_in [] [] false RCreate None)) = Ok ([], Some [], [], None, false) /\
  cycle_show (cycle ex_registry (ex_in [] [JStr "kopf/fin"] false RCreate None)) = Ok ([], Some [], [FAllow], None, false) /\
  cycle_show (cycle ex_registry (ex_in [] [JStr "other"; JStr "kopf/fin"] true RDelete None)) = Ok ([], None, [FAllow; FAllow], None, false) /\
  no_watcher_matches ex_registry (ex_in [] [] false RCreate None) /\
  no_spawner_matches ex_registry (ex_in [] [] false RCreate None) /\
  cycle_scope ex_registry (ex_in [] [] false RCreate None) = Ok false.
Proof.
  split; [reflexivity|]. split; [reflexivity|]. split; [reflexivity|].
  split; [|split; [|reflexivity]]; intros h [<-|[]]; reflexivity.
Qed.

(* the same registry, labelled object: first the finaliser is added and nothing else happens; with the finaliser in place
   the matching handlers are handed over (create: "c"; update of spec.f 1 -> 2: "u"); deletion: "d", no release while handlers run *)
Lemma ex_matched_cycle :
  cycle_show (cycle ex_registry (ex_in [("l1", JStr "v")] [] false RCreate None))
    = Ok ([10%nat], Some ["dm"], [FBlock], None, false) /\
  cycle_show (cycle ex_registry (ex_in [("l1", JStr "v")] [JStr "kopf/fin"] false RCreate None))
    = Ok ([10%nat], Some ["dm"], [], Some [0%nat], true) /\
  cycle_show (cycle ex_registry (ex_in [("l1", JStr "v")] [JStr "kopf/fin"] false RUpdate (Some (JObj [("spec", JObj [("f", JNum 1)])]))))
    = Ok ([10%nat], Some ["dm"], [], Some [2%nat], true) /\
  cycle_show (cycle ex_registry (ex_in [("l1", JStr "v")] [JStr "kopf/fin"] true RDelete (Some (JObj [("spec", JObj [("f", JNum 2)])]))))
    = Ok ([10%nat], None, [FAllow], Some [1%nat], true).
Proof. repeat split; reflexivity. Qed.

Lemma ex_guards_registry :
  guards (g_changing ex_registry) (mk_cause CChanging (ex_in [("l1", JStr "v")] [JStr "kopf/fin"] false RUpdate
                                                         (Some (JObj [("spec", JObj [("f", JNum 1)])])))).
Proof.
  split; [split; eexists; reflexivity|].
  intros h [<-|[<-|[<-|[]]]]; (split; [constructor; cbn; repeat constructor; try discriminate; intros; try discriminate; auto|]);
    (split; [reflexivity|]); (split; [intros _ p Hp; try discriminate; injection Hp as <-; reflexivity|]).
  - intros _ _ p Hp; discriminate.
  - intros _ _ p Hp; discriminate.
  - apply old_silent_update. reflexivity.
Qed.

Definition ex_resume_decl : hdecl := decorate (DResume false) "r" 0 ex_sel [] [] None None CNone CNone CNone.
Definition ex_deleting_listed : cause :=
  {| c_class := CChanging; c_resource := ex_resource;
     c_body := JObj [("metadata", JObj [("deletionTimestamp", JStr "2020-01-01T00:00:00Z")])];
     c_old := None; c_new := None; c_reason := RDelete; c_initial := true |}.
Lemma ex_kind :
  KindHolds ex_resume_decl ex_downtime_update /\
  ~ KindHolds (decorate DCreate "c" 0 ex_sel [] [] None None CNone CNone CNone) ex_downtime_update /\
  ~ KindHolds ex_resume_decl ex_deleting_listed /\
  KindHolds (decorate (DResume true) "r" 0 ex_sel [] [] None None CNone CNone CNone) ex_deleting_listed.
Proof.
  split; [now apply cause_kind_iff|]. split; [rewrite <- cause_kind_iff; discriminate|].
  split; [rewrite <- cause_kind_iff; discriminate | now apply cause_kind_iff].
Qed.
