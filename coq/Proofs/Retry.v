(* C12 — lemmas about Model/Retry.v (the retry loop of api.request). *)
From Coq Require Import ZArith List Bool Lia Arith.
From KV Require Import Model.Retry.
Import ListNotations.
Open Scope Z_scope.

(* ---------- the wait chosen for one retried attempt ---------- *)

Lemma adjust_none : forall e b, adjust e b None = b.
Proof. reflexivity. Qed.

(* never shorter than what the server asked for (whenever the code looked at it) *)
Lemma adjust_ge_ra : forall e b r, r <= adjust e b (Some r).
Proof.
  intros e b r. unfold adjust. destruct e; simpl; [lia|].
  destruct (r >? b) eqn:H; [lia|]. rewrite Z.gtb_ltb in H. apply Z.ltb_ge in H. lia.
Qed.

(* without enforce_retry_after never shorter than the configured backoff either *)
Lemma adjust_ge_backoff : forall b ra, b <= adjust false b ra.
Proof.
  intros b [r|]; unfold adjust; simpl; [|lia].
  destruct (r >? b) eqn:H; [|lia]. apply Z.gtb_lt in H. lia.
Qed.

Lemma adjust_is_max : forall b r, adjust false b (Some r) = Z.max b r.
Proof.
  intros b r. unfold adjust. simpl. destruct (r >? b) eqn:H.
  - apply Z.gtb_lt in H. lia.
  - rewrite Z.gtb_ltb in H. apply Z.ltb_ge in H. lia.
Qed.

Lemma adjust_enforce : forall b r, adjust true b (Some r) = r.
Proof. reflexivity. Qed.

(* ---------- full characterisation of one request ---------- *)

Definition nthf (j : nat) (fs : list fault) : fault := nth j fs FOk.

(* what ends the loop at attempt n (0-based) of script fs *)
Definition ending (src : nat -> option Z) (i : nat) (fs : list fault) (n : nat) (o : outcome) : Prop :=
  (n = length fs /\ o = ODone) \/
  (n < length fs)%nat /\
  match classify (nthf n fs) with
  | KOk => o = ODone
  | KReauth => o = OReauth (nthf n fs)
  | KRaise => o = OEscalate (nthf n fs)
  | KRetry _ => src (i + n)%nat = None /\ o = OEscalate (nthf n fs)
  end.

Lemma request_spec : forall enforce src fs i ws o rest,
  request enforce src i fs = (ws, o, rest) ->
  (length ws <= length fs)%nat /\
  (forall j, (j < length ws)%nat ->
     exists ra b, classify (nthf j fs) = KRetry ra /\ src (i + j)%nat = Some b /\
                  nth j ws 0 = adjust enforce b ra) /\
  rest = skipn (S (length ws)) fs /\
  ending src i fs (length ws) o.
Proof.
  intros enforce src fs. induction fs as [|f fs IH]; intros i ws o rest H; simpl in H.
  - injection H as <- <- <-. simpl. split; [lia|]. split; [intros j Hj; lia|]. split; [reflexivity|].
    left; auto.
  - assert (Stop : forall o', (match classify f with KRetry _ => src i = None | _ => True end) ->
              (match classify f with
               | KOk => o' = ODone | KReauth => o' = OReauth f | KRaise => o' = OEscalate f
               | KRetry _ => o' = OEscalate f end) ->
              (length (@nil Z) <= length (f :: fs))%nat /\
              (forall j, (j < length (@nil Z))%nat ->
                 exists ra b, classify (nthf j (f :: fs)) = KRetry ra /\ src (i + j)%nat = Some b /\
                              nth j (@nil Z) 0 = adjust enforce b ra) /\
              fs = skipn (S (length (@nil Z))) (f :: fs) /\
              ending src i (f :: fs) (length (@nil Z)) o').
    { intros o' Hsrc Ho. simpl. split; [lia|]. split; [intros j Hj; lia|]. split; [reflexivity|].
      right. split; [simpl; lia|]. unfold nthf; simpl. rewrite Nat.add_0_r.
      destruct (classify f); auto. }
    destruct (classify f) eqn:Hc.
    + injection H as <- <- <-. apply Stop; auto.
    + destruct (src i) as [b|] eqn:Hs.
      * destruct (request enforce src (S i) fs) as [[ws' o'] rest'] eqn:Hr.
        injection H as <- <- <-.
        destruct (IH _ _ _ _ Hr) as (Hlen & Hw & Hrest & Hend).
        simpl. split; [lia|]. split; [|split].
        -- intros [|j] Hj.
           ++ exists ra, b. unfold nthf; simpl. rewrite Nat.add_0_r. auto.
           ++ destruct (Hw j ltac:(lia)) as (ra' & b' & H1 & H2 & H3).
              exists ra', b'. unfold nthf in *; simpl. replace (i + S j)%nat with (S i + j)%nat by lia. auto.
        -- exact Hrest.
        -- destruct Hend as [[Hn Ho]|[Hn Hm]].
           ++ left. split; [simpl; lia|exact Ho].
           ++ right. split; [simpl; lia|]. unfold nthf in *; simpl.
              replace (i + S (length ws'))%nat with (S i + length ws')%nat by lia. exact Hm.
      * injection H as <- <- <-. apply Stop; auto.
    + injection H as <- <- <-. apply Stop; auto.
    + injection H as <- <- <-. apply Stop; auto.
Qed.

(* ---------- number of attempts ---------- *)

Definition retryable (f : fault) : Prop := exists ra, classify f = KRetry ra.

Definition attempts (r : list Z * outcome * list fault) : nat := S (length (waits_of r)).

(* never more attempts than configured backoffs + 1, whatever the faults *)
Lemma attempts_bounded : forall enforce l fs,
  (attempts (request enforce (src_list l) O fs) <= S (length l))%nat.
Proof.
  intros enforce l fs. unfold attempts, waits_of.
  destruct (request enforce (src_list l) 0 fs) as [[ws o] rest] eqn:H. simpl.
  destruct (request_spec _ _ _ _ _ _ _ H) as (_ & Hw & _ & _).
  destruct (le_lt_dec (length ws) (length l)) as [Hle|Hgt]; [lia|].
  destruct (Hw (length l) Hgt) as (ra & b & _ & Hs & _).
  unfold src_list in Hs. simpl in Hs.
  assert (nth_error l (length l) = None) by (apply nth_error_None; lia). congruence.
Qed.

(* a script of transient faults only: attempts = min (|faults|+1) (|backoffs|+1) *)
Lemma attempts_all_retryable : forall enforce l fs,
  Forall retryable fs ->
  attempts (request enforce (src_list l) O fs) = Nat.min (S (length fs)) (S (length l)).
Proof.
  intros enforce l fs Hall. unfold attempts, waits_of.
  destruct (request enforce (src_list l) 0 fs) as [[ws o] rest] eqn:H. simpl.
  pose proof (attempts_bounded enforce l fs) as Hb. unfold attempts, waits_of in Hb. rewrite H in Hb. simpl in Hb.
  destruct (request_spec _ _ _ _ _ _ _ H) as (Hlen & _ & _ & Hend).
  destruct Hend as [[Hn _]|[Hn Hm]].
  - lia.
  - assert (Hr : retryable (nthf (length ws) fs)).
    { rewrite Forall_forall in Hall. apply Hall. unfold nthf. apply nth_In. exact Hn. }
    destruct Hr as [ra Hra]. rewrite Hra in Hm. destruct Hm as [Hs _].
    unfold src_list in Hs. simpl in Hs. apply nth_error_None in Hs. lia.
Qed.

(* ... and how it ends: success if the faults stop first, escalation of the LAST error otherwise *)
Lemma outcome_all_retryable : forall enforce l fs,
  Forall retryable fs ->
  outcome_of (request enforce (src_list l) O fs) =
    if (length fs <=? length l)%nat then ODone else OEscalate (nthf (length l) fs).
Proof.
  intros enforce l fs Hall.
  pose proof (attempts_all_retryable enforce l fs Hall) as Ha. unfold attempts, waits_of, outcome_of in *.
  destruct (request enforce (src_list l) 0 fs) as [[ws o] rest] eqn:H. simpl in *.
  destruct (request_spec _ _ _ _ _ _ _ H) as (Hlen & _ & _ & Hend).
  destruct (length fs <=? length l)%nat eqn:Hc.
  - apply Nat.leb_le in Hc. destruct Hend as [[_ Ho]|[Hn _]]; [exact Ho|lia].
  - apply Nat.leb_gt in Hc. destruct Hend as [[Hn _]|[Hn Hm]]; [lia|].
    assert (Hlw : length ws = length l) by lia. rewrite Hlw in Hm.
    assert (Hr : retryable (nthf (length l) fs)).
    { rewrite Forall_forall in Hall. apply Hall. unfold nthf. apply nth_In. lia. }
    destruct Hr as [ra Hra]. rewrite Hra in Hm. tauto.
Qed.

(* an endless re-iterable source never runs out: every transient fault is retried *)
Lemma attempts_endless : forall enforce g fs,
  Forall retryable fs ->
  attempts (request enforce (src_fun g) O fs) = S (length fs) /\
  outcome_of (request enforce (src_fun g) O fs) = ODone.
Proof.
  intros enforce g fs Hall. unfold attempts, waits_of, outcome_of.
  destruct (request enforce (src_fun g) 0 fs) as [[ws o] rest] eqn:H. simpl.
  destruct (request_spec _ _ _ _ _ _ _ H) as (Hlen & _ & _ & Hend).
  destruct Hend as [[Hn Ho]|[Hn Hm]]; [split; [lia|exact Ho]|].
  assert (Hr : retryable (nthf (length ws) fs)).
  { rewrite Forall_forall in Hall. apply Hall. unfold nthf. apply nth_In. exact Hn. }
  destruct Hr as [ra Hra]. rewrite Hra in Hm. destruct Hm as [Hs _]. unfold src_fun in Hs. discriminate.
Qed.

(* ---------- each wait ---------- *)

(* the j-th wait is the j-th configured backoff, overridden only by the Retry-After of a 429 *)
Lemma wait_value : forall enforce src fs j,
  (j < length (waits_of (request enforce src O fs)))%nat ->
  exists ra b, classify (nthf j fs) = KRetry ra /\ src j = Some b /\
               nth j (waits_of (request enforce src O fs)) 0 = adjust enforce b ra.
Proof.
  intros enforce src fs j Hj. unfold waits_of in *.
  destruct (request enforce src 0 fs) as [[ws o] rest] eqn:H. simpl in *.
  destruct (request_spec _ _ _ _ _ _ _ H) as (_ & Hw & _ & _).
  destruct (Hw j Hj) as (ra & b & H1 & H2 & H3). exists ra, b. auto.
Qed.

(* the server-requested delay of a fault, as the property reads it: any error status may carry one *)
Definition requested (f : fault) : option Z :=
  match f with FStatus c hdr det => if c <? 400 then None else retry_after hdr det | _ => None end.

(* what the retry branch looks at IS the server-requested delay, for every retried fault *)
Lemma classify_retry_requested : forall f ra, classify f = KRetry ra -> ra = requested f.
Proof.
  intros f ra H. destruct f; simpl in H; try discriminate; try (injection H as <-; reflexivity).
  simpl. destruct (code <? 400); [discriminate|].
  destruct (code =? 401); [discriminate|].
  destruct (code =? 403); [injection H as <-; reflexivity|].
  destruct (code =? 429); [injection H as <-; reflexivity|].
  destruct (code <? 500); [discriminate|].
  destruct (code <? 600); [injection H as <-; reflexivity|discriminate].
Qed.

(* never waiting less than a server-requested Retry-After: every retried fault, every backoff source, enforce on/off *)
Lemma wait_ge_retry_after : forall enforce src fs j r,
  (j < length (waits_of (request enforce src O fs)))%nat ->
  requested (nthf j fs) = Some r ->
  r <= nth j (waits_of (request enforce src O fs)) 0.
Proof.
  intros enforce src fs j r Hj Hreq.
  destruct (wait_value enforce src fs j Hj) as (ra & b & Hc & Hs & Hw). rewrite Hw.
  rewrite (classify_retry_requested _ _ Hc), Hreq. apply adjust_ge_ra.
Qed.

(* regression of finding F1201 (fixed by 69e02a7): a 503 with Retry-After 7 against backoffs (1,2,3) waits 7 *)
Example retry_after_503 :
  request_obs false (src_list [1; 2; 3]) [FStatus 503 (Some 7) None] = ([0; 7], ODone).
Proof. vm_compute. reflexivity. Qed.

(* without enforce every wait is at least the configured backoff *)
Lemma wait_ge_backoff : forall src fs j b,
  (j < length (waits_of (request false src O fs)))%nat -> src j = Some b ->
  b <= nth j (waits_of (request false src O fs)) 0.
Proof.
  intros src fs j b Hj Hb.
  destruct (wait_value false src fs j Hj) as (ra & b' & Hc & Hs & Hw). rewrite Hw.
  rewrite Hb in Hs. injection Hs as <-. apply adjust_ge_backoff.
Qed.

(* faults that carry no Retry-After wait exactly the configured backoff *)
Lemma wait_exact_backoff : forall enforce src fs j b,
  (j < length (waits_of (request enforce src O fs)))%nat -> src j = Some b ->
  requested (nthf j fs) = None ->
  nth j (waits_of (request enforce src O fs)) 0 = b.
Proof.
  intros enforce src fs j b Hj Hb Hn.
  destruct (wait_value enforce src fs j Hj) as (ra & b' & Hc & Hs & Hw). rewrite Hw.
  rewrite Hb in Hs. injection Hs as <-.
  rewrite (classify_retry_requested _ _ Hc), Hn. reflexivity.
Qed.

(* with a Retry-After r: max(backoff, r) without enforce_retry_after, r with it *)
Lemma wait_with_retry_after : forall enforce src fs j b r,
  (j < length (waits_of (request enforce src O fs)))%nat -> src j = Some b ->
  requested (nthf j fs) = Some r ->
  nth j (waits_of (request enforce src O fs)) 0 = if enforce then r else Z.max b r.
Proof.
  intros enforce src fs j b r Hj Hb Hr.
  destruct (wait_value enforce src fs j Hj) as (ra & b' & Hc & Hs & Hw). rewrite Hw.
  rewrite Hb in Hs. injection Hs as <-.
  rewrite (classify_retry_requested _ _ Hc), Hr.
  destruct enforce; [apply adjust_enforce|apply adjust_is_max].
Qed.

(* ---------- immediate escalation ---------- *)

Definition plain_4xx (c : Z) : Prop := 400 <= c < 500 /\ c <> 401 /\ c <> 403 /\ c <> 429.

Lemma classify_plain_4xx : forall c h d, plain_4xx c -> classify (FStatus c h d) = KRaise.
Proof.
  intros c h d (Hr & H1 & H3 & H9). simpl.
  destruct (c <? 400) eqn:E; [apply Z.ltb_lt in E; lia|].
  destruct (c =? 401) eqn:E1; [apply Z.eqb_eq in E1; lia|].
  destruct (c =? 403) eqn:E3; [apply Z.eqb_eq in E3; lia|].
  destruct (c =? 429) eqn:E9; [apply Z.eqb_eq in E9; lia|].
  destruct (c <? 500) eqn:E5; [reflexivity|apply Z.ltb_ge in E5; lia].
Qed.

Lemma plain_4xx_escalates_at_once : forall enforce src i c h d fs,
  plain_4xx c ->
  request enforce src i (FStatus c h d :: fs) = ([], OEscalate (FStatus c h d), fs).
Proof. intros. cbn [request]. rewrite classify_plain_4xx by assumption. reflexivity. Qed.

Lemma unauthorized_leaves_at_once : forall enforce src i h d fs,
  request enforce src i (FStatus 401 h d :: fs) = ([], OReauth (FStatus 401 h d), fs).
Proof. reflexivity. Qed.

(* the first attempt is never delayed: the timestamps start at the call time *)
Lemma first_attempt_at_once : forall t ws, hd t (times t ws) = t.
Proof. intros t [|w ws]; reflexivity. Qed.

Lemma times_length : forall ws t, length (times t ws) = S (length ws).
Proof. induction ws; intros; simpl; auto. Qed.

(* consecutive attempts are separated by exactly the wait (when it is non-negative) *)
Lemma times_gap : forall ws t j, (j < length ws)%nat ->
  nth (S j) (times t ws) 0 - nth j (times t ws) 0 = Z.max 0 (nth j ws 0).
Proof.
  induction ws as [|w ws IH]; intros t j Hj; simpl in Hj; [lia|].
  destruct j as [|j].
  - simpl. destruct ws; simpl; lia.
  - change (times t (w :: ws)) with (t :: times (t + Z.max 0 w) ws).
    change (nth (S (S j)) (t :: times (t + Z.max 0 w) ws) 0) with (nth (S j) (times (t + Z.max 0 w) ws) 0).
    change (nth (S j) (t :: times (t + Z.max 0 w) ws) 0) with (nth j (times (t + Z.max 0 w) ws) 0).
    change (nth (S j) (w :: ws) 0) with (nth j ws 0).
    apply IH. lia.
Qed.

Lemma attempt_times : forall ws t,
  hd t (times t ws) = t /\ length (times t ws) = S (length ws) /\
  forall j, (j < length ws)%nat -> nth (S j) (times t ws) 0 - nth j (times t ws) 0 = Z.max 0 (nth j ws 0).
Proof. intros ws t. split; [exact (first_attempt_at_once t ws)|]. split; [exact (times_length ws t)|exact (times_gap ws t)]. Qed.

(* ---------- which failures are retried: exactly the property's list ---------- *)

Lemma retryable_iff_transient : forall f, retryable f <-> transient f = true.
Proof.
  intros f. unfold retryable. split.
  - intros [ra H]. destruct f; simpl in *; try discriminate; try reflexivity.
    destruct (code <? 400) eqn:E4; [discriminate|]. apply Z.ltb_ge in E4.
    destruct (code =? 401); [discriminate|].
    destruct (code =? 403); [rewrite orb_true_r; reflexivity|].
    destruct (code =? 429); [rewrite orb_true_r; reflexivity|].
    destruct (code <? 500) eqn:E5; [discriminate|]. apply Z.ltb_ge in E5.
    destruct (code <? 600) eqn:E6; [|discriminate].
    assert (E : (500 <=? code) = true) by (apply Z.leb_le; lia). rewrite E. reflexivity.
  - intros H. destruct f; simpl in *; try discriminate; try (eexists; reflexivity).
    destruct (code <? 400) eqn:E4.
    { apply Z.ltb_lt in E4. apply orb_true_iff in H. destruct H as [H|H].
      - apply orb_true_iff in H. destruct H as [H|H].
        + apply andb_true_iff in H. destruct H as [H _]. apply Z.leb_le in H. lia.
        + apply Z.eqb_eq in H. lia.
      - apply Z.eqb_eq in H. lia. }
    destruct (code =? 401) eqn:E1.
    { apply Z.eqb_eq in E1. subst. vm_compute in H. discriminate. }
    destruct (code =? 403); [eexists; reflexivity|].
    destruct (code =? 429); [eexists; reflexivity|]. simpl in H. rewrite !orb_false_r in H.
    apply andb_true_iff in H. destruct H as [H5 H6]. apply Z.leb_le in H5.
    destruct (code <? 500) eqn:E5; [apply Z.ltb_lt in E5; lia|]. rewrite H6. eexists; reflexivity.
Qed.

(* a transient failure with a backoff left is always followed by another attempt *)
Lemma transient_is_retried : forall enforce src i f fs b,
  transient f = true -> src i = Some b ->
  exists ra ws o rest, classify f = KRetry ra /\
    request enforce src (S i) fs = (ws, o, rest) /\
    request enforce src i (f :: fs) = (adjust enforce b ra :: ws, o, rest).
Proof.
  intros enforce src i f fs b Ht Hs. apply retryable_iff_transient in Ht. destruct Ht as [ra Hc].
  destruct (request enforce src (S i) fs) as [[ws o] rest] eqn:Hr.
  exists ra, ws, o, rest. split; [exact Hc|]. split; [reflexivity|].
  cbn [request]. rewrite Hc, Hs, Hr. reflexivity.
Qed.

(* ---------- the configuration value ---------- *)

Lemma attempts_cfg_bounded : forall enforce c fs,
  match c with
  | BScalar _ => (attempts (request enforce (src_of c) O fs) <= 2)%nat
  | BList l => (attempts (request enforce (src_of c) O fs) <= S (length l))%nat
  | BEndless _ => (attempts (request enforce (src_of c) O fs) <= S (length fs))%nat
  end.
Proof.
  intros enforce [b|l|g] fs; simpl.
  - apply (attempts_bounded enforce [b] fs).
  - apply attempts_bounded.
  - unfold attempts, waits_of. destruct (request enforce (src_fun g) 0 fs) as [[ws o] rest] eqn:H. simpl.
    destruct (request_spec _ _ _ _ _ _ _ H) as (Hl & _). lia.
Qed.

(* ---------- @authenticated around request ---------- *)

Lemma reauth_consumes : forall enforce src i fs ws f rest,
  request enforce src i fs = (ws, OReauth f, rest) ->
  (length rest < length fs)%nat /\ is_reauth f = true /\
  (length (filter is_reauth rest) < length (filter is_reauth fs))%nat.
Proof.
  intros enforce src i fs ws f rest H.
  destruct (request_spec _ _ _ _ _ _ _ H) as (Hlen & Hw & Hrest & Hend).
  destruct Hend as [[_ Ho]|[Hn Hm]]; [discriminate|].
  assert (Hf : classify (nthf (length ws) fs) = KReauth /\ f = nthf (length ws) fs).
  { destruct (classify (nthf (length ws) fs)); try discriminate; try (destruct Hm; discriminate).
    injection Hm as ->. auto. }
  destruct Hf as [Hc ->]. split; [|split].
  - rewrite Hrest, skipn_length. lia.
  - unfold is_reauth. rewrite Hc. reflexivity.
  - rewrite Hrest. clear - Hn Hc. revert fs Hn Hc. generalize (length ws) as n.
    induction n as [|n IH]; intros [|a fs] Hn Hc; simpl in Hn; try lia.
    + unfold nthf in Hc. simpl in Hc. simpl. unfold is_reauth at 2. rewrite Hc. simpl. lia.
    + unfold nthf in *. simpl in Hc. specialize (IH fs ltac:(lia) Hc).
      change (skipn (S (S n)) (a :: fs)) with (skipn (S n) fs). cbn [filter].
      destruct (is_reauth a); cbn [length]; lia.
Qed.

Definition call_outcome (r : list Z * outcome * nat) : outcome := snd (fst r).
Definition call_times (r : list Z * outcome * nat) : list Z := fst (fst r).
Definition call_reauths (r : list Z * outcome * nat) : nat := snd r.

(* with the vault always re-populated, an authentication failure never reaches the caller, and the
   number of re-authentications is at most the number of 401 / closed-session faults in the script *)
Lemma call_spec : forall fuel enforce src lat t fs,
  (length fs < fuel)%nat ->
  (forall f, call_outcome (call fuel enforce src lat t fs) <> OReauth f) /\
  (call_reauths (call fuel enforce src lat t fs) <= length (filter is_reauth fs))%nat /\
  hd t (call_times (call fuel enforce src lat t fs)) = t.
Proof.
  induction fuel as [|fuel IH]; intros enforce src lat t fs Hf; [lia|].
  simpl. destruct (request enforce src 0 fs) as [[ws o] rest] eqn:Hr.
  destruct o as [|f|f].
  - simpl. split; [discriminate|]. split; [lia|apply first_attempt_at_once].
  - simpl. split; [discriminate|]. split; [lia|apply first_attempt_at_once].
  - destruct (reauth_consumes _ _ _ _ _ _ _ Hr) as (H1 & _ & H3).
    specialize (IH enforce src lat (last (times t ws) t + Z.max 0 lat) rest ltac:(lia)).
    destruct (call fuel enforce src lat (last (times t ws) t + Z.max 0 lat) rest) as [[ts' o'] n] eqn:Hc.
    unfold call_outcome, call_reauths, call_times in *. simpl in *. destruct IH as (I1 & I2 & _).
    split; [exact I1|]. split; [lia|].
    destruct ws; reflexivity.
Qed.

(* a re-authentication restarts the WHOLE cycle: the retry counter and the backoffs start again from 0 *)
Lemma reauth_restarts_cycle : forall fuel enforce src lat t fs ws f rest,
  request enforce src O fs = (ws, OReauth f, rest) ->
  call (S fuel) enforce src lat t fs =
    (times t ws ++ call_times (call fuel enforce src lat (last (times t ws) t + Z.max 0 lat) rest),
     call_outcome (call fuel enforce src lat (last (times t ws) t + Z.max 0 lat) rest),
     S (call_reauths (call fuel enforce src lat (last (times t ws) t + Z.max 0 lat) rest))).
Proof.
  intros. simpl. rewrite H.
  destruct (call fuel enforce src lat (last (times t ws) t + Z.max 0 lat) rest) as [[ts' o'] n]. reflexivity.
Qed.

Example call_example :
  call 5 false (src_list [1; 2]) 3 0 [FStatus 500 None None; FStatus 401 None None; FStatus 503 (Some 7) None]
  = ([0; 1; 4; 11], ODone, 1%nat).
Proof. vm_compute. reflexivity. Qed.

Example transient_example : transient (FStatus 503 (Some 7) None) = true /\ src_of (BScalar 4) O = Some 4.
Proof. split; reflexivity. Qed.

(* ---------- non-vacuity ---------- *)
Example retry_example :
  request_obs false (src_list [1; 2; 3])
     [FStatus 500 None None; FConn; FStatus 429 (Some 7) None; FStatus 403 None None]
  = ([0; 1; 3; 10], OEscalate (FStatus 403 None None)).
Proof. vm_compute. reflexivity. Qed.

Example retry_example_hyp : Forall retryable [FStatus 500 None None; FConn; FTimeout; FStatus 429 (Some 7) (Some 3)].
Proof. repeat constructor; eexists; vm_compute; reflexivity. Qed.

(* hypotheses of the per-wait theorems are satisfiable: a script with three waits, one after a 5xx that
   carries Retry-After in the details style, one after a 403 with the header, under enforce *)
Example waits_example :
  let fs := [FStatus 504 None (Some 9); FStatus 403 (Some 1) None; FTimeout; FStatus 404 None None] in
  waits_of (request true (src_of (BList [2; 5; 3])) O fs) = [9; 1; 3] /\
  requested (nthf 0 fs) = Some 9 /\ requested (nthf 2 fs) = None /\
  outcome_of (request true (src_of (BList [2; 5; 3])) O fs) = OEscalate (FStatus 404 None None).
Proof. vm_compute. repeat split; try reflexivity. Qed.

Example plain_4xx_example : plain_4xx 404 /\ plain_4xx 422 /\ ~ plain_4xx 429.
Proof. unfold plain_4xx. split; [lia|]. split; [lia|]. intros (_ & _ & _ & H). apply H. reflexivity. Qed.
