(* C04_own_writes_invisible: the framework's own annotation writes never change the essence.
   Configuration: annotation diff-base storage DAnn P key v1 [] (no ignored fields), annotation
   progress storage PAnn P' pv1 verbose tk with P' <> "" (and, Step 3, kopf's default `smart`
   progress storage), no extra fields.  The essence of a body whose metadata is a mapping is put
   into closed form: it depends on the annotations only through the *visible* ones. *)
From Coq Require Import ZArith NArith List String Bool Ascii Lia.
From KV Require Import Base.Json Base.Dicts Model.Keys Model.Storage Model.Essence.
Import ListNotations.
Open Scope string_scope.
Open Scope list_scope.

(* ---------- association lists ---------- *)
Section OwAssoc.
  Context {V : Type}.
  Implicit Types (l : list (string * V)).

  Lemma ow_lookup_set_same : forall k (v : V) l, lookup k (set k v l) = Some v.
  Proof.
    induction l as [|[a b] l IH]; simpl.
    - now rewrite String.eqb_refl.
    - destruct (String.eqb k a) eqn:E; simpl; rewrite ?String.eqb_refl, ?E; auto.
  Qed.

  Lemma ow_lookup_set_other : forall k k' (v : V) l, k <> k' -> lookup k (set k' v l) = lookup k l.
  Proof.
    intros k k' v l H. apply String.eqb_neq in H.
    induction l as [|[a b] l IH]; simpl.
    - now rewrite H.
    - destruct (String.eqb k' a) eqn:E; simpl.
      + apply String.eqb_eq in E; subst a. now rewrite H.
      + now rewrite IH.
  Qed.

  Lemma ow_lookup_del_same : forall k l, lookup k (del k l) = (None : option V).
  Proof.
    induction l as [|[a b] l IH]; simpl; auto.
    destruct (String.eqb k a) eqn:E; simpl; rewrite ?E; auto.
  Qed.

  Lemma ow_lookup_del_other : forall k k' l, k <> k' -> lookup k (del k' l) = (lookup k l : option V).
  Proof.
    intros k k' l H. induction l as [|[a b] l IH]; simpl; auto.
    destruct (String.eqb k' a) eqn:E; simpl.
    - apply String.eqb_eq in E; subst a. apply String.eqb_neq in H. now rewrite H.
    - now rewrite IH.
  Qed.

  Lemma ow_del_absent : forall k l, lookup k l = (None : option V) -> del k l = l.
  Proof.
    induction l as [|[a b] l IH]; simpl; auto.
    destruct (String.eqb k a) eqn:E; [discriminate|]. intros H. now rewrite IH.
  Qed.

  Lemma ow_del_set_same : forall k (v : V) l, del k (set k v l) = del k l.
  Proof.
    induction l as [|[a b] l IH]; simpl.
    - now rewrite String.eqb_refl.
    - destruct (String.eqb k a) eqn:E; simpl; rewrite ?String.eqb_refl, ?E; auto. now rewrite IH.
  Qed.

  Lemma ow_del_set_other : forall k k' (v : V) l, k <> k' -> del k (set k' v l) = set k' v (del k l).
  Proof.
    intros k k' v l H. pose proof H as Hn. apply String.eqb_neq in H.
    induction l as [|[a b] l IH]; simpl.
    - now rewrite H.
    - destruct (String.eqb k' a) eqn:E; simpl.
      + apply String.eqb_eq in E; subst a. rewrite H. simpl. now rewrite String.eqb_refl.
      + destruct (String.eqb k a) eqn:E2; simpl; rewrite ?E; auto. now rewrite IH.
  Qed.

  Lemma ow_set_set_same : forall k (v w : V) l, set k v (set k w l) = set k v l.
  Proof.
    induction l as [|[a b] l IH]; simpl.
    - now rewrite String.eqb_refl.
    - destruct (String.eqb k a) eqn:E; simpl; rewrite ?String.eqb_refl, ?E; auto. now rewrite IH.
  Qed.

  Lemma ow_keys_set : forall k (v : V) l,
    keys (set k v l) = if has k l then keys l else keys l ++ [k].
  Proof.
    unfold has, keys. induction l as [|[a b] l IH]; simpl; auto.
    destruct (String.eqb k a) eqn:E; simpl.
    - apply String.eqb_eq in E. now subst.
    - rewrite IH. destruct (lookup k l); auto.
  Qed.

  Lemma ow_keys_del : forall k l, keys (del k l) = filter (fun j => negb (String.eqb k j)) (keys l).
  Proof.
    unfold keys. induction l as [|[a b] l IH]; simpl; auto.
    destruct (String.eqb k a); simpl; now rewrite IH.
  Qed.

  (* writing or deleting a key the (key-only) filter drops does not change the filtered list *)
  Lemma ow_filter_set_invisible : forall (p : string -> bool) k (v : V) l,
    p k = false -> filter (fun kv => p (fst kv)) (set k v l) = filter (fun kv => p (fst kv)) l.
  Proof.
    intros p k v l H. induction l as [|[a b] l IH]; simpl.
    - now rewrite H.
    - destruct (String.eqb k a) eqn:E; simpl.
      + apply String.eqb_eq in E; subst a. now rewrite H.
      + now rewrite IH.
  Qed.

  Lemma ow_filter_del_invisible : forall (p : string -> bool) k l,
    p k = false -> filter (fun kv => p (fst kv)) (del k l) = filter (fun kv => p (fst kv)) l.
  Proof.
    intros p k l H. induction l as [|[a b] l IH]; simpl; auto.
    destruct (String.eqb k a) eqn:E; simpl.
    - apply String.eqb_eq in E; subst a. now rewrite H.
    - now rewrite IH.
  Qed.
End OwAssoc.

Lemma ow_filter_none_dropped : forall {A} (p : A -> bool) l,
  existsb p l = false -> filter (fun x => negb (p x)) l = l.
Proof.
  induction l as [|a l IH]; simpl; auto.
  intros H. apply orb_false_iff in H as [H1 H2]. rewrite H1; simpl. now rewrite IH.
Qed.

Lemma ow_filter_filter : forall {A} (f g : A -> bool) l,
  filter f (filter g l) = filter (fun x => g x && f x) l.
Proof.
  induction l as [|a l IH]; simpl; auto.
  destruct (g a); simpl; [destruct (f a)|]; now rewrite IH.
Qed.

(* ---------- shapes ---------- *)
Definition body_with (kvs md A : obj) : json :=
  JObj (set "metadata" (JObj (set "annotations" (JObj A) md)) kvs).

(* the top level of the essence before metadata is put back *)
Definition ow_e0 (kvs : obj) : obj := del "status" (del "metadata" (del "kind" (del "apiVersion" kvs))).

(* labels as cherry-picked, and as they survive remove_empty_stanzas *)
Definition ow_labraw (md : obj) : obj :=
  match lookup "labels" md with Some L => [("labels", L)] | None => [] end.
Definition ow_lab (md : obj) : obj :=
  match lookup "labels" md with Some L => if is_falsy L then [] else [("labels", L)] | None => [] end.

Definition ow_annpart (X : obj) : obj := match X with [] => [] | _ => [("annotations", JObj X)] end.

(* intermediate essence: metadata = labels part + annotations X (possibly empty) *)
Definition ow_E (m X e0 : obj) : json := JObj (set "metadata" (JObj (set "annotations" (JObj X) m)) e0).

(* normal form: empty stanzas removed *)
Definition ow_NF (m X e0 : obj) : json :=
  JObj (match m ++ ow_annpart X with [] => e0 | M => set "metadata" (JObj M) e0 end).

Definition ow_good (m : obj) : Prop := m = [] \/ exists L, m = [("labels", L)] /\ is_falsy L = false.

Lemma ow_lab_good : forall md, ow_good (ow_lab md).
Proof.
  intros md. unfold ow_lab, ow_good. destruct (lookup "labels" md) as [L|]; auto.
  destruct (is_falsy L) eqn:E; eauto.
Qed.

Lemma ow_e0_no_metadata : forall kvs, lookup "metadata" (ow_e0 kvs) = None.
Proof.
  intros. unfold ow_e0. rewrite ow_lookup_del_other by discriminate. apply ow_lookup_del_same.
Qed.

Lemma ow_e0_no_status : forall kvs, lookup "status" (ow_e0 kvs) = None.
Proof. intros. unfold ow_e0. apply ow_lookup_del_same. Qed.

Lemma ow_e0_body : forall (v : json) kvs,
  del "status" (del "metadata" (del "kind" (del "apiVersion" (set "metadata" v kvs)))) = ow_e0 kvs.
Proof.
  intros. unfold ow_e0.
  rewrite (ow_del_set_other "apiVersion" "metadata") by discriminate.
  rewrite (ow_del_set_other "kind" "metadata") by discriminate.
  now rewrite ow_del_set_same.
Qed.

(* ---------- remove_empty_stanzas / remove_annotations on {metadata: o, ...e0} ---------- *)
Definition ow_dropf (k : string) (o : obj) : obj :=
  match lookup k o with Some v => if is_falsy v then del k o else o | None => o end.
Definition ow_clean (o : obj) : obj := ow_dropf "labels" (ow_dropf "annotations" o).

Lemma ow_dfi_set : forall inner o e0,
  drop_if_falsy_in "metadata" inner (set "metadata" (JObj o) e0)
  = Ok (set "metadata" (JObj (ow_dropf inner o)) e0).
Proof.
  intros. unfold drop_if_falsy_in, ow_dropf. rewrite ow_lookup_set_same.
  destruct (lookup inner o) as [v|]; auto. destruct (is_falsy v); auto.
  now rewrite ow_set_set_same.
Qed.

Lemma ow_res_set_meta : forall o e0,
  lookup "metadata" e0 = None -> lookup "status" e0 = None ->
  remove_empty_stanzas (JObj (set "metadata" (JObj o) e0))
  = Ok (JObj (match ow_clean o with [] => e0 | M => set "metadata" (JObj M) e0 end)).
Proof.
  intros o e0 Hm Hs. unfold remove_empty_stanzas.
  rewrite ow_dfi_set. cbn [bind]. rewrite ow_dfi_set. cbn [bind].
  fold (ow_clean o). unfold drop_if_falsy at 2. rewrite ow_lookup_set_same.
  destruct (ow_clean o) as [|x M] eqn:E; cbn [is_falsy].
  - rewrite ow_del_set_same, (ow_del_absent _ _ Hm). unfold drop_if_falsy. now rewrite Hs.
  - unfold drop_if_falsy. rewrite ow_lookup_set_other by discriminate. now rewrite Hs.
Qed.

Lemma ow_res_plain : forall e0,
  lookup "metadata" e0 = None -> lookup "status" e0 = None ->
  remove_empty_stanzas (JObj e0) = Ok (JObj e0).
Proof.
  intros e0 Hm Hs. unfold remove_empty_stanzas, drop_if_falsy_in. rewrite Hm. cbn [bind].
  rewrite Hm. cbn [bind]. unfold drop_if_falsy. now rewrite Hm, Hs.
Qed.

Lemma ow_res_E : forall m X e0, ow_good m ->
  lookup "metadata" e0 = None -> lookup "status" e0 = None ->
  remove_empty_stanzas (ow_E m X e0) = Ok (ow_NF m X e0).
Proof.
  intros m X e0 Hg Hm Hs. unfold ow_E, ow_NF. rewrite ow_res_set_meta by assumption.
  destruct Hg as [->|[L [-> HL]]].
  - destruct X; reflexivity.
  - destruct X; unfold ow_clean, ow_dropf; simpl; rewrite HL; reflexivity.
Qed.

Lemma ow_res_E_falsy : forall L X e0, is_falsy L = true ->
  lookup "metadata" e0 = None -> lookup "status" e0 = None ->
  remove_empty_stanzas (ow_E [("labels", L)] X e0) = Ok (ow_NF [] X e0).
Proof.
  intros L X e0 HL Hm Hs. unfold ow_E, ow_NF. rewrite ow_res_set_meta by assumption.
  destruct X; unfold ow_clean, ow_dropf; simpl; rewrite HL; reflexivity.
Qed.

Lemma ow_res_E_md : forall md X e0,
  lookup "metadata" e0 = None -> lookup "status" e0 = None ->
  remove_empty_stanzas (ow_E (ow_labraw md) X e0) = Ok (ow_NF (ow_lab md) X e0).
Proof.
  intros md X e0 Hm Hs. unfold ow_labraw, ow_lab.
  destruct (lookup "labels" md) as [L|].
  - destruct (is_falsy L) eqn:HL.
    + now apply ow_res_E_falsy.
    + apply ow_res_E; auto. right; eauto.
  - apply ow_res_E; auto. now left.
Qed.

(* the normal form is a fixed point of remove_empty_stanzas *)
Lemma ow_res_NF : forall m X e0, ow_good m ->
  lookup "metadata" e0 = None -> lookup "status" e0 = None ->
  remove_empty_stanzas (ow_NF m X e0) = Ok (ow_NF m X e0).
Proof.
  intros m X e0 Hg Hm Hs. unfold ow_NF.
  destruct Hg as [->|[L [-> HL]]]; destruct X as [|x X]; cbn [app ow_annpart].
  - now apply ow_res_plain.
  - now rewrite ow_res_set_meta by assumption.
  - rewrite ow_res_set_meta by assumption. unfold ow_clean, ow_dropf; simpl; rewrite HL; reflexivity.
  - rewrite ow_res_set_meta by assumption. unfold ow_clean, ow_dropf; simpl; rewrite HL; reflexivity.
Qed.

Lemma ow_ra_set_meta : forall o e0 rm,
  remove_annotations (JObj (set "metadata" (JObj o) e0)) rm
  = bind (get_obj (JObj o) "annotations") (fun anns =>
      if existsb (fun kv => rm (fst kv)) anns
      then Ok (JObj (set "metadata" (JObj (set "annotations" (JObj (filter (fun kv => negb (rm (fst kv))) anns)) o)) e0))
      else Ok (JObj (set "metadata" (JObj o) e0))).
Proof.
  intros. unfold remove_annotations. rewrite ow_lookup_set_same.
  destruct (get_obj (JObj o) "annotations") as [anns| | |]; cbn [bind]; auto.
  destruct (existsb _ anns); auto. now rewrite ow_set_set_same.
Qed.

(* central lemma: removing annotations from a normal form, then cleaning = normal form of the filter *)
Lemma ow_ra_NF : forall m X e0 rm, ow_good m ->
  lookup "metadata" e0 = None -> lookup "status" e0 = None ->
  bind (remove_annotations (ow_NF m X e0) rm) remove_empty_stanzas
  = Ok (ow_NF m (filter (fun kv => negb (rm (fst kv))) X) e0).
Proof.
  intros m X e0 rm Hg Hm Hs.
  destruct (existsb (fun kv => rm (fst kv)) X) eqn:Ex.
  - (* something is removed *)
    assert (HX : X <> []) by (intros ->; discriminate).
    assert (Hra : remove_annotations (ow_NF m X e0) rm
                  = Ok (ow_E m (filter (fun kv => negb (rm (fst kv))) X) e0)).
    { unfold ow_NF, ow_E.
      destruct Hg as [->|[L [-> HL]]]; destruct X as [|x X]; try congruence; cbn [app ow_annpart];
        rewrite ow_ra_set_meta; simpl get_obj; cbn [bind]; rewrite Ex; reflexivity. }
    rewrite Hra. cbn [bind]. now apply ow_res_E.
  - rewrite (ow_filter_none_dropped (fun kv => rm (fst kv)) X Ex).
    assert (Hra : remove_annotations (ow_NF m X e0) rm = Ok (ow_NF m X e0)).
    { unfold ow_NF.
      destruct Hg as [->|[L [-> HL]]]; destruct X as [|x X]; cbn [app ow_annpart].
      - unfold remove_annotations. now rewrite Hm.
      - rewrite ow_ra_set_meta; simpl get_obj; cbn [bind]. now rewrite Ex.
      - rewrite ow_ra_set_meta; simpl get_obj; cbn [bind]. reflexivity.
      - rewrite ow_ra_set_meta; simpl get_obj; cbn [bind]. now rewrite Ex. }
    rewrite Hra. cbn [bind]. now apply ow_res_NF.
Qed.

(* ---------- base_build on body_with ---------- *)
Definition ow_hid (A : obj) (j : string) : bool :=
  existsb (fun p => under_prefix p j) (marked_prefixes (keys A)) || String.eqb j last_applied.

Definition vis (P' : string) (ks : list string) (A : obj) (j : string) : bool :=
  negb (existsb (fun p => under_prefix p j) (marked_prefixes (keys A)) || String.eqb j last_applied)
  && negb (mem_str j ks) && negb (under_prefix P' j).

Lemma ow_cherrypick_body : forall kvs md A e0,
  lookup "metadata" e0 = None ->
  cherrypick (body_with kvs md A) (JObj e0) [["metadata"; "labels"]; ["metadata"; "annotations"]]
  = Ok (ow_E (ow_labraw md) A e0).
Proof.
  intros kvs md A e0 Hm. unfold body_with, ow_E, ow_labraw.
  cbn [cherrypick resolve_strict]. rewrite !ow_lookup_set_same.
  rewrite ow_lookup_set_other by discriminate.
  destruct (lookup "labels" md) as [L|].
  - cbn [ensure bind]. rewrite Hm. cbn [ensure bind]. rewrite ow_lookup_set_same. cbn [ensure bind].
    now rewrite ow_set_set_same.
  - cbn [ensure bind]. rewrite Hm. cbn [ensure bind]. reflexivity.
Qed.

Lemma ow_ensure_E : forall m X Y e0,
  ensure (ow_E m X e0) ["metadata"; "annotations"] (JObj Y) = Ok (ow_E m Y e0).
Proof.
  intros. unfold ow_E. cbn [ensure]. rewrite ow_lookup_set_same. cbn [ensure bind].
  now rewrite !ow_set_set_same.
Qed.

Lemma ow_base_build : forall kvs md A,
  lookup "metadata" kvs = Some (JObj md) ->
  base_build [] (body_with kvs md A) []
  = Ok (ow_NF (ow_lab md) (filter (fun kv => negb (ow_hid A (fst kv))) A) (ow_e0 kvs)).
Proof.
  intros kvs md A _.
  assert (Hcp := ow_cherrypick_body kvs md A (ow_e0 kvs) (ow_e0_no_metadata kvs)).
  unfold base_build. unfold body_with in *. rewrite ow_e0_body. rewrite Hcp. cbn [bind].
  unfold ow_E at 1. rewrite ow_lookup_set_same.
  unfold get_obj. rewrite ow_lookup_set_same. cbn [bind].
  fold (ow_hid A).
  match goal with |- bind ?c _ = _ =>
    assert (Hc : c = Ok (ow_E (ow_labraw md) (filter (fun kv => negb (ow_hid A (fst kv))) A) (ow_e0 kvs))) end.
  { destruct (existsb (fun kv => ow_hid A (fst kv)) A) eqn:Ex.
    - unfold ow_hid in Ex. rewrite Ex. apply ow_ensure_E.
    - rewrite (ow_filter_none_dropped (fun kv => ow_hid A (fst kv)) A Ex).
      unfold ow_hid in Ex. now rewrite Ex. }
  rewrite Hc. cbn [bind cherrypick].
  rewrite ow_res_E_md by (apply ow_e0_no_metadata || apply ow_e0_no_status).
  reflexivity.
Qed.

(* ---------- the own keys of the diff-base storage do not depend on the annotations ---------- *)
Lemma ow_is_drs_body_indep : forall kvs md A1 A2,
  is_drs_body (body_with kvs md A1) = is_drs_body (body_with kvs md A2).
Proof.
  intros. unfold is_drs_body, body_with.
  rewrite !(ow_lookup_set_other "kind" "metadata") by discriminate.
  destruct (lookup "kind" kvs) as [[| | |s| | |]|]; auto.
  cbn [resolve]. rewrite !ow_lookup_set_same.
  now rewrite !(ow_lookup_set_other "ownerReferences" "annotations") by discriminate.
Qed.

Lemma ow_full_keys_indep : forall dg P v1 kvs md A1 A2 key,
  full_keys dg P v1 (body_with kvs md A1) key = full_keys dg P v1 (body_with kvs md A2) key.
Proof. intros. unfold full_keys. now rewrite (ow_is_drs_body_indep kvs md A1 A2). Qed.

(* ---------- Step 1: closed form of the essence, and the congruence ---------- *)
Lemma ow_vis_filter : forall P' ks (A : obj), P' <> "" ->
  filter (fun kv => negb (negb (String.eqb P' "") && under_prefix P' (fst kv)))
    (filter (fun kv => negb (mem_str (fst kv) ks))
       (filter (fun kv => negb (ow_hid A (fst kv))) A))
  = filter (fun kv => vis P' ks A (fst kv)) A.
Proof.
  intros P' ks A HP. apply String.eqb_neq in HP. rewrite !ow_filter_filter.
  apply filter_ext. intros [j x]. unfold vis, ow_hid. cbn [fst]. rewrite HP. cbn [negb andb]. now rewrite andb_assoc.
Qed.

Theorem essence_ann_form : forall dg P key v1 P' pv1 verbose tk kvs md A,
  P' <> "" -> lookup "metadata" kvs = Some (JObj md) ->
  essence dg (DAnn P key v1 []) (PAnn P' pv1 verbose tk) (body_with kvs md A) []
  = Ok (ow_NF (ow_lab md)
          (filter (fun kv => vis P' (full_keys dg P v1 (body_with kvs md A) key) A (fst kv)) A)
          (ow_e0 kvs)).
Proof.
  intros dg P key v1 P' pv1 verbose tk kvs md A HP Hmd.
  unfold essence. cbn [dbuild]. rewrite (ow_base_build kvs md A Hmd). cbn [bind].
  rewrite ow_ra_NF by (apply ow_lab_good || apply ow_e0_no_metadata || apply ow_e0_no_status).
  cbn [bind pclear].
  rewrite ow_ra_NF by (apply ow_lab_good || apply ow_e0_no_metadata || apply ow_e0_no_status).
  now rewrite ow_vis_filter.
Qed.

Theorem essence_ann_congr : forall dg P key v1 P' pv1 verbose tk kvs md A1 A2,
  P' <> "" -> lookup "metadata" kvs = Some (JObj md) ->
  filter (fun kv => vis P' (full_keys dg P v1 (body_with kvs md A1) key) A1 (fst kv)) A1
  = filter (fun kv => vis P' (full_keys dg P v1 (body_with kvs md A2) key) A2 (fst kv)) A2 ->
  essence dg (DAnn P key v1 []) (PAnn P' pv1 verbose tk) (body_with kvs md A1) []
  = essence dg (DAnn P key v1 []) (PAnn P' pv1 verbose tk) (body_with kvs md A2) [].
Proof.
  intros. rewrite !essence_ann_form by assumption. now f_equal; f_equal.
Qed.
Print Assumptions essence_ann_congr.

(* ---------- Step 2: strings, prefixes, markers ---------- *)
Fixpoint no_slash (s : string) : bool :=
  match s with
  | EmptyString => true
  | String c s' => negb (Ascii.eqb c "/") && no_slash s'
  end.

Lemma ow_append_assoc : forall a b c : string, ((a ++ b) ++ c = a ++ (b ++ c))%string.
Proof. induction a; simpl; intros; auto. now rewrite IHa. Qed.

Lemma ow_prefix_split : forall a k, String.prefix a k = true -> exists n, k = (a ++ n)%string.
Proof.
  induction a as [|c a IH]; intros k H.
  - exists k. reflexivity.
  - destruct k as [|d k]; simpl in H; [discriminate|].
    destruct (ascii_dec c d) as [->|]; [|discriminate].
    destruct (IH k H) as [n ->]. now exists n.
Qed.

Lemma ow_prefix_app : forall a n, String.prefix a (a ++ n)%string = true.
Proof.
  induction a as [|c a IH]; intros n; simpl.
  - now destruct n.
  - destruct (ascii_dec c c); [apply IH|congruence].
Qed.

Lemma ow_split_slash_app : forall p n, no_slash p = true ->
  split_slash (p ++ "/" ++ n)%string = Some (p, n).
Proof.
  induction p as [|c p IH]; intros n H; simpl in *.
  - reflexivity.
  - apply andb_true_iff in H as [H1 H2]. apply negb_true_iff in H1. rewrite H1.
    now rewrite (IH n H2).
Qed.

Lemma ow_split_slash_sound : forall k p n, split_slash k = Some (p, n) -> k = (p ++ "/" ++ n)%string.
Proof.
  induction k as [|c k IH]; intros p n H; simpl in H; [discriminate|].
  destruct (Ascii.eqb c "/") eqn:E.
  - apply Ascii.eqb_eq in E. subst c. now inversion H.
  - destruct (split_slash k) as [[p' n']|]; [|discriminate]. inversion H; subst.
    simpl. now rewrite (IH p' n eq_refl).
Qed.

Lemma ow_under_prefix_split : forall p k, under_prefix p k = true -> exists n, k = (p ++ "/" ++ n)%string.
Proof.
  intros p k H. unfold under_prefix, str_prefix_of in H.
  destruct (ow_prefix_split _ _ H) as [n ->]. exists n. apply ow_append_assoc.
Qed.

(* a key that marks a prefix lies under that prefix *)
Lemma ow_marks_under : forall k q, key_marks_prefix k = Some q -> under_prefix q k = true.
Proof.
  intros k q H. unfold key_marks_prefix in H.
  destruct (split_slash k) as [[p n]|] eqn:E; [|discriminate].
  assert (q = p) as ->.
  { destruct (String.eqb n marker_name); [congruence|].
    destruct (String.eqb p known_prefix); [congruence|].
    destruct (str_suffix_of _ p); congruence. }
  rewrite (ow_split_slash_sound _ _ _ E). unfold under_prefix, str_prefix_of.
  rewrite <- ow_append_assoc. apply ow_prefix_app.
Qed.

(* a key under a slash-free prefix P' can only mark P' itself *)
Lemma ow_under_marks : forall P' k, no_slash P' = true -> under_prefix P' k = true ->
  key_marks_prefix k = None \/ key_marks_prefix k = Some P'.
Proof.
  intros P' k Hs Hu. destruct (ow_under_prefix_split _ _ Hu) as [n ->].
  unfold key_marks_prefix. rewrite (ow_split_slash_app P' n Hs).
  destruct (String.eqb n marker_name); auto.
  destruct (String.eqb P' known_prefix); auto.
  destruct (str_suffix_of _ P'); auto.
Qed.

(* ---------- how the set of marked prefixes reacts to one write ---------- *)
Definition ow_hidp (A : obj) (j : string) : bool :=
  existsb (fun p => under_prefix p j) (marked_prefixes (keys A)).

Definition ow_marks_over (k j : string) : bool :=
  match key_marks_prefix k with Some q => under_prefix q j | None => false end.

Lemma ow_mp_app : forall l1 l2, marked_prefixes (l1 ++ l2) = marked_prefixes l1 ++ marked_prefixes l2.
Proof.
  induction l1 as [|a l1 IH]; intros; simpl; auto.
  destruct (key_marks_prefix a); simpl; now rewrite IH.
Qed.

Lemma ow_hidp_cons : forall a (b : json) A j,
  ow_hidp ((a, b) :: A) j = ow_marks_over a j || ow_hidp A j.
Proof.
  intros. unfold ow_hidp, ow_marks_over. simpl. destruct (key_marks_prefix a); reflexivity.
Qed.

Lemma ow_hidp_set : forall k (v : json) A j,
  ow_hidp (set k v A) j = ow_hidp A j || (negb (has k A) && ow_marks_over k j).
Proof.
  intros. unfold ow_hidp. rewrite ow_keys_set. destruct (has k A); simpl.
  - now rewrite orb_false_r.
  - rewrite ow_mp_app, existsb_app. f_equal. unfold ow_marks_over. simpl.
    destruct (key_marks_prefix k); simpl; auto. now rewrite orb_false_r.
Qed.

Lemma ow_hidp_del_le : forall k (A : obj) j, ow_hidp (del k A) j = true -> ow_hidp A j = true.
Proof.
  induction A as [|[a b] A IH]; intros j H; simpl in *; auto.
  rewrite ow_hidp_cons. destruct (String.eqb k a).
  - rewrite (IH j H). apply orb_true_r.
  - rewrite ow_hidp_cons in H. apply orb_true_iff in H as [H|H].
    + now rewrite H.
    + rewrite (IH j H). apply orb_true_r.
Qed.

Lemma ow_hidp_del_ge : forall k (A : obj) j, ow_hidp A j = true ->
  ow_hidp (del k A) j = true \/ ow_marks_over k j = true.
Proof.
  induction A as [|[a b] A IH]; intros j H; simpl in *; auto.
  rewrite ow_hidp_cons in H. apply orb_true_iff in H as [H|H].
  - destruct (String.eqb k a) eqn:E.
    + apply String.eqb_eq in E. subst a. now right.
    + left. rewrite ow_hidp_cons, H. reflexivity.
  - destruct (IH j H) as [H'|H']; auto.
    destruct (String.eqb k a); auto. left. rewrite ow_hidp_cons, H'. apply orb_true_r.
Qed.

Lemma ow_hidp_in : forall (A : obj) q j,
  In q (marked_prefixes (keys A)) -> under_prefix q j = true -> ow_hidp A j = true.
Proof. intros. unfold ow_hidp. apply existsb_exists. eauto. Qed.

Lemma ow_vis_alt : forall P' ks A j,
  vis P' ks A j = negb (ow_hidp A j || String.eqb j last_applied) && negb (mem_str j ks) && negb (under_prefix P' j).
Proof. reflexivity. Qed.

(* visibility is monotone in the "hidden by a marked prefix" bit *)
Lemma ow_vis_eq_of_hidp : forall P' ks A B j,
  ow_hidp A j = ow_hidp B j -> vis P' ks A j = vis P' ks B j.
Proof. intros. rewrite !ow_vis_alt. now rewrite H. Qed.

Lemma ow_vis_under_P' : forall P' ks A j, under_prefix P' j = true -> vis P' ks A j = false.
Proof. intros. rewrite ow_vis_alt, H. apply andb_false_r. Qed.

Lemma ow_vis_mem : forall P' ks A j, mem_str j ks = true -> vis P' ks A j = false.
Proof. intros. rewrite ow_vis_alt, H. cbn [negb]. now rewrite andb_false_r. Qed.

Lemma ow_vis_hidp : forall P' ks A j, ow_hidp A j = true -> vis P' ks A j = false.
Proof. intros. rewrite ow_vis_alt, H. reflexivity. Qed.

(* ---------- progress-storage writes (records, touch dummies, the P'/kopf-managed marker) ---------- *)
Lemma ow_marks_over_P' : forall P' k j, no_slash P' = true -> under_prefix P' k = true ->
  ow_marks_over k j = true -> under_prefix P' j = true.
Proof.
  intros P' k j Hs Hu H. unfold ow_marks_over in H.
  destruct (ow_under_marks P' k Hs Hu) as [E|E]; rewrite E in H; [discriminate|assumption].
Qed.

Lemma ow_vis_set_progress : forall P' ks k (v : json) A j,
  no_slash P' = true -> under_prefix P' k = true ->
  vis P' ks (set k v A) j = vis P' ks A j.
Proof.
  intros P' ks k v A j Hs Hu.
  destruct (under_prefix P' j) eqn:Ej; [now rewrite !ow_vis_under_P'|].
  apply ow_vis_eq_of_hidp. rewrite ow_hidp_set.
  destruct (ow_marks_over k j) eqn:Em.
  - rewrite (ow_marks_over_P' P' k j Hs Hu Em) in Ej. discriminate.
  - now rewrite andb_false_r, orb_false_r.
Qed.

Lemma ow_vis_del_progress : forall P' ks k (A : obj) j,
  no_slash P' = true -> under_prefix P' k = true ->
  vis P' ks (del k A) j = vis P' ks A j.
Proof.
  intros P' ks k A j Hs Hu.
  destruct (under_prefix P' j) eqn:Ej; [now rewrite !ow_vis_under_P'|].
  apply ow_vis_eq_of_hidp.
  destruct (ow_hidp A j) eqn:E.
  - destruct (ow_hidp_del_ge k A j E) as [H|H]; auto.
    rewrite (ow_marks_over_P' P' k j Hs Hu H) in Ej. discriminate.
  - destruct (ow_hidp (del k A) j) eqn:E'; auto.
    rewrite (ow_hidp_del_le k A j E') in E. discriminate.
Qed.

Theorem own_progress_write_invisible : forall dg P key v1 P' pv1 verbose tk kvs md A k v,
  P' <> "" -> lookup "metadata" kvs = Some (JObj md) ->
  no_slash P' = true -> under_prefix P' k = true ->
  essence dg (DAnn P key v1 []) (PAnn P' pv1 verbose tk) (body_with kvs md (set k v A)) []
  = essence dg (DAnn P key v1 []) (PAnn P' pv1 verbose tk) (body_with kvs md A) [].
Proof.
  intros dg P key v1 P' pv1 verbose tk kvs md A k v HP Hmd Hs Hu.
  apply essence_ann_congr; auto.
  rewrite (ow_full_keys_indep dg P v1 kvs md (set k v A) A key).
  set (ks := full_keys dg P v1 (body_with kvs md A) key).
  rewrite (ow_filter_set_invisible (vis P' ks (set k v A)) k v A) by now apply ow_vis_under_P'.
  apply filter_ext. intros [j x]. now apply ow_vis_set_progress.
Qed.

Theorem own_progress_delete_invisible : forall dg P key v1 P' pv1 verbose tk kvs md A k,
  P' <> "" -> lookup "metadata" kvs = Some (JObj md) ->
  no_slash P' = true -> under_prefix P' k = true ->
  essence dg (DAnn P key v1 []) (PAnn P' pv1 verbose tk) (body_with kvs md (del k A)) []
  = essence dg (DAnn P key v1 []) (PAnn P' pv1 verbose tk) (body_with kvs md A) [].
Proof.
  intros dg P key v1 P' pv1 verbose tk kvs md A k HP Hmd Hs Hu.
  apply essence_ann_congr; auto.
  rewrite (ow_full_keys_indep dg P v1 kvs md (del k A) A key).
  set (ks := full_keys dg P v1 (body_with kvs md A) key).
  rewrite (ow_filter_del_invisible (vis P' ks (del k A)) k A) by now apply ow_vis_under_P'.
  apply filter_ext. intros [j x]. now apply ow_vis_del_progress.
Qed.

(* ---------- diff-base storage writes ---------- *)
Theorem own_diffbase_write_invisible : forall dg P key v1 P' pv1 verbose tk kvs md A k v,
  P' <> "" -> lookup "metadata" kvs = Some (JObj md) ->
  mem_str k (full_keys dg P v1 (body_with kvs md A) key) = true ->
  (key_marks_prefix k = None \/ exists q, key_marks_prefix k = Some q /\ In q (marked_prefixes (keys A))) ->
  essence dg (DAnn P key v1 []) (PAnn P' pv1 verbose tk) (body_with kvs md (set k v A)) []
  = essence dg (DAnn P key v1 []) (PAnn P' pv1 verbose tk) (body_with kvs md A) [].
Proof.
  intros dg P key v1 P' pv1 verbose tk kvs md A k v HP Hmd Hk Hq.
  apply essence_ann_congr; auto.
  rewrite (ow_full_keys_indep dg P v1 kvs md (set k v A) A key).
  set (ks := full_keys dg P v1 (body_with kvs md A) key) in *.
  rewrite (ow_filter_set_invisible (vis P' ks (set k v A)) k v A) by now apply ow_vis_mem.
  apply filter_ext. intros [j x]. cbn [fst].
  apply ow_vis_eq_of_hidp. rewrite ow_hidp_set.
  destruct (ow_marks_over k j) eqn:Em; [|now rewrite andb_false_r, orb_false_r].
  unfold ow_marks_over in Em. destruct Hq as [E|[q [E Hin]]]; rewrite E in Em; [discriminate|].
  rewrite (ow_hidp_in A q j Hin Em). reflexivity.
Qed.

(* the diff-base marker P/kopf-managed: invisible provided nothing under P/ was visible before *)
Theorem own_marker_write_invisible_partial : forall dg P key v1 P' pv1 verbose tk kvs md A k v q,
  P' <> "" -> lookup "metadata" kvs = Some (JObj md) ->
  key_marks_prefix k = Some q -> under_prefix q k = true ->
  (forall j, In j (keys A) -> under_prefix q j = true ->
     vis P' (full_keys dg P v1 (body_with kvs md A) key) A j = false) ->
  essence dg (DAnn P key v1 []) (PAnn P' pv1 verbose tk) (body_with kvs md (set k v A)) []
  = essence dg (DAnn P key v1 []) (PAnn P' pv1 verbose tk) (body_with kvs md A) [].
Proof.
  intros dg P key v1 P' pv1 verbose tk kvs md A k v q HP Hmd Hk Hu Hinv.
  apply essence_ann_congr; auto.
  rewrite (ow_full_keys_indep dg P v1 kvs md (set k v A) A key).
  set (ks := full_keys dg P v1 (body_with kvs md A) key) in *.
  assert (Hmo : forall j, ow_marks_over k j = under_prefix q j)
    by (intros; unfold ow_marks_over; now rewrite Hk).
  assert (Hkinv : vis P' ks (set k v A) k = false).
  { destruct (has k A) eqn:Eh.
    - rewrite (ow_vis_eq_of_hidp P' ks (set k v A) A k)
        by (rewrite ow_hidp_set, Eh; cbn [negb andb]; apply orb_false_r).
      apply Hinv; auto. unfold has in Eh. destruct (lookup k A) eqn:El; [|discriminate].
      clear - El. unfold keys. induction A as [|[a b] A IH]; simpl in *; [discriminate|].
      destruct (String.eqb k a) eqn:E; [apply String.eqb_eq in E; auto|auto].
    - apply ow_vis_hidp. rewrite ow_hidp_set, Eh, Hmo, Hu. apply orb_true_r. }
  rewrite (ow_filter_set_invisible (vis P' ks (set k v A)) k v A Hkinv).
  apply filter_ext_in. intros [j x] Hin. cbn [fst].
  assert (Hj : In j (keys A)) by (unfold keys; change j with (fst (j, x)); now apply in_map).
  destruct (under_prefix q j) eqn:Ej.
  - rewrite (Hinv j Hj Ej).
    destruct (has k A) eqn:Eh.
    + rewrite (ow_vis_eq_of_hidp P' ks (set k v A) A j)
        by (rewrite ow_hidp_set, Eh; cbn [negb andb]; apply orb_false_r).
      now apply Hinv.
    + apply ow_vis_hidp. rewrite ow_hidp_set, Eh, Hmo, Ej. apply orb_true_r.
  - apply ow_vis_eq_of_hidp. rewrite ow_hidp_set, Hmo, Ej. now rewrite andb_false_r, orb_false_r.
Qed.

(* the guard is derivable: a marking key always lies under the prefix it marks *)
Theorem own_marker_write_invisible : forall dg P key v1 P' pv1 verbose tk kvs md A k v q,
  P' <> "" -> lookup "metadata" kvs = Some (JObj md) ->
  key_marks_prefix k = Some q ->
  (forall j, In j (keys A) -> under_prefix q j = true ->
     vis P' (full_keys dg P v1 (body_with kvs md A) key) A j = false) ->
  essence dg (DAnn P key v1 []) (PAnn P' pv1 verbose tk) (body_with kvs md (set k v A)) []
  = essence dg (DAnn P key v1 []) (PAnn P' pv1 verbose tk) (body_with kvs md A) [].
Proof.
  intros. eapply own_marker_write_invisible_partial; eauto. now apply ow_marks_under.
Qed.

Print Assumptions own_progress_write_invisible.
Print Assumptions own_progress_delete_invisible.
Print Assumptions own_diffbase_write_invisible.
Print Assumptions own_marker_write_invisible_partial.
Print Assumptions own_marker_write_invisible.

(* ---------- the keys the storages write are under their prefix ---------- *)
Lemma ow_str_of_app : forall p l, str_of (chars_of p ++ l) = (p ++ str_of l)%string.
Proof. induction p as [|c p IH]; intros; simpl; auto. unfold str_of, chars_of in *. now rewrite IH. Qed.

Lemma ow_under_prefix_app : forall p n, under_prefix p (p ++ "/" ++ n)%string = true.
Proof. intros. unfold under_prefix, str_prefix_of. rewrite <- ow_append_assoc. apply ow_prefix_app. Qed.

Lemma ow_full_keys_under : forall dg P v1 body key k, P <> "" ->
  In k (full_keys dg P v1 body key) -> under_prefix P k = true.
Proof.
  intros dg P v1 body key k HP Hin. unfold full_keys, make_keys in Hin.
  assert (Hpre : pre_of (chars_of P) = chars_of P ++ ["/"%char]).
  { destruct P; [congruence|reflexivity]. }
  assert (H : forall rest, under_prefix P (str_of (pre_of (chars_of P) ++ rest)) = true).
  { intros. rewrite Hpre, <- app_assoc, ow_str_of_app. apply (ow_under_prefix_app P (str_of rest)). }
  cbn [map In] in Hin. destruct Hin as [<-|Hin].
  - apply H.
  - destruct (v1 && _); cbn [map In] in Hin; [|contradiction].
    destruct Hin as [<-|[]]. apply H.
Qed.

Lemma ow_marker_under : forall P, under_prefix P (P ++ "/" ++ marker_name)%string = true.
Proof. intros. apply ow_under_prefix_app. Qed.

Lemma ow_mem_str_in : forall k l, mem_str k l = true <-> In k l.
Proof.
  intros. unfold mem_str. rewrite existsb_exists. split.
  - intros [x [Hin E]]. apply String.eqb_eq in E. now subst.
  - intros H. exists k. split; auto. apply String.eqb_refl.
Qed.

(* ---------- Step 3: kopf's default progress storage (annotations + status, `smart`) ---------- *)
Lemma ow_NF_no_status : forall m X e0, lookup "status" e0 = None ->
  exists kv, ow_NF m X e0 = JObj kv /\ lookup "status" kv = None.
Proof.
  intros m X e0 Hs. unfold ow_NF. destruct (m ++ ow_annpart X) as [|x M].
  - eauto.
  - eexists; split; [reflexivity|]. now rewrite ow_lookup_set_other by discriminate.
Qed.

Lemma ow_remove_status_absent : forall kv field,
  hd_error field = Some "status" -> lookup "status" kv = None ->
  remove (JObj kv) field = Ok (JObj kv).
Proof.
  intros kv field Hf Hs. destruct field as [|f rest]; [discriminate|].
  cbn [hd_error] in Hf. injection Hf as ->.
  destruct rest as [|r rest]; cbn [remove].
  - now rewrite (ow_del_absent _ _ Hs).
  - now rewrite Hs.
Qed.

Lemma ow_dbuild : forall dg P key v1 kvs md A,
  lookup "metadata" kvs = Some (JObj md) ->
  dbuild dg (DAnn P key v1 []) (body_with kvs md A) []
  = Ok (ow_NF (ow_lab md)
          (filter (fun kv => negb (mem_str (fst kv) (full_keys dg P v1 (body_with kvs md A) key)))
             (filter (fun kv => negb (ow_hid A (fst kv))) A))
          (ow_e0 kvs)).
Proof.
  intros. cbn [dbuild]. rewrite (ow_base_build kvs md A H). cbn [bind].
  now rewrite ow_ra_NF by (apply ow_lab_good || apply ow_e0_no_metadata || apply ow_e0_no_status).
Qed.

Theorem essence_smart_eq : forall dg P key v1 P' pv1 verbose tk field tf nw kvs md A,
  lookup "metadata" kvs = Some (JObj md) -> hd_error field = Some "status" ->
  essence dg (DAnn P key v1 []) (PMulti [PAnn P' pv1 verbose tk; PStatus field tf nw]) (body_with kvs md A) []
  = essence dg (DAnn P key v1 []) (PAnn P' pv1 verbose tk) (body_with kvs md A) [].
Proof.
  intros dg P key v1 P' pv1 verbose tk field tf nw kvs md A Hmd Hf.
  unfold essence. rewrite (ow_dbuild dg P key v1 kvs md A Hmd). cbn [bind pclear].
  rewrite ow_ra_NF by (apply ow_lab_good || apply ow_e0_no_metadata || apply ow_e0_no_status).
  cbn [bind].
  match goal with |- bind (bind (remove ?n _) _) _ = _ => set (N := n) end.
  assert (HN : remove_empty_stanzas N = Ok N)
    by (apply ow_res_NF; (apply ow_lab_good || apply ow_e0_no_metadata || apply ow_e0_no_status)).
  destruct (ow_NF_no_status (ow_lab md)
              (filter (fun kv => negb (negb (String.eqb P' "") && under_prefix P' (fst kv)))
                 (filter (fun kv => negb (mem_str (fst kv) (full_keys dg P v1 (body_with kvs md A) key)))
                    (filter (fun kv => negb (ow_hid A (fst kv))) A)))
              (ow_e0 kvs) (ow_e0_no_status kvs)) as [kv [EN Hs]].
  fold N in EN. rewrite EN at 1. rewrite (ow_remove_status_absent kv field Hf Hs). cbn [bind].
  rewrite <- EN, HN. reflexivity.
Qed.

Theorem essence_ann_congr_smart : forall dg P key v1 P' pv1 verbose tk field tf nw kvs md A1 A2,
  P' <> "" -> lookup "metadata" kvs = Some (JObj md) -> hd_error field = Some "status" ->
  filter (fun kv => vis P' (full_keys dg P v1 (body_with kvs md A1) key) A1 (fst kv)) A1
  = filter (fun kv => vis P' (full_keys dg P v1 (body_with kvs md A2) key) A2 (fst kv)) A2 ->
  essence dg (DAnn P key v1 []) (PMulti [PAnn P' pv1 verbose tk; PStatus field tf nw]) (body_with kvs md A1) []
  = essence dg (DAnn P key v1 []) (PMulti [PAnn P' pv1 verbose tk; PStatus field tf nw]) (body_with kvs md A2) [].
Proof. intros. rewrite !essence_smart_eq by assumption. now apply essence_ann_congr. Qed.

Theorem own_progress_write_invisible_smart : forall dg P key v1 P' pv1 verbose tk field tf nw kvs md A k v,
  P' <> "" -> lookup "metadata" kvs = Some (JObj md) -> hd_error field = Some "status" ->
  no_slash P' = true -> under_prefix P' k = true ->
  essence dg (DAnn P key v1 []) (PMulti [PAnn P' pv1 verbose tk; PStatus field tf nw]) (body_with kvs md (set k v A)) []
  = essence dg (DAnn P key v1 []) (PMulti [PAnn P' pv1 verbose tk; PStatus field tf nw]) (body_with kvs md A) [].
Proof. intros. rewrite !essence_smart_eq by assumption. now apply own_progress_write_invisible. Qed.

Theorem own_progress_delete_invisible_smart : forall dg P key v1 P' pv1 verbose tk field tf nw kvs md A k,
  P' <> "" -> lookup "metadata" kvs = Some (JObj md) -> hd_error field = Some "status" ->
  no_slash P' = true -> under_prefix P' k = true ->
  essence dg (DAnn P key v1 []) (PMulti [PAnn P' pv1 verbose tk; PStatus field tf nw]) (body_with kvs md (del k A)) []
  = essence dg (DAnn P key v1 []) (PMulti [PAnn P' pv1 verbose tk; PStatus field tf nw]) (body_with kvs md A) [].
Proof. intros. rewrite !essence_smart_eq by assumption. now apply own_progress_delete_invisible. Qed.

Theorem own_diffbase_write_invisible_smart : forall dg P key v1 P' pv1 verbose tk field tf nw kvs md A k v,
  P' <> "" -> lookup "metadata" kvs = Some (JObj md) -> hd_error field = Some "status" ->
  mem_str k (full_keys dg P v1 (body_with kvs md A) key) = true ->
  (key_marks_prefix k = None \/ exists q, key_marks_prefix k = Some q /\ In q (marked_prefixes (keys A))) ->
  essence dg (DAnn P key v1 []) (PMulti [PAnn P' pv1 verbose tk; PStatus field tf nw]) (body_with kvs md (set k v A)) []
  = essence dg (DAnn P key v1 []) (PMulti [PAnn P' pv1 verbose tk; PStatus field tf nw]) (body_with kvs md A) [].
Proof. intros. rewrite !essence_smart_eq by assumption. now apply own_diffbase_write_invisible. Qed.

Theorem own_marker_write_invisible_smart_partial : forall dg P key v1 P' pv1 verbose tk field tf nw kvs md A k v q,
  P' <> "" -> lookup "metadata" kvs = Some (JObj md) -> hd_error field = Some "status" ->
  key_marks_prefix k = Some q -> under_prefix q k = true ->
  (forall j, In j (keys A) -> under_prefix q j = true ->
     vis P' (full_keys dg P v1 (body_with kvs md A) key) A j = false) ->
  essence dg (DAnn P key v1 []) (PMulti [PAnn P' pv1 verbose tk; PStatus field tf nw]) (body_with kvs md (set k v A)) []
  = essence dg (DAnn P key v1 []) (PMulti [PAnn P' pv1 verbose tk; PStatus field tf nw]) (body_with kvs md A) [].
Proof. intros. rewrite !essence_smart_eq by assumption. eapply own_marker_write_invisible_partial; eauto. Qed.

(* ---------- concrete cases (non-vacuity, and the necessity of the marker guard: F41) ---------- *)
Definition ow_ex_md : obj := [("name", JStr "x"); ("annotations", JObj [("note", JStr "x")])].
Definition ow_ex_kvs : obj :=
  [("apiVersion", JStr "v1"); ("kind", JStr "KopfExample"); ("metadata", JObj ow_ex_md);
   ("spec", JObj [("field", JNum 1)])].
Definition ow_ex_A : obj := [("note", JStr "x")].
Definition ow_ex_essence : json :=
  JObj [("spec", JObj [("field", JNum 1)]); ("metadata", JObj [("annotations", JObj [("note", JStr "x")])])].

Example own_write_example :
  body_with ow_ex_kvs ow_ex_md ow_ex_A = JObj ow_ex_kvs /\
  essence (table_dg []) (DAnn "kopf.zalando.org" "last-handled-configuration" true [])
    (PAnn "kopf.zalando.org" true false "touch-dummy") (body_with ow_ex_kvs ow_ex_md ow_ex_A) []
  = Ok ow_ex_essence /\
  essence (table_dg []) (DAnn "kopf.zalando.org" "last-handled-configuration" true [])
    (PAnn "kopf.zalando.org" true false "touch-dummy")
    (body_with ow_ex_kvs ow_ex_md (set "kopf.zalando.org/create_fn" (JStr "r") ow_ex_A)) []
  = Ok ow_ex_essence.
Proof. vm_compute. auto. Qed.

Example own_write_example_smart :
  essence (table_dg []) (DAnn "kopf.zalando.org" "last-handled-configuration" true [])
    (smart "kopf.zalando.org" true false "touch-dummy" ["status"; "kopf"; "progress"] ["status"; "kopf"; "dummy"])
    (body_with ow_ex_kvs ow_ex_md (set "kopf.zalando.org/create_fn" (JStr "r") ow_ex_A)) []
  = Ok ow_ex_essence.
Proof. vm_compute. auto. Qed.

(* F41: with a custom prefix the first write of the marker P/kopf-managed hides a user annotation
   under P/ that was part of the essence before: the guard of own_marker_write_invisible is needed *)
Example own_marker_write_refuted :
  let ds := DAnn "example.com" "last-handled-configuration" true [] in
  let ps := PAnn "kopf.zalando.org" true false "touch-dummy" in
  let A := [("example.com/note", JStr "x")] in
  key_marks_prefix "example.com/kopf-managed" = Some "example.com" /\
  essence (table_dg []) ds ps (body_with ow_ex_kvs ow_ex_md A) []
  = Ok (JObj [("spec", JObj [("field", JNum 1)]);
              ("metadata", JObj [("annotations", JObj [("example.com/note", JStr "x")])])]) /\
  essence (table_dg []) ds ps (body_with ow_ex_kvs ow_ex_md (set "example.com/kopf-managed" (JStr "yes") A)) []
  = Ok (JObj [("spec", JObj [("field", JNum 1)])]).
Proof. vm_compute. auto. Qed.

Print Assumptions essence_smart_eq.
Print Assumptions essence_ann_congr_smart.
Print Assumptions own_progress_write_invisible_smart.
Print Assumptions own_progress_delete_invisible_smart.
Print Assumptions own_diffbase_write_invisible_smart.
Print Assumptions own_marker_write_invisible_smart_partial.
Print Assumptions ow_full_keys_under.
Print Assumptions own_write_example.
Print Assumptions own_write_example_smart.
Print Assumptions own_marker_write_refuted.

(* the property for the keys the progress storage really writes: any record / touch key it forms,
   and its marker *)
Corollary own_progress_record_write_invisible : forall dg P key v1 P' pv1 verbose tk kvs md A b hkey k v,
  P' <> "" -> lookup "metadata" kvs = Some (JObj md) -> no_slash P' = true ->
  In k (full_keys dg P' pv1 b hkey) ->
  essence dg (DAnn P key v1 []) (PAnn P' pv1 verbose tk) (body_with kvs md (set k v A)) []
  = essence dg (DAnn P key v1 []) (PAnn P' pv1 verbose tk) (body_with kvs md A) [].
Proof. intros. apply own_progress_write_invisible; auto. eapply ow_full_keys_under; eauto. Qed.

Corollary own_progress_marker_write_invisible : forall dg P key v1 P' pv1 verbose tk kvs md A v,
  P' <> "" -> lookup "metadata" kvs = Some (JObj md) -> no_slash P' = true ->
  essence dg (DAnn P key v1 []) (PAnn P' pv1 verbose tk)
    (body_with kvs md (set (P' ++ "/" ++ marker_name)%string v A)) []
  = essence dg (DAnn P key v1 []) (PAnn P' pv1 verbose tk) (body_with kvs md A) [].
Proof. intros. apply own_progress_write_invisible; auto. apply ow_marker_under. Qed.

Print Assumptions own_progress_record_write_invisible.
Print Assumptions own_progress_marker_write_invisible.
