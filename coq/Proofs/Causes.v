(* C05 — lemmas about Model/Causes.v.  Property theorems are re-exported by Props/C05.v. *)
From Coq Require Import ZArith List String Bool Ascii Lia.
From KV Require Import Base.Json Base.Dicts Model.Causes.
Import ListNotations.
Open Scope string_scope.
Open Scope list_scope.

(* ------------------------------------------------------------------------------------------ *)
(* The precedence list of the property text, as a specification-level predicate:              *)
(* really gone; released; deletion; creation; resume; no-op; update — each guard carries the  *)
(* negations of all earlier ones.                                                              *)
(* ------------------------------------------------------------------------------------------ *)
Definition guard (r : reason) (a : atoms) : bool :=
  match r with
  | Gone => a_gone a
  | Free => negb (a_gone a) && a_deleting a && negb (a_blocked a)
  | Delete => negb (a_gone a) && a_deleting a && a_blocked a
  | Create => negb (a_gone a) && negb (a_deleting a) && a_old_none a
  | Resume => negb (a_gone a) && negb (a_deleting a) && negb (a_old_none a) && a_diff_empty a && a_initial a
  | Noop => negb (a_gone a) && negb (a_deleting a) && negb (a_old_none a) && a_diff_empty a && negb (a_initial a)
  | Update => negb (a_gone a) && negb (a_deleting a) && negb (a_old_none a) && negb (a_diff_empty a)
  end.

Ltac atoms_cases a :=
  destruct a as [g d b o e i]; destruct g, d, b, o, e, i.

Lemma detect_guard : forall a, guard (fst (detect a)) a = true.
Proof. intro a. atoms_cases a; reflexivity. Qed.

Lemma guard_unique : forall a r, guard r a = true -> r = fst (detect a).
Proof. intros a r. atoms_cases a; destruct r; cbn; intro H; try reflexivity; discriminate H. Qed.

Lemma total_unique : forall a,
  guard (fst (detect a)) a = true /\ (forall r, guard r a = true -> r = fst (detect a)).
Proof. intro a. split; [apply detect_guard | apply guard_unique]. Qed.

Lemma precedence : forall a,
  (a_gone a = true -> fst (detect a) = Gone) /\
  (a_gone a = false -> a_deleting a = true -> a_blocked a = false -> fst (detect a) = Free) /\
  (a_gone a = false -> a_deleting a = true -> a_blocked a = true -> fst (detect a) = Delete) /\
  (a_gone a = false -> a_deleting a = false -> a_old_none a = true -> fst (detect a) = Create) /\
  (a_gone a = false -> a_deleting a = false -> a_old_none a = false -> a_diff_empty a = true -> a_initial a = true ->
     fst (detect a) = Resume) /\
  (a_gone a = false -> a_deleting a = false -> a_old_none a = false -> a_diff_empty a = true -> a_initial a = false ->
     fst (detect a) = Noop) /\
  (a_gone a = false -> a_deleting a = false -> a_old_none a = false -> a_diff_empty a = false ->
     fst (detect a) = Update).
Proof. intro a. atoms_cases a; cbn; repeat split; intros; try reflexivity; discriminate. Qed.

Lemma precedence_converse : forall a,
  (fst (detect a) = Gone -> a_gone a = true) /\
  (fst (detect a) = Free -> a_gone a = false /\ a_deleting a = true /\ a_blocked a = false) /\
  (fst (detect a) = Delete -> a_gone a = false /\ a_deleting a = true /\ a_blocked a = true) /\
  (fst (detect a) = Create -> a_gone a = false /\ a_deleting a = false /\ a_old_none a = true) /\
  (fst (detect a) = Resume -> a_gone a = false /\ a_deleting a = false /\ a_old_none a = false /\
                              a_diff_empty a = true /\ a_initial a = true) /\
  (fst (detect a) = Noop -> a_gone a = false /\ a_deleting a = false /\ a_old_none a = false /\
                            a_diff_empty a = true /\ a_initial a = false) /\
  (fst (detect a) = Update -> a_gone a = false /\ a_deleting a = false /\ a_old_none a = false /\
                              a_diff_empty a = false).
Proof. intro a. atoms_cases a; cbn; repeat split; intros; try reflexivity; discriminate. Qed.

(* cause.initial: forced to False on creation, passed through otherwise *)
Lemma initial_flag : forall a,
  snd (detect a) = (if reason_eqb (fst (detect a)) Create then false else a_initial a).
Proof. intro a. atoms_cases a; reflexivity. Qed.

(* the decision list covers every reason: none of the seven is dead code (non-vacuity) *)
Lemma every_reason_reachable : forall r, exists a, fst (detect a) = r.
Proof.
  intro r; destruct r.
  - exists (Build_atoms false false false true false false); reflexivity.
  - exists (Build_atoms false false false false false false); reflexivity.
  - exists (Build_atoms false true true false false false); reflexivity.
  - exists (Build_atoms false false false false true true); reflexivity.
  - exists (Build_atoms false false false false true false); reflexivity.
  - exists (Build_atoms false true false false false false); reflexivity.
  - exists (Build_atoms true false false false false false); reflexivity.
Qed.

(* ------------------------------------------------------------------------------------------ *)
(* Selection: what being in the invoked list means — for EVERY list of handlers               *)
(* ------------------------------------------------------------------------------------------ *)
Lemma reason_eqb_eq : forall a b, reason_eqb a b = true <-> a = b.
Proof. intros a b; destruct a, b; cbn; split; intro H; try reflexivity; discriminate H. Qed.

Lemma dedup_from_In : forall l seen h, In h (dedup_from seen l) -> In h l.
Proof.
  induction l as [|x l IH]; intros seen h H; cbn in *; [exact H|].
  destruct (existsb (Nat.eqb (h_key x)) seen).
  - right; eapply IH; exact H.
  - destruct H as [H|H]; [left; exact H | right; eapply IH; exact H].
Qed.

Lemma dedup_In : forall l h, In h (dedup l) -> In h l.
Proof. intros l h; apply dedup_from_In. Qed.

(* completeness of dedup: every key of the input survives (first occurrence kept) *)
Lemma dedup_from_keys : forall l seen h, In h l ->
  existsb (Nat.eqb (h_key h)) seen = true \/ exists h', In h' (dedup_from seen l) /\ h_key h' = h_key h.
Proof.
  induction l as [|x l IH]; intros seen h H; cbn in *; [contradiction|].
  destruct H as [H|H].
  - subst x. destruct (existsb (Nat.eqb (h_key h)) seen) eqn:E; [left; reflexivity|].
    right; exists h; split; [left; reflexivity | reflexivity].
  - destruct (existsb (Nat.eqb (h_key x)) seen) eqn:E.
    + apply IH; exact H.
    + destruct (IH (h_key x :: seen) h H) as [S|[h' [I K]]].
      * cbn in S. apply orb_true_iff in S. destruct S as [S|S].
        -- apply Nat.eqb_eq in S. right; exists x; split; [left; reflexivity | symmetry; exact S].
        -- left; exact S.
      * right; exists h'; split; [right; exact I | exact K].
Qed.

Lemma dedup_keys : forall l h, In h l -> exists h', In h' (dedup l) /\ h_key h' = h_key h.
Proof.
  intros l h H. destruct (dedup_from_keys l [] h H) as [S|S]; [cbn in S; discriminate S | exact S].
Qed.

Lemma dedup_from_NoDup : forall l seen,
  NoDup (map h_key (dedup_from seen l)) /\
  (forall h, In h (dedup_from seen l) -> existsb (Nat.eqb (h_key h)) seen = false).
Proof.
  induction l as [|x l IH]; intros seen; cbn.
  - split; [constructor | intros h []].
  - destruct (existsb (Nat.eqb (h_key x)) seen) eqn:E; [apply IH|].
    destruct (IH (h_key x :: seen)) as [ND NS]. split.
    + cbn. constructor; [|exact ND].
      intro HI. apply in_map_iff in HI. destruct HI as [h [K I]].
      specialize (NS h I). cbn in NS. rewrite K, Nat.eqb_refl in NS. discriminate NS.
    + intros h [H|H].
      * subst h; exact E.
      * specialize (NS h H). cbn in NS. apply orb_false_iff in NS. apply NS.
Qed.

(* no (function, id) pair is invoked twice for one cause *)
Lemma invoked_once : forall r i d hs, NoDup (map h_key (invoked r i d hs)).
Proof.
  intros. unfold invoked, get_handlers, dedup. destruct (is_handler_reason r); [|constructor].
  apply dedup_from_NoDup.
Qed.

Definition selectable (r : reason) (c_initial c_deleted : bool) (h : hdecl) : Prop :=
  reason_accepts (h_reason h) r = true /\
  h_match h = true /\
  (truthy (h_initial h) = true -> c_initial = true /\ (c_deleted = true -> truthy (h_deleted h) = true)).

Lemma select_spec : forall r i d h, select r i d false h = true <-> selectable r i d h.
Proof.
  intros r i d h. unfold select, selectable.
  destruct (reason_accepts (h_reason h) r), (truthy (h_initial h)), i, d, (truthy (h_deleted h)), (h_match h);
    cbn; split; intro H; try discriminate H; try reflexivity;
    try (repeat split; intros; try reflexivity; try discriminate; fail);
    destruct H as [H1 [H2 H3]]; try discriminate;
    try (destruct (H3 eq_refl) as [H4 H5]; try discriminate; try (specialize (H5 eq_refl); discriminate)).
Qed.

(* soundness: everything invoked satisfies the selection conditions under a handler reason *)
Lemma invoked_sound : forall r i d hs h, In h (invoked r i d hs) ->
  In h hs /\ is_handler_reason r = true /\ selectable r i d h.
Proof.
  intros r i d hs h H. unfold invoked in H.
  destruct (is_handler_reason r) eqn:E; [|contradiction].
  unfold get_handlers in H. apply dedup_In in H. apply filter_In in H. destruct H as [H1 H2].
  split; [exact H1|]. split; [reflexivity|]. apply select_spec; exact H2.
Qed.

(* completeness: every selectable handler is invoked, up to the identity (function, id) *)
Lemma invoked_complete : forall r i d hs h, In h hs -> is_handler_reason r = true -> selectable r i d h ->
  exists h', In h' (invoked r i d hs) /\ h_key h' = h_key h.
Proof.
  intros r i d hs h H1 H2 H3. unfold invoked. rewrite H2. unfold get_handlers.
  apply dedup_keys. apply filter_In. split; [exact H1 | apply select_spec; exact H3].
Qed.

Lemma reactor_reasons_invoke_nothing : forall r i d hs, In r reactor_reasons -> invoked r i d hs = [].
Proof.
  intros r i d hs H. cbn in H. destruct H as [H|[H|[H|[]]]]; subst r; reflexivity.
Qed.

Lemma handler_reason_split : forall r, is_handler_reason r = true <-> ~ In r reactor_reasons.
Proof.
  intro r; destruct r; cbn; split; intro H; try reflexivity; try discriminate H;
    try (intros [X|[X|[X|[]]]]; discriminate X);
    exfalso; apply H; auto.
Qed.

(* ---- composed with detect: the invoked list of the cause detected from the atoms ---- *)
Definition invoked_of (a : atoms) (hs : list hdecl) : list hdecl :=
  invoked (fst (detect a)) (snd (detect a)) (a_deleting a) hs.      (* cause.deleted = is_deletion_ongoing(body) *)

Lemma accepts_some : forall x r, reason_accepts (Some x) r = true -> r = x.
Proof. intros x r H. cbn in H. apply reason_eqb_eq in H. symmetry; exact H. Qed.

Lemma no_create_update_when_deleting : forall a hs h,
  a_deleting a = true -> In h (invoked_of a hs) -> h_reason h <> Some Create /\ h_reason h <> Some Update.
Proof.
  intros a hs h D H. apply invoked_sound in H. destruct H as [_ [_ [A _]]].
  destruct (precedence_converse a) as [_ [_ [_ [PC [_ [_ PU]]]]]].
  split; intro E; rewrite E in A; apply accepts_some in A.
  - destruct (PC A) as [_ [X _]]. rewrite D in X; discriminate X.
  - destruct (PU A) as [_ [X _]]. rewrite D in X; discriminate X.
Qed.

Lemma create_update_conditions : forall a hs h, In h (invoked_of a hs) ->
  (h_reason h = Some Create -> a_gone a = false /\ a_deleting a = false /\ a_old_none a = true) /\
  (h_reason h = Some Update -> a_gone a = false /\ a_deleting a = false /\ a_old_none a = false /\ a_diff_empty a = false).
Proof.
  intros a hs h H. apply invoked_sound in H. destruct H as [_ [_ [A _]]].
  destruct (precedence_converse a) as [_ [_ [_ [PC [_ [_ PU]]]]]].
  split; intro E; rewrite E in A; apply accepts_some in A; auto.
Qed.

Lemma delete_only_when_blocked : forall a hs h,
  In h (invoked_of a hs) -> h_reason h = Some Delete ->
  a_gone a = false /\ a_deleting a = true /\ a_blocked a = true.
Proof.
  intros a hs h H E. apply invoked_sound in H. destruct H as [_ [_ [A _]]].
  rewrite E in A. apply accepts_some in A.
  destruct (precedence_converse a) as [_ [_ [PD _]]]. exact (PD A).
Qed.

Lemma atoms_reactor_nothing : forall a hs,
  (a_gone a = true \/
   (a_deleting a = true /\ a_blocked a = false) \/
   (a_deleting a = false /\ a_old_none a = false /\ a_diff_empty a = true /\ a_initial a = false)) ->
  invoked_of a hs = [].
Proof.
  intros a hs H. unfold invoked_of. apply reactor_reasons_invoke_nothing.
  atoms_cases a; cbn in *; intuition (try discriminate); auto.
Qed.

(* resume-style handlers (initial=True): only on first sight, never mixed into creation, and on an
   object marked for deletion only with deleted=True *)
Lemma resume_only_first_sight : forall a hs h,
  In h (invoked_of a hs) -> truthy (h_initial h) = true ->
  a_initial a = true /\ fst (detect a) <> Create /\ (a_deleting a = true -> truthy (h_deleted h) = true).
Proof.
  intros a hs h H T. apply invoked_sound in H. destruct H as [_ [HR [_ [_ I]]]].
  destruct (I T) as [I1 I2]. rewrite initial_flag in I1.
  destruct (reason_eqb (fst (detect a)) Create) eqn:E; [discriminate I1|].
  split; [exact I1|]. split; [|exact I2].
  intro C. rewrite C in E. discriminate E.
Qed.

(* when the object is marked for deletion, only handlers declared for `delete` or for no specific
   reason (on.field, on.resume) can run *)
Lemma when_deleting_partial : forall a hs h,
  a_deleting a = true -> In h (invoked_of a hs) ->
  fst (detect a) = Delete /\ a_blocked a = true /\ a_gone a = false /\
  (h_reason h = Some Delete \/ h_reason h = None) /\ h_match h = true.
Proof.
  intros a hs h D H. apply invoked_sound in H. destruct H as [_ [HR [A [M _]]]].
  assert (R : fst (detect a) = Delete /\ a_blocked a = true /\ a_gone a = false).
  { revert HR D. atoms_cases a; cbn; intros; try discriminate; auto. }
  destruct R as [R [B G]]. repeat split; auto.
  destruct (h_reason h) as [x|]; [left | right; reflexivity].
  apply accepts_some in A. rewrite R in A. subst x. reflexivity.
Qed.

(* ... and on.field handlers really can: the statement "only deletion handlers run on an object
   marked for deletion" is false of the faithful model *)
Lemma field_under_delete_refuted : exists a hs h,
  a_deleting a = true /\ In h (invoked_of a hs) /\ h = decl_of_kind KField 0 true true.
Proof.
  exists (Build_atoms false true true false false false).
  exists [decl_of_kind KField 0 true true]. eexists. split; [reflexivity|]. split; [left; reflexivity | reflexivity].
Qed.

(* ---- the decorator table ---- *)
Lemma kind_reason : forall k key pm m,
  h_reason (decl_of_kind k key pm m) =
  match k with KCreate => Some Create | KUpdate => Some Update | KDelete _ => Some Delete | _ => None end.
Proof. intros k key pm m; destruct k; reflexivity. Qed.

Lemma kinds_exclusive : forall a hs k key pm m,
  In (decl_of_kind k key pm m) (invoked_of a hs) ->
  match k with
  | KCreate => a_gone a = false /\ a_deleting a = false /\ a_old_none a = true
  | KUpdate => a_gone a = false /\ a_deleting a = false /\ a_old_none a = false /\ a_diff_empty a = false
  | KDelete _ => a_gone a = false /\ a_deleting a = true /\ a_blocked a = true
  | KResume del => a_initial a = true /\ a_gone a = false /\
                   (a_deleting a = false -> a_old_none a = false) /\
                   (a_deleting a = true -> del = Some true /\ a_blocked a = true)
  | KField => fst (detect a) <> Noop /\ fst (detect a) <> Free /\ fst (detect a) <> Gone
  end.
Proof.
  intros a hs k key pm m H.
  destruct k.
  - apply (create_update_conditions a hs _ H). reflexivity.
  - apply (create_update_conditions a hs _ H). reflexivity.
  - apply invoked_sound in H. destruct H as [_ [HR _]].
    repeat split; intro E; rewrite E in HR; discriminate HR.
  - apply (delete_only_when_blocked a hs _ H). reflexivity.
  - pose proof (resume_only_first_sight a hs _ H eq_refl) as [I [NC DD]].
    apply invoked_sound in H. destruct H as [_ [HR _]].
    assert (DD' : a_deleting a = true -> deleted = Some true).
    { intro X. specialize (DD X). destruct deleted as [[|]|]; cbn in DD; try discriminate DD; reflexivity. }
    clear DD. revert I NC DD' HR.
    atoms_cases a; cbn; intros I NC DD HR; try discriminate; try (exfalso; apply NC; reflexivity);
      repeat split; auto; intros; try discriminate.
Qed.

(* ------------------------------------------------------------------------------------------ *)
(* Bodies: atoms computed from JSON                                                            *)
(* ------------------------------------------------------------------------------------------ *)
Definition deletion_ts (body : json) : option json := resolve body ["metadata"; "deletionTimestamp"].
Definition finalizers_of (body : json) : option json := resolve body ["metadata"; "finalizers"].

Lemma ongoing_spec : forall body,
  is_deletion_ongoing body = Ok true <-> exists v, deletion_ts body = Some v /\ v <> JNull.
Proof.
  intro body. unfold is_deletion_ongoing, deletion_ts, get_metadata, py_get. cbn.
  destruct body; cbn; try (split; [intro H; discriminate H | intros [v [H _]]; discriminate H]).
  destruct (lookup "metadata" kvs) as [m|] eqn:Lm; cbn.
  - destruct m; cbn; try (split; [intro H; discriminate H | intros [v [H _]]; discriminate H]).
    destruct (lookup "deletionTimestamp" kvs0) as [v|]; cbn.
    + split.
      * intro H. exists v. split; [reflexivity|]. intro E. subst v. cbn in H. discriminate H.
      * intros [w [H N]]. injection H as <-. destruct v; cbn; try reflexivity. exfalso; apply N; reflexivity.
    + split; [intro H; discriminate H | intros [v [H _]]; discriminate H].
  - split; [intro H; discriminate H | intros [v [H _]]; discriminate H].
Qed.

Lemma ongoing_false_spec : forall body,
  is_deletion_ongoing body = Ok false -> deletion_ts body = None \/ deletion_ts body = Some JNull.
Proof.
  intro body. unfold is_deletion_ongoing, deletion_ts, get_metadata, py_get. cbn.
  destruct body; cbn; try (intro H; discriminate H).
  destruct (lookup "metadata" kvs) as [m|]; cbn; [|intros _; left; reflexivity].
  destruct m; cbn; try (intro H; discriminate H).
  destruct (lookup "deletionTimestamp" kvs0) as [v|]; cbn; [|intros _; left; reflexivity].
  destruct v; cbn; intro H; try discriminate H. right; reflexivity.
Qed.

Lemma is_fin_In : forall fin l, existsb (is_fin fin) l = true <-> In (JStr fin) l.
Proof.
  intros fin l. rewrite existsb_exists. split.
  - intros [x [I F]]. destruct x; cbn in F; try discriminate F. apply String.eqb_eq in F. subst s. exact I.
  - intro I. exists (JStr fin). split; [exact I|]. cbn. apply String.eqb_refl.
Qed.

(* for a finalizers LIST (what the API server delivers): blocked iff the own finalizer is an element *)
Lemma blocked_list_partial : forall fin body l, finalizers_of body = Some (JList l) ->
  is_deletion_blocked fin body = Ok (existsb (is_fin fin) l) /\
  (is_deletion_blocked fin body = Ok true <-> In (JStr fin) l).
Proof.
  intros fin body l H. unfold finalizers_of in H. cbn in H.
  destruct body; try discriminate H.
  destruct (lookup "metadata" kvs) as [m|] eqn:Lm; try discriminate H.
  destruct m; try discriminate H.
  destruct (lookup "finalizers" kvs0) as [v|] eqn:Lf; try discriminate H.
  injection H as ->.
  assert (E : is_deletion_blocked fin (JObj kvs) = Ok (existsb (is_fin fin) l)).
  { unfold is_deletion_blocked, get_metadata, py_get. cbn. rewrite Lm. cbn. rewrite Lf. reflexivity. }
  split; [exact E|]. rewrite E. rewrite <- is_fin_In. split; intro X; [injection X as ->; reflexivity | rewrite X; reflexivity].
Qed.

(* no finalizers field under a mapping metadata: not blocked *)
Lemma blocked_absent : forall fin body b, is_deletion_blocked fin body = Ok b -> finalizers_of body = None -> b = false.
Proof.
  intros fin body b H N. unfold is_deletion_blocked, get_metadata, py_get, finalizers_of in *. cbn in *.
  destruct body; cbn in H; try discriminate H.
  destruct (lookup "metadata" kvs) as [m|]; cbn in H.
  - destruct m; cbn in H; try discriminate H.
    destruct (lookup "finalizers" kvs0) as [v|]; [discriminate N|]. cbn in H. injection H as <-. reflexivity.
  - cbn in H. injection H as <-. reflexivity.
Qed.

(* the unguarded statement "blocked iff the finalizer is one of the body's finalizers" is false of the
   faithful model: Python's `in` on a str is a substring test *)
Lemma blocked_exact_refuted : exists fin body s,
  finalizers_of body = Some (JStr s) /\ s <> fin /\ is_deletion_blocked fin body = Ok true.
Proof.
  exists "own", (JObj [("metadata", JObj [("finalizers", JStr "not-own-at-all")])]), "not-own-at-all".
  split; [reflexivity|]. split; [discriminate | reflexivity].
Qed.

(* ---- the functions read nothing but metadata.deletionTimestamp and metadata.finalizers ---- *)
Lemma c05_lookup_filter_keys : forall (p : string -> bool) (k : string) (l : list (string * json)),
  lookup k (filter_keys p l) = if p k then lookup k l else None.
Proof.
  intros p k l; induction l as [|[k' v] l IH]; cbn; [destruct (p k); reflexivity|].
  destruct (p k') eqn:P; cbn.
  - destruct (String.eqb k k') eqn:E; [apply String.eqb_eq in E; subst k'; rewrite P; reflexivity | exact IH].
  - destruct (String.eqb k k') eqn:E; [apply String.eqb_eq in E; subst k'; rewrite P in IH |- *; exact IH | exact IH].
Qed.

Lemma core_ongoing : forall body, is_deletion_ongoing (core_body body) = is_deletion_ongoing body.
Proof.
  intro body. destruct body; try reflexivity.
  unfold is_deletion_ongoing, get_metadata, core_body. cbn.
  destruct (lookup "metadata" kvs) as [m|]; cbn; [|reflexivity].
  destruct m; cbn; try reflexivity.
  rewrite c05_lookup_filter_keys. cbn. reflexivity.
Qed.

Lemma core_blocked : forall fin body, is_deletion_blocked fin (core_body body) = is_deletion_blocked fin body.
Proof.
  intros fin body. destruct body; try reflexivity.
  unfold is_deletion_blocked, get_metadata, core_body. cbn.
  destruct (lookup "metadata" kvs) as [m|]; cbn; [|reflexivity].
  destruct m; cbn; try reflexivity.
  rewrite c05_lookup_filter_keys. cbn. reflexivity.
Qed.

Lemma core_detect_body : forall fin ev body on de ini,
  detect_body fin ev (core_body body) on de ini = detect_body fin ev body on de ini.
Proof.
  intros. unfold detect_body, atoms_of_body. rewrite core_ongoing, core_blocked. reflexivity.
Qed.

Lemma core_cycle : forall fin ev body on de ini cons hs,
  cycle fin ev (core_body body) on de ini cons hs = cycle fin ev body on de ini cons hs.
Proof.
  intros. unfold cycle. rewrite core_detect_body, core_ongoing, core_blocked. reflexivity.
Qed.

(* detect_body = detect on the atoms read from the body (DELETED is decided before the body is read) *)
Lemma from_body : forall fin ev body on de ini r i,
  detect_body fin ev body on de ini = Ok (r, i) ->
  (ev = EvDeleted /\ r = Gone /\ i = ini) \/
  (ev <> EvDeleted /\ exists dl bl,
      is_deletion_ongoing body = Ok dl /\ is_deletion_blocked fin body = Ok bl /\
      (r, i) = detect (Build_atoms false dl bl on de ini)).
Proof.
  intros fin ev body on de ini r i H. unfold detect_body in H.
  destruct ev; cbn in H; try (injection H as <- <-; left; repeat split; reflexivity);
    right; (split; [discriminate|]);
    unfold atoms_of_body in H;
    destruct (is_deletion_ongoing body) as [dl| | |]; cbn in H; try discriminate H;
    destruct (is_deletion_blocked fin body) as [bl| | |]; cbn in H; try discriminate H;
    exists dl, bl; repeat split; injection H as H; symmetry; exact H.
Qed.

(* ------------------------------------------------------------------------------------------ *)
(* One pass of process_resource_causes over a real body                                        *)
(* ------------------------------------------------------------------------------------------ *)

Lemma cycle_sound : forall fin ev body on de ini cons hs out h,
  cycle fin ev body on de ini cons hs = Ok out -> In h (co_invoked out) ->
  exists r i dl bl,
    detect_body fin ev body on de ini = Ok (r, i) /\
    is_deletion_ongoing body = Ok dl /\ is_deletion_blocked fin body = Ok bl /\
    co_cause out = Some (r, i) /\ cons = true /\ prematch_any hs = true /\
    (requires_finalizer hs = true -> bl = true \/ dl = true) /\
    (requires_finalizer hs = false -> bl = false) /\
    In h (invoked r i dl hs).
Proof.
  intros fin ev body on de ini cons hs out h H I. unfold cycle in H.
  destruct (match hs with [] => Ok None | _ :: _ => bind (detect_body fin ev body on de ini) (fun c => Ok (Some c)) end)
    as [cc| | |] eqn:CC; cbn in H; try discriminate H.
  destruct (is_deletion_ongoing body) as [dl| | |] eqn:DO; cbn in H; try discriminate H.
  destruct (is_deletion_blocked fin body) as [bl| | |] eqn:BL; cbn in H; try discriminate H.
  assert (DB : forall r i, cc = Some (r, i) -> detect_body fin ev body on de ini = Ok (r, i)).
  { intros r i E. subst cc. destruct hs; [discriminate CC|].
    destruct (detect_body fin ev body on de ini) as [c| | |]; cbn in CC; try discriminate CC.
    injection CC as ->. reflexivity. }
  destruct (prematch_any hs) eqn:PM, cc as [[r i]|], (requires_finalizer hs) eqn:RF, bl, dl, cons; cbn in H;
    injection H as <-; cbn in I; try contradiction;
    exists r, i; eexists; eexists; (split; [apply DB; reflexivity|]);
    repeat split; try reflexivity; auto; try (intro; discriminate).
Qed.

(* the invoked list of a pass, expressed on the atoms of the body *)
Lemma cycle_atoms : forall fin ev body on de ini cons hs out h,
  cycle fin ev body on de ini cons hs = Ok out -> In h (co_invoked out) ->
  exists dl bl,
    is_deletion_ongoing body = Ok dl /\ is_deletion_blocked fin body = Ok bl /\
    In h (invoked_of (Build_atoms (is_deleted_event ev) dl bl on de ini) hs).
Proof.
  intros fin ev body on de ini cons hs out h H I.
  destruct (cycle_sound _ _ _ _ _ _ _ _ _ _ H I) as [r [i [dl [bl [DB [DO [BL [_ [_ [_ [_ [_ IN]]]]]]]]]]]].
  exists dl, bl. split; [exact DO|]. split; [exact BL|].
  apply from_body in DB. destruct DB as [[E [-> ->]]|[NE [dl' [bl' [DO' [BL' D]]]]]].
  - subst ev. cbn in IN. contradiction.
  - rewrite DO in DO'. injection DO' as <-. rewrite BL in BL'. injection BL' as <-.
    unfold invoked_of. cbn [a_deleting].
    assert (G : is_deleted_event ev = false) by (destruct ev; try reflexivity; exfalso; apply NE; reflexivity).
    rewrite G. rewrite <- D. cbn. exact IN.
Qed.

(* creation/update handlers are never invoked on a body that carries a deletionTimestamp *)
Lemma cycle_no_create_update_when_deleting : forall fin ev body on de ini cons hs out h,
  cycle fin ev body on de ini cons hs = Ok out -> In h (co_invoked out) ->
  (h_reason h = Some Create \/ h_reason h = Some Update) ->
  ev <> EvDeleted /\ (deletion_ts body = None \/ deletion_ts body = Some JNull).
Proof.
  intros fin ev body on de ini cons hs out h H I K.
  destruct (cycle_atoms _ _ _ _ _ _ _ _ _ _ H I) as [dl [bl [DO [BL IN]]]].
  destruct (create_update_conditions _ _ _ IN) as [C U].
  assert (X : is_deleted_event ev = false /\ dl = false).
  { destruct K as [K|K]; [destruct (C K) as [A [B _]] | destruct (U K) as [A [B _]]]; cbn in A, B; auto. }
  destruct X as [G ->]. split; [intro E; subst ev; discriminate G|].
  apply ongoing_false_spec; exact DO.
Qed.

(* deletion handlers: only on a non-DELETED event for a body with a deletionTimestamp that the own
   finalizer still holds *)
Lemma cycle_delete_only_when_blocked : forall fin ev body on de ini cons hs out h,
  cycle fin ev body on de ini cons hs = Ok out -> In h (co_invoked out) -> h_reason h = Some Delete ->
  ev <> EvDeleted /\
  (exists v, deletion_ts body = Some v /\ v <> JNull) /\
  is_deletion_blocked fin body = Ok true /\
  (forall l, finalizers_of body = Some (JList l) -> In (JStr fin) l).
Proof.
  intros fin ev body on de ini cons hs out h H I K.
  destruct (cycle_atoms _ _ _ _ _ _ _ _ _ _ H I) as [dl [bl [DO [BL IN]]]].
  destruct (delete_only_when_blocked _ _ _ IN K) as [G [D B]]. cbn in G, D, B. subst dl bl.
  split; [intro E; subst ev; discriminate G|].
  split; [apply ongoing_spec; exact DO|]. split; [exact BL|].
  intros l F. apply (blocked_list_partial fin body l F). exact BL.
Qed.

(* gone / released / no-op events invoke no change handler at all *)
Lemma cycle_reactor_nothing : forall fin ev body on de ini cons hs out,
  cycle fin ev body on de ini cons hs = Ok out ->
  (ev = EvDeleted \/
   (is_deletion_ongoing body = Ok true /\ is_deletion_blocked fin body = Ok false) \/
   (is_deletion_ongoing body = Ok false /\ on = false /\ de = true /\ ini = false)) ->
  co_invoked out = [].
Proof.
  intros fin ev body on de ini cons hs out H C.
  destruct (co_invoked out) as [|h l] eqn:E; [reflexivity|]. exfalso.
  assert (I : In h (co_invoked out)) by (rewrite E; left; reflexivity).
  destruct (cycle_atoms _ _ _ _ _ _ _ _ _ _ H I) as [dl [bl [DO [BL IN]]]].
  rewrite atoms_reactor_nothing in IN; [contradiction|]. cbn.
  destruct C as [C|[[C1 C2]|[C1 [C2 [C3 C4]]]]].
  - left. subst ev. reflexivity.
  - right; left. rewrite DO in C1. injection C1 as ->. rewrite BL in C2. injection C2 as ->. auto.
  - right; right. rewrite DO in C1. injection C1 as ->. subst. auto.
Qed.

(* resume handlers of a pass *)
Lemma cycle_resume : forall fin ev body on de ini cons hs out h,
  cycle fin ev body on de ini cons hs = Ok out -> In h (co_invoked out) -> truthy (h_initial h) = true ->
  ini = true /\ (is_deletion_ongoing body = Ok false -> on = false) /\
  ((exists v, deletion_ts body = Some v /\ v <> JNull) -> truthy (h_deleted h) = true).
Proof.
  intros fin ev body on de ini cons hs out h H I T.
  destruct (cycle_atoms _ _ _ _ _ _ _ _ _ _ H I) as [dl [bl [DO [BL IN]]]].
  destruct (resume_only_first_sight _ _ _ IN T) as [A [B C]]. cbn in A, C.
  split; [exact A|]. split.
  - intro F. rewrite DO in F. injection F as ->. destruct on; [|reflexivity]. exfalso.
    apply invoked_sound in IN. destruct IN as [_ [HR _]].
    revert B HR. destruct (is_deleted_event ev), bl, de, ini; cbn; intros B HR; try discriminate HR; apply B; reflexivity.
  - intro V. apply ongoing_spec in V. rewrite DO in V. injection V as ->. apply C; reflexivity.
Qed.

(* a pass that adds or removes the finalizer invokes nothing; at most one cause per pass by construction *)
Lemma cycle_finalizer_pass_invokes_nothing : forall fin ev body on de ini cons hs out,
  cycle fin ev body on de ini cons hs = Ok out -> co_block out = true \/ co_allow out = true -> co_invoked out = [].
Proof.
  intros fin ev body on de ini cons hs out H C.
  destruct (co_invoked out) as [|h l] eqn:E; [reflexivity|]. exfalso.
  assert (I : In h (co_invoked out)) by (rewrite E; left; reflexivity).
  unfold cycle in H.
  destruct (match hs with [] => Ok None | _ :: _ => bind (detect_body fin ev body on de ini) (fun c => Ok (Some c)) end)
    as [cc| | |]; cbn in H; try discriminate H.
  destruct (is_deletion_ongoing body) as [dl| | |]; cbn in H; try discriminate H.
  destruct (is_deletion_blocked fin body) as [bl| | |]; cbn in H; try discriminate H.
  destruct (prematch_any hs), cc as [[r i]|], (requires_finalizer hs), bl, dl, cons; cbn in H;
    injection H as <-; cbn in *; try contradiction; destruct C as [C|C]; discriminate C.
Qed.

(* ------------------------------------------------------------------------------------------ *)
(* finalizers.block_deletion / allow_deletion establish what the detector then reads           *)
(* ------------------------------------------------------------------------------------------ *)
Lemma c05_lookup_set_same : forall (k : string) (v : json) l, lookup k (set k v l) = Some v.
Proof.
  intros k v l; induction l as [|[k' v'] l IH]; cbn.
  - rewrite String.eqb_refl; reflexivity.
  - destruct (String.eqb k k') eqn:E; cbn.
    + rewrite String.eqb_refl; reflexivity.
    + rewrite E; exact IH.
Qed.

Lemma c05_lookup_del_same : forall (k : string) (l : list (string * json)), lookup k (del k l) = None.
Proof.
  intros k l; induction l as [|[k' v'] l IH]; cbn; [reflexivity|].
  destruct (String.eqb k k') eqn:E; cbn; [exact IH | rewrite E; exact IH].
Qed.

Lemma c05_set_not_nil : forall (k : string) (v : json) l, set k v l <> [].
Proof. intros k v l; destruct l as [|[k' v'] l]; cbn; [discriminate|]. destruct (String.eqb k k'); discriminate. Qed.

Lemma block_then_blocked : forall fin body body',
  block_deletion fin body = Ok body' -> is_deletion_blocked fin body' = Ok true.
Proof.
  intros fin body body' H. unfold block_deletion in H.
  destruct (get_metadata body) as [m| | |] eqn:GM; cbn in H; try discriminate H.
  destruct (py_get m "finalizers" (JList [])) as [fs| | |] eqn:PG; cbn in H; try discriminate H.
  destruct (py_in fin fs) as [p| | |] eqn:PI; cbn in H; try discriminate H.
  destruct p.
  - injection H as <-. unfold is_deletion_blocked. rewrite GM. cbn. rewrite PG. cbn. exact PI.
  - destruct fs; try discriminate H.
    unfold set_finalizers in H. destruct body; try discriminate H.
    destruct (match lookup "metadata" kvs with Some m0 => m0 | None => JObj [] end) eqn:MM; try discriminate H.
    injection H as <-.
    unfold is_deletion_blocked, get_metadata, py_get. cbn.
    rewrite c05_lookup_set_same. cbn. rewrite c05_lookup_set_same. cbn.
    rewrite existsb_app. cbn. rewrite String.eqb_refl. rewrite orb_true_r. reflexivity.
Qed.

Lemma filter_not_fin : forall fin l, existsb (is_fin fin) (filter (fun x => negb (is_fin fin x)) l) = false.
Proof.
  intros fin l; induction l as [|x l IH]; cbn; [reflexivity|].
  destruct (is_fin fin x) eqn:E; cbn; [exact IH | rewrite E; exact IH].
Qed.

Lemma allow_then_unblocked : forall fin body body',
  allow_deletion fin body = Ok body' -> is_deletion_blocked fin body' = Ok false.
Proof.
  intros fin body body' H. unfold allow_deletion in H.
  destruct body; try discriminate H.
  unfold get_metadata in H. cbn in H.
  destruct (match lookup "metadata" kvs with Some m => m | None => JObj [] end) eqn:MM; try discriminate H.
  rename kvs0 into mk. unfold py_get in H. cbn in H.
  remember (match lookup "finalizers" mk with Some v => v | None => JList [] end) as fs eqn:FS.
  destruct (py_in fin fs) as [p| | |] eqn:PI; cbn in H; try discriminate H.
  (* the value written back, and the fact that it does not contain the finalizer *)
  assert (W : exists fs', (if p then match fs with JList l => Ok (JList (filter (fun x => negb (is_fin fin x)) l)) | _ => ErrType end
                           else Ok fs) = Ok fs' /\ py_in fin fs' = Ok false).
  { destruct p.
    - destruct fs; try (cbn in H; discriminate H). eexists; split; [reflexivity|]. cbn. rewrite filter_not_fin. reflexivity.
    - exists fs; split; [reflexivity | exact PI]. }
  destruct W as [fs' [W1 W2]]. rewrite W1 in H. cbn in H. injection H as <-.
  unfold is_deletion_blocked, get_metadata, py_get. cbn.
  destruct (has "metadata" kvs) eqn:HM.
  - (* metadata present *)
    unfold has in HM. destruct (lookup "metadata" kvs) as [m|] eqn:LM; [|discriminate HM]. subst m.
    destruct (has "finalizers" mk) eqn:HF.
    + destruct (py_truthy fs') eqn:PT.
      * destruct (set "finalizers" fs' mk) eqn:SE.
        { exfalso. exact (c05_set_not_nil _ _ _ SE). }
        rewrite <- SE. rewrite c05_lookup_set_same. cbn. rewrite c05_lookup_set_same. cbn. exact W2.
      * destruct (del "finalizers" mk) eqn:DE.
        { rewrite c05_lookup_del_same. cbn. reflexivity. }
        rewrite <- DE. rewrite c05_lookup_set_same. cbn. rewrite c05_lookup_del_same. cbn. reflexivity.
    + unfold has in HF. destruct (lookup "finalizers" mk) eqn:LF; [discriminate HF|].
      destruct mk as [|kv mk'] eqn:MK.
      * rewrite c05_lookup_del_same. cbn. reflexivity.
      * rewrite <- MK in LF |- *. rewrite c05_lookup_set_same. cbn. rewrite LF. cbn. reflexivity.
  - unfold has in HM. destruct (lookup "metadata" kvs) as [m|] eqn:LM; [discriminate HM|].
    cbn. reflexivity.
Qed.

(* ------------------------------------------------------------------------------------------ *)
(* Non-vacuity: the hypotheses of the theorems above are satisfiable on concrete bodies        *)
(* ------------------------------------------------------------------------------------------ *)
Definition ex_fin : string := "kopf.zalando.org/KopfFinalizerMarker".
Definition ex_body_deleting : json :=
  JObj [("metadata", JObj [("name", JStr "o"); ("deletionTimestamp", JStr "2020-01-01T00:00:00Z");
                           ("finalizers", JList [JStr "other"; JStr ex_fin])]);
        ("spec", JObj [("x", JNum 1)])].
Definition ex_body_live : json :=
  JObj [("metadata", JObj [("name", JStr "o"); ("finalizers", JList [JStr ex_fin])]); ("spec", JObj [("x", JNum 1)])].
Definition ex_handlers : list hdecl :=
  [decl_of_kind KCreate 0 true true; decl_of_kind KUpdate 1 true true; decl_of_kind (KDelete None) 2 true true;
   decl_of_kind (KResume None) 3 true true; decl_of_kind KField 4 true true; decl_of_kind (KResume (Some true)) 5 true true].

Example ex_delete_pass :
  exists out, cycle ex_fin EvModified ex_body_deleting false false true true ex_handlers = Ok out /\
              keys_of (co_invoked out) = [2; 4; 5]%nat /\ co_cause out = Some (Delete, true).
Proof. eexists. split; [vm_compute; reflexivity|]. split; reflexivity. Qed.

Example ex_update_pass :
  exists out, cycle ex_fin EvModified ex_body_live false false true true ex_handlers = Ok out /\
              keys_of (co_invoked out) = [1; 3; 4; 5]%nat /\ co_cause out = Some (Update, true).
Proof. eexists. split; [vm_compute; reflexivity|]. split; reflexivity. Qed.

Example ex_create_pass :
  exists out, cycle ex_fin EvNone ex_body_live true false true true ex_handlers = Ok out /\
              keys_of (co_invoked out) = [0; 4]%nat /\ co_cause out = Some (Create, false).
Proof. eexists. split; [vm_compute; reflexivity|]. split; reflexivity. Qed.

Example ex_noop_pass :
  exists out, cycle ex_fin EvModified ex_body_live false true false true ex_handlers = Ok out /\
              co_invoked out = [] /\ co_cause out = Some (Noop, false).
Proof. eexists. split; [vm_compute; reflexivity|]. split; reflexivity. Qed.

Example ex_malformed_body : is_deletion_ongoing (JObj [("metadata", JNull)]) = ErrType /\
                            is_deletion_blocked ex_fin (JObj [("metadata", JObj [("finalizers", JNull)])]) = ErrType.
Proof. split; reflexivity. Qed.

(* ========================================================================================== *)
(* The closed loop                                                                            *)
(* ========================================================================================== *)

(* the JSON-level pass is the atoms-level pass on the atoms read from the body *)
Lemma cycle_is_cycle_atoms : forall fin ev body on de ini cons hs out,
  cycle fin ev body on de ini cons hs = Ok out ->
  exists dl bl, is_deletion_ongoing body = Ok dl /\ is_deletion_blocked fin body = Ok bl /\
                out = cycle_on_atoms (Build_atoms (is_deleted_event ev) dl bl on de ini) cons hs.
Proof.
  intros fin ev body on de ini cons hs out H. unfold cycle in H.
  destruct (is_deletion_ongoing body) as [dl| | |] eqn:DO.
  2-4: (destruct (match hs with [] => Ok None | _ :: _ => bind (detect_body fin ev body on de ini) (fun c => Ok (Some c)) end);
        cbn in H; discriminate H).
  destruct (is_deletion_blocked fin body) as [bl| | |] eqn:BL.
  2-4: (destruct (match hs with [] => Ok None | _ :: _ => bind (detect_body fin ev body on de ini) (fun c => Ok (Some c)) end);
        cbn in H; discriminate H).
  exists dl, bl. split; [reflexivity|]. split; [reflexivity|].
  assert (DB : detect_body fin ev body on de ini = Ok (detect (Build_atoms (is_deleted_event ev) dl bl on de ini))).
  { unfold detect_body, atoms_of_body. rewrite DO, BL. cbn. destruct ev; reflexivity. }
  rewrite DB in H. unfold cycle_on_atoms, pass_cause. cbn [a_blocked a_deleting].
  destruct hs as [|h0 hs']; cbn [bind] in H.
  - cbn in H. cbn. destruct bl; cbn in *; injection H as <-; reflexivity.
  - remember (h0 :: hs') as hs.
    destruct (detect (Build_atoms (is_deleted_event ev) dl bl on de ini)) as [r i] eqn:DT.
    destruct (prematch_any hs), (requires_finalizer hs), bl, dl, cons; cbn in H |- *; injection H as <-; reflexivity.
Qed.

Lemma pass_cause_some : forall a hs c add rem,
  pass_cause a hs = (Some c, add, rem) -> c = detect a /\ prematch_any hs = true /\ add = false /\ rem = false.
Proof.
  intros a hs c add rem H. unfold pass_cause in H.
  destruct hs as [|h0 hs'].
  - cbn in H. destruct (a_blocked a); cbn in H; discriminate H.
  - remember (h0 :: hs') as hs. destruct (prematch_any hs).
    + destruct (requires_finalizer hs), (a_blocked a), (a_deleting a); cbn in H;
        try discriminate H; injection H as H1 H2 H3; subst c add rem; auto.
    + destruct (a_blocked a); cbn in H; discriminate H.
Qed.

(* pass_effects and cycle_on_atoms describe the same pass *)
Lemma pass_effects_cycle : forall a cons done nodelays ran hs,
  let fx := pass_effects a cons done nodelays ran hs in
  let out := cycle_on_atoms a cons hs in
  fx_cause fx = co_cause out /\ fx_block fx = co_block out /\
  (forall h, In h (fx_ran fx) -> In h (co_invoked out)) /\
  (co_allow out = true -> fx_allow fx = true).
Proof.
  intros a cons done nodelays ran hs. cbn zeta. unfold pass_effects, cycle_on_atoms.
  destruct (pass_cause a hs) as [[[[r i]|] add] rem].
  - destruct cons; [destruct (is_handler_reason r) eqn:HR|]; cbn.
    + split; [reflexivity|]. split; [reflexivity|]. split.
      * intros h H. apply filter_In in H. apply H.
      * intro E; rewrite E; reflexivity.
    + split; [reflexivity|]. split; [reflexivity|]. split.
      * intros h [].
      * intro E; rewrite E; reflexivity.
    + split; [reflexivity|]. split; [reflexivity|]. split; [intros h [] | intro E; exact E].
  - cbn. split; [reflexivity|]. split; [reflexivity|]. split; [intros h [] | intro E; rewrite E; reflexivity].
Qed.

Lemma pass_effects_ran : forall a cons done nodelays ran hs h,
  In h (fx_ran (pass_effects a cons done nodelays ran hs)) ->
  fx_cause (pass_effects a cons done nodelays ran hs) = Some (detect a) /\ cons = true /\ In h (invoked_of a hs).
Proof.
  intros a cons done nodelays ran hs h H. unfold pass_effects in *.
  destruct (pass_cause a hs) as [[[[r i]|] add] rem] eqn:PC; [|cbn in H; contradiction].
  apply pass_cause_some in PC. destruct PC as [E _].
  destruct cons; [|cbn in H; contradiction].
  destruct (is_handler_reason r); cbn in H |- *; [|contradiction].
  apply filter_In in H. destruct H as [H _].
  rewrite E. split; [reflexivity|]. split; [reflexivity|].
  unfold invoked_of. rewrite <- E. cbn. exact H.
Qed.

(* an invocation is good when it is what the decision list and the selection give for the event's own
   object and the memory of that moment *)
Definition inv_good (iv : invocation) : Prop :=
  let a := atoms_of_snap (iv_ev iv) (iv_snap iv) (iv_mem iv) in
  iv_reason iv = fst (detect a) /\ iv_initial iv = snd (detect a) /\ exists hs, In (iv_h iv) (invoked_of a hs).

Lemma step_log : forall w l w', step w l = Some w' ->
  exists added, w_log w' = w_log w ++ added /\ Forall inv_good added.
Proof.
  intros w l w' H. destruct l.
  1-4: (cbn in H; destruct (w_obj w); [|discriminate H]; injection H as <-; exists []; cbn; rewrite app_nil_r; split; auto).
  - cbn in H. injection H as <-. exists []. cbn. rewrite app_nil_r. split; auto.
  - unfold step in H. injection H as <-. cbn [w_log]. eexists. split; [reflexivity|].
    apply Forall_forall. intros iv I. apply in_map_iff in I. destruct I as [h [E I]]. subst iv.
    apply pass_effects_ran in I. destruct I as [C [_ IN]].
    unfold inv_good. cbn [iv_reason iv_initial iv_ev iv_snap iv_mem iv_h]. rewrite C.
    split; [destruct (detect _); reflexivity|]. split; [destruct (detect _); reflexivity|]. exists hs. exact IN.
Qed.

(* every invocation of every history — any interleaving of user edits, deletion requests, foreign
   finalizers, stripped annotations, restarts and processed events with arbitrary (also stale) objects,
   arbitrary registries, filter outcomes and handler outcomes — is good *)
Lemma history_good : forall tr w0 w, Forall inv_good (w_log w0) -> run w0 tr = Some w -> Forall inv_good (w_log w).
Proof.
  induction tr as [|l tr IH]; intros w0 w G H; cbn in H.
  - injection H as <-. exact G.
  - destruct (step w0 l) as [w1|] eqn:S; [|discriminate H].
    apply (IH w1 w); [|exact H].
    destruct (step_log _ _ _ S) as [added [E GA]]. rewrite E. apply Forall_app. split; assumption.
Qed.

(* what a good invocation means in terms of the server-side object the event carried *)
Lemma inv_good_spec : forall iv, inv_good iv ->
  let s := iv_snap iv in
  is_handler_reason (iv_reason iv) = true /\
  guard (iv_reason iv) (atoms_of_snap (iv_ev iv) s (iv_mem iv)) = true /\
  h_match (iv_h iv) = true /\
  (h_reason (iv_h iv) = Some Create ->
     iv_ev iv <> EvDeleted /\ ao_deleting s = false /\ ao_last s = None /\ iv_reason iv = Create /\ iv_initial iv = false) /\
  (h_reason (iv_h iv) = Some Update ->
     iv_ev iv <> EvDeleted /\ ao_deleting s = false /\ iv_reason iv = Update /\
     exists l, ao_last s = Some l /\ l <> ao_ess s) /\
  (h_reason (iv_h iv) = Some Delete ->
     iv_ev iv <> EvDeleted /\ ao_deleting s = true /\ ao_own s = true /\ iv_reason iv = Delete) /\
  (truthy (h_initial (iv_h iv)) = true ->
     first_sight (iv_mem iv) = true /\ iv_initial iv = true /\ iv_reason iv <> Create /\
     (ao_deleting s = true -> truthy (h_deleted (iv_h iv)) = true)) /\
  (ao_deleting s = true -> iv_reason iv = Delete /\ ao_own s = true /\
                           (h_reason (iv_h iv) = Some Delete \/ h_reason (iv_h iv) = None)).
Proof.
  intros iv [R [I [hs IN]]]. cbn zeta.
  set (a := atoms_of_snap (iv_ev iv) (iv_snap iv) (iv_mem iv)) in *.
  pose proof (invoked_sound _ _ _ _ _ IN) as [_ [HR [_ [M _]]]].
  assert (NE : a_gone a = false -> iv_ev iv <> EvDeleted).
  { intros G E. unfold a, atoms_of_snap in G. cbn in G. rewrite E in G. discriminate G. }
  split; [rewrite R; exact HR|]. split; [rewrite R; apply detect_guard|]. split; [exact M|].
  destruct (create_update_conditions _ _ _ IN) as [C U].
  split; [|split; [|split; [|split]]].
  - intro K. destruct (C K) as [G [D O]]. cbn in D, O.
    assert (RC : fst (detect a) = Create) by (apply (precedence a); assumption).
    split; [apply NE; exact G|]. split; [exact D|]. split.
    + destruct (ao_last (iv_snap iv)); [discriminate O | reflexivity].
    + split; [rewrite R; exact RC|]. rewrite I, initial_flag, RC. reflexivity.
  - intro K. destruct (U K) as [G [D [O E]]]. cbn in D, O, E.
    split; [apply NE; exact G|]. split; [exact D|]. split.
    + rewrite R. apply (precedence a); assumption.
    + destruct (ao_last (iv_snap iv)) as [l|]; [|discriminate O]. exists l. split; [reflexivity|].
      cbn in E. intro X. subst l. rewrite Nat.eqb_refl in E. discriminate E.
  - intro K. destruct (delete_only_when_blocked _ _ _ IN K) as [G [D B]]. cbn in D, B.
    split; [apply NE; exact G|]. split; [exact D|]. split; [exact B|].
    rewrite R. apply (precedence a); assumption.
  - intro T. destruct (resume_only_first_sight _ _ _ IN T) as [A [B C']]. cbn in A, C'.
    split; [exact A|]. split.
    + rewrite I, initial_flag. destruct (reason_eqb (fst (detect a)) Create) eqn:E; [|exact A].
      apply reason_eqb_eq in E. contradiction.
    + split; [rewrite R; exact B | exact C'].
  - intro D. destruct (when_deleting_partial a hs _ D IN) as [RD [B [_ [K _]]]].
    split; [rewrite R; exact RD|]. split; [exact B | exact K].
Qed.

(* ---- what the operator must NOT change ---- *)
Lemma proc_preserves : forall w ev snap hs c d n ran w',
  step w (Proc ev snap hs c d n ran) = Some w' ->
  match w_obj w with
  | None => w_obj w' = None                                     (* no resurrection *)
  | Some o =>
      w_obj w' = None \/
      exists o', w_obj w' = Some o' /\
        ao_ess o' = ao_ess o /\ ao_deleting o' = ao_deleting o /\ ao_foreign o' = ao_foreign o /\
        (ao_last o' = ao_last o \/ ao_last o' = Some (ao_ess snap)) /\      (* stored state: kept or overwritten, never cleared *)
        (ao_last o <> None -> ao_last o' <> None)
  end.
Proof.
  intros w ev snap hs c d n ran w' H. cbn in H. injection H as <-. cbn [w_obj].
  destruct (w_obj w) as [o|]; [|destruct (is_deleted_event ev); reflexivity].
  destruct (is_deleted_event ev).
  - right. exists o. repeat split; auto.
  - unfold settle. match goal with |- context [if ?b then None else Some ?x] => destruct b; [left; reflexivity|right; exists x] end.
    split; [reflexivity|]. cbn. repeat split; auto.
    + destruct (fx_store _); [right | left]; reflexivity.
    + intro N. destruct (fx_store _); [discriminate | exact N].
Qed.

Definition is_drop (l : label) : bool := match l with EnvDropStored => true | _ => false end.

Lemma step_keeps_stored : forall w l w' o, is_drop l = false ->
  step w l = Some w' -> w_obj w = Some o -> ao_last o <> None ->
  w_obj w' = None \/ exists o', w_obj w' = Some o' /\ ao_last o' <> None.
Proof.
  intros w l w' o ND S O L. destruct l; try discriminate ND.
  - cbn in S. rewrite O in S. injection S as <-. right. eexists. split; [reflexivity|]. exact L.
  - cbn in S. rewrite O in S. injection S as <-. cbn. unfold settle.
    match goal with |- context [if ?b then None else Some ?x] => destruct b; [left; reflexivity|right; exists x] end.
    split; [reflexivity | exact L].
  - cbn in S. rewrite O in S. injection S as <-. cbn. unfold settle.
    match goal with |- context [if ?b then None else Some ?x] => destruct b; [left; reflexivity|right; exists x] end.
    split; [reflexivity | exact L].
  - cbn in S. injection S as <-. right. exists o. split; [exact O | exact L].
  - pose proof (proc_preserves _ _ _ _ _ _ _ _ _ S) as P. rewrite O in P.
    destruct P as [P|[o' [P1 [_ [_ [_ [_ P2]]]]]]]; [left; exact P | right; exists o'; split; [exact P1 | exact (P2 L)]].
Qed.

(* once a last-handled state is stored it stays stored for the object's whole life, whatever users, other
   controllers and the operator do — unless somebody strips it *)
Lemma stored_stays : forall tr w w' o, forallb (fun l => negb (is_drop l)) tr = true ->
  run w tr = Some w' -> w_obj w = Some o -> ao_last o <> None ->
  w_obj w' = None \/ exists o', w_obj w' = Some o' /\ ao_last o' <> None.
Proof.
  induction tr as [|l tr IH]; intros w w' o F R O L; cbn in R.
  - injection R as <-. right. exists o. split; assumption.
  - cbn in F. apply andb_true_iff in F. destruct F as [F1 F2]. apply negb_true_iff in F1.
    destruct (step w l) as [w1|] eqn:S; [|discriminate R].
    destruct (step_keeps_stored _ _ _ _ F1 S O L) as [N|[o1 [O1 L1]]].
    + left. clear IH S. revert w1 N R. induction tr as [|l' tr' IH']; intros w1 N R; cbn in R.
      * injection R as <-. exact N.
      * cbn in F2. apply andb_true_iff in F2. destruct F2 as [_ F2'].
        destruct (step w1 l') as [w2|] eqn:S2; [|discriminate R].
        apply (IH' F2' w2); [|exact R].
        destruct l'; cbn in S2; try (rewrite N in S2; discriminate S2).
        -- injection S2 as <-. exact N.
        -- injection S2 as <-. cbn. rewrite N. destruct (is_deleted_event ev); reflexivity.
    + exact (IH w1 w' o1 F2 R O1 L1).
Qed.

(* ---- the first-sight flag over a history ---- *)
Definition keeps_memory (l : label) : bool :=
  match l with Restart => false | Proc EvDeleted _ _ _ _ _ _ => false | _ => true end.

Lemma step_handled_stays : forall w l w' m, keeps_memory l = true ->
  step w l = Some w' -> w_mem w = Some m -> am_handled m = true ->
  exists m', w_mem w' = Some m' /\ am_handled m' = true /\ am_listed m' = am_listed m.
Proof.
  intros w l w' m K S M Hd. destruct l; try discriminate K.
  1-4: (cbn in S; destruct (w_obj w); [|discriminate S]; injection S as <-; exists m; auto).
  cbn in S. injection S as <-. cbn [w_mem]. rewrite M. cbn [recall].
  destruct ev; try discriminate K; cbn; eexists; (split; [reflexivity|]); cbn; rewrite Hd; auto.
Qed.

(* after a handling cycle has completed in this process (fully_handled_once), nothing is invoked with the
   first-sight flag — hence no resume handler — until the process restarts or the object is gone *)
Lemma no_first_sight_after_handled : forall tr w w' m, forallb keeps_memory tr = true ->
  run w tr = Some w' -> w_mem w = Some m -> am_handled m = true ->
  forall iv, In iv (skipn (List.length (w_log w)) (w_log w')) -> first_sight (iv_mem iv) = false.
Proof.
  induction tr as [|l tr IH]; intros w w' m F R M Hd iv I; cbn in R.
  - injection R as <-. rewrite skipn_all in I. contradiction.
  - cbn in F. apply andb_true_iff in F. destruct F as [F1 F2].
    destruct (step w l) as [w1|] eqn:S; [|discriminate R].
    destruct (step_handled_stays _ _ _ _ F1 S M Hd) as [m1 [M1 [H1 _]]].
    destruct (step_log _ _ _ S) as [added [E _]].
    assert (LE : exists rest, w_log w' = w_log w1 ++ rest).
    { clear -R. revert w1 R. induction tr as [|l' tr' IH']; intros w1 R; cbn in R.
      - injection R as <-. exists []. rewrite app_nil_r. reflexivity.
      - destruct (step w1 l') as [w2|] eqn:S2; [|discriminate R].
        destruct (IH' w2 R) as [rest E2]. destruct (step_log _ _ _ S2) as [ad [E1 _]].
        exists (ad ++ rest). rewrite E2, E1, app_assoc. reflexivity. }
    destruct LE as [rest LE]. rewrite LE, E, <- app_assoc in I.
    rewrite skipn_app, skipn_all, Nat.sub_diag in I. cbn in I.
    apply in_app_or in I. destruct I as [I|I].
    + (* added by this very step: its memory is m *)
      destruct l; cbn in S.
      1-4: (destruct (w_obj w); [|discriminate S]; injection S as <-; cbn in E;
            apply (f_equal (@List.length invocation)) in E; rewrite app_length in E;
            destruct added; [contradiction | cbn in E; lia]).
      * injection S as <-. cbn in E. apply (f_equal (@List.length invocation)) in E. rewrite app_length in E.
        destruct added; [contradiction | cbn in E; lia].
      * injection S as <-. cbn [w_log] in E. apply app_inv_head in E. subst added.
        apply in_map_iff in I. destruct I as [h [<- _]]. cbn. rewrite M. cbn. unfold first_sight. rewrite Hd.
        apply andb_false_r.
    + apply (IH w1 w' m1 F2 R M1 H1). rewrite LE. rewrite skipn_app, skipn_all, Nat.sub_diag. cbn. exact I.
Qed.

(* ---- non-vacuity: a whole life of one object, replayed by vm_compute ---- *)
Definition ex_obj0 : aobj := {| ao_ess := 1; ao_last := None; ao_deleting := false; ao_own := false; ao_foreign := false |}.
Definition ex_world0 : world := {| w_obj := Some ex_obj0; w_mem := None; w_log := [] |}.
Definition ex_cur (w : option world) : aobj := match w with Some {| w_obj := Some o |} => o | _ => ex_obj0 end.
(* each Proc processes the current object (fresh events); handlers always succeed *)
Fixpoint ex_drive (w : world) (script : list (option label * evtype)) : option world :=
  match script with
  | [] => Some w
  | (Some l, _) :: rest => match step w l with Some w' => ex_drive w' rest | None => None end
  | (None, ev) :: rest =>
      match w_obj w with
      | Some o => match step w (Proc ev o ex_handlers true true true [0;1;2;3;4;5]%nat) with
                  | Some w' => ex_drive w' rest | None => None end
      | None => None
      end
  end.
Definition ex_script : list (option label * evtype) :=
  [(None, EvNone);              (* listed, never handled: the finalizer is added first, nothing runs *)
   (None, EvModified);          (* creation: create + field *)
   (None, EvModified);          (* echo of the own patch: no-op *)
   (Some (EnvEdit 2), EvNone); (None, EvModified);      (* update: update + field *)
   (Some Restart, EvNone); (None, EvNone);              (* relisted, unchanged: resume x2 (+ the always-matching field oracle) *)
   (None, EvModified);                                  (* nothing *)
   (Some EnvDelete, EvNone); (None, EvModified)].       (* deletion: delete (+ field oracle); no resume(deleted=True): not first sight any more; released *)

Example ex_life :
  match ex_drive ex_world0 ex_script with
  | Some w => w_obj w = None /\
              map (fun iv => (h_key (iv_h iv), iv_reason iv)) (w_log w) =
              [(0, Create); (4, Create); (1, Update); (4, Update); (3, Resume); (4, Resume); (5, Resume); (2, Delete); (4, Delete)]%nat
  | None => False
  end.
Proof. vm_compute. split; reflexivity. Qed.

(* the history theorem in one statement: start anywhere with an empty log *)
Lemma history_exclusive : forall tr o m w iv,
  run {| w_obj := o; w_mem := m; w_log := [] |} tr = Some w -> In iv (w_log w) ->
  let s := iv_snap iv in
  is_handler_reason (iv_reason iv) = true /\
  guard (iv_reason iv) (atoms_of_snap (iv_ev iv) s (iv_mem iv)) = true /\
  h_match (iv_h iv) = true /\
  (h_reason (iv_h iv) = Some Create ->
     iv_ev iv <> EvDeleted /\ ao_deleting s = false /\ ao_last s = None /\ iv_reason iv = Create /\ iv_initial iv = false) /\
  (h_reason (iv_h iv) = Some Update ->
     iv_ev iv <> EvDeleted /\ ao_deleting s = false /\ iv_reason iv = Update /\
     exists l, ao_last s = Some l /\ l <> ao_ess s) /\
  (h_reason (iv_h iv) = Some Delete ->
     iv_ev iv <> EvDeleted /\ ao_deleting s = true /\ ao_own s = true /\ iv_reason iv = Delete) /\
  (truthy (h_initial (iv_h iv)) = true ->
     first_sight (iv_mem iv) = true /\ iv_initial iv = true /\ iv_reason iv <> Create /\
     (ao_deleting s = true -> truthy (h_deleted (iv_h iv)) = true)) /\
  (ao_deleting s = true -> iv_reason iv = Delete /\ ao_own s = true /\
                           (h_reason (iv_h iv) = Some Delete \/ h_reason (iv_h iv) = None)).
Proof.
  intros tr o m w iv R I. apply inv_good_spec.
  assert (G : Forall inv_good (w_log w)) by (eapply history_good; [|exact R]; constructor).
  rewrite Forall_forall in G. apply G. exact I.
Qed.

Lemma first_sight_flag : forall ev s m mem,
  a_initial (atoms_of_snap ev s m) = (am_listed m && negb (am_handled m)) /\
  (recall None ev = {| am_listed := is_listing ev; am_handled := false |}) /\ recall (Some mem) ev = mem.
Proof. intros; repeat split. Qed.

Lemma reads_only_core : forall fin ev body on de ini cons hs,
  detect_body fin ev (core_body body) on de ini = detect_body fin ev body on de ini /\
  cycle fin ev (core_body body) on de ini cons hs = cycle fin ev body on de ini cons hs.
Proof. intros; split; [apply core_detect_body | apply core_cycle]. Qed.

(* non-vacuity of the two history invariants: a handled, listed object is edited and the update is processed —
   the stored state is still there (overwritten), one update invocation is logged, without the first-sight flag *)
Definition ex_obj_handled : aobj := {| ao_ess := 1; ao_last := Some 1; ao_deleting := false; ao_own := true; ao_foreign := false |}.
Definition ex_world_handled : world :=
  {| w_obj := Some ex_obj_handled; w_mem := Some {| am_listed := true; am_handled := true |}; w_log := [] |}.
Definition ex_trace_update : list label :=
  [EnvEdit 2;
   Proc EvModified {| ao_ess := 2; ao_last := Some 1; ao_deleting := false; ao_own := true; ao_foreign := false |}
        ex_handlers true true true [0;1;2;3;4;5]%nat].

Example ex_history_invariants_nonvacuous :
  forallb (fun l => negb (is_drop l)) ex_trace_update = true /\ forallb keeps_memory ex_trace_update = true /\
  match run ex_world_handled ex_trace_update with
  | Some w => (exists o', w_obj w = Some o' /\ ao_last o' = Some 2%nat) /\
              map (fun iv => (h_key (iv_h iv), iv_reason iv, first_sight (iv_mem iv))) (w_log w)
              = [(1, Update, false); (4, Update, false)]%nat
  | None => False
  end.
Proof. vm_compute. repeat split. eexists. split; reflexivity. Qed.
