(* C06 — invariants of the life of one object's finalizer list (Model/Finalizers.v part 3), for ALL label
   sequences: interleavings of foreign finalizer edits, label/spec edits, deletion requests, event deliveries,
   processing cycles with arbitrary oracles, the two requests of patch_obj (with 422s), daemon exits, restarts. *)
From Coq Require Import ZArith List String Bool Ascii Arith Lia.
From KV Require Import Base.Json Base.Dicts Model.Finalizers Proofs.Finalizers.
Import ListNotations.
Open Scope string_scope.
Open Scope list_scope.

(* ---------- lists of names ---------- *)
Lemma fl_foreign_idem : forall own l, fl_foreign own (fl_foreign own l) = fl_foreign own l.
Proof.
  intros own l; unfold fl_foreign, fl_allow. induction l as [|a l IH]; simpl; [reflexivity|].
  destruct (negb (a =? own)) eqn:E; simpl; [rewrite E, IH|]; auto.
Qed.

Lemma fl_foreign_block : forall own l, fl_foreign own (fl_block own l) = fl_foreign own l.
Proof.
  intros own l. unfold fl_block. destruct (fl_mem own l); [reflexivity|].
  unfold fl_foreign, fl_allow. rewrite filter_app. simpl. rewrite String.eqb_refl. simpl. apply app_nil_r.
Qed.

Lemma fl_foreign_apply_fns : forall own fns l, fl_foreign own (fl_apply_fns own fns l) = fl_foreign own l.
Proof.
  intros own fns. unfold fl_apply_fns. induction fns as [|f fns IH]; intros l; simpl; [reflexivity|].
  rewrite IH. destruct f; simpl; [apply fl_foreign_block | apply fl_foreign_idem].
Qed.

Lemma fl_mem_app_own : forall own l, fl_mem own (l ++ [own]) = true.
Proof. intros. unfold fl_mem. rewrite existsb_app. simpl. rewrite String.eqb_refl. simpl. apply orb_true_r. Qed.

Lemma fl_mem_block : forall own l, fl_mem own (fl_block own l) = true.
Proof. intros own l. unfold fl_block. destruct (fl_mem own l) eqn:E; [exact E | apply fl_mem_app_own]. Qed.

Lemma fl_mem_allow : forall own l, fl_mem own (fl_allow own l) = false.
Proof.
  intros own l. unfold fl_mem, fl_allow. induction l as [|a l IH]; simpl; [reflexivity|].
  destruct (a =? own) eqn:E; simpl; [exact IH|]. rewrite String.eqb_sym, E. exact IH.
Qed.

Lemma fl_apply_keeps_own : forall own fns l, ~ In FAllow fns -> fl_mem own l = true ->
  fl_mem own (fl_apply_fns own fns l) = true.
Proof.
  intros own fns. unfold fl_apply_fns. induction fns as [|f fns IH]; intros l Hn Hm; simpl; [exact Hm|].
  apply IH; [intros H; apply Hn; right; exact H|].
  destruct f; simpl; [apply fl_mem_block | exfalso; apply Hn; left; reflexivity].
Qed.

(* without a release among the fns, the edit is the identity or leaves the own finalizer present *)
Lemma fl_apply_no_allow : forall own fns l, ~ In FAllow fns ->
  fl_apply_fns own fns l = l \/ fl_mem own (fl_apply_fns own fns l) = true.
Proof.
  intros own fns. induction fns as [|f fns IH]; intros l Hn; [left; reflexivity|].
  assert (Hn' : ~ In FAllow fns) by (intros H; apply Hn; right; exact H).
  destruct f; [|exfalso; apply Hn; left; reflexivity].
  change (fl_apply_fns own (FBlock :: fns) l) with (fl_apply_fns own fns (fl_block own l)).
  unfold fl_block. destruct (fl_mem own l) eqn:E.
  - apply IH; exact Hn'.
  - right. apply fl_apply_keeps_own; [exact Hn' | apply fl_mem_app_own].
Qed.

Lemma fl_eqb_refl : forall l, fl_eqb l l = true.
Proof. induction l as [|a l IH]; simpl; [reflexivity | rewrite String.eqb_refl; exact IH]. Qed.

Lemma fl_eqb_eq : forall a b, fl_eqb a b = true -> a = b.
Proof.
  induction a as [|x a IH]; destruct b as [|y b]; simpl; intros H; try discriminate; [reflexivity|].
  apply andb_prop in H. destruct H as [H1 H2]. apply String.eqb_eq in H1. subst y. f_equal. apply IH; exact H2.
Qed.

(* ---------- the server record ---------- *)
Lemma fl_settle_proj : forall s,
  v_rv (fl_settle s) = v_rv s /\ v_fins (fl_settle s) = v_fins s /\ v_deleting (fl_settle s) = v_deleting s /\
  v_mdel (fl_settle s) = v_mdel s /\ v_mdmn (fl_settle s) = v_mdmn s /\ v_rec (fl_settle s) = v_rec s.
Proof.
  intros s. unfold fl_settle. destruct (v_deleting s) eqn:Ed; simpl; [|repeat split; auto].
  destruct (v_fins s) eqn:Ef; simpl; repeat split; auto.
Qed.

Lemma fl_with_fins_proj : forall s l,
  v_rv (fl_with_fins s l) = S (v_rv s) /\ v_fins (fl_with_fins s l) = l /\ v_deleting (fl_with_fins s l) = v_deleting s /\
  v_mdel (fl_with_fins s l) = v_mdel s /\ v_mdmn (fl_with_fins s l) = v_mdmn s /\ v_rec (fl_with_fins s l) = v_rec s.
Proof. intros s l. unfold fl_with_fins. destruct (fl_settle_proj (fl_bump {| v_alive := v_alive s; v_rv := v_rv s; v_fins := l;
  v_deleting := v_deleting s; v_mdel := v_mdel s; v_mdmn := v_mdmn s; v_rec := v_rec s |})) as [H1 [H2 [H3 [H4 [H5 H6]]]]].
  rewrite H1, H2, H3, H4, H5, H6. simpl. repeat split; reflexivity. Qed.

Lemma fl_with_deleting_proj : forall s,
  v_rv (fl_with_deleting s) = S (v_rv s) /\ v_fins (fl_with_deleting s) = v_fins s /\ v_deleting (fl_with_deleting s) = true /\
  v_mdel (fl_with_deleting s) = v_mdel s /\ v_mdmn (fl_with_deleting s) = v_mdmn s /\ v_rec (fl_with_deleting s) = v_rec s.
Proof. intros s. unfold fl_with_deleting. destruct (fl_settle_proj (fl_bump {| v_alive := v_alive s; v_rv := v_rv s; v_fins := v_fins s;
  v_deleting := true; v_mdel := v_mdel s; v_mdmn := v_mdmn s; v_rec := v_rec s |})) as [H1 [H2 [H3 [H4 [H5 H6]]]]].
  rewrite H1, H2, H3, H4, H5, H6. simpl. repeat split; reflexivity. Qed.

(* ====================================================================================== *)
(* A. finalizers owned by others: for ALL label sequences and ALL configurations           *)
(* ====================================================================================== *)
Definition snapA (s : fl_state) (v : fl_srv) : Prop :=
  v_rv v <= v_rv (sv s) /\ (v_rv v = v_rv (sv s) -> v = sv s).

Definition InvA (c : fl_cfg) (s : fl_state) : Prop :=
  fl_foreign (c_own c) (v_fins (sv s)) = g_foreign s /\
  match p_view s with Some v => snapA s v | None => True end /\
  match p_flight s with FJson f _ => snapA s f | _ => True end.

Lemma snapA_bumped : forall s s' v, snapA s v -> v_rv (sv s') = S (v_rv (sv s)) -> snapA s' v.
Proof. intros s s' v [H1 H2] H. unfold snapA. rewrite H. split; [lia | intros; lia]. Qed.

Lemma InvA_init : forall c fins a b, InvA c (fl_init c fins a b).
Proof. intros. unfold InvA, fl_init; simpl. split; [apply fl_foreign_idem | auto]. Qed.

Lemma InvA_server_change : forall c s x' gf view carried fl,
  InvA c s -> v_rv x' = S (v_rv (sv s)) -> fl_foreign (c_own c) (v_fins x') = gf ->
  view = p_view s -> match fl with FJson f _ => p_flight s = fl | _ => True end ->
  InvA c (fl_set_op (fl_set_x s x' gf) view carried fl).
Proof.
  intros c s x' gf view carried fl [HA1 [HA2 HA3]] Hrv Hf -> Hfl. unfold InvA, fl_set_op, fl_set_x; simpl.
  split; [exact Hf|]. split.
  - destruct (p_view s) as [v|]; [|exact I]. destruct HA2 as [H1 H2]. unfold snapA; simpl. rewrite Hrv. split; [lia | intros; lia].
  - destruct fl as [| |f fns]; try exact I. rewrite Hfl in HA3. destruct HA3 as [H1 H2]. unfold snapA; simpl. rewrite Hrv.
    split; [lia | intros; lia].
Qed.

Lemma fl_cycle_sv : forall c s v k, sv (fl_cycle c s v k) = sv s /\ g_foreign (fl_cycle c s v k) = g_foreign s /\
  p_view (fl_cycle c s v k) = None /\
  (forall f fns, p_flight (fl_cycle c s v k) = FJson f fns -> f = v).
Proof.
  intros c s v k. unfold fl_cycle. destruct (negb (v_alive v)); [simpl; repeat split; auto; intros; discriminate|].
  destruct (fl_spawning c v (p_daemon s) (p_forever s) (k_stop k)) as [d' dd]. simpl. repeat split; auto.
  intros f fns. match goal with |- context [if ?b then _ else _] => destruct b end; [intros; discriminate|].
  destruct (p_carried s ++ _); [intros; discriminate | intros H; injection H; auto].
Qed.

Lemma InvA_step : forall c s l s', InvA c s -> fl_step c s l = Some s' -> InvA c s'.
Proof.
  intros c s l s' HA Hs. pose proof HA as [HA1 [HA2 HA3]].
  destruct l; simpl in Hs.
  - (* LForeign *)
    destruct (v_alive (sv s) && _) eqn:E; [|discriminate]. injection Hs as <-.
    destruct (fl_with_fins_proj (sv s) l') as [P1 [P2 _]].
    change (fl_set_x s (fl_with_fins (sv s) l') (fl_foreign (c_own c) l')) with
      (fl_set_op (fl_set_x s (fl_with_fins (sv s) l') (fl_foreign (c_own c) l')) (p_view s) (p_carried s) (p_flight s)).
    apply InvA_server_change; auto; [rewrite P2; reflexivity | destruct (p_flight s); auto].
  - (* LMatch *)
    destruct (v_alive (sv s)); [|discriminate]. injection Hs as <-.
    change (fl_set_x s (fl_with_match (sv s) mdel mdmn) (g_foreign s)) with
      (fl_set_op (fl_set_x s (fl_with_match (sv s) mdel mdmn) (g_foreign s)) (p_view s) (p_carried s) (p_flight s)).
    apply InvA_server_change; auto; destruct (p_flight s); auto.
  - (* LDelete *)
    destruct (v_alive (sv s) && _); [|discriminate]. injection Hs as <-.
    destruct (fl_with_deleting_proj (sv s)) as [P1 [P2 _]].
    change (fl_set_x s (fl_with_deleting (sv s)) (g_foreign s)) with
      (fl_set_op (fl_set_x s (fl_with_deleting (sv s)) (g_foreign s)) (p_view s) (p_carried s) (p_flight s)).
    apply InvA_server_change; auto; [rewrite P2; exact HA1 | destruct (p_flight s); auto].
  - (* LEvent *)
    injection Hs as <-. unfold InvA, fl_set_op; simpl. split; [exact HA1|]. split; [|exact HA3].
    unfold snapA; simpl. split; auto.
  - (* LCycle *)
    destruct (p_view s) as [v|] eqn:Ev; [|discriminate]. destruct (p_flight s) eqn:Ef; try discriminate.
    injection Hs as <-. destruct (fl_cycle_sv c s v k) as [C1 [C2 [C3 C4]]].
    unfold InvA. rewrite C1, C2, C3. split; [exact HA1|]. split; [exact I|].
    destruct (p_flight (fl_cycle c s v k)) as [| |f fns] eqn:Ef'; auto.
    rewrite (C4 f fns eq_refl). unfold snapA. rewrite C1. exact HA2.
  - (* LMerge *)
    destruct (p_flight s) as [|r fns|] eqn:Ef; try discriminate.
    destruct (v_alive (sv s)).
    + injection Hs as <-.
      assert (Hrv : v_rv (fl_with_rec (sv s) r) = S (v_rv (sv s))) by reflexivity.
      destruct fns as [|f fns'].
      * apply InvA_server_change; auto.
      * unfold InvA, fl_set_op, fl_set_x; simpl. split; [exact HA1|]. split.
        -- destruct (p_view s) as [v|]; [|exact I]. destruct HA2 as [H1 H2]. unfold snapA; simpl. split; [lia | intros; lia].
        -- unfold snapA; simpl. split; auto.
    + injection Hs as <-. unfold InvA, fl_set_op; simpl. auto.
  - (* LJson *)
    destruct (p_flight s) as [| |fresh fns] eqn:Ef; try discriminate. injection Hs as <-.
    unfold fl_json.
    destruct (fl_eqb _ _); [unfold InvA, fl_set_op; simpl; auto|].
    destruct (negb (v_alive (sv s))); [unfold InvA, fl_set_op; simpl; auto|].
    destruct (Nat.eqb (v_rv fresh) (v_rv (sv s)) && _) eqn:Et; [|unfold InvA, fl_set_op; simpl; auto].
    apply andb_prop in Et. destruct Et as [Et _]. apply Nat.eqb_eq in Et.
    destruct HA3 as [_ Hsame]. specialize (Hsame Et). subst fresh.
    destruct (fl_with_fins_proj (sv s) (fl_apply_fns (c_own c) fns (v_fins (sv s)))) as [P1 [P2 _]].
    apply InvA_server_change; auto. rewrite P2, fl_foreign_apply_fns. exact HA1.
  - (* LDaemonExit *)
    destruct (p_daemon s); try discriminate; injection Hs as <-; exact HA.
  - (* LRestart *)
    injection Hs as <-. unfold InvA; simpl. auto.
Qed.

Lemma InvA_run : forall c tr s s', InvA c s -> fl_run c s tr = Some s' -> InvA c s'.
Proof.
  intros c tr. induction tr as [|l tr IH]; intros s s' HA Hr; simpl in Hr.
  - injection Hr as <-. exact HA.
  - destruct (fl_step c s l) as [s1|] eqn:Es; [|discriminate]. apply (IH s1 s'); [eapply InvA_step; eauto | exact Hr].
Qed.

(* the ghost is moved by the others only *)
Lemma fl_ghost_step : forall c s l s', fl_step c s l = Some s' ->
  g_foreign s' = match l with LForeign l' => fl_foreign (c_own c) l' | _ => g_foreign s end.
Proof.
  intros c s l s' Hs. destruct l; simpl in Hs.
  - destruct (v_alive (sv s) && _); [|discriminate]. injection Hs as <-. reflexivity.
  - destruct (v_alive (sv s)); [|discriminate]. injection Hs as <-. reflexivity.
  - destruct (v_alive (sv s) && _); [|discriminate]. injection Hs as <-. reflexivity.
  - injection Hs as <-. reflexivity.
  - destruct (p_view s) as [v|]; [|discriminate]. destruct (p_flight s); try discriminate. injection Hs as <-.
    destruct (fl_cycle_sv c s v k) as [_ [C2 _]]. exact C2.
  - destruct (p_flight s); try discriminate. destruct (v_alive (sv s)); injection Hs as <-; reflexivity.
  - destruct (p_flight s) as [| |fresh fns]; try discriminate. injection Hs as <-. unfold fl_json.
    destruct (fl_eqb _ _); [reflexivity|]. destruct (negb _); [reflexivity|]. destruct (_ && _); reflexivity.
  - destruct (p_daemon s); try discriminate; injection Hs as <-; reflexivity.
  - injection Hs as <-. reflexivity.
Qed.

(* At every instant of every history, the others' entries on the server are, as a list, exactly what the others
   last made of them; and a step that is not theirs leaves that list as it was. *)
Theorem fl_foreign_untouched : forall c fins a b tr s,
  fl_run c (fl_init c fins a b) tr = Some s ->
  fl_foreign (c_own c) (v_fins (sv s)) = g_foreign s /\
  (forall l s', fl_step c s l = Some s' -> (forall l', l <> LForeign l') ->
     fl_foreign (c_own c) (v_fins (sv s')) = fl_foreign (c_own c) (v_fins (sv s))).
Proof.
  intros c fins a b tr s Hr. pose proof (InvA_run c tr _ s (InvA_init c fins a b) Hr) as HA.
  split; [exact (proj1 HA)|]. intros l s' Hs Hl.
  pose proof (InvA_step c s l s' HA Hs) as HA'. rewrite (proj1 HA'), (proj1 HA).
  rewrite (fl_ghost_step c s l s' Hs). destruct l; try reflexivity. exfalso; exact (Hl l' eq_refl).
Qed.

(* ====================================================================================== *)
(* B. never released early: calm histories (filters' verdicts fixed), H's id not shared     *)
(* ====================================================================================== *)
Definition snapB (s : fl_state) (v : fl_srv) : Prop :=
  (v_rec v = true -> g_done s = true) /\ v_mdel v = v_mdel (sv s) /\ v_mdmn v = v_mdmn (sv s) /\
  (v_deleting v = true -> v_deleting (sv s) = true).

Definition flight_fns (f : fl_flight) : list fz_fn :=
  match f with FNone => [] | FMerge _ fns => fns | FJson _ fns => fns end.

Definition NoSpawn (c : fl_cfg) (s : fl_state) : Prop :=
  c_dmn c && v_mdmn (sv s) && negb (p_forever s) = false \/
  (v_deleting (sv s) = true /\ match p_view s with Some v => v_deleting v = true | None => True end).

Definition Just (c : fl_cfg) (s : fl_state) : Prop :=
  (c_del c = true -> v_mdel (sv s) = true -> g_done s = true) /\
  fl_daemon_live (p_daemon s) = false /\ NoSpawn c s.

Definition InvB (c : fl_cfg) (s : fl_state) : Prop :=
  (v_rec (sv s) = true -> g_done s = true) /\
  match p_view s with Some v => snapB s v | None => True end /\
  match p_flight s with
  | FJson f _ => snapB s f
  | FMerge r _ => r = true -> g_done s = true
  | FNone => True
  end /\
  (fl_daemon_live (p_daemon s) = true -> c_dmn c = true /\ v_mdmn (sv s) = true /\ p_forever s = false) /\
  (In FAllow (p_carried s ++ flight_fns (p_flight s)) -> Just c s).

Lemma InvB_init : forall c fins a b, InvB c (fl_init c fins a b).
Proof. intros. unfold InvB, fl_init; simpl. repeat split; auto; try discriminate; try contradiction. Qed.

(* what a cycle on a live view leaves behind *)
Lemma fl_cycle_alive : forall c s v k, v_alive v = true ->
  let sp := fl_spawning c v (p_daemon s) (p_forever s) (k_stop k) in
  let a := fl_atoms c s v k (snd sp) (fl_h_delay c v k) in
  let out := fz_decide a in
  let s' := fl_cycle c s v k in
  sv s' = sv s /\ p_view s' = None /\ p_daemon s' = fst sp /\ p_forever s' = p_forever s /\
  g_done s' = g_done s || (o_changing out && fl_h_invoked c v && k_h_finishes k) /\
  (p_flight s' = FNone /\ p_carried s' = [] \/
   p_carried s' = p_carried s /\
   ((exists r, p_flight s' = FMerge r (p_carried s ++ o_fns out) /\
               (c_shared c = false -> r = true ->
                  v_rec v = true \/ o_changing out && fl_h_invoked c v && k_h_finishes k = true)) \/
    p_flight s' = FJson v (p_carried s ++ o_fns out))).
Proof.
  intros c s v k Hal sp a out s'. subst s'. unfold fl_cycle. rewrite Hal. simpl negb. cbv iota.
  fold sp. destruct sp as [d' dd] eqn:Esp. simpl snd in a. fold a. fold out.
  simpl. repeat split; auto.
  match goal with |- context [if ?b then FMerge ?r ?f else _] => destruct b eqn:Ehm; set (rr := r) end.
  - right. split; [reflexivity|]. left. exists rr. split; [reflexivity|].
    intros Hsh Hr. subst rr. rewrite Hsh in Hr. simpl in Hr.
    destruct (o_changing out); [|left; exact Hr].
    destruct (fl_h_selected c v).
    + destruct (fl_h_delay c v k ++ k_cdelays_others k); [discriminate|]. apply orb_prop in Hr.
      destruct Hr as [Hr|Hr]; [left; exact Hr | right; exact Hr].
    + apply andb_prop in Hr. left; exact (proj1 Hr).
  - destruct (p_carried s ++ o_fns out) eqn:Efns.
    + left. split; reflexivity.
    + right. split; [reflexivity|]. right. reflexivity.
Qed.

(* the decision's atoms in a cycle *)
Lemma fl_atoms_must_false : forall c s v k dd hd,
  fz_must (fl_atoms c s v k dd hd) = false ->
  c_dmn c && v_mdmn v && negb (p_forever s) = false /\ c_del c && v_mdel v = false.
Proof.
  intros c s v k dd hd H. unfold fz_must, fl_atoms in H; simpl in H.
  apply orb_false_elim in H. destruct H as [H1 H2].
  apply orb_false_elim in H1. destruct H1 as [H1 _].
  split.
  - destruct (c_dmn c), (v_mdmn v), (p_forever s); simpl in *; auto; discriminate.
  - destruct (c_del c), (v_mdel v); simpl in *; auto; discriminate.
Qed.

Lemma fl_spawning_live : forall c v d forever stop, fl_daemon_live (fst (fl_spawning c v d forever stop)) = true ->
  (fl_daemon_live d = true) \/ (v_deleting v = false /\ c_dmn c && v_mdmn v && negb forever = true).
Proof.
  intros c v d forever stop. unfold fl_spawning, fl_staged. destruct (v_deleting v).
  - destruct d, stop; simpl; auto.
  - destruct (c_dmn c && v_mdmn v && negb forever) eqn:E; destruct d, stop; simpl; auto.
Qed.

Lemma fl_spawning_delays : forall c v d forever stop, v_deleting v = true ->
  snd (fl_spawning c v d forever stop) = [] -> fl_daemon_live (fst (fl_spawning c v d forever stop)) = false.
Proof. intros c v d forever stop Hd. unfold fl_spawning, fl_staged. rewrite Hd. destruct d, stop; simpl; intros H; try discriminate; auto. Qed.

Section PartB.
  Variable c : fl_cfg.
  Hypothesis Hshared : c_shared c = false.

  Lemma snapB_weaken : forall s s' v, snapB s v ->
    (g_done s = true -> g_done s' = true) -> v_mdel (sv s') = v_mdel (sv s) -> v_mdmn (sv s') = v_mdmn (sv s) ->
    (v_deleting (sv s) = true -> v_deleting (sv s') = true) -> snapB s' v.
  Proof. intros s s' v [H1 [H2 [H3 H4]]] Hd Hm1 Hm2 Hdel. unfold snapB. rewrite Hm1, Hm2. repeat split; auto. Qed.

  (* server-side changes that keep the record, the filters' verdicts and never clear deletionTimestamp *)
  Lemma InvB_server_change : forall s x',
    InvB c s -> v_rec x' = v_rec (sv s) -> v_mdel x' = v_mdel (sv s) -> v_mdmn x' = v_mdmn (sv s) ->
    (v_deleting (sv s) = true -> v_deleting x' = true) -> forall gf,
    InvB c (fl_set_x s x' gf).
  Proof.
    intros s x' [B1 [B2 [B3 [B4 B5]]]] Hr Hm1 Hm2 Hd gf. unfold InvB, fl_set_x; simpl.
    split; [rewrite Hr; exact B1|].
    split; [destruct (p_view s) as [v|]; [|exact I]; eapply snapB_weaken; eauto|].
    split; [destruct (p_flight s) as [|r fns|f fns]; auto; eapply snapB_weaken; eauto|].
    split; [rewrite Hm2; exact B4|].
    intros Hin. destruct (B5 Hin) as [J1 [J2 J3]]. unfold Just; simpl. rewrite Hm1.
    split; [exact J1|]. split; [exact J2|].
    unfold NoSpawn in *; simpl. rewrite Hm2. destruct J3 as [J3 | [J3 J4]]; [left; exact J3 | right; split; auto].
  Qed.

  Ltac fl_close B4 := repeat split; auto; try discriminate; try contradiction;
    try (match goal with H : fl_daemon_live _ = true |- _ => apply (B4 H) end).

  Lemma InvB_step : forall s l s', InvB c s -> fl_calm l = true -> fl_step c s l = Some s' -> InvB c s'.
  Proof.
    intros s l s' HB Hcalm Hs. pose proof HB as [B1 [B2 [B3 [B4 B5]]]].
    destruct l; simpl in Hs; try discriminate Hcalm.
    - (* LForeign *)
      destruct (v_alive (sv s) && _); [|discriminate]. injection Hs as <-.
      destruct (fl_with_fins_proj (sv s) l') as [_ [_ [P3 [P4 [P5 P6]]]]].
      apply InvB_server_change; auto. rewrite P3; auto.
    - (* LDelete *)
      destruct (v_alive (sv s) && _); [|discriminate]. injection Hs as <-.
      destruct (fl_with_deleting_proj (sv s)) as [_ [_ [P3 [P4 [P5 P6]]]]].
      apply InvB_server_change; auto.
    - (* LEvent *)
      injection Hs as <-. unfold InvB, fl_set_op; simpl.
      split; [exact B1|]. split; [unfold snapB; repeat split; auto|]. split; [exact B3|]. split; [exact B4|].
      intros Hin. destruct (B5 Hin) as [J1 [J2 J3]]. unfold Just; simpl. repeat split; auto.
      unfold NoSpawn in *; simpl. destruct J3 as [J3 | [J3 J4]]; [left; exact J3 | right; split; auto].
    - (* LCycle *)
      destruct (p_view s) as [v|] eqn:Ev; [|discriminate]. destruct (p_flight s) eqn:Ef; try discriminate.
      injection Hs as <-. destruct B2 as [V1 [V2 [V3 V4]]].
      destruct (v_alive v) eqn:Hal.
      2:{ unfold fl_cycle. rewrite Hal. simpl. unfold InvB, fl_set_op; simpl. fl_close B4. }
      pose proof (fl_cycle_alive c s v k Hal) as HC. cbv zeta in HC.
      set (sp := fl_spawning c v (p_daemon s) (p_forever s) (k_stop k)) in *.
      set (a := fl_atoms c s v k (snd sp) (fl_h_delay c v k)) in *.
      set (out := fz_decide a) in *. set (s' := fl_cycle c s v k) in *.
      destruct HC as [C1 [C2 [C3 [C4 [C5 C6]]]]].
      assert (Hdone : g_done s = true -> g_done s' = true) by (intros H; rewrite C5, H; reflexivity).
      (* daemon clause *)
      assert (HB4 : fl_daemon_live (p_daemon s') = true -> c_dmn c = true /\ v_mdmn (sv s') = true /\ p_forever s' = false).
      { rewrite C1, C3, C4. intros Hl. destruct (fl_spawning_live _ _ _ _ _ Hl) as [Hl' | [_ Hsp]]; [auto|].
        rewrite V3 in Hsp. destruct (c_dmn c), (v_mdmn (sv s)), (p_forever s); simpl in Hsp; try discriminate; auto. }
      (* old pending releases stay justified *)
      assert (Hold : Just c s -> Just c s').
      { intros [J1 [J2 J3]]. unfold Just. rewrite C1. split; [auto|]. split.
        - rewrite C3. destruct (fl_daemon_live (fst sp)) eqn:El; [|reflexivity]. exfalso.
          destruct (fl_spawning_live _ _ _ _ _ El) as [Hl' | [Hnd Hsp]]; [congruence|].
          unfold NoSpawn in J3. rewrite Ev in J3. rewrite V3 in Hsp. destruct J3 as [J3 | [_ J3]]; congruence.
        - unfold NoSpawn in *. rewrite C1, C2, C4. destruct J3 as [J3 | [J3 _]]; [left; exact J3 | right; split; auto]. }
      (* a release decided in this cycle is justified *)
      assert (Hnew : In FAllow (o_fns out) -> Just c s').
      { intros Hin. apply fz_allow_only_if in Hin. fold a in Hin.
        destruct Hin as [[Hm Hb] | [Hm [Hdel [Hon [Hb [Hdl [Hsd Hch]]]]]]].
        - (* nobody requires it *)
          destruct (fl_atoms_must_false _ _ _ _ _ _ Hm) as [M1 M2]. rewrite V3 in M1. rewrite V2 in M2.
          unfold Just. rewrite C1. split.
          + intros H1 H2. rewrite H1, H2 in M2. discriminate.
          + split.
            * rewrite C3. destruct (fl_daemon_live (fst sp)) eqn:El; [|reflexivity]. exfalso.
              destruct (fl_spawning_live _ _ _ _ _ El) as [Hl' | [_ Hsp]].
              -- destruct (B4 Hl') as [D1 [D2 D3]]. rewrite D1, D2, D3 in M1. discriminate.
              -- rewrite V3 in Hsp. congruence.
            * left. rewrite C1, C4. exact M1.
        - (* the release proper *)
          unfold a, fl_atoms in Hon, Hdel, Hb, Hsd; simpl in Hon, Hdel, Hb, Hsd.
          apply app_eq_nil in Hsd. destruct Hsd as [Hsd _].
          pose proof (fl_spawning_delays c v (p_daemon s) (p_forever s) (k_stop k) Hon Hsd) as Hd2. fold sp in Hd2.
          unfold Just. rewrite C1, C3. split; [|split; [exact Hd2 | right; rewrite C1, C2; split; auto]].
          intros H1 H2. rewrite C5.
          assert (Hpre : match a_chg a with Some hs => fz_chg_prematch hs | None => false end = true).
          { unfold a, fl_atoms; simpl. rewrite H1, V2, H2. reflexivity. }
          destruct (Hch Hpre) as [Hcg [Hcd _]]. fold out in Hcg. rewrite Hcg. simpl.
          unfold a, fl_atoms in Hcd; simpl in Hcd. apply app_eq_nil in Hcd. destruct Hcd as [Hcd _].
          unfold fl_h_delay in Hcd.
          assert (Hsel : fl_h_selected c v = true).
          { unfold fl_h_selected. rewrite H1, V2, H2, Hon, Hb, Hal. reflexivity. }
          unfold fl_h_invoked in *. rewrite Hsel in *. simpl in *.
          destruct (v_rec v) eqn:Erec; simpl in *.
          + rewrite (V1 eq_refl). reflexivity.
          + destruct (k_h_finishes k); simpl in *; [apply orb_true_r | discriminate Hcd]. }
      unfold InvB.
      split; [rewrite C1, C5; intros H; rewrite (B1 H); reflexivity|].
      split; [rewrite C2; exact I|].
      destruct C6 as [[F1 F2] | [F2 [[r [F1 F3]] | F1]]]; rewrite F1, F2.
      + split; [exact I|]. split; [exact HB4|]. simpl. intros [].
      + split.
        * intros Hr. destruct (F3 Hshared Hr) as [H|H]; [rewrite C5, (V1 H); reflexivity | rewrite C5, H; apply orb_true_r].
        * split; [exact HB4|]. simpl. intros Hin.
          apply in_app_or in Hin. destruct Hin as [Hin|Hin].
          -- apply Hold. apply B5. apply in_or_app. left. exact Hin.
          -- apply in_app_or in Hin. destruct Hin as [Hin|Hin]; [|apply Hnew; exact Hin].
             apply Hold. apply B5. apply in_or_app. left. exact Hin.
      + split.
        * unfold snapB. rewrite C1. repeat split; auto.
        * split; [exact HB4|]. simpl. intros Hin.
          apply in_app_or in Hin. destruct Hin as [Hin|Hin].
          -- apply Hold. apply B5. apply in_or_app. left. exact Hin.
          -- apply in_app_or in Hin. destruct Hin as [Hin|Hin]; [|apply Hnew; exact Hin].
             apply Hold. apply B5. apply in_or_app. left. exact Hin.
    - (* LMerge *)
      destruct (p_flight s) as [|r fns|] eqn:Ef; try discriminate.
      destruct (v_alive (sv s)).
      + injection Hs as <-.
        assert (Hpend : In FAllow fns -> Just c s) by (intros H; apply B5; apply in_or_app; right; exact H).
        unfold InvB, fl_set_op, fl_set_x; simpl.
        split; [exact B3|].
        split.
        { destruct (p_view s) as [v|]; [|exact I]. destruct B2 as [V1 [V2 [V3 V4]]]. unfold snapB; simpl. repeat split; auto. }
        assert (HJ : Just c s -> Just c (fl_set_op (fl_set_x s (fl_with_rec (sv s) r) (g_foreign s)) (p_view s)
                       match fns with [] => [] | _ :: _ => p_carried s end
                       match fns with [] => FNone | _ :: _ => FJson (fl_with_rec (sv s) r) fns end)).
        { intros [J1 [J2 J3]]. unfold Just, NoSpawn in *; simpl. repeat split; auto. }
        destruct fns as [|f fns'].
        * split; [exact I|]. split; [exact B4|]. simpl. intros [].
        * split; [unfold snapB; simpl; repeat split; auto|]. split; [exact B4|].
          simpl flight_fns. intros Hin. apply HJ. apply in_app_or in Hin. destruct Hin as [Hin|Hin].
          -- apply B5. apply in_or_app. left. exact Hin.
          -- apply Hpend. exact Hin.
      + injection Hs as <-. unfold InvB, fl_set_op; simpl. fl_close B4.
    - (* LJson *)
      destruct (p_flight s) as [| |fresh fns] eqn:Ef; try discriminate. injection Hs as <-.
      assert (Hpend : In FAllow fns -> Just c s) by (intros H; apply B5; apply in_or_app; right; exact H).
      unfold fl_json.
      destruct (fl_eqb _ _); [unfold InvB, fl_set_op; simpl; fl_close B4|].
      destruct (negb (v_alive (sv s))); [unfold InvB, fl_set_op; simpl; fl_close B4|].
      destruct (Nat.eqb (v_rv fresh) (v_rv (sv s)) && _).
      + destruct (fl_with_fins_proj (sv s) (fl_apply_fns (c_own c) fns (v_fins fresh))) as [_ [_ [P3 [P4 [P5 P6]]]]].
        assert (HB' : InvB c (fl_set_x s (fl_with_fins (sv s) (fl_apply_fns (c_own c) fns (v_fins fresh))) (g_foreign s))).
        { apply InvB_server_change; auto. rewrite P3; auto. }
        destruct HB' as [B1' [B2' [_ [B4' _]]]].
        unfold InvB, fl_set_op; simpl. simpl in B1', B2', B4'. fl_close B4'.
      + unfold InvB, fl_set_op; simpl. split; [exact B1|]. split; [exact B2|]. split; [exact I|]. split; [exact B4|].
        rewrite app_nil_r. intros Hin. destruct (Hpend Hin) as [J1 [J2 J3]]. unfold Just, NoSpawn in *; simpl. auto.
    - (* LDaemonExit *)
      assert (Hgo : forall forever', (p_forever s = true -> forever' = true) ->
                InvB c (fl_set_daemon s DExited forever')).
      { intros forever' Hf. unfold InvB, fl_set_daemon; simpl. split; [exact B1|]. split; [exact B2|]. split; [exact B3|].
        split; [intros; discriminate|]. intros Hin. destruct (B5 Hin) as [J1 [J2 J3]].
        unfold Just, NoSpawn in *; simpl. split; [exact J1|]. split; [reflexivity|].
        destruct J3 as [J3 | J3]; [left | right; exact J3].
        destruct (c_dmn c), (v_mdmn (sv s)), (p_forever s); simpl in *; try discriminate; auto; rewrite Hf; auto. }
      destruct (p_daemon s); try discriminate; injection Hs as <-; apply Hgo; auto.
    - (* LRestart *)
      injection Hs as <-. unfold InvB; simpl. fl_close B4.
  Qed.

  Lemma InvB_run : forall tr s s', InvB c s -> forallb fl_calm tr = true -> fl_run c s tr = Some s' -> InvB c s'.
  Proof.
    induction tr as [|l tr IH]; intros s s' HB Hc Hr; simpl in Hr.
    - injection Hr as <-. exact HB.
    - simpl in Hc. apply andb_prop in Hc. destruct Hc as [Hc1 Hc2].
      destruct (fl_step c s l) as [s1|] eqn:Es; [|discriminate].
      apply (IH s1 s'); [eapply InvB_step; eauto | exact Hc2 | exact Hr].
  Qed.

  (* Whenever a request of the framework is accepted that takes the own finalizer off the object - after any calm
     history - the followed mandatory deletion handler, if it matches, has been invoked for the deletion and has
     finished, and the followed daemon is neither running nor being stopped. *)
  Theorem fl_not_released_early_partial : forall fins a b tr s s',
    forallb fl_calm tr = true -> fl_run c (fl_init c fins a b) tr = Some s ->
    fl_step c s LJson = Some s' -> fl_releases c s s' = true ->
    (c_del c = true -> v_mdel (sv s) = true -> g_done s = true) /\ fl_daemon_live (p_daemon s) = false.
  Proof.
    intros fins a b tr s s' Hc Hr Hs Hrel.
    pose proof (InvB_run tr _ s (InvB_init c fins a b) Hc Hr) as [_ [_ [_ [_ B5]]]].
    simpl in Hs. destruct (p_flight s) as [| |fresh fns] eqn:Ef; try discriminate. injection Hs as <-.
    unfold fl_releases in Hrel. apply andb_prop in Hrel. destruct Hrel as [R1 R2]. apply negb_true_iff in R2.
    assert (Hin : In FAllow fns).
    { destruct (in_dec (fun x y : fz_fn => ltac:(decide equality) : {x = y} + {x <> y}) FAllow fns) as [H|Hn]; [exact H|exfalso].
      unfold fl_json in R2.
      destruct (fl_eqb (fl_apply_fns (c_own c) fns (v_fins fresh)) (v_fins fresh)) eqn:Ee; [simpl in R2; congruence|].
      destruct (negb (v_alive (sv s))); [simpl in R2; congruence|].
      destruct (Nat.eqb (v_rv fresh) (v_rv (sv s)) && _); [|simpl in R2; congruence].
      simpl in R2. destruct (fl_with_fins_proj (sv s) (fl_apply_fns (c_own c) fns (v_fins fresh))) as [_ [P2 _]].
      rewrite P2 in R2.
      destruct (fl_apply_no_allow (c_own c) fns (v_fins fresh) Hn) as [H|H]; [|congruence].
      rewrite H, fl_eqb_refl in Ee. discriminate. }
    assert (HJ : Just c s) by (apply B5; apply in_or_app; right; simpl; exact Hin).
    destruct HJ as [J1 [J2 _]]. split; auto.
  Qed.
End PartB.

(* ---------- the full statement is false of the faithful model ---------- *)
Definition fl_k0 : fl_orc :=
  {| k_spawn_others := []; k_chg_others := [{| ch_reqfin := false; ch_prematch := true |}]; k_low_empty := true;
     k_ctime := CtNone; k_timed_out := true; k_sdelays_others := []; k_cdelays_others := []; k_h_finishes := false;
     k_other_rec := false; k_extra_merge := false; k_stop := SStill |}.
Definition fl_k_with (rec sibling_retries : bool) : fl_orc :=
  {| k_spawn_others := []; k_chg_others := [{| ch_reqfin := false; ch_prematch := true |}]; k_low_empty := true;
     k_ctime := CtNone; k_timed_out := true; k_sdelays_others := [];
     k_cdelays_others := if sibling_retries then [1%Z] else []; k_h_finishes := false;
     k_other_rec := rec; k_extra_merge := true; k_stop := SStill |}.

Definition fl_cfg_f8 : fl_cfg := {| c_own := "kopf"; c_del := true; c_dmn := false; c_shared := true |}.
(* F8: the update run of the function registered under the same id leaves a finished record while a sibling is
   still retrying; deletion is requested; the deletion cycle reads that record as H's and releases. *)
Definition fl_trace_f8 : list fl_label :=
  [LEvent; LCycle fl_k0; LJson;                               (* finalizer added *)
   LEvent; LCycle (fl_k_with true true); LMerge;              (* update cycle: record "finished" under the shared id *)
   LDelete; LEvent; LCycle (fl_k_with false false); LMerge].  (* deletion cycle: H is not invoked; release *)

Lemma fl_not_released_early_refuted :
  exists c tr s s', c_shared c = true /\ forallb fl_calm tr = true /\
    fl_run c (fl_init c [] true false) tr = Some s /\ fl_step c s LJson = Some s' /\
    fl_releases c s s' = true /\ c_del c = true /\ v_mdel (sv s) = true /\ v_deleting (sv s) = true /\ g_done s = false.
Proof.
  exists fl_cfg_f8, fl_trace_f8.
  eexists; eexists. split; [reflexivity|]. split; [reflexivity|].
  split; [vm_compute; reflexivity|]. split; [vm_compute; reflexivity|]. vm_compute. repeat split; reflexivity.
Qed.

(* The release decision is made on a view and carried over a 422; if the filters' verdict changes in between
   (a label edit makes H match), the carried release still lands: calmness is necessary as well. *)
Definition fl_cfg_plain : fl_cfg := {| c_own := "kopf"; c_del := true; c_dmn := false; c_shared := false |}.
Definition fl_trace_stale : list fl_label :=
  [LEvent; LCycle fl_k0; LJson;                        (* H matches: finalizer added *)
   LMatch false false; LEvent; LCycle fl_k0;           (* H does not match any more: release decided ... *)
   LForeign ["kopf"; "other"]; LJson;                  (* ... but refused (422): carried *)
   LMatch true false; LEvent; LCycle fl_k0].           (* H matches again; the carried release is sent *)

Lemma fl_calm_needed :
  exists c tr s s', c_shared c = false /\
    fl_run c (fl_init c [] true false) tr = Some s /\ fl_step c s LJson = Some s' /\
    fl_releases c s s' = true /\ c_del c = true /\ v_mdel (sv s) = true /\ g_done s = false.
Proof.
  exists fl_cfg_plain, fl_trace_stale.
  eexists; eexists. split; [reflexivity|].
  split; [vm_compute; reflexivity|]. split; [vm_compute; reflexivity|]. vm_compute. repeat split; reflexivity.
Qed.

(* non-vacuity of the partial theorem: a calm history with an unshared id that does release (after H finished) *)
Definition fl_k_fin : fl_orc :=
  {| k_spawn_others := []; k_chg_others := []; k_low_empty := true; k_ctime := CtNone; k_timed_out := true;
     k_sdelays_others := []; k_cdelays_others := []; k_h_finishes := true; k_other_rec := false; k_extra_merge := true; k_stop := SStill |}.
Definition fl_trace_good : list fl_label :=
  [LEvent; LCycle fl_k0; LJson; LForeign ["other"; "kopf"]; LDelete; LEvent; LCycle fl_k_fin; LMerge].

Example fl_partial_nonvacuous :
  exists s s', forallb fl_calm fl_trace_good = true /\
    fl_run fl_cfg_plain (fl_init fl_cfg_plain [] true false) fl_trace_good = Some s /\
    fl_step fl_cfg_plain s LJson = Some s' /\ fl_releases fl_cfg_plain s s' = true /\
    g_done s = true /\ v_fins (sv s') = ["other"] /\ v_alive (sv s') = true.
Proof. eexists; eexists. split; [reflexivity|]. split; [vm_compute; reflexivity|]. split; [vm_compute; reflexivity|]. vm_compute. auto. Qed.

(* ---------- a request that adds the finalizer to an object being deleted ---------- *)
(* The decision never asks for it (fz_never_added_while_deleting), but a block refused by a 422 is carried and
   re-sent on the next cycle even if the deletion has started meanwhile; the API server refuses it (422). *)
Definition fl_adds_while_deleting (c : fl_cfg) (s : fl_state) : bool :=
  match p_flight s with
  | FJson fresh fns => v_deleting fresh && negb (fl_mem (c_own c) (v_fins fresh)) &&
                       fl_mem (c_own c) (fl_apply_fns (c_own c) fns (v_fins fresh))
  | _ => false
  end.
Definition fl_trace_carried_block : list fl_label :=
  [LEvent; LCycle fl_k0; LForeign ["other"]; LJson;     (* block refused: carried *)
   LDelete; LEvent; LCycle fl_k0].                       (* deletion started; the carried block is sent again *)

Lemma fl_add_request_while_deleting_refuted :
  exists c tr s, fl_run c (fl_init c [] true false) tr = Some s /\ fl_adds_while_deleting c s = true.
Proof. exists fl_cfg_plain, fl_trace_carried_block. eexists. split; vm_compute; reflexivity. Qed.

(* ... and whatever is requested, the server never shows the own finalizer appearing on a deleting object *)
Lemma fl_never_added_while_deleting_step : forall c s l s', fl_step c s l = Some s' ->
  v_deleting (sv s) = true -> fl_mem (c_own c) (v_fins (sv s)) = false -> (forall l', l <> LForeign l') ->
  fl_mem (c_own c) (v_fins (sv s')) = false.
Proof.
  intros c s l s' Hs Hd Hm Hl. destruct l; simpl in Hs.
  - exfalso; exact (Hl l' eq_refl).
  - destruct (v_alive (sv s)); [|discriminate]. injection Hs as <-. exact Hm.
  - destruct (v_alive (sv s) && _); [|discriminate]. injection Hs as <-. simpl.
    destruct (fl_with_deleting_proj (sv s)) as [_ [P2 _]]. rewrite P2. exact Hm.
  - injection Hs as <-. exact Hm.
  - destruct (p_view s) as [v|]; [|discriminate]. destruct (p_flight s); try discriminate. injection Hs as <-.
    destruct (fl_cycle_sv c s v k) as [C1 _]. rewrite C1. exact Hm.
  - destruct (p_flight s); try discriminate. destruct (v_alive (sv s)); injection Hs as <-; exact Hm.
  - destruct (p_flight s) as [| |fresh fns]; try discriminate. injection Hs as <-. unfold fl_json.
    destruct (fl_eqb _ _); [exact Hm|]. destruct (negb _); [exact Hm|].
    destruct (Nat.eqb (v_rv fresh) (v_rv (sv s)) && _) eqn:Et; [|exact Hm].
    apply andb_prop in Et. destruct Et as [_ Et]. rewrite Hd in Et. simpl in Et. apply negb_true_iff in Et.
    simpl. destruct (fl_with_fins_proj (sv s) (fl_apply_fns (c_own c) fns (v_fins fresh))) as [_ [P2 _]]. rewrite P2.
    destruct (fl_mem (c_own c) (fl_apply_fns (c_own c) fns (v_fins fresh))) eqn:E; [|reflexivity]. exfalso.
    unfold fl_adds in Et. rewrite <- not_true_iff_false in Et. apply Et. apply existsb_exists.
    unfold fl_mem in E. apply existsb_exists in E. destruct E as [x [Hin Hx]]. apply String.eqb_eq in Hx. subst x.
    exists (c_own c). split; [exact Hin|]. rewrite Hm. reflexivity.
  - destruct (p_daemon s); try discriminate; injection Hs as <-; exact Hm.
  - injection Hs as <-. exact Hm.
Qed.

(* ---------- released eventually: enabledness ---------- *)
(* From every state (reachable or not) in which the operator is idle with nothing carried, the object is being
   deleted and held by the own finalizer, the daemon is neither running nor being stopped, and H - if it matches -
   has a finished record or finishes now: delivering the event and running one cycle whose other handlers report no
   requirements and no delays, on a consistent view, followed by its requests with nobody interfering, takes the
   own finalizer off and leaves the others' entries as they were. *)
Definition fl_k_quiet (h_finishes extra_merge : bool) : fl_orc :=
  {| k_spawn_others := []; k_chg_others := []; k_low_empty := true; k_ctime := CtNone; k_timed_out := true;
     k_sdelays_others := []; k_cdelays_others := []; k_h_finishes := h_finishes; k_other_rec := true;
     k_extra_merge := extra_merge; k_stop := SStill |}.

Lemma fl_cycle_extra_merge : forall c s v k, v_alive v = true -> k_extra_merge k = true ->
  let sp := fl_spawning c v (p_daemon s) (p_forever s) (k_stop k) in
  let out := fz_decide (fl_atoms c s v k (snd sp) (fl_h_delay c v k)) in
  exists r, p_flight (fl_cycle c s v k) = FMerge r (p_carried s ++ o_fns out) /\ sv (fl_cycle c s v k) = sv s /\
            p_carried (fl_cycle c s v k) = p_carried s /\ p_view (fl_cycle c s v k) = None.
Proof.
  intros c s v k Hal Hk sp out. subst out. unfold fl_cycle. rewrite Hal. simpl negb. cbv iota.
  fold sp. destruct sp as [d' dd]. simpl snd. rewrite Hk. simpl. eexists. repeat split; reflexivity.
Qed.

Lemma fl_apply_all_allow : forall own fns l, (forall f, In f fns -> f = FAllow) -> fns <> [] ->
  fl_apply_fns own fns l = fl_allow own l.
Proof.
  intros own fns. induction fns as [|f fns IH]; intros l Hall Hne; [congruence|].
  assert (Hf : f = FAllow) by (apply Hall; left; reflexivity). subst f.
  change (fl_apply_fns own (FAllow :: fns) l) with (fl_apply_fns own fns (fl_allow own l)).
  destruct fns as [|g fns']; [reflexivity|].
  rewrite IH; [|intros f Hin; apply Hall; right; exact Hin | discriminate].
  apply (fl_foreign_idem own l).
Qed.

Definition fl_k_quiet_stop (stop : fl_stop) : fl_orc :=
  {| k_spawn_others := []; k_chg_others := []; k_low_empty := true; k_ctime := CtNone; k_timed_out := true;
     k_sdelays_others := []; k_cdelays_others := []; k_h_finishes := true; k_other_rec := true;
     k_extra_merge := true; k_stop := stop |}.

(* the same with the daemon's stop outcome as a parameter: it is enough that stop_daemons reports no delay for D *)
Theorem fl_released_eventually_stop : forall c s stop,
  p_flight s = FNone -> p_carried s = [] ->
  v_alive (sv s) = true -> v_deleting (sv s) = true -> fl_mem (c_own c) (v_fins (sv s)) = true ->
  snd (fl_spawning c (sv s) (p_daemon s) (p_forever s) stop) = [] ->
  exists s', fl_run c s [LEvent; LCycle (fl_k_quiet_stop stop); LMerge; LJson] = Some s' /\
             fl_mem (c_own c) (v_fins (sv s')) = false /\
             v_fins (sv s') = fl_foreign (c_own c) (v_fins (sv s)) /\
             p_carried s' = [] /\ p_flight s' = FNone.
Proof.
  intros c s stop Hf Hc Hal Hdel Hown Hd.
  set (k := fl_k_quiet_stop stop).
  set (s1 := fl_set_op s (Some (sv s)) (p_carried s) (p_flight s)).
  assert (E1 : fl_step c s LEvent = Some s1) by reflexivity.
  assert (E2 : fl_step c s1 (LCycle k) = Some (fl_cycle c s1 (sv s) k)).
  { simpl. rewrite Hf. reflexivity. }
  destruct (fl_cycle_extra_merge c s1 (sv s) k Hal eq_refl) as [r [F1 [F2 [F3 F4]]]].
  set (s2 := fl_cycle c s1 (sv s) k) in *.
  (* the decision of this cycle *)
  change (snd (fl_spawning c (sv s) (p_daemon s1) (p_forever s1) (k_stop k))) with
         (snd (fl_spawning c (sv s) (p_daemon s) (p_forever s) stop)) in F1. rewrite Hd in F1.
  set (a := fl_atoms c s1 (sv s) k [] (fl_h_delay c (sv s) k)) in *.
  assert (Hcar : p_carried s1 = []) by exact Hc.
  assert (Hhd : fl_h_delay c (sv s) k = []).
  { unfold fl_h_delay. simpl. rewrite andb_false_r. reflexivity. }
  assert (Hallow : In FAllow (o_fns (fz_decide a))).
  { apply fz_release_when_finished; unfold a, fl_atoms; simpl; auto.
    - rewrite Hal; reflexivity.
    - rewrite Hhd; reflexivity.
    - rewrite Hc; reflexivity. }
  assert (Hnoblock : forall f, In f (o_fns (fz_decide a)) -> f = FAllow).
  { intros f Hin. destruct f; [|reflexivity]. exfalso. apply fz_block_iff in Hin. destruct Hin as [_ [Hb _]].
    unfold a, fl_atoms in Hb; simpl in Hb. congruence. }
  rewrite Hcar in F1. simpl app in F1.
  set (fns := o_fns (fz_decide a)) in *.
  assert (Hne : fns <> []) by (intros E; rewrite E in Hallow; exact Hallow).
  (* the merge-patch *)
  assert (Hal2 : v_alive (sv s2) = true) by (rewrite F2; exact Hal).
  set (x' := fl_with_rec (sv s2) r).
  set (s3 := fl_set_op (fl_set_x s2 x' (g_foreign s2)) (p_view s2) (p_carried s2) (FJson x' fns)).
  assert (E3 : fl_step c s2 LMerge = Some s3).
  { simpl. rewrite F1, Hal2. destruct fns as [|f fns']; [congruence | reflexivity]. }
  (* the JSON-patch *)
  assert (Hto : fl_apply_fns (c_own c) fns (v_fins x') = fl_foreign (c_own c) (v_fins (sv s))).
  { rewrite (fl_apply_all_allow _ _ _ Hnoblock Hne). unfold x'. simpl. rewrite F2. reflexivity. }
  assert (Hfx : v_fins x' = v_fins (sv s)) by (unfold x'; simpl; rewrite F2; reflexivity).
  assert (Hneq : fl_eqb (fl_foreign (c_own c) (v_fins (sv s))) (v_fins (sv s)) = false).
  { destruct (fl_eqb (fl_foreign (c_own c) (v_fins (sv s))) (v_fins (sv s))) eqn:E; [|reflexivity].
    apply fl_eqb_eq in E. pose proof (fl_mem_allow (c_own c) (v_fins (sv s))) as Hq. unfold fl_foreign in E.
    rewrite E in Hq. congruence. }
  assert (Hna : fl_adds (v_fins (sv s)) (fl_foreign (c_own c) (v_fins (sv s))) = false).
  { unfold fl_adds. rewrite <- not_true_iff_false. intros Hx. apply existsb_exists in Hx. destruct Hx as [f [Hin Hfm]].
    unfold fl_foreign, fl_allow in Hin. apply filter_In in Hin. destruct Hin as [Hin _].
    apply negb_true_iff in Hfm. unfold fl_mem in Hfm. rewrite <- not_true_iff_false in Hfm. apply Hfm.
    apply existsb_exists. exists f. split; [exact Hin | apply String.eqb_refl]. }
  exists (fl_json c s3 x' fns). split.
  - unfold fl_run. rewrite E1, E2. fold s2. rewrite E3. simpl. reflexivity.
  - unfold fl_json. rewrite Hto, Hfx, Hneq.
    assert (Hsv3 : sv s3 = x') by reflexivity. rewrite Hsv3.
    assert (Hal3 : v_alive x' = true) by (unfold x'; simpl; exact Hal2). rewrite Hal3. simpl negb. cbv iota.
    rewrite Nat.eqb_refl. simpl v_deleting. simpl v_fins. rewrite F2. change (sv s1) with (sv s). rewrite Hna. rewrite andb_false_r. simpl.
    destruct (fl_with_fins_proj x' (fl_foreign (c_own c) (v_fins (sv s)))) as [_ [P2 _]]. rewrite P2.
    repeat split; auto. apply fl_mem_allow.
Qed.

Theorem fl_released_eventually : forall c s,
  p_flight s = FNone -> p_carried s = [] ->
  v_alive (sv s) = true -> v_deleting (sv s) = true -> fl_mem (c_own c) (v_fins (sv s)) = true ->
  fl_daemon_live (p_daemon s) = false ->
  exists s', fl_run c s [LEvent; LCycle (fl_k_quiet true true); LMerge; LJson] = Some s' /\
             fl_mem (c_own c) (v_fins (sv s')) = false /\
             v_fins (sv s') = fl_foreign (c_own c) (v_fins (sv s)) /\
             p_carried s' = [] /\ p_flight s' = FNone.
Proof.
  intros c s Hf Hc Hal Hdel Hown Hd.
  apply (fl_released_eventually_stop c s SStill Hf Hc Hal Hdel Hown).
  unfold fl_spawning, fl_staged. rewrite Hdel. destruct (p_daemon s); simpl in Hd; try discriminate; reflexivity.
Qed.
