(* The per-object half of the readiness gate and "the gate opens": invariants of Model/Gate.v. *)
From Coq Require Import List Bool Arith Lia.
From KV Require Import Model.Gate Proofs.Gate.
Import ListNotations.

Definition pre_index (p : ophase) : Prop := p = PToggled \/ p = PQueued \/ p = PRunning.
Definition in_first (p : ophase) : Prop := p = PChecked \/ p = PToggled.

Ltac eqb_cases :=
  repeat (match goal with
          | H : context [Nat.eqb ?a ?a] |- _ => rewrite Nat.eqb_refl in H
          | |- context [Nat.eqb ?a ?a] => rewrite Nat.eqb_refl
          | H : context [Nat.eqb ?a ?b] |- _ => destruct (Nat.eqb_spec a b); [try subst|]
          | |- context [Nat.eqb ?a ?b] => destruct (Nat.eqb_spec a b); [try subst|]
          end; simpl in *).
Ltac inl :=
  repeat match goal with
  | H : In _ (remove_nat _ _) |- _ => apply in_remove_nat in H; destruct H
  | H : In _ (_ :: _) |- _ => destruct H
  | H : In _ (_ ++ [_]) |- _ => apply in_app_iff in H; destruct H as [H|[H|[]]]
  | H : In _ [] |- _ => destruct H
  end.
Ltac crush := intros; unfold pre_index, in_first, upd in *; simpl in *; eqb_cases; inl; try subst;
  try (apply orb_true_iff; left);
  try tauto; try congruence; try lia; eauto 3;
  try solve [timeout 5 intuition (try congruence; try lia; eauto 2)];
  try solve [match goal with Hq : forall _, _ |- _ => eapply Hq; solve [congruence | eauto 2 | tauto] end];
  try solve [match goal with Hq : forall _ : nat, _, x : nat |- _ => eapply (Hq x); solve [congruence | eauto 2 | tauto] end];
  try solve [match goal with Hq : forall _ _ : nat, _, x : nat, y : nat |- _ => eapply (Hq x y); solve [congruence | eauto 2 | tauto] end].
Definition imark {A} (a : A) (x : nat) : Prop := True.
Ltac inst_nats :=
  repeat match goal with
  | Hq : forall _ : nat, _, x : nat |- _ =>
      lazymatch goal with
      | _ : imark Hq x |- _ => fail
      | _ => let Hn := fresh "Hi" in pose proof (Hq x) as Hn; assert (imark Hq x) by exact Logic.I
      end
  end;
  repeat match goal with Hm : imark _ _ |- _ => clear Hm end.
Ltac crush2 := intros; unfold pre_index, in_first, upd in *; simpl in *; eqb_cases; inl; try subst;
  try (apply orb_true_iff; left);
  inst_nats;
  rewrite ?app_length in *; simpl in *;
  repeat match goal with Heq : pend _ _ = _ :: _ |- _ => rewrite Heq in *; clear Heq end; simpl in *;
  repeat match goal with
  | |- In _ (remove_nat _ _) => apply in_remove_nat; split
  | |- In _ (_ ++ [_]) => apply in_app_iff; simpl
  end;
  try solve [intuition (try congruence; try lia; eauto 2)].
Lemma nodup_snoc_nat : forall (l : list nat) k, NoDup l -> ~ In k l -> NoDup (l ++ [k]).
Proof.
  intros l k; induction l as [|x l IH]; simpl; intros H Hn.
  - constructor; auto.
  - inversion H; subst. constructor.
    + rewrite in_app_iff; simpl. intros [Hx|[Hx|[]]]; [contradiction | subst; apply Hn; auto].
    + apply IH; auto.
Qed.

Ltac enter0 H := step_cases H; unfold touch, set_o, set_w; simpl.


Lemma st_nb_o : forall lim s l s', gstep lim s l = Some s' ->
  (forall o, ph (ost s o) <> PNew -> won (wst s (kind (ost s o))) = true) ->
  forall o, ph (ost s' o) <> PNew -> won (wst s' (kind (ost s' o))) = true.
Proof.
  intros lim s l s' H  I. enter0 H.
  all: try solve [timeout 10 crush].
  all: try solve [timeout 30 crush2].
Qed.

Lemma st_ung : forall lim s l s', gstep lim s l = Some s' ->
  KInv s ->
  (forall o, ph (ost s o) <> PNew -> gated (ost s o) = false -> opened s = true) ->
  forall o, ph (ost s' o) <> PNew -> gated (ost s' o) = false -> opened s' = true.
Proof.
  intros lim s l s' H HK  I. destruct HK. enter0 H.
  all: try solve [timeout 10 crush].
  all: try solve [timeout 30 crush2].
  intros o1; unfold upd; destruct (Nat.eqb_spec o1 o) as [->|Hne]; simpl.
  - intros _ Hg. apply negb_false_iff in Hg. apply orb_true_iff; left. apply k_open; [exact Hg | eapply k_nbw; eauto].
  - intros; apply orb_true_iff; left; eauto.
Qed.

Lemma st_early : forall lim s l s', gstep lim s l = Some s' ->
  KInv s ->
  (forall o, ph (ost s o) <> PNew -> early (ost s o) = true -> mk (ost s o) = true) ->
  forall o, ph (ost s' o) <> PNew -> early (ost s' o) = true -> mk (ost s' o) = true.
Proof.
  intros lim s l s' H HK  I. destruct HK. enter0 H.
  all: try solve [timeout 10 crush].
  all: try solve [timeout 30 crush2].
  intros o1; unfold upd; destruct (Nat.eqb_spec o1 o) as [->|Hne]; simpl; [|auto].
  intros _ He. apply andb_true_iff in He; destruct He as [Hx Hl]. apply negb_true_iff in Hl.
  rewrite (is_on_false_rtog s r (k_rt r H Hx Hl)), Hx. reflexivity.
Qed.

Lemma st_ot : forall lim s l s', gstep lim s l = Some s' ->
  (forall o, mk (ost s o) = true -> pre_index (ph (ost s o)) -> In o (otog s)) ->
  forall o, mk (ost s' o) = true -> pre_index (ph (ost s' o)) -> In o (otog s').
Proof.
  intros lim s l s' H  I. enter0 H.
  all: try solve [timeout 10 crush].
  all: try solve [timeout 30 crush2].
Qed.

Lemma st_busy : forall lim s l s', gstep lim s l = Some s' ->
  (forall r o, busy (wst s r) = Some o -> in_first (ph (ost s o)) /\ kind (ost s o) = r) ->
  forall r o, busy (wst s' r) = Some o -> in_first (ph (ost s' o)) /\ kind (ost s' o) = r.
Proof.
  intros lim s l s' H  I. enter0 H.
  all: try solve [timeout 10 crush].
  all: try solve [timeout 30 crush2].
Qed.

Lemma st_chk : forall lim s l s', gstep lim s l = Some s' ->
  (forall o, ph (ost s o) <> PNew -> won (wst s (kind (ost s o))) = true) ->
  (forall r o, busy (wst s r) = Some o -> in_first (ph (ost s o)) /\ kind (ost s o) = r) ->
  (forall o, in_first (ph (ost s o)) -> busy (wst s (kind (ost s o))) = Some o) ->
  forall o, in_first (ph (ost s' o)) -> busy (wst s' (kind (ost s' o))) = Some o.
Proof.
  intros lim s l s' H D0 D1 I. enter0 H.
  all: try solve [timeout 10 crush].
  all: try solve [timeout 30 crush2].
Qed.

Lemma st_chk_e : forall lim s l s', gstep lim s l = Some s' ->
  (forall o, ph (ost s o) <> PNew -> won (wst s (kind (ost s o))) = true) ->
  (forall o, in_first (ph (ost s o)) -> busy (wst s (kind (ost s o))) = Some o) ->
  (forall o, ph (ost s o) = PChecked -> early (ost s o) = true -> listed s (kind (ost s o)) = false /\ windexed (wst s (kind (ost s o))) = true) ->
  forall o, ph (ost s' o) = PChecked -> early (ost s' o) = true -> listed s' (kind (ost s' o)) = false /\ windexed (wst s' (kind (ost s' o))) = true.
Proof.
  intros lim s l s' H D0 D1 I. enter0 H.
  all: try solve [timeout 10 crush].
  all: try solve [timeout 30 crush2].
  intros o1; unfold upd; destruct (Nat.eqb_spec o1 o) as [->|Hne]; simpl.
  - rewrite Nat.eqb_refl; simpl. intros _ He. apply andb_true_iff in He; destruct He as [Hx Hl].
    apply negb_true_iff in Hl. auto.
  - intros Hp He. destruct (I o1 Hp He) as [Ha Hb]. split; [exact Ha|].
    destruct (Nat.eqb_spec (kind (ost s o1)) r) as [e|e]; simpl; [rewrite <- e; exact Hb | exact Hb].
Qed.

Lemma st_k1 : forall lim s l s', gstep lim s l = Some s' ->
  (forall o, In o (otog s) -> pre_index (ph (ost s o))) ->
  forall o, In o (otog s') -> pre_index (ph (ost s' o)).
Proof.
  intros lim s l s' H  I. enter0 H.
  all: try solve [timeout 10 crush].
  all: try solve [timeout 30 crush2].
Qed.

Lemma st_k4 : forall lim s l s', gstep lim s l = Some s' ->
  (forall r, nrun s r + List.length (pend s r) <= nseen s r) ->
  forall r, nrun s' r + List.length (pend s' r) <= nseen s' r.
Proof.
  intros lim s l s' H  I. enter0 H.
  all: try solve [timeout 10 crush].
  all: try solve [timeout 30 crush2].
  - intro r0; unfold upd; destruct (Nat.eqb_spec r0 (kind (ost s o))) as [->|Hne]; [|apply I].
    specialize (I (kind (ost s o))). rewrite Heql in I. simpl in *. lia.
  - intro r0; unfold upd; destruct (Nat.eqb_spec r0 (kind (ost s o))) as [->|Hne]; [|apply I].
    specialize (I (kind (ost s o))). lia.
  - intro r0; unfold upd; destruct (Nat.eqb_spec r0 (kind (ost s o))) as [->|Hne]; [|apply I].
    specialize (I (kind (ost s o))). lia.
Qed.

Lemma st_k5 : forall lim s l s', gstep lim s l = Some s' ->
  (forall r o, busy (wst s r) = Some o -> in_first (ph (ost s o)) /\ kind (ost s o) = r) ->
  (forall r, NoDup (pend s r)) ->
  (forall r o, In o (pend s r) -> ph (ost s o) = PQueued /\ kind (ost s o) = r) ->
  forall r o, In o (pend s' r) -> ph (ost s' o) = PQueued /\ kind (ost s' o) = r.
Proof.
  intros lim s l s' H D0 D1 I. enter0 H.
  all: try solve [timeout 10 crush].
  all: try solve [timeout 30 crush2].
  subst n. intros r0 o1; unfold upd. destruct (Nat.eqb_spec r0 (kind (ost s o))) as [->|Hne].
  - intro Hin. assert (Hin' : In o1 (pend s (kind (ost s o)))) by (rewrite Heql; right; exact Hin).
    destruct (Nat.eqb_spec o1 o) as [->|Hno]; simpl.
    + exfalso. specialize (D1 (kind (ost s o))). rewrite Heql in D1. inversion D1; subst. contradiction.
    + apply I; exact Hin'.
  - intro Hin. destruct (Nat.eqb_spec o1 o) as [->|Hno]; simpl.
    + destruct (I _ _ Hin) as [_ Hk]. exfalso; apply Hne; symmetry; exact Hk.
    + apply I; exact Hin.
Qed.

Lemma st_k6 : forall lim s l s', gstep lim s l = Some s' ->
  (forall r o, In o (pend s r) -> ph (ost s o) = PQueued /\ kind (ost s o) = r) ->
  (forall r, NoDup (pend s r)) ->
  forall r, NoDup (pend s' r).
Proof.
  intros lim s l s' H D0 I. enter0 H.
  all: try solve [timeout 10 crush].
  all: try solve [timeout 30 crush2].
  all: try (intro r0; unfold upd; destruct (Nat.eqb_spec r0 r) as [->|Hne]; [|apply I];
            apply nodup_snoc_nat; [apply I|]; intro Hin; destruct (D0 _ _ Hin) as [Hq _]; congruence).
  intro r0; unfold upd; destruct (Nat.eqb_spec r0 (kind (ost s o))) as [->|Hne]; [|apply I].
  specialize (I (kind (ost s o))). rewrite Heql in I. inversion I; assumption.
Qed.

Lemma st_k5q : forall lim s l s', gstep lim s l = Some s' ->
  (forall r o, busy (wst s r) = Some o -> in_first (ph (ost s o)) /\ kind (ost s o) = r) ->
  (forall r o, In o (pend s r) -> ph (ost s o) = PQueued /\ kind (ost s o) = r) ->
  (forall o, ph (ost s o) = PQueued -> In o (pend s (kind (ost s o)))) ->
  forall o, ph (ost s' o) = PQueued -> In o (pend s' (kind (ost s' o))).
Proof.
  intros lim s l s' H D0 D1 I. enter0 H.
  all: try solve [timeout 10 crush].
  all: try solve [timeout 30 crush2].
  subst n. intros o1; unfold upd. destruct (Nat.eqb_spec o1 o) as [->|Hno]; simpl; [discriminate|].
  intro Hq. pose proof (I o1 Hq) as Hin.
  destruct (Nat.eqb_spec (kind (ost s o1)) (kind (ost s o))) as [e|e]; [|exact Hin].
  rewrite e, Heql in Hin. destruct Hin as [Hx|Hx]; [subst; contradiction | exact Hx].
Qed.

Lemma st_kn : forall lim s l s', gstep lim s l = Some s' ->
  (NoDup (kinds s) /\ forall r, won (wst s r) = true <-> In r (kinds s)) ->
  NoDup (kinds s') /\ forall r, won (wst s' r) = true <-> In r (kinds s').
Proof.
  intros lim s l s' H  I. enter0 H.
  all: try solve [timeout 10 crush].
  all: try solve [timeout 30 crush2].
  all: destruct I as [Hnd Hiff].
  - split; [constructor; [rewrite <- Hiff; congruence | exact Hnd]|].
    intro r0; unfold upd; destruct (Nat.eqb_spec r0 r) as [->|Hne]; simpl.
    + split; auto.
    + rewrite Hiff. split; [auto | intros [Hx|Hx]; [congruence | exact Hx]].
  - split; [exact Hnd|]. intro r0; unfold upd; destruct (Nat.eqb_spec r0 r) as [->|Hne]; simpl; [|apply Hiff].
    split; [intros _; apply Hiff; assumption | reflexivity].
  - split; [exact Hnd|]. intro r0; unfold upd; destruct (Nat.eqb_spec r0 r) as [->|Hne]; simpl; apply Hiff.
  - split; [exact Hnd|]. intro r0; unfold upd; destruct (Nat.eqb_spec r0 r) as [->|Hne]; simpl; apply Hiff.
Qed.


(* ---------- F11: with fewer slots than first-seen objects of an indexed kind the gate never opens ---------- *)
Definition Stuck (n : nat) (s : gst) : Prop :=
  n <= nrun s 0 /\
  (forall o, ph (ost s o) <> PPassed /\ (kind (ost s o) = 0 -> ph (ost s o) <> PRunning /\ ph (ost s o) <> PFailed)) /\
  (forall o, ph (ost s o) <> PNew -> gated (ost s o) = true) /\
  (forall r, won (wst s r) = true -> armed (wst s r) = true) /\
  (exists o, In o (otog s) /\ ph (ost s o) = PQueued /\ kind (ost s o) = 0).

Lemma stuck_step : forall n s l s', Stuck n s -> gstep (Some n) s l = Some s' -> Stuck n s'.
Proof.
  intros n s l s' (Hn & Hp & Hg & Ha & (ob & Hin & Hq & Hk)) H.
  assert (Hoff : is_on s = false) by (eapply is_on_false_otog; eauto).
  enter0 H; unfold Stuck; simpl.
  (* branches that cannot be taken in a stuck state *)
  all: try solve [exfalso;
    first [ match goal with H1 : won (wst _ ?r) = true, H2 : armed (wst _ ?r) = false |- _ => rewrite (Ha r H1) in H2; discriminate end
          | match goal with H1 : ph (ost _ ?o) = PPassed |- _ => apply (proj1 (Hp o) H1) end
          | match goal with H1 : ph (ost _ ?o) = PWaiting, H2 : gated (ost _ ?o) = false |- _ =>
              rewrite Hg in H2 by congruence; discriminate end
          | congruence ]].
  all: try match goal with Hph : ph (ost _ ?o) = PFailed |- _ =>
              assert (kind (ost s o) <> 0) by (intro Hk0; destruct (proj2 (Hp o) Hk0); congruence) end.
  all: try match goal with Hph : ph (ost _ ?o) = PRunning |- _ =>
              assert (kind (ost s o) <> 0) by (intro Hk0; destruct (proj2 (Hp o) Hk0); congruence) end.
  all: try match goal with Hlt : nrun _ (kind (ost _ ?o)) < _ |- _ =>
              assert (kind (ost s o) <> 0) by (intro Hk0; rewrite Hk0 in Hlt; lia) end.
  all: split; [try assumption; try (unfold upd; eqb_cases; try lia; try congruence; fail) |].
  all: try (split; [solve [timeout 20 crush2] |]).
  all: try (split; [solve [intros o1; unfold upd; eqb_cases; intros; try rewrite Hoff; simpl; try reflexivity;
                           try (apply Hg; congruence); auto] |]).
  all: try (split; [solve [intros r1; unfold upd; eqb_cases; intros; try rewrite Hoff; simpl; try reflexivity; auto] |]).
  all: try solve [exists ob; unfold upd; eqb_cases; try congruence;
                  split; [first [right; assumption | apply in_remove_nat; split; [assumption | congruence] | assumption]
                         | split; assumption]].
Qed.

Lemma stuck_run : forall n tr s s', Stuck n s -> grun (Some n) s tr = Some s' -> Stuck n s'.
Proof.
  intros n tr; induction tr as [|l tr IH]; intros s s' HS H; simpl in H.
  - injection H as <-; exact HS.
  - destruct (gstep (Some n) s l) as [s1|] eqn:E; [|discriminate]. eapply IH; [eapply stuck_step; eauto | exact H].
Qed.

(* the trace recorded from the real watcher/worker/processor with worker_limit=2 and three pre-existing objects *)
Definition f11_trace : list label :=
  [MakeBlocker; MakeRes 0 true; DropBlocker;
   SeenCheck 0 0 false; SeenMake 0 0; Spawn 0 0 true true; Start 0; Indexed 0;
   SeenCheck 0 1 false; SeenMake 0 1; Spawn 0 1 true true; Start 1; Indexed 1;
   SeenCheck 0 2 false; SeenMake 0 2; Spawn 0 2 true true; Listed 0].
Definition f11_state : gst := match grun (Some 2) ginit f11_trace with Some s => s | None => ginit end.

Lemma f11_reached : grun (Some 2) ginit f11_trace = Some f11_state.
Proof. vm_compute. reflexivity. Qed.

Lemma f11_stuck : Stuck 2 f11_state.
Proof.
  unfold Stuck. split; [vm_compute; lia|].
  split; [intro o; do 3 (destruct o as [|o]; [vm_compute; split; [discriminate | intros _; split; discriminate]|]);
          vm_compute; split; [discriminate | intros _; split; discriminate]|].
  split; [intro o; do 3 (destruct o as [|o]; [vm_compute; reflexivity|]); vm_compute; intro H; exfalso; apply H; reflexivity|].
  split; [intro r; destruct r as [|r]; vm_compute; [reflexivity | discriminate]|].
  exists 2. vm_compute. auto.
Qed.

Theorem gate_limited_deadlock :
  exists s0, grun (Some 2) ginit f11_trace = Some s0 /\
    blocker s0 = false /\ rtog s0 = [] /\ nseen s0 0 = 3 /\          (* all listings finished; three first-seen objects *)
    forall tr s, grun (Some 2) s0 tr = Some s ->
      is_on s = false /\ forall o, ph (ost s o) <> PPassed.           (* ... and no handler-side start, ever *)
Proof.
  exists f11_state. split; [exact f11_reached|]. split; [reflexivity|]. split; [reflexivity|]. split; [reflexivity|].
  intros tr s H. pose proof (stuck_run 2 tr f11_state s f11_stuck H) as (_ & Hp & _ & _ & (o & Hin & _)).
  split; [eapply is_on_false_otog; eauto | intro o1; exact (proj1 (Hp o1))].
Qed.


(* ---------- the full invariant ---------- *)
Record OInv (s : gst) : Prop := mkOInv {
  o_k : KInv s;
  o_nb_o : forall o, ph (ost s o) <> PNew -> won (wst s (kind (ost s o))) = true;
  o_ung : forall o, ph (ost s o) <> PNew -> gated (ost s o) = false -> opened s = true;
  o_early : forall o, ph (ost s o) <> PNew -> early (ost s o) = true -> mk (ost s o) = true;
  o_ot : forall o, mk (ost s o) = true -> pre_index (ph (ost s o)) -> In o (otog s);
  o_busy : forall r o, busy (wst s r) = Some o -> in_first (ph (ost s o)) /\ kind (ost s o) = r;
  o_chk : forall o, in_first (ph (ost s o)) -> busy (wst s (kind (ost s o))) = Some o;
  o_chk_e : forall o, ph (ost s o) = PChecked -> early (ost s o) = true ->
                      listed s (kind (ost s o)) = false /\ windexed (wst s (kind (ost s o))) = true;
  o_k1 : forall o, In o (otog s) -> pre_index (ph (ost s o));
  o_k4 : forall r, nrun s r + List.length (pend s r) <= nseen s r;
  o_k5 : forall r o, In o (pend s r) -> ph (ost s o) = PQueued /\ kind (ost s o) = r;
  o_k6 : forall r, NoDup (pend s r);
  o_k5q : forall o, ph (ost s o) = PQueued -> In o (pend s (kind (ost s o)));
  o_kn : NoDup (kinds s) /\ forall r, won (wst s r) = true <-> In r (kinds s)
}.

Lemma oinv_init : OInv ginit.
Proof.
  constructor; simpl; try exact kinv_init; try (intros; discriminate); try (intros; contradiction);
    try (intros o H; exfalso; apply H; reflexivity).
  - intros o [H|H]; discriminate.
  - intro r; lia.
  - intro r; constructor.
  - split; [constructor | intro r; split; [discriminate | tauto]].
Qed.

Lemma oinv_step : forall lim s l s', OInv s -> gstep lim s l = Some s' -> OInv s'.
Proof.
  intros lim s l s' I H. destruct I as [Kk Nbo Ung Ear Ot Bus Chk Chke K1 K4 K5 K6 K5q Kn]. constructor.
  - exact (kinv_step lim s l s' Kk H).
  - exact (st_nb_o lim s l s' H Nbo).
  - exact (st_ung lim s l s' H Kk Ung).
  - exact (st_early lim s l s' H Kk Ear).
  - exact (st_ot lim s l s' H Ot).
  - exact (st_busy lim s l s' H Bus).
  - exact (st_chk lim s l s' H Nbo Bus Chk).
  - exact (st_chk_e lim s l s' H Nbo Chk Chke).
  - exact (st_k1 lim s l s' H K1).
  - exact (st_k4 lim s l s' H K4).
  - exact (st_k5 lim s l s' H Bus K6 K5).
  - exact (st_k6 lim s l s' H K5 K6).
  - exact (st_k5q lim s l s' H Bus K5 K5q).
  - exact (st_kn lim s l s' H Kn).
Qed.

Lemma oinv_run : forall lim tr s s', OInv s -> grun lim s tr = Some s' -> OInv s'.
Proof.
  intros lim tr; induction tr as [|l tr IH]; intros s s' HS H; simpl in H.
  - injection H as <-; exact HS.
  - destruct (gstep lim s l) as [s1|] eqn:E; [|discriminate]. eapply IH; [eapply oinv_step; eauto | exact H].
Qed.

Lemma reachable_oinv : forall lim tr s, grun lim ginit tr = Some s -> OInv s.
Proof. intros lim tr s H. exact (oinv_run lim tr ginit s oinv_init H). Qed.

(* ---------- safety: an empty toggle set means the operator IS ready ---------- *)
Lemma on_ready : forall s, OInv s -> is_on s = true -> Ready s.
Proof.
  intros s I Hon. destruct I as [Kk Nbo Ung Ear Ot Bus Chk Chke K1 K4 K5 K6 K5q Kn]. destruct Kk.
  split; [|split].
  - unfold is_on in Hon. destruct (blocker s); [discriminate | reflexivity].
  - intros r Hw Hx. destruct (listed s r) eqn:El; [reflexivity|].
    rewrite (is_on_false_rtog s r (k_rt r Hw Hx El)) in Hon; discriminate.
  - intros o He. destruct (ph (ost s o)) eqn:Ep; simpl; try reflexivity; exfalso;
      try solve [ assert (Hm : mk (ost s o) = true) by (apply Ear; congruence);
                  assert (Hpi : pre_index (ph (ost s o))) by (unfold pre_index; rewrite Ep; auto 6);
                  rewrite (is_on_false_otog s o (Ot o Hm Hpi)) in Hon; discriminate ].
    destruct (Chke o Ep He) as [Hl Hx].
    assert (Hw : won (wst s (kind (ost s o))) = true) by (apply Nbo; congruence).
    rewrite (is_on_false_rtog s _ (k_rt _ Hw Hx Hl)) in Hon; discriminate.
Qed.

Lemma pass_inv : forall lim s o s', gstep lim s (Pass o) = Some s' ->
  ph (ost s o) = PWaiting /\ (gated (ost s o) = false \/ is_on s = true).
Proof.
  intros lim s o s' H. unfold gstep in H. destruct (step0 lim s (Pass o)) eqn:E; [|discriminate]. simpl in E.
  destruct (phase_eqb (ph (ost s o)) PWaiting && (negb (gated (ost s o)) || is_on s)) eqn:G; [|discriminate].
  apply andb_true_iff in G; destruct G as [G1 G2]. apply phase_eqb_eq in G1. split; [exact G1|].
  apply orb_true_iff in G2; destruct G2 as [G2|G2]; [left; apply negb_true_iff; exact G2 | right; exact G2].
Qed.

(* C17, second sentence, for a worker that still knows the gate *)
Theorem gate_safety : forall lim tr s o s',
  grun lim ginit tr = Some s -> gstep lim s (Pass o) = Some s' -> gated (ost s o) = true -> Ready s.
Proof.
  intros lim tr s o s' Hr Hs Hg. destruct (pass_inv lim s o s' Hs) as [_ [Hc|Hon]]; [congruence|].
  exact (on_ready s (reachable_oinv lim tr s Hr) Hon).
Qed.

Lemma grun_app : forall lim a b s, grun lim s (a ++ b) = match grun lim s a with Some s1 => grun lim s1 b | None => None end.
Proof.
  intros lim a; induction a as [|l a IH]; intros b s; simpl; [reflexivity|].
  destruct (gstep lim s l); [apply IH | reflexivity].
Qed.

Lemma gstep_opened : forall lim s l s', gstep lim s l = Some s' ->
  opened s' = opened s || (is_on s' && Nat.ltb 0 (nblock s')).
Proof.
  intros lim s l s' H. unfold gstep in H. destruct (step0 lim s l) as [x|] eqn:E; [|discriminate].
  simpl in H; injection H as <-.
  assert (Ho : opened x = opened s).
  { unfold step0 in E. destruct l; split_ifs E; injection E as <-; reflexivity. }
  unfold touch; simpl. rewrite Ho. reflexivity.
Qed.

(* the ghost [opened] is honest: it is set only when an earlier (or the current) state had an empty toggle set *)
Lemma opened_witness : forall lim tr s, grun lim ginit tr = Some s -> opened s = true ->
  exists tr1 tr2 s1, tr = tr1 ++ tr2 /\ grun lim ginit tr1 = Some s1 /\ is_on s1 = true /\ 0 < nblock s1.
Proof.
  intros lim tr; induction tr as [|l tr IH] using rev_ind; intros s Hr Ho.
  - simpl in Hr; injection Hr as <-. discriminate.
  - rewrite grun_app in Hr. destruct (grun lim ginit tr) as [s0|] eqn:E0; [|discriminate].
    simpl in Hr. destruct (gstep lim s0 l) as [s1|] eqn:E1; [|discriminate]. injection Hr as <-.
    rewrite (gstep_opened lim s0 l s1 E1) in Ho. apply orb_true_iff in Ho. destruct Ho as [Ho|Ho].
    + destruct (IH s0 eq_refl Ho) as (tr1 & tr2 & sx & Et & Er & Hon & Hn).
      exists tr1, (tr2 ++ [l]), sx. rewrite app_assoc, <- Et. auto.
    + apply andb_true_iff in Ho; destruct Ho as [Hon Hn]. apply Nat.ltb_lt in Hn.
      exists (tr ++ [l]), [], s1. rewrite app_nil_r. split; [reflexivity|]. split; [|auto].
      rewrite grun_app, E0. simpl. rewrite E1. reflexivity.
Qed.

(* C17, second sentence, for every worker: nothing passes before the operator has been ready at least once *)
Theorem gate_safety_any : forall lim tr s o s',
  grun lim ginit tr = Some s -> gstep lim s (Pass o) = Some s' ->
  exists tr1 tr2 s1, tr = tr1 ++ tr2 /\ grun lim ginit tr1 = Some s1 /\ Ready s1 /\ 0 < nblock s1.
Proof.
  intros lim tr s o s' Hr Hs. pose proof (reachable_oinv lim tr s Hr) as I.
  destruct (pass_inv lim s o s' Hs) as [Hp [Hg|Hon]].
  - assert (Ho : opened s = true) by (apply (o_ung s I o); [congruence | exact Hg]).
    destruct (opened_witness lim tr s Hr Ho) as (tr1 & tr2 & s1 & Et & Er & Hon & Hn).
    exists tr1, tr2, s1. split; [exact Et|]. split; [exact Er|]. split; [|exact Hn].
    exact (on_ready s1 (reachable_oinv lim tr1 s1 Er) Hon).
  - exists tr, [], s. rewrite app_nil_r. split; [reflexivity|]. split; [exact Hr|]. split; [exact (on_ready s I Hon)|].
    destruct I as [Kk Nbo _ _ _ _ _ _ _ _ _ _ _ _]. destruct Kk.
    apply (k_nbw (kind (ost s o))). apply Nbo. congruence.
Qed.

(* first-seen-early objects do get their toggle: what [early] means in terms of the history *)
Lemma early_means : forall lim s r o on s', gstep lim s (SeenCheck r o on) = Some s' ->
  early (ost s' o) = (windexed (wst s r) && negb (listed s r)).
Proof.
  intros lim s r o on s' H. unfold gstep in H. destruct (step0 lim s (SeenCheck r o on)) as [x|] eqn:E; [|discriminate].
  simpl in H; injection H as <-. simpl in E.
  destruct (won (wst s r) && armed (wst s r) && is_none (busy (wst s r)) && phase_eqb (ph (ost s o)) PNew
            && eqb on (is_on s)); [|discriminate].
  injection E as <-. unfold touch, set_o, set_w; simpl. rewrite upd_same. reflexivity.
Qed.

(* ---------- the gate opens: no toggle is leaked, given enough scheduler slots ---------- *)
Fixpoint sumf (f : nat -> nat) (ks : list nat) : nat :=
  match ks with [] => 0 | k :: t => f k + sumf f t end.

Lemma sum_pend_sumf : forall s, sum_pend s = sumf (fun r => List.length (pend s r)) (kinds s).
Proof. intro s; unfold sum_pend. induction (kinds s); simpl; auto. Qed.

Lemma sumf_ext : forall f g ks, (forall x, In x ks -> g x = f x) -> sumf g ks = sumf f ks.
Proof.
  intros f g ks; induction ks as [|k t IH]; intros H; simpl; [reflexivity|].
  rewrite (H k (or_introl eq_refl)), IH; [reflexivity|]. intros x Hx; apply H; right; exact Hx.
Qed.

Lemma sumf_dec : forall f g ks r, NoDup ks -> In r ks -> g r < f r -> (forall x, x <> r -> g x = f x) ->
  sumf g ks < sumf f ks.
Proof.
  intros f g ks r; induction ks as [|k t IH]; intros Hnd Hin Hlt Hoth; [contradiction|].
  inversion Hnd as [|? ? Hnk Hnd']; subst. simpl. destruct Hin as [->|Hin].
  - rewrite (sumf_ext f g t); [lia|]. intros x Hx. apply Hoth. intro; subst; contradiction.
  - assert (k <> r) by (intro; subst; contradiction). rewrite (Hoth k H). specialize (IH Hnd' Hin Hlt Hoth). lia.
Qed.

Lemma touch_measure : forall x, measure (touch x) = measure x.
Proof. reflexivity. Qed.

Lemma progress_exists : forall lim s, OInv s -> quiescent s -> limit_ok lim s -> is_on s = false ->
  exists l s', progress_label l = true /\ gstep lim s l = Some s' /\ measure s' < measure s /\
               quiescent s' /\ limit_ok lim s'.
Proof.
  intros lim s I Hq Hl Hoff. destruct I as [Kk Nbo Ung Ear Ot Bus Chk Chke K1 K4 K5 K6 K5q Kn]. destruct Kk.
  destruct (blocker s) eqn:Eb.
  { (* the orchestration blocker is still there: spawn_missing_watchers drops it *)
    exists DropBlocker. eexists. split; [reflexivity|]. split; [unfold gstep, step0; rewrite Eb; reflexivity|].
    rewrite touch_measure. unfold measure, sum_pend; simpl. rewrite Eb.
    split; [lia|]. split; [exact Hq | exact Hl]. }
  destruct (rtog s) as [|r rt] eqn:Er.
  2:{ (* a kind is not listed yet: its watcher reaches Bookmark.LISTED *)
    assert (Hw : won (wst s r) = true) by (apply k_k3; first [rewrite Er | idtac]; left; reflexivity).
    assert (Hb : busy (wst s r) = None).
    { destruct (busy (wst s r)) as [o|] eqn:E; [|reflexivity].
      destruct (Bus r o E) as [[Hp|Hp] _]; destruct (Hq o); contradiction. }
    exists (Listed r). eexists. split; [reflexivity|].
    split; [unfold gstep, step0; rewrite Hw, Hb; reflexivity|].
    rewrite touch_measure. unfold measure, sum_pend; simpl. rewrite Eb.
    assert (Hlt : List.length (remove_nat r (rtog s)) < List.length (rtog s))
      by (apply remove_nat_length; first [rewrite Er | idtac]; left; reflexivity).
    split; [lia|]. split; [exact Hq | exact Hl]. }
  destruct (otog s) as [|o ot] eqn:Eo.
  { unfold is_on in Hoff. rewrite Eb, Er, Eo in Hoff. discriminate. }
  assert (Hin : In o (otog s)) by (first [rewrite Eo | idtac]; left; reflexivity).
  destruct (K1 o (or_introl eq_refl)) as [Hp|[Hp|Hp]]; [destruct (Hq o); contradiction | |].
  - (* the object with a toggle is still queued: its watcher's scheduler starts the head of the queue *)
    pose proof (K5q o Hp) as Hpend. set (r := kind (ost s o)) in *.
    destruct (pend s r) as [|o' rest] eqn:Ep; [contradiction|].
    assert (Hino' : In o' (pend s r)) by (rewrite Ep; left; reflexivity).
    destruct (K5 r o' Hino') as [Hp' Hk'].
    assert (Hlim : match lim with None => true | Some n => Nat.ltb (nrun s r) n end = true).
    { destruct lim as [n|]; [|reflexivity]. apply Nat.ltb_lt. specialize (K4 r). specialize (Hl r).
      rewrite Ep in K4. simpl in K4. lia. }
    exists (Start o'). eexists. split; [reflexivity|]. split.
    + unfold gstep, step0. rewrite Hk', Ep, Nat.eqb_refl, Hp', Hlim. reflexivity.
    + rewrite touch_measure. split; [|split].
      * unfold measure; simpl. rewrite !sum_pend_sumf; simpl.
        assert (Hdec : sumf (fun r0 => List.length (upd (pend s) r rest r0)) (kinds s)
                       < sumf (fun r0 => List.length (pend s r0)) (kinds s)).
        { apply (sumf_dec _ _ _ r); [exact (proj1 Kn) | | |].
          - apply (proj2 Kn). rewrite <- Hk'. apply Nbo. congruence.
          - rewrite upd_same, Ep. simpl. lia.
          - intros x Hx. rewrite upd_other by exact Hx. reflexivity. }
        unfold set_o; simpl. lia.
      * intro x. unfold set_o; simpl. unfold upd. destruct (Nat.eqb_spec x o'); simpl; [split; discriminate | apply Hq].
      * destruct lim; [|exact I]. intro r0. apply Hl.
  - (* the object with a toggle is being indexed: its processor finishes and drops the toggle *)
    exists (Indexed o). eexists. split; [reflexivity|]. split.
    + unfold gstep, step0. rewrite Hp. reflexivity.
    + rewrite touch_measure. split; [|split].
      * unfold measure, sum_pend, set_o; simpl.
        pose proof (remove_nat_length o (otog s) Hin). lia.
      * intro x. unfold set_o; simpl. unfold upd. destruct (Nat.eqb_spec x o); simpl; [split; discriminate | apply Hq].
      * destruct lim; [|exact I]. intro r0. apply Hl.
Qed.

Lemma opens_measure : forall lim n s, OInv s -> quiescent s -> limit_ok lim s -> measure s <= n ->
  exists tr s', forallb progress_label tr = true /\ grun lim s tr = Some s' /\ is_on s' = true /\
                quiescent s' /\ limit_ok lim s' /\ (forall r, nseen s' r = nseen s r).
Proof.
  intros lim n; induction n as [|n IH]; intros s I Hq Hl Hm.
  - destruct (is_on s) eqn:Hon.
    + exists [], s. simpl. split; [reflexivity|]. split; [reflexivity|]. split; [exact Hon|].
      split; [exact Hq|]. split; [exact Hl|]. intro; reflexivity.
    + destruct (progress_exists lim s I Hq Hl Hon) as (l & s' & _ & _ & Hlt & _). lia.
  - destruct (is_on s) eqn:Hon.
    + exists [], s. simpl. split; [reflexivity|]. split; [reflexivity|]. split; [exact Hon|].
      split; [exact Hq|]. split; [exact Hl|]. intro; reflexivity.
    + destruct (progress_exists lim s I Hq Hl Hon) as (l & s1 & Hpl & Hs & Hlt & Hq1 & Hl1).
      assert (Hm1 : measure s1 <= n) by lia.
      destruct (IH s1 (oinv_step lim s l s1 I Hs) Hq1 Hl1 Hm1) as (tr & s' & Hf & Hr & Hon' & Hq' & Hl' & Hn').
      exists (l :: tr), s'. simpl. rewrite Hpl, Hs. split; [exact Hf|]. split; [exact Hr|].
      split; [exact Hon'|]. split; [exact Hq'|]. split; [exact Hl'|].
      intro r. rewrite Hn'.
      (* progress labels spawn and retire nobody *)
      clear - Hs Hpl. unfold gstep in Hs. destruct (step0 lim s l) as [x|] eqn:E; [|discriminate].
      simpl in Hs; injection Hs as <-. unfold step0 in E.
      destruct l; simpl in Hpl; try discriminate; split_ifs E; injection E as <-; reflexivity.
Qed.

(* From every reachable state in which no watcher is in the middle of a first event, if every watcher's scheduler
   has at least as many slots as workers alive (or no limit), the operator's own steps — drop the blocker, reach
   LISTED, start queued workers, finish indexing — lead to an empty toggle set; then every worker at the gate passes. *)
Theorem gate_opens : forall lim tr s,
  grun lim ginit tr = Some s -> quiescent s -> limit_ok lim s ->
  exists tr' s', forallb progress_label tr' = true /\ grun lim s tr' = Some s' /\ is_on s' = true /\
    (forall o, ph (ost s' o) = PWaiting -> exists s'', gstep lim s' (Pass o) = Some s'').
Proof.
  intros lim tr s Hr Hq Hl.
  destruct (opens_measure lim (measure s) s (reachable_oinv lim tr s Hr) Hq Hl (le_n _))
    as (tr' & s' & Hf & Hr' & Hon & _).
  exists tr', s'. split; [exact Hf|]. split; [exact Hr'|]. split; [exact Hon|].
  intros o Hp. unfold gstep, step0. rewrite Hp, Hon. simpl. rewrite orb_true_r. simpl. eexists; reflexivity.
Qed.

(* the deadlock, for every limit: a state in which [n] workers of one watcher hold all its slots at the gate while a
   toggled object of that watcher is still queued never recovers *)
Theorem stuck_forever : forall n s, Stuck n s ->
  forall tr s', grun (Some n) s tr = Some s' -> is_on s' = false /\ forall o, ph (ost s' o) <> PPassed.
Proof.
  intros n s HS tr s' H. pose proof (stuck_run n tr s s' HS H) as (_ & Hp & _ & _ & (o & Hin & _)).
  split; [eapply is_on_false_otog; eauto | intro o1; exact (proj1 (Hp o1))].
Qed.

(* the hypotheses of [gate_opens] are satisfiable and its conclusion is not trivial *)
Example gate_opens_nonvacuous :
  exists s, grun (Some 3) ginit f11_trace = Some s /\ quiescent s /\ limit_ok (Some 3) s /\ is_on s = false.
Proof.
  eexists. split; [vm_compute; reflexivity|]. split; [|split; [|vm_compute; reflexivity]].
  - intro o. do 3 (destruct o as [|o]; [vm_compute; split; discriminate|]). vm_compute; split; discriminate.
  - intro r. destruct r as [|r]; vm_compute; lia.
Qed.

(* ... and fail exactly on the F11 state: limit 2 < 3 workers alive *)
Example gate_opens_guard_fails_on_f11 : ~ limit_ok (Some 2) f11_state.
Proof. intro H. specialize (H 0). vm_compute in H. lia. Qed.

Example gate_safety_nonvacuous :
  exists s s', grun (Some 3) ginit (f11_trace ++ [Start 2; Indexed 2]) = Some s /\
               gstep (Some 3) s (Pass 2) = Some s' /\ gated (ost s 2) = true /\ early (ost s 2) = true.
Proof. eexists; eexists. split; [vm_compute; reflexivity|]. split; [vm_compute; reflexivity|]. split; vm_compute; reflexivity. Qed.

(* the boolean readings of the trace tie are implied by the hypotheses of gate_opens *)
Lemma limit_okb_of : forall lim s rs, limit_ok lim s -> limit_okb lim s rs = true.
Proof.
  intros [n|] s rs H; simpl; [|reflexivity]. apply forallb_forall. intros r _. apply Nat.leb_le. apply H.
Qed.
Lemma quiescentb_of : forall s os, quiescent s -> quiescentb s os = true.
Proof.
  intros s os H. apply forallb_forall. intros o _. destruct (H o) as [H1 H2].
  destruct (ph (ost s o)); simpl; try reflexivity; exfalso; [apply H1 | apply H2]; reflexivity.
Qed.

(* with enough slots (or no limit) the very same arrivals open the gate: the recorded traces, replayed *)
Definition f11_trace_tail : list label := [Start 2; Indexed 2; Pass 2; Pass 1; Pass 0].
Example gate_opens_with_three_slots :
  exists s, grun (Some 3) ginit (f11_trace ++ f11_trace_tail) = Some s /\ is_on s = true /\ passed_count s [0; 1; 2] = 3.
Proof. eexists; split; [vm_compute; reflexivity | split; vm_compute; reflexivity]. Qed.
Example gate_opens_without_limit :
  exists s, grun None ginit (f11_trace ++ f11_trace_tail) = Some s /\ is_on s = true /\ passed_count s [0; 1; 2] = 3.
Proof. eexists; split; [vm_compute; reflexivity | split; vm_compute; reflexivity]. Qed.
Example gate_start_refused_with_two_slots :
  exists s, grun (Some 2) ginit f11_trace = Some s /\ gstep (Some 2) s (Start 2) = None /\ gstep (Some 3) s (Start 2) <> None.
Proof. eexists; split; [vm_compute; reflexivity | split; vm_compute; [reflexivity | discriminate]]. Qed.


(* ---------- F1702 (fixed by c050920): index_resource raises during an object's first event ---------- *)
(* the trace recorded from the repaired code: one indexed kind, two pre-existing objects, no worker limit; the when=
   callback of the index handler raises for the second object: its toggle is dropped all the same, the first object passes *)
Definition f1702_trace : list label :=
  [MakeBlocker; MakeRes 0 true; DropBlocker;
   SeenCheck 0 0 false; SeenMake 0 0; Spawn 0 0 true true; Start 0; Indexed 0;
   SeenCheck 0 1 false; SeenMake 0 1; Spawn 0 1 true true; Start 1; IndexRaised 1; Listed 0; Pass 0].

Example raised_does_not_block :
  exists s, grun None ginit f1702_trace = Some s /\ is_on s = true /\ ph (ost s 0) = PPassed /\ ph (ost s 1) = PFailed /\
            early (ost s 1) = true.
Proof. eexists. split; [vm_compute; reflexivity|]. repeat split; vm_compute; reflexivity. Qed.

(* a later successful event of the failed object is processed and passes as usual *)
Example raised_then_indexed_passes :
  exists s, grun None ginit (f1702_trace ++ [Indexed 1; Pass 1; Retire 0; Retire 1]) = Some s /\ is_on s = true /\ nseen s 0 = 0.
Proof. eexists. split; [vm_compute; reflexivity|]. split; vm_compute; reflexivity. Qed.


(* what Ready says about an object first seen before its kind's LISTED, spelled out *)
Lemma ready_early_cases : forall s o, Ready s -> early (ost s o) = true ->
  ph (ost s o) = PWaiting \/ ph (ost s o) = PPassed \/ ph (ost s o) = PFailed \/ ph (ost s o) = PNew.
Proof.
  intros s o (_ & _ & H) He. specialize (H o He). destruct (ph (ost s o)); simpl in H; try discriminate; auto.
Qed.
