(* The per-object half of the readiness gate and "the gate opens": invariants of Model/Gate.v. *)
From Coq Require Import List Bool Arith Lia.
From KV Require Import Model.Gate Proofs.Gate.
Import ListNotations.

Definition pre_index (p : ophase) : Prop := p = PToggled \/ p = PQueued \/ p = PRunning.
Definition in_first (p : ophase) : Prop := p = PChecked \/ p = PToggled.

Ltac eqb_cases :=
  repeat (match goal with
          | H : context [Nat.eqb ?a ?a] |- _ => rewrite Nat.eqb_refl in H
          | |- context [Nat.eqb ?a ?a] => rewrite Nat.eqb_refl
          | H : context [Nat.eqb ?a ?b] |- _ => destruct (Nat.eqb_spec a b); [try subst|]
          | |- context [Nat.eqb ?a ?b] => destruct (Nat.eqb_spec a b); [try subst|]
          end; simpl in *).
Ltac inl :=
  repeat match goal with
  | H : In _ (remove_nat _ _) |- _ => apply in_remove_nat in H; destruct H
  | H : In _ (_ :: _) |- _ => destruct H
  | H : In _ (_ ++ [_]) |- _ => apply in_app_iff in H; destruct H as [H|[H|[]]]
  | H : In _ [] |- _ => destruct H
  end.
Ltac crush := intros; unfold pre_index, in_first, upd in *; simpl in *; eqb_cases; inl; try subst;
  try (apply orb_true_iff; left);
  try tauto; try congruence; try lia; eauto 3;
  try solve [timeout 5 intuition (try congruence; try lia; eauto 2)];
  try solve [match goal with Hq : forall _, _ |- _ => eapply Hq; solve [congruence | eauto 2 | tauto] end];
  try solve [match goal with Hq : forall _ : nat, _, x : nat |- _ => eapply (Hq x); solve [congruence | eauto 2 | tauto] end];
  try solve [match goal with Hq : forall _ _ : nat, _, x : nat, y : nat |- _ => eapply (Hq x y); solve [congruence | eauto 2 | tauto] end].
Definition imark {A} (a : A) (x : nat) : Prop := True.
Ltac inst_nats :=
  repeat match goal with
  | Hq : forall _ : nat, _, x : nat |- _ =>
      lazymatch goal with
      | _ : imark Hq x |- _ => fail
      | _ => let Hn := fresh "Hi" in pose proof (Hq x) as Hn; assert (imark Hq x) by exact Logic.I
      end
  end;
  repeat match goal with Hm : imark _ _ |- _ => clear Hm end.
Ltac crush2 := intros; unfold pre_index, in_first, upd in *; simpl in *; eqb_cases; inl; try subst;
  try (apply orb_true_iff; left);
  inst_nats;
  try solve [intuition (try congruence; try lia; eauto 2)].
Ltac enter0 H := step_cases H; unfold touch, set_o, set_w; simpl.


Lemma st_nb_o : forall lim s l s', gstep lim s l = Some s' ->
  (forall o, ph (ost s o) <> PNew -> won (wst s (kind (ost s o))) = true) ->
  forall o, ph (ost s' o) <> PNew -> won (wst s' (kind (ost s' o))) = true.
Proof.
  intros lim s l s' H  I. enter0 H.
  all: try solve [timeout 10 crush].
  all: try solve [timeout 30 crush2].
  all: match goal with |- _ => idtac "LEFT nb_o" end.
Abort.

Lemma st_ung : forall lim s l s', gstep lim s l = Some s' ->
  KInv s ->
  (forall o, ph (ost s o) <> PNew -> gated (ost s o) = false -> opened s = true) ->
  forall o, ph (ost s' o) <> PNew -> gated (ost s' o) = false -> opened s' = true.
Proof.
  intros lim s l s' H HK  I. destruct HK. enter0 H.
  all: try solve [timeout 10 crush].
  all: try solve [timeout 30 crush2].
  all: match goal with |- _ => idtac "LEFT ung" end.
Abort.

Lemma st_early : forall lim s l s', gstep lim s l = Some s' ->
  KInv s ->
  (forall o, ph (ost s o) <> PNew -> early (ost s o) = true -> mk (ost s o) = true) ->
  forall o, ph (ost s' o) <> PNew -> early (ost s' o) = true -> mk (ost s' o) = true.
Proof.
  intros lim s l s' H HK  I. destruct HK. enter0 H.
  all: try solve [timeout 10 crush].
  all: try solve [timeout 30 crush2].
  all: match goal with |- _ => idtac "LEFT early" end.
Abort.

Lemma st_ot : forall lim s l s', gstep lim s l = Some s' ->
  (forall o, mk (ost s o) = true -> pre_index (ph (ost s o)) -> In o (otog s)) ->
  forall o, mk (ost s' o) = true -> pre_index (ph (ost s' o)) -> In o (otog s').
Proof.
  intros lim s l s' H  I. enter0 H.
  all: try solve [timeout 10 crush].
  all: try solve [timeout 30 crush2].
  all: match goal with |- _ => idtac "LEFT ot" end.
Abort.

Lemma st_busy : forall lim s l s', gstep lim s l = Some s' ->
  (forall r o, busy (wst s r) = Some o -> in_first (ph (ost s o)) /\ kind (ost s o) = r) ->
  forall r o, busy (wst s' r) = Some o -> in_first (ph (ost s' o)) /\ kind (ost s' o) = r.
Proof.
  intros lim s l s' H  I. enter0 H.
  all: try solve [timeout 10 crush].
  all: try solve [timeout 30 crush2].
  all: match goal with |- _ => idtac "LEFT busy" end.
Abort.

Lemma st_chk : forall lim s l s', gstep lim s l = Some s' ->
  (forall o, ph (ost s o) <> PNew -> won (wst s (kind (ost s o))) = true) ->
  (forall r o, busy (wst s r) = Some o -> in_first (ph (ost s o)) /\ kind (ost s o) = r) ->
  (forall o, in_first (ph (ost s o)) -> busy (wst s (kind (ost s o))) = Some o) ->
  forall o, in_first (ph (ost s' o)) -> busy (wst s' (kind (ost s' o))) = Some o.
Proof.
  intros lim s l s' H D0 D1 I. enter0 H.
  all: try solve [timeout 10 crush].
  all: try solve [timeout 30 crush2].
  all: match goal with |- _ => idtac "LEFT chk" end.
Abort.

Lemma st_chk_e : forall lim s l s', gstep lim s l = Some s' ->
  (forall o, ph (ost s o) <> PNew -> won (wst s (kind (ost s o))) = true) ->
  (forall o, in_first (ph (ost s o)) -> busy (wst s (kind (ost s o))) = Some o) ->
  (forall o, ph (ost s o) = PChecked -> early (ost s o) = true -> listed s (kind (ost s o)) = false /\ windexed (wst s (kind (ost s o))) = true) ->
  forall o, ph (ost s' o) = PChecked -> early (ost s' o) = true -> listed s' (kind (ost s' o)) = false /\ windexed (wst s' (kind (ost s' o))) = true.
Proof.
  intros lim s l s' H D0 D1 I. enter0 H.
  all: try solve [timeout 10 crush].
  all: try solve [timeout 30 crush2].
  all: match goal with |- _ => idtac "LEFT chk_e" end.
Abort.

Lemma st_k1 : forall lim s l s', gstep lim s l = Some s' ->
  (forall o, In o (otog s) -> pre_index (ph (ost s o))) ->
  forall o, In o (otog s') -> pre_index (ph (ost s' o)).
Proof.
  intros lim s l s' H  I. enter0 H.
  all: try solve [timeout 10 crush].
  all: try solve [timeout 30 crush2].
  all: match goal with |- _ => idtac "LEFT k1" end.
Abort.

Lemma st_k4 : forall lim s l s', gstep lim s l = Some s' ->
  (forall r, nrun s r + List.length (pend s r) <= nseen s r) ->
  forall r, nrun s' r + List.length (pend s' r) <= nseen s' r.
Proof.
  intros lim s l s' H  I. enter0 H.
  all: try solve [timeout 10 crush].
  all: try solve [timeout 30 crush2].
  all: match goal with |- _ => idtac "LEFT k4" end.
Abort.

Lemma st_k5 : forall lim s l s', gstep lim s l = Some s' ->
  (forall r, NoDup (pend s r)) ->
  (forall r o, In o (pend s r) -> ph (ost s o) = PQueued /\ kind (ost s o) = r) ->
  forall r o, In o (pend s' r) -> ph (ost s' o) = PQueued /\ kind (ost s' o) = r.
Proof.
  intros lim s l s' H D0 I. enter0 H.
  all: try solve [timeout 10 crush].
  all: try solve [timeout 30 crush2].
  all: match goal with |- _ => idtac "LEFT k5" end.
Abort.

Lemma st_k6 : forall lim s l s', gstep lim s l = Some s' ->
  (forall r o, In o (pend s r) -> ph (ost s o) = PQueued /\ kind (ost s o) = r) ->
  (forall r, NoDup (pend s r)) ->
  forall r, NoDup (pend s' r).
Proof.
  intros lim s l s' H D0 I. enter0 H.
  all: try solve [timeout 10 crush].
  all: try solve [timeout 30 crush2].
  all: match goal with |- _ => idtac "LEFT k6" end.
Abort.

Lemma st_k5q : forall lim s l s', gstep lim s l = Some s' ->
  (forall r o, In o (pend s r) -> ph (ost s o) = PQueued /\ kind (ost s o) = r) ->
  (forall o, ph (ost s o) = PQueued -> In o (pend s (kind (ost s o)))) ->
  forall o, ph (ost s' o) = PQueued -> In o (pend s' (kind (ost s' o))).
Proof.
  intros lim s l s' H D0 I. enter0 H.
  all: try solve [timeout 10 crush].
  all: try solve [timeout 30 crush2].
  all: match goal with |- _ => idtac "LEFT k5q" end.
Abort.

Lemma st_kn : forall lim s l s', gstep lim s l = Some s' ->
  (NoDup (kinds s) /\ forall r, won (wst s r) = true <-> In r (kinds s)) ->
  NoDup (kinds s') /\ forall r, won (wst s' r) = true <-> In r (kinds s').
Proof.
  intros lim s l s' H  I. enter0 H.
  all: try solve [timeout 10 crush].
  all: try solve [timeout 30 crush2].
  all: match goal with |- _ => idtac "LEFT kn" end.
Abort.

