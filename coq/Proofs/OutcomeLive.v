(* C11 — "is retried": the in-memory loops (run_activity, _daemon, _timer) wake up at exactly the first instant
   at which the handler is awakened again, and the next iteration does enter execute_handler_once. *)
From Coq Require Import ZArith List Bool Lia.
From KV Require Import Model.Outcome Model.Attempts Proofs.Outcome.
Import ListNotations.
Open Scope Z_scope.

Lemma st_delays_single : forall te hs, s_active hs = true -> finished hs = false ->
  st_delays te [hs] = [match s_delayed hs with Some d => Z.max 0 (d - te) | None => 0 end].
Proof. intros te hs Ha Hf. unfold st_delays. simpl. rewrite Ha, Hf. reflexivity. Qed.

Lemma st_delay_single : forall te hs, s_active hs = true -> finished hs = false ->
  st_delay te [hs] = Some (match s_delayed hs with Some d => Z.max 0 (d - te) | None => 0 end).
Proof. intros te hs Ha Hf. unfold st_delay. rewrite (st_delays_single te hs Ha Hf). reflexivity. Qed.

(* the instant at which sleep(state.delays) / sleep(state.delay) returns when nothing interrupts it *)
Definition wake (te : Z) (hs : hstate) : Z := match s_delayed hs with Some d => Z.max te d | None => te end.

Lemma sleep_single : forall te hs, s_active hs = true -> finished hs = false ->
  te + sleep_len (st_delays te [hs]) = wake te hs /\
  te + sleep_len (olist (st_delay te [hs])) = wake te hs.
Proof.
  intros te hs Ha Hf. rewrite (st_delay_single te hs Ha Hf), (st_delays_single te hs Ha Hf).
  unfold wake, sleep_len, olist, zmin_list. destruct (s_delayed hs) as [d|]; split; lia.
Qed.

(* it is the FIRST instant from te on at which the handler is awakened *)
Lemma wake_exact : forall te hs, finished hs = false ->
  awakened (wake te hs) hs = true /\ (forall t, te <= t -> t < wake te hs -> awakened t hs = false).
Proof.
  intros te hs Hf. unfold wake. split.
  - apply awakened_spec. split; [exact Hf |]. intros d Hd. rewrite Hd. lia.
  - intros t H1 H2. destruct (awakened t hs) eqn:E; [| reflexivity].
    apply awakened_spec in E. destruct E as [_ E]. destruct (s_delayed hs) as [d|]; [| lia].
    specialize (E d eq_refl). lia.
Qed.

(* an iteration over an awakened handler is never idle: it enters the user function, or records the final failure *)
Lemma iterate_productive : forall e c now hs sc, awakened now hs = true ->
  let it := iterate e c now hs sc in
  s_retries (it_hs it) = s_retries hs + 1 /\
  ((it_sc it = tl sc /\ now <= it_end it) \/ (s_failure (it_hs it) = true /\ it_sc it = sc /\ it_end it = now)).
Proof.
  intros e c now hs sc Haw. unfold iterate. rewrite Haw. cbv zeta.
  destruct (snd (exec e c (s_retries hs) (runtime now hs) (runtime (now + Z.max 0 (snd (next_act sc))) hs) (fst (next_act sc)))) eqn:Hc;
    simpl.
  - split; [reflexivity |]. left. split; [reflexivity | lia].
  - split; [reflexivity |]. right.
    destruct (exec_not_entered_final_failure _ _ _ _ _ _ Hc) as [H1 H2].
    rewrite H1, H2. auto.
Qed.

(* after a non-final attempt the wake-up instant is the end of the attempt plus the requested delay/backoff *)
Lemma iterate_wake : forall e c now hs sc, awakened now hs = true ->
  let it := iterate e c now hs sc in
  finished (it_hs it) = false ->
  wake (it_end it) (it_hs it) = it_end it + Z.max 0 (requested e c (fst (next_act sc))) /\
  it_sc it = tl sc.
Proof.
  intros e c now hs sc Haw. unfold iterate. rewrite Haw. cbv zeta.
  set (r := fst (next_act sc)). set (tx := now + Z.max 0 (snd (next_act sc))).
  destruct (snd (exec e c (s_retries hs) (runtime now hs) (runtime tx hs) r)) eqn:Hc; simpl.
  - intros Hnf. split; [| reflexivity].
    apply exec_entered in Hc. rewrite (exec_when_entered _ _ _ _ _ _ Hc) in *. simpl in *.
    rewrite finished_with_outcome in Hnf.
    pose proof (classify_requested e c (s_retries hs) (runtime tx hs) r Hnf) as Hreq.
    unfold wake, with_outcome. simpl.
    destruct (o_delay (classify e c (s_retries hs) (runtime tx hs) r)) as [d|]; simpl in Hreq; lia.
  - intros Hnf. destruct (exec_not_entered_final_failure _ _ _ _ _ _ Hc) as [H1 _].
    rewrite finished_with_outcome, H1 in Hnf. discriminate.
Qed.

Lemma iterate_active : forall e c now hs sc, s_active (it_hs (iterate e c now hs sc)) = s_active hs.
Proof. intros. unfold iterate. destruct (awakened now hs); reflexivity. Qed.

(* run_activity: after a non-final attempt the next iteration happens at exactly end + max 0 requested, the handler
   is awakened then (and at no instant before), so that iteration executes it *)
Lemma activity_retried : forall f e c now hs sc, s_active hs = true -> awakened now hs = true ->
  let it := iterate e c now hs sc in
  finished (it_hs it) = false ->
  let now' := it_end it + Z.max 0 (requested e c (fst (next_act sc))) in
  awakened now' (it_hs it) = true /\
  (forall t, it_end it <= t -> t < now' -> awakened t (it_hs it) = false) /\
  exists rest, act_trace (S (S f)) e c now hs sc
               = it_lab it :: it_lab (iterate e c now' (it_hs it) (tl sc)) :: rest.
Proof.
  intros f e c now hs sc Ha Haw it Hnf now'.
  destruct (iterate_wake e c now hs sc Haw Hnf) as [Hw Hsc]. fold it in Hw, Hsc.
  assert (Hact : s_active (it_hs it) = true) by (unfold it; rewrite iterate_active; exact Ha).
  destruct (wake_exact (it_end it) (it_hs it) Hnf) as [W1 W2]. rewrite Hw in W1, W2. fold now' in W1, W2.
  split; [exact W1 |]. split; [exact W2 |].
  cbn [act_trace]. rewrite (st_done_single hs Ha), (awakened_unfinished _ _ Haw).
  fold it. rewrite (st_done_single _ Hact), Hnf.
  destruct (sleep_single (it_end it) (it_hs it) Hact Hnf) as [_ Hs].
  unfold sleep_to. rewrite Hsc.
  destruct (sleep_len (olist (st_delay (it_end it) [it_hs it])) <=? 0) eqn:E.
  - apply Z.leb_le in E.
    assert (Hz : 0 <= sleep_len (olist (st_delay (it_end it) [it_hs it]))).
    { unfold sleep_len. destruct (zmin_list _); lia. }
    assert (Heq : it_end it = now') by (unfold now'; rewrite <- Hw, <- Hs; lia).
    rewrite Heq. eexists. reflexivity.
  - rewrite Hs, Hw. fold now'. eexists. reflexivity.
Qed.

Definition not_stopped_before (stop : option Z) (t : Z) : Prop :=
  match stop with Some ts => t < ts | None => True end.

Lemma not_stopped_set : forall stop t, not_stopped_before stop t -> stop_set stop t = false.
Proof. intros [ts|] t H; simpl in *; [apply Z.leb_gt; exact H | reflexivity]. Qed.

Lemma sleep_to_uncut : forall stop te len, 0 <= len -> not_stopped_before stop (te + len) -> sleep_to stop te len = te + len.
Proof.
  intros stop te len Hl Hs. unfold sleep_to. destruct (len <=? 0) eqn:E; [apply Z.leb_le in E; lia |].
  destruct stop as [ts|]; [| reflexivity]. simpl in Hs.
  destruct (ts <? te + len) eqn:E2; [apply Z.ltb_lt in E2; lia | reflexivity].
Qed.

Lemma sleep_len_nonneg : forall l, 0 <= sleep_len l.
Proof. intros l. unfold sleep_len. destruct (zmin_list l); lia. Qed.

(* _daemon: the same, as long as the stopper is not set before the wake-up *)
Lemma daemon_retried : forall f e c stop now hs sc, s_active hs = true -> awakened now hs = true ->
  let it := iterate e c now hs sc in
  finished (it_hs it) = false ->
  let now' := it_end it + Z.max 0 (requested e c (fst (next_act sc))) in
  not_stopped_before stop now' -> now <= now' ->
  awakened now' (it_hs it) = true /\
  (forall t, it_end it <= t -> t < now' -> awakened t (it_hs it) = false) /\
  exists rest, dmn_trace (S (S f)) e c stop now hs sc
               = it_lab it :: it_lab (iterate e c now' (it_hs it) (tl sc)) :: rest.
Proof.
  intros f e c stop now hs sc Ha Haw it Hnf now' Hstop Hle.
  destruct (iterate_wake e c now hs sc Haw Hnf) as [Hw Hsc]. fold it in Hw, Hsc.
  assert (Hact : s_active (it_hs it) = true) by (unfold it; rewrite iterate_active; exact Ha).
  destruct (wake_exact (it_end it) (it_hs it) Hnf) as [W1 W2]. rewrite Hw in W1, W2. fold now' in W1, W2.
  split; [exact W1 |]. split; [exact W2 |].
  assert (Hs0 : stop_set stop now = false).
  { destruct stop as [ts|]; simpl in *; [apply Z.leb_gt; lia | reflexivity]. }
  remember (S f) as g eqn:Hg.
  cbn [dmn_trace]. rewrite Hs0, (st_done_single hs Ha), (awakened_unfinished _ _ Haw). cbn [orb].
  fold it. rewrite (st_delay_single (it_end it) (it_hs it) Hact Hnf).
  set (d := match s_delayed (it_hs it) with Some d => Z.max 0 (d - it_end it) | None => 0 end).
  assert (Hd : 0 <= d) by (unfold d; destruct (s_delayed (it_hs it)); lia).
  assert (Hlen : (if d =? 0 then 0 else d) = d) by (destruct (d =? 0) eqn:E; [apply Z.eqb_eq in E; lia | reflexivity]).
  rewrite Hlen.
  assert (Hsum : it_end it + d = now').
  { unfold now'. rewrite <- Hw. unfold wake, d. destruct (s_delayed (it_hs it)); lia. }
  rewrite (sleep_to_uncut stop (it_end it) d Hd) by (rewrite Hsum; exact Hstop).
  rewrite Hsum, Hsc. subst g. cbn [dmn_trace].
  rewrite (not_stopped_set _ _ Hstop), (st_done_single _ Hact), Hnf. cbn [orb].
  eexists. reflexivity.
Qed.

(* _timer: a pending retry overrides the interval schedule in the same way *)
Lemma timer_retried : forall f e c iv sharp stop now hs sc, s_active hs = true -> awakened now hs = true ->
  let it := iterate e c now hs sc in
  finished (it_hs it) = false ->
  let now' := it_end it + Z.max 0 (requested e c (fst (next_act sc))) in
  not_stopped_before stop now' -> now <= now' ->
  awakened now' (it_hs it) = true /\
  (forall t, it_end it <= t -> t < now' -> awakened t (it_hs it) = false) /\
  exists rest, tmr_trace (S (S f)) e c iv sharp stop now hs sc
               = it_lab it :: it_lab (iterate e c now' (it_hs it) (tl sc)) :: rest.
Proof.
  intros f e c iv sharp stop now hs sc Ha Haw it Hnf now' Hstop Hle.
  destruct (iterate_wake e c now hs sc Haw Hnf) as [Hw Hsc]. fold it in Hw, Hsc.
  assert (Hact : s_active (it_hs it) = true) by (unfold it; rewrite iterate_active; exact Ha).
  destruct (wake_exact (it_end it) (it_hs it) Hnf) as [W1 W2]. rewrite Hw in W1, W2. fold now' in W1, W2.
  split; [exact W1 |]. split; [exact W2 |].
  assert (Hs0 : stop_set stop now = false).
  { destruct stop as [ts|]; simpl in *; [apply Z.leb_gt; lia | reflexivity]. }
  remember (S f) as g eqn:Hg.
  cbn [tmr_trace]. rewrite Hs0, (st_done_single hs Ha), (awakened_unfinished _ _ Haw). cbn [andb app].
  fold it. rewrite (st_done_single _ Hact), Hnf. cbn [negb].
  destruct (sleep_single (it_end it) (it_hs it) Hact Hnf) as [Hs _].
  rewrite (sleep_to_uncut stop (it_end it) _ (sleep_len_nonneg _)) by (rewrite Hs, Hw; exact Hstop).
  rewrite Hs, Hw. fold now'. rewrite Hsc. subst g. cbn [tmr_trace].
  rewrite (not_stopped_set _ _ Hstop), (st_done_single _ Hact), Hnf. cbn [andb app].
  destruct (negb (st_done [it_hs (iterate e c now' (it_hs it) (tl sc))])); [eexists; reflexivity |].
  destruct iv; eexists; reflexivity.
Qed.

(* _timer after a SUCCESS: the next invocation starts from scratch one interval (or the rest of the sharp grid)
   later; after a FAILURE the state is kept (C11_failed_forever) *)
Lemma timer_after_success : forall f e c iv (sharp : bool) stop now hs sc, s_active hs = true -> awakened now hs = true ->
  0 < iv ->
  let it := iterate e c now hs sc in
  s_success (it_hs it) = true -> s_failure (it_hs it) = false ->
  let now' := it_end it + (if sharp then iv - ((it_end it - now) mod iv) else iv) in
  not_stopped_before stop now' ->
  exists rest, tmr_trace (S (S f)) e c (Some iv) sharp stop now hs sc
               = it_lab it :: Reset now' :: it_lab (iterate e c now' (from_scratch now') (it_sc it)) :: rest.
Proof.
  intros f e c iv sharp stop now hs sc Ha Haw Hiv it Hsu Hfa now' Hstop.
  assert (Hact : s_active (it_hs it) = true) by (unfold it; rewrite iterate_active; exact Ha).
  assert (Hfin : finished (it_hs it) = true) by (unfold finished; rewrite Hsu; reflexivity).
  assert (Hend : now <= it_end it).
  { unfold it, iterate. rewrite Haw. cbv zeta. simpl.
    destruct (snd (exec e c (s_retries hs) (runtime now hs) (runtime (now + Z.max 0 (snd (next_act sc))) hs) (fst (next_act sc)))); lia. }
  set (len := if sharp then iv - ((it_end it - now) mod iv) else iv).
  assert (Hlen : 0 < len).
  { unfold len. destruct sharp; [| lia]. pose proof (Z.mod_pos_bound (it_end it - now) iv Hiv). lia. }
  assert (Hs0 : stop_set stop now = false).
  { destruct stop as [ts|]; simpl in *; [apply Z.leb_gt; unfold now' in Hstop; fold len in Hstop; lia | reflexivity]. }
  remember (S f) as g eqn:Hg.
  cbn [tmr_trace]. rewrite Hs0, (st_done_single hs Ha), (awakened_unfinished _ _ Haw). cbn [andb app].
  fold it. rewrite (st_done_single _ Hact), Hfin. cbn [negb]. fold len.
  rewrite (sleep_to_uncut stop (it_end it) len) by (try lia; exact Hstop).
  assert (Hn : it_end it + len = now') by reflexivity. rewrite Hn. subst g. cbn [tmr_trace].
  rewrite (not_stopped_set _ _ Hstop), (st_done_single _ Hact), Hfin, Hfa. cbn [andb negb app].
  destruct (negb (st_done [it_hs (iterate e c now' (from_scratch now') (it_sc it))])); eexists; reflexivity.
Qed.

(* non-vacuity of the hypotheses of activity_retried / timer_after_success *)
Example retried_example :
  let e := mkEnv MTemporary 1000 in let c := mkCfg None None None None in
  let hs := from_scratch 5000 in let sc := [(RTemp (Some 500), 250); (ROk, 0)] in
  s_active hs = true /\ awakened 5000 hs = true /\ finished (it_hs (iterate e c 5000 hs sc)) = false /\
  it_end (iterate e c 5000 hs sc) + Z.max 0 (requested e c (fst (next_act sc))) = 5750.
Proof. vm_compute. repeat split; reflexivity. Qed.

Example timer_after_success_example :
  let e := mkEnv MTemporary 1000 in let c := mkCfg None None None None in
  map (fun l => match l with Tick a _ _ _ _ => a | Reset t => - t end)
      (tmr_trace 3 e c (Some 1000) true None 0 (from_scratch 0) [(ROk, 250); (ROk, 1250)])
  = [0; -1000; 1000; -3000; 3000].
Proof. vm_compute. reflexivity. Qed.
