(* index_resource as a whole: which index functions run (run_handlers), that OperatorIndexers.replace/discard never
   raise on well-formed indices, and that after every event / every history each index equals the reference map
   obtained by the documented rule of that event (Model/Index.v: rule_of, rule_spec, ref_event). *)
From Coq Require Import ZArith List String Bool Lia.
From KV Require Import Base.Json Base.Dicts Base.Harness Model.Index Proofs.Index.
Import ListNotations.
Open Scope list_scope.

Notation sget := (aget String.eqb).
Lemma seqb_spec : forall a b, String.eqb a b = true <-> a = b.
Proof. exact String.eqb_eq. Qed.

Section RunHandlers.
  Context {K V : Type}.
  Variables (now : Z) (matches : string -> bool) (script : string -> action K V).

  Lemma state_of_aset_other : forall (c : hcfg) id x mem, id <> h_id c -> state_of (aset String.eqb id x mem) c = state_of mem c.
  Proof. intros c id x mem Hn; unfold state_of. rewrite aget_aset_other; auto using seqb_spec. Qed.
  Lemma state_of_adel_other : forall (c : hcfg) id mem, id <> h_id c -> state_of (adel String.eqb id mem) c = state_of mem c.
  Proof. intros c id mem Hn; unfold state_of. rewrite aget_adel_other; auto using seqb_spec. Qed.

  Definition expected_out (mem : memory) (c : hcfg) : option (outcome K V) :=
    if matches (h_id c) && awakened now (state_of mem c)
    then Some (fst (exec_once now c (state_of mem c) (script (h_id c)))) else None.

  Lemma run_handlers_spec : forall hs mem, NoDup (map h_id hs) ->
    (forall c, In c hs -> sget (h_id c) (fst (run_handlers now hs matches script mem)) = expected_out mem c) /\
    (forall id, ~ In id (map h_id hs) -> sget id (fst (run_handlers now hs matches script mem)) = None) /\
    NoDup (map fst (fst (run_handlers now hs matches script mem))) /\
    (forall id, In id (map fst (fst (run_handlers now hs matches script mem))) -> In id (map h_id hs)).
  Proof.
    induction hs as [|c0 hs IH]; intros mem Hnd.
    - simpl. split; [intros c []|]. split; [reflexivity|]. split; [constructor | intros id []].
    - inversion Hnd as [|? ? Hn0 Hnd']; subst.
      assert (Htail : forall mem' , (forall c, In c hs -> state_of mem' c = state_of mem c) ->
                (forall c, In c hs -> sget (h_id c) (fst (run_handlers now hs matches script mem')) = expected_out mem c)).
      { intros mem' Hst c Hc. destruct (IH mem' Hnd') as (A & _). rewrite (A c Hc). unfold expected_out. rewrite (Hst c Hc). reflexivity. }
      assert (Hne : forall c, In c hs -> h_id c0 <> h_id c).
      { intros c Hc E. apply Hn0. rewrite E. apply in_map; exact Hc. }
      cbn [run_handlers]. destruct (matches (h_id c0)) eqn:Em.
      + set (s0 := match sget (h_id c0) mem with Some s => s | None => fresh end).
        assert (Es0 : s0 = state_of mem c0) by reflexivity.
        destruct (awakened now s0) eqn:Ea.
        * destruct (exec_once now c0 s0 (script (h_id c0))) as [oc s'] eqn:Ex.
          set (mem' := match s' with Some x => aset String.eqb (h_id c0) x mem | None => adel String.eqb (h_id c0) mem end).
          assert (Hst : forall c, In c hs -> state_of mem' c = state_of mem c).
          { intros c Hc. subst mem'. destruct s'; [apply state_of_aset_other | apply state_of_adel_other]; auto. }
          destruct (run_handlers now hs matches script mem') as [outs mem''] eqn:Er.
          destruct (IH mem' Hnd') as (A & B & C & D). rewrite Er in A, B, C, D. simpl in A, B, C, D.
          pose proof (Htail mem' Hst) as T. rewrite Er in T. simpl in T.
          simpl. split; [|split; [|split]].
          -- intros c [<-|Hc].
             ++ rewrite String.eqb_refl. unfold expected_out. rewrite Em, <- Es0, Ea, Ex. reflexivity.
             ++ rewrite (proj2 (String.eqb_neq _ _)) by (intro E; apply (Hne c Hc); auto). apply T; exact Hc.
          -- intros id Hid. rewrite (proj2 (String.eqb_neq _ _)) by (intro E; apply Hid; left; auto). apply B. intro; apply Hid; right; auto.
          -- constructor; [intro Hin; apply Hn0; apply D; exact Hin | exact C].
          -- intros id [<-|Hid]; [left; reflexivity | right; apply D; exact Hid].
        * destruct (IH mem Hnd') as (A & B & C & D).
          split; [|split; [|split]].
          -- intros c [<-|Hc]; [|apply A; exact Hc].
             unfold expected_out. rewrite Em, <- Es0, Ea. simpl. apply B. exact Hn0.
          -- intros id Hid. apply B. intro; apply Hid; right; auto.
          -- exact C.
          -- intros id Hid. right. apply D; exact Hid.
      + destruct (IH mem Hnd') as (A & B & C & D).
        split; [|split; [|split]].
        * intros c [<-|Hc]; [|apply A; exact Hc]. unfold expected_out. rewrite Em. simpl. apply B. exact Hn0.
        * intros id Hid. apply B. intro; apply Hid; right; auto.
        * exact C.
        * intros id Hid. right. apply D; exact Hid.
  Qed.
End RunHandlers.

Section EventRefines.
  Context {O K V : Type} (oeqb : O -> O -> bool) (keqb : K -> K -> bool) (veqb : V -> V -> bool) (knone : K).
  Hypothesis oeqb_spec : forall a b, oeqb a b = true <-> a = b.
  Hypothesis keqb_spec : forall a b, keqb a b = true <-> a = b.

  Notation WFi := (@WF O K V oeqb keqb).
  Notation absi := (@abs O K V oeqb keqb).
  Notation effect := (outcome_effect oeqb keqb veqb knone).
  Notation spec := (spec_op oeqb keqb veqb).
  Definition AllWF (ixs : indexers O K V) : Prop := Forall (fun p => WFi (snd p)) ixs.
  Definition oc_wf (oc : outcome K V) : Prop :=
    match oc with ORes (RMap m) => NoDup (map fst m) | _ => True end.
  Definition eqmap (R1 R2 : refmap O K V) : Prop := forall o k, R1 o k = R2 o k.

  Lemma result_map_wf : forall r, oc_wf (ORes r) -> NoDup (map fst (result_map knone r)).
  Proof. intros [m|v] H; simpl in *; [exact H | constructor; [intros [] | constructor]]. Qed.

  (* one indexer, one outcome: never raises on a well-formed index, keeps it well-formed, does what the table says *)
  Lemma effect_ok : forall o oc idx, WFi idx -> (match oc with Some x => oc_wf x | None => True end) ->
    exists idx', effect o oc idx = Ok idx' /\ WFi idx' /\
      eqmap (absi idx')
            (match oc with
             | Some (ORes r) => spec (absi idx) (GReplace o (result_map knone r))
             | Some OKeep => absi idx
             | Some OExc | None => spec (absi idx) (GDiscard o)
             end).
  Proof.
    intros o oc idx HW Hoc.
    assert (Hd : exists idx', @indexer_discard O K V oeqb keqb o idx = Ok idx' /\ WFi idx' /\
                              eqmap (absi idx') (spec (absi idx) (GDiscard o))).
    { destruct (gop_run_ok oeqb keqb veqb oeqb_spec keqb_spec (GDiscard o) idx HW I) as (i & E & W & G). exists i; auto. }
    destruct oc as [[|r|]|]; simpl; try exact Hd.
    - destruct (gop_run_ok oeqb keqb veqb oeqb_spec keqb_spec (GReplace o (result_map knone r)) idx HW
                  (result_map_wf r Hoc)) as (i & E & W & G).
      exists i. split; [|split; [exact W | exact G]]. unfold indexer_replace. destruct r; exact E.
    - exists idx. split; [reflexivity|]. split; [exact HW | intros ? ?; reflexivity].
  Qed.

  Lemma allwf_aset : forall h idx (ixs : indexers O K V), AllWF ixs -> WFi idx -> AllWF (aset String.eqb h idx ixs).
  Proof.
    intros h idx ixs; induction ixs as [|[h0 i0] t IH]; intros HA HW; simpl.
    - constructor; [exact HW | constructor].
    - inversion HA; subst. destruct (String.eqb h h0); constructor; auto. apply IH; auto.
  Qed.

  Lemma allwf_get : forall h idx (ixs : indexers O K V), AllWF ixs -> sget h ixs = Some idx -> WFi idx.
  Proof.
    intros h idx ixs HA Hg. apply (aget_in String.eqb seqb_spec) in Hg.
    unfold AllWF in HA. rewrite Forall_forall in HA. exact (HA _ Hg).
  Qed.

  Lemma sget_aset_none : forall h h0 idx (ixs : indexers O K V), sget h0 ixs <> None ->
    (sget h (aset String.eqb h0 idx ixs) = None <-> sget h ixs = None).
  Proof.
    intros h h0 idx ixs Hne. destruct (String.eqb h0 h) eqn:E.
    - apply String.eqb_eq in E; subst. rewrite aget_aset_same by exact seqb_spec. split; [discriminate | intro; contradiction].
    - apply String.eqb_neq in E. rewrite aget_aset_other by (exact seqb_spec || exact E). tauto.
  Qed.

  Lemma apply_outcomes_ok : forall o outs ixs, AllWF ixs ->
    (forall h oc, In (h, oc) outs -> sget h ixs <> None /\ oc_wf oc) ->
    exists ixs1, apply_outcomes oeqb keqb veqb knone o outs ixs = Ok ixs1 /\ AllWF ixs1 /\
                 (forall h, sget h ixs1 = None <-> sget h ixs = None).
  Proof.
    intros o outs; induction outs as [|[h0 oc] t IH]; intros ixs HA Hin.
    - exists ixs; simpl; split; [reflexivity|]. split; [exact HA | tauto].
    - destruct (Hin h0 oc (or_introl eq_refl)) as [Hne Hwf]. cbn [apply_outcomes].
      destruct (sget h0 ixs) as [idx0|] eqn:E0; [|contradiction].
      destruct (effect_ok o (Some oc) idx0 (allwf_get h0 idx0 ixs HA E0) Hwf) as (i & Ei & Wi & _).
      assert (Er : match oc with OExc => @indexer_discard O K V oeqb keqb o idx0
                               | ORes x => indexer_replace oeqb keqb veqb knone o x idx0
                               | OKeep => Ok idx0 end = Ok i) by (destruct oc; exact Ei).
      rewrite Er; simpl.
      assert (Hne0 : sget h0 ixs <> None) by congruence.
      destruct (IH (aset String.eqb h0 i ixs) (allwf_aset h0 i ixs HA Wi)) as (ixs1 & E1 & W1 & N1).
      { intros h oc' Hi. destruct (Hin h oc' (or_intror Hi)) as [Hn Hw]. split; [|exact Hw].
        intro Hx. apply Hn. apply (sget_aset_none h h0 i ixs Hne0). exact Hx. }
      exists ixs1. split; [exact E1|]. split; [exact W1|].
      intro h. rewrite N1. apply sget_aset_none. exact Hne0.
  Qed.

  Lemma purge_absent_ok : forall o (outs : list (string * outcome K V)) ixs1, AllWF ixs1 ->
    exists ixs', purge_absent oeqb keqb o outs ixs1 = Ok ixs' /\ AllWF ixs' /\
                 (forall h, sget h ixs' = None <-> sget h ixs1 = None).
  Proof.
    intros o outs ixs1; induction ixs1 as [|[h0 i0] t IH]; intros HA.
    - exists []; simpl. split; [reflexivity|]. split; [constructor | tauto].
    - inversion HA as [|? ? W0 HA']; subst. simpl in W0. destruct (IH HA') as (t' & Et & Wt & Nt).
      cbn [purge_absent].
      assert (Hx : exists i, match sget h0 outs with Some _ => Ok i0 | None => @indexer_discard O K V oeqb keqb o i0 end = Ok i /\ WFi i).
      { destruct (sget h0 outs); [exists i0; auto|].
        destruct (effect_ok o None i0 W0 I) as (i & Ei & Wi & _). exists i; auto. }
      destruct Hx as (i & Ei & Wi). rewrite Ei, Et; simpl.
      exists ((h0, i) :: t'). split; [reflexivity|]. split; [constructor; auto|].
      intro h; simpl. destruct (String.eqb h h0); [split; discriminate | apply Nt].
  Qed.

  Lemma indexers_discard_ok : forall o ixs, AllWF ixs ->
    exists ixs', indexers_discard oeqb keqb o ixs = Ok ixs' /\ AllWF ixs' /\
                 (forall h, sget h ixs' = None <-> sget h ixs = None).
  Proof.
    intros o ixs; induction ixs as [|[h0 i0] t IH]; intros HA.
    - exists []; simpl. split; [reflexivity|]. split; [constructor | tauto].
    - inversion HA as [|? ? W0 HA']; subst. simpl in W0. destruct (IH HA') as (t' & Et & Wt & Nt).
      destruct (effect_ok o None i0 W0 I) as (i & Ei & Wi & _). simpl in Ei.
      cbn [indexers_discard]. rewrite Ei, Et; simpl.
      exists ((h0, i) :: t'). split; [reflexivity|]. split; [constructor; auto|].
      intro h; simpl. destruct (String.eqb h h0); [split; discriminate | apply Nt].
  Qed.
  Lemma exec_once_res : forall now c x (a : action K V) r, fst (exec_once now c x a) = ORes r -> a = AResult r.
  Proof.
    intros now c x a r. unfold exec_once.
    destruct (match h_retries c with Some r0 => (r0 <=? s_retries x)%Z | None => false end); [discriminate|].
    destruct a as [r'| |d| |]; simpl; try discriminate.
    - intro H; injection H as <-; reflexivity.
    - destruct (match h_retries c with Some r0 => _ | None => false end); discriminate.
    - destruct (h_errors c) as [[| |]|]; try discriminate.
      destruct (match h_retries c with Some r0 => _ | None => false end); discriminate.
  Qed.

  Lemma in_nodup_sget : forall {B} (l : list (string * B)) h v, NoDup (map fst l) -> In (h, v) l -> sget h l = Some v.
  Proof.
    intros B l h v; induction l as [|[h0 v0] t IH]; intros Hnd Hin; [contradiction|].
    inversion Hnd as [|? ? Hn Hnd']; subst. simpl. destruct Hin as [E|Hin].
    - injection E as <- <-. rewrite String.eqb_refl. reflexivity.
    - destruct (String.eqb h h0) eqn:E; [|apply IH; auto].
      apply String.eqb_eq in E; subst. exfalso; apply Hn. apply (in_map fst) in Hin. exact Hin.
  Qed.

  Lemma in_ids : forall (hs : list hcfg) id, In id (map h_id hs) -> exists c, In c hs /\ h_id c = id.
  Proof. intros hs id H. apply in_map_iff in H. destruct H as (c & E & Hc). exists c; auto. Qed.

  (* index_resource, one event: never raises, keeps every index well-formed, and changes the index of every
     index function exactly as the documented rule of this event says (all other objects untouched) *)
  Theorem event_refines : forall now hs deleted o matches script ixs mem,
    NoDup (map h_id hs) -> AllWF ixs -> (forall c, In c hs -> sget (h_id c) ixs <> None) ->
    script_wf script ->
    exists ixs' mem', index_event oeqb keqb veqb knone now hs deleted o matches script ixs mem = Ok (ixs', mem') /\
      AllWF ixs' /\ (forall h, sget h ixs' = None <-> sget h ixs = None) /\
      forall c idx, In c hs -> sget (h_id c) ixs = Some idx ->
        exists idx', sget (h_id c) ixs' = Some idx' /\
          eqmap (absi idx') (rule_spec oeqb keqb veqb knone o (rule_of now c mem deleted matches script) (absi idx)).
  Proof.
    intros now hs deleted o matches script ixs mem Hnd HA Hids Hsw. unfold index_event.
    destruct hs as [|c0 hs0] eqn:Ehs; [exists ixs, mem; simpl; split; [reflexivity|]; split; [exact HA|]; split; [tauto | intros c idx []]|].
    rewrite <- Ehs in *. assert (Hnil : is_nil hs = false) by (rewrite Ehs; reflexivity). rewrite Hnil. clear Hnil.
    destruct deleted.
    - destruct (indexers_discard_ok o ixs HA) as (ixs' & E & W & N). rewrite E; simpl.
      exists ixs', mem. split; [reflexivity|]. split; [exact W|]. split; [exact N|].
      intros c idx Hc Hg. destruct (indexers_discard_table oeqb keqb o ixs ixs' E (h_id c) idx Hg) as (idx' & G1 & G2).
      exists idx'. split; [exact G1|]. unfold rule_of; simpl.
      destruct (effect_ok o None idx (allwf_get _ _ _ HA Hg) I) as (i & Ei & _ & Gi). simpl in Ei.
      rewrite G2 in Ei; injection Ei as <-. exact Gi.
    - pose proof (run_handlers_spec now matches script hs mem Hnd) as (A & B & C & D).
      destruct (run_handlers now hs matches script mem) as [outs mem'] eqn:Er. simpl in A, B, C, D.
      assert (Hout : forall h oc, In (h, oc) outs ->
                exists c, In c hs /\ h_id c = h /\ expected_out now matches script mem c = Some oc).
      { intros h oc Hi. destruct (in_ids hs h (D h (in_map fst _ _ Hi))) as (c & Hc & Eh).
        exists c. split; [exact Hc|]. split; [exact Eh|]. rewrite <- (A c Hc), Eh. apply in_nodup_sget; assumption. }
      assert (Hwf : forall h oc, In (h, oc) outs -> sget h ixs <> None /\ oc_wf oc).
      { intros h oc Hi. destruct (Hout h oc Hi) as (c & Hc & Eh & Ee). split; [rewrite <- Eh; apply Hids; exact Hc|].
        unfold expected_out in Ee. destruct (matches (h_id c) && awakened now (state_of mem c)); [|discriminate].
        injection Ee as Ee. destruct oc as [|[m|v]|]; simpl; auto.
        apply exec_once_res in Ee. exact (Hsw _ _ Ee). }
      unfold indexers_replace.
      destruct (apply_outcomes_ok o outs ixs HA Hwf) as (ixs1 & E1 & W1 & N1). rewrite E1; simpl.
      destruct (purge_absent_ok o outs ixs1 W1) as (ixs' & E2 & W2 & N2). rewrite E2; simpl.
      exists ixs', mem'. split; [reflexivity|]. split; [exact W2|]. split; [intro h; rewrite N2; apply N1|].
      intros c idx Hc Hg.
      assert (Eir : indexers_replace oeqb keqb veqb knone o outs ixs = Ok ixs') by (unfold indexers_replace; rewrite E1; exact E2).
      destruct (indexers_table oeqb keqb veqb knone o outs ixs ixs' C Eir (h_id c) idx Hg) as (idx' & G1 & G2).
      exists idx'. split; [exact G1|].
      assert (Hocwf : match sget (h_id c) outs with Some x => oc_wf x | None => True end).
      { destruct (sget (h_id c) outs) as [oc|] eqn:Eo; [|exact I].
        apply (aget_in String.eqb seqb_spec) in Eo. exact (proj2 (Hwf _ _ Eo)). }
      destruct (effect_ok o (sget (h_id c) outs) idx (allwf_get _ _ _ HA Hg) Hocwf) as (i & Ei & _ & Gi).
      rewrite G2 in Ei; injection Ei as <-.
      rewrite (A c Hc) in Gi. unfold expected_out in Gi. unfold rule_of; simpl.
      destruct (matches (h_id c)); simpl in *; [|exact Gi].
      destruct (awakened now (state_of mem c)); simpl in *; [|exact Gi].
      destruct (fst (exec_once now c (state_of mem c) (script (h_id c)))); exact Gi.
  Qed.
End EventRefines.

Section HistoryRefines.
  Context {O K V : Type} (oeqb : O -> O -> bool) (keqb : K -> K -> bool) (veqb : V -> V -> bool) (knone : K).
  Hypothesis oeqb_spec : forall a b, oeqb a b = true <-> a = b.
  Hypothesis keqb_spec : forall a b, keqb a b = true <-> a = b.
  Notation absi := (@abs O K V oeqb keqb).
  Notation rspec := (rule_spec oeqb keqb veqb knone).

  Lemma rule_spec_ext : forall o ru R1 R2, eqmap R1 R2 -> eqmap (rspec o ru R1) (rspec o ru R2).
  Proof.
    intros o [r| |] R1 R2 H; simpl; [| exact H |]; intros o' k; simpl; destruct (oeqb o' o); auto.
    rewrite H; reflexivity.
  Qed.

  Lemma rule_hist_ext : forall hs c es mems R1 R2, eqmap R1 R2 ->
    eqmap (rule_hist oeqb keqb veqb knone hs c mems es R1) (rule_hist oeqb keqb veqb knone hs c mems es R2).
  Proof. intros hs c es; induction es as [|e t IH]; intros mems R1 R2 H; simpl; [exact H|]. apply IH. apply rule_spec_ext; exact H. Qed.

  Lemma index_event_mem : forall now hs deleted o matches script ixs mem ixs' mem',
    index_event oeqb keqb veqb knone now hs deleted o matches script ixs mem = Ok (ixs', mem') ->
    mem' = if is_nil hs then mem else if deleted then mem else snd (run_handlers now hs matches script mem).
  Proof.
    intros now hs deleted o matches script ixs mem ixs' mem' H. unfold index_event in H.
    destruct (is_nil hs); [injection H as _ <-; reflexivity|].
    destruct deleted.
    - destruct (indexers_discard oeqb keqb o ixs); simpl in H; try discriminate. injection H as _ <-; reflexivity.
    - destruct (run_handlers now hs matches script mem) as [outs m]. simpl.
      destruct (indexers_replace oeqb keqb veqb knone o outs ixs); simpl in H; try discriminate. injection H as _ <-; reflexivity.
  Qed.

  (* every history of events: index_resource never raises, and each index equals the reference built from the
     documented rule of every event *)
  Theorem history_refines : forall hs, NoDup (map h_id hs) ->
    forall es ixs mems, Forall (fun e => script_wf (e_script e)) es ->
    AllWF oeqb keqb ixs -> (forall c, In c hs -> sget (h_id c) ixs <> None) ->
    exists ixs' mems', hist_run oeqb keqb veqb knone hs (ixs, mems) es = Ok (ixs', mems') /\
      AllWF oeqb keqb ixs' /\
      forall c idx, In c hs -> sget (h_id c) ixs = Some idx ->
        exists idx', sget (h_id c) ixs' = Some idx' /\
          eqmap (absi idx') (rule_hist oeqb keqb veqb knone hs c mems es (absi idx)).
  Proof.
    intros hs Hnd es; induction es as [|e t IH]; intros ixs mems Hsw HA Hids.
    - exists ixs, mems. simpl. split; [reflexivity|]. split; [exact HA|].
      intros c idx Hc Hg. exists idx. split; [exact Hg | intros ? ?; reflexivity].
    - inversion Hsw as [|? ? Hse Hst]; subst.
      destruct (event_refines oeqb keqb veqb knone oeqb_spec keqb_spec (e_now e) hs (e_deleted e) (e_obj e)
                  (e_matches e) (e_script e) ixs (mems (e_obj e)) Hnd HA Hids Hse) as (ixs1 & m1 & E1 & W1 & N1 & G1).
      set (mems1 := fun o' => if oeqb o' (e_obj e) then (if e_deleted e then [] else m1) else mems o').
      assert (Hids1 : forall c, In c hs -> sget (h_id c) ixs1 <> None).
      { intros c Hc Hx. apply (Hids c Hc). apply N1. exact Hx. }
      destruct (IH ixs1 mems1 Hst W1 Hids1) as (ixs' & mems' & E2 & W2 & G2).
      exists ixs', mems'. split; [|split; [exact W2|]].
      + cbn [hist_run]. unfold event_run. rewrite E1; simpl. exact E2.
      + intros c idx Hc Hg. destruct (G1 c idx Hc Hg) as (idx1 & Hg1 & M1).
        destruct (G2 c idx1 Hc Hg1) as (idx' & Hg' & M2). exists idx'. split; [exact Hg'|].
        intros o' k. rewrite M2. cbn [rule_hist].
        assert (Em : forall o2, mems1 o2 = mem_next oeqb hs mems e o2).
        { intro o2. unfold mems1, mem_next. destruct (oeqb o2 (e_obj e)); [|reflexivity].
          destruct (e_deleted e) eqn:Ed; [reflexivity|].
          rewrite (index_event_mem _ _ _ _ _ _ _ _ _ _ E1). destruct (is_nil hs); reflexivity. }
        assert (Eh : forall es' R, eqmap (rule_hist oeqb keqb veqb knone hs c mems1 es' R)
                                     (rule_hist oeqb keqb veqb knone hs c (mem_next oeqb hs mems e) es' R)).
        { clear - Em. intros es'. generalize mems1 (mem_next oeqb hs mems e) Em.
          induction es' as [|e' t' IH']; intros ma mb Hab R o' k; simpl; [reflexivity|].
          rewrite (Hab (e_obj e')).
          assert (Hn : forall o2, mem_next oeqb hs ma e' o2 = mem_next oeqb hs mb e' o2).
          { intro o2. unfold mem_next. rewrite !(Hab (e_obj e')), (Hab o2). reflexivity. }
          apply (IH' _ _ Hn). }
        rewrite Eh. apply rule_hist_ext. exact M1.
  Qed.

  (* the start state of an operator: OperatorIndexers.ensure(handlers), empty indices, no memories *)
  Lemma init_allwf : forall hs, AllWF oeqb keqb (@init_indexers O K V hs).
  Proof. intro hs; unfold AllWF, init_indexers. apply Forall_forall. intros p Hp. apply in_map_iff in Hp.
         destruct Hp as (c & <- & _). simpl. apply WF_empty. Qed.
  Lemma init_has : forall hs c, In c hs -> sget (h_id c) (@init_indexers O K V hs) <> None.
  Proof.
    intros hs c Hc Hn. apply (aget_none_iff String.eqb seqb_spec) in Hn. apply Hn.
    unfold init_indexers. rewrite map_map; simpl. apply in_map; exact Hc.
  Qed.
End HistoryRefines.

(* ---------- the views list every key once and every contributing object once ---------- *)
Section Views.
  Context {O K V : Type} (oeqb : O -> O -> bool) (keqb : K -> K -> bool) (veqb : V -> V -> bool).
  Hypothesis oeqb_spec : forall a b, oeqb a b = true <-> a = b.
  Hypothesis keqb_spec : forall a b, keqb a b = true <-> a = b.

  Definition ND (idx : index O K V) : Prop :=
    NoDup (map fst (items idx)) /\ Forall (fun p => NoDup (map fst (snd p))) (items idx).

  Lemma forall_aset : forall {A B} (eqb : A -> A -> bool) (P : B -> Prop) k v (l : list (A * B)),
    Forall (fun p => P (snd p)) l -> P v -> Forall (fun p => P (snd p)) (aset eqb k v l).
  Proof.
    intros A B eqb P k v l; induction l as [|[k0 v0] t IH]; intros HF Hv; simpl.
    - constructor; [exact Hv | constructor].
    - inversion HF; subst. destruct (eqb k k0); constructor; auto.
  Qed.
  Lemma forall_adel : forall {A B} (eqb : A -> A -> bool) (P : B -> Prop) k (l : list (A * B)),
    Forall (fun p => P (snd p)) l -> Forall (fun p => P (snd p)) (adel eqb k l).
  Proof.
    intros A B eqb P k l; induction l as [|[k0 v0] t IH]; intros HF; simpl; [constructor|].
    inversion HF; subst. destruct (eqb k k0); [auto | constructor; auto].
  Qed.
  Lemma forall_get : forall {B} (P : B -> Prop) k v (l : list (K * B)),
    Forall (fun p => P (snd p)) l -> aget keqb k l = Some v -> P v.
  Proof. intros B P k v l HF Hg. apply (aget_in keqb keqb_spec) in Hg. rewrite Forall_forall in HF. exact (HF _ Hg). Qed.

  Lemma nd_discard_step : forall o idx k idx', ND idx -> discard_step oeqb keqb o (Ok idx) k = Ok idx' -> ND idx'.
  Proof.
    intros o idx k idx' [H1 H2] E. unfold discard_step in E; simpl in E.
    destruct (aget keqb k (items idx)) as [st|] eqn:Ek; [|discriminate].
    destruct (aget oeqb o (rev_of idx)); [|discriminate]. injection E as <-. unfold ND; simpl.
    pose proof (forall_get (fun st => NoDup (map fst st)) k st _ H2 Ek) as Hst.
    destruct (is_nil (store_discard oeqb o st)).
    - split; [apply nodup_adel; auto | apply (forall_adel keqb (fun st : list (O * V) => NoDup (map fst st))); exact H2].
    - split; [apply nodup_aset; auto | apply (forall_aset keqb (fun st : list (O * V) => NoDup (map fst st))); [exact H2 | apply nodup_adel; auto]].
  Qed.

  Lemma nd_discard_fold : forall o ks acc idx', fold_left (discard_step oeqb keqb o) ks acc = Ok idx' ->
    (forall idx, acc = Ok idx -> ND idx) -> ND idx'.
  Proof.
    intros o ks; induction ks as [|k t IH]; intros acc idx' E Hacc; simpl in E; [exact (Hacc _ E)|].
    apply (IH _ _ E). intros idx1 E1. destruct acc as [idx0| | |]; try discriminate E1.
    exact (nd_discard_step o idx0 k idx1 (Hacc idx0 eq_refl) E1).
  Qed.

  Lemma nd_index_discard : forall o oks idx idx', ND idx -> index_discard oeqb keqb o oks idx = Ok idx' -> ND idx'.
  Proof.
    intros o oks idx idx' HN E. unfold index_discard in E.
    destruct (aget oeqb o (rev_of idx)) as [ks0|]; [|injection E as <-; exact HN].
    destruct (fold_left (discard_step oeqb keqb o) (match oks with Some ks => ks | None => ks0 end) (Ok idx)) as [i| | |] eqn:Ef;
      simpl in E; try discriminate.
    assert (Hi : ND i) by (apply (nd_discard_fold o _ _ _ Ef); intros x Ex; injection Ex as <-; exact HN).
    destruct (aget oeqb o (rev_of i)) as [[|x l]|]; try discriminate; injection E as <-; exact Hi.
  Qed.

  Lemma nd_store_replace : forall o v (st : list (O * V)), NoDup (map fst st) -> NoDup (map fst (store_replace oeqb veqb o v st)).
  Proof.
    intros o v st H; unfold store_replace. destruct (aget oeqb o st) as [v'|]; [destruct (veqb v' v); auto|]; apply nodup_aset; auto.
  Qed.

  Lemma nd_replace_step : forall o idx kv, ND idx -> ND (replace_step oeqb keqb veqb o idx kv).
  Proof.
    intros o idx [k v] [H1 H2]. unfold replace_step, ND; simpl.
    split; [apply nodup_aset; auto|]. apply (forall_aset keqb (fun st : list (O * V) => NoDup (map fst st))); [exact H2|]. apply nd_store_replace.
    destruct (aget keqb k (items idx)) as [st|] eqn:Ek; [|constructor].
    exact (forall_get (fun st => NoDup (map fst st)) k st _ H2 Ek).
  Qed.

  Lemma nd_index_replace : forall o obj idx idx', ND idx -> index_replace oeqb keqb veqb o obj idx = Ok idx' -> ND idx'.
  Proof.
    intros o obj idx idx' HN E. unfold index_replace in E.
    set (idx0 := match aget oeqb o (rev_of idx) with Some _ => idx | None => mkIndex (items idx) (aset oeqb o [] (rev_of idx)) end) in *.
    assert (H0 : ND idx0) by (subst idx0; destruct (aget oeqb o (rev_of idx)); exact HN).
    assert (H1 : ND (fold_left (replace_step oeqb keqb veqb o) obj idx0)).
    { clear E. generalize idx0 H0. induction obj as [|kv t IH]; intros i Hi; simpl; [exact Hi|].
      apply IH. apply nd_replace_step; exact Hi. }
    exact (nd_index_discard o _ _ idx' H1 E).
  Qed.

  Theorem nd_reachable : forall ops idx', gops_run oeqb keqb veqb index_empty ops = Ok idx' -> ND idx'.
  Proof.
    assert (G : forall ops idx idx', ND idx -> gops_run oeqb keqb veqb idx ops = Ok idx' -> ND idx').
    { induction ops as [|op t IH]; intros idx idx' HN E; simpl in E; [injection E as <-; exact HN|].
      destruct (gop_run oeqb keqb veqb idx op) as [i| | |] eqn:Eo; simpl in E; try discriminate.
      apply (IH i idx'); [|exact E]. destruct op as [o obj|o]; simpl in Eo.
      - exact (nd_index_replace o obj idx i HN Eo).
      - exact (nd_index_discard o None idx i HN Eo). }
    intros ops idx' E. apply (G ops index_empty idx'); [|exact E]. split; simpl; constructor.
  Qed.

  Lemma in_nodup_aget : forall (st : list (O * V)) o v, NoDup (map fst st) -> (In (o, v) st <-> aget oeqb o st = Some v).
  Proof.
    intros st o v Hnd; split; [|apply (aget_in oeqb oeqb_spec)].
    induction st as [|[o0 v0] t IH]; intro Hin; [contradiction|].
    inversion Hnd as [|? ? Hn Hnd']; subst. simpl. destruct Hin as [E|Hin].
    - injection E as <- <-. rewrite (eqb_refl oeqb oeqb_spec). reflexivity.
    - destruct (oeqb o o0) eqn:E; [|apply IH; auto].
      apply oeqb_spec in E; subst. exfalso; apply Hn. apply (in_map fst) in Hin. exact Hin.
  Qed.

  (* what a handler sees: list(index) has no repeated key; index[k] holds exactly one value per object that currently
     contributes to k, namely the reference value *)
  Theorem views_exact : forall ops idx', gops_run oeqb keqb veqb index_empty ops = Ok idx' ->
    NoDup (view_keys idx') /\
    forall k st, aget keqb k (items idx') = Some st ->
      NoDup (map fst st) /\ forall o v, In (o, v) st <-> abs oeqb keqb idx' o k = Some v.
  Proof.
    intros ops idx' E. destruct (nd_reachable ops idx' E) as [H1 H2]. split; [exact H1|].
    intros k st Hk. pose proof (forall_get (fun st => NoDup (map fst st)) k st _ H2 Hk) as Hst.
    split; [exact Hst|]. intros o v. unfold abs, get_val. rewrite Hk. apply in_nodup_aget; exact Hst.
  Qed.
End Views.

(* ---------- a concrete history (non-vacuity of history_refines; also replayed against the real code in the corpus) ---------- *)
Open Scope string_scope.
Definition ex_hs : list hcfg := [mkHcfg "h1" None None 60; mkHcfg "h2" (Some ETemporary) (Some 2%Z) 4].
Definition ex_ev (now : Z) (del : bool) (o : nat) (ms : list string) (sc : list (string * action ikey json)) : event nat ikey json :=
  mkEvent now del o (fun h => lmem String.eqb h ms) (script_of ANone sc).
Definition ex_history : list (event nat ikey json) :=
  [ ex_ev 0 false 0%nat ["h1"; "h2"] [("h1", AResult (RMap [(KStr "x", JNum 1)])); ("h2", AResult (RScalar (JStr "v")))];
    ex_ev 0 false 1%nat ["h1"; "h2"] [("h1", AResult (RMap [(KStr "x", JNum 2)])); ("h2", AArb)];
    ex_ev 1 false 0%nat ["h1"; "h2"] [("h1", ATemp (Some 8%Z)); ("h2", ANone)];
    ex_ev 2 false 1%nat ["h1"] [("h1", ANone); ("h2", ANone)];
    ex_ev 3 true 1%nat [] [] ].
Close Scope string_scope.

Lemma ex_history_wf : Forall (fun e => script_wf (e_script e)) ex_history /\ NoDup (map h_id ex_hs).
Proof.
  split.
  - repeat constructor; intros h m; unfold ex_history, ex_ev, script_of; simpl;
      repeat (destruct (String.eqb h _); [intro E; first [discriminate E | injection E as <-; repeat constructor; simpl; tauto]|]);
      intro E; discriminate E.
  - simpl. constructor; [intros [E|[]]; discriminate E | constructor; [intros [] | constructor]].
Qed.

Example ex_history_runs :
  exists ixs' mems', hist_run Nat.eqb ikey_eqb py_eqb KNone ex_hs (init_indexers ex_hs, fun _ => []) ex_history = Ok (ixs', mems') /\
    (* object 0: x -> 1 under h1 was removed by the TemporaryError; its scalar under h2 is kept on None *)
    rule_hist Nat.eqb ikey_eqb py_eqb KNone ex_hs (mkHcfg "h1" None None 60) (fun _ => []) ex_history (fun _ _ => None) 0%nat (KStr "x") = None /\
    rule_hist Nat.eqb ikey_eqb py_eqb KNone ex_hs (mkHcfg "h2" (Some ETemporary) (Some 2%Z) 4) (fun _ => []) ex_history (fun _ _ => None) 0%nat KNone = Some (JStr "v") /\
    (* object 1: kept on None, then h2 stopped matching, then DELETED: everything gone, retry memory forgotten *)
    mems' 1%nat = [] /\ mems' 0%nat <> [].
Proof.
  eexists; eexists. split; [vm_compute; reflexivity|]. split; [vm_compute; reflexivity|]. split; [vm_compute; reflexivity|].
  split; [vm_compute; reflexivity | vm_compute; discriminate].
Qed.
