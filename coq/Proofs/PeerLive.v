(* Progress of one operator in the network (Model/PeerNet.v): with the latest event pending (or the armed
   sleep due) its own steps are ENABLED and lead, in at most three of them, to a state where it has
   processed everything and its toggle equals the presence of a live blocker in the object. *)
From Coq Require Import ZArith List String Bool Lia.
From KV Require Import Base.Json Model.Peering Model.PeerNet Proofs.Peering Proofs.PeerNet Proofs.PeerSched.
Import ListNotations.
Open Scope string_scope.
Open Scope Z_scope.
Open Scope list_scope.

Lemma run_app : forall a b s, run s (a ++ b) = match run s a with Some s1 => run s1 b | None => None end.
Proof. induction a as [|l a IH]; simpl; intros b s; [reflexivity|]. destruct (step s l); [apply IH | reflexivity]. Qed.

Lemma strs_eqb_refl : forall l, strs_eqb l l = true.
Proof. induction l as [|a l IH]; simpl; [reflexivity|]. now rewrite String.eqb_refl, IH. Qed.

Lemma no_elements_nil : forall (A : Type) (l : list A), (forall x, ~ In x l) -> l = [].
Proof. intros A [|a l] H; [reflexivity|]. exfalso. apply (H a). now left. Qed.

(* dead records are no blockers: removing records only removes blockers *)
Lemma has_blocker_sub : forall i p now (st st' : astatus), (forall kv, In kv st' -> In kv st) ->
  has_blocker i p now st' = true -> has_blocker i p now st = true.
Proof.
  intros i p now st st' H B. unfold has_blocker in *. apply existsb_exists in B as (kv & Hin & Hb).
  apply existsb_exists. exists kv. auto.
Qed.

(* one Observe of the only pending, hence latest, event: always enabled; what it leaves *)
Lemma observe_latest_enabled : forall t0 tr s i v snap,
  run (net0 t0) tr = Some s -> is_up (n_ops s i) = true -> op_listed (n_ops s i) = true ->
  op_inbox (n_ops s i) = [(v, snap)] ->
  exists cleaned s',
    step s (LObserve i v cleaned (has_blocker i (op_prio (n_ops s i)) (n_now s) (n_status s))) = Some s' /\
    n_now s' = n_now s /\ is_up (n_ops s' i) = true /\ op_listed (n_ops s' i) = true /\
    op_prio (n_ops s' i) = op_prio (n_ops s i) /\
    (forall id, In id cleaned <-> exists kv, In kv (n_status s) /\ fst kv = id /\ dl_at (n_now s) (snd kv) <= n_now s) /\
    (cleaned = [] -> n_status s' = n_status s /\ op_inbox (n_ops s' i) = [] /\
                     op_toggle (n_ops s' i) = has_blocker i (op_prio (n_ops s i)) (n_now s) (n_status s) /\
                     (has_blocker i (op_prio (n_ops s i)) (n_now s) (n_status s) = false -> op_wake (n_ops s' i) = None)) /\
    (cleaned <> [] -> n_status s' = dels cleaned (n_status s) /\
                      op_inbox (n_ops s' i) = [(S (n_ver s), dels cleaned (n_status s))]).
Proof.
  intros t0 tr s i v snap R U L IB.
  pose proof (reachable_inv _ _ _ R i U L) as I. rewrite IB in I. destruct I as (pre & Hpre).
  apply app_single_inv in Hpre as [_ Hx]. injection Hx as -> ->.
  destruct (decide_abs_total i (n_ops s i) (n_now s) (n_status s) (op_toggle (n_ops s i))) as [out ED].
  destruct (decide_abs _ _ _ _ _ _ ED) as (HT & HN & _ & HC).
  assert (A : is_alive (n_ops s i) = true) by now apply up_alive.
  assert (P : op_phase (n_ops s i) = Up) by (unfold is_up in U; destruct (op_phase (n_ops s i)); congruence).
  exists (o_clean out).
  assert (S0 : step s (LObserve i (n_ver s) (o_clean out) (has_blocker i (op_prio (n_ops s i)) (n_now s) (n_status s))) =
               let o' := mkOp Up (op_prio (n_ops s i)) (op_life (n_ops s i)) true
                              (has_blocker i (op_prio (n_ops s i)) (n_now s) (n_status s)) (o_wake out) [] in
               match o_clean out with
               | [] => Some (mkNet (n_now s) (n_ver s) (n_status s) (n_ids s) (upd (n_ops s) i o') (n_ka s))
               | _ => Some (commit s (dels (o_clean out) (n_status s)) (upd (n_ops s) i o'))
               end).
  { cbn [step]. rewrite A, L, IB. cbn [andb negb]. rewrite Nat.eqb_refl. cbn [negb]. rewrite ED.
    rewrite strs_eqb_refl, HT. cbn [obool_eqb]. rewrite eqb_reflx. cbn [andb negb]. rewrite P. reflexivity. }
  destruct (o_clean out) as [|c cl] eqn:EC.
  - eexists. split; [exact S0|]. cbn [n_now n_ops n_status]. rewrite upd_same. cbn.
    split; [reflexivity|]. split; [reflexivity|]. split; [reflexivity|]. split; [reflexivity|]. split; [exact HC|].
    split; [intros _; split; [reflexivity|]; split; [reflexivity|]; split; [reflexivity | exact HN] | intros X; congruence].
  - eexists. split; [exact S0|]. unfold commit. cbn [n_now n_ops n_status n_ver].
    assert (E : push (S (n_ver s)) (dels (c :: cl) (n_status s))
                  (upd (n_ops s) i (mkOp Up (op_prio (n_ops s i)) (op_life (n_ops s i)) true
                     (has_blocker i (op_prio (n_ops s i)) (n_now s) (n_status s)) (o_wake out) [])) i
                = mkOp Up (op_prio (n_ops s i)) (op_life (n_ops s i)) true
                     (has_blocker i (op_prio (n_ops s i)) (n_now s) (n_status s)) (o_wake out)
                     [(S (n_ver s), dels (c :: cl) (n_status s))]).
    { unfold push. rewrite upd_same. reflexivity. }
    rewrite E. cbn.
    split; [reflexivity|]. split; [reflexivity|]. split; [reflexivity|]. split; [reflexivity|]. split; [exact HC|].
    split; [intros X; discriminate | intros _; split; reflexivity].
Qed.

(* ... hence, in at most two Observes, the operator has processed everything *)
Theorem drain_latest : forall t0 tr s i v snap,
  run (net0 t0) tr = Some s -> is_up (n_ops s i) = true -> op_listed (n_ops s i) = true ->
  op_inbox (n_ops s i) = [(v, snap)] ->
  exists tr' s', (List.length tr' <= 2)%nat /\ (forall l, In l tr' -> exists v c b, l = LObserve i v c b) /\
    run s tr' = Some s' /\ n_now s' = n_now s /\
    is_up (n_ops s' i) = true /\ op_listed (n_ops s' i) = true /\ op_inbox (n_ops s' i) = [] /\
    (forall kv, In kv (n_status s') -> In kv (n_status s)) /\
    op_toggle (n_ops s' i) = has_blocker i (op_prio (n_ops s i)) (n_now s') (n_status s') /\
    (has_blocker i (op_prio (n_ops s i)) (n_now s) (n_status s) = false ->
       op_toggle (n_ops s' i) = false /\ op_wake (n_ops s' i) = None).
Proof.
  intros t0 tr s i v snap R U L IB.
  destruct (observe_latest_enabled _ _ _ _ _ _ R U L IB) as (cl1 & s1 & S1 & N1 & U1 & L1 & P1 & C1 & E1 & NE1).
  destruct cl1 as [|c cl].
  - destruct (E1 eq_refl) as (St & IB1 & T1 & W1).
    exists [LObserve i v [] (has_blocker i (op_prio (n_ops s i)) (n_now s) (n_status s))], s1.
    split; [simpl; lia|]. split; [intros l [<- | []]; eauto|].
    split; [cbn [run]; rewrite S1; reflexivity|]. rewrite N1, St. repeat split; auto; congruence.
  - destruct NE1 as (St1 & IB1); [discriminate|].
    assert (R1 : run (net0 t0) (tr ++ [LObserve i v (c :: cl) (has_blocker i (op_prio (n_ops s i)) (n_now s) (n_status s))]) = Some s1).
    { rewrite run_app, R. cbn [run]. now rewrite S1. }
    destruct (observe_latest_enabled _ _ _ _ _ _ R1 U1 L1 IB1) as (cl2 & s2 & S2 & N2 & U2 & L2 & P2 & C2 & E2 & _).
    assert (cl2 = []).
    { apply no_elements_nil. intros id Hid. apply C2 in Hid as ([k r] & Hin & Hk & Hd). simpl in *. subst k.
      rewrite St1 in Hin. apply in_dels in Hin as [Hin Hn].
      assert (X : In id (c :: cl)).
      { apply C1. exists (id, r). rewrite <- N1. split; [eapply in_del; exact Hin | auto]. }
      destruct X as [-> | X]; [eapply del_not_in; exact Hin | now apply Hn]. }
    subst cl2. destruct (E2 eq_refl) as (St2 & IB2 & T2 & W2).
    exists [LObserve i v (c :: cl) (has_blocker i (op_prio (n_ops s i)) (n_now s) (n_status s));
            LObserve i (S (n_ver s)) [] (has_blocker i (op_prio (n_ops s1 i)) (n_now s1) (n_status s1))], s2.
    split; [simpl; lia|]. split; [intros l [<- | [<- | []]]; eauto|].
    split; [cbn [run]; rewrite S1, S2; reflexivity|].
    assert (Sub : forall kv, In kv (n_status s2) -> In kv (n_status s)).
    { intros [k r] H. rewrite St2, St1 in H. apply in_dels_sub in H. exact H. }
    rewrite N2, N1. repeat split; auto.
    + rewrite T2, P1, N1, St2. reflexivity.
    + rewrite T2, P1, N1. destruct (has_blocker i (op_prio (n_ops s i)) (n_now s) (n_status s1)) eqn:B; [|reflexivity].
      exfalso. apply (has_blocker_sub _ _ _ (n_status s)) in B; [congruence|]. intros kv Hkv. apply Sub. now rewrite St2.
    + apply W2. rewrite P1, N1. destruct (has_blocker i (op_prio (n_ops s i)) (n_now s) (n_status s1)) eqn:B; [|reflexivity].
      exfalso. apply (has_blocker_sub _ _ _ (n_status s)) in B; [congruence|]. intros kv Hkv. apply Sub. now rewrite St2.
Qed.

(* It resumes once every such peer has withdrawn or expired.
   (a) expiry: a paused operator that has processed everything, while no live blocker is left in the object:
       its wake-up is due; Wake + at most two Observes — all enabled — leave it active and idle. *)
Theorem resumes_after_expiry : forall t0 tr s i,
  run (net0 t0) tr = Some s -> is_up (n_ops s i) = true -> op_listed (n_ops s i) = true ->
  op_inbox (n_ops s i) = [] -> op_toggle (n_ops s i) = true ->
  has_blocker i (op_prio (n_ops s i)) (n_now s) (n_status s) = false ->
  exists tr' s', (List.length tr' <= 3)%nat /\
    (forall l, In l tr' -> l = LWake i \/ exists v c b, l = LObserve i v c b) /\
    run s tr' = Some s' /\ n_now s' = n_now s /\ synced s' i /\ op_toggle (n_ops s' i) = false.
Proof.
  intros t0 tr s i R U L IB T B.
  destruct (wake_due _ _ _ _ R U L IB T B) as (w & Hw & Hdue & s1 & S1).
  assert (R1 : run (net0 t0) (tr ++ [LWake i]) = Some s1) by (rewrite run_app, R; cbn [run]; now rewrite S1).
  assert (F : n_now s1 = n_now s /\ is_up (n_ops s1 i) = true /\ op_listed (n_ops s1 i) = true /\
              op_prio (n_ops s1 i) = op_prio (n_ops s i) /\
              op_inbox (n_ops s1 i) = [(S (n_ver s), n_status s1)] /\
              has_blocker i (op_prio (n_ops s i)) (n_now s) (n_status s1) = false).
  { cbn [step] in S1. rewrite (up_alive _ U), Hw in S1. cbn [negb] in S1.
    apply Z.leb_le in Hdue. rewrite Hdue in S1. injection S1 as <-. unfold commit. cbn [n_now n_ops n_status n_ver].
    assert (P : op_phase (n_ops s i) = Up) by (unfold is_up in U; destruct (op_phase (n_ops s i)); congruence).
    unfold push. rewrite upd_same. unfold is_up. cbn. rewrite P, L, IB. cbn. repeat split; auto.
    destruct (has_blocker i (op_prio (n_ops s i)) (n_now s) (touched i (n_ops s i) None (n_now s) (n_status s))) eqn:X; [|reflexivity].
    exfalso. unfold has_blocker in X. apply existsb_exists in X as ([k r] & Hin & Hb).
    assert (N : k <> i).
    { unfold is_blocker in Hb. simpl in Hb. apply andb_prop in Hb as [Hb _]. apply andb_prop in Hb as [Hb _].
      apply negb_true_iff in Hb. now apply String.eqb_neq in Hb. }
    apply in_touched_other in Hin; [|exact N].
    assert (Y : has_blocker i (op_prio (n_ops s i)) (n_now s) (n_status s) = true).
    { unfold has_blocker. apply existsb_exists. exists (k, r). auto. }
    congruence. }
  destruct F as (N1 & U1 & L1 & P1 & IB1 & B1).
  destruct (drain_latest _ _ _ _ _ _ R1 U1 L1 IB1) as (tr2 & s2 & Len & Own & R2 & N2 & U2 & L2 & IB2 & _ & _ & Res).
  rewrite P1, N1 in Res. destruct (Res B1) as [T2 W2].
  exists (LWake i :: tr2), s2. split; [simpl; lia|]. split.
  - intros l [<- | Hl]; [now left | right; now apply Own].
  - split; [cbn [run]; rewrite S1; exact R2|]. split; [congruence|]. split; [|exact T2].
    repeat split; auto. intros w' E. rewrite W2 in E. discriminate.
Qed.

(* (b) withdrawal (or any other write): the event carrying the current object is the only one pending and it
       shows no live blocker: at most two Observes — enabled — leave the operator active and idle. *)
Theorem resumes_after_withdrawal : forall t0 tr s i v snap,
  run (net0 t0) tr = Some s -> is_up (n_ops s i) = true -> op_listed (n_ops s i) = true ->
  op_inbox (n_ops s i) = [(v, snap)] ->
  has_blocker i (op_prio (n_ops s i)) (n_now s) (n_status s) = false ->
  exists tr' s', (List.length tr' <= 2)%nat /\ (forall l, In l tr' -> exists v c b, l = LObserve i v c b) /\
    run s tr' = Some s' /\ n_now s' = n_now s /\ synced s' i /\ op_toggle (n_ops s' i) = false.
Proof.
  intros t0 tr s i v snap R U L IB B.
  destruct (drain_latest _ _ _ _ _ _ R U L IB) as (tr2 & s2 & Len & Own & R2 & N2 & U2 & L2 & IB2 & _ & _ & Res).
  destruct (Res B) as [T2 W2]. exists tr2, s2. repeat split; auto. intros w' E. rewrite W2 in E. discriminate.
Qed.
