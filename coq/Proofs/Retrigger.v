(* C03, function level: a worker cycle that leaves something outstanding always re-triggers itself
   (application.apply as modelled in Model/PatchObj.v and tied to the code by the D:apply differential). *)
From Coq Require Import ZArith List Bool.
From KV Require Import Base.Json Base.Dicts Model.JsonPatch Model.PatchObj Proofs.PatchObj.
Import ListNotations.

Lemma apply_retriggers : forall S serve diff has_sub patch0 clear fns orig delays woken touch_patch (s0 : S) r,
  po_apply S serve diff has_sub patch0 clear fns orig delays woken touch_patch s0 = ApOk r ->
  po_min delays <> None ->
  po_patch_truthy patch0 fns = true
  \/ ap_touched r = true
  \/ (woken = true /\ ap_slept r <> None).
Proof.
  intros S serve diff has_sub patch0 clear fns orig delays woken touch_patch s0 r Happly Hdelay.
  destruct (po_patch_truthy patch0 fns) eqn:Ep; [left; reflexivity | right].
  pose proof (po_apply_decision S serve diff has_sub patch0 clear fns orig delays woken touch_patch s0 r Happly) as H.
  cbv zeta in H. rewrite Ep in H. destruct H as (_ & _ & _ & H4).
  exact (H4 eq_refl Hdelay).
Qed.

(* ... and a touch is a real write: when it is made, at least one more request than the cycle's own patch reached the server *)
Lemma apply_quiet_only_when_done : forall S serve diff has_sub patch0 clear fns orig delays woken touch_patch (s0 : S) r,
  po_apply S serve diff has_sub patch0 clear fns orig delays woken touch_patch s0 = ApOk r ->
  ap_applied r = true -> po_min delays = None /\ po_patch_truthy patch0 fns = false.
Proof.
  intros S serve diff has_sub patch0 clear fns orig delays woken touch_patch s0 r Happly Happlied.
  pose proof (po_apply_decision S serve diff has_sub patch0 clear fns orig delays woken touch_patch s0 r Happly) as H.
  cbv zeta in H. destruct H as (H1 & _). apply H1 in Happlied. tauto.
Qed.
