(* C04 — concrete witnesses (vm_compute): refutations of the full-strength statements on the faithful
   model (= open findings F3, F41; F5 and F42 became regression examples with kopf commit e6fe434) and non-vacuity examples for the positive theorems. *)
From Coq Require Import ZArith NArith List String Bool Ascii.
From KV Require Import Base.Json Base.Dicts Model.Keys Model.Storage Model.Diff Model.Essence Model.OwnWrites.
Import ListNotations.
Open Scope string_scope.
Open Scope list_scope.

Definition w_dg := table_dg [].     (* no key longer than 63 characters below: the digest is never consulted *)

(* kopf's defaults: annotations diff-base + smart progress under kopf.zalando.org *)
Definition w_ds := DAnn "kopf.zalando.org" "last-handled-configuration" true [].
Definition w_ps := smart "kopf.zalando.org" true false "touch-dummy" ["status"; "kopf"; "progress"] ["status"; "kopf"; "dummy"].

Definition w_body : json :=
  JObj [("apiVersion", JStr "kopf.dev/v1"); ("kind", JStr "KopfExample");
        ("metadata", JObj [("name", JStr "obj1"); ("resourceVersion", JStr "7");
                           ("labels", JObj [("app", JStr "v")]);
                           ("annotations", JObj [("note", JStr "x")])]);
        ("spec", JObj [("field", JStr "v")]);
        ("status", JObj [("x", JNum 1)])].

Definition w_record : obj := [("started", JStr "2020-01-01T00:00:00.000000"); ("retries", JNum 0); ("stopped", JNull)].

Definition res_jeqb (x y : res json) : bool := res_eqb jeqb x y.

(* ---- own writes of a whole cycle under the defaults: invisible (non-vacuity of the positive theorem) ---- *)
Definition w_ops (e : json) : list own_op :=
  [OwStore "create_fn" w_record; OwPurge "create_fn"; OwDiffbase e; OwTouch JNull].

Example own_cycle_invisible_ex :
  match essence w_dg w_ds w_ps w_body [] with
  | Ok e =>
      match own_body_after w_dg w_ds w_ps w_body [OwStore "create_fn" w_record; OwDiffbase e; OwTouch (JStr "t")] with
      | Ok b' => res_jeqb (essence w_dg w_ds w_ps b' []) (Ok e) && negb (jeqb b' w_body)
                 && jeqb e (JObj [("spec", JObj [("field", JStr "v")]);
                                  ("metadata", JObj [("labels", JObj [("app", JStr "v")]); ("annotations", JObj [("note", JStr "x")])])])
      | _ => false
      end
  | _ => false
  end = true.
Proof. vm_compute. reflexivity. Qed.

(* ---- F5 (fixed by kopf commit e6fe434): another Kopf operator with prefix kopf.dev now gets its marker, its
   writes are invisible (regression example; before the fix the two essences differed) ---- *)
Definition w_other_ds := DAnn "kopf.dev" "last-handled-configuration" true [].
Definition w_other_ps := PAnn "kopf.dev" true false "touch-dummy".

Example other_operator_kopf_dev_ex :
  match own_body_after w_dg w_other_ds w_other_ps w_body [OwStore "create_fn" w_record; OwDiffbase (JObj [("spec", JObj [])]); OwTouch (JStr "t")] with
  | Ok b' => res_jeqb (essence w_dg w_ds w_ps b' []) (essence w_dg w_ds w_ps w_body []) && negb (jeqb b' w_body)
             && match resolve b' ["metadata"; "annotations"; "kopf.dev/kopf-managed"] with Some (JStr "yes") => true | _ => false end
  | _ => false
  end = true.
Proof. vm_compute. reflexivity. Qed.

(* ... while an operator with a markable prefix is invisible (its first write carries the marker) *)
Example other_operator_marked_ex :
  match own_body_after w_dg (DAnn "my-op.example.com" "last-handled-configuration" true []) (PAnn "my-op.example.com" true false "touch-dummy")
          w_body [OwStore "create_fn" w_record; OwDiffbase (JObj [("spec", JObj [])]); OwTouch (JStr "t")] with
  | Ok b' => res_jeqb (essence w_dg w_ds w_ps b' []) (essence w_dg w_ds w_ps w_body []) && negb (jeqb b' w_body)
  | _ => false
  end = true.
Proof. vm_compute. reflexivity. Qed.

(* ---- F41: the first marker under the operator's own diff-base prefix hides a visible annotation ---- *)
Definition w41_ds := DAnn "my-op.example.com" "last-handled-configuration" true [].
Definition w41_ps := PStatus ["status"; "kopf"; "progress"] ["status"; "kopf"; "dummy"] false.
Definition w41_body : json :=
  JObj [("kind", JStr "KopfExample");
        ("metadata", JObj [("name", JStr "obj1"); ("annotations", JObj [("my-op.example.com/paused", JStr "yes"); ("note", JStr "x")])]);
        ("spec", JObj [("field", JStr "v")])].

Lemma own_writes_invisible_refuted :
  exists ds ps body e b', essence w_dg ds ps body [] = Ok e /\ own_body_after w_dg ds ps body [OwDiffbase e] = Ok b' /\
    res_jeqb (essence w_dg ds ps b' []) (Ok e) = false.
Proof. exists w41_ds, w41_ps, w41_body.
  exists (match essence w_dg w41_ds w41_ps w41_body [] with Ok e => e | _ => JNull end).
  exists (match own_body_after w_dg w41_ds w41_ps w41_body
                  [OwDiffbase (match essence w_dg w41_ds w41_ps w41_body [] with Ok e => e | _ => JNull end)] with Ok b => b | _ => JNull end).
  repeat split; vm_compute; reflexivity. Qed.

(* ---- F42 (masked by the fix of F5): Multi diff-base storage, ReplicaSet of a Deployment, prefix kopf.dev.
   MultiDiffBaseStorage still hands the essence (no `kind`) to its sub-storages, which then strip `<key>` instead
   of `<key>-ofDRS`; but the prefix now always carries a marker (or is known), so the own annotation is dropped
   with the marked prefix: the own write is invisible (regression example; before the fix it was not) ---- *)
Definition w42_ds := DMulti [DAnn "kopf.dev" "last-handled-configuration" true []; DStatus ["status"; "kopf"; "last-handled-configuration"] []].
Definition w42_body : json :=
  JObj [("kind", JStr "ReplicaSet");
        ("metadata", JObj [("name", JStr "rs1"); ("ownerReferences", JList [JObj [("kind", JStr "Deployment"); ("name", JStr "d1")]])]);
        ("spec", JObj [("replicas", JNum 2)])].

Example own_writes_multi_drs_ex :
  match essence w_dg w42_ds w41_ps w42_body [] with
  | Ok e =>
      match own_body_after w_dg w42_ds w41_ps w42_body [OwDiffbase e] with
      | Ok b' => res_jeqb (essence w_dg w42_ds w41_ps b' []) (Ok e)
                 && match resolve b' ["metadata"; "annotations"; "kopf.dev/last-handled-configuration-ofDRS"] with Some _ => true | None => false end
      | _ => false
      end
  | _ => false
  end = true.
Proof. vm_compute. reflexivity. Qed.

(* ---- F3: the diff is empty although the values differ as JSON ---- *)
Lemma diff_strict_refuted_null : diff (JObj [("x", JNull)]) (JObj []) = [] /\ jeqb (JObj [("x", JNull)]) (JObj []) = false.
Proof. split; vm_compute; reflexivity. Qed.

Lemma diff_strict_refuted_bool : diff (JObj [("x", JNum 1)]) (JObj [("x", JBool true)]) = []
                                 /\ jeqb (JObj [("x", JNum 1)]) (JObj [("x", JBool true)]) = false.
Proof. split; vm_compute; reflexivity. Qed.

(* ---- diff / reduce / adjust_cause on a concrete update (non-vacuity) ---- *)
Definition w_old : json := JObj [("spec", JObj [("a", JNum 1); ("b", JObj [("c", JStr "x")]); ("gone", JStr "g")]); ("metadata", JObj [("labels", JObj [("l", JStr "v")])])].
Definition w_new : json := JObj [("spec", JObj [("a", JNum 2); ("b", JObj [("c", JStr "x"); ("d", JList [])])]); ("metadata", JObj [("labels", JObj [("l", JStr "v")])]); ("data", JStr "n")].

Example diff_ex :
  diff_sameb (diff w_old w_new)
    [mk_ditem DAdd ["data"] JNull (JStr "n"); mk_ditem DChange ["spec"; "a"] (JNum 1) (JNum 2);
     mk_ditem DAdd ["spec"; "b"; "d"] JNull (JList []); mk_ditem DRemove ["spec"; "gone"] (JStr "g") JNull] = true
  /\ jeqb (apply_diff (diff w_old w_new) w_old)
          (JObj [("spec", JObj [("a", JNum 2); ("b", JObj [("c", JStr "x"); ("d", JList [])]); ("gone", JNull)]);
                 ("metadata", JObj [("labels", JObj [("l", JStr "v")])]); ("data", JStr "n")]) = true.
Proof. split; vm_compute; reflexivity. Qed.

Example adjust_cause_ex :
  adjust_cause ["spec"; "b"] (Some w_old) w_new (diff w_old w_new)
  = (JObj [("c", JStr "x")], JObj [("c", JStr "x"); ("d", JList [])], [mk_ditem DAdd ["d"] JNull (JList [])]).
Proof. vm_compute. reflexivity. Qed.

(* ---- classification: CREATE without a last-handled state, NOOP on own writes, UPDATE on payload ---- *)
Example classify_ex :
  classify_change None (diff JNull w_new) = KCreate /\ classify_change (Some w_new) (diff w_new w_new) = KSame
  /\ classify_change (Some w_old) (diff w_old w_new) = KUpdate.
Proof. repeat split. Qed.
