(* C04 — the handlers' results (progression.deliver_results, Model/Results.v) are a framework write confined
   to the status stanza: invisible for every storage configuration. *)
From Coq Require Import ZArith NArith List String Bool Ascii.
From KV Require Import Base.Json Base.Dicts Model.Keys Model.Storage Model.Essence Model.Results.
From KV Require Import Proofs.C04System Proofs.C04Frame.
Import ListNotations.
Open Scope string_scope.
Open Scope list_scope.

(* a patch that is empty or has the single top-level key "status" *)
Definition rs_status_only (p : json) : Prop := p = JObj [] \/ exists sp, p = JObj [("status", sp)].

Lemma rs_deliver_result_shape : forall hid r p p',
  rs_status_only p -> deliver_result hid r p = Ok p' -> rs_status_only p'.
Proof.
  intros hid r p p' Hp H. unfold deliver_result in H.
  destruct r; try (injection H as <-; exact Hp);
  destruct Hp as [->|[sp ->]]; cbn [lookup or_empty String.eqb Ascii.eqb Bool.eqb set] in H.
  all: try (injection H as <-; right; eexists; reflexivity).
  all: try (destruct sp; try discriminate H; cbn [set String.eqb Ascii.eqb Bool.eqb] in H;
            try (injection H as <-; right; eexists; reflexivity)).
  all: try (destruct (or_empty (lookup hid [])); try discriminate H; injection H as <-; right; eexists; reflexivity).
  all: try (destruct (or_empty (lookup hid kvs0)); try discriminate H; injection H as <-; right; eexists; reflexivity).
Qed.

Lemma rs_deliver_results_shape : forall outs p p',
  rs_status_only p -> deliver_results outs p = Ok p' -> rs_status_only p'.
Proof.
  unfold deliver_results. induction outs as [|[hid o] outs IH]; intros p p' Hp H; cbn [fold_left] in H.
  - injection H as <-. exact Hp.
  - cbn [bind fst snd] in H. destruct o as [r|].
    + destruct (deliver_result hid r p) as [p1| | |] eqn:E.
      * apply (IH p1 p'); auto. eapply rs_deliver_result_shape; eauto.
      * exfalso. clear -H. induction outs; cbn [fold_left bind] in H; [discriminate|auto].
      * exfalso. clear -H. induction outs; cbn [fold_left bind] in H; [discriminate|auto].
      * exfalso. clear -H. induction outs; cbn [fold_left bind] in H; [discriminate|auto].
    + apply (IH p p'); auto.
Qed.

Lemma rs_merge_empty : forall kvs, merge (JObj kvs) (JObj []) = JObj kvs.
Proof. reflexivity. Qed.

(* every storage configuration, every body, every set of outcomes *)
Theorem results_invisible : forall dg ds ps kvs outs p extra,
  (forall f, In f extra -> hd_error f <> Some "status") ->
  deliver_results outs (JObj []) = Ok p ->
  essence dg ds ps (merge (JObj kvs) p) extra = essence dg ds ps (JObj kvs) extra.
Proof.
  intros dg ds ps kvs outs p extra He H.
  destruct (rs_deliver_results_shape outs (JObj []) p (or_introl eq_refl) H) as [->|[sp ->]].
  - now rewrite rs_merge_empty.
  - now apply status_patch_invisible.
Qed.

Example results_invisible_ex :
  let body := [("kind", JStr "KopfExample"); ("metadata", JObj [("name", JStr "o")]); ("spec", JObj [("f", JNum 1)]);
               ("status", JObj [("x", JNum 1)])] in
  deliver_results [("create_fn", Some (JObj [("job", JStr "j1")])); ("upd", Some (JStr "done")); ("boom", None); ("quiet", Some JNull)] (JObj [])
  = Ok (JObj [("status", JObj [("create_fn", JObj [("job", JStr "j1")]); ("upd", JStr "done")])])
  /\ merge (JObj body) (JObj [("status", JObj [("create_fn", JObj [("job", JStr "j1")]); ("upd", JStr "done")])]) <> JObj body.
Proof. split; [vm_compute; reflexivity|vm_compute; discriminate]. Qed.

Print Assumptions results_invisible.
