(* C20 — operator lifecycle: lemmas about Model/Lifecycle.v *)
From Coq Require Import List Bool Arith Lia.
From KV Require Import Model.Lifecycle.
Import ListNotations.

(* ------------------------------------------------------------------ equalities *)

Lemma root_eqb_eq : forall a b, root_eqb a b = true <-> a = b.
Proof. intros a b; split; [destruct a, b; cbn; intros H; try reflexivity; discriminate H | intros ->; destruct b; reflexivity]. Qed.

Lemma task_eqb_eq : forall a b, task_eqb a b = true <-> a = b.
Proof.
  intros a b; split.
  - destruct a, b; cbn; intros H; try discriminate H; try reflexivity.
    + apply root_eqb_eq in H; now subst.
    + apply Nat.eqb_eq in H; now subst.
    + apply Nat.eqb_eq in H; now subst.
    + apply andb_true_iff in H as [H1 H2]. apply Nat.eqb_eq in H1, H2; now subst.
    + apply Nat.eqb_eq in H; now subst.
  - intros ->; destruct b; cbn; rewrite ?Nat.eqb_refl; try reflexivity. now apply root_eqb_eq.
Qed.

Lemma task_eqb_refl : forall a, task_eqb a a = true.
Proof. intros; now apply task_eqb_eq. Qed.

Lemma task_eqb_neq : forall a b, a <> b -> task_eqb a b = false.
Proof. intros a b H; destruct (task_eqb a b) eqn:E; [apply task_eqb_eq in E; contradiction | reflexivity]. Qed.

Lemma upd_same : forall f t p, upd f t p t = p.
Proof. intros; unfold upd; now rewrite task_eqb_refl. Qed.

Lemma upd_other : forall f t p x, x <> t -> upd f t p x = f x.
Proof. intros; unfold upd; now rewrite task_eqb_neq. Qed.

Lemma upd_cases : forall f t p x, (x = t /\ upd f t p x = p) \/ (x <> t /\ upd f t p x = f x).
Proof.
  intros. destruct (task_eqb x t) eqn:E.
  - apply task_eqb_eq in E; subst; left; split; [reflexivity | apply upd_same].
  - right; split; [intros ->; rewrite task_eqb_refl in E; discriminate | unfold upd; now rewrite E].
Qed.

Lemma cancel_in_cases : forall f ts x, cancel_in f ts x = f x \/ cancel_in f ts x = cancel_phase x (f x).
Proof. intros; unfold cancel_in; destruct (mem_task x ts); auto. Qed.

(* ------------------------------------------------------------------ runs *)

Lemma run_app : forall a b s, run s (a ++ b) = match run s a with Some s' => run s' b | None => None end.
Proof. induction a as [|l a IH]; intros b s; cbn; [reflexivity|]. destruct (step s l); [apply IH | reflexivity]. Qed.

Lemma run_split : forall pre l post s s2, run s (pre ++ l :: post) = Some s2 ->
  exists s0 s1, run s pre = Some s0 /\ step s0 l = Some s1 /\ run s1 post = Some s2.
Proof.
  intros pre l post s s2 H. rewrite run_app in H. destruct (run s pre) as [s0|] eqn:E; [|discriminate].
  cbn in H. destruct (step s0 l) as [s1|] eqn:E1; [|discriminate]. now exists s0, s1.
Qed.

Lemma run_inv (P : state -> Prop) :
  (forall s l s', P s -> step s l = Some s' -> P s') ->
  forall tr s s', P s -> run s tr = Some s' -> P s'.
Proof.
  intros Hstep; induction tr as [|l tr IH]; intros s s' HP H; cbn in H.
  - now injection H as <-.
  - destruct (step s l) as [s1|] eqn:E; [|discriminate]. eapply IH; [eapply Hstep; eauto | exact H].
Qed.

(* ------------------------------------------------------------------ inversion of a step *)

Ltac inv_step H :=
  repeat match type of H with
  | context [match ?x with _ => _ end] => let E := fresh "E" in destruct x eqn:E; try discriminate H
  end; try (injection H as <-).

(* cancel_act / cancel_roots described pointwise *)

Definition act_after_cancel (a a' : aphase) : Prop :=
  a' = a \/ (a' = AStopCore (Some OCancelled) /\ (a = AStartup \/ a = AStartupBad \/ a = AWaitRoots)) \/ (a' = AWaitRoots /\ a = ASleep) \/
  (a' = AEnd /\ (exists p, a = AStopCore p) ) \/ (a' = AEnd /\ (a = ACleanup \/ a = ACleanupRun)).

Lemma cancel_act_spec : forall s s', cancel_act s = Some s' ->
  spawned s' = spawned s /\ mn s' = mn s /\ started s' = started s /\ ready s' = ready s /\ stopflag s' = stopflag s /\
  sfailed s' = sfailed s /\ swept s' = swept s /\ ostopped s' = ostopped s /\ asked s' = asked s /\
  abandoned s' = abandoned s /\ graces s' = graces s /\ withdrawn s' = withdrawn s /\ hung s' = hung s /\
  act_after_cancel (act s) (act s') /\
  (forall t, ph s' t = ph s t \/ ph s' t = cancel_phase t (ph s t) \/
             (t = TRoot RAct /\ ph s t = PRun /\ ph s' t = PDone OCancelled /\ act s' = AEnd)).
Proof.
  intros s s' H. unfold cancel_act in H. unfold act_after_cancel.
  destruct (ph s (TRoot RAct)) eqn:EA;
    try (injection H as <-; repeat split; auto; fail).
  destruct (act s) eqn:Ea; try discriminate H; injection H as <-; cbn;
    (repeat match goal with |- _ /\ _ => split end); auto;
    try (intros t;
         first [ destruct (cancel_in_cases (ph s) [TAuth] t); auto; fail
               | destruct (upd_cases (ph s) (TRoot RAct) (PDone OCancelled) t) as [[-> E]|[N E]]; rewrite E; auto;
                 right; right; auto ]);
    try (intuition eauto; fail).
  all: try (right; right; right; left; split; eauto).
Qed.

Lemma cancel_phase_idem : forall t p, cancel_phase t (cancel_phase t p) = cancel_phase t p.
Proof. intros t []; reflexivity. Qed.

Lemma cancel_roots_spec : forall s s', cancel_roots s = Some s' ->
  spawned s' = spawned s /\ mn s' = mn s /\ started s' = started s /\ ready s' = ready s /\ stopflag s' = stopflag s /\
  sfailed s' = sfailed s /\ swept s' = swept s /\ ostopped s' = ostopped s /\ asked s' = asked s /\
  abandoned s' = abandoned s /\ graces s' = graces s /\ withdrawn s' = withdrawn s /\ hung s' = hung s /\
  act_after_cancel (act s) (act s') /\
  (forall t, ph s' t = ph s t \/ ph s' t = cancel_phase t (ph s t) \/
             (t = TRoot RAct /\ ph s t = PRun /\ ph s' t = PDone OCancelled /\ act s' = AEnd)).
Proof.
  intros s s' H. unfold cancel_roots in H. apply cancel_act_spec in H.
  remember (set_ph s (cancel_in (ph s) other_roots)) as s1 eqn:Es1.
  assert (Hph : forall t, ph s1 t = cancel_in (ph s) other_roots t) by (subst s1; reflexivity).
  assert (Hf : spawned s1 = spawned s /\ mn s1 = mn s /\ started s1 = started s /\ ready s1 = ready s /\
               stopflag s1 = stopflag s /\ sfailed s1 = sfailed s /\ swept s1 = swept s /\ ostopped s1 = ostopped s /\
               asked s1 = asked s /\ abandoned s1 = abandoned s /\ graces s1 = graces s /\ withdrawn s1 = withdrawn s /\
               hung s1 = hung s /\ act s1 = act s) by (subst s1; cbn; repeat split; reflexivity).
  destruct Hf as (F1&F2&F3&F4&F5&F6&F7&F8&F9&F10&F11&F12&F13&F14).
  destruct H as (H1&H2&H3&H4&H5&H6&H7&H8&H9&H10&H11&H12&H13&H14&H15).
  rewrite F1 in H1; rewrite F2 in H2; rewrite F3 in H3; rewrite F4 in H4; rewrite F5 in H5; rewrite F6 in H6;
  rewrite F7 in H7; rewrite F8 in H8; rewrite F9 in H9; rewrite F10 in H10; rewrite F11 in H11; rewrite F12 in H12;
  rewrite F13 in H13; rewrite F14 in H14.
  repeat (split; [assumption|]). intros t. specialize (H15 t). rewrite !Hph in H15.
  assert (HA : cancel_in (ph s) other_roots (TRoot RAct) = ph s (TRoot RAct)) by reflexivity.
  destruct (cancel_in_cases (ph s) other_roots t) as [E|E]; rewrite E in H15.
  - destruct H15 as [H|[H|(->&Hp&H&Ha)]]; auto. try (right; right; repeat split; auto; now rewrite <- HA).
  - rewrite cancel_phase_idem in H15. destruct H15 as [H|[H|(->&Hp&H&Ha)]]; auto.
    try (right; right; repeat split; auto; rewrite <- HA; now rewrite E).
Qed.

(* ------------------------------------------------------------------ 1. nothing before the flag *)

Definition needs_flag (t : task) : bool :=
  match t with TRoot r => guarded r | TWaiter => false | _ => true end.
Definition quiet (p : phase) : bool :=
  match p with PAbsent | PWaitFlag | PCancelW | PDone OCancelled => true | _ => false end.

Definition Inv_quiet (s : state) : Prop :=
  started s = false -> forall t, needs_flag t = true -> quiet (ph s t) = true.

Lemma quiet_cancel : forall t p, quiet p = true -> quiet (cancel_phase t p) = true.
Proof. intros t [] H; cbn in *; try discriminate; auto. Qed.

Lemma quiet_not_runs : forall p, quiet p = true -> runs p = false.
Proof. intros [] H; cbn in *; try discriminate; auto. Qed.

Lemma api_needs_flag : forall t, api_capable t = true -> needs_flag t = true.
Proof. intros [[]| | | | | |] H; cbn in *; try discriminate; reflexivity. Qed.

Lemma started_mono_step : forall s l s', step s l = Some s' -> started s = true -> started s' = true.
Proof.
  intros s l s' H Hs. destruct l; unfold step in H; inv_step H; cbn; auto;
    try (match goal with E : cancel_roots _ = Some _ |- _ => apply cancel_roots_spec in E; cbn; intuition congruence end).
  all: try (unfold cancel_act in *; inv_step E; cbn; auto).
Qed.

Lemma started_only_Flag : forall s l s', step s l = Some s' -> started s = false -> started s' = true -> l = Flag.
Proof.
  intros s l s' H Hs Hs'. destruct l; auto; exfalso; unfold step in H; inv_step H; cbn in Hs';
    try congruence;
    try (match goal with E : cancel_roots _ = Some _ |- _ => apply cancel_roots_spec in E; cbn in *; intuition congruence end).
Qed.

Ltac quiet_upd Hq t0 :=
  let t := fresh "t" in let Ht := fresh "Ht" in
  intros t Ht; cbn;
  match goal with |- quiet (upd ?f ?x ?p t) = true =>
    destruct (upd_cases f x p t) as [[-> ->]|[? ->]]; [| now apply Hq] end.

Lemma Inv_quiet_step : forall s l s', Inv_quiet s -> step s l = Some s' -> Inv_quiet s'.
Proof.
  intros s l s' Hq H Hs'.
  assert (Hs : started s = false).
  { destruct (started s) eqn:E; auto. rewrite (started_mono_step _ _ _ H E) in Hs'; discriminate. }
  specialize (Hq Hs).
  assert (Hnr : forall t, needs_flag t = true -> runs (ph s t) = false) by (intros; apply quiet_not_runs; auto).
  assert (HnR : forall t, needs_flag t = true -> ph s t <> PRun).
  { intros t Ht E. specialize (Hnr t Ht). rewrite E in Hnr; discriminate. }
  destruct l; unfold step in H.
  - (* StartupOk *) inv_step H; cbn; auto.
  - inv_step H; intros t Ht; cbn; destruct (cancel_in_cases (ph s) [TAuth] t) as [->| ->]; auto using quiet_cancel.
  - (* Flag *) inv_step H. cbn in Hs'. discriminate.
  - inv_step H; cbn; auto.
  - (* Cancel *) inv_step H; cbn; auto.
    + apply cancel_roots_spec in E0. destruct E0 as (_&_&_&_&_&_&_&_&_&_&_&_&_&_&Hp).
      intros t Ht. destruct (Hp t) as [->|[->|(->&_)]]; auto using quiet_cancel. discriminate Ht.
    + intros t Ht. destruct (cancel_in_cases (ph s) (hung s) t) as [->| ->]; auto using quiet_cancel.
  - (* Spawn *) inv_step H. unfold may_spawn in E.
    apply andb_true_iff in E as [E Ek]. apply andb_true_iff in E as [E _]. apply andb_true_iff in E as [_ E].
    exfalso. destruct t; try discriminate Ek; destruct by_ as [[]| | | | | |]; try discriminate Ek;
      match goal with H : runs (ph s ?b) = true |- _ => rewrite (Hnr b eq_refl) in H; discriminate end.
  - inv_step H; auto.
  - inv_step H; cbn; auto.
  - (* Fail *) inv_step H; cbn; intros t0 Ht0;
      match goal with |- quiet (upd ?f ?x ?p t0) = true =>
        destruct (upd_cases f x p t0) as [[-> ->]|[? ->]]; [| now apply Hq] end;
      exfalso; eapply HnR; eauto.
  - (* Finish *)
    destruct (negb _) eqn:Eok in H; [discriminate|]. apply negb_false_iff in Eok.
    assert (Hf : forall t0, needs_flag t0 = true -> quiet (upd (ph s) t (PDone o) t0) = true).
    { intros t0 Ht0. destruct (upd_cases (ph s) t (PDone o) t0) as [[-> ->]|[? ->]]; [| now apply Hq].
      specialize (Hq t Ht0). destruct (ph s t) eqn:Ep; cbn in Hq; try discriminate.
      all: destruct o; cbn in Eok; try discriminate; try reflexivity. }
    destruct t; try (injection H as <-; exact Hf).
    destruct o; try (injection H as <-; exact Hf).
    exfalso. specialize (Hq (TWorker w n) eq_refl).
    destruct (ph s (TWorker w n)) eqn:Ep; cbn in Hq; try discriminate; cbn in Eok; try discriminate.
  - (* MainStop *) inv_step H. apply cancel_roots_spec in E1. destruct E1 as (_&_&_&_&_&_&_&_&_&_&_&_&_&_&Hp).
    intros t Ht; cbn. destruct (Hp t) as [->|[->|(->&_)]]; auto using quiet_cancel. discriminate Ht.
  - (* RootsStopped *) inv_step H; unfold set_mn, set_hung, set_ph; cbn [ph]; auto.
    intros t Ht. destruct (cancel_in_cases (ph s) (live_tasks s) t) as [->| ->]; auto using quiet_cancel.
  - inv_step H; cbn; auto.
  - (* GraceTimeout *) inv_step H; cbn; auto.
    + intros t Ht. destruct (cancel_in_cases (ph s) (hung s) t) as [->| ->]; auto using quiet_cancel.
    + intros t Ht. destruct (cancel_in_cases (ph s) (filter (is_worker_of w) (spawned s)) t) as [->| ->]; auto using quiet_cancel.
    + exfalso. eapply (HnR (TDaemon d)); eauto.
  - inv_step H; cbn; auto.
  - inv_step H; cbn; auto.
  - (* OrchStop *) inv_step H; cbn.
    intros t Ht. destruct (cancel_in_cases (ph s) (filter is_ensemble (spawned s)) t) as [->| ->]; auto using quiet_cancel.
  - (* ActRootsGone *) inv_step H; cbn.
    intros t Ht. destruct (cancel_in_cases (ph s) [TAuth] t) as [->| ->]; auto using quiet_cancel.
  - (* CoreStopped *) inv_step H; cbn; auto; intros t0 Ht0;
      match goal with |- quiet (upd ?f ?x ?p t0) = true =>
        destruct (upd_cases f x p t0) as [[-> ->]|[? ->]]; [discriminate Ht0 | now apply Hq] end.
  - inv_step H; cbn; auto.
  - inv_step H; cbn; intros t0 Ht0;
      match goal with |- quiet (upd ?f ?x ?p t0) = true =>
        destruct (upd_cases f x p t0) as [[-> ->]|[? ->]]; [discriminate Ht0 | now apply Hq] end.
  - inv_step H; cbn; intros t0 Ht0;
      match goal with |- quiet (upd ?f ?x ?p t0) = true =>
        destruct (upd_cases f x p t0) as [[-> ->]|[? ->]]; [discriminate Ht0 | now apply Hq] end.
  - inv_step H; auto.
  - inv_step H; auto.
  - (* StartupHandler *) inv_step H; cbn; auto.
  - (* Signal *) inv_step H; cbn; auto; intros t0 Ht0;
      match goal with |- quiet (upd ?f ?x ?p t0) = true =>
        destruct (upd_cases f x p t0) as [[-> ->]|[? ->]]; [discriminate Ht0 | now apply Hq] end.
Qed.

Lemma Inv_quiet_init : Inv_quiet init.
Proof. intros _ [[]| | | | | |] H; cbn in *; try discriminate; reflexivity. Qed.

Lemma Inv_quiet_reach : forall tr s, run init tr = Some s -> Inv_quiet s.
Proof. intros tr s H. eapply (run_inv Inv_quiet); eauto using Inv_quiet_step, Inv_quiet_init. Qed.

Lemma started_needs_Flag : forall tr s0 s1, run s0 tr = Some s1 -> started s0 = false -> started s1 = true -> In Flag tr.
Proof.
  induction tr as [|l tr IH]; intros s0 s1 H H0 H1; cbn in H.
  - injection H as <-. congruence.
  - destruct (step s0 l) as [s'|] eqn:E; [|discriminate].
    destruct (started s') eqn:Es.
    + left. eapply started_only_Flag; eauto.
    + right. eapply IH; eauto.
Qed.

Lemma started_mono : forall tr s0 s1, run s0 tr = Some s1 -> started s0 = true -> started s1 = true.
Proof.
  induction tr as [|l tr IH]; intros s0 s1 H H0; cbn in H.
  - now injection H as <-.
  - destruct (step s0 l) as [s'|] eqn:E; [|discriminate]. eapply IH; eauto using started_mono_step.
Qed.

(* no API request before the flag *)
Lemma api_after_flag : forall pre t post s, run init (pre ++ Api t :: post) = Some s -> In Flag pre.
Proof.
  intros pre t post s H. apply run_split in H as (s0&s1&Hpre&Hst&_).
  destruct (started s0) eqn:Es.
  - eapply started_needs_Flag; eauto.
  - exfalso. pose proof (Inv_quiet_reach _ _ Hpre Es t) as Hq. unfold step in Hst.
    destruct (api_capable t) eqn:Ea; [|discriminate]. cbn in Hst.
    rewrite (quiet_not_runs _ (Hq (api_needs_flag _ Ea))) in Hst. discriminate.
Qed.

(* the same for the creation of any child task (watchers, workers, daemons, keep-alives) *)
Lemma spawn_after_flag : forall pre t b post s, run init (pre ++ Spawn t b :: post) = Some s -> In Flag pre.
Proof.
  intros pre t b post s H. apply run_split in H as (s0&s1&Hpre&Hst&_).
  destruct (started s0) eqn:Es.
  - eapply started_needs_Flag; eauto.
  - exfalso. pose proof (Inv_quiet_reach _ _ Hpre Es) as Hq. unfold step in Hst.
    destruct (may_spawn s0 t b) eqn:Em; [|discriminate]. unfold may_spawn in Em.
    apply andb_true_iff in Em as [Em Ek]. apply andb_true_iff in Em as [Em _]. apply andb_true_iff in Em as [_ Er].
    destruct t; try discriminate; destruct b as [[]| | | | | |]; try discriminate;
      match goal with H : runs (ph s0 ?x) = true |- _ => rewrite (quiet_not_runs _ (Hq x eq_refl)) in H; discriminate end.
Qed.

(* the flag only after the startup activity succeeded *)
Lemma aflag_only_StartupOk : forall s l s', step s l = Some s' -> act s' = AFlag -> l = StartupOk \/ act s = AFlag.
Proof.
  intros s l s' H Ha. destruct l; auto; right; unfold step in H; inv_step H; cbn in Ha; try congruence;
    try (match goal with E : cancel_roots _ = Some _ |- _ => apply cancel_roots_spec in E;
           destruct E as (_&_&_&_&_&_&_&_&_&_&_&_&_&Hc&_); cbn in Ha; unfold act_after_cancel in Hc; rewrite Ha in Hc;
           destruct Hc as [Hc|[[Hc _]|[[Hc _]|[[Hc _]|[Hc _]]]]]; congruence end).
Qed.

Lemma aphase_eq_AFlag : forall a, a = AFlag \/ a <> AFlag.
Proof. intros []; auto; right; discriminate. Qed.

Lemma aflag_needs_StartupOk : forall tr s0 s1, run s0 tr = Some s1 -> act s0 <> AFlag -> act s1 = AFlag -> In StartupOk tr.
Proof.
  induction tr as [|l tr IH]; intros s0 s1 H H0 H1; cbn in H.
  - injection H as <-. contradiction.
  - destruct (step s0 l) as [s'|] eqn:E; [|discriminate].
    destruct (aphase_eq_AFlag (act s')) as [Ea|Ea].
    + destruct (aflag_only_StartupOk _ _ _ E Ea) as [->|]; [now left | contradiction].
    + right. eapply IH; eauto.
Qed.

Lemma flag_after_startup_ok : forall pre post s, run init (pre ++ Flag :: post) = Some s -> In StartupOk pre.
Proof.
  intros pre post s H. apply run_split in H as (s0&s1&Hpre&Hst&_).
  eapply aflag_needs_StartupOk; eauto; [cbn; discriminate|].
  unfold step in Hst. destruct (act s0); try discriminate; reflexivity.
Qed.

(* ------------------------------------------------------------------ 2. ready flag; failed startup *)

Ltac use_cancel_spec :=
  repeat match goal with
  | E : cancel_roots _ = Some _ |- _ =>
      apply cancel_roots_spec in E; destruct E as (?&?&?&?&?&?&?&?&?&?&?&?&?&?&?)
  end.

Lemma ready_eq_started_step : forall s l s', step s l = Some s' -> ready s = started s -> ready s' = started s'.
Proof.
  intros s l s' H Hr. destruct l; unfold step in H; inv_step H; use_cancel_spec; cbn in *; congruence.
Qed.

Lemma ready_eq_started : forall tr s, run init tr = Some s -> ready s = started s.
Proof. intros tr s H. eapply (run_inv (fun s => ready s = started s)); eauto using ready_eq_started_step. reflexivity. Qed.

(* the startup activity failed: the flag is never set afterwards *)
Definition Inv_sfailed (s : state) : Prop :=
  sfailed s = true -> started s = false /\ act s <> AStartup /\ act s <> AFlag.

Lemma act_after_cancel_keeps : forall a a', act_after_cancel a a' -> a <> AStartup -> a <> AFlag -> a' <> AStartup /\ a' <> AFlag.
Proof.
  intros a a' H H1 H2. unfold act_after_cancel in H.
  destruct H as [->|[[-> _]|[[-> _]|[[-> _]|[-> _]]]]]; split; auto; discriminate.
Qed.

Lemma sfailed_only_StartupFail : forall s l s', step s l = Some s' -> sfailed s = false -> sfailed s' = true -> l = StartupFail.
Proof.
  intros s l s' H H0 H1. destruct l; auto; exfalso; unfold step in H; inv_step H; use_cancel_spec; cbn in *; congruence.
Qed.

Definition Inv_early (s : state) : Prop := act s = AStartup \/ act s = AFlag \/ act s = AStartupBad -> started s = false.

Lemma act_after_cancel_early : forall a a', act_after_cancel a a' -> a' = AStartup \/ a' = AFlag \/ a' = AStartupBad -> a' = a.
Proof.
  intros a a' H H1. unfold act_after_cancel in H.
  destruct H as [->|[[-> _]|[[-> _]|[[-> _]|[-> _]]]]]; auto; destruct H1 as [H1|[H1|H1]]; discriminate.
Qed.

Lemma Inv_early_step : forall s l s', Inv_early s -> step s l = Some s' -> Inv_early s'.
Proof.
  intros s l s' Hi H Hs'. unfold Inv_early in Hi.
  destruct l; unfold step in H; inv_step H; use_cancel_spec; cbn in *;
    try (destruct Hs' as [Hs'|[Hs'|Hs']]; discriminate);
    try (apply Hi; rewrite <- ?E; rewrite <- ?E0; auto; fail);
    try (apply Hi; auto; fail);
    try (match goal with Hc : act_after_cancel _ _ |- _ =>
           pose proof (act_after_cancel_early _ _ Hc Hs') as Hk; rewrite Hk in Hs'; specialize (Hi Hs'); congruence end).
Qed.

Lemma Inv_sfailed_step : forall s l s', Inv_early s -> Inv_sfailed s -> step s l = Some s' -> Inv_sfailed s'.
Proof.
  intros s l s' He Hi H Hs'.
  destruct (sfailed s) eqn:Ef.
  - destruct (Hi Ef) as (H1&H2&H3).
    destruct l; unfold step in H; inv_step H; use_cancel_spec; cbn in *;
      try (repeat split; congruence);
      try (match goal with Hc : act_after_cancel _ _ |- _ =>
             destruct (act_after_cancel_keeps _ _ Hc H2 H3); repeat split; congruence end).
  - pose proof (sfailed_only_StartupFail _ _ _ H Ef Hs'); subst l.
    unfold step in H. inv_step H; cbn; repeat split; try discriminate; apply He; auto.
Qed.

Lemma Inv_sfailed_reach : forall tr s, run init tr = Some s -> Inv_early s /\ Inv_sfailed s.
Proof.
  intros tr s H. eapply (run_inv (fun s => Inv_early s /\ Inv_sfailed s)); eauto.
  - intros s0 l s1 [A B] Hst. split; [eapply Inv_early_step | eapply Inv_sfailed_step]; eauto.
  - split; [intros _; reflexivity | intros Hf; discriminate Hf].
Qed.


Lemma sfailed_mono_step : forall s l s', step s l = Some s' -> sfailed s = true -> sfailed s' = true.
Proof.
  intros s l s' H Hs. destruct l; unfold step in H; inv_step H; use_cancel_spec; cbn in *; congruence.
Qed.

Lemma sfailed_mono : forall tr s0 s1, run s0 tr = Some s1 -> sfailed s0 = true -> sfailed s1 = true.
Proof.
  induction tr as [|l tr IH]; intros s0 s1 H H0; cbn in H.
  - now injection H as <-.
  - destruct (step s0 l) as [s'|] eqn:E; [|discriminate]. eapply IH; eauto using sfailed_mono_step.
Qed.

Lemma never_started_no_api : forall tr s, run init tr = Some s -> started s = false -> forall t, ~ In (Api t) tr.
Proof.
  intros tr s H Hs t Hapi. apply in_split in Hapi as (pre&post&->).
  pose proof (api_after_flag _ _ _ _ H) as Hfl.
  apply run_split in H as (s0&s1&Hpre&Hst&Hpost).
  assert (Hs0 : started s0 = true).
  { apply in_split in Hfl as (p1&p2&->). apply run_split in Hpre as (a&b&_&Hf&Hr).
    eapply started_mono; eauto. unfold step in Hf. inv_step Hf. reflexivity. }
  assert (Hs1 : started s1 = true) by (eapply started_mono_step; eauto).
  rewrite (started_mono _ _ _ Hpost Hs1) in Hs. discriminate.
Qed.

(* a failed startup: no API request anywhere in the run, neither before nor after *)
Lemma failed_startup_no_api : forall tr s, run init tr = Some s -> In StartupFail tr ->
  started s = false /\ ready s = false /\ forall t, ~ In (Api t) tr.
Proof.
  intros tr s H Hin.
  assert (Hsf : sfailed s = true).
  { apply in_split in Hin as (pre&post&->). apply run_split in H as (s0&s1&_&Hst&Hpost).
    eapply sfailed_mono; eauto. unfold step in Hst. inv_step Hst; reflexivity. }
  destruct (Inv_sfailed_reach _ _ H) as [_ Hi]. destruct (Hi Hsf) as (Hs&_&_).
  split; [exact Hs|]. split; [rewrite (ready_eq_started _ _ H); exact Hs|].
  eapply never_started_no_api; eauto.
Qed.

(* once the startup activity can no longer succeed, the flag is never set: a stable set of states *)
Definition noflag (s : state) : Prop := started s = false /\ act s <> AStartup /\ act s <> AFlag.

Lemma noflag_step : forall s l s', noflag s -> step s l = Some s' -> noflag s'.
Proof.
  intros s l s' (H1&H2&H3) H. unfold noflag.
  destruct l; unfold step in H; inv_step H; use_cancel_spec; cbn in *;
    try (repeat split; congruence);
    try (match goal with Hc : act_after_cancel _ _ |- _ =>
           destruct (act_after_cancel_keeps _ _ Hc H2 H3); repeat split; congruence end).
Qed.

Lemma noflag_run : forall tr s s', noflag s -> run s tr = Some s' -> noflag s'.
Proof. intros tr s s' Hn H. eapply (run_inv noflag); eauto using noflag_step. Qed.

(* ANY final failure of ANY startup handler in ANY round of run_activity: the activity cannot end with StartupOk
   any more, the flags are never raised, and there is no API request anywhere in the run; the only way the activity
   itself ends is StartupFail (or the cancellation of the task) *)
Lemma startup_handler_failure_no_api : forall tr s h, run init tr = Some s -> In (StartupHandler h HPerm) tr ->
  started s = false /\ ready s = false /\ (forall t, ~ In (Api t) tr) /\
  (forall pre post, tr = pre ++ StartupHandler h HPerm :: post -> ~ In StartupOk post /\ ~ In Flag post).
Proof.
  intros tr s h H Hin.
  assert (Hk : forall pre post, tr = pre ++ StartupHandler h HPerm :: post ->
               exists s1, run s1 post = Some s /\ noflag s1).
  { intros pre post ->. apply run_split in H as (s0&s1&Hpre&Hst&Hpost). exists s1. split; [exact Hpost|].
    destruct (Inv_sfailed_reach _ _ Hpre) as [He _]. unfold Inv_early in He.
    unfold step in Hst. inv_step Hst; cbn; unfold noflag; cbn; repeat split; try discriminate; try congruence;
      try (apply He; rewrite ?E; auto). }
  pose proof Hin as Hin2. apply in_split in Hin2 as (pre&post&Etr).
  destruct (Hk _ _ Etr) as (s1&Hpost&Hn1).
  destruct (noflag_run _ _ _ Hn1 Hpost) as (Hs&_&_).
  split; [exact Hs|]. split; [rewrite (ready_eq_started _ _ H); exact Hs|].
  split; [eapply never_started_no_api; eauto|].
  intros pre' post' Etr'. destruct (Hk _ _ Etr') as (s1'&Hpost'&Hn1').
  split; intros Hx; apply in_split in Hx as (p1&p2&->); apply run_split in Hpost' as (a&b&Hp1&Hst&_);
    destruct (noflag_run _ _ _ Hn1' Hp1) as (_&Ha1&Ha2); unfold step in Hst;
    destruct (act a); try discriminate; try contradiction.
Qed.

Lemma ready_after_startup : forall tr s, run init tr = Some s -> ready s = true ->
  started s = true /\ exists pre post, tr = pre ++ Flag :: post /\ In StartupOk pre.
Proof.
  intros tr s H Hr. rewrite (ready_eq_started _ _ H) in Hr. split; [exact Hr|].
  pose proof (started_needs_Flag _ _ _ H eq_refl Hr) as Hin. apply in_split in Hin as (pre&post&->).
  exists pre, post; split; [reflexivity|]. eapply flag_after_startup_ok; eauto.
Qed.

(* ------------------------------------------------------------------ 3. what run_tasks returns *)

Lemma return_sound : forall s r s', step s (Return r) = Some s' ->
  all_done (ph s) (hung s) = true /\
  match r with
  | ROk => mn s = MStopHung /\ no_error (ph s) (root_tasks ++ hung s) = true
  | RErr e => mn s = MStopHung /\ first_error (ph s) (root_tasks ++ hung s) e = true
  | RCancelled => mn s = MCStopHung
  end.
Proof.
  intros s r s' H. unfold step in H. destruct (mn s) eqn:Em; try discriminate.
  - destruct (all_done (ph s) (hung s)) eqn:Ea; [|rewrite andb_false_l in H; discriminate].
    rewrite andb_true_l in H. split; [reflexivity|].
    destruct r; cbv beta iota in H.
    + destruct (no_error (ph s) (root_tasks ++ hung s)) eqn:En; [auto | discriminate].
    + destruct (first_error (ph s) (root_tasks ++ hung s) e) eqn:En; [auto | discriminate].
    + discriminate.
  - destruct (all_done (ph s) (hung s)) eqn:Ea; [|rewrite andb_false_l in H; discriminate].
    split; [reflexivity|]. destruct r; cbn in H; try discriminate; reflexivity.
Qed.

Lemma err_eqb_eq : forall a b, err_eqb a b = true -> a = b.
Proof. intros [] [] H; cbn in H; try discriminate; auto. apply task_eqb_eq in H; now subst. Qed.

Lemma first_error_sound : forall f ts e, first_error f ts e = true -> exists t, In t ts /\ f t = PDone (OErr e).
Proof.
  intros f ts e H. unfold first_error in H. apply existsb_exists in H as (t&Hin&Ht). exists t; split; auto.
  unfold failed_with in Ht. destruct (f t) as [| | | | |[]]; try discriminate. apply err_eqb_eq in Ht; now subst.
Qed.

Lemma no_error_sound : forall f ts, no_error f ts = true -> forall t e, In t ts -> f t <> PDone (OErr e).
Proof.
  intros f ts H t e Hin E. unfold no_error in H. rewrite forallb_forall in H. specialize (H t Hin).
  unfold failed_with in H. rewrite E in H. discriminate.
Qed.

(* ------------------------------------------------------------------ 4. Done is absorbing *)

Lemma done_cancel : forall t p, is_done p = true -> cancel_phase t p = p.
Proof. intros t [] H; try discriminate; reflexivity. Qed.

Ltac not_same Hd :=
  apply upd_other; intros ->;
  match goal with E : ph _ _ = _ |- _ => rewrite E in Hd; discriminate Hd end.

Lemma dab_cancel_roots : forall s s' t, cancel_roots s = Some s' -> is_done (ph s t) = true -> ph s' t = ph s t.
Proof.
  intros s s' t E Hd. apply cancel_roots_spec in E. destruct E as (_&_&_&_&_&_&_&_&_&_&_&_&_&_&Hp).
  destruct (Hp t) as [->|[->|(->&Hx&_)]]; auto using done_cancel. rewrite Hx in Hd; discriminate.
Qed.

Lemma dab_Finish : forall s t0 o s' t, step s (Finish t0 o) = Some s' -> is_done (ph s t) = true -> ph s' t = ph s t.
Proof.
  intros s t0 o s' t H Hd. unfold step in H.
  destruct (negb _) eqn:Eok in H; [discriminate|]. apply negb_false_iff in Eok.
  assert (Hne : t <> t0).
  { intros ->. destruct (ph s t0); try discriminate Hd. discriminate Eok. }
  assert (H1 : upd (ph s) t0 (PDone o) t = ph s t) by (now apply upd_other).
  destruct t0; try (injection H as <-; exact H1).
  destruct o; try (injection H as <-; exact H1).
  destruct (ph s (TWatcher w)) eqn:Ew; try (injection H as <-; exact H1).
  injection H as <-. cbn. rewrite upd_other; [exact H1|]. intros ->. rewrite Ew in Hd; discriminate.
Qed.

Lemma done_absorbing_step : forall s l s' t, step s l = Some s' -> is_done (ph s t) = true -> ph s' t = ph s t.
Proof.
  intros s l s' t H Hd.
  assert (Hc : forall ts, cancel_in (ph s) ts t = ph s t).
  { intros ts. destruct (cancel_in_cases (ph s) ts t) as [->| ->]; auto using done_cancel. }
  destruct l; try (eapply dab_Finish; eauto; fail); unfold step in H; inv_step H;
    unfold set_mn, set_hung, set_ph, set_act, add_grace; cbn [ph]; auto;
    try first [ apply Hc | not_same Hd | (destruct (ph s t); try discriminate Hd; reflexivity)
          | (eapply dab_cancel_roots; eauto) ].
  apply upd_other; intros ->. unfold may_spawn in E.
  destruct (ph s t0); try discriminate Hd. rewrite andb_false_r in E. discriminate E.
Qed.

Lemma done_absorbing : forall tr s s' t, run s tr = Some s' -> is_done (ph s t) = true -> ph s' t = ph s t.
Proof.
  induction tr as [|l tr IH]; intros s s' t H Hd; cbn in H.
  - now injection H as <-.
  - destruct (step s l) as [s1|] eqn:E; [|discriminate].
    pose proof (done_absorbing_step _ _ _ _ E Hd) as E1. rewrite <- E1. apply IH; auto. now rewrite E1.
Qed.

(* ------------------------------------------------------------------ 5. cleanup is last *)

Lemma all_done_pres : forall s l s' ts, step s l = Some s' -> all_done (ph s) ts = true -> all_done (ph s') ts = true.
Proof.
  intros s l s' ts H Hd. unfold all_done in *. rewrite forallb_forall in *. intros t Hin.
  specialize (Hd t Hin). now rewrite (done_absorbing_step _ _ _ _ H Hd).
Qed.

Definition in_cleanup (a : aphase) : Prop := a = ACleanup \/ a = ACleanupRun.
Definition Inv_cl (s : state) : Prop :=
  (act s = AStopCore None \/ in_cleanup (act s) -> all_done (ph s) other_roots = true) /\
  (in_cleanup (act s) -> is_done (ph s TAuth) = true).

Lemma act_after_cancel_late : forall a a', act_after_cancel a a' ->
  a' = AStopCore None \/ in_cleanup a' -> a' = a.
Proof.
  intros a a' H H1. unfold act_after_cancel in H. unfold in_cleanup in H1.
  destruct H as [->|[[-> _]|[[-> _]|[[-> _]|[-> _]]]]]; auto; destruct H1 as [H1|[H1|H1]]; discriminate.
Qed.

Lemma Inv_cl_step : forall s l s', Inv_cl s -> step s l = Some s' -> Inv_cl s'.
Proof.
  intros s l s' [Hi1 Hi2] H. pose proof H as H0.
  assert (Hp : forall ts, all_done (ph s) ts = true -> all_done (ph s') ts = true) by (eauto using all_done_pres).
  assert (Hpa : is_done (ph s TAuth) = true -> is_done (ph s' TAuth) = true).
  { intros Hd. now rewrite (done_absorbing_step _ _ _ _ H Hd). }
  unfold in_cleanup in *.
  split; intros Ha.
  - apply Hp.
    destruct l; unfold step in H0; inv_step H0; use_cancel_spec; cbn in Ha;
      try (apply Hi1; exact Ha);
      try (destruct Ha as [Ha|[Ha|Ha]]; discriminate Ha);
      try (match goal with Hc : act_after_cancel _ _ |- _ =>
             pose proof (act_after_cancel_late _ _ Hc Ha) as Hk; rewrite Hk in Ha; apply Hi1; exact Ha end);
      try assumption; try reflexivity;
      try (apply Hi1; rewrite E; auto; fail);
      try (apply Hi1; rewrite E0; auto; fail);
      try (apply Hi1; auto; fail);
      try (unfold in_cleanup in Ha; rewrite E in Ha; destruct Ha as [Ha|[Ha|Ha]]; discriminate Ha).
  - apply Hpa.
    destruct l; unfold step in H0; inv_step H0; use_cancel_spec; cbn in Ha;
      try (apply Hi2; exact Ha);
      try (destruct Ha as [Ha|Ha]; discriminate Ha);
      try (match goal with Hc : act_after_cancel _ _ |- _ =>
             pose proof (act_after_cancel_late _ _ Hc (or_intror Ha)) as Hk; rewrite Hk in Ha; apply Hi2; exact Ha end);
      try (apply Hi2; rewrite E; auto; fail);
      try (apply Hi2; auto; fail); try reflexivity;
      try (rewrite E in Ha; destruct Ha as [Ha|Ha]; discriminate Ha);
      try (match goal with E : ph s TAuth = PDone _ |- _ => rewrite E; reflexivity end).
Qed.

Lemma Inv_cl_reach : forall tr s, run init tr = Some s -> Inv_cl s.
Proof.
  intros tr s H. eapply (run_inv Inv_cl); eauto using Inv_cl_step.
  unfold Inv_cl, in_cleanup; cbn. split; [intros [Ha|[Ha|Ha]] | intros [Ha|Ha]]; discriminate Ha.
Qed.

(* When the cleanup activity begins, every other root task and the core task are done — and they stay done:
   none of them makes an API request or creates a task afterwards. *)
Lemma cleanup_last : forall pre post s, run init (pre ++ CleanupBegin :: post) = Some s ->
  exists s0, run init pre = Some s0 /\
    all_done (ph s0) other_roots = true /\ is_done (ph s0 TAuth) = true /\
    (forall t, In t (TAuth :: other_roots) -> ph s t = ph s0 t) /\
    (forall t, In t (TAuth :: other_roots) -> ~ In (Api t) post /\ forall c, ~ In (Spawn c t) post).
Proof.
  intros pre post s H. apply run_split in H as (s0&s1&Hpre&Hst&Hpost). exists s0. split; [exact Hpre|].
  destruct (Inv_cl_reach _ _ Hpre) as [H1 H2].
  assert (Ha : act s0 = ACleanup) by (unfold step in Hst; destruct (act s0); try discriminate; reflexivity).
  assert (Hr : all_done (ph s0) other_roots = true) by (apply H1; right; left; exact Ha).
  assert (Hc : is_done (ph s0 TAuth) = true) by (apply H2; left; exact Ha).
  assert (Hd : forall t, In t (TAuth :: other_roots) -> is_done (ph s0 t) = true).
  { intros t [<-|Hin]; auto. unfold all_done in Hr. rewrite forallb_forall in Hr. now apply Hr. }
  split; [exact Hr|]. split; [exact Hc|]. split.
  - intros t Hin. specialize (Hd t Hin).
    assert (E1 : ph s1 t = ph s0 t) by (eapply done_absorbing_step; eauto).
    rewrite <- E1. eapply done_absorbing; eauto. now rewrite E1.
  - intros t Hin. specialize (Hd t Hin).
    assert (E1 : ph s1 t = ph s0 t) by (eapply done_absorbing_step; eauto).
    assert (Hd1 : is_done (ph s1 t) = true) by now rewrite E1.
    split.
    + intros Hapi. apply in_split in Hapi as (p1&p2&->). apply run_split in Hpost as (a&b&Hp1&Hs&_).
      pose proof (done_absorbing _ _ _ _ Hp1 Hd1) as E2. unfold step in Hs.
      destruct (api_capable t); [|discriminate]. cbn in Hs. rewrite E2 in Hs.
      destruct (ph s1 t); try discriminate Hd1. discriminate Hs.
    + intros c Hsp. apply in_split in Hsp as (p1&p2&->). apply run_split in Hpost as (a&b&Hp1&Hs&_).
      pose proof (done_absorbing _ _ _ _ Hp1 Hd1) as E2. unfold step in Hs.
      destruct (may_spawn a c t) eqn:Em; [|discriminate]. unfold may_spawn in Em.
      apply andb_true_iff in Em as [Em _]. apply andb_true_iff in Em as [Em _]. apply andb_true_iff in Em as [_ Em].
      rewrite E2 in Em. destruct (ph s1 t); try discriminate Hd1. discriminate Em.
Qed.

(* run_tasks returns only after every root task is done (unless it is cancelled while already stopping) *)
Definition Inv_ret (s : state) : Prop :=
  match mn s with
  | MWaitHung | MStopHung | MCStopHung => all_done (ph s) root_tasks = true
  | MReturned r => r <> RCancelled -> all_done (ph s) root_tasks = true
  | _ => True
  end.

Lemma Inv_ret_step : forall s l s', Inv_ret s -> step s l = Some s' -> Inv_ret s'.
Proof.
  intros s l s' Hi H. pose proof H as H0.
  assert (Hp : all_done (ph s) root_tasks = true -> all_done (ph s') root_tasks = true) by (eauto using all_done_pres).
  unfold Inv_ret in *.
  destruct l; unfold step in H0; inv_step H0; use_cancel_spec; cbn in *;
    repeat match goal with Hm : mn ?x = _ |- _ => rewrite Hm in * end;
    try exact I; auto;
    try (intros Hc; exfalso; apply Hc; reflexivity);
    try (destruct (mn s); auto; fail).
Qed.

Lemma Inv_ret_reach : forall tr s, run init tr = Some s -> Inv_ret s.
Proof. intros tr s H. eapply (run_inv Inv_ret); eauto using Inv_ret_step. exact I. Qed.

Lemma returns_after_roots : forall tr s r, run init tr = Some s -> mn s = MReturned r -> r <> RCancelled ->
  forall x, is_done (ph s (TRoot x)) = true.
Proof.
  intros tr s r H Hm Hr x. pose proof (Inv_ret_reach _ _ H) as Hi. unfold Inv_ret in Hi. rewrite Hm in Hi.
  specialize (Hi Hr). unfold all_done in Hi. rewrite forallb_forall in Hi. apply Hi.
  unfold root_tasks. apply in_map. destruct x; cbn; tauto.
Qed.

(* ------------------------------------------------------------------ 6. a finished root task makes run_tasks stop the others *)

Lemma mainstop_enabled : forall s x, mn s = MWait -> is_done (ph s (TRoot x)) = true -> act s <> AFlag ->
  exists s', step s MainStop = Some s' /\ mn s' = MStopRoots.
Proof.
  intros s x Hm Hd Ha. unfold step. rewrite Hm.
  assert (He : existsb (fun t => is_done (ph s t)) root_tasks = true).
  { apply existsb_exists. exists (TRoot x). split; [|exact Hd]. unfold root_tasks. apply in_map. destruct x; cbn; tauto. }
  rewrite He. unfold cancel_roots, cancel_act.
  destruct (ph (set_ph s (cancel_in (ph s) other_roots)) (TRoot RAct)); try (eexists; split; reflexivity).
  change (act (set_ph s (cancel_in (ph s) other_roots))) with (act s).
  destruct (act s); try contradiction; eexists; split; reflexivity.
Qed.

(* ------------------------------------------------------------------ 7. each grace period is spent at most once *)

Lemma grace_eqb_eq : forall a b, grace_eqb a b = true <-> a = b.
Proof.
  intros a b; split.
  - destruct a, b; cbn; intros H; try discriminate; try reflexivity; apply Nat.eqb_eq in H; now subst.
  - intros ->; destruct b; cbn; rewrite ?Nat.eqb_refl; reflexivity.
Qed.

Lemma mem_grace_cons : forall g g' l, mem_grace g (g' :: l) = grace_eqb g g' || mem_grace g l.
Proof. reflexivity. Qed.

Fixpoint count_grace (g : grace) (tr : list label) : nat :=
  match tr with
  | [] => 0
  | GraceTimeout g' :: tr' => (if grace_eqb g g' then 1 else 0) + count_grace g tr'
  | _ :: tr' => count_grace g tr'
  end.

Definition spent (g : grace) (s : state) : nat := if mem_grace g (graces s) then 1 else 0.

Lemma graces_other_step : forall s l s', (forall g, l <> GraceTimeout g) -> step s l = Some s' -> graces s' = graces s.
Proof.
  intros s l s' Hn H.
  destruct l; try (exfalso; eapply Hn; reflexivity); unfold step in H; inv_step H; use_cancel_spec; cbn in *;
    congruence.
Qed.

Lemma count_other : forall g l, (forall g', l <> GraceTimeout g') -> count_grace g [l] = 0.
Proof. intros g l Hn. destruct l; try reflexivity. exfalso; eapply Hn; reflexivity. Qed.

Lemma graces_step : forall s l s' g, step s l = Some s' ->
  spent g s' = spent g s + count_grace g [l] /\ spent g s' <= 1.
Proof.
  intros s l s' g H. unfold spent.
  assert (Hc : (forall g', l <> GraceTimeout g') \/ exists gg, l = GraceTimeout gg).
  { destruct l; try (left; intros g' Hx; discriminate Hx). right; eauto. }
  destruct Hc as [Hn|[gg ->]].
  - rewrite (graces_other_step _ _ _ Hn H), (count_other g l Hn). split; [lia | destruct (mem_grace g (graces s)); lia].
  - unfold step in H. destruct (mem_grace gg (graces s)) eqn:Em; [discriminate|].
    assert (Hgr : graces s' = gg :: graces s) by (inv_step H; reflexivity).
    rewrite Hgr, mem_grace_cons. cbn [count_grace]. destruct (grace_eqb g gg) eqn:Eg.
    + apply grace_eqb_eq in Eg; subst gg. rewrite Em. cbn. lia.
    + cbn. destruct (mem_grace g (graces s)); lia.
Qed.

Lemma count_grace_app : forall g a b, count_grace g (a ++ b) = count_grace g a + count_grace g b.
Proof. induction a as [|l a IH]; intros b; cbn; [reflexivity|]. destruct l; rewrite ?IH; lia. Qed.

Lemma graces_run : forall tr s s' g, run s tr = Some s' -> spent g s' = spent g s + count_grace g tr.
Proof.
  induction tr as [|l tr IH]; intros s s' g H; cbn in H.
  - injection H as <-. cbn. lia.
  - destruct (step s l) as [s1|] eqn:E; [|discriminate].
    rewrite (IH _ _ g H). destruct (graces_step _ _ _ g E) as [E1 _]. rewrite E1.
    change (l :: tr) with ([l] ++ tr). rewrite count_grace_app. lia.
Qed.

Lemma grace_once : forall tr s g, run init tr = Some s -> count_grace g tr <= 1.
Proof.
  intros tr s g H. pose proof (graces_run _ _ _ g H) as E. unfold spent in E at 2. cbn in E.
  assert (spent g s <= 1) by (unfold spent; destruct (mem_grace g (graces s)); lia). lia.
Qed.

(* ------------------------------------------------------------------ 8. witnesses *)

Definition all_roots_running (s : state) : bool :=
  forallb (fun t => match ph s t with PRun => true | _ => false end) root_tasks.

(* F10: an unknown in-stream ERROR ends the watcher *)
Definition tr_f10_watcher : list label :=
  [StartupOk; Flag; Spawn (TWatcher 0) (TRoot ROrch); Api (TWatcher 0);
   Fail (TWatcher 0); Finish (TWatcher 0) (OErr (EOf (TWatcher 0)))].
(* F10: a worker fails unrecoverably, the watcher raises RuntimeError *)
Definition tr_f10_worker : list label :=
  [StartupOk; Flag; Spawn (TWatcher 0) (TRoot ROrch); Spawn (TWorker 0 0) (TWatcher 0);
   Fail (TWorker 0 0); Finish (TWorker 0 0) (OErr (EOf (TWorker 0 0)));
   Finish (TWatcher 0) (OErr (EOf (TWatcher 0)))].

Definition lingers (tr : list label) : bool :=
  match run init tr with
  | Some s => quiescent s && negb (returned s) && all_roots_running s && negb (stopflag s)
  | None => false
  end.

Lemma f10_watcher_lingers : lingers tr_f10_watcher = true.
Proof. vm_compute. reflexivity. Qed.
Lemma f10_worker_lingers : lingers tr_f10_worker = true.
Proof. vm_compute. reflexivity. Qed.

Lemma any_failure_stops_all_refuted :
  exists tr t s, run init tr = Some s /\ In (Fail t) tr /\
    quiescent s = true /\ returned s = false /\ all_roots_running s = true /\ stopflag s = false.
Proof.
  exists tr_f10_watcher, (TWatcher 0).
  destruct (run init tr_f10_watcher) as [s|] eqn:E; [|vm_compute in E; discriminate].
  exists s. split; [reflexivity|]. split; [cbn; tauto|].
  pose proof f10_watcher_lingers as H. unfold lingers in H. rewrite E in H.
  apply andb_true_iff in H as [H H4]. apply andb_true_iff in H as [H H3]. apply andb_true_iff in H as [H1 H2].
  apply negb_true_iff in H2, H4. auto.
Qed.

(* F2001: a daemon spawned after the daemon killer's only sweep is running when the cleanup begins *)
Definition finish_simple_roots : list label :=
  [Finish (TRoot RStopper) OOk; Finish (TRoot RUltimate) OOk; Finish (TRoot RPoster) OCancelled;
   Finish (TRoot RAdmChain) OCancelled; Finish (TRoot RAdmVal) OCancelled; Finish (TRoot RAdmMut) OCancelled;
   Finish (TRoot RAdmSrv) OCancelled; Finish (TRoot RResObs) OCancelled; Finish (TRoot RNsObs) OCancelled].
Definition tr_f2001 : list label :=
  [StartupOk; Flag; Spawn (TWatcher 0) (TRoot ROrch); Spawn (TWorker 0 0) (TWatcher 0); Cancel; Sweep;
   Spawn (TDaemon 0) (TWorker 0 0); Finish (TRoot RKiller) OCancelled; OrchStop]
  ++ finish_simple_roots ++
  [Finish (TWorker 0 0) OOk; Finish (TWatcher 0) OCancelled; Finish (TRoot ROrch) OCancelled;
   ActRootsGone; Finish TAuth OCancelled; CoreStopped].

Definition daemon_alive_unasked_at_cleanup (tr : list label) (d : nat) : bool :=
  match run init (tr ++ [CleanupBegin]) with
  | Some s => match ph s (TDaemon d) with PRun => negb (mem_nat d (asked s)) && negb (mem_nat d (abandoned s)) | _ => false end
  | None => false
  end.

Lemma daemons_stopped_before_cleanup_refuted : daemon_alive_unasked_at_cleanup tr_f2001 0 = true.
Proof. vm_compute. reflexivity. Qed.

(* two stop triggers: the stop flag, then a cancellation while run_tasks is already stopping the roots *)
Definition tr_double : list label :=
  [StartupOk; Flag; StopFlag; Finish TWaiter OOk; Finish (TRoot RStopper) OOk; MainStop; Cancel].
Lemma double_trigger_returns_early :
  match run init tr_double with
  | Some s => returned s && negb (all_done (ph s) root_tasks)
  | None => false
  end = true.
Proof. vm_compute. reflexivity. Qed.

(* non-vacuity: complete runs *)
Definition tr_happy : list label :=
  [StartupOk; Flag; Api (TRoot RResObs); Spawn (TWatcher 0) (TRoot ROrch); Api (TWatcher 0);
   Spawn (TWorker 0 0) (TWatcher 0); Spawn (TDaemon 0) (TWorker 0 0); Api (TWorker 0 0);
   StopFlag; Finish TWaiter OOk; Finish (TRoot RStopper) OOk; MainStop; Sweep; OrchStop;
   GraceTimeout (GBackoff 0); Finish (TDaemon 0) OCancelled; Finish (TRoot RKiller) OCancelled;
   Finish (TRoot RUltimate) OOk; Finish (TRoot RPoster) OCancelled;
   Finish (TRoot RAdmChain) OCancelled; Finish (TRoot RAdmVal) OCancelled; Finish (TRoot RAdmMut) OCancelled;
   Finish (TRoot RAdmSrv) OCancelled; Finish (TRoot RResObs) OCancelled; Finish (TRoot RNsObs) OCancelled;
   GraceTimeout (GExit 0); Finish (TWorker 0 0) OCancelled; Finish (TWatcher 0) OCancelled;
   Finish (TRoot ROrch) OCancelled; ActRootsGone; Finish TAuth OCancelled; CoreStopped; CleanupBegin; CleanupOk;
   RootsStopped; HungDone; Return ROk].
Lemma happy_accepted : returned_with tr_happy ROk = true.
Proof. vm_compute. reflexivity. Qed.

Definition tr_failed_startup : list label :=
  [StartupFail; Finish TAuth OCancelled; CoreStopped; MainStop;
   Finish (TRoot RStopper) OOk; Finish (TRoot RUltimate) OOk; Finish (TRoot RKiller) OCancelled;
   Finish (TRoot RPoster) OCancelled; Finish (TRoot RAdmChain) OCancelled; Finish (TRoot RAdmVal) OCancelled;
   Finish (TRoot RAdmMut) OCancelled; Finish (TRoot RAdmSrv) OCancelled; Finish (TRoot RResObs) OCancelled;
   Finish (TRoot RNsObs) OCancelled; Finish (TRoot ROrch) OCancelled; RootsStopped; GraceTimeout GHung;
   Finish TWaiter OCancelled; Return (RErr EStartup)].
Lemma failed_startup_accepted : returned_with tr_failed_startup (RErr EStartup) = true.
Proof. vm_compute. reflexivity. Qed.

(* handler 0 fails for good in round 1, handler 1 fails temporarily and succeeds in round 2: still StartupFail *)
Definition tr_mixed_rounds : list label :=
  [StartupHandler 0 HPerm; StartupHandler 1 HTemp; StartupHandler 1 HOk] ++ tr_failed_startup.
Lemma mixed_rounds_accepted : returned_with tr_mixed_rounds (RErr EStartup) = true.
Proof. vm_compute. reflexivity. Qed.
Lemma mixed_rounds_no_ok : accepts ([StartupHandler 0 HPerm; StartupHandler 1 HTemp; StartupHandler 1 HOk] ++ [StartupOk]) = false.
Proof. vm_compute. reflexivity. Qed.

(* a root task fails: the operator stops and re-raises *)
Definition tr_root_failure : list label :=
  [StartupOk; Flag; Api (TRoot RResObs); Fail (TRoot RResObs); Finish (TRoot RResObs) (OErr (EOf (TRoot RResObs)));
   MainStop; Sweep; OrchStop;
   Finish (TRoot RStopper) OOk; Finish (TRoot RUltimate) OOk; Finish (TRoot RKiller) OCancelled;
   Finish (TRoot RPoster) OCancelled; Finish (TRoot RAdmChain) OCancelled; Finish (TRoot RAdmVal) OCancelled;
   Finish (TRoot RAdmMut) OCancelled; Finish (TRoot RAdmSrv) OCancelled;
   Finish (TRoot RNsObs) OCancelled; Finish (TRoot ROrch) OCancelled; ActRootsGone; Finish TAuth OCancelled;
   CoreStopped; CleanupBegin; CleanupOk; RootsStopped; GraceTimeout GHung; Finish TWaiter OCancelled;
   Return (RErr (EOf (TRoot RResObs)))].
Lemma root_failure_accepted : returned_with tr_root_failure (RErr (EOf (TRoot RResObs))) = true.
Proof. vm_compute. reflexivity. Qed.

(* ------------------------------------------------------------------ 9. statements exported to Props/C20.v *)

Lemma no_api_before_startup : forall pre t post s, run init (pre ++ Api t :: post) = Some s ->
  exists p1 p2, pre = p1 ++ Flag :: p2 /\ In StartupOk p1.
Proof.
  intros pre t post s H. pose proof (api_after_flag _ _ _ _ H) as Hin.
  apply in_split in Hin as (p1&p2&->). exists p1, p2. split; [reflexivity|].
  rewrite <- app_assoc in H. cbn in H. eapply flag_after_startup_ok; eauto.
Qed.

Lemma no_child_before_startup : forall pre t b post s, run init (pre ++ Spawn t b :: post) = Some s ->
  exists p1 p2, pre = p1 ++ Flag :: p2 /\ In StartupOk p1.
Proof.
  intros pre t b post s H. pose proof (spawn_after_flag _ _ _ _ _ H) as Hin.
  apply in_split in Hin as (p1&p2&->). exists p1, p2. split; [reflexivity|].
  rewrite <- app_assoc in H. cbn in H. eapply flag_after_startup_ok; eauto.
Qed.

Lemma returns_and_reraises : forall s r s', step s (Return r) = Some s' ->
  match r with
  | ROk => forall t e, In t (root_tasks ++ hung s) -> ph s t <> PDone (OErr e)
  | RErr e => exists t, In t (root_tasks ++ hung s) /\ ph s t = PDone (OErr e)
  | RCancelled => mn s = MCStopHung
  end.
Proof.
  intros s r s' H. apply return_sound in H as [_ H]. destruct r.
  - destruct H as [_ H]. intros t e Hin. eapply no_error_sound; eauto.
  - destruct H as [_ H]. now apply first_error_sound.
  - exact H.
Qed.

Lemma root_failure_stops_all : forall tr s, run init tr = Some s ->
  (forall x, mn s = MWait -> is_done (ph s (TRoot x)) = true -> act s <> AFlag ->
     exists s', step s MainStop = Some s' /\ mn s' = MStopRoots) /\
  (forall r, mn s = MReturned r -> r <> RCancelled -> forall x, is_done (ph s (TRoot x)) = true).
Proof.
  intros tr s H. split.
  - intros x; apply mainstop_enabled.
  - intros r Hm Hr. eapply returns_after_roots; eauto.
Qed.

(* the daemon killer ends only after its sweep, with every daemon it asked either done or abandoned after its timeouts *)
Lemma killer_finish_partial : forall s o s', step s (Finish (TRoot RKiller) o) = Some s' ->
  ph s (TRoot RKiller) = PEnding o ->
  swept s = true /\ forall d, In d (asked s) -> is_done (ph s (TDaemon d)) = true \/ In d (abandoned s).
Proof.
  intros s o s' H Hp. unfold step in H. rewrite Hp in H.
  match type of H with context [negb ?c] => destruct c eqn:E; [|discriminate H] end.
  apply andb_true_iff in E as [_ E]. unfold finish_ready in E.
  apply andb_true_iff in E as [E1 E2]. split; [exact E1|]. intros d Hin.
  rewrite forallb_forall in E2. specialize (E2 d Hin). apply orb_true_iff in E2 as [E2|E2]; auto.
  right. unfold mem_nat in E2. apply existsb_exists in E2 as (x&Hx&Ex). apply Nat.eqb_eq in Ex. now subst.
Qed.

(* keep-alive ends only after its final touch *)
Lemma keepalive_finish_partial : forall s k o s', step s (Finish (TKeepalive k) o) = Some s' ->
  ph s (TKeepalive k) = PEnding o -> In k (withdrawn s).
Proof.
  intros s k o s' H Hp. unfold step in H. rewrite Hp in H.
  match type of H with context [negb ?c] => destruct c eqn:E; [|discriminate H] end.
  apply andb_true_iff in E as [_ E]. unfold finish_ready, mem_nat in E.
  apply existsb_exists in E as (x&Hx&Ex). apply Nat.eqb_eq in Ex. now subst.
Qed.

(* ... and the orchestrator, when cancelled, ends only after every watcher and keep-alive it created *)
Lemma orch_finish_partial : forall s s', step s (Finish (TRoot ROrch) OCancelled) = Some s' ->
  ph s (TRoot ROrch) = PEnding OCancelled ->
  forall t, In t (spawned s) -> is_ensemble t = true -> is_done (ph s t) = true.
Proof.
  intros s s' H Hp t Hin He. unfold step in H. rewrite Hp in H.
  match type of H with context [negb ?c] => destruct c eqn:E; [|discriminate H] end.
  apply andb_true_iff in E as [_ E]. unfold finish_ready in E. apply andb_true_iff in E as [_ E].
  unfold all_done in E. rewrite forallb_forall in E. apply E. apply filter_In. auto.
Qed.

(* ------------------------------------------------------------------ 10. the stop flag is honoured at every moment, incl. during startup *)

(* "stop-flag checker" and its waiter are NOT guarded by started_flag: they run from time 0 *)
Lemma stopper_runs_from_start : ph init (TRoot RStopper) = PRun /\ ph init TWaiter = PRun /\ guarded RStopper = false.
Proof. repeat split. Qed.

(* once the startup/cleanup task is past the point where cleanup could still follow, it never runs cleanup *)
Definition nocleanup (s : state) : Prop := (exists o, act s = AStopCore (Some o)) \/ act s = AEnd.

Lemma nocleanup_step : forall s l s', nocleanup s -> step s l = Some s' -> nocleanup s'.
Proof.
  intros s l s' Hn H. unfold nocleanup in *.
  destruct l; unfold step in H; inv_step H; use_cancel_spec; cbn in *;
    try (match goal with Hc : act_after_cancel _ _ |- _ =>
           unfold act_after_cancel in Hc;
           destruct Hc as [Hc|[[Hc _]|[[Hc Hc2]|[[Hc _]|[Hc _]]]]]; rewrite Hc; eauto;
           destruct Hn as [[? Hn]|Hn]; congruence end);
    try (destruct Hn as [[? Hn]|Hn]; congruence);
    eauto.
Qed.

Lemma nocleanup_run : forall tr s s', nocleanup s -> run s tr = Some s' -> nocleanup s'.
Proof. intros tr s s' Hn H. eapply (run_inv nocleanup); eauto using nocleanup_step. Qed.

(* ANY root task finishing while the startup activity runs (in particular the stop-flag checker): run_tasks cancels every
   root, the startup task goes straight to stopping the core task, and in every continuation there is no StartupOk, no
   Flag, no API request and no cleanup. *)
Definition aborted_for_good (s3 : state) : Prop :=
  act s3 = AStopCore (Some OCancelled) /\ started s3 = false /\
  forall post s4, run s3 post = Some s4 ->
    started s4 = false /\ ready s4 = false /\
    ~ In StartupOk post /\ ~ In Flag post /\ ~ In CleanupBegin post /\ forall t, ~ In (Api t) post.

Lemma mainstop_during_startup : forall tr s x, run init tr = Some s ->
  mn s = MWait -> is_done (ph s (TRoot x)) = true -> act s = AStartup \/ act s = AStartupBad -> ph s (TRoot RAct) = PRun ->
  exists s3, step s MainStop = Some s3 /\ mn s3 = MStopRoots /\ aborted_for_good s3.
Proof.
  intros tr s x H Hm Hd Hact HactRun.
  assert (Ha : act s <> AFlag) by (destruct Hact as [E|E]; rewrite E; discriminate).
  destruct (mainstop_enabled s x Hm Hd Ha) as (s3&E3&Hm3).
  exists s3. split; [exact E3|]. split; [exact Hm3|].
  assert (Hs0 : started s = false).
  { destruct (Inv_sfailed_reach _ _ H) as [He _]. apply He. tauto. }
  pose proof E3 as E3'. unfold step in E3. rewrite Hm in E3.
  destruct (existsb (fun t => is_done (ph s t)) root_tasks); [|discriminate].
  destruct (cancel_roots s) as [s3'|] eqn:Ec; [|discriminate]. injection E3 as <-.
  assert (Hact3 : act s3' = AStopCore (Some OCancelled)).
  { unfold cancel_roots, cancel_act in Ec.
    assert (Hr : ph (set_ph s (cancel_in (ph s) other_roots)) (TRoot RAct) = PRun) by (cbn; exact HactRun).
    rewrite Hr in Ec. change (act (set_ph s (cancel_in (ph s) other_roots))) with (act s) in Ec.
    destruct Hact as [Hx|Hx]; rewrite Hx in Ec; injection Ec as <-; reflexivity. }
  assert (Hst3 : started s3' = false).
  { apply cancel_roots_spec in Ec. destruct Ec as (_&_&Hs3&_). rewrite Hs3. exact Hs0. }
  unfold aborted_for_good. cbn. split; [exact Hact3|]. split; [exact Hst3|].
  intros post s4 Hpost.
  assert (Hn : noflag (set_mn s3' MStopRoots)) by (unfold noflag; cbn; rewrite Hact3; repeat split; auto; discriminate).
  assert (Hc : nocleanup (set_mn s3' MStopRoots)) by (left; cbn; eauto).
  destruct (noflag_run _ _ _ Hn Hpost) as (Hs4&_&_).
  split; [exact Hs4|].
  assert (Hall : run init (tr ++ MainStop :: post) = Some s4).
  { rewrite run_app, H. cbn [run]. rewrite E3'. exact Hpost. }
  split; [rewrite (ready_eq_started _ _ Hall); exact Hs4|].
  assert (Hno : forall l, (forall a, noflag a -> nocleanup a -> step a l = None) -> ~ In l post).
  { intros l Hl Hin. apply in_split in Hin as (p1&p2&->). apply run_split in Hpost as (a&b&Hp1&Hsa&_).
    rewrite (Hl a (noflag_run _ _ _ Hn Hp1) (nocleanup_run _ _ _ Hc Hp1)) in Hsa. discriminate. }
  split; [|split; [|split]].
  - apply Hno. intros a (_&A1&A2) _. unfold step. destruct (act a); try reflexivity; contradiction.
  - apply Hno. intros a (_&A1&A2) _. unfold step. destruct (act a); try reflexivity; contradiction.
  - apply Hno. intros a _ [[o Ho]|Ho]; unfold step; rewrite Ho; reflexivity.
  - intros t Hin.
    assert (Hin' : In (Api t) (tr ++ MainStop :: post)) by (apply in_or_app; right; right; exact Hin).
    exact (never_started_no_api _ _ Hall Hs4 t Hin').
Qed.

(* The flag-type stop triggers at ANY moment at which run_tasks still waits — in particular while the startup activity is
   running, whatever its handlers are doing.  stop_flag: the waiter and the checker finish; OS signal: the checker
   finishes (the waiter is left for the hung-tasks phase).  Then run_tasks reacts as above. *)
Definition stop_reaction : list label := [StopFlag; Finish TWaiter OOk; Finish (TRoot RStopper) OOk; MainStop].
Definition signal_reaction : list label := [Signal; Finish (TRoot RStopper) OOk; MainStop].

Lemma stop_flag_any_moment : forall tr s, run init tr = Some s ->
  mn s = MWait -> stopflag s = false -> ph s (TRoot RStopper) = PRun -> ph s TWaiter = PRun -> act s <> AFlag ->
  exists s3, run s stop_reaction = Some s3 /\ mn s3 = MStopRoots /\
    (act s = AStartup \/ act s = AStartupBad -> ph s (TRoot RAct) = PRun -> aborted_for_good s3).
Proof.
  intros tr s H Hm Hf Hst Hw Ha.
  set (s1 := mk (ph s) (spawned s) (act s) (mn s) (started s) (ready s) true (sfailed s) (swept s) (ostopped s)
                (asked s) (abandoned s) (graces s) (withdrawn s) (hung s)).
  assert (E0 : step s StopFlag = Some s1) by (unfold step; rewrite Hf; reflexivity).
  set (s2 := set_ph s1 (upd (ph s1) TWaiter (PDone OOk))).
  assert (E1 : step s1 (Finish TWaiter OOk) = Some s2).
  { unfold step. change (ph s1 TWaiter) with (ph s TWaiter). rewrite Hw. reflexivity. }
  set (s2' := set_ph s2 (upd (ph s2) (TRoot RStopper) (PDone OOk))).
  assert (E2 : step s2 (Finish (TRoot RStopper) OOk) = Some s2').
  { unfold step. assert (Hp : ph s2 (TRoot RStopper) = PRun) by (cbn; exact Hst). rewrite Hp.
    assert (Hq : ph s2 TWaiter = PDone OOk) by reflexivity. rewrite Hq. reflexivity. }
  assert (Hd : is_done (ph s2' (TRoot RStopper)) = true) by reflexivity.
  assert (Hr : run init (tr ++ [StopFlag; Finish TWaiter OOk; Finish (TRoot RStopper) OOk]) = Some s2').
  { rewrite run_app, H. cbn [run]. rewrite E0, E1, E2. reflexivity. }
  assert (Hpre : forall s3, step s2' MainStop = Some s3 -> run s stop_reaction = Some s3).
  { intros s3 E3. unfold stop_reaction. cbn [run]. rewrite E0, E1, E2, E3. reflexivity. }
  destruct (mainstop_enabled s2' RStopper Hm Hd Ha) as (s3&E3&Hm3).
  exists s3. split; [auto|]. split; [exact Hm3|].
  intros Hact HactRun.
  destruct (mainstop_during_startup _ _ RStopper Hr Hm Hd Hact HactRun) as (s3x&E3x&_&Hab).
  rewrite E3 in E3x. injection E3x as <-. exact Hab.
Qed.

Lemma signal_any_moment : forall tr s, run init tr = Some s ->
  mn s = MWait -> ph s (TRoot RStopper) = PRun -> act s <> AFlag ->
  exists s3, run s signal_reaction = Some s3 /\ mn s3 = MStopRoots /\
    (act s = AStartup \/ act s = AStartupBad -> ph s (TRoot RAct) = PRun -> aborted_for_good s3).
Proof.
  intros tr s H Hm Hst Ha.
  set (s1 := set_ph s (upd (ph s) (TRoot RStopper) (PEnding OOk))).
  assert (E0 : step s Signal = Some s1) by (unfold step; rewrite Hst; reflexivity).
  set (s2' := set_ph s1 (upd (ph s1) (TRoot RStopper) (PDone OOk))).
  assert (E2 : step s1 (Finish (TRoot RStopper) OOk) = Some s2').
  { unfold step. assert (Hp : ph s1 (TRoot RStopper) = PEnding OOk) by reflexivity. rewrite Hp. reflexivity. }
  assert (Hd : is_done (ph s2' (TRoot RStopper)) = true) by reflexivity.
  assert (Hr : run init (tr ++ [Signal; Finish (TRoot RStopper) OOk]) = Some s2').
  { rewrite run_app, H. cbn [run]. rewrite E0, E2. reflexivity. }
  destruct (mainstop_enabled s2' RStopper Hm Hd Ha) as (s3&E3&Hm3).
  exists s3. split; [unfold signal_reaction; cbn [run]; rewrite E0, E2, E3; reflexivity|]. split; [exact Hm3|].
  intros Hact HactRun.
  assert (HactRun' : ph s2' (TRoot RAct) = PRun).
  { cbn. exact HactRun. }
  destruct (mainstop_during_startup _ _ RStopper Hr Hm Hd Hact HactRun') as (s3x&E3x&_&Hab).
  rewrite E3 in E3x. injection E3x as <-. exact Hab.
Qed.

(* non-vacuity: in the middle of a slow / retrying startup the hypotheses hold *)
Definition tr_mid_startup : list label := [StartupHandler 0 HOk; StartupHandler 1 HTemp].
Lemma mid_startup_hyps :
  match run init tr_mid_startup with
  | Some s => match mn s, stopflag s, ph s (TRoot RStopper), ph s TWaiter, act s, ph s (TRoot RAct) with
              | MWait, false, PRun, PRun, AStartup, PRun => true | _, _, _, _, _, _ => false end
  | None => false
  end = true.
Proof. vm_compute. reflexivity. Qed.
