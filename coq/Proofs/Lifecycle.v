(* C20 — operator lifecycle: lemmas about Model/Lifecycle.v *)
From Coq Require Import List Bool Arith Lia.
From KV Require Import Model.Lifecycle.
Import ListNotations.

Lemma init_not_started : started init = false.
Proof. reflexivity. Qed.
