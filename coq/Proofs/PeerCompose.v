(* C13 x C19: the operator-wide pause.  One operator [me] takes part in one peering neighbourhood per
   EnsembleKey (peering resource x namespace); each is an instance of the network of Model/PeerNet.v; its
   conflicts_found toggle for key k is op_toggle of [me] in that network.  C19's Model/Ensemble.v says which
   toggles operator_paused holds after any history of insights (only those of CURRENT peerings).
   Composition: the operator is paused iff the mandatory peering CRD is missing or some CURRENT peering
   object holds a live record of somebody else with priority >= own; it is resumed as soon as, in every
   current peering, every such peer has withdrawn or expired (and [me] has processed what was delivered).
   Nothing of C19's files is changed; only Model.Ensemble / Proofs.EnsembleToggles are imported. *)
From Coq Require Import ZArith List String Bool.
From KV Require Import Base.Json Model.Peering Model.PeerNet Proofs.PeerNet.
From KV Require Model.Ensemble Proofs.EnsembleToggles.
Import ListNotations.
Open Scope Z_scope.
Open Scope list_scope.

Module E := KV.Model.Ensemble.

Lemma existsb_ext_in : forall (A : Type) (f g : A -> bool) l, (forall x, In x l -> f x = g x) -> existsb f l = existsb g l.
Proof.
  induction l as [|a l IH]; simpl; intros H; [reflexivity|].
  rewrite (H a (or_introl eq_refl)), IH; [reflexivity|]. intros x Hx. apply H. now right.
Qed.

Section Compose.
  Variables (me : string) (nets : E.key -> net) (t0 : E.key -> Z) (trs : E.key -> list label).
  Variables (hs : list E.insights) (mandatory : bool) (i : E.insights) (onk : list E.key).

  Let current := E.peerings (E.te (E.trun_adjust hs)).

  (* every current peering neighbourhood is a reachable state of the network in which [me] has processed
     everything delivered and its sleep is not due *)
  Hypothesis Hreach : forall k, In k current -> run (net0 (t0 k)) (trs k) = Some (nets k) /\ synced (nets k) me.
  (* the toggles that are on, for the current keys, are the networks' toggles of [me]
     (toggles of removed keys may be in any state: they are not in operator_paused any more) *)
  Hypothesis Honk : forall k, In k current -> E.mem_key k onk = op_toggle (n_ops (nets k) me).

  Theorem operator_paused_iff_live_blocker :
    E.paused_on mandatory i onk (E.trun_adjust hs) =
    E.peering_missing mandatory i ||
    existsb (fun k => has_blocker me (op_prio (n_ops (nets k) me)) (n_now (nets k)) (n_status (nets k))) current.
  Proof.
    rewrite KV.Proofs.EnsembleToggles.paused_iff_current_blocker. unfold E.blocked_by_current. f_equal.
    apply existsb_ext_in. intros k Hk. rewrite (Honk k Hk). destruct (Hreach k Hk) as [R S].
    exact (toggle_correct _ _ _ _ R S).
  Qed.

  (* it resumes once every such peer has withdrawn or its keep-alive has expired *)
  Corollary operator_resumed_when_no_blocker :
    E.peering_missing mandatory i = false ->
    (forall k, In k current ->
       has_blocker me (op_prio (n_ops (nets k) me)) (n_now (nets k)) (n_status (nets k)) = false) ->
    E.paused_on mandatory i onk (E.trun_adjust hs) = false.
  Proof.
    intros M H. rewrite operator_paused_iff_live_blocker, M. simpl.
    destruct (existsb _ current) eqn:X; [|reflexivity]. apply existsb_exists in X as (k & Hk & B).
    rewrite (H k Hk) in B. discriminate.
  Qed.
End Compose.

(* the hypotheses of the composition are satisfiable: one cluster-wide peering, the two-operator state of
   Proofs/PeerNet.v, seen from the lower-priority operator "a" (paused) *)
Definition ex_res : E.res := {| E.rid := 1; E.rns := false |}.
Definition ex_ins : E.insights := {| E.watched := []; E.namespaces := [None]; E.peering := [ex_res] |}.

Lemma compose_nonvacuous : exists s,
  (forall k, In k (E.peerings (E.te (E.trun_adjust [ex_ins]))) -> run (net0 0) tr_two_ops = Some s /\ synced s "a"%string) /\
  (forall k, In k (E.peerings (E.te (E.trun_adjust [ex_ins]))) ->
     E.mem_key k [(ex_res, None)] = op_toggle (n_ops s "a"%string)) /\
  E.peerings (E.te (E.trun_adjust [ex_ins])) <> [] /\
  E.paused_on false ex_ins [(ex_res, None)] (E.trun_adjust [ex_ins]) = true.
Proof.
  destruct two_ops_example as (s & R & Hs & _ & _ & Ta & _). exists s. split; [|split; [|split]].
  - intros k _. split; [exact R | apply Hs; now left].
  - intros k Hk. vm_compute in Hk. destruct Hk as [<- | []]. rewrite Ta. vm_compute. reflexivity.
  - vm_compute. discriminate.
  - vm_compute. reflexivity.
Qed.
