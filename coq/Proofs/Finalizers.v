(* C06 — proofs about Model/Finalizers.v, parts 1 and 2 (list edits on JSON bodies, the decision points).
   The life-cycle invariants of part 3 are in Proofs/FinalizersLts.v. *)
From Coq Require Import ZArith List String Bool Ascii Arith Lia.
From KV Require Import Base.Json Base.Dicts Model.Finalizers.
Import ListNotations.
Open Scope string_scope.
Open Scope list_scope.

(* ---------- association lists ---------- *)
Lemma fzl_lookup_set_same : forall (V : Type) k (v : V) l, lookup k (set k v l) = Some v.
Proof.
  induction l as [|[k' v'] l IH]; simpl.
  - rewrite String.eqb_refl; reflexivity.
  - destruct (String.eqb k k') eqn:E; simpl.
    + rewrite String.eqb_refl; reflexivity.
    + rewrite E; exact IH.
Qed.

Lemma fzl_lookup_set_other : forall (V : Type) k k' (v : V) l, String.eqb k' k = false ->
  lookup k' (set k v l) = lookup k' l.
Proof.
  induction l as [|[k2 v2] l IH]; simpl; intros Hne.
  - rewrite Hne; reflexivity.
  - destruct (String.eqb k k2) eqn:E; simpl.
    + apply String.eqb_eq in E; subst k2. rewrite Hne; reflexivity.
    + destruct (String.eqb k' k2); [reflexivity | apply IH; exact Hne].
Qed.

Lemma fzl_lookup_del_same : forall (V : Type) k (l : list (string * V)), lookup k (del k l) = None.
Proof.
  induction l as [|[k' v'] l IH]; simpl; [reflexivity|].
  destruct (String.eqb k k') eqn:E; simpl; [exact IH | rewrite E; exact IH].
Qed.

Lemma fzl_lookup_del_other : forall (V : Type) k k' (l : list (string * V)), String.eqb k' k = false ->
  lookup k' (del k l) = lookup k' l.
Proof.
  induction l as [|[k2 v2] l IH]; simpl; intros Hne; [reflexivity|].
  destruct (String.eqb k k2) eqn:E; simpl.
  - apply String.eqb_eq in E; subst k2. rewrite Hne. apply IH; exact Hne.
  - destruct (String.eqb k' k2); [reflexivity | apply IH; exact Hne].
Qed.

(* ---------- part 1: the finalizer list of a body ---------- *)
Definition fz_mfins (mk : obj) : list json :=
  match lookup "finalizers" mk with Some (JList l) => l | _ => [] end.

Lemma fz_fins_obj : forall kvs,
  fz_fins (JObj kvs) = match lookup "metadata" kvs with Some (JObj mk) => fz_mfins mk | _ => [] end.
Proof.
  intros kvs. unfold fz_fins, fz_mfins. simpl.
  destruct (lookup "metadata" kvs) as [[| | | | |mk|]|]; try reflexivity.
  simpl. destruct (lookup "finalizers" mk) as [[| | | |l| |]|]; reflexivity.
Qed.

Lemma fz_foreign_app : forall fin a b, fz_foreign fin (a ++ b) = fz_foreign fin a ++ fz_foreign fin b.
Proof. intros; unfold fz_foreign; apply filter_app. Qed.

Lemma fz_foreign_idem : forall fin l, fz_foreign fin (fz_foreign fin l) = fz_foreign fin l.
Proof.
  intros fin l; unfold fz_foreign. induction l as [|a l IH]; simpl; [reflexivity|].
  destruct (negb (fz_is_fin fin a)) eqn:E; simpl; [rewrite E, IH|]; auto.
Qed.

Lemma fz_foreign_no_own : forall fin l, existsb (fz_is_fin fin) (fz_foreign fin l) = false.
Proof.
  intros fin l; unfold fz_foreign. induction l as [|a l IH]; simpl; [reflexivity|].
  destruct (fz_is_fin fin a) eqn:E; simpl; [exact IH | rewrite E; exact IH].
Qed.

Lemma fz_existsb_app_own : forall fin l, existsb (fz_is_fin fin) (l ++ [JStr fin]) = true.
Proof.
  intros. rewrite existsb_app. simpl. rewrite String.eqb_refl. simpl. apply orb_true_r.
Qed.

(* well-formed bodies, unfolded *)
Lemma fz_wellformed_inv : forall body, fz_wellformed body = true ->
  exists kvs, body = JObj kvs /\
    (lookup "metadata" kvs = None \/
     exists mk, lookup "metadata" kvs = Some (JObj mk) /\
       (lookup "finalizers" mk = None \/ exists l, lookup "finalizers" mk = Some (JList l))).
Proof.
  intros body H. destruct body as [| | | | |kvs|]; try discriminate. exists kvs; split; [reflexivity|].
  simpl in H. destruct (lookup "metadata" kvs) as [[| | | | |mk|]|]; try discriminate; [|left; reflexivity].
  right. exists mk; split; [reflexivity|].
  destruct (lookup "finalizers" mk) as [[| | | |l| |]|]; try discriminate; [right; exists l; reflexivity | left; reflexivity].
Qed.

(* what block_deletion does to a body the server can hold *)
Lemma fz_block_spec : forall fin body, fz_wellformed body = true ->
  exists b', fz_block fin body = Ok b' /\ fz_wellformed b' = true /\
    fz_foreign fin (fz_fins b') = fz_foreign fin (fz_fins body) /\
    existsb (fz_is_fin fin) (fz_fins b') = true /\
    (existsb (fz_is_fin fin) (fz_fins body) = true -> b' = body) /\
    (existsb (fz_is_fin fin) (fz_fins body) = false -> fz_fins b' = fz_fins body ++ [JStr fin]).
Proof.
  intros fin body Hwf. pose proof Hwf as Hwf0.
  destruct (fz_wellformed_inv _ Hwf) as [kvs [-> Hmd]].
  rewrite fz_fins_obj.
  assert (Hgen : forall mk l, (lookup "metadata" kvs = Some (JObj mk) \/ (lookup "metadata" kvs = None /\ mk = [])) ->
            ((lookup "finalizers" mk = Some (JList l)) \/ (lookup "finalizers" mk = None /\ l = [])) ->
            fz_finalizers_of (JObj kvs) = Ok (JList l) /\
            match lookup "metadata" kvs with Some (JObj mk) => fz_mfins mk | _ => [] end = l /\
            match lookup "metadata" kvs with Some (JObj mk) => mk | _ => [] end = mk).
  { intros mk l Hm Hf. unfold fz_finalizers_of, fz_get, fz_mfins. simpl.
    destruct Hm as [Hm | [Hm ->]]; rewrite Hm; simpl.
    - destruct Hf as [Hf | [Hf ->]]; rewrite Hf; auto.
    - destruct Hf as [Hf | [_ ->]]; [discriminate Hf | auto]. }
  assert (Hex : exists mk l, (lookup "metadata" kvs = Some (JObj mk) \/ (lookup "metadata" kvs = None /\ mk = [])) /\
            ((lookup "finalizers" mk = Some (JList l)) \/ (lookup "finalizers" mk = None /\ l = []))).
  { destruct Hmd as [Hn | [mk [Hm [Hf | [l Hf]]]]].
    - exists [], []. split; [right; auto | right; auto].
    - exists mk, []. split; [left; auto | right; auto].
    - exists mk, l. split; [left; auto | left; auto]. }
  destruct Hex as [mk [l [Hm Hf]]]. destruct (Hgen mk l Hm Hf) as [Hfo [Hfins Hmk]].
  unfold fz_block. rewrite Hfo. simpl. rewrite Hfins.
  destruct (existsb (fz_is_fin fin) l) eqn:Epres.
  - assert (Hfk : fz_fins (JObj kvs) = l) by (rewrite fz_fins_obj; exact Hfins).
    exists (JObj kvs). rewrite Hfk. split; [reflexivity|]. split; [exact Hwf0|]. split; [reflexivity|].
    split; [exact Epres|]. split; [reflexivity | intros; discriminate].
  - rewrite Hmk.
    eexists; split; [reflexivity|].
    assert (Hl1 : lookup "metadata" (set "metadata" (JObj (set "finalizers" (JList (l ++ [JStr fin])) mk)) kvs)
                  = Some (JObj (set "finalizers" (JList (l ++ [JStr fin])) mk))) by apply fzl_lookup_set_same.
    assert (Hl2 : lookup "finalizers" (set "finalizers" (JList (l ++ [JStr fin])) mk) = Some (JList (l ++ [JStr fin])))
      by apply fzl_lookup_set_same.
    rewrite fz_fins_obj, Hl1. unfold fz_mfins at 1 2 3. rewrite Hl2.
    split; [simpl; rewrite Hl1, Hl2; reflexivity|].
    split; [rewrite fz_foreign_app; simpl; rewrite String.eqb_refl; simpl; apply app_nil_r|].
    split; [apply fz_existsb_app_own|].
    split; [intros; discriminate | intros; reflexivity].
Qed.

(* what allow_deletion does to a body the server can hold *)
Lemma fz_allow_spec : forall fin body, fz_wellformed body = true ->
  exists b', fz_allow fin body = Ok b' /\ fz_wellformed b' = true /\
    fz_fins b' = fz_foreign fin (fz_fins body).
Proof.
  intros fin body Hwf.
  destruct (fz_wellformed_inv _ Hwf) as [kvs [-> Hmd]].
  rewrite fz_fins_obj. unfold fz_allow, fz_finalizers_of, fz_get. simpl.
  destruct Hmd as [Hn | [mk [Hm Hf]]].
  - (* no metadata *)
    rewrite Hn. simpl. unfold has. rewrite Hn. simpl.
    eexists; split; [reflexivity|]. split; [exact Hwf|].
    rewrite fz_fins_obj, Hn. reflexivity.
  - rewrite Hm. simpl.
    assert (Hhas : has "metadata" kvs = true) by (unfold has; rewrite Hm; reflexivity). rewrite Hhas.
    assert (Hfinal : forall mk2 l', (lookup "finalizers" mk2 = None /\ l' = [] \/ lookup "finalizers" mk2 = Some (JList l')) ->
       exists b', Ok (JObj match mk2 with [] => del "metadata" kvs | _ :: _ => set "metadata" (JObj mk2) kvs end) = Ok b' /\
                  fz_wellformed b' = true /\ fz_fins b' = l').
    { intros mk2 l' H2. eexists; split; [reflexivity|].
      destruct mk2 as [|p mk2'].
      - split; [simpl; rewrite fzl_lookup_del_same; reflexivity|].
        rewrite fz_fins_obj, fzl_lookup_del_same. destruct H2 as [[_ ->] | H2]; [reflexivity | discriminate H2].
      - split.
        + simpl fz_wellformed. rewrite fzl_lookup_set_same.
          destruct H2 as [[H2 _] | H2]; rewrite H2; reflexivity.
        + rewrite fz_fins_obj, fzl_lookup_set_same. unfold fz_mfins.
          destruct H2 as [[H2 ->] | H2]; rewrite H2; reflexivity. }
    destruct Hf as [Hf | [l Hf]].
    + (* no finalizers key *)
      rewrite Hf. simpl. unfold has. rewrite Hf. simpl.
      unfold fz_mfins; rewrite Hf. simpl.
      apply (Hfinal mk []). left; auto.
    + rewrite Hf. simpl. unfold fz_mfins; rewrite Hf.
      destruct (existsb (fz_is_fin fin) l) eqn:Epres; simpl.
      * (* present: the list is filtered and written back *)
        fold (fz_foreign fin l).
        unfold has. rewrite fzl_lookup_set_same. simpl.
        destruct (fz_foreign fin l) as [|a l'] eqn:Efl; simpl.
        -- apply (Hfinal (del "finalizers" (set "finalizers" (JList []) mk)) []).
           left; split; [apply fzl_lookup_del_same | reflexivity].
        -- apply (Hfinal (set "finalizers" (JList (a :: l')) mk) (a :: l')).
           right; apply fzl_lookup_set_same.
      * (* absent: only the clean-up of empty containers *)
        assert (Hfl : fz_foreign fin l = l).
        { clear - Epres. unfold fz_foreign. induction l as [|a l IH]; simpl in *; [reflexivity|].
          apply orb_false_elim in Epres. destruct Epres as [E1 E2]. rewrite E1. simpl. f_equal. apply IH; exact E2. }
        rewrite Hfl.
        unfold has. rewrite Hf. simpl.
        destruct l as [|a l']; simpl.
        -- apply (Hfinal (del "finalizers" mk) []). left; split; [apply fzl_lookup_del_same | reflexivity].
        -- apply (Hfinal mk (a :: l')). right; exact Hf.
Qed.

Lemma fz_apply_fn_spec : forall fin f body, fz_wellformed body = true ->
  exists b', fz_apply_fn fin f body = Ok b' /\ fz_wellformed b' = true /\
             fz_foreign fin (fz_fins b') = fz_foreign fin (fz_fins body).
Proof.
  intros fin f body Hwf. destruct f; simpl.
  - destruct (fz_block_spec fin body Hwf) as [b' [H1 [H2 [H3 _]]]]. exists b'; auto.
  - destruct (fz_allow_spec fin body Hwf) as [b' [H1 [H2 H3]]]. exists b'; repeat split; auto.
    rewrite H3. apply fz_foreign_idem.
Qed.

(* any sequence of the framework's transformation functions: never an error on a body the server can hold, and
   the finalizers of others are the same list afterwards *)
Lemma fz_apply_fns_spec : forall fin fns body, fz_wellformed body = true ->
  exists b', fz_apply_fns fin fns body = Ok b' /\ fz_wellformed b' = true /\
             fz_foreign fin (fz_fins b') = fz_foreign fin (fz_fins body).
Proof.
  intros fin fns. induction fns as [|f fns IH]; intros body Hwf; simpl.
  - exists body; auto.
  - destruct (fz_apply_fn_spec fin f body Hwf) as [b1 [H1 [H2 H3]]]. rewrite H1. simpl.
    destruct (IH b1 H2) as [b' [H4 [H5 H6]]]. exists b'; repeat split; auto. congruence.
Qed.

Lemma fz_foreign_untouched_json : forall fin fns body b', fz_wellformed body = true ->
  fz_apply_fns fin fns body = Ok b' -> fz_foreign fin (fz_fins b') = fz_foreign fin (fz_fins body).
Proof.
  intros fin fns body b' Hwf H. destruct (fz_apply_fns_spec fin fns body Hwf) as [b2 [H1 [_ H3]]]. congruence.
Qed.

(* the conditional JSON-patch: the whole edit lands on exactly the tested resourceVersion, or nothing does *)
Lemma fz_patch_obj_atomic : forall fin fns orig mr server o, fz_patch_obj fin fns orig mr server = Ok o ->
  let fresh := match mr with Some b => if fz_truthy b then b else orig | None => orig end in
  match o with
  | PoNoRequest => True
  | PoLanded t after =>
      t = fz_rv fresh /\ ojeqb (fz_rv fresh) (fz_rv server) = true /\ fz_apply_fns fin fns fresh = Ok after
  | PoConflict t => t = fz_rv fresh
  end.
Proof.
  intros fin fns orig mr server o H fresh. unfold fz_patch_obj in H. fold fresh in H.
  destruct (fz_edit fin fns fresh) as [e| | |] eqn:Ee; simpl in H; try discriminate.
  destruct e as [to_be|]; [|injection H as <-; exact I].
  unfold fz_server in H.
  destruct (ojeqb (fz_rv fresh) (fz_rv server) && match fz_rv fresh with Some _ => true | None => false end) eqn:Et.
  - injection H as <-. apply andb_prop in Et. destruct Et as [Et _]. repeat split; auto.
    unfold fz_edit in Ee. destruct fns as [|f fns']; [discriminate|].
    destruct (fz_apply_fns fin (f :: fns') fresh) as [b'| | |]; simpl in Ee; try discriminate.
    destruct (jeqb fresh b'); [discriminate|]. injection Ee as <-. reflexivity.
  - injection H as <-. reflexivity.
Qed.

(* ---------- part 2: the decision points ---------- *)
Lemma fz_in_opt : forall b f g, In g (fz_opt b f) <-> (b = true /\ g = f).
Proof. intros b f g; destruct b; simpl; split; intros H; try tauto; try (destruct H as [H|[]]; auto); destruct H; try discriminate; auto. Qed.

Definition fz_add (a : fz_atoms) : bool := fz_must a && negb (a_blocked a) && negb (a_ongoing a).
Definition fz_rem (a : fz_atoms) : bool := negb (fz_must a) && a_blocked a.

Lemma fz_decide_fns_shape : forall a, exists rel : bool,
  o_fns (fz_decide a) = fz_opt (fz_add a) FBlock ++ fz_opt (fz_rem a) FAllow ++ fz_opt rel FAllow /\
  (rel = true -> a_deleted a = false /\ a_ongoing a = true /\ a_blocked a = true /\ o_delays (fz_decide a) = [] /\
                 o_slept (fz_decide a) = false \/ rel = true) .
Proof.
  intros a. unfold fz_decide. fold (fz_add a). fold (fz_rem a).
  match goal with |- context [if ?c then _ else _] => destruct c end; simpl.
  - exists false. simpl. rewrite app_nil_r. split; [reflexivity | intros; discriminate].
  - eexists. rewrite <- app_assoc. split; [reflexivity|]. intros; right; assumption.
Qed.

(* the finalizer is requested exactly when some matching handler needs it, it is absent, and the object is not
   being deleted *)
Lemma fz_block_iff : forall a, In FBlock (o_fns (fz_decide a)) <->
  (fz_must a = true /\ a_blocked a = false /\ a_ongoing a = false).
Proof.
  intros a. destruct (fz_decide_fns_shape a) as [rel [Hs _]]. rewrite Hs.
  rewrite !in_app_iff, !fz_in_opt. unfold fz_add. split.
  - intros [[H _] | [[_ H] | [_ H]]]; try discriminate.
    apply andb_prop in H. destruct H as [H H3]. apply andb_prop in H. destruct H as [H1 H2].
    apply negb_true_iff in H2. apply negb_true_iff in H3. auto.
  - intros [H1 [H2 H3]]. left. rewrite H1, H2, H3. auto.
Qed.

Lemma fz_never_added_while_deleting : forall a, a_ongoing a = true -> ~ In FBlock (o_fns (fz_decide a)).
Proof. intros a H Hin. apply fz_block_iff in Hin. destruct Hin as [_ [_ H3]]. congruence. Qed.

(* a release is appended only when nobody needs the finalizer, or when the object is being deleted, is still held,
   is not yet gone, nothing reported a delay, and (if change handling applies) the view was consistent and the
   change handlers were consulted in this very pass *)
Lemma fz_allow_only_if : forall a, In FAllow (o_fns (fz_decide a)) ->
  (fz_must a = false /\ a_blocked a = true) \/
  (fz_must a = true /\ a_deleted a = false /\ a_ongoing a = true /\ a_blocked a = true /\
   o_delays (fz_decide a) = [] /\ a_sdelays a = [] /\
   (match a_chg a with Some hs => fz_chg_prematch hs | None => false end = true ->
      o_changing (fz_decide a) = true /\ a_cdelays a = [] /\ a_patch0_empty a = true /\
      (a_ctime a = CtNone \/ (a_ctime a = CtSome /\ a_timed_out a = true /\ a_low_empty a = true)))).
Proof.
  intros a. unfold fz_decide.
  destruct a as [sp ch bl on de p0 le ct tmo sd cd]. cbn [a_spawn a_chg a_blocked a_ongoing a_deleted a_patch0_empty
    a_low_empty a_ctime a_timed_out a_sdelays a_cdelays].
  remember (fz_must _) as m eqn:Em. clear Em.
  remember (match ch with Some hs => fz_chg_prematch hs | None => false end) as c0 eqn:Ec0. clear Ec0.
  destruct m, bl; destruct c0, on, de, p0, le, ct, tmo; cbn; try (intuition discriminate);
    destruct sd, cd; cbn; intuition discriminate.
Qed.

(* once everything is finished, the consistent pass on a not-yet-gone, deleting, held object appends the release *)
Lemma fz_release_when_finished : forall a,
  a_deleted a = false -> a_ongoing a = true -> a_blocked a = true ->
  a_sdelays a = [] -> a_cdelays a = [] -> a_patch0_empty a = true -> a_ctime a = CtNone ->
  In FAllow (o_fns (fz_decide a)).
Proof.
  intros a Hd Ho Hb Hs Hc Hp Ht. unfold fz_decide. rewrite Hd, Ho, Hb, Hs, Hc, Hp, Ht. simpl.
  rewrite !andb_false_r. simpl. rewrite !andb_true_r.
  destruct (fz_must a); simpl.
  - rewrite !andb_true_r.
    destruct (match a_chg a with Some hs => fz_chg_prematch hs | None => false end); simpl; auto.
  - auto.
Qed.

(* nobody needs it any more: released at once, whatever else is going on *)
Lemma fz_release_when_unneeded : forall a, fz_must a = false -> a_blocked a = true -> In FAllow (o_fns (fz_decide a)).
Proof.
  intros a Hm Hb. destruct (fz_decide_fns_shape a) as [rel [Hs _]]. rewrite Hs.
  rewrite !in_app_iff, !fz_in_opt. right; left. unfold fz_rem. rewrite Hm, Hb. auto.
Qed.

(* a pass dedicated to the finalizer does not run the change handlers *)
Lemma fz_dedicated_pass : forall a, (In FBlock (o_fns (fz_decide a)) \/ fz_rem a = true) -> o_changing (fz_decide a) = false.
Proof.
  intros a H.
  assert (H' : fz_add a = true \/ fz_rem a = true).
  { destruct H as [H|H]; [left | right; exact H]. apply fz_block_iff in H. destruct H as [H1 [H2 H3]].
    unfold fz_add. rewrite H1, H2, H3. reflexivity. }
  unfold fz_decide. fold (fz_add a). fold (fz_rem a).
  destruct H' as [E|E]; rewrite E; simpl; rewrite ?andb_false_r; simpl; reflexivity.
Qed.

(* the spawning half uses match and honours forever_stopped; the changing half uses prematch *)
Lemma fz_must_iff : forall a, fz_must a = true <->
  (exists hs h, a_spawn a = Some hs /\ In h hs /\ sh_excluded h = false /\ sh_reqfin h = true /\ sh_match h = true) \/
  (exists hs h, a_chg a = Some hs /\ In h hs /\ ch_reqfin h = true /\ ch_prematch h = true).
Proof.
  intros a. unfold fz_must. rewrite orb_true_iff. split.
  - intros [H|H].
    + left. destruct (a_spawn a) as [hs|]; [|discriminate]. unfold fz_spawn_requires in H.
      apply existsb_exists in H. destruct H as [h [Hin Hh]].
      apply andb_prop in Hh. destruct Hh as [H1 H2]. apply andb_prop in H2. destruct H2 as [H2 H3].
      apply negb_true_iff in H1. exists hs, h; auto.
    + right. destruct (a_chg a) as [hs|]; [|discriminate]. apply andb_prop in H. destruct H as [_ H].
      unfold fz_chg_requires in H. apply existsb_exists in H. destruct H as [h [Hin Hh]].
      apply andb_prop in Hh. destruct Hh as [H1 H2]. exists hs, h; auto.
  - intros [[hs [h [E [Hin [H1 [H2 H3]]]]]] | [hs [h [E [Hin [H1 H2]]]]]]; rewrite E.
    + left. unfold fz_spawn_requires. apply existsb_exists. exists h. rewrite H1, H2, H3. auto.
    + right. apply andb_true_intro. split.
      * unfold fz_chg_prematch. apply existsb_exists. exists h; auto.
      * unfold fz_chg_requires. apply existsb_exists. exists h. rewrite H1, H2. auto.
Qed.

(* non-vacuity: each decision point is taken by some valuation *)
Definition fz_ex_atoms (spawn : list fz_sh) (chg : list fz_ch) (blocked ongoing : bool) (sd cd : list Z) : fz_atoms :=
  {| a_spawn := Some spawn; a_chg := Some chg; a_blocked := blocked; a_ongoing := ongoing; a_deleted := false;
     a_patch0_empty := true; a_low_empty := true; a_ctime := CtNone; a_timed_out := true; a_sdelays := sd; a_cdelays := cd |}.
Definition fz_ex_del : fz_ch := {| ch_reqfin := true; ch_prematch := true |}.

Example fz_ex_block : o_fns (fz_decide (fz_ex_atoms [] [fz_ex_del] false false [] [])) = [FBlock].
Proof. reflexivity. Qed.
Example fz_ex_unneeded : o_fns (fz_decide (fz_ex_atoms [] [] true false [] [])) = [FAllow].
Proof. reflexivity. Qed.
Example fz_ex_release : o_fns (fz_decide (fz_ex_atoms [] [fz_ex_del] true true [] [])) = [FAllow].
Proof. reflexivity. Qed.
Example fz_ex_held : o_fns (fz_decide (fz_ex_atoms [] [fz_ex_del] true true [] [5%Z])) = [].
Proof. reflexivity. Qed.
Example fz_ex_twice : o_fns (fz_decide (fz_ex_atoms [] [] true true [] [])) = [FAllow; FAllow].
Proof. reflexivity. Qed.

(* ---------- bridge: the list-of-names edits of part 3 are the JSON edits of part 1 ---------- *)
Lemma fz_existsb_map : forall fin l, existsb (fz_is_fin fin) (map JStr l) = fl_mem fin l.
Proof.
  intros fin l. unfold fl_mem. induction l as [|a l IH]; simpl; [reflexivity|].
  rewrite IH. rewrite (String.eqb_sym a fin). reflexivity.
Qed.

Lemma fz_foreign_map : forall fin l, fz_foreign fin (map JStr l) = map JStr (fl_allow fin l).
Proof.
  intros fin l. unfold fz_foreign, fl_allow. induction l as [|a l IH]; simpl; [reflexivity|].
  destruct (negb (a =? fin)); simpl; rewrite IH; reflexivity.
Qed.

Lemma fz_apply_fn_bridge : forall fin f body l, fz_wellformed body = true -> fz_fins body = map JStr l ->
  exists b', fz_apply_fn fin f body = Ok b' /\ fz_wellformed b' = true /\ fz_fins b' = map JStr (fl_apply_fn fin f l).
Proof.
  intros fin f body l Hwf Hl. destruct f; simpl.
  - destruct (fz_block_spec fin body Hwf) as [b' [H1 [H2 [_ [_ [H5 H6]]]]]]. exists b'. split; [exact H1|]. split; [exact H2|].
    rewrite Hl, fz_existsb_map in H5, H6. unfold fl_block. destruct (fl_mem fin l).
    + rewrite (H5 eq_refl). exact Hl.
    + rewrite (H6 eq_refl), map_app. reflexivity.
  - destruct (fz_allow_spec fin body Hwf) as [b' [H1 [H2 H3]]]. exists b'. split; [exact H1|]. split; [exact H2|].
    rewrite H3, Hl. apply fz_foreign_map.
Qed.

Lemma fz_apply_fns_bridge : forall fin fns body l, fz_wellformed body = true -> fz_fins body = map JStr l ->
  exists b', fz_apply_fns fin fns body = Ok b' /\ fz_wellformed b' = true /\ fz_fins b' = map JStr (fl_apply_fns fin fns l).
Proof.
  intros fin fns. unfold fl_apply_fns. induction fns as [|f fns IH]; intros body l Hwf Hl; simpl.
  - exists body; auto.
  - destruct (fz_apply_fn_bridge fin f body l Hwf Hl) as [b1 [H1 [H2 H3]]]. rewrite H1. simpl.
    destruct (IH b1 _ H2 H3) as [b' [H4 [H5 H6]]]. exists b'; auto.
Qed.

(* ---------- "requires the finalizer" does not depend on the order of registration, and no handler can veto ---------- *)
From Coq Require Import Sorting.Permutation.

Lemma fz_existsb_perm : forall (A : Type) (f : A -> bool) l l', Permutation l l' -> existsb f l = existsb f l'.
Proof.
  intros A f l l' H. induction H; simpl; auto.
  - rewrite IHPermutation; reflexivity.
  - destruct (f x), (f y); reflexivity.
  - congruence.
Qed.

Lemma fz_existsb_incl : forall (A : Type) (f : A -> bool) l l', incl l l' -> existsb f l = true -> existsb f l' = true.
Proof.
  intros A f l l' Hi H. apply existsb_exists in H. destruct H as [x [Hin Hx]]. apply existsb_exists. exists x. split; auto.
Qed.

Definition fz_with_handlers (a : fz_atoms) (sp : option (list fz_sh)) (ch : option (list fz_ch)) : fz_atoms :=
  {| a_spawn := sp; a_chg := ch; a_blocked := a_blocked a; a_ongoing := a_ongoing a; a_deleted := a_deleted a;
     a_patch0_empty := a_patch0_empty a; a_low_empty := a_low_empty a; a_ctime := a_ctime a; a_timed_out := a_timed_out a;
     a_sdelays := a_sdelays a; a_cdelays := a_cdelays a |}.

(* the whole decision of a pass is the same for every order in which the handlers were registered *)
Lemma fz_decide_order_independent : forall a sp sp' ch ch', Permutation sp sp' -> Permutation ch ch' ->
  fz_decide (fz_with_handlers a (Some sp) (Some ch)) = fz_decide (fz_with_handlers a (Some sp') (Some ch')).
Proof.
  intros a sp sp' ch ch' Hs Hc. unfold fz_decide, fz_must, fz_with_handlers; simpl.
  unfold fz_spawn_requires, fz_chg_requires, fz_chg_prematch.
  rewrite (fz_existsb_perm _ _ _ _ Hs), (fz_existsb_perm _ (fun h => ch_reqfin h && ch_prematch h) _ _ Hc), (fz_existsb_perm _ ch_prematch _ _ Hc).
  reflexivity.
Qed.

Lemma fz_requires_order_independent : forall sp sp' ch ch', Permutation sp sp' -> Permutation ch ch' ->
  fz_spawn_requires sp = fz_spawn_requires sp' /\ fz_chg_requires ch = fz_chg_requires ch' /\ fz_chg_prematch ch = fz_chg_prematch ch'.
Proof.
  intros sp sp' ch ch' Hs Hc. unfold fz_spawn_requires, fz_chg_requires, fz_chg_prematch.
  rewrite (fz_existsb_perm _ _ _ _ Hs), (fz_existsb_perm _ (fun h => ch_reqfin h && ch_prematch h) _ _ Hc), (fz_existsb_perm _ ch_prematch _ _ Hc). auto.
Qed.

(* registering more handlers (optional deletion handlers included) never turns "required" into "not required" *)
Lemma fz_requires_monotone : forall sp sp' ch ch', incl sp sp' -> incl ch ch' ->
  (fz_spawn_requires sp = true -> fz_spawn_requires sp' = true) /\ (fz_chg_requires ch = true -> fz_chg_requires ch' = true).
Proof. intros sp sp' ch ch' Hs Hc. split; apply fz_existsb_incl; assumption. Qed.

(* non-vacuity: an optional deletion handler registered before a mandatory one, both matching: required, in both orders *)
Definition fz_ex_opt : fz_ch := {| ch_reqfin := false; ch_prematch := true |}.
Example fz_ex_optional_first : fz_chg_requires [fz_ex_opt; fz_ex_del] = true /\ fz_chg_requires [fz_ex_del; fz_ex_opt] = true /\
  o_fns (fz_decide (fz_ex_atoms [] [fz_ex_opt; fz_ex_del] false false [] [])) = [FBlock] /\
  o_fns (fz_decide (fz_ex_atoms [] [fz_ex_opt; fz_ex_del] true false [] [])) = [].
Proof. repeat split; reflexivity. Qed.
