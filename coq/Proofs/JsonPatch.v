(* RFC 6901 pointer escaping round-trips for every key; basic facts about the RFC 6902 evaluator. *)
From Coq Require Import ZArith List String Bool Ascii Arith Lia.
From KV Require Import Base.Json Model.JsonPatch.
Import ListNotations.
Open Scope string_scope.
Open Scope list_scope.

Lemma c_tilde_not_slash : Ascii.eqb c_tilde c_slash = false. Proof. reflexivity. Qed.

Lemma str_app_nil_r (s : string) : (s ++ "")%string = s.
Proof. induction s; simpl; congruence. Qed.

(* scanning the escaped form of a key yields the key, whatever follows *)
Lemma jp_toks_escape (k rest : string) :
  jp_toks (jp_escape k ++ rest)%string =
  match jp_toks rest with Some (t, ts) => Some ((k ++ t)%string, ts) | None => None end.
Proof.
  induction k as [|c k IH]; simpl.
  - destruct (jp_toks rest) as [[t ts]|]; reflexivity.
  - destruct (Ascii.eqb c c_tilde) eqn:Et.
    + apply Ascii.eqb_eq in Et; subst c. simpl.
      rewrite IH. destruct (jp_toks rest) as [[t ts]|]; reflexivity.
    + destruct (Ascii.eqb c c_slash) eqn:Es.
      * apply Ascii.eqb_eq in Es; subst c. simpl.
        rewrite IH. destruct (jp_toks rest) as [[t ts]|]; reflexivity.
      * simpl. rewrite Es, Et. rewrite IH. destruct (jp_toks rest) as [[t ts]|]; reflexivity.
Qed.

Lemma jp_toks_render (p : list string) : jp_toks (jp_render p) = Some (EmptyString, p).
Proof.
  induction p as [|k p IH]; simpl; [reflexivity|].
  rewrite jp_toks_escape, IH. simpl. now rewrite str_app_nil_r.
Qed.

(* every path, over arbitrary keys ("/", "~", "~0", "~1", spaces, any bytes), survives render/parse *)
Lemma jp_parse_render (p : list string) : jp_parse (jp_render p) = Some p.
Proof.
  destruct p as [|k p]; simpl; [reflexivity|].
  rewrite jp_toks_escape, jp_toks_render. simpl. now rewrite str_app_nil_r.
Qed.

Lemma jp_render_inj (p q : list string) : jp_render p = jp_render q -> p = q.
Proof.
  intro H. pose proof (jp_parse_render p) as Hp. rewrite H, jp_parse_render in Hp. congruence.
Qed.

(* the three basic operations addressed through a rendered pointer act at exactly that path *)
Lemma apply_add_rendered doc p v : apply_op doc (OAdd (jp_render p) v) = ptr_add doc p v.
Proof. simpl. now rewrite jp_parse_render. Qed.
Lemma apply_remove_rendered doc p : apply_op doc (ORemove (jp_render p)) = ptr_remove doc p.
Proof. simpl. now rewrite jp_parse_render. Qed.
Lemma apply_replace_rendered doc p v : apply_op doc (OReplace (jp_render p) v) = ptr_replace doc p v.
Proof. simpl. now rewrite jp_parse_render. Qed.

(* on a member of an object named by ANY string *)
Lemma special_key_add (o : obj) k v :
  apply_ops [OAdd (jp_render [k]) v] (JObj o) = Some (JObj (set k v o)).
Proof. unfold apply_ops. rewrite apply_add_rendered. reflexivity. Qed.

Lemma special_key_remove (o : obj) k :
  has k o = true -> apply_ops [ORemove (jp_render [k])] (JObj o) = Some (JObj (del k o)).
Proof. intro H. unfold apply_ops. rewrite apply_remove_rendered. simpl. now rewrite H. Qed.

Lemma special_key_replace (o : obj) k v :
  has k o = true -> apply_ops [OReplace (jp_render [k]) v] (JObj o) = Some (JObj (set k v o)).
Proof. intro H. unfold apply_ops. rewrite apply_replace_rendered. simpl. now rewrite H. Qed.

Lemma special_keys_all (o : obj) k v :
  jp_parse (jp_render [k]) = Some [k] /\
  apply_ops [OAdd (jp_render [k]) v] (JObj o) = Some (JObj (set k v o)) /\
  (has k o = true -> apply_ops [OReplace (jp_render [k]) v] (JObj o) = Some (JObj (set k v o))) /\
  (has k o = true -> apply_ops [ORemove (jp_render [k])] (JObj o) = Some (JObj (del k o))).
Proof.
  repeat split.
  - apply jp_parse_render.
  - apply special_key_add.
  - apply special_key_replace.
  - apply special_key_remove.
Qed.

(* the assumed law of from_diff is satisfiable *)
Lemma root_replace_law a b : apply_ops (root_replace_diff a b) a = Some b.
Proof. reflexivity. Qed.

Example special_key_example :
  apply_ops [OAdd "/a~1b~0c/ ~01" (JNum 1)] (JObj [("a/b~c", JObj [])]) =
  Some (JObj [("a/b~c", JObj [(" ~1", JNum 1)])]).
Proof. vm_compute. reflexivity. Qed.
