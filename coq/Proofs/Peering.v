(* Lemmas about Model/Peering.v (process_peering_event's decision, touch, keepalive period). *)
From Coq Require Import ZArith List String Bool Lia.
From KV Require Import Base.Json Model.Peering.
Import ListNotations.
Open Scope string_scope.
Open Scope Z_scope.
Open Scope list_scope.

(* ---------- keepalive period ---------- *)
Lemma ka_period_pos : forall l j, 1 <= ka_period l j.
Proof. intros; unfold ka_period; lia. Qed.

Lemma ka_margin : forall l j, 11 <= l -> 5 <= j <= 10 -> ka_period l j <= l - 5.
Proof. intros; unfold ka_period; lia. Qed.

Lemma ka_before_expiry : forall l j, 2 <= l -> 5 <= j <= 10 -> ka_period l j < l.
Proof. intros; unfold ka_period; lia. Qed.

Lemma ka_exact : forall l j, 5 <= j <= 10 ->
  ka_period l j = if l <=? j + 1 then 1 else l - j.
Proof. intros; unfold ka_period; destruct (Z.leb_spec l (j + 1)); lia. Qed.

(* the boundary: with lifetime 1 the renewal comes exactly at expiry, with lifetime <= 0 after it *)
Lemma ka_boundary_refuted : exists l j, 0 <= l /\ 5 <= j <= 10 /\ ~ (ka_period l j < l).
Proof. exists 1, 5. unfold ka_period. lia. Qed.

Lemma ka_lifetime_one : forall j, 5 <= j <= 10 -> ka_period 1 j = 1.
Proof. intros; unfold ka_period; lia. Qed.

(* ---------- touch ---------- *)
Lemma touch_exit_removes : forall c now, touch_record c (Some 0) now = None.
Proof. intros; unfold touch_record. replace (now + 0 * 1000) with now by lia. now rewrite Z.leb_refl. Qed.

Lemma touch_live : forall c now, 0 < c_life c ->
  touch_record c None now = Some (c_prio c, c_life c, now).
Proof.
  intros; unfold touch_record. destruct (Z.leb_spec (now + c_life c * 1000) now); [lia | reflexivity].
Qed.

Lemma touch_nonpositive_lifetime : forall c now, c_life c <= 0 -> touch_record c None now = None.
Proof.
  intros; unfold touch_record. destruct (Z.leb_spec (now + c_life c * 1000) now); [reflexivity | lia].
Qed.

(* ---------- min_list ---------- *)
Lemma fold_min_le : forall l x, fold_left Z.min l x <= x /\ (forall y, In y l -> fold_left Z.min l x <= y).
Proof.
  induction l as [|a l IH]; intros x; simpl.
  - split; [lia | intros y []].
  - destruct (IH (Z.min x a)) as [H1 H2]. split; [lia|].
    intros y [<- | Hy]; [lia | now apply H2].
Qed.

Lemma fold_min_in : forall l x, fold_left Z.min l x = x \/ In (fold_left Z.min l x) l.
Proof.
  induction l as [|a l IH]; intros x; simpl; [now left|].
  destruct (IH (Z.min x a)) as [H | H].
  - rewrite H. destruct (Z.min_spec x a) as [[_ E] | [_ E]]; rewrite E; [now left | right; now left].
  - right; now right.
Qed.

Lemma min_list_none : forall l, min_list l = None <-> l = [].
Proof. destruct l; simpl; split; intros H; try reflexivity; discriminate. Qed.

Lemma min_list_some : forall l w, min_list l = Some w -> In w l /\ forall y, In y l -> w <= y.
Proof.
  destruct l as [|x l]; simpl; intros w H; [discriminate|]. injection H as <-.
  destruct (fold_min_le l x) as [H1 H2]. split.
  - destruct (fold_min_in l x) as [E | E]; [left; now rewrite E | now right].
  - intros y [<- | Hy]; [exact H1 | now apply H2].
Qed.

(* ---------- the comprehension with Python's `>` ---------- *)
Definition gt_num (own : Z) (p : peer) : bool :=
  match num_of (p_prio p) with Some z => own <? z | None => false end.
Definition ge_num (own : Z) (p : peer) : bool :=
  match num_of (p_prio p) with Some z => own <=? z | None => false end.

Lemma filter_gt_ok : forall own l r, filter_gt own l = POk r ->
  r = filter (gt_num own) l /\ Forall (fun p => num_of (p_prio p) <> None) l.
Proof.
  induction l as [|p l IH]; simpl; intros r H.
  - injection H as <-. split; [reflexivity | constructor].
  - unfold py_gt_int, gt_num in *. destruct (num_of (p_prio p)) as [z|] eqn:E; simpl in H; [|discriminate].
    destruct (filter_gt own l) as [r'|] eqn:F; simpl in H; [|discriminate].
    injection H as <-. destruct (IH r' eq_refl) as [-> HF]. split.
    + reflexivity.
    + constructor; [congruence | exact HF].
Qed.

Lemma filter_gt_total : forall own l, Forall (fun p => num_of (p_prio p) <> None) l ->
  filter_gt own l = POk (filter (gt_num own) l).
Proof.
  induction l as [|p l IH]; simpl; intros H; [reflexivity|].
  inversion H as [|? ? Hp Hl]; subst. unfold py_gt_int, gt_num.
  destruct (num_of (p_prio p)) as [z|]; [|congruence]. simpl. rewrite (IH Hl). reflexivity.
Qed.

Lemma filter_gt_err : forall own l e, filter_gt own l = PErr e -> e = TypeError.
Proof.
  induction l as [|p l IH]; simpl; intros e H; [discriminate|].
  unfold py_gt_int in H. destruct (num_of (p_prio p)); simpl in H; [|now injection H as <-].
  destruct (filter_gt own l) eqn:F; simpl in H; [discriminate|]. injection H as <-. now apply IH.
Qed.

(* ---------- the property's notion of a blocker, on parsed peers ---------- *)
Definition blocker (c : cfg) (p : peer) : Prop :=
  p_dead p = false /\ p_id p <> c_id c /\ exists z, num_of (p_prio p) = Some z /\ c_prio c <= z.

Definition blockerb (c : cfg) (p : peer) : bool :=
  negb (p_dead p) && negb (String.eqb (p_id p) (c_id c)) && ge_num (c_prio c) p.

Lemma blockerb_spec : forall c p, blockerb c p = true <-> blocker c p.
Proof.
  intros c p; unfold blockerb, blocker, ge_num. split.
  - intros H. apply andb_prop in H as [H H3]. apply andb_prop in H as [H1 H2].
    apply negb_true_iff in H1, H2. apply String.eqb_neq in H2.
    destruct (num_of (p_prio p)) as [z|]; [|discriminate].
    repeat split; auto. exists z; split; auto. now apply Z.leb_le.
  - intros (H1 & H2 & z & Hz & Hle). rewrite H1, Hz. apply String.eqb_neq in H2. rewrite H2. simpl.
    now apply Z.leb_le.
Qed.

(* the peers the code sleeps on (same ++ prio) are exactly the blockers *)
Lemma in_same_prio : forall c ps p,
  In p (same_of (c_prio c) (live_of (c_id c) ps) ++ filter (gt_num (c_prio c)) (live_of (c_id c) ps))
  <-> In p ps /\ blockerb c p = true.
Proof.
  intros c ps p. rewrite in_app_iff. unfold same_of, live_of. rewrite !filter_In.
  unfold blockerb, ge_num, gt_num, py_eq_int.
  destruct (num_of (p_prio p)) as [z|]; split.
  - intros [[[Hin Hl] He] | [[Hin Hl] Hg]]; split; auto; rewrite Hl; simpl.
    + apply Z.eqb_eq in He. apply Z.leb_le. lia.
    + apply Z.ltb_lt in Hg. apply Z.leb_le. lia.
  - intros [Hin H]. apply andb_prop in H as [Hl Hz]. apply Z.leb_le in Hz.
    destruct (Z.eq_dec z (c_prio c)) as [E | E].
    + left. repeat split; auto. now apply Z.eqb_eq.
    + right. repeat split; auto. apply Z.ltb_lt. lia.
  - intros [[_ H] | [_ H]]; discriminate.
  - intros [_ H]. rewrite andb_false_r in H. discriminate.
Qed.

Lemma decide_peers_inv : forall c tg ps o, decide_peers c tg ps = POk o ->
  let sleepers := same_of (c_prio c) (live_of (c_id c) ps) ++ filter (gt_num (c_prio c)) (live_of (c_id c) ps) in
  o_wake o = min_list (map p_deadline sleepers) /\
  o_clean o = (if c_autoclean c then map p_id (dead_of ps) else []) /\
  o_toggle o = match tg with None => None | Some _ => Some (match sleepers with [] => false | _ => true end) end /\
  o_turn o = match tg with
             | None => None
             | Some t => if Bool.eqb t (match sleepers with [] => false | _ => true end) then None
                         else Some (match sleepers with [] => false | _ => true end)
             end.
Proof.
  intros c tg ps o H. unfold decide_peers in H.
  destruct (filter_gt (c_prio c) (live_of (c_id c) ps)) as [prio|] eqn:F; simpl in H; [|discriminate].
  apply filter_gt_ok in F as [-> _]. injection H as <-. simpl.
  set (same := same_of (c_prio c) (live_of (c_id c) ps)).
  set (prio := filter (gt_num (c_prio c)) (live_of (c_id c) ps)).
  assert (E : match prio, same with [], [] => false | _, _ => true end
              = match same ++ prio with [] => false | _ => true end).
  { destruct prio, same; reflexivity. }
  rewrite E. repeat split; reflexivity.
Qed.

Lemma nonempty_iff_ex : forall (A : Type) (l : list A),
  match l with [] => false | _ => true end = true <-> exists x, In x l.
Proof.
  intros A [|x l]; split; try discriminate.
  - intros [y []].
  - intros _. exists x; now left.
  - reflexivity.
Qed.

(* paused <-> some live peer other than self has priority >= own *)
Lemma paused_iff_blocker : forall c t ps o, decide_peers c (Some t) ps = POk o ->
  (o_toggle o = Some true <-> exists p, In p ps /\ blocker c p).
Proof.
  intros c t ps o H. destruct (decide_peers_inv _ _ _ _ H) as (_ & _ & Ht & _). rewrite Ht. split.
  - intros E. injection E as E. apply nonempty_iff_ex in E as [p Hp].
    apply in_same_prio in Hp as [Hin Hb]. exists p; split; auto. now apply blockerb_spec.
  - intros (p & Hin & Hb). f_equal. apply nonempty_iff_ex. exists p. apply in_same_prio.
    split; auto. now apply blockerb_spec.
Qed.

Lemma toggle_is_some : forall c t ps o, decide_peers c (Some t) ps = POk o -> exists b, o_toggle o = Some b.
Proof. intros c t ps o H. destruct (decide_peers_inv _ _ _ _ H) as (_ & _ & Ht & _). rewrite Ht. eauto. Qed.

(* the toggle is actually switched exactly when its state differs from the verdict *)
Lemma turn_iff : forall c t ps o, decide_peers c (Some t) ps = POk o ->
  forall b, o_turn o = Some b <-> (o_toggle o = Some b /\ t = negb b).
Proof.
  intros c t ps o H b. destruct (decide_peers_inv _ _ _ _ H) as (_ & _ & Ht & Hu). rewrite Ht, Hu.
  set (v := match _ ++ _ with [] => false | _ => true end).
  destruct t, v, b; simpl; split; intros E; try discriminate; try (destruct E; discriminate); auto.
Qed.

(* the wake-up time is the minimum of the blockers' deadlines; no blocker, no wake-up *)
Lemma wake_is_min_deadline : forall c tg ps o, decide_peers c tg ps = POk o ->
  (o_wake o = None <-> ~ exists p, In p ps /\ blocker c p) /\
  (forall w, o_wake o = Some w ->
     (exists p, In p ps /\ blocker c p /\ p_deadline p = w) /\
     (forall p, In p ps -> blocker c p -> w <= p_deadline p)).
Proof.
  intros c tg ps o H. destruct (decide_peers_inv _ _ _ _ H) as (Hw & _). rewrite Hw. split.
  - rewrite min_list_none. split.
    + intros E (p & Hin & Hb). apply map_eq_nil in E.
      assert (Hp : In p []) by (rewrite <- E; apply in_same_prio; split; auto; now apply blockerb_spec).
      destruct Hp.
    + intros N. destruct (_ ++ _) as [|p l] eqn:E; [reflexivity|]. exfalso. apply N.
      assert (Hp : In p (p :: l)) by now left. rewrite <- E in Hp. apply in_same_prio in Hp as [Hin Hb].
      exists p; split; auto. now apply blockerb_spec.
  - intros w E. apply min_list_some in E as [Hin Hmin]. split.
    + apply in_map_iff in Hin as (p & <- & Hp). apply in_same_prio in Hp as [Hp Hb].
      exists p. split; [exact Hp | split; [now apply blockerb_spec | reflexivity]].
    + intros p Hp Hb. apply Hmin. apply in_map. apply in_same_prio. split; auto. now apply blockerb_spec.
Qed.

(* exactly the expired records are cleaned *)
Lemma clean_iff_dead : forall c tg ps o, decide_peers c tg ps = POk o -> c_autoclean c = true ->
  forall id, In id (o_clean o) <-> exists p, In p ps /\ p_dead p = true /\ p_id p = id.
Proof.
  intros c tg ps o H Ha id. destruct (decide_peers_inv _ _ _ _ H) as (_ & Hc & _). rewrite Hc, Ha.
  unfold dead_of. rewrite in_map_iff. split.
  - intros (p & <- & Hp). apply filter_In in Hp as [Hin Hd]. eauto.
  - intros (p & Hin & Hd & <-). exists p; split; auto. apply filter_In; auto.
Qed.

Lemma no_autoclean_no_clean : forall c tg ps o, decide_peers c tg ps = POk o -> c_autoclean c = false -> o_clean o = [].
Proof. intros c tg ps o H Ha. destruct (decide_peers_inv _ _ _ _ H) as (_ & Hc & _). now rewrite Hc, Ha. Qed.

(* the decision never fails when every live foreign priority is a number (or bool); it fails
   with TypeError and WITHOUT any effect otherwise *)
Lemma decide_total : forall c tg ps,
  Forall (fun p => num_of (p_prio p) <> None) (live_of (c_id c) ps) -> exists o, decide_peers c tg ps = POk o.
Proof. intros c tg ps H. unfold decide_peers. rewrite (filter_gt_total _ _ H). simpl. eauto. Qed.

Lemma decide_error_is_typeerror : forall c tg ps e, decide_peers c tg ps = PErr e -> e = TypeError.
Proof.
  intros c tg ps e H. unfold decide_peers in H.
  destruct (filter_gt (c_prio c) (live_of (c_id c) ps)) eqn:F; simpl in H; [discriminate|].
  injection H as <-. now apply filter_gt_err in F.
Qed.

(* ---------- parsing the records ---------- *)
Lemma mk_peer_inv : forall oint odate now id info p, mk_peer oint odate now id info = POk p ->
  exists o, info = JObj o /\ has "identity" o = false /\ has "self" o = false /\
    p_id p = id /\
    p_prio p = dflt (JNum 0) (lookup "priority" o) /\
    py_int oint (dflt (JNum 60) (lookup "lifetime" o)) = POk (p_life p) /\
    py_lastseen odate now (lookup "lastseen" o) = POk (p_seen p) /\
    p_deadline p = p_seen p + p_life p * 1000 /\
    p_dead p = (p_deadline p <=? now).
Proof.
  intros oint odate now id info p H. destruct info; simpl in H; try discriminate.
  exists kvs. destruct (has "identity" kvs) eqn:H1; simpl in H; [discriminate|].
  destruct (has "self" kvs) eqn:H2; simpl in H; [discriminate|].
  destruct (py_int oint _) as [life|] eqn:HL; simpl in H; [|discriminate].
  destruct (td_ok life); simpl in H; [|discriminate].
  destruct (py_lastseen odate now _) as [seen|] eqn:HS; simpl in H; [|discriminate].
  destruct (dt_ok _); simpl in H; [|discriminate].
  injection H as <-. simpl. repeat split; auto.
Qed.

Lemma mk_peers_spec : forall oint odate now kvs ps, mk_peers oint odate now kvs = POk ps ->
  forall p, In p ps <-> exists id info, In (id, info) kvs /\ mk_peer oint odate now id info = POk p.
Proof.
  induction kvs as [|[id info] kvs IH]; simpl; intros ps H p.
  - injection H as <-. split; [intros [] | intros (? & ? & [] & _)].
  - destruct (mk_peer oint odate now id info) as [q|] eqn:Q; simpl in H; [|discriminate].
    destruct (mk_peers oint odate now kvs) as [qs|] eqn:QS; simpl in H; [|discriminate].
    injection H as <-. simpl. rewrite (IH qs eq_refl p). split.
    + intros [<- | (i & f & Hin & Hp)]; [exists id, info; auto | exists i, f; auto].
    + intros (i & f & [E | Hin] & Hp).
      * injection E as <- <-. left. congruence.
      * right; eauto.
Qed.

(* unknown fields are ignored *)
Definition known_field (k : string) : bool :=
  String.eqb k "priority" || String.eqb k "lifetime" || String.eqb k "lastseen"
  || String.eqb k "identity" || String.eqb k "self".

Lemma lookup_cons_other : forall (V : Type) k k' (v : V) l, String.eqb k k' = false ->
  lookup k ((k', v) :: l) = lookup k l.
Proof. intros; simpl. now rewrite H. Qed.

Lemma mk_peer_ignores_unknown : forall oint odate now id k v o, known_field k = false ->
  mk_peer oint odate now id (JObj ((k, v) :: o)) = mk_peer oint odate now id (JObj o).
Proof.
  intros oint odate now id k v o H. unfold known_field in H.
  repeat (apply orb_false_elim in H as [H ?]).
  unfold mk_peer, has.
  rewrite !lookup_cons_other by (rewrite String.eqb_sym; assumption). reflexivity.
Qed.

(* missing fields: priority 0, lifetime 60 s, lastseen = now (hence: alive, deadline now+60 s) *)
Lemma mk_peer_defaults : forall oint odate now id, dt_ok (now + 60000) = true ->
  mk_peer oint odate now id (JObj []) = POk (mkPeer id (JNum 0) 60 now (now + 60000) false).
Proof.
  intros oint odate now id H. unfold mk_peer. simpl. replace (now + 60 * 1000) with (now + 60000) by lia.
  rewrite H. simpl. destruct (Z.leb_spec (now + 60000) now); [lia | reflexivity].
Qed.

(* ---------- the whole event ---------- *)
Lemma process_inv : forall oint odate c tg name status now o,
  process oint odate c tg name status now = POk (Some o) ->
  name = Some (c_name c) /\
  exists kvs ps, status_items status = POk kvs /\ mk_peers oint odate now kvs = POk ps /\ decide_peers c tg ps = POk o.
Proof.
  intros oint odate c tg name status now o H. unfold process in H.
  destruct name as [n|]; simpl in H; [|discriminate].
  destruct (String.eqb n (c_name c)) eqn:E; simpl in H; [|discriminate].
  apply String.eqb_eq in E; subst n. split; [reflexivity|].
  destruct (status_items status) as [kvs|] eqn:E1; simpl in H; [|discriminate].
  destruct (mk_peers oint odate now kvs) as [ps|] eqn:E2; simpl in H; [|discriminate].
  destruct (decide_peers c tg ps) as [o'|] eqn:E3; simpl in H; [|discriminate].
  injection H as <-. exists kvs, ps. auto.
Qed.

Lemma process_foreign_name_ignored : forall oint odate c tg name status now,
  name <> Some (c_name c) -> process oint odate c tg name status now = POk None.
Proof.
  intros oint odate c tg name status now H. unfold process.
  destruct name as [n|]; simpl; [|reflexivity].
  destruct (String.eqb n (c_name c)) eqn:E; [|reflexivity]. apply String.eqb_eq in E. congruence.
Qed.

Lemma process_paused_iff : forall oint odate c t kvs now o,
  process oint odate c (Some t) (Some (c_name c)) (Some (JObj kvs)) now = POk (Some o) ->
  (o_toggle o = Some true <->
   exists id info p, In (id, info) kvs /\ mk_peer oint odate now id info = POk p /\ blocker c p).
Proof.
  intros oint odate c t kvs now o H. apply process_inv in H as (_ & kvs' & ps & Hs & Hp & Hd).
  simpl in Hs. injection Hs as <-. rewrite (paused_iff_blocker _ _ _ _ Hd). split.
  - intros (p & Hin & Hb). apply (mk_peers_spec _ _ _ _ _ Hp) in Hin as (id & info & Hin' & Hm). eauto 6.
  - intros (id & info & p & Hin & Hm & Hb). exists p. split; auto. apply (mk_peers_spec _ _ _ _ _ Hp). eauto.
Qed.

Lemma process_wake : forall oint odate c tg kvs now o,
  process oint odate c tg (Some (c_name c)) (Some (JObj kvs)) now = POk (Some o) ->
  (o_wake o = None <-> ~ exists id info p, In (id, info) kvs /\ mk_peer oint odate now id info = POk p /\ blocker c p) /\
  (forall w, o_wake o = Some w ->
     (exists id info p, In (id, info) kvs /\ mk_peer oint odate now id info = POk p /\ blocker c p /\ p_deadline p = w) /\
     (forall id info p, In (id, info) kvs -> mk_peer oint odate now id info = POk p -> blocker c p -> w <= p_deadline p)).
Proof.
  intros oint odate c tg kvs now o H. apply process_inv in H as (_ & kvs' & ps & Hs & Hp & Hd).
  simpl in Hs. injection Hs as <-. destruct (wake_is_min_deadline _ _ _ _ Hd) as [H1 H2]. split.
  - rewrite H1. split; intros N X; apply N.
    + destruct X as (id & info & p & Hin & Hm & Hb). exists p; split; auto. apply (mk_peers_spec _ _ _ _ _ Hp). eauto.
    + destruct X as (p & Hin & Hb). apply (mk_peers_spec _ _ _ _ _ Hp) in Hin as (id & info & Hin' & Hm). eauto 6.
  - intros w E. destruct (H2 w E) as [(p & Hin & Hb & Hdl) Hmin]. split.
    + apply (mk_peers_spec _ _ _ _ _ Hp) in Hin as (id & info & Hin' & Hm). eauto 8.
    + intros id info q Hin2 Hm Hb'. apply Hmin; auto. apply (mk_peers_spec _ _ _ _ _ Hp). eauto.
Qed.

Lemma process_clean : forall oint odate c tg kvs now o,
  process oint odate c tg (Some (c_name c)) (Some (JObj kvs)) now = POk (Some o) -> c_autoclean c = true ->
  forall id, In id (o_clean o) <->
    exists info p, In (id, info) kvs /\ mk_peer oint odate now id info = POk p /\ p_dead p = true.
Proof.
  intros oint odate c tg kvs now o H Ha id. apply process_inv in H as (_ & kvs' & ps & Hs & Hp & Hd).
  simpl in Hs. injection Hs as <-. rewrite (clean_iff_dead _ _ _ _ Hd Ha). split.
  - intros (p & Hin & Hdead & Hid). apply (mk_peers_spec _ _ _ _ _ Hp) in Hin as (i & info & Hin' & Hm).
    pose proof (mk_peer_inv _ _ _ _ _ _ Hm) as (o' & _ & _ & _ & Hi & _). rewrite Hid in Hi. subst i. eauto.
  - intros (info & p & Hin & Hm & Hdead). exists p. split; [apply (mk_peers_spec _ _ _ _ _ Hp); eauto|].
    split; auto. pose proof (mk_peer_inv _ _ _ _ _ _ Hm) as (o' & _ & _ & _ & Hi & _). exact Hi.
Qed.

(* the sleep: the self-touch happens at the wake time unless a new event interrupts before *)
Lemma touch_at_wake : forall o now1 w, o_wake o = Some w -> touch_time o now1 None = Some (Z.max now1 w).
Proof.
  intros o now1 w H. unfold touch_time. rewrite H. destruct (Z.leb_spec w now1); f_equal; lia.
Qed.

Lemma no_blocker_no_touch : forall o now1 i, o_wake o = None -> touch_time o now1 i = None.
Proof. intros o now1 i H. unfold touch_time. now rewrite H. Qed.

Lemma interrupted_no_touch : forall o now1 w t, o_wake o = Some w -> now1 < w -> t < w ->
  touch_time o now1 (Some t) = None.
Proof.
  intros o now1 w t H H1 H2. unfold touch_time. rewrite H.
  destruct (Z.leb_spec w now1); [lia|]. destruct (Z.ltb_spec t w); [reflexivity | lia].
Qed.

(* ---------- the log line that formats every peer ---------- *)
Lemma first_int_error_numeric : forall oint ps, Forall (fun p => num_of (p_prio p) <> None) ps ->
  first_int_error oint ps = None.
Proof.
  induction ps as [|p ps IH]; simpl; intros H; [reflexivity|].
  inversion H as [|? ? Hp Hps]; subst.
  destruct (p_prio p) as [| b | z | | | |]; simpl in *; try congruence; now apply IH.
Qed.

Lemma log_raises_none_numeric : forall oint c t ps, Forall (fun p => num_of (p_prio p) <> None) ps ->
  log_raises oint c t ps = None.
Proof.
  intros oint c t ps H. unfold log_raises. destruct t as [[|]|]; try reflexivity.
  destruct (_ && _); [now apply first_int_error_numeric | reflexivity].
Qed.

(* a junk priority on an EXPIRED record aborts the call after clean() and before the toggle is
   switched, although a live equal-priority peer exists *)
Definition log_abort_status : json :=
  JObj [("a", JObj [("lifetime", JNum 60); ("priority", JNum 0)]);
        ("gone", JObj [("lastseen", JStr "long ago"); ("lifetime", JNum 60); ("priority", JList [JNum 1])])].

Lemma log_abort_witness :
  let oint := fun _ : string => None in
  let odate := fun _ : string => Some 0 in
  let c := mkCfg "me" 0 60 "default" true in
  (exists o, process oint odate c (Some false) (Some "default") (Some log_abort_status) 1000000 = POk (Some o)
             /\ o_toggle o = Some true) /\
  run_event oint odate c (Some false) (Some "default") (Some log_abort_status) 1000000 0 None None
  = ([ObsClean ["gone"]], Some TypeError).
Proof. split; [eexists; split; vm_compute; reflexivity | vm_compute; reflexivity]. Qed.
