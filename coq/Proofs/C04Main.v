(* C04 — corollaries combining the proof files (cited by Props/C04.v). *)
From Coq Require Import ZArith NArith List String Bool Ascii.
From KV Require Import Base.Json Base.Dicts Model.Keys Model.Storage Model.Diff Model.Essence.
From KV Require Import Proofs.C04Diff Proofs.C04Reduce Proofs.C04System Proofs.C04Own.
Import ListNotations.
Open Scope string_scope.
Open Scope list_scope.

(* what ResourceHandler.adjust_cause hands to a field handler is exactly the old and new value of the
   field and the diff between these two values *)
Theorem field_handler_exact : forall old new p, wf old = true -> wf new = true ->
  adjust_cause p (Some old) new (diff old new)
  = (resolve_d old p, resolve_d new p, diff (resolve_d old p) (resolve_d new p)).
Proof. intros old new p Ho Hn. unfold adjust_cause. simpl. now rewrite reduce_exact. Qed.

(* never handled before (old = None): the field handler sees the creation of its field *)
Theorem field_handler_exact_create : forall new p, wf new = true ->
  adjust_cause p None new (diff JNull new) = (JNull, resolve_d new p, diff JNull (resolve_d new p)).
Proof.
  intros new p Hn. unfold adjust_cause. simpl. rewrite reduce_exact by (auto; reflexivity).
  unfold resolve_d at 1 3. destruct p; reflexivity.
Qed.

(* a non-empty diff is exactly an essential difference *)
Theorem diff_nonempty_iff : forall a b, wf a = true -> wf b = true -> (diff a b <> [] <-> ~ deq a b).
Proof. intros a b Ha Hb. pose proof (diff_complete a b Ha Hb) as H. tauto. Qed.

(* update is detected iff old and new differ essentially (for an object with a last-handled state) *)
Theorem classify_update_iff : forall old new, wf old = true -> wf new = true ->
  (classify_change (Some old) (diff old new) = KUpdate <-> ~ deq old new).
Proof.
  intros old new Ho Hn. rewrite <- (diff_nonempty_iff old new Ho Hn). unfold classify_change.
  destruct (diff old new); split; intro H; try discriminate; try congruence.
Qed.

(* ---- another Kopf operator: writes under an already marked prefix are invisible ---- *)
Theorem other_operator_write_invisible : forall dg P key v1 P' pv1 verbose tk kvs md A q k v,
  P' <> "" -> lookup "metadata" kvs = Some (JObj md) ->
  In q (marked_prefixes (keys A)) -> under_prefix q k = true ->
  (key_marks_prefix k = None \/ exists q', key_marks_prefix k = Some q' /\ In q' (marked_prefixes (keys A))) ->
  essence dg (DAnn P key v1 []) (PAnn P' pv1 verbose tk) (body_with kvs md (set k v A)) []
  = essence dg (DAnn P key v1 []) (PAnn P' pv1 verbose tk) (body_with kvs md A) [].
Proof.
  intros dg P key v1 P' pv1 verbose tk kvs md A q k v HP Hmd Hq Hu Hk.
  apply essence_ann_congr; auto.
  rewrite (ow_full_keys_indep dg P v1 kvs md (set k v A) A key).
  set (ks := full_keys dg P v1 (body_with kvs md A) key) in *.
  rewrite (ow_filter_set_invisible (vis P' ks (set k v A)) k v A).
  2:{ apply ow_vis_hidp. rewrite ow_hidp_set. rewrite (ow_hidp_in A q k Hq Hu). reflexivity. }
  apply filter_ext. intros [j x]. cbn [fst].
  apply ow_vis_eq_of_hidp. rewrite ow_hidp_set.
  destruct (ow_marks_over k j) eqn:Em; [|now rewrite andb_false_r, orb_false_r].
  unfold ow_marks_over in Em. destruct Hk as [E|[q' [E Hin]]]; rewrite E in Em; [discriminate|].
  rewrite (ow_hidp_in A q' j Hin Em). reflexivity.
Qed.

Theorem other_operator_delete_invisible : forall dg P key v1 P' pv1 verbose tk kvs md A q k,
  P' <> "" -> lookup "metadata" kvs = Some (JObj md) ->
  In q (marked_prefixes (keys (del k A))) -> under_prefix q k = true ->
  key_marks_prefix k = None ->
  essence dg (DAnn P key v1 []) (PAnn P' pv1 verbose tk) (body_with kvs md (del k A)) []
  = essence dg (DAnn P key v1 []) (PAnn P' pv1 verbose tk) (body_with kvs md A) [].
Proof.
  intros dg P key v1 P' pv1 verbose tk kvs md A q k HP Hmd Hq Hu Hk.
  apply essence_ann_congr; auto.
  rewrite (ow_full_keys_indep dg P v1 kvs md (del k A) A key).
  set (ks := full_keys dg P v1 (body_with kvs md A) key) in *.
  assert (Hh : ow_hidp (del k A) k = true) by (eapply ow_hidp_in; eauto).
  rewrite (ow_filter_del_invisible (vis P' ks (del k A)) k A) by now apply ow_vis_hidp.
  apply filter_ext. intros [j x]. cbn [fst].
  apply ow_vis_eq_of_hidp.
  destruct (ow_hidp A j) eqn:E.
  - destruct (ow_hidp_del_ge k A j E) as [H|H]; auto.
    unfold ow_marks_over in H. rewrite Hk in H. discriminate.
  - destruct (ow_hidp (del k A) j) eqn:E'; auto.
    rewrite (ow_hidp_del_le k A j E') in E. discriminate.
Qed.

(* with the marker on the object (any storage configuration, any extra fields outside metadata):
   nothing under that prefix reaches the essence *)
Theorem other_operator_marked_absent : forall dg ds ps kvs md anns q j extra e,
  lookup "metadata" kvs = Some (JObj md) -> lookup "annotations" md = Some (JObj anns) ->
  C04System.no_slash q = true -> In (q ++ "/" ++ marker_name)%string (keys anns) ->
  under_prefix q j = true ->
  (forall f, In f extra -> hd_error f <> Some "metadata") ->
  essence dg ds ps (JObj kvs) extra = Ok e ->
  resolve e ["metadata"; "annotations"; j] = None.
Proof.
  intros dg ds ps kvs md anns q j extra e Hm Ha Hs Hin Hu He H.
  eapply marked_annotation_absent; eauto.
  eapply sy_marked_in; [exact Hin|]. now apply marker_marks.
Qed.

(* the default prefix kopf.zalando.org needs no marker *)
Theorem other_operator_known_absent : forall dg ds ps kvs md anns n j extra e,
  lookup "metadata" kvs = Some (JObj md) -> lookup "annotations" md = Some (JObj anns) ->
  In (known_prefix ++ "/" ++ n)%string (keys anns) ->
  under_prefix known_prefix j = true ->
  (forall f, In f extra -> hd_error f <> Some "metadata") ->
  essence dg ds ps (JObj kvs) extra = Ok e ->
  resolve e ["metadata"; "annotations"; j] = None.
Proof.
  intros dg ds ps kvs md anns n j extra e Hm Ha Hin Hu He H.
  eapply marked_annotation_absent; eauto.
  eapply sy_marked_in; [exact Hin|]. apply known_prefix_marks.
Qed.
