(* C16, "can be purged completely": after the annotation progress storage's purge - whatever is on the object, whatever
   is pending in the cycle's shared patch under metadata.annotations - the record is not readable from the object as
   patched by an RFC 7386 server, under every key the storage uses (v2 and v1). *)
From Coq Require Import ZArith NArith List String Bool Lia.
From KV Require Import Base.Json Base.Dicts Model.Keys Model.Storage Proofs.JsonMerge Proofs.Storage.
Import ListNotations.
Open Scope string_scope.
Open Scope list_scope.

Section Purge.
  Variable dg : chars -> list N.

  (* the patch an annotation storage works on: empty, or metadata.annotations only *)
  Inductive ann_patch : json -> list (string * json) -> Prop :=
  | ap_empty : ann_patch (JObj []) []
  | ap_pending anns : ann_patch (pending anns) anns.

  Definition in_body (body : json) (k : string) : bool :=
    match resolve body (ann_path k) with Some _ => true | None => false end.

  Definition purge_anns (body : json) (anns : list (string * json)) (k : string) : list (string * json) :=
    if in_body body k then set k JNull anns else del k anns.

  Lemma del_absent {V} k (l : list (string * V)) : lookup k l = None -> del k l = l.
  Proof.
    induction l as [|[k' v] l IH]; cbn; [reflexivity|]. destruct (String.eqb k k'); [discriminate|]. intro H. rewrite (IH H). reflexivity.
  Qed.

  Lemma nodup_keys_del {V} k (l : list (string * V)) :
    nodup_keys (map fst l) = true -> nodup_keys (map fst (del k l)) = true.
  Proof.
    induction l as [|[k' v] l IH]; cbn; [reflexivity|]. intro H. apply andb_true_iff in H. destruct H as [NI ND].
    destruct (String.eqb k k'); [apply IH; exact ND|]. cbn. rewrite (IH ND), andb_true_r.
    apply negb_true_iff. apply negb_true_iff in NI. unfold mem_str in *.
    destruct (existsb (String.eqb k') (map fst (del k l))) eqn:E; [|reflexivity]. exfalso.
    apply existsb_exists in E. destruct E as (x & Ix & Ex). apply String.eqb_eq in Ex. subst x.
    assert (In k' (map fst l)) as I.
    { clear - Ix. induction l as [|[a b] l IH]; cbn in *; [exact Ix|]. destruct (String.eqb k a); [right; apply IH; exact Ix|].
      cbn in Ix. destruct Ix as [E|I]; [left; exact E|right; apply IH; exact I]. }
    assert (existsb (String.eqb k') (map fst l) = true) as X by (apply existsb_exists; exists k'; split; [exact I|apply String.eqb_refl]).
    congruence.
  Qed.

  Lemma purge_path_shape body p anns k p' :
    ann_patch p anns -> purge_path body p (ann_path k) = Ok p' -> ann_patch p' (purge_anns body anns k).
  Proof.
    intros A H. unfold purge_path, purge_anns, in_body in *. destruct (resolve body (ann_path k)) as [bv|].
    - destruct A; cbn in H; injection H as <-; constructor.
    - destruct A as [|anns].
      + cbn in H. injection H as <-. constructor.
      + assert (RP : resolve (pending anns) (ann_path k) = lookup k anns) by (cbn; destruct (lookup k anns); reflexivity).
        rewrite RP in H. destruct (lookup k anns) as [pv|] eqn:L.
        * cbn in H. destruct (del k anns) as [|x rest] eqn:D; cbn in H; injection H as <-; [constructor|].
          rewrite <- D. constructor.
        * injection H as <-. rewrite (del_absent k anns L). constructor.
  Qed.

  Lemma purge_keys_shape body ks : forall p anns p',
    ann_patch p anns -> purge_keys body p ks = Ok p' -> ann_patch p' (fold_left (purge_anns body) ks anns).
  Proof.
    induction ks as [|k ks IH]; intros p anns p' A H; cbn [purge_keys fold_left] in *; [injection H as <-; exact A|].
    destruct (purge_path body p (ann_path k)) as [p1| | |] eqn:E; try discriminate. cbn [bind] in H.
    apply (IH p1 _ p' (purge_path_shape body p anns k p1 A E) H).
  Qed.

  Lemma purge_anns_nodup body anns k : nodup_keys (map fst anns) = true -> nodup_keys (map fst (purge_anns body anns k)) = true.
  Proof. intro ND. unfold purge_anns. destruct (in_body body k); [apply nodup_keys_set|apply nodup_keys_del]; exact ND. Qed.

  Lemma fold_purge_nodup body ks : forall anns,
    nodup_keys (map fst anns) = true -> nodup_keys (map fst (fold_left (purge_anns body) ks anns)) = true.
  Proof. induction ks as [|k ks IH]; intros anns ND; cbn [fold_left]; [exact ND|]. apply IH. apply purge_anns_nodup. exact ND. Qed.

  Definition purged (body : json) (k : string) : option json := if in_body body k then Some JNull else None.

  Lemma lookup_purge_anns_same body anns k : lookup k (purge_anns body anns k) = purged body k.
  Proof. unfold purge_anns, purged. destruct (in_body body k); [apply lookup_set_same|apply lookup_del_same]. Qed.

  Lemma lookup_purge_anns_other body anns k k' : k <> k' -> lookup k (purge_anns body anns k') = lookup k anns.
  Proof. intro N. unfold purge_anns. destruct (in_body body k'); [apply lookup_set_other|apply lookup_del_other]; exact N. Qed.

  Lemma fold_purge_lookup body ks : forall anns k,
    lookup k (fold_left (purge_anns body) ks anns) = if in_dec string_dec k ks then purged body k else lookup k anns.
  Proof.
    induction ks as [|x ks IH]; intros anns k; cbn [fold_left]; [reflexivity|].
    rewrite IH. destruct (in_dec string_dec k ks) as [I|NI].
    - destruct (in_dec string_dec k (x :: ks)) as [_|N]; [reflexivity|exfalso; apply N; right; exact I].
    - destruct (string_dec x k) as [->|Nx].
      + destruct (in_dec string_dec k (k :: ks)) as [_|N]; [|exfalso; apply N; left; reflexivity]. apply lookup_purge_anns_same.
      + destruct (in_dec string_dec k (x :: ks)) as [[E|I]|_]; [congruence|contradiction|].
        apply lookup_purge_anns_other. congruence.
  Qed.

  (* what an RFC 7386 server makes of such a patch at an annotation *)
  Lemma resolve_cons_obj_of j k rest :
    resolve j (k :: rest) = match lookup k (obj_of j) with Some v => resolve v rest | None => None end.
  Proof. destruct j; reflexivity. Qed.

  Lemma resolve_merge_ann_patch body p anns k :
    ann_patch p anns -> nodup_keys (map fst anns) = true ->
    (lookup k anns = Some JNull \/ (lookup k anns = None /\ in_body body k = false)) ->
    resolve (merge body p) (ann_path k) = None.
  Proof.
    intros A ND C. destruct A as [|anns].
    - destruct C as [C|(_ & NB)]; [discriminate|]. rewrite merge_obj. cbn [merge_fields].
      unfold in_body in NB. unfold ann_path in *. rewrite resolve_cons_obj_of in NB. rewrite resolve_cons_obj_of. cbn [obj_of].
      destruct (lookup "metadata" (obj_of body)) as [m|]; [|reflexivity].
      destruct (resolve m ["annotations"; k]); [discriminate|reflexivity].
    - unfold pending, ann_path. rewrite merge_obj. cbn [merge_fields].
      rewrite resolve_cons_obj_of. cbn [obj_of]. rewrite lookup_set_same.
      rewrite merge_obj. cbn [merge_fields]. rewrite resolve_cons_obj_of. cbn [obj_of]. rewrite lookup_set_same.
      rewrite merge_obj. rewrite resolve_cons_obj_of. cbn [obj_of resolve].
      destruct C as [C|(C & NB)].
      + rewrite (lookup_merge_fields_present k JNull anns _ ND C). reflexivity.
      + rewrite (lookup_merge_fields_absent k anns _ C).
        unfold in_body, ann_path in NB. rewrite resolve_cons_obj_of in NB.
        destruct (lookup "metadata" (obj_of body)) as [m|]; [|reflexivity].
        rewrite resolve_cons_obj_of in NB.
        destruct (lookup "annotations" (obj_of m)) as [a|]; [|reflexivity].
        rewrite resolve_cons_obj_of in NB. cbn [resolve] in NB.
        destruct (lookup k (obj_of a)); [discriminate|reflexivity].
  Qed.

  Lemma ann_patch_ann_only p anns : ann_patch p anns -> ann_only p.
  Proof. intros [|a]; [left; reflexivity|right; eexists; reflexivity]. Qed.

  Theorem ann_purge_complete prefix v1 verbose tk key body p anns patch :
    ann_patch p anns -> nodup_keys (map fst anns) = true ->
    ppurge dg (PAnn prefix v1 verbose tk) key body p = Ok patch ->
    pfetch dg (PAnn prefix v1 verbose tk) key (merge body patch) = Ok None.
  Proof.
    intros A ND H. cbn [ppurge pfetch] in *.
    set (ks := full_keys dg prefix v1 body key) in *.
    pose proof (purge_keys_shape body ks p anns patch A H) as A'.
    pose proof (fold_purge_nodup body ks anns ND) as ND'.
    assert (Ek : full_keys dg prefix v1 (merge body patch) key = ks).
    { unfold ks, full_keys. rewrite (is_drs_merge body patch (ann_patch_ann_only _ _ A')). reflexivity. }
    rewrite Ek.
    assert (R : forall k, In k ks -> resolve (merge body patch) (ann_path k) = None).
    { intros k Ik. apply (resolve_merge_ann_patch body patch _ k A' ND').
      rewrite fold_purge_lookup. destruct (in_dec string_dec k ks) as [_|N]; [|contradiction].
      unfold purged. destruct (in_body body k) eqn:B; [left; reflexivity|right; split; reflexivity]. }
    clear - R. induction ks as [|k ks IH]; [reflexivity|]. cbn [fetch_keys].
    rewrite (R k (or_introl eq_refl)). cbn. apply IH. intros k' I. apply R. right. exact I.
  Qed.

  (* C16, "never disturbs other handlers' records ... or user data", for the purge: whatever is on the object and whatever
     is pending in the cycle's shared patch, purging one record (a) leaves what is pending for every annotation that is not
     one of this record's own keys exactly as it was - a record another handler stored earlier in the same cycle, a user's
     annotation - and (b) where nothing is pending for such an annotation, an RFC 7386 server leaves it as it is on the
     object; (c) every top-level field other than metadata reads as before. *)
  Lemma merge_empty_ann body k :
    resolve (merge body (JObj [])) (ann_path k)
    = match resolve body ["metadata"; "annotations"] with Some (JObj a) => lookup k a | _ => None end.
  Proof.
    rewrite merge_obj. unfold ann_path. cbn [merge_fields].
    destruct body as [| | | | |kvs|]; cbn [obj_of resolve lookup]; try reflexivity.
    destruct (lookup "metadata" kvs) as [m|]; cbn [resolve]; [|reflexivity].
    destruct m as [| | | | |mkv|]; cbn [resolve]; try reflexivity.
    destruct (lookup "annotations" mkv) as [a|]; cbn [resolve]; [|reflexivity].
    destruct a as [| | | | |av|]; cbn [resolve]; try reflexivity.
    destruct (lookup k av); reflexivity.
  Qed.

  Theorem ann_purge_isolated prefix v1 verbose tk key body p anns patch k' :
    ann_patch p anns ->
    ppurge dg (PAnn prefix v1 verbose tk) key body p = Ok patch ->
    ~ In k' (full_keys dg prefix v1 body key) ->
    (exists anns', ann_patch patch anns' /\ lookup k' anns' = lookup k' anns)
    /\ (lookup k' anns = None ->
        resolve (merge body patch) (ann_path k')
        = match resolve body ["metadata"; "annotations"] with Some (JObj a) => lookup k' a | _ => None end)
    /\ (forall f, f <> "metadata" -> lookup f (obj_of (merge body patch)) = lookup f (obj_of body)).
  Proof.
    intros A H NI. cbn [ppurge] in H.
    set (ks := full_keys dg prefix v1 body key) in *.
    pose proof (purge_keys_shape body ks p anns patch A H) as A'.
    assert (L : lookup k' (fold_left (purge_anns body) ks anns) = lookup k' anns).
    { rewrite fold_purge_lookup. destruct (in_dec string_dec k' ks) as [I|_]; [contradiction|reflexivity]. }
    split; [exists (fold_left (purge_anns body) ks anns); split; [exact A'|exact L]|].
    split.
    - intro Ln. rewrite Ln in L. remember (fold_left (purge_anns body) ks anns) as anns' eqn:Ea. clear Ea.
      destruct A' as [|a'].
      + apply merge_empty_ann.
      + unfold pending. apply merge_ann_only_other_ann. exact L.
    - intros f Nf. apply merge_ann_only_other_top; [exact (ann_patch_ann_only _ _ A')|exact Nf].
  Qed.
End Purge.

(* C16, "can be purged completely", status progress storage (fresh patch): whatever is on the object, after the purge the
   record is not readable from the object as patched by an RFC 7386 server.  Guard: where the storage's stanza exists on the
   object it is a mapping (the real fetch raises a TypeError on anything else, purge or no purge). *)
Section PurgeStatus.
  Variable dg : chars -> list N.

  Lemma resolve_app' j p r :
    resolve j (p ++ r) = match resolve j p with Some x => resolve x r | None => None end.
  Proof.
    revert j. induction p as [|k p IH]; intro j; cbn [app resolve]; [reflexivity|].
    destruct j; try reflexivity. destruct (lookup k kvs); [apply IH|reflexivity].
  Qed.

  Lemma ensure_null_is_obj field : forall key p, ensure (JObj []) (field ++ [key]) JNull = Ok p -> is_obj p = true /\ p <> JNull.
  Proof.
    intros key p H. destruct field as [|a rest].
    - cbn in H. injection H as <-. split; [reflexivity|discriminate].
    - cbn [app] in H. rewrite (ensure_cons_ne _ _ _ _ (app_one_ne rest key)) in H.
      destruct (ensure (match lookup a [] with Some s => s | None => JObj [] end) (rest ++ [key]) JNull) as [sub| | |]; try discriminate.
      cbn in H. injection H as <-. split; [reflexivity|discriminate].
  Qed.

  (* the tombstone patch for field.key, merged into any body: the stanza is there, a mapping, without the key *)
  Lemma merge_tombstone field : forall body key p,
    ensure (JObj []) (field ++ [key]) JNull = Ok p ->
    exists kvs, resolve (merge body p) field = Some (JObj kvs) /\ lookup key kvs = None.
  Proof.
    induction field as [|a rest IH]; intros body key p H.
    - cbn in H. injection H as <-. rewrite merge_obj. cbn [merge_fields resolve].
      eexists; split; [reflexivity|apply lookup_del_same].
    - cbn [app] in H. rewrite (ensure_cons_ne _ _ _ _ (app_one_ne rest key)) in H.
      cbn [lookup] in H.
      destruct (ensure (JObj []) (rest ++ [key]) JNull) as [sub| | |] eqn:E; try discriminate.
      cbn in H. injection H as <-.
      destruct (ensure_null_is_obj rest key sub E) as [Ob NN].
      rewrite merge_obj. cbn [merge_fields resolve].
      destruct sub; try discriminate. cbn [merge_fields]. rewrite lookup_set_same.
      apply (IH _ key _ E).
  Qed.

  Theorem status_purge_complete field tf nw key body patch :
    (forall v, resolve body field = Some v -> is_obj v = true) ->
    ppurge dg (PStatus field tf nw) key body (JObj []) = Ok patch ->
    pfetch dg (PStatus field tf nw) key (merge body patch) = Ok None.
  Proof.
    intros G H. cbn [ppurge pfetch] in *. unfold purge_path in H.
    destruct (resolve body (field ++ [key])) as [bv|] eqn:RB.
    - destruct (merge_tombstone field body key patch H) as (kvs & R & L). rewrite R, L. reflexivity.
    - rewrite (resolve_empty_obj _ (app_one_ne field key)) in H. injection H as <-.
      rewrite merge_obj. cbn [merge_fields].
      rewrite resolve_app' in RB.
      destruct body as [| | | | |bk|]; cbn [obj_of].
      all: try (destruct field as [|a rest]; cbn [resolve lookup]; reflexivity).
      destruct (resolve (JObj bk) field) as [v|] eqn:RF; [|reflexivity].
      pose proof (G v eq_refl) as O. destruct v; try discriminate.
      cbn [resolve] in RB. destruct (lookup key kvs); [discriminate|reflexivity].
  Qed.
End PurgeStatus.

(* C16, "read back identically", status progress storage (fresh patch): what is read back from the object as patched by an
   RFC 7386 server is exactly the server's merge of the stored record into the record the object had (none: JNull) - for
   every stanza path, id, record and body.  The record is read back IDENTICALLY iff that merge is the identity on it, which
   is why the framework always stores total records there (RFC 7386 merges mappings field by field and drops nulls). *)
Section StoreStatus.
  Variable dg : chars -> list N.

  Definition sub_or_null (o : option json) : json := match o with Some x => x | None => JNull end.

  Lemma ensure_obj_is_obj path : forall v p, path <> [] -> is_obj v = true -> ensure (JObj []) path v = Ok p -> exists o, p = JObj o.
  Proof.
    intros v p NE Ov H. destruct path as [|a rest]; [congruence|]. destruct rest as [|b rest].
    - cbn in H. injection H as <-. eexists; reflexivity.
    - rewrite ensure_cons in H. cbn [lookup] in H.
      destruct (ensure (JObj []) (b :: rest) v) as [sub| | |]; try discriminate. cbn in H. injection H as <-. eexists; reflexivity.
  Qed.

  Lemma merge_chain path : forall body rec p, path <> [] ->
    ensure (JObj []) path (JObj rec) = Ok p ->
    resolve (merge body p) path = Some (merge (sub_or_null (resolve body path)) (JObj rec)).
  Proof.
    induction path as [|a rest IH]; intros body rec p NE H; [congruence|].
    destruct rest as [|b rest].
    - cbn in H. injection H as <-. rewrite merge_obj. cbn [merge_fields resolve]. rewrite lookup_set_same.
      destruct body as [| | | | |bk|]; cbn [obj_of lookup resolve sub_or_null]; try reflexivity.
      destruct (lookup a bk); reflexivity.
    - rewrite ensure_cons in H. cbn [lookup] in H.
      destruct (ensure (JObj []) (b :: rest) (JObj rec)) as [sub| | |] eqn:E; try discriminate.
      cbn in H. injection H as <-.
      destruct (ensure_obj_is_obj (b :: rest) (JObj rec) sub ltac:(discriminate) eq_refl E) as (o & ->).
      rewrite merge_obj. cbn [merge_fields]. rewrite resolve_cons_obj_of. cbn [obj_of]. rewrite lookup_set_same.
      rewrite (IH _ rec _ ltac:(discriminate) E). f_equal. f_equal.
      rewrite (resolve_cons_obj_of body a (b :: rest)).
      destruct body as [| | | | |bk|]; cbn [obj_of lookup resolve sub_or_null]; try reflexivity.
      destruct (lookup a bk); reflexivity.
  Qed.

  Theorem status_store_reads_merge field tf key record body patch :
    pstore dg (PStatus field tf false) key record body (JObj []) = Ok patch ->
    pfetch dg (PStatus field tf false) key (merge body patch)
    = Ok (Some (merge (sub_or_null (resolve body (field ++ [key]))) (JObj record))).
  Proof.
    intro H. cbn [pstore pfetch] in *.
    pose proof (merge_chain (field ++ [key]) body record patch (app_one_ne field key) H) as R.
    rewrite resolve_app' in R.
    destruct (resolve (merge body patch) field) as [x|]; [|discriminate].
    destruct x as [| | | | |kvs|]; try discriminate. cbn [resolve] in R.
    destruct (lookup key kvs) as [m|]; [|discriminate]. injection R as ->.
    rewrite merge_obj. reflexivity.
  Qed.

  (* first store of a record without nulls and without nested mappings (what HandlerState.for_storage() yields, nulls
     purged): read back identically *)
  Lemma merge_fields_flat rec : forall t,
    (forall k v, In (k, v) rec -> is_obj v = false /\ v <> JNull) ->
    merge_fields rec t = fold_left (fun t kv => set (fst kv) (snd kv) t) rec t.
  Proof.
    induction rec as [|[k v] rec IH]; intros t F; [reflexivity|].
    destruct (F k v (or_introl eq_refl)) as [NO NN].
    cbn [fold_left fst snd]. rewrite <- IH by (intros k' v' I; apply (F k' v'); right; exact I).
    destruct v; try congruence; try discriminate; cbn [merge_fields]; rewrite merge_non_obj by reflexivity; reflexivity.
  Qed.

  Theorem status_first_store_roundtrip field tf key record body patch :
    resolve body (field ++ [key]) = None ->
    (forall k v, In (k, v) record -> is_obj v = false /\ v <> JNull) ->
    pstore dg (PStatus field tf false) key record body (JObj []) = Ok patch ->
    pfetch dg (PStatus field tf false) key (merge body patch)
    = Ok (Some (JObj (fold_left (fun t kv => set (fst kv) (snd kv) t) record []))).
  Proof.
    intros N F H. rewrite (status_store_reads_merge field tf key record body patch H), N.
    cbn [sub_or_null]. rewrite merge_obj. cbn [obj_of]. rewrite (merge_fields_flat record [] F). reflexivity.
  Qed.
End StoreStatus.

(* C16, "can be purged completely", the DEFAULT progress storage (SmartProgressStorage: annotations, then a read-only status
   stanza under status.xxx): after the purge neither of the two storages yields the record from the object as patched by an
   RFC 7386 server - the annotation keys are tombstoned or withdrawn, the status record is tombstoned where the object has it. *)
Section PurgeSmart.
  Variable dg : chars -> list N.

  Lemma drs_cong k1 k2 :
    lookup "kind" k1 = lookup "kind" k2 -> lookup "metadata" k1 = lookup "metadata" k2 ->
    is_drs_body (JObj k1) = is_drs_body (JObj k2).
  Proof. intros A B. unfold is_drs_body. cbn [resolve]. rewrite A, B. reflexivity. Qed.

  Lemma ann_resolve_cong k1 k2 k :
    lookup "metadata" k1 = lookup "metadata" k2 -> resolve (JObj k1) (ann_path k) = resolve (JObj k2) (ann_path k).
  Proof. intro B. unfold ann_path. rewrite !resolve_cons_obj_of. cbn [obj_of]. rewrite B. reflexivity. Qed.

  Lemma fetch_keys_cong k1 k2 ks :
    lookup "metadata" k1 = lookup "metadata" k2 -> fetch_keys (JObj k1) ks = fetch_keys (JObj k2) ks.
  Proof.
    intro B. induction ks as [|a ks IH]; cbn [fetch_keys]; [reflexivity|].
    rewrite (ann_resolve_cong k1 k2 a B). destruct (loads_opt (resolve (JObj k2) (ann_path a))) as [o| | |]; cbn [bind]; try reflexivity.
    destruct o; [reflexivity|exact IH].
  Qed.

  Lemma pfetch_ann_cong prefix v1 verbose tk key k1 k2 :
    lookup "kind" k1 = lookup "kind" k2 -> lookup "metadata" k1 = lookup "metadata" k2 ->
    pfetch dg (PAnn prefix v1 verbose tk) key (JObj k1) = pfetch dg (PAnn prefix v1 verbose tk) key (JObj k2).
  Proof.
    intros A B. cbn [pfetch]. unfold full_keys. rewrite (drs_cong k1 k2 A B). apply fetch_keys_cong. exact B.
  Qed.

  Lemma set_absent_app {V} k (v : V) (l : list (string * V)) : lookup k l = None -> set k v l = l ++ [(k, v)].
  Proof.
    induction l as [|[k' v'] l IH]; cbn; [reflexivity|]. destruct (String.eqb k k'); [discriminate|]. intro H. rewrite (IH H). reflexivity.
  Qed.

  Lemma merge_fields_app a : forall b t, merge_fields (a ++ b) t = merge_fields b (merge_fields a t).
  Proof.
    induction a as [|[k v] a IH]; intros b t; [reflexivity|]. cbn [app]. destruct v; cbn [merge_fields]; apply IH.
  Qed.

  Lemma pfetch_two A S key b :
    pfetch dg (PMulti [A; S]) key b
    = bind (pfetch dg A key b) (fun r => match r with
        | Some x => Ok (Some x)
        | None => bind (pfetch dg S key b) (fun r => match r with Some x => Ok (Some x) | None => Ok None end)
        end).
  Proof. reflexivity. Qed.

  Theorem smart_purge_complete prefix v1 verbose tk frest tf key body patch :
    (forall v, resolve body ("status" :: frest) = Some v -> is_obj v = true) ->
    ppurge dg (smart prefix v1 verbose tk ("status" :: frest) tf) key body (JObj []) = Ok patch ->
    pfetch dg (smart prefix v1 verbose tk ("status" :: frest) tf) key (merge body patch) = Ok None.
  Proof.
    intros G H. unfold smart in *. cbn [ppurge] in H.
    set (ks := full_keys dg prefix v1 body key) in *.
    destruct (purge_keys body (JObj []) ks) as [p1| | |] eqn:E; try discriminate. cbn [bind] in H.
    pose proof (purge_keys_shape body ks (JObj []) [] p1 ap_empty E) as A1.
    pose proof (fold_purge_nodup body ks [] eq_refl) as ND1.
    assert (F1 : pfetch dg (PAnn prefix v1 verbose tk) key (merge body p1) = Ok None).
    { apply (ann_purge_complete dg prefix v1 verbose tk key body (JObj []) [] p1 ap_empty eq_refl). cbn [ppurge]. exact E. }
    remember (fold_left (purge_anns body) ks []) as anns1 eqn:Ea. clear Ea.
    assert (P1 : exists pk1, p1 = JObj pk1 /\ lookup "status" pk1 = None).
    { destruct A1; eexists; split; reflexivity. }
    destruct P1 as (pk1 & -> & LS).
    unfold purge_path in H.
    destruct (resolve body (("status" :: frest) ++ [key])) as [bv|] eqn:RB.
    - (* the object has the status record: tombstone *)
      cbn [app] in H. rewrite (ensure_cons_ne _ _ _ _ (app_one_ne frest key)) in H. rewrite LS in H.
      destruct (ensure (JObj []) (frest ++ [key]) JNull) as [sub| | |] eqn:ES; try discriminate.
      cbn [bind] in H. injection H as <-.
      destruct (ensure_null_is_obj frest key sub ES) as [Ob NN]. destruct sub as [| | | | |so|]; try discriminate.
      rewrite merge_obj, (set_absent_app _ _ _ LS), merge_fields_app. cbn [merge_fields].
      rewrite merge_obj in F1. set (t1 := merge_fields pk1 (obj_of body)) in *.
      rewrite pfetch_two.
      rewrite (pfetch_ann_cong prefix v1 verbose tk key _ t1
                 (lookup_set_other "kind" "status" _ _ ltac:(discriminate)) (lookup_set_other "metadata" "status" _ _ ltac:(discriminate))).
      rewrite F1. cbn [bind pfetch].
      rewrite resolve_cons_obj_of. cbn [obj_of]. rewrite lookup_set_same.
      destruct (merge_tombstone frest (match lookup "status" t1 with Some tv => tv | None => JNull end) key (JObj so) ES) as (kvs & R & L).
      rewrite R, L. reflexivity.
    - (* no status record on the object: nothing pending for it either *)
      assert (RP : resolve (JObj pk1) (("status" :: frest) ++ [key]) = None) by (cbn [app resolve]; rewrite LS; reflexivity).
      rewrite RP in H. injection H as <-.
      rewrite pfetch_two, F1. cbn [bind pfetch].
      pose proof (merge_ann_only_other_top body (JObj pk1) "status" (ann_patch_ann_only _ _ A1) ltac:(discriminate)) as LT.
      rewrite resolve_cons_obj_of, LT.
      rewrite resolve_app', resolve_cons_obj_of in RB. rewrite resolve_cons_obj_of in G.
      destruct (lookup "status" (obj_of body)) as [sv|]; [|reflexivity].
      destruct (resolve sv frest) as [v|] eqn:RF; [|reflexivity].
      pose proof (G v eq_refl) as O. destruct v; try discriminate.
      cbn [resolve] in RB. destruct (lookup key kvs); [discriminate|reflexivity].
  Qed.
End PurgeSmart.
