(* Second invariant of the network (Model/PeerNet.v): unique record keys, the keep-alive schedule, and what
   follows: a running operator's own record is never expired; the only way an exited operator's record
   comes back; what a clean leaves behind.  For ALL label sequences. *)
From Coq Require Import ZArith List String Bool Lia.
From KV Require Import Base.Json Model.Peering Model.PeerNet Proofs.Peering Proofs.PeerNet.
Import ListNotations.
Open Scope string_scope.
Open Scope Z_scope.
Open Scope list_scope.

(* ---------- assoc lists ---------- *)
Section Assoc.
  Context {V : Type}.
  Implicit Types (l : list (string * V)).

  Lemma in_set_other : forall k i (x r : V) l, In (k, r) (set i x l) -> k <> i -> In (k, r) l.
  Proof.
    induction l as [|[k' v'] l IH]; simpl; intros H N.
    - destruct H as [H | []]. injection H as -> _. congruence.
    - destruct (String.eqb i k') eqn:E.
      + apply String.eqb_eq in E; subst k'. destruct H as [H | H]; [injection H as -> _; congruence | now right].
      + destruct H as [H | H]; [now left | right; auto].
  Qed.

  Lemma set_keys : forall i (x : V) l k, In k (map fst (set i x l)) <-> k = i \/ In k (map fst l).
  Proof.
    induction l as [|[k' v'] l IH]; simpl; intros k.
    - intuition.
    - destruct (String.eqb i k') eqn:E; simpl.
      + apply String.eqb_eq in E; subst k'. intuition.
      + rewrite IH. intuition.
  Qed.

  Lemma nodup_set : forall i (x : V) l, NoDup (map fst l) -> NoDup (map fst (set i x l)).
  Proof.
    induction l as [|[k' v'] l IH]; simpl; intros H.
    - constructor; [intros [] | constructor].
    - inversion H as [|? ? Hn Hl]; subst. destruct (String.eqb i k') eqn:E; simpl.
      + apply String.eqb_eq in E; subst k'. constructor; auto.
      + constructor; [|auto]. intros X. apply set_keys in X as [-> | X]; [|auto].
        rewrite String.eqb_refl in E. discriminate.
  Qed.

  Lemma in_set_same : forall i (x r : V) l, NoDup (map fst l) -> In (i, r) (set i x l) -> r = x.
  Proof.
    induction l as [|[k' v'] l IH]; simpl; intros ND H.
    - destruct H as [H | []]. now injection H as <-.
    - inversion ND as [|? ? Hn Hl]; subst. destruct (String.eqb i k') eqn:E.
      + apply String.eqb_eq in E; subst k'. destruct H as [H | H]; [now injection H as <-|].
        exfalso. apply Hn. change i with (fst (i, r)). now apply in_map.
      + destruct H as [H | H]; [|auto]. injection H as -> _. rewrite String.eqb_refl in E. discriminate.
  Qed.

  Lemma del_keys : forall i l k, In k (map fst (del i l)) -> In k (map fst l) /\ k <> i.
  Proof.
    induction l as [|[k' v'] l IH]; simpl; intros k H; [tauto|].
    destruct (String.eqb i k') eqn:E.
    - apply IH in H. tauto.
    - destruct H as [E0 | H]; [|apply IH in H; tauto]. simpl in E0. subst k. split; [now left|].
      intros ->. rewrite String.eqb_refl in E. discriminate.
  Qed.

  Lemma nodup_del : forall i l, NoDup (map fst l) -> NoDup (map fst (del i l)).
  Proof.
    induction l as [|[k' v'] l IH]; simpl; intros H; [constructor|].
    inversion H as [|? ? Hn Hl]; subst. destruct (String.eqb i k'); [auto|]. simpl.
    constructor; [|auto]. intros X. apply del_keys in X. tauto.
  Qed.
End Assoc.

Lemma nodup_dels : forall ids (st : astatus), NoDup (map fst st) -> NoDup (map fst (dels ids st)).
Proof. induction ids as [|k ids IH]; simpl; intros st H; [assumption|]. apply IH. now apply nodup_del. Qed.

Lemma in_dels_sub : forall ids (st : astatus) kv, In kv (dels ids st) -> In kv st.
Proof. intros ids st [k r] H. now apply in_dels in H. Qed.

Lemma nodup_touched : forall i o lt now st, NoDup (map fst st) -> NoDup (map fst (touched i o lt now st)).
Proof.
  intros i o lt now st H. unfold touched. destruct (touch_record _ _ _) as [[[p l] t]|]; [now apply nodup_set | now apply nodup_del].
Qed.

Lemma in_touched_other : forall i o lt now st k r, In (k, r) (touched i o lt now st) -> k <> i -> In (k, r) st.
Proof.
  intros i o lt now st k r H N. unfold touched in H. destruct (touch_record _ _ _) as [[[p l] t]|].
  - eapply in_set_other; eauto.
  - eapply in_del; eauto.
Qed.

(* ---------- push / commit keep what the schedule needs ---------- *)
Lemma push_fields : forall v st f k,
  op_phase (push v st f k) = op_phase (f k) /\ op_prio (push v st f k) = op_prio (f k) /\ op_life (push v st f k) = op_life (f k).
Proof. intros. unfold push. destruct (is_up (f k) && op_listed (f k)); simpl; auto. Qed.

Lemma push_up : forall v st f k, is_up (push v st f k) = is_up (f k).
Proof. intros. unfold is_up. destruct (push_fields v st f k) as (-> & _). reflexivity. Qed.
Lemma push_alive : forall v st f k, is_alive (push v st f k) = is_alive (f k).
Proof. intros. unfold is_alive. destruct (push_fields v st f k) as (-> & _). reflexivity. Qed.
Lemma push_life : forall v st f k, op_life (push v st f k) = op_life (f k).
Proof. intros. now destruct (push_fields v st f k) as (_ & _ & ->). Qed.
Lemma push_prio : forall v st f k, op_prio (push v st f k) = op_prio (f k).
Proof. intros. now destruct (push_fields v st f k) as (_ & -> & _). Qed.

Lemma updk_same : forall f i v, updk f i v i = v.
Proof. intros; unfold updk. now rewrite String.eqb_refl. Qed.
Lemma updk_other : forall f i v k, k <> i -> updk f i v k = f k.
Proof. intros f i v k H; unfold updk. apply String.eqb_neq in H. now rewrite H. Qed.

Lemma up_alive : forall o, is_up o = true -> is_alive o = true.
Proof. intros o; unfold is_up, is_alive; destruct (op_phase o); congruence. Qed.

(* ---------- the invariant ---------- *)
(* every record under the identity of a running operator is its own latest touch, and outlives the
   next keep-alive *)
Definition fresh (i : string) (o : opst) (due : Z) (st : astatus) : Prop :=
  forall r, In (i, r) st ->
    exists t, r_seen r = Some t /\ r_life r = op_life o /\ r_prio r = op_prio o /\ due < t + op_life o * 1000.

Definition ka_ok (s : net) : Prop :=
  forall i due, is_up (n_ops s i) = true -> n_ka s i = Some due ->
    n_now s <= due /\
    (2 <= op_life (n_ops s i) ->
       due < n_now s + op_life (n_ops s i) * 1000 /\ fresh i (n_ops s i) due (n_status s)).

Definition Inv2 (s : net) : Prop :=
  NoDup (map fst (n_status s)) /\
  (forall i, is_alive (n_ops s i) = true -> In i (n_ids s)) /\
  ka_ok s.

Lemma Inv2_0 : forall t0, Inv2 (net0 t0).
Proof.
  intros t0. split; [constructor | split].
  - intros i H. discriminate.
  - intros i due U. discriminate.
Qed.

(* nothing about the schedule changes for operators whose state and records are carried over *)
Lemma ka_transfer : forall s s', n_now s' = n_now s ->
  (forall k due, is_up (n_ops s' k) = true -> n_ka s' k = Some due ->
     is_up (n_ops s k) = true /\ n_ka s k = Some due /\
     op_life (n_ops s' k) = op_life (n_ops s k) /\ op_prio (n_ops s' k) = op_prio (n_ops s k) /\
     forall r, In (k, r) (n_status s') -> In (k, r) (n_status s)) ->
  ka_ok s -> ka_ok s'.
Proof.
  intros s s' Hn H K i due U E. destruct (H i due U E) as (U0 & E0 & HL & HP & HS).
  destruct (K i due U0 E0) as [K1 K2]. rewrite Hn, HL. split; [assumption|].
  intros L2. destruct (K2 L2) as [K3 K4]. split; [assumption|].
  intros r Hr. destruct (K4 r (HS r Hr)) as (t & ? & ? & ? & ?). exists t. rewrite HL, HP. auto.
Qed.

Lemma mem_str_true_In : forall k l, mem_str k l = true -> In k l.
Proof. intros k l H. unfold mem_str in H. apply existsb_exists in H as (x & Hin & E). apply String.eqb_eq in E. now subst. Qed.

Ltac prj := unfold commit, with_ka in *;
  cbn [n_ops n_ids n_status n_now n_ka n_ver op_phase op_prio op_life op_listed op_toggle op_wake op_inbox] in *.

Lemma step_inv2 : forall s l s', Inv2 s -> step s l = Some s' -> Inv2 s'.
Proof.
  intros s l s' (ND & IDS & K) H. destruct l; simpl in H.
  - (* Tick *)
    destruct ((n_now s <? t) && tick_ok s t) eqn:E; [|discriminate]. injection H as <-.
    apply andb_prop in E as [E1 E2]. apply Z.ltb_lt in E1. split; [exact ND | split; [exact IDS|]].
    intros i due U EK. prj. destruct (K i due U EK) as [K1 K2].
    unfold tick_ok in E2. rewrite forallb_forall in E2. specialize (E2 i (IDS i (up_alive _ U))). simpl in E2.
    apply andb_prop in E2 as [_ E2]. rewrite U, EK in E2. apply Z.leb_le in E2. split; [assumption|].
    intros L2. destruct (K2 L2) as [K3 K4]. split; [lia | exact K4].
  - (* Start *)
    destruct (is_alive (n_ops s i)) eqn:A; [discriminate|]. injection H as <-. prj. split; [exact ND | split].
    + intros k Hk. prj. destruct (String.eqb k i) eqn:E.
      * apply String.eqb_eq in E; subst k. destruct (mem_str i (n_ids s)) eqn:M; [now apply mem_str_true_In | now left].
      * apply String.eqb_neq in E. rewrite upd_other in Hk by exact E. specialize (IDS k Hk).
        destruct (mem_str i (n_ids s)); [assumption | now right].
    + intros k due U EK. prj. destruct (String.eqb k i) eqn:E.
      * apply String.eqb_eq in E; subst k. rewrite updk_same in EK. discriminate.
      * apply String.eqb_neq in E. rewrite upd_other in * by exact E. rewrite updk_other in EK by exact E. exact (K k due U EK).
  - (* List *)
    destruct (is_up (n_ops s i) && negb (op_listed (n_ops s i))) eqn:C; [|discriminate]. injection H as <-.
    apply andb_prop in C as [U0 _]. prj. split; [exact ND | split].
    + intros k Hk. prj. destruct (String.eqb k i) eqn:E.
      * apply String.eqb_eq in E; subst k. apply IDS. now apply up_alive.
      * apply String.eqb_neq in E. rewrite upd_other in Hk by exact E. auto.
    + apply (ka_transfer s); [reflexivity | | exact K]. intros k due U EK. prj.
      destruct (String.eqb k i) eqn:E.
      * apply String.eqb_eq in E; subst k. rewrite upd_same in *. prj. auto 6.
      * apply String.eqb_neq in E. rewrite upd_other in * by exact E. auto 6.
  - (* Keepalive *)
    destruct (is_up (n_ops s i) && (5 <=? jitter) && (jitter <=? 10) &&
              match n_ka s i with Some due => due <=? n_now s | None => true end) eqn:C; [|discriminate].
    injection H as <-. apply andb_prop in C as [C _]. apply andb_prop in C as [C J2]. apply andb_prop in C as [U0 J1].
    apply Z.leb_le in J1, J2. prj. split; [now apply nodup_touched | split].
    + intros k Hk. prj. rewrite push_alive in Hk. auto.
    + intros k due U EK. prj. rewrite push_up in U. unfold fresh in *. rewrite ?push_life, ?push_prio.
      destruct (String.eqb k i) eqn:E.
      * apply String.eqb_eq in E; subst k. rewrite updk_same in EK. injection EK as <-.
        pose proof (ka_period_pos (op_life (n_ops s i)) jitter). split; [lia|].
        intros L2. pose proof (ka_before_expiry (op_life (n_ops s i)) jitter L2 (conj J1 J2)).
        split; [lia|]. intros r Hr. unfold touched in Hr.
        rewrite touch_live in Hr by (simpl; lia). simpl in Hr.
        apply in_set_same in Hr; [|exact ND]. subst r. prj. exists (n_now s). repeat split; auto. lia.
      * apply String.eqb_neq in E. rewrite updk_other in EK by exact E.
        destruct (K k due U EK) as [K1 K2]. split; [assumption|]. intros L2. destruct (K2 L2) as [K3 K4].
        split; [assumption|]. intros r Hr. apply K4. eapply in_touched_other; eauto.
  - (* Observe *)
    destruct (negb (is_alive (n_ops s i) && op_listed (n_ops s i))) eqn:EA; [discriminate|].
    destruct (op_inbox (n_ops s i)) as [|[v snap] rest] eqn:EI; [discriminate|].
    destruct (negb (Nat.eqb v ver)); [discriminate|].
    destruct (decide_peers _ _ _) as [out|] eqn:ED; [|discriminate].
    destruct (negb _) eqn:EC in H; [discriminate|].
    apply negb_false_iff in EA. apply andb_prop in EA as [A0 _].
    assert (HK : forall (ops' : string -> opst) st',
               (forall k, is_alive (ops' k) = is_alive (n_ops s k) /\ op_phase (ops' k) = op_phase (n_ops s k) /\
                          op_life (ops' k) = op_life (n_ops s k) /\ op_prio (ops' k) = op_prio (n_ops s k)) ->
               (forall kv, In kv st' -> In kv (n_status s)) -> NoDup (map fst st') ->
               forall ver', Inv2 (mkNet (n_now s) ver' st' (n_ids s) ops' (n_ka s))).
    { intros ops' st' HO HS ND' ver'. split; [exact ND' | split].
      - intros k Hk. prj. simpl in Hk. destruct (HO k) as (-> & _) in Hk. auto.
      - apply (ka_transfer s); [reflexivity | | exact K]. intros k due U EK. prj.
        destruct (HO k) as (_ & HP & HL & HR). unfold is_up in *. rewrite HP in U. auto 6. }
    assert (HO : forall tg w rest', forall k,
               let ops' := upd (n_ops s) i (mkOp (op_phase (n_ops s i)) (op_prio (n_ops s i)) (op_life (n_ops s i)) true tg w rest') in
               is_alive (ops' k) = is_alive (n_ops s k) /\ op_phase (ops' k) = op_phase (n_ops s k) /\
               op_life (ops' k) = op_life (n_ops s k) /\ op_prio (ops' k) = op_prio (n_ops s k)).
    { intros tg w rest' k ops'. subst ops'. destruct (String.eqb k i) eqn:E.
      - apply String.eqb_eq in E; subst k. rewrite upd_same. unfold is_alive. prj. auto.
      - apply String.eqb_neq in E. rewrite upd_other by exact E. auto. }
    destruct cleaned as [|c cl]; injection H as <-.
    + apply HK; auto.
    + unfold commit. apply HK.
      * intros k. destruct (HO toggle (o_wake out) rest k) as (H1 & H2 & H3 & H4).
        match goal with |- context [push ?v ?st ?f k] =>
          destruct (push_fields v st f k) as (P1 & P2 & P3); rewrite (push_alive v st f k) end.
        rewrite P1, P2, P3. auto.
      * intros [k r] Hkv. apply in_dels_sub in Hkv. eapply in_del; eauto.
      * apply nodup_dels. now apply nodup_del.
  - (* Wake *)
    destruct (negb (is_alive (n_ops s i))) eqn:A; [discriminate|]. apply negb_false_iff in A.
    destruct (op_wake (n_ops s i)) as [w|]; [|discriminate].
    destruct (w <=? n_now s); [|discriminate]. injection H as <-. prj. split; [now apply nodup_touched | split].
    + intros k Hk. prj. rewrite push_alive in Hk. destruct (String.eqb k i) eqn:E.
      * apply String.eqb_eq in E; subst k. auto.
      * apply String.eqb_neq in E. rewrite upd_other in Hk by exact E. auto.
    + intros k due U EK. prj. rewrite push_up in U. unfold fresh in *. rewrite ?push_life, ?push_prio.
      destruct (String.eqb k i) eqn:E.
      * apply String.eqb_eq in E; subst k. rewrite upd_same in *. prj.
        assert (U0 : is_up (n_ops s i) = true) by (unfold is_up in *; exact U).
        destruct (K i due U0 EK) as [K1 K2]. split; [assumption|]. intros L2. destruct (K2 L2) as [K3 K4].
        split; [assumption|]. intros r Hr. unfold touched in Hr. rewrite touch_live in Hr by (simpl; lia). simpl in Hr.
        apply in_set_same in Hr; [|exact ND]. subst r. prj. exists (n_now s). repeat split; auto.
      * apply String.eqb_neq in E. rewrite upd_other in * by exact E.
        destruct (K k due U EK) as [K1 K2]. split; [assumption|]. intros L2. destruct (K2 L2) as [K3 K4].
        split; [assumption|]. intros r Hr. apply K4. eapply in_touched_other; eauto.
  - (* Exit *)
    destruct (is_up (n_ops s i)) eqn:U0; [|discriminate]. injection H as <-. prj. split; [now apply nodup_touched | split].
    + intros k Hk. prj. rewrite push_alive in Hk. destruct (String.eqb k i) eqn:E.
      * apply String.eqb_eq in E; subst k. apply IDS. now apply up_alive.
      * apply String.eqb_neq in E. rewrite upd_other in Hk by exact E. auto.
    + intros k due U EK. prj. rewrite push_up in U. unfold fresh in *. rewrite ?push_life, ?push_prio.
      destruct (String.eqb k i) eqn:E.
      * apply String.eqb_eq in E; subst k. rewrite upd_same in U. discriminate.
      * apply String.eqb_neq in E. rewrite upd_other in * by exact E. rewrite updk_other in EK by exact E.
        destruct (K k due U EK) as [K1 K2]. split; [assumption|]. intros L2. destruct (K2 L2) as [K3 K4].
        split; [assumption|]. intros r Hr. apply K4. eapply in_touched_other; eauto.
  - (* Gone *)
    destruct (op_phase (n_ops s i)) eqn:EP; try discriminate. injection H as <-. prj. split; [exact ND | split].
    + intros k Hk. prj. destruct (String.eqb k i) eqn:E.
      * apply String.eqb_eq in E; subst k. rewrite upd_same in Hk. discriminate.
      * apply String.eqb_neq in E. rewrite upd_other in Hk by exact E. auto.
    + apply (ka_transfer s); [reflexivity | | exact K]. intros k due U EK. prj.
      destruct (String.eqb k i) eqn:E.
      * apply String.eqb_eq in E; subst k. rewrite upd_same in U. discriminate.
      * apply String.eqb_neq in E. rewrite upd_other in * by exact E. auto 6.
  - (* Kill *)
    destruct (is_alive (n_ops s i)); [|discriminate]. injection H as <-. prj. split; [exact ND | split].
    + intros k Hk. prj. destruct (String.eqb k i) eqn:E.
      * apply String.eqb_eq in E; subst k. rewrite upd_same in Hk. discriminate.
      * apply String.eqb_neq in E. rewrite upd_other in Hk by exact E. auto.
    + apply (ka_transfer s); [reflexivity | | ].
      * intros k due U EK. prj. destruct (String.eqb k i) eqn:E.
        -- apply String.eqb_eq in E; subst k. rewrite upd_same in U. discriminate.
        -- apply String.eqb_neq in E. rewrite upd_other in * by exact E. rewrite updk_other in EK by exact E. auto 6.
      * exact K.
  - (* Foreign *)
    destruct (is_alive (n_ops s j)) eqn:A; [discriminate|]. injection H as <-. prj. split; [|split].
    + destruct r; [now apply nodup_set | now apply nodup_del].
    + intros k Hk. prj. rewrite push_alive in Hk. auto.
    + intros k due U EK. prj. rewrite push_up in U. unfold fresh in *. rewrite ?push_life, ?push_prio.
      assert (N : k <> j) by (intros ->; apply up_alive in U; congruence).
      destruct (K k due U EK) as [K1 K2]. split; [assumption|]. intros L2. destruct (K2 L2) as [K3 K4].
      split; [assumption|]. intros r0 Hr. apply K4. destruct r; [eapply in_set_other; eauto | eapply in_del; eauto].
  - (* Check *)
    destruct (astatus_eqb st (n_status s) && astatus_eqb (n_status s) st); [|discriminate]. injection H as <-.
    split; [exact ND | split; [exact IDS | exact K]].
Qed.

Lemma run_inv2 : forall tr s s', Inv2 s -> run s tr = Some s' -> Inv2 s'.
Proof.
  induction tr as [|l tr IH]; simpl; intros s s' I H.
  - now injection H as <-.
  - destruct (step s l) as [s1|] eqn:E; [|discriminate]. eapply IH; [eapply step_inv2; eauto | exact H].
Qed.

Theorem reachable_inv2 : forall t0 tr s, run (net0 t0) tr = Some s -> Inv2 s.
Proof. intros t0 tr s H. eapply run_inv2; [apply Inv2_0 | exact H]. Qed.

(* ---------- a running operator renews its record before it expires ---------- *)
(* for every schedule: once it has touched for the first time, whatever record stands under the identity of
   a running operator (lifetime >= 2) is its own, carries its priority, and is NOT expired; and the next
   keep-alive is due before that record's deadline *)
Theorem own_record_never_expired : forall t0 tr s i due, run (net0 t0) tr = Some s ->
  is_up (n_ops s i) = true -> n_ka s i = Some due -> 2 <= op_life (n_ops s i) ->
  forall r, In (i, r) (n_status s) ->
    n_now s < dl_at (n_now s) r /\ due < dl_at (n_now s) r /\ r_prio r = op_prio (n_ops s i) /\ r_life r = op_life (n_ops s i).
Proof.
  intros t0 tr s i due R U EK L2 r Hr. destruct (reachable_inv2 _ _ _ R) as (_ & _ & K).
  destruct (K i due U EK) as [K1 K2]. destruct (K2 L2) as [K3 K4]. destruct (K4 r Hr) as (t & Hs & Hl & Hp & Hd).
  unfold dl_at. rewrite Hs, Hl. repeat split; auto; lia.
Qed.

(* the record of a running operator is unique *)
Theorem records_unique : forall t0 tr s, run (net0 t0) tr = Some s -> NoDup (map fst (n_status s)).
Proof. intros t0 tr s R. now destruct (reachable_inv2 _ _ _ R). Qed.

(* time cannot pass a due keep-alive of a running operator, nor its very first touch *)
Theorem keepalive_is_urgent : forall t0 tr s i t s', run (net0 t0) tr = Some s -> is_up (n_ops s i) = true ->
  step s (LTick t) = Some s' -> exists due, n_ka s i = Some due /\ t <= due.
Proof.
  intros t0 tr s i t s' R U H. destruct (reachable_inv2 _ _ _ R) as (_ & IDS & _). simpl in H.
  destruct ((n_now s <? t) && tick_ok s t) eqn:E; [|discriminate]. apply andb_prop in E as [_ E].
  unfold tick_ok in E. rewrite forallb_forall in E. specialize (E i (IDS i (up_alive _ U))). simpl in E.
  apply andb_prop in E as [_ E]. rewrite U in E. destruct (n_ka s i) as [due|]; [|discriminate].
  exists due. split; auto. now apply Z.leb_le.
Qed.

(* ---------- the only way back for a withdrawn record ---------- *)
(* while an operator is exiting, no step other than its own wake-up touch brings a record under its
   identity back (F1302 is exactly that step) *)
Theorem exiting_record_only_by_wake : forall s l s' i, step s l = Some s' ->
  op_phase (n_ops s i) = Exiting -> l <> LWake i ->
  (forall r, ~ In (i, r) (n_status s)) -> (forall r, ~ In (i, r) (n_status s')).
Proof.
  intros s l s' i H P NL N r Hr.
  assert (A : is_alive (n_ops s i) = true) by (unfold is_alive; now rewrite P).
  assert (NU : is_up (n_ops s i) = false) by (unfold is_up; now rewrite P).
  destruct l; simpl in H.
  - destruct (_ && _); [|discriminate]. injection H as <-. exact (N r Hr).
  - destruct (is_alive (n_ops s i0)); [discriminate|]. injection H as <-. exact (N r Hr).
  - destruct (_ && _); [|discriminate]. injection H as <-. exact (N r Hr).
  - destruct (is_up (n_ops s i0) && (5 <=? jitter) && (jitter <=? 10) && _) eqn:C; [|discriminate]. injection H as <-.
    apply andb_prop in C as [C _]. apply andb_prop in C as [C _]. apply andb_prop in C as [U0 _].
    simpl in Hr. apply (N r). eapply in_touched_other; eauto. intros ->. congruence.
  - destruct (negb _); [discriminate|].
    destruct (op_inbox (n_ops s i0)) as [|[v snap] rest]; [discriminate|].
    destruct (negb _); [discriminate|]. destruct (decide_peers _ _ _); [|discriminate].
    destruct (negb _); [discriminate|]. destruct cleaned; injection H as <-.
    + exact (N r Hr).
    + unfold commit in Hr. cbn [n_status] in Hr. apply in_dels_sub in Hr. apply in_del in Hr. exact (N r Hr).
  - destruct (negb (is_alive (n_ops s i0))); [discriminate|]. destruct (op_wake (n_ops s i0)); [|discriminate].
    destruct (_ <=? _); [|discriminate]. injection H as <-. simpl in Hr.
    apply (N r). eapply in_touched_other; eauto. intros ->. now apply NL.
  - destruct (is_up (n_ops s i0)) eqn:U0; [|discriminate]. injection H as <-. simpl in Hr.
    apply (N r). eapply in_touched_other; eauto. intros ->. congruence.
  - destruct (op_phase (n_ops s i0)); try discriminate. injection H as <-. exact (N r Hr).
  - destruct (is_alive (n_ops s i0)); [|discriminate]. injection H as <-. exact (N r Hr).
  - destruct (is_alive (n_ops s j)) eqn:AJ; [discriminate|]. injection H as <-. simpl in Hr.
    assert (NJ : i <> j) by (intros ->; congruence).
    apply (N r). destruct r0; [eapply in_set_other; eauto | eapply in_del; eauto].
  - destruct (_ && _); [|discriminate]. injection H as <-. exact (N r Hr).
Qed.

(* ---------- what a clean leaves behind ---------- *)
(* processing the LATEST event leaves no expired record in the object *)
Theorem observe_latest_leaves_no_expired : forall t0 tr s i v cleaned tg s' snap,
  run (net0 t0) tr = Some s -> is_up (n_ops s i) = true ->
  step s (LObserve i v cleaned tg) = Some s' -> op_inbox (n_ops s i) = [(v, snap)] ->
  forall j r, In (j, r) (n_status s') -> n_now s' < dl_at (n_now s') r.
Proof.
  intros t0 tr s i v cleaned tg s' snap R U H IB j r Hr.
  assert (L : op_listed (n_ops s i) = true).
  { simpl in H. destruct (is_alive (n_ops s i) && op_listed (n_ops s i)) eqn:E; [|discriminate].
    apply andb_prop in E as [_ E]. exact E. }
  pose proof (reachable_inv _ _ _ R i U L) as I. rewrite IB in I. destruct I as (pre & Hpre).
  apply app_single_inv in Hpre as [_ Hx]. injection Hx as -> ->.
  pose proof (observe_cleans_expired_of_snapshot _ _ _ _ _ _ _ _ H IB) as HC.
  assert (Hs : n_now s' = n_now s /\ In (j, r) (n_status s) /\ ~ In j cleaned).
  { simpl in H. destruct (negb _); [discriminate|]. rewrite IB in H.
    destruct (negb _); [discriminate|]. destruct (decide_peers _ _ _); [|discriminate].
    destruct (negb _); [discriminate|]. destruct cleaned as [|c cl]; injection H as <-.
    - simpl in *. auto.
    - unfold commit in Hr. cbn [n_status n_now] in *. apply in_dels in Hr as [D N0]. split; [reflexivity|].
      split; [eapply in_del; eauto|]. intros [-> | X]; [eapply del_not_in; exact D | now apply N0]. }
  destruct Hs as (-> & Hin & Hn). destruct (Z.lt_ge_cases (n_now s) (dl_at (n_now s) r)) as [|G]; [assumption|].
  exfalso. apply Hn. apply HC. exists r. split; [assumption | lia].
Qed.

(* whatever the age of the event: a record that is removed and has NOT changed since the event was
   produced is expired (F1301 needs a record that changed in between) *)
Theorem clean_unchanged_record_is_expired : forall s i v cleaned tg s' snap rest,
  step s (LObserve i v cleaned tg) = Some s' -> op_inbox (n_ops s i) = (v, snap) :: rest ->
  NoDup (map fst snap) ->
  forall id r, In id cleaned -> In (id, r) snap -> dl_at (n_now s) r <= n_now s.
Proof.
  intros s i v cleaned tg s' snap rest H IB ND id r Hc Hr.
  apply (observe_cleans_expired_of_snapshot _ _ _ _ _ _ _ _ H IB) in Hc as (r' & Hr' & Hd).
  assert (r' = r); [|now subst].
  clear -ND Hr Hr'. induction snap as [|[k x] snap IH]; [destruct Hr|]. simpl in ND.
  inversion ND as [|? ? Hn Hl]; subst. destruct Hr as [E | Hr], Hr' as [E' | Hr'].
  - congruence.
  - injection E as -> ->. exfalso. apply Hn. change id with (fst (id, r')). now apply in_map.
  - injection E' as -> ->. exfalso. apply Hn. change id with (fst (id, r)). now apply in_map.
  - auto.
Qed.

(* ---------- exactly one is active ---------- *)
Lemma max_prio_exists : forall (f : string -> Z) (ids : list string), ids <> [] ->
  exists m, In m ids /\ forall j, In j ids -> f j <= f m.
Proof.
  induction ids as [|a ids IH]; intros N; [congruence|]. destruct ids as [|b ids].
  - exists a. split; [now left|]. intros j [<- | []]. lia.
  - destruct IH as (m & Hm & Hmax); [discriminate|].
    destruct (Z.le_gt_cases (f a) (f m)).
    + exists m. split; [now right|]. intros j [<- | Hj]; [lia | auto].
    + exists a. split; [now left|]. intros j [<- | Hj]; [lia|]. specialize (Hmax j Hj). lia.
Qed.

Theorem exactly_one_active : forall t0 tr s ids, run (net0 t0) tr = Some s -> ids <> [] ->
  (forall i, In i ids -> synced s i) ->
  (forall i, In i ids -> exists r, In (i, r) (n_status s) /\ r_prio r = op_prio (n_ops s i) /\ n_now s < dl_at (n_now s) r) ->
  (forall j r, In (j, r) (n_status s) -> n_now s < dl_at (n_now s) r -> In j ids /\ r_prio r = op_prio (n_ops s j)) ->
  (forall i j, In i ids -> In j ids -> i <> j -> op_prio (n_ops s i) <> op_prio (n_ops s j)) ->
  exists m, In m ids /\ op_toggle (n_ops s m) = false /\
            (forall j, In j ids -> op_prio (n_ops s j) <= op_prio (n_ops s m)) /\
            (forall j, In j ids -> j <> m -> op_toggle (n_ops s j) = true).
Proof.
  intros t0 tr s ids R NE Hs Ho Hl Hd.
  destruct (max_prio_exists (fun i => op_prio (n_ops s i)) ids NE) as (m & Hm & Hmax). exists m.
  assert (Tm : op_toggle (n_ops s m) = false).
  { apply (active_iff_top t0 tr s ids R Hs Ho Hl m Hm). intros j Hj N.
    specialize (Hmax j Hj). specialize (Hd j m Hj Hm N). simpl in *. lia. }
  repeat split; auto. intros j Hj N.
  destruct (op_toggle (n_ops s j)) eqn:T; [reflexivity|]. exfalso. apply N.
  exact (at_most_one_active t0 tr s ids R Hs Ho Hl j m Hj Hm T Tm).
Qed.

(* ---------- every delivered snapshot has unique keys ---------- *)
Lemma in_push_inbox : forall v st f k x, In x (op_inbox (push v st f k)) -> In x (op_inbox (f k)) \/ x = (v, st).
Proof.
  intros v st f k x H. unfold push in H. destruct (is_up (f k) && op_listed (f k)); [|now left].
  simpl in H. apply in_app_iff in H as [H | [H | []]]; auto.
Qed.

Lemma inbox_provenance : forall s l s' k x, step s l = Some s' -> In x (op_inbox (n_ops s' k)) ->
  In x (op_inbox (n_ops s k)) \/ snd x = n_status s' \/ snd x = n_status s.
Proof.
  intros s l s' k x H Hx.
  assert (UP : forall i o, (forall y, In y (op_inbox o) -> In y (op_inbox (n_ops s i))) ->
               forall y, In y (op_inbox (upd (n_ops s) i o k)) -> In y (op_inbox (n_ops s k))).
  { intros i o Ho y Hy. destruct (String.eqb k i) eqn:E.
    - apply String.eqb_eq in E; subst k. rewrite upd_same in Hy. auto.
    - apply String.eqb_neq in E. rewrite upd_other in Hy by exact E. exact Hy. }
  destruct l; simpl in H.
  - destruct (_ && _); [|discriminate]. injection H as <-. now left.
  - destruct (is_alive (n_ops s i)); [discriminate|]. injection H as <-. left. prj.
    eapply UP; [|exact Hx]. intros y [].
  - destruct (_ && _); [|discriminate]. injection H as <-. prj. destruct (String.eqb k i) eqn:E.
    + apply String.eqb_eq in E; subst k. rewrite upd_same in Hx. simpl in Hx. destruct Hx as [<- | []]. right; right. reflexivity.
    + apply String.eqb_neq in E. rewrite upd_other in Hx by exact E. now left.
  - destruct (_ && _); [|discriminate]. injection H as <-. prj.
    apply in_push_inbox in Hx as [Hx | ->]; [now left | right; left; reflexivity].
  - destruct (negb _); [discriminate|].
    destruct (op_inbox (n_ops s i)) as [|[v snap] rest] eqn:EI; [discriminate|].
    destruct (negb _); [discriminate|]. destruct (decide_peers _ _ _); [|discriminate].
    destruct (negb _); [discriminate|]. destruct cleaned; injection H as <-; prj.
    + left. eapply UP; [|exact Hx]. simpl. intros y Hy. rewrite EI. now right.
    + apply in_push_inbox in Hx as [Hx | ->]; [|right; left; reflexivity].
      left. eapply UP; [|exact Hx]. simpl. intros y Hy. rewrite EI. now right.
  - destruct (negb _); [discriminate|]. destruct (op_wake (n_ops s i)); [|discriminate].
    destruct (_ <=? _); [|discriminate]. injection H as <-. prj.
    apply in_push_inbox in Hx as [Hx | ->]; [|right; left; reflexivity].
    left. eapply UP; [|exact Hx]. simpl. auto.
  - destruct (is_up (n_ops s i)); [|discriminate]. injection H as <-. prj.
    apply in_push_inbox in Hx as [Hx | ->]; [|right; left; reflexivity].
    left. eapply UP; [|exact Hx]. simpl. auto.
  - destruct (op_phase (n_ops s i)); try discriminate. injection H as <-. prj. left.
    eapply UP; [|exact Hx]. intros y [].
  - destruct (is_alive (n_ops s i)); [|discriminate]. injection H as <-. prj. left.
    eapply UP; [|exact Hx]. intros y [].
  - destruct (is_alive (n_ops s j)); [discriminate|]. injection H as <-. prj.
    apply in_push_inbox in Hx as [Hx | ->]; [now left | right; left; reflexivity].
  - destruct (_ && _); [|discriminate]. injection H as <-. now left.
Qed.

Definition Inv3 (s : net) : Prop := forall k x, In x (op_inbox (n_ops s k)) -> NoDup (map fst (snd x)).

Lemma run_inv23 : forall tr s s', Inv2 s -> Inv3 s -> run s tr = Some s' -> Inv2 s' /\ Inv3 s'.
Proof.
  induction tr as [|l tr IH]; simpl; intros s s' I2 I3 H.
  - injection H as <-. auto.
  - destruct (step s l) as [s1|] eqn:E; [|discriminate].
    pose proof (step_inv2 _ _ _ I2 E) as I2'. apply (IH s1 s' I2'); [|exact H].
    intros k x Hx. destruct (inbox_provenance _ _ _ _ _ E Hx) as [Hin | [-> | ->]].
    + exact (I3 k x Hin).
    + now destruct I2'.
    + now destruct I2.
Qed.

Theorem snapshots_unique : forall t0 tr s k x, run (net0 t0) tr = Some s ->
  In x (op_inbox (n_ops s k)) -> NoDup (map fst (snd x)).
Proof.
  intros t0 tr s k x R. destruct (run_inv23 tr (net0 t0) s (Inv2_0 t0)) as [_ I3]; [|exact R|exact (I3 k x)].
  intros k' x' [].
Qed.

(* reachable form of clean_unchanged_record_is_expired *)
Theorem clean_unchanged_record_is_expired_reachable : forall t0 tr s i v cleaned tg s' snap rest,
  run (net0 t0) tr = Some s ->
  step s (LObserve i v cleaned tg) = Some s' -> op_inbox (n_ops s i) = (v, snap) :: rest ->
  forall id r, In id cleaned -> In (id, r) snap -> dl_at (n_now s) r <= n_now s.
Proof.
  intros t0 tr s i v cleaned tg s' snap rest R H IB.
  apply (clean_unchanged_record_is_expired _ _ _ _ _ _ _ _ H IB).
  apply (snapshots_unique _ _ _ i (v, snap) R). rewrite IB. now left.
Qed.
