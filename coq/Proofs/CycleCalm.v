(* C03, liveness half on the closed-loop model (Model/CycleWorld.v): once the environment is calm - no further
   edits, kills, restarts, relists, daemon exits - and handlers stop failing, the worker's own cycles bring the
   object to rest: nothing queued, no sleep pending, last-handled = the final essence, no progress records left,
   and every handler that was still unfinished has been invoked on the final essence.

   The schedule in the calm phase is forced (one worker, FIFO): process the queued event if there is one,
   otherwise sleep until the timer and touch.  [calm_step] is that forced step; [calm_step_run] shows it is an
   execution of the labelled transition system (a [Proc] or [Tick; Fire] accepted by [step]). *)
From Coq Require Import Arith List Bool Lia.
From KV Require Import Model.CycleWorld Proofs.CycleWorld Proofs.CycleOnce.
Import ListNotations.

Section Calm.
  Variable hc hu : list hid.
  Variable lc : lifecycle.
  Variable T : nat.
  Hypothesis ids_unique : NoDup (hc ++ hu).
  Hypothesis some_handlers : has_handlers hc hu = true.

  Notation step := (step hc hu lc T).
  Notation run := (run hc hu lc T).
  Notation cycle := (cycle hc hu lc T).
  Notation process_at := (process_at hc hu lc).
  Notation changing := (changing hc hu lc).
  Notation planned := (planned hc hu lc).
  Notation selected := (selected hc hu).
  Notation todo := (todo hc hu).
  Notation state_after := (state_after hc hu lc).
  Notation all_done := (all_done hc hu lc).
  Notation owned := (owned hc hu).
  Notation apply_merge := (apply_merge hc hu).
  Notation same_content := (same_content hc hu).
  Notation resuming := (resuming hc hu).
  Notation settled := (settled hc hu).
  Notation no_own_records := (no_own_records hc hu).

  (* ---------- the forced step of the calm phase ---------- *)
  Definition calm_step (orc : hid -> outcome) (w : world) : world :=
    let m := w_mem w in
    match m_queue m with
    | v :: rest =>
        let waited := pending_at (w_now w) (expect_after_event m v) && match rest with [] => true | _ => false end in
        cycle (mkWorld (w_srv w) (mkMem true rest (m_carried m) None (m_expected m) (m_initial m)) (w_need_fin w) (w_now w) (w_log w))
              v rest orc waited 0
    | [] =>
        match m_timer m with
        | Some t =>
            let now' := Nat.max t (w_now w) in
            let s' := touch (w_srv w) in
            mkWorld s' (mkMem true [s'] (m_carried m) None (Some (o_rv s', now' + T)) (m_initial m)) (w_need_fin w) now' (w_log w)
        | None => w
        end
    end.

  Fixpoint drive (os : list (hid -> outcome)) (w : world) : world :=
    match os with
    | [] => w
    | o :: os' => drive os' (calm_step o w)
    end.

  (* ---------- calm states ---------- *)
  Record calm (w : world) : Prop := mkCalm {
    c_up : m_up (w_mem w) = true;
    c_car : m_carried (w_mem w) = [];
    c_fin : w_need_fin w = o_fin (w_srv w);
    c_queue : m_queue (w_mem w) = [] \/ m_queue (w_mem w) = [w_srv w];
    c_exp : m_expected (w_mem w) = None
            \/ exists dl, m_expected (w_mem w) = Some (o_rv (w_srv w), dl) /\ m_queue (w_mem w) = [w_srv w];
    (* progress records exist only for the handlers of the outstanding cause *)
    c_recs : forall h, In h owned -> rget h (o_recs (w_srv w)) <> None -> In h (selected (w_srv w));
    (* asleep: some unfinished selected handler is due when the timer fires *)
    c_tim : m_queue (w_mem w) = [] -> forall t, m_timer (w_mem w) = Some t ->
            exists h r d, In h (selected (w_srv w)) /\ hstate 0 (w_srv w) h = HOpen r d /\ d <= t;
    (* at rest only when settled *)
    c_idle : m_queue (w_mem w) = [] -> m_timer (w_mem w) = None -> settled (w_srv w) = true;
  }.

  (* ---------- one processing decision in a calm state ---------- *)
  Definition calm_decision (init : bool) (now : nat) (v : obj) (orc : hid -> outcome) : decision :=
    match cause_at init v with
    | Noop => no_change
    | Resume => resuming v
    | _ => changing now v orc
    end.

  Lemma process_at_calm init now v orc :
    process_at init now (o_fin v) [] true v orc =
    let d0 := calm_decision init now v orc in
    mkDec (d_invoked d0) (d_store d0) (d_purge d0) (d_last d0) [] (d_delays d0)
          (match d_store d0, d_purge d0, d_last d0 with [], false, None => false | _, _, _ => true end && o_dummy v)
          (d_handled d0).
  Proof.
    unfold CycleWorld.process_at, calm_decision, no_change. rewrite some_handlers.
    destruct (o_fin v); cbn [andb negb app];
      destruct (cause_at init v) eqn:C; cbn [andb negb];
      cbn [d_invoked d_store d_purge d_last d_fns d_delays d_handled]; try reflexivity.
    all: match goal with |- context [d_store ?d] =>
           destruct (d_store d), (d_purge d), (d_last d); reflexivity end.
  Qed.

  Lemma calm_expect w :
    calm w -> m_queue (w_mem w) = [w_srv w] ->
    forall m, m_expected m = m_expected (w_mem w) -> expect_after_event m (w_srv w) = None.
  Proof.
    intros C Q m Em. unfold expect_after_event. rewrite Em.
    destruct (c_exp w C) as [E|(dl & E & _)]; rewrite E; [reflexivity|]. rewrite Nat.eqb_refl. reflexivity.
  Qed.

  Definition log_of (v : obj) (d : decision) : list (hid * nat * nat * outcome) :=
    map (fun x => (fst (fst x), snd (fst x), o_ess v, snd x)) (d_invoked d).

  (* the explicit result of processing the queued echo/current view in a calm state *)
  Definition calm_result (w : world) (orc : hid -> outcome) : world :=
    let s := w_srv w in
    let now := w_now w in
    let init := m_initial (w_mem w) in
    let d := process_at init now (o_fin s) [] true s orc in
    let log' := w_log w ++ log_of s d in
    let init' := init && negb (d_handled d) in
    if has_merge d then
      let s' := apply_merge d s in
      if same_content s s' then mkWorld s (mkMem true [] [] None None init') (o_fin s) now log'
      else mkWorld s' (mkMem true [s'] [] None (Some (o_rv s', now + T)) init') (o_fin s) now log'
    else
      match min_list (d_delays d) with
      | None => mkWorld s (mkMem true [] [] None None init') (o_fin s) now log'
      | Some dl =>
          if Nat.eqb dl 0
          then let s' := touch s in mkWorld s' (mkMem true [s'] [] None (Some (o_rv s', now + T)) init') (o_fin s) now log'
          else mkWorld s (mkMem true [] [] (Some (now + dl)) None init') (o_fin s) now log'
      end.

  Lemma process_at_calm_fns init now v orc : d_fns (process_at init now (o_fin v) [] true v orc) = [].
  Proof. rewrite process_at_calm. reflexivity. Qed.

  Lemma calm_proc w orc :
    calm w -> m_queue (w_mem w) = [w_srv w] -> calm_step orc w = calm_result w orc.
  Proof.
    intros C Q. unfold calm_step. rewrite Q. cbn zeta.
    rewrite (calm_expect w C Q (w_mem w) eq_refl). cbn [pending_at andb].
    assert (E0 : forall q c t i, expect_after_event (mkMem true q c t (m_expected (w_mem w)) i) (w_srv w) = None)
      by (intros; apply (calm_expect w C Q); reflexivity).
    unfold CycleWorld.cycle. cbn [w_mem w_srv w_now w_need_fin w_log m_initial m_carried Nat.eqb negb andb].
    rewrite !E0. cbn [pending_at negb orb andb].
    rewrite (c_car w C), (c_fin w C).
    unfold calm_result. cbn zeta.
    set (d := process_at (m_initial (w_mem w)) (w_now w) (o_fin (w_srv w)) [] true (w_srv w) orc).
    assert (F : d_fns d = []) by apply process_at_calm_fns.
    unfold stage_merge, stage_fns, stage_sleep, log_of. rewrite F. cbn [andb orb].
    destruct (has_merge d) eqn:HM; cbn [andb orb].
    - destruct (same_content (w_srv w) (apply_merge d (w_srv w))) eqn:SC.
      + destruct (min_list (d_delays d)); reflexivity.
      + destruct (min_list (d_delays d)); reflexivity.
    - destruct (min_list (d_delays d)) as [dl|]; [|reflexivity].
      destruct (Nat.eqb dl 0); reflexivity.
  Qed.

  (* ---------- small facts ---------- *)
  Lemma cause_at_cases init v :
    (cause_at init v = Create /\ o_last v = None /\ cause_of v = Create)
    \/ (cause_at init v = Update /\ (exists l, o_last v = Some l /\ l <> o_ess v) /\ cause_of v = Update)
    \/ (cause_at init v = Resume /\ o_last v = Some (o_ess v) /\ init = true /\ cause_of v = Noop)
    \/ (cause_at init v = Noop /\ o_last v = Some (o_ess v) /\ init = false /\ cause_of v = Noop).
  Proof.
    unfold cause_of, cause_at. destruct (o_last v) as [l|]; [|left; tauto].
    destruct (Nat.eqb l (o_ess v)) eqn:E.
    - apply Nat.eqb_eq in E. subst l. destruct init; [right; right; left|right; right; right]; tauto.
    - apply Nat.eqb_neq in E. right; left. split; [reflexivity|]. split; [|reflexivity]. exists l. tauto.
  Qed.

  Lemma selected_noop v : cause_of v = Noop -> selected v = [].
  Proof. unfold CycleWorld.selected. intros ->. reflexivity. Qed.

  Lemma no_records_when_handled w :
    calm w -> o_last (w_srv w) = Some (o_ess (w_srv w)) -> no_own_records (w_srv w) = true.
  Proof.
    intros C L. unfold CycleWorld.no_own_records. apply forallb_forall. intros h Ih.
    destruct (rget h (o_recs (w_srv w))) eqn:R; [|reflexivity]. exfalso.
    assert (In h (selected (w_srv w))) as I by (apply (c_recs w C h Ih); congruence).
    rewrite selected_noop in I; [destruct I|]. unfold cause_of, cause_at. rewrite L, Nat.eqb_refl. reflexivity.
  Qed.

  Lemma no_records_no_purge v : no_own_records v = true -> d_purge (resuming v) = false.
  Proof.
    unfold CycleWorld.no_own_records, CycleWorld.resuming. cbn [d_purge]. intro N.
    destruct (existsb _ owned) eqn:E; [|reflexivity]. exfalso.
    apply existsb_exists in E. destruct E as (h & Ih & Eh). rewrite forallb_forall in N. specialize (N h Ih).
    destruct (rget h (o_recs v)); discriminate.
  Qed.

  Lemma recs_eqb_false a b h : In h owned -> rget h a <> rget h b -> recs_eqb hc hu a b = false.
  Proof.
    intros I N. destruct (recs_eqb hc hu a b) eqn:E; [|reflexivity]. exfalso. apply N. apply (recs_eqb_rget hc hu); assumption.
  Qed.

  Lemma same_content_recs a b : recs_eqb hc hu (o_recs a) (o_recs b) = false -> same_content a b = false.
  Proof. unfold CycleWorld.same_content. intros ->. rewrite !andb_false_r. reflexivity. Qed.

  Lemma same_content_last a b : o_last a <> o_last b -> same_content a b = false.
  Proof.
    unfold CycleWorld.same_content. intro N.
    destruct (o_last a) as [x|], (o_last b) as [y|]; try (rewrite ?andb_false_r; reflexivity); try congruence.
    destruct (Nat.eqb x y) eqn:E; [apply Nat.eqb_eq in E; congruence|]. rewrite ?andb_false_r. reflexivity.
  Qed.

  (* the first stored record differs from what the view holds: a store is never a no-op *)
  Lemma changing_store_head now v orc h st rest :
    d_store (changing now v orc) = (h, st) :: rest ->
    In h (selected v) /\ rget h (o_recs v) <> Some st /\ st = state_after now v orc h.
  Proof.
    unfold CycleWorld.changing. destruct (selected v) eqn:S; [discriminate|].
    destruct (all_done now v orc); [discriminate|]. cbn [d_store]. intro E.
    assert (I : In (h, st) (map (fun h0 => (h0, state_after now v orc h0))
                  (filter (fun h0 => existsb (Nat.eqb h0) (planned now v) || match rget h0 (o_recs v) with None => true | Some _ => false end) (h0 :: l))))
      by (rewrite E; left; reflexivity).
    apply in_map_iff in I. destruct I as (x & Ex & Ix). injection Ex as -> <-.
    apply filter_In in Ix. destruct Ix as (Sel & B). split; [exact Sel|]. split; [|reflexivity].
    destruct (rget h (o_recs v)) as [cur|] eqn:R; [|discriminate].
    rewrite orb_false_r in B. unfold CycleWorld.state_after. rewrite B.
    apply existsb_exists in B. destruct B as (y & Iy & Ey). apply Nat.eqb_eq in Ey. subst y.
    apply (planned_awake hc hu lc) in Iy. destruct Iy as (A & _). unfold hstate in *. rewrite R in *.
    destruct cur as [r d|ok]; [|discriminate]. unfold after. cbn [retries_of].
    destruct (orc h); try discriminate. intro X. injection X as X _. lia.
  Qed.

  (* ---------- the four shapes of a calm processing step ---------- *)
  Lemma min_list_spec l m : min_list l = Some m -> In m l /\ forall x, In x l -> m <= x.
  Proof.
    destruct l as [|a l]; [discriminate|]. cbn [min_list]. intro E. injection E as <-.
    revert a. induction l as [|b l IH]; intro a; cbn [fold_left].
    - split; [left; reflexivity|]. intros x [<-|[]]. lia.
    - destruct (IH (Nat.min a b)) as (I & L). split.
      + destruct I as [E|I].
        * rewrite <- E. destruct (Nat.min_dec a b) as [M|M]; rewrite M; [left; reflexivity|right; left; reflexivity].
        * right; right; exact I.
      + intros x [Ex|[Ex|Ix]].
        * specialize (L (Nat.min a b) (or_introl eq_refl)). lia.
        * specialize (L (Nat.min a b) (or_introl eq_refl)). lia.
        * apply L. right. exact Ix.
  Qed.

  (* at rest: the view is handled (no-op or the first sight of a handled object) *)
  Lemma calm_result_rest w orc :
    calm w -> o_last (w_srv w) = Some (o_ess (w_srv w)) ->
    calm_result w orc = mkWorld (w_srv w) (mkMem true [] [] None None false) (o_fin (w_srv w)) (w_now w) (w_log w).
  Proof.
    intros C L. unfold calm_result. cbn zeta. rewrite process_at_calm. cbn zeta. unfold calm_decision, cause_at. rewrite L, Nat.eqb_refl.
    destruct (m_initial (w_mem w)).
    - pose proof (no_records_no_purge _ (no_records_when_handled w C L)) as NP.
      unfold CycleWorld.resuming in *. cbn [d_purge] in NP. unfold has_merge, log_of. cbn [d_invoked d_store d_purge d_last d_untouch d_delays d_handled].
      rewrite NP. cbn. rewrite app_nil_r. reflexivity.
    - unfold no_change, has_merge, log_of. cbn. rewrite app_nil_r. reflexivity.
  Qed.

  (* change handling is due: creation or update *)
  Definition outstanding (v : obj) : Prop := o_last v <> Some (o_ess v).

  Lemma outstanding_decision init now v orc : outstanding v -> calm_decision init now v orc = changing now v orc.
  Proof.
    unfold outstanding, calm_decision. intro O.
    destruct (cause_at_cases init v) as [(E & _)|[(E & _)|[(_ & L & _)|(_ & L & _)]]]; try (rewrite E; reflexivity); congruence.
  Qed.

  (* closing (every selected handler finished, or there is none to run) *)
  Lemma calm_result_close w orc :
    calm w -> outstanding (w_srv w) ->
    selected (w_srv w) = [] \/ all_done (w_now w) (w_srv w) orc = true ->
    exists s',
      calm_result w orc = mkWorld s' (mkMem true [s'] [] None (Some (o_rv s', w_now w + T)) false) (o_fin (w_srv w)) (w_now w)
                                  (w_log w ++ log_of (w_srv w) (changing (w_now w) (w_srv w) orc))
      /\ o_last s' = Some (o_ess (w_srv w)) /\ o_ess s' = o_ess (w_srv w) /\ o_fin s' = o_fin (w_srv w)
      /\ (forall h, In h owned -> rget h (o_recs s') = None).
  Proof.
    intros C O Cl. unfold calm_result. cbn zeta. rewrite process_at_calm. cbn zeta. rewrite (outstanding_decision _ _ _ _ O).
    set (s := w_srv w) in *. set (now := w_now w) in *.
    assert (D : d_last (changing now s orc) = Some (o_ess s) /\ d_handled (changing now s orc) = true
                /\ d_store (changing now s orc) = []
                /\ (selected s = [] \/ d_purge (changing now s orc) = true)).
    { unfold CycleWorld.changing. destruct (selected s) eqn:S.
      - cbn. tauto.
      - destruct Cl as [X|X]; [discriminate|]. rewrite X. cbn. tauto. }
    destruct D as (DL & DH & DS & DP).
    unfold has_merge at 1. cbn [d_store d_purge d_last d_untouch]. rewrite DS, DL.
    assert (HM : match (if d_purge (changing now s orc) then true else true) with true => true | false => true end = true) by (destruct (d_purge _); reflexivity).
    replace (match d_purge (changing now s orc) with | true | _ => true end) with true by (destruct (d_purge _); reflexivity).
    set (d := mkDec _ _ _ _ _ _ _ _).
    assert (SC : same_content s (apply_merge d s) = false).
    { apply same_content_last. unfold CycleWorld.apply_merge. cbn [o_last d_last d]. exact O. }
    rewrite SC. exists (apply_merge d s). cbn [d_handled d]. rewrite DH, andb_false_r.
    unfold log_of at 1. cbn [d_invoked d].
    split; [reflexivity|]. unfold CycleWorld.apply_merge. cbn [o_last o_ess o_fin o_recs d_last d_store d_purge d fold_left].
    repeat split; try reflexivity.
    intros h Ih.
    assert (Ex : existsb (Nat.eqb h) owned = true) by (apply existsb_exists; exists h; split; [exact Ih|apply Nat.eqb_refl]).
    destruct DP as [S0|P].
    - destruct (d_purge (changing now s orc)).
      + rewrite rget_fold_rdel, Ex. reflexivity.
      + destruct (rget h (o_recs s)) eqn:R; [|reflexivity]. exfalso.
        assert (In h (selected s)) as I by (apply (c_recs w C h Ih); fold s; congruence). rewrite S0 in I. destruct I.
    - rewrite P. rewrite rget_fold_rdel, Ex. reflexivity.
  Qed.

  Definition store_filter (now : nat) (v : obj) (h : hid) : bool :=
    existsb (Nat.eqb h) (planned now v) || match rget h (o_recs v) with None => true | Some _ => false end.

  Lemma changing_open now v orc :
    selected v <> [] -> all_done now v orc = false ->
    changing now v orc =
    mkDec (map (fun h => (h, retries_of (hstate now v h), orc h)) (planned now v))
          (map (fun h => (h, state_after now v orc h)) (filter (store_filter now v) (selected v)))
          false None []
          (map (fun h => match state_after now v orc h with HOpen _ d => d - now | HDone _ => 0 end)
               (filter (fun h => negb (is_done (state_after now v orc h))) (selected v)))
          false false.
  Proof.
    intros S D. unfold CycleWorld.changing. destruct (selected v) eqn:E; [congruence|]. rewrite D. reflexivity.
  Qed.

  Lemma stored_for_open now v orc h :
    selected v <> [] -> all_done now v orc = false ->
    stored_for (changing now v orc) h =
    if existsb (Nat.eqb h) (selected v) && store_filter now v h then Some (state_after now v orc h) else None.
  Proof.
    intros S D. unfold stored_for. rewrite (changing_open now v orc S D). cbn [d_store]. clear S D.
    induction (selected v) as [|x l IH]; [reflexivity|].
    cbn [filter existsb]. destruct (store_filter now v x) eqn:Fx.
    - cbn [map find fst snd]. destruct (Nat.eqb h x) eqn:E.
      + apply Nat.eqb_eq in E. subst x. rewrite Fx. reflexivity.
      + cbn [orb]. exact IH.
    - destruct (Nat.eqb h x) eqn:E.
      + apply Nat.eqb_eq in E. subst x. rewrite Fx, andb_false_r.
        destruct (find _ _) as [[k st]|] eqn:F; [|reflexivity]. exfalso.
        apply find_some in F. destruct F as (I & Ek). cbn in Ek. apply Nat.eqb_eq in Ek. subst k.
        apply in_map_iff in I. destruct I as (y & Ey & Iy). injection Ey as -> _. apply filter_In in Iy. destruct Iy as (_ & B). congruence.
      + cbn [orb]. exact IH.
  Qed.

  (* a store: some selected handler was invoked or met for the first time *)
  Lemma calm_result_store w orc :
    calm w -> outstanding (w_srv w) -> selected (w_srv w) <> [] -> all_done (w_now w) (w_srv w) orc = false ->
    d_store (changing (w_now w) (w_srv w) orc) <> [] ->
    exists s',
      calm_result w orc = mkWorld s' (mkMem true [s'] [] None (Some (o_rv s', w_now w + T)) (m_initial (w_mem w)))
                                  (o_fin (w_srv w)) (w_now w) (w_log w ++ log_of (w_srv w) (changing (w_now w) (w_srv w) orc))
      /\ o_last s' = o_last (w_srv w) /\ o_ess s' = o_ess (w_srv w) /\ o_fin s' = o_fin (w_srv w)
      /\ (forall h, rget h (o_recs s') =
                    match stored_for (changing (w_now w) (w_srv w) orc) h with Some st => Some st | None => rget h (o_recs (w_srv w)) end).
  Proof.
    intros C O S D NE. unfold calm_result. cbn zeta. rewrite process_at_calm. cbn zeta. rewrite (outstanding_decision _ _ _ _ O).
    set (s := w_srv w) in *. set (now := w_now w) in *.
    pose proof (changing_open now s orc S D) as CO.
    assert (F : d_purge (changing now s orc) = false /\ d_last (changing now s orc) = None /\ d_handled (changing now s orc) = false)
      by (rewrite CO; cbn; tauto).
    destruct F as (DP & DL & DH).
    destruct (d_store (changing now s orc)) as [|[h0 st0] rest0] eqn:DS; [congruence|].
    unfold has_merge at 1. cbn [d_store d_purge d_last d_untouch].
    set (d := mkDec _ _ _ _ _ _ _ _).
    assert (ND : NoDup (map fst (d_store d))) by (cbn [d_store d]; rewrite <- DS; apply changing_store_nodup; exact ids_unique).
    assert (RG : forall h, rget h (o_recs (apply_merge d s)) =
                           match stored_for (changing now s orc) h with Some st => Some st | None => rget h (o_recs s) end).
    { intro h. rewrite (apply_merge_rget hc hu d s h ND). cbn [d_purge d]. rewrite DP. cbn [andb].
      unfold stored_for. cbn [d_store d]. rewrite DS. reflexivity. }
    assert (SC : same_content s (apply_merge d s) = false).
    { apply same_content_recs. destruct (changing_store_head now s orc h0 st0 rest0 DS) as (Sel & NEq & _).
      apply (recs_eqb_false _ _ h0).
      - apply (selected_owned hc hu) with s. exact Sel.
      - rewrite RG. unfold stored_for. rewrite DS. cbn [find fst snd]. rewrite Nat.eqb_refl. cbn [snd]. exact NEq. }
    rewrite SC. exists (apply_merge d s). cbn [d_handled d]. rewrite DH. cbn [negb]. rewrite andb_true_r.
    unfold log_of at 1. cbn [d_invoked d].
    split; [reflexivity|]. split; [|split; [|split]]; try exact RG.
    - unfold CycleWorld.apply_merge. cbn [o_last d_last d]. rewrite DL. reflexivity.
    - reflexivity.
    - reflexivity.
  Qed.

  (* asleep: nothing to store, every unfinished handler waits for its retry time *)
  Lemma calm_result_sleep w orc :
    calm w -> outstanding (w_srv w) -> selected (w_srv w) <> [] -> all_done (w_now w) (w_srv w) orc = false ->
    d_store (changing (w_now w) (w_srv w) orc) = [] ->
    exists dl, 0 < dl
      /\ calm_result w orc = mkWorld (w_srv w) (mkMem true [] [] (Some (w_now w + dl)) None (m_initial (w_mem w)))
                                     (o_fin (w_srv w)) (w_now w) (w_log w)
      /\ todo (w_now w) (w_srv w) = []
      /\ exists h r, In h (selected (w_srv w)) /\ hstate 0 (w_srv w) h = HOpen r (w_now w + dl).
  Proof.
    intros C O S D DS0. set (s := w_srv w) in *. set (now := w_now w) in *.
    pose proof (changing_open now s orc S D) as CO.
    assert (FL : filter (store_filter now s) (selected s) = []).
    { rewrite CO in DS0. cbn [d_store] in DS0. apply map_eq_nil in DS0. exact DS0. }
    assert (NF : forall h, In h (selected s) -> store_filter now s h = false).
    { intros h Ih. destruct (store_filter now s h) eqn:E; [|reflexivity]. exfalso.
      assert (In h (filter (store_filter now s) (selected s))) as I by (apply filter_In; tauto). rewrite FL in I. destruct I. }
    assert (PL : planned now s = []).
    { destruct (planned now s) as [|x pl] eqn:P; [reflexivity|]. exfalso.
      assert (In x (planned now s)) as Ix by (rewrite P; left; reflexivity).
      destruct (planned_awake hc hu lc now s x Ix) as (_ & Sel). specialize (NF x Sel).
      unfold store_filter in NF. apply orb_false_iff in NF. destruct NF as (NF & _).
      assert (existsb (Nat.eqb x) (planned now s) = true) as E by (apply existsb_exists; exists x; split; [exact Ix|apply Nat.eqb_refl]).
      congruence. }
    assert (TD : todo now s = []).
    { destruct (todo now s) as [|x l] eqn:E; [reflexivity|]. exfalso.
      apply (plan_nonempty lc now s (todo now s)); [rewrite E; discriminate|]. exact PL. }
    assert (SA : forall h, state_after now s orc h = hstate now s h).
    { intro h. unfold CycleWorld.state_after. rewrite PL. reflexivity. }
    assert (AS : forall h, In h (selected s) -> awakened now (hstate now s h) = false).
    { intros h Ih. destruct (awakened now (hstate now s h)) eqn:A; [|reflexivity]. exfalso.
      assert (In h (todo now s)) as I by (unfold CycleWorld.todo; apply filter_In; tauto). rewrite TD in I. destruct I. }
    (* the delays: one per unfinished handler, all positive *)
    set (delays := d_delays (changing now s orc)).
    assert (DE : forall x, In x delays -> 0 < x /\ exists h r, In h (selected s) /\ hstate 0 s h = HOpen r (now + x)).
    { unfold delays. rewrite CO. cbn [d_delays]. intros x Ix. apply in_map_iff in Ix. destruct Ix as (h & Ex & Ih).
      apply filter_In in Ih. destruct Ih as (Sel & U). rewrite SA in Ex, U. specialize (AS h Sel).
      unfold hstate in *. destruct (match rget h (o_recs s) with Some s0 => s0 | None => HOpen 0 0 end) as [r dd|ok] eqn:H; [|discriminate].
      unfold awakened in AS. apply Nat.leb_gt in AS. subst x. split; [lia|]. exists h, r. split; [exact Sel|]. rewrite H. f_equal. lia. }
    assert (NE : delays <> []).
    { unfold delays. rewrite CO. cbn [d_delays]. intro E. apply map_eq_nil in E.
      unfold CycleWorld.all_done in D.
      assert (exists x, In x (selected s) /\ is_done (state_after now s orc x) = false) as (x & Ix & Nx).
      { clear - D. induction (selected s) as [|y ys IH]; [discriminate|]. cbn in D.
        destruct (is_done (state_after now s orc y)) eqn:E.
        - destruct (IH D) as (x & I & N). exists x. split; [right; exact I|exact N].
        - exists y. split; [left; reflexivity|exact E]. }
      assert (In x (filter (fun h => negb (is_done (state_after now s orc h))) (selected s))) as I by (apply filter_In; rewrite Nx; tauto).
      rewrite E in I. destruct I. }
    destruct (min_list delays) as [dl|] eqn:ML; [|destruct delays; [congruence|discriminate]].
    destruct (min_list_spec delays dl ML) as (Idl & _). destruct (DE dl Idl) as (Pos & h & r & Sel & Hs).
    exists dl. split; [exact Pos|]. split; [|split; [exact TD|exists h, r; tauto]].
    unfold calm_result. cbn zeta. rewrite process_at_calm. cbn zeta. rewrite (outstanding_decision _ _ _ _ O).
    fold s now. fold delays.
    assert (F : d_store (changing now s orc) = [] /\ d_purge (changing now s orc) = false /\ d_last (changing now s orc) = None
                /\ d_handled (changing now s orc) = false /\ d_invoked (changing now s orc) = []).
    { rewrite CO. cbn. rewrite PL, FL. cbn. tauto. }
    destruct F as (F1 & F2 & F3 & F4 & F5).
    unfold has_merge, log_of. cbn [d_store d_purge d_last d_untouch d_delays d_handled d_invoked].
    rewrite F1, F2, F3, F4, F5. cbn [andb negb map]. rewrite ML.
    destruct (Nat.eqb dl 0) eqn:Z; [apply Nat.eqb_eq in Z; lia|].
    rewrite app_nil_r, andb_true_r. reflexivity.
  Qed.

  (* ---------- the calm invariant is preserved by the forced step, whatever the handlers do ---------- *)
  Lemma selected_same a b : o_last a = o_last b -> o_ess a = o_ess b -> selected a = selected b.
  Proof. unfold CycleWorld.selected, cause_of, cause_at. intros -> ->. reflexivity. Qed.

  Lemma hstate_now n m v h : hstate n v h = hstate m v h.
  Proof. reflexivity. Qed.

  Lemma calm_shapes w orc :
    calm w -> m_queue (w_mem w) = [w_srv w] ->
    o_last (w_srv w) = Some (o_ess (w_srv w))
    \/ (outstanding (w_srv w) /\ (selected (w_srv w) = [] \/ all_done (w_now w) (w_srv w) orc = true))
    \/ (outstanding (w_srv w) /\ selected (w_srv w) <> [] /\ all_done (w_now w) (w_srv w) orc = false
        /\ d_store (changing (w_now w) (w_srv w) orc) <> [])
    \/ (outstanding (w_srv w) /\ selected (w_srv w) <> [] /\ all_done (w_now w) (w_srv w) orc = false
        /\ d_store (changing (w_now w) (w_srv w) orc) = []).
  Proof.
    intros _ _. unfold outstanding.
    destruct (o_last (w_srv w)) as [l|] eqn:L.
    - destruct (Nat.eq_dec l (o_ess (w_srv w))) as [->|N]; [left; reflexivity|right].
      assert (Some l <> Some (o_ess (w_srv w))) as O by congruence.
      destruct (selected (w_srv w)) eqn:S; [left; tauto|].
      destruct (all_done (w_now w) (w_srv w) orc) eqn:D; [left; tauto|right].
      destruct (d_store (changing (w_now w) (w_srv w) orc)) eqn:DS; [right|left]; repeat split; try assumption; discriminate.
    - right. assert (None <> Some (o_ess (w_srv w))) as O by discriminate.
      destruct (selected (w_srv w)) eqn:S; [left; tauto|].
      destruct (all_done (w_now w) (w_srv w) orc) eqn:D; [left; tauto|right].
      destruct (d_store (changing (w_now w) (w_srv w) orc)) eqn:DS; [right|left]; repeat split; try assumption; discriminate.
  Qed.

  Lemma calm_step_calm orc w : calm w -> calm (calm_step orc w).
  Proof.
    intro C. destruct (c_queue w C) as [Q|Q].
    - (* nothing queued: sleep out the timer and touch, or stay at rest *)
      unfold calm_step. rewrite Q. destruct (m_timer (w_mem w)) as [t|] eqn:TM; [|exact C].
      constructor; cbn [w_mem w_srv w_need_fin m_up m_carried m_queue m_expected m_timer].
      + reflexivity.
      + apply (c_car w C).
      + rewrite (c_fin w C). reflexivity.
      + right. reflexivity.
      + right. eexists. split; reflexivity.
      + intros h Ih R. rewrite (selected_same (touch (w_srv w)) (w_srv w)) by reflexivity. apply (c_recs w C h Ih). exact R.
      + discriminate.
      + discriminate.
    - rewrite (calm_proc w orc C Q).
      destruct (calm_shapes w orc C Q) as [L|[(O & Cl)|[(O & S & D & NE)|(O & S & D & E)]]].
      + rewrite (calm_result_rest w orc C L).
        constructor; cbn [w_mem w_srv w_need_fin m_up m_carried m_queue m_expected m_timer]; try reflexivity; try tauto.
        * apply (c_recs w C).
        * discriminate.
        * intros _ _. unfold CycleWorld.settled. rewrite L, Nat.eqb_refl. cbn [andb]. apply no_records_when_handled; assumption.
      + destruct (calm_result_close w orc C O Cl) as (s' & -> & L' & E' & F' & R').
        constructor; cbn [w_mem w_srv w_need_fin m_up m_carried m_queue m_expected m_timer]; try reflexivity; try tauto; try discriminate.
        * symmetry. exact F'.
        * right. eexists. split; reflexivity.
        * intros h Ih R. exfalso. apply R. apply R'. exact Ih.
      + destruct (calm_result_store w orc C O S D NE) as (s' & -> & L' & E' & F' & R').
        constructor; cbn [w_mem w_srv w_need_fin m_up m_carried m_queue m_expected m_timer]; try reflexivity; try tauto; try discriminate.
        * symmetry. exact F'.
        * right. eexists. split; reflexivity.
        * intros h Ih R. rewrite (selected_same s' (w_srv w) L' E'). rewrite R' in R.
          rewrite (stored_for_open _ _ _ h S D) in R.
          destruct (existsb (Nat.eqb h) (selected (w_srv w))) eqn:Ex.
          -- apply existsb_exists in Ex. destruct Ex as (y & Iy & Ey). apply Nat.eqb_eq in Ey. subst y. exact Iy.
          -- cbn [andb] in R. apply (c_recs w C h Ih). exact R.
      + destruct (calm_result_sleep w orc C O S D E) as (dl & Pos & -> & TD & h & r & Sel & Hs).
        constructor; cbn [w_mem w_srv w_need_fin m_up m_carried m_queue m_expected m_timer]; try reflexivity; try tauto; try discriminate.
        * apply (c_recs w C).
        * intros _ t Et. injection Et as <-. exists h, r, (w_now w + dl). repeat split; try assumption. lia.
  Qed.

  Lemma drive_calm os w : calm w -> calm (drive os w).
  Proof. revert w. induction os as [|o os IH]; intros w C; cbn [drive]; [exact C|]. apply IH. apply calm_step_calm. exact C. Qed.

  (* ---------- once handlers stop failing: a rank that every forced step decreases ---------- *)
  Definition ok : hid -> outcome := fun _ => OK.

  Definition unf (v : obj) : nat := unfinished (hstate 0 v) (selected v).
  Definition handledb (v : obj) : bool := match o_last v with Some l => Nat.eqb l (o_ess v) | None => false end.
  Definition U (v : obj) : nat := if handledb v then 0 else S (unf v).
  Definition asleep (now : nat) (v : obj) : bool :=
    negb (handledb v) && match todo now v with [] => true | _ => false end && negb (Nat.eqb (unf v) 0).

  Definition rank (w : world) : nat :=
    match m_queue (w_mem w) with
    | [] => match m_timer (w_mem w) with Some _ => 4 * U (w_srv w) + 2 | None => 0 end
    | _ => if asleep (w_now w) (w_srv w) then 4 * U (w_srv w) + 3 else 4 * U (w_srv w) + 1
    end.

  Lemma handledb_outstanding v : handledb v = false <-> outstanding v.
  Proof.
    unfold handledb, outstanding. destruct (o_last v) as [l|]; [|split; [discriminate|reflexivity]].
    destruct (Nat.eqb l (o_ess v)) eqn:E.
    - apply Nat.eqb_eq in E. subst l. split; [discriminate|congruence].
    - apply Nat.eqb_neq in E. split; [congruence|reflexivity].
  Qed.

  Lemma handledb_handled v : handledb v = true <-> o_last v = Some (o_ess v).
  Proof.
    unfold handledb. destruct (o_last v) as [l|]; [|split; discriminate].
    split; [intro E; apply Nat.eqb_eq in E; congruence|intro E; injection E as ->; apply Nat.eqb_refl].
  Qed.

  Lemma same_view a b :
    o_last a = o_last b -> o_ess a = o_ess b -> o_recs a = o_recs b ->
    handledb a = handledb b /\ unf a = unf b /\ (forall now, todo now a = todo now b) /\ U a = U b.
  Proof.
    intros L E R.
    assert (H1 : handledb a = handledb b) by (unfold handledb; rewrite L, E; reflexivity).
    assert (H2 : unf a = unf b) by (unfold unf, hstate; rewrite (selected_same a b L E), R; reflexivity).
    repeat split; try assumption.
    - intro now. unfold CycleWorld.todo, hstate. rewrite (selected_same a b L E), R. reflexivity.
    - unfold U. rewrite H1, H2. reflexivity.
  Qed.

  Lemma unfinished_ext st st' l : (forall h, In h l -> st h = st' h) -> unfinished st l = unfinished st' l.
  Proof.
    intro H. unfold unfinished. induction l as [|x l IH]; [reflexivity|]. cbn [filter].
    rewrite (H x (or_introl eq_refl)). destruct (negb (is_done (st' x))); cbn [length]; rewrite IH; try reflexivity;
      intros h Ih; apply H; right; exact Ih.
  Qed.

  Lemma unfinished_pos st l h r d : In h l -> st h = HOpen r d -> 0 < unfinished st l.
  Proof.
    intros I E. unfold unfinished. induction l as [|x l IH]; [destruct I|]. cbn [filter].
    destruct I as [->|I].
    - rewrite E. cbn. lia.
    - destruct (negb (is_done (st x))); cbn [length]; [lia|apply IH; exact I].
  Qed.

  Lemma rank_decreases w : calm w -> 0 < rank w -> rank (calm_step ok w) < rank w.
  Proof.
    intros C P. destruct (c_queue w C) as [Q|Q].
    - (* asleep or at rest *)
      unfold rank in *. unfold calm_step. rewrite Q in *. destruct (m_timer (w_mem w)) as [t|] eqn:TM; [|lia].
      cbn [w_mem w_srv w_now m_queue m_timer].
      destruct (same_view (touch (w_srv w)) (w_srv w) eq_refl eq_refl eq_refl) as (Hh & Hu & Ht & HU).
      rewrite HU. destruct (c_tim w C Q t TM) as (h & r & d & Sel & Hs & Le).
      assert (A : asleep (Nat.max t (w_now w)) (touch (w_srv w)) = false).
      { unfold asleep. rewrite Ht.
        assert (In h (todo (Nat.max t (w_now w)) (w_srv w))) as I.
        { unfold CycleWorld.todo. apply filter_In. split; [exact Sel|]. rewrite (hstate_now _ 0), Hs. unfold awakened. apply Nat.leb_le. lia. }
        destruct (todo (Nat.max t (w_now w)) (w_srv w)); [destruct I|]. rewrite andb_false_r. reflexivity. }
      rewrite A. lia.
    - rewrite (calm_proc w ok C Q). unfold rank at 2. rewrite Q.
      destruct (calm_shapes w ok C Q) as [L|[(O & Cl)|[(O & S & D & NE)|(O & S & D & E)]]].
      + rewrite (calm_result_rest w ok C L). unfold rank. cbn [w_mem m_queue m_timer].
        destruct (asleep (w_now w) (w_srv w)); lia.
      + destruct (calm_result_close w ok C O Cl) as (s' & -> & L' & E' & F' & R').
        unfold rank. cbn [w_mem w_srv w_now m_queue m_timer].
        assert (H' : handledb s' = true) by (apply handledb_handled; congruence).
        assert (A : asleep (w_now w) s' = false) by (unfold asleep; rewrite H'; reflexivity).
        rewrite A. unfold U at 1. rewrite H'.
        apply handledb_outstanding in O. unfold U. rewrite O. destruct (asleep (w_now w) (w_srv w)); lia.
      + destruct (calm_result_store w ok C O S D NE) as (s' & -> & L' & E' & F' & R').
        unfold rank. cbn [w_mem w_srv w_now m_queue m_timer].
        set (s := w_srv w) in *. set (now := w_now w) in *.
        (* the head of the store shows that some handler was awake *)
        assert (TD : todo now s <> []).
        { destruct (d_store (changing now s ok)) as [|[h0 st0] rest0] eqn:DS; [congruence|].
          assert (In h0 (selected s) /\ store_filter now s h0 = true) as (Sel & SF).
          { rewrite (changing_open now s ok S D) in DS. cbn [d_store] in DS.
            assert (In (h0, st0) (map (fun h => (h, state_after now s ok h)) (filter (store_filter now s) (selected s)))) as I by (rewrite DS; left; reflexivity).
            apply in_map_iff in I. destruct I as (x & Ex & Ix). injection Ex as -> _. apply filter_In in Ix. exact Ix. }
          unfold store_filter in SF. apply orb_true_iff in SF. destruct SF as [Pl|NR].
          - apply existsb_exists in Pl. destruct Pl as (y & Iy & Ey). apply Nat.eqb_eq in Ey. subst y.
            unfold CycleWorld.planned in Iy. apply plan_subset in Iy. intro X. rewrite X in Iy. destruct Iy.
          - assert (In h0 (todo now s)) as I.
            { unfold CycleWorld.todo. apply filter_In. split; [exact Sel|]. unfold hstate. destruct (rget h0 (o_recs s)); [discriminate|]. reflexivity. }
            intro X. rewrite X in I. destruct I. }
        pose proof (cycle_finishes_one hc hu lc now s ok (fun _ => eq_refl) TD) as LT.
        assert (EQ : unf s' = unfinished (state_after now s ok) (selected s)).
        { unfold unf. rewrite (selected_same s' s L' E'). apply unfinished_ext. intros h Ih.
          unfold hstate at 1. rewrite R'. rewrite (stored_for_open now s ok h S D).
          assert (existsb (Nat.eqb h) (selected s) = true) as Ex by (apply existsb_exists; exists h; split; [exact Ih|apply Nat.eqb_refl]).
          rewrite Ex. cbn [andb]. destruct (store_filter now s h) eqn:SF; [reflexivity|].
          unfold store_filter in SF. apply orb_false_iff in SF. destruct SF as (NP & _).
          unfold CycleWorld.state_after. rewrite NP. reflexivity. }
        assert (Hh : handledb s' = handledb s) by (unfold handledb; rewrite L', E'; reflexivity).
        apply handledb_outstanding in O.
        assert (UN : unf s = unfinished (hstate now s) (selected s)) by reflexivity.
        assert (US : U s' < U s) by (unfold U; rewrite Hh, O, EQ, UN; lia).
        destruct (asleep now s'), (asleep now s); lia.
      + destruct (calm_result_sleep w ok C O S D E) as (dl & Pos & -> & TD & h & r & Sel & Hs).
        unfold rank. cbn [w_mem w_srv w_now m_queue m_timer].
        assert (A : asleep (w_now w) (w_srv w) = true).
        { unfold asleep. apply handledb_outstanding in O. rewrite O, TD. cbn [negb andb].
          pose proof (unfinished_pos (hstate 0 (w_srv w)) (selected (w_srv w)) h r _ Sel Hs) as X. fold (unf (w_srv w)) in X.
          destruct (Nat.eqb (unf (w_srv w)) 0) eqn:Z; [apply Nat.eqb_eq in Z; lia|reflexivity]. }
        rewrite A. lia.
  Qed.

  Lemma rank_zero w : calm w -> rank w = 0 -> quiescent w = true /\ settled (w_srv w) = true.
  Proof.
    intros C R. unfold rank in R. destruct (m_queue (w_mem w)) eqn:Q.
    - destruct (m_timer (w_mem w)) eqn:TM; [lia|]. split.
      + unfold quiescent. rewrite (c_up w C), Q, TM. reflexivity.
      + apply (c_idle w C); assumption.
    - destruct (asleep (w_now w) (w_srv w)); lia.
  Qed.

  Theorem calm_converges w :
    calm w ->
    exists n, n <= rank w
      /\ quiescent (drive (repeat ok n) w) = true
      /\ settled (w_srv (drive (repeat ok n) w)) = true.
  Proof.
    remember (rank w) as k eqn:K. revert w K. induction k as [k IH] using lt_wf_ind. intros w K C.
    destruct (Nat.eq_dec k 0) as [Z|NZ].
    - exists 0. cbn [repeat drive]. split; [lia|]. apply rank_zero; [exact C|lia].
    - assert (LT : rank (calm_step ok w) < k) by (subst k; apply rank_decreases; [exact C|lia]).
      destruct (IH _ LT (calm_step ok w) eq_refl (calm_step_calm ok w C)) as (n & Le & Qn & Sn).
      exists (S n). cbn [repeat drive]. split; [lia|]. split; assumption.
  Qed.

  (* the essence is never touched by the operator: the state it comes to rest in is the final essential state *)
  Lemma calm_step_ess orc w : calm w -> o_ess (w_srv (calm_step orc w)) = o_ess (w_srv w).
  Proof.
    intro C. destruct (c_queue w C) as [Q|Q].
    - unfold calm_step. rewrite Q. destruct (m_timer (w_mem w)); reflexivity.
    - rewrite (calm_proc w orc C Q).
      destruct (calm_shapes w orc C Q) as [L|[(O & Cl)|[(O & S & D & NE)|(O & S & D & E)]]].
      + rewrite (calm_result_rest w orc C L). reflexivity.
      + destruct (calm_result_close w orc C O Cl) as (s' & -> & L' & E' & F' & R'). exact E'.
      + destruct (calm_result_store w orc C O S D NE) as (s' & -> & L' & E' & F' & R'). exact E'.
      + destruct (calm_result_sleep w orc C O S D E) as (dl & Pos & -> & _). reflexivity.
  Qed.

  Lemma drive_ess os w : calm w -> o_ess (w_srv (drive os w)) = o_ess (w_srv w).
  Proof.
    revert w. induction os as [|o os IH]; intros w C; cbn [drive]; [reflexivity|].
    rewrite IH by (apply calm_step_calm; exact C). apply calm_step_ess. exact C.
  Qed.

  Lemma drive_app os1 os2 w : drive (os1 ++ os2) w = drive os2 (drive os1 w).
  Proof. revert w. induction os1 as [|o os IH]; intro w; cbn [app drive]; [reflexivity|apply IH]. Qed.

  (* THE LIVENESS STATEMENT: from any calm state, whatever the handlers did so far (any finite prefix of outcomes:
     temporary and permanent failures, successes), once they stop failing the operator comes to rest, settled on
     the final essence: nothing queued, no sleep pending, last-handled = essence, no progress records. *)
  Theorem calm_settles w (failing : list (hid -> outcome)) :
    calm w ->
    exists n, let w' := drive (failing ++ repeat ok n) w in
      quiescent w' = true /\ settled (w_srv w') = true /\ o_ess (w_srv w') = o_ess (w_srv w)
      /\ o_last (w_srv w') = Some (o_ess (w_srv w)) /\ no_own_records (w_srv w') = true.
  Proof.
    intro C. pose proof (drive_calm failing w C) as C1.
    destruct (calm_converges (drive failing w) C1) as (n & _ & Qn & Sn).
    exists n. cbn zeta. rewrite drive_app.
    assert (E : o_ess (w_srv (drive (repeat ok n) (drive failing w))) = o_ess (w_srv w))
      by (rewrite (drive_ess _ _ C1); apply drive_ess; exact C).
    split; [exact Qn|]. split; [exact Sn|]. split; [exact E|].
    unfold CycleWorld.settled in Sn. apply andb_true_iff in Sn. destruct Sn as (L & N). split; [|exact N].
    destruct (o_last (w_srv (drive (repeat ok n) (drive failing w)))) as [l|]; [|discriminate].
    apply Nat.eqb_eq in L. rewrite <- E. congruence.
  Qed.

  (* ---------- every handler that was still unfinished is invoked, successfully, on the final essence ---------- *)
  Definition served (w0 w : world) (h : hid) : Prop :=
    exists extra, w_log w = w_log w0 ++ extra /\ exists r, In (h, r, o_ess (w_srv w0), OK) extra.

  Definition pending_handler (w : world) (h : hid) : Prop :=
    outstanding (w_srv w) /\ In h (selected (w_srv w)) /\ is_done (hstate 0 (w_srv w) h) = false.

  Lemma invoked_planned now v orc :
    selected v <> [] ->
    d_invoked (changing now v orc) = map (fun h => (h, retries_of (hstate now v h), orc h)) (planned now v).
  Proof.
    intro S. unfold CycleWorld.changing. destruct (selected v) eqn:E; [congruence|]. destruct (all_done now v orc); reflexivity.
  Qed.

  Lemma planned_logged now v orc h :
    selected v <> [] -> In h (planned now v) ->
    In (h, retries_of (hstate now v h), o_ess v, orc h) (log_of v (changing now v orc)).
  Proof.
    intros S I. unfold log_of. rewrite (invoked_planned now v orc S). rewrite map_map. cbn [fst snd].
    apply in_map_iff. exists h. split; [reflexivity|exact I].
  Qed.

  Lemma log_grows orc w : calm w -> exists more, w_log (calm_step orc w) = w_log w ++ more.
  Proof.
    intro C. destruct (c_queue w C) as [Q|Q].
    - unfold calm_step. rewrite Q. destruct (m_timer (w_mem w)); exists []; rewrite app_nil_r; reflexivity.
    - rewrite (calm_proc w orc C Q). unfold calm_result. cbn zeta.
      destruct (has_merge _); [destruct (same_content _ _)|destruct (min_list _) as [dl|]; [destruct (Nat.eqb dl 0)|]];
        eexists; reflexivity.
  Qed.

  Lemma served_step w0 w h :
    calm w -> o_ess (w_srv w) = o_ess (w_srv w0) -> (exists pre, w_log w = w_log w0 ++ pre) ->
    pending_handler w h \/ served w0 w h ->
    pending_handler (calm_step ok w) h \/ served w0 (calm_step ok w) h.
  Proof.
    intros C E (pre & G) [P|Sv].
    2:{ right. destruct Sv as (extra & L & r & I). destruct (log_grows ok w C) as (more & M).
        exists (extra ++ more). rewrite M, L, app_assoc. split; [reflexivity|]. exists r. apply in_or_app. left. exact I. }
    destruct P as (O & Sel & ND).
    destruct (c_queue w C) as [Q|Q].
    - left. unfold calm_step. rewrite Q. destruct (m_timer (w_mem w)); [|repeat split; assumption].
      unfold pending_handler. cbn [w_srv].
      rewrite (selected_same (touch (w_srv w)) (w_srv w)) by reflexivity. repeat split; assumption.
    - rewrite (calm_proc w ok C Q).
      destruct (calm_shapes w ok C Q) as [L|[(_ & Cl)|[(_ & S & D & NE)|(_ & S & D & E0)]]].
      + exfalso. apply O. exact L.
      + (* closing: the handler must have been invoked in this very cycle *)
        destruct (calm_result_close w ok C O Cl) as (s' & -> & _).
        destruct Cl as [S0|AD]; [rewrite S0 in Sel; destruct Sel|].
        assert (S : selected (w_srv w) <> []) by (intro X; rewrite X in Sel; destruct Sel).
        assert (Pl : In h (planned (w_now w) (w_srv w))).
        { unfold CycleWorld.all_done in AD. rewrite forallb_forall in AD. specialize (AD h Sel).
          unfold CycleWorld.state_after in AD. destruct (existsb (Nat.eqb h) (planned (w_now w) (w_srv w))) eqn:Ex.
          - apply existsb_exists in Ex. destruct Ex as (y & Iy & Ey). apply Nat.eqb_eq in Ey. subst y. exact Iy.
          - rewrite (hstate_now _ 0) in AD. congruence. }
        right. exists (pre ++ log_of (w_srv w) (changing (w_now w) (w_srv w) ok)). cbn [w_log]. rewrite G, app_assoc.
        split; [reflexivity|]. eexists. rewrite <- E. apply in_or_app. right.
        apply (planned_logged (w_now w) (w_srv w) ok h S Pl).
      + destruct (calm_result_store w ok C O S D NE) as (s' & -> & L' & E' & F' & R').
        destruct (existsb (Nat.eqb h) (planned (w_now w) (w_srv w))) eqn:Ex.
        * apply existsb_exists in Ex. destruct Ex as (y & Iy & Ey). apply Nat.eqb_eq in Ey. subst y.
          right. exists (pre ++ log_of (w_srv w) (changing (w_now w) (w_srv w) ok)). cbn [w_log]. rewrite G, app_assoc.
          split; [reflexivity|]. eexists. rewrite <- E. apply in_or_app. right.
          apply (planned_logged (w_now w) (w_srv w) ok h S Iy).
        * left. unfold pending_handler, outstanding. cbn [w_srv]. rewrite L', E', (selected_same s' (w_srv w) L' E').
          repeat split; try assumption.
          unfold hstate. rewrite R', (stored_for_open _ _ _ h S D).
          assert (existsb (Nat.eqb h) (selected (w_srv w)) = true) as Es by (apply existsb_exists; exists h; split; [exact Sel|apply Nat.eqb_refl]).
          rewrite Es. cbn [andb]. unfold store_filter. rewrite Ex. cbn [orb].
          destruct (rget h (o_recs (w_srv w))) as [cur|] eqn:R.
          -- unfold hstate in ND. rewrite R in ND. exact ND.
          -- unfold CycleWorld.state_after. rewrite Ex. unfold hstate. rewrite R. reflexivity.
      + destruct (calm_result_sleep w ok C O S D E0) as (dl & Pos & -> & _). left. repeat split; assumption.
  Qed.

  Theorem calm_serves w h :
    calm w -> pending_handler w h ->
    forall n, let w' := drive (repeat ok n) w in
      settled (w_srv w') = true -> served w w' h.
  Proof.
    intros C P n.
    assert (G : forall k w1, calm w1 -> o_ess (w_srv w1) = o_ess (w_srv w) -> (exists pre, w_log w1 = w_log w ++ pre) ->
                  pending_handler w1 h \/ served w w1 h ->
                  pending_handler (drive (repeat ok k) w1) h \/ served w (drive (repeat ok k) w1) h).
    { induction k as [|k IH]; intros w1 C1 E1 G1 H1; cbn [repeat drive]; [exact H1|].
      apply IH.
      - apply calm_step_calm. exact C1.
      - rewrite calm_step_ess by exact C1. exact E1.
      - destruct G1 as (pre & G1). destruct (log_grows ok w1 C1) as (more & M). exists (pre ++ more). rewrite M, G1, app_assoc. reflexivity.
      - apply served_step; assumption. }
    cbn zeta. intro St.
    destruct (G n w C eq_refl (ex_intro _ [] (eq_sym (app_nil_r _))) (or_introl P)) as [(O & _)|Sv]; [|exact Sv].
    exfalso. apply O. unfold CycleWorld.settled in St. apply andb_true_iff in St. destruct St as (L & _).
    destruct (o_last _) as [l|]; [|discriminate]. apply Nat.eqb_eq in L. congruence.
  Qed.

  (* ---------- entering the calm phase ---------- *)
  (* an edit of an object at rest *)
  Lemma calm_after_edit w e w' : calm w -> quiescent w = true -> step w (Edit e) = Some w' -> calm w'.
  Proof.
    intros C Qs St. cbn [CycleWorld.step] in St. injection St as <-.
    unfold quiescent in Qs. apply andb_true_iff in Qs. destruct Qs as (Qs & TM). apply andb_true_iff in Qs. destruct Qs as (Up & Q).
    destruct (m_queue (w_mem w)) eqn:EQ; [|discriminate]. destruct (m_timer (w_mem w)) eqn:ET; [discriminate|].
    unfold enqueue. rewrite Up, EQ. cbn [app].
    assert (EX : m_expected (w_mem w) = None).
    { destruct (c_exp w C) as [X|(dl & _ & X)]; [exact X|]. rewrite EQ in X. discriminate. }
    pose proof (c_idle w C EQ ET) as St. unfold CycleWorld.settled in St. apply andb_true_iff in St. destruct St as (_ & NR).
    constructor; cbn [w_mem w_srv w_need_fin m_up m_carried m_queue m_expected m_timer].
    - reflexivity.
    - apply (c_car w C).
    - rewrite (c_fin w C). reflexivity.
    - right. reflexivity.
    - left. exact EX.
    - intros h Ih R. exfalso. apply R. unfold bump. cbn [o_recs].
      unfold CycleWorld.no_own_records in NR. rewrite forallb_forall in NR. specialize (NR h Ih).
      destruct (rget h (o_recs (w_srv w))); [discriminate|reflexivity].
    - discriminate.
    - discriminate.
  Qed.

  (* a new operator process meeting the object (after a crash, a graceful restart, any downtime with any edits) *)
  Lemma calm_after_start w w' :
    (forall h, In h owned -> rget h (o_recs (w_srv w)) <> None -> In h (selected (w_srv w))) ->
    step w (Start (o_fin (w_srv w))) = Some w' -> calm w'.
  Proof.
    intros R St. cbn [CycleWorld.step] in St. destruct (m_up (w_mem w)); [discriminate|]. injection St as <-.
    constructor; cbn [w_mem w_srv w_need_fin m_up m_carried m_queue m_expected m_timer]; try reflexivity; try tauto; try discriminate.
  Qed.

  (* ---------- the forced step is an execution of the labelled transition system ---------- *)
  Lemma state_after_ext now v o1 o2 h :
    (forall x, In x (planned now v) -> o1 x = o2 x) -> state_after now v o1 h = state_after now v o2 h.
  Proof.
    intro A. unfold CycleWorld.state_after. destruct (existsb (Nat.eqb h) (planned now v)) eqn:E; [|reflexivity].
    apply existsb_exists in E. destruct E as (y & Iy & Ey). apply Nat.eqb_eq in Ey. subst y. rewrite (A h Iy). reflexivity.
  Qed.

  Lemma changing_ext now v o1 o2 :
    (forall x, In x (planned now v) -> o1 x = o2 x) -> changing now v o1 = changing now v o2.
  Proof.
    intro A. unfold CycleWorld.changing.
    assert (SA : forall h, state_after now v o1 h = state_after now v o2 h) by (intro h; apply state_after_ext; exact A).
    assert (AD : all_done now v o1 = all_done now v o2).
    { unfold CycleWorld.all_done. induction (selected v) as [|x l IH]; [reflexivity|]. cbn [forallb]. rewrite SA, IH. reflexivity. }
    assert (OUT : map (fun h => (h, retries_of (hstate now v h), o1 h)) (planned now v)
                  = map (fun h => (h, retries_of (hstate now v h), o2 h)) (planned now v)).
    { apply map_ext_in. intros h Ih. rewrite (A h Ih). reflexivity. }
    destruct (selected v) as [|x l] eqn:S; [reflexivity|]. rewrite AD. destruct (all_done now v o2).
    - rewrite OUT. reflexivity.
    - rewrite OUT. f_equal.
      + apply map_ext. intro h. rewrite SA. reflexivity.
      + assert (FE : forall ll, filter (fun h => negb (is_done (state_after now v o1 h))) ll
                                = filter (fun h => negb (is_done (state_after now v o2 h))) ll).
        { intro ll. apply filter_ext. intro h. rewrite SA. reflexivity. }
        rewrite FE. apply map_ext. intro h. rewrite SA. reflexivity.
  Qed.

  Definition label_oracle (d : decision) : list (hid * outcome) := map (fun x => (fst (fst x), snd x)) (d_invoked d).

  Lemma oracle_of_planned pl (f : hid -> nat) orc h :
    In h pl -> oracle_of (map (fun x => (fst (fst x), snd x)) (map (fun k => (k, f k, orc k)) pl)) h = orc h.
  Proof.
    intro I. unfold oracle_of. rewrite map_map. cbn [fst snd].
    induction pl as [|k pl IH]; [destruct I|]. cbn [map find fst]. destruct (Nat.eqb h k) eqn:E.
    - apply Nat.eqb_eq in E. subst k. reflexivity.
    - destruct I as [->|I]; [rewrite Nat.eqb_refl in E; discriminate|]. apply IH. exact I.
  Qed.

  Lemma calm_decision_own_oracle init now v orc :
    calm_decision init now v (oracle_of (label_oracle (calm_decision init now v orc))) = calm_decision init now v orc.
  Proof.
    unfold calm_decision. destruct (cause_at init v); try reflexivity.
    - apply changing_ext. intros x Ix.
      assert (S : selected v <> []).
      { intro X. unfold CycleWorld.planned, CycleWorld.todo in Ix. rewrite X in Ix. cbn in Ix. apply plan_subset in Ix. destruct Ix. }
      unfold label_oracle. rewrite (invoked_planned now v orc S). apply oracle_of_planned. exact Ix.
    - apply changing_ext. intros x Ix.
      assert (S : selected v <> []).
      { intro X. unfold CycleWorld.planned, CycleWorld.todo in Ix. rewrite X in Ix. cbn in Ix. apply plan_subset in Ix. destruct Ix. }
      unfold label_oracle. rewrite (invoked_planned now v orc S). apply oracle_of_planned. exact Ix.
  Qed.

  Definition calm_labels (orc : hid -> outcome) (w : world) : list label :=
    match m_queue (w_mem w) with
    | _ :: _ =>
        [Proc (label_oracle (process_at (m_initial (w_mem w)) (w_now w) (o_fin (w_srv w)) [] true (w_srv w) orc)) false 0]
    | [] =>
        match m_timer (w_mem w) with
        | Some t => [Tick (t - w_now w); Fire]
        | None => []
        end
    end.

  Lemma skipn_exact {A} (l m : list A) : skipn (List.length l) (l ++ m) = m.
  Proof. induction l as [|x l IH]; [reflexivity|exact IH]. Qed.

  Lemma list_nat_eqb_refl l : list_nat_eqb l l = true.
  Proof. induction l as [|x l IH]; [reflexivity|]. cbn. rewrite Nat.eqb_refl, IH. reflexivity. Qed.

  Lemma calm_result_log w orc :
    w_log (calm_result w orc)
    = w_log w ++ log_of (w_srv w) (process_at (m_initial (w_mem w)) (w_now w) (o_fin (w_srv w)) [] true (w_srv w) orc).
  Proof.
    unfold calm_result. cbn zeta.
    destruct (has_merge _); [destruct (same_content _ _)|destruct (min_list _) as [dl|]; [destruct (Nat.eqb dl 0)|]]; reflexivity.
  Qed.

  Definition wrap (v : obj) (d0 : decision) : decision :=
    mkDec (d_invoked d0) (d_store d0) (d_purge d0) (d_last d0) [] (d_delays d0)
          (match d_store d0, d_purge d0, d_last d0 with [], false, None => false | _, _, _ => true end && o_dummy v)
          (d_handled d0).

  Lemma process_at_wrap init now v orc :
    process_at init now (o_fin v) [] true v orc = wrap v (calm_decision init now v orc).
  Proof. rewrite process_at_calm. reflexivity. Qed.

  Lemma process_at_own_oracle init now v orc :
    process_at init now (o_fin v) [] true v (oracle_of (label_oracle (process_at init now (o_fin v) [] true v orc)))
    = process_at init now (o_fin v) [] true v orc.
  Proof.
    rewrite (process_at_wrap init now v orc).
    change (label_oracle (wrap v (calm_decision init now v orc))) with (label_oracle (calm_decision init now v orc)).
    rewrite process_at_wrap, calm_decision_own_oracle. reflexivity.
  Qed.

  Theorem calm_step_run orc w : calm w -> run w (calm_labels orc w) = Some (calm_step orc w).
  Proof.
    intro C. unfold calm_labels. destruct (c_queue w C) as [Q|Q].
    - rewrite Q. unfold calm_step. rewrite Q. destruct (m_timer (w_mem w)) as [t|] eqn:TM; [|reflexivity].
      cbn [CycleWorld.run CycleWorld.step w_mem w_now w_srv w_need_fin w_log]. rewrite (c_up w C), TM, Q.
      assert (E : w_now w + (t - w_now w) = Nat.max t (w_now w)) by lia. rewrite E.
      assert (L : (t <=? Nat.max t (w_now w)) = true) by (apply Nat.leb_le; lia). rewrite L. reflexivity.
    - rewrite Q. set (o := label_oracle _).
      cbn [CycleWorld.run CycleWorld.step]. rewrite (c_up w C), Q. cbn [andb].
      assert (EQ : calm_step (oracle_of o) w = calm_step orc w).
      { rewrite !(calm_proc w _ C Q). unfold calm_result. cbn zeta. unfold o. rewrite process_at_own_oracle. reflexivity. }
      assert (CS' : cycle (mkWorld (w_srv w) (mkMem true [] (m_carried (w_mem w)) None (m_expected (w_mem w)) (m_initial (w_mem w)))
                                  (w_need_fin w) (w_now w) (w_log w)) (w_srv w) [] (oracle_of o) false 0
                   = calm_step orc w).
      { rewrite <- EQ. unfold calm_step. rewrite Q. cbn zeta. rewrite (calm_expect w C Q (w_mem w) eq_refl). reflexivity. }
      rewrite CS'. rewrite (calm_proc w orc C Q), calm_result_log, skipn_exact.
      unfold log_of. rewrite map_map. cbn [fst]. unfold o, label_oracle. rewrite map_map. cbn [fst].
      rewrite list_nat_eqb_refl. reflexivity.
  Qed.

  Theorem drive_run os w : calm w -> exists ls, run w ls = Some (drive os w).
  Proof.
    revert w. induction os as [|o os IH]; intros w C.
    - exists []. reflexivity.
    - destruct (IH (calm_step o w) (calm_step_calm o w C)) as (ls & R).
      exists (calm_labels o w ++ ls). cbn [drive].
      assert (RA : forall l1 l2 a b, run a l1 = Some b -> run a (l1 ++ l2) = run b l2).
      { induction l1 as [|x l1 IHl]; intros l2 a b H; cbn [app CycleWorld.run] in *; [injection H as ->; reflexivity|].
        destruct (step a x); [|discriminate]. apply IHl. exact H. }
      rewrite (RA _ _ _ _ (calm_step_run o w C)). exact R.
  Qed.

  (* ---------- a decision procedure for [calm], to find calm states in recorded histories of the real operator ---------- *)
  Definition hst_eq (a b : hst) : bool :=
    match a, b with
    | HOpen r d, HOpen r' d' => Nat.eqb r r' && Nat.eqb d d'
    | HDone x, HDone y => Bool.eqb x y
    | _, _ => false
    end.

  Fixpoint recs_eq (a b : recs) : bool :=
    match a, b with
    | [], [] => true
    | (k, v) :: a', (k', v') :: b' => Nat.eqb k k' && hst_eq v v' && recs_eq a' b'
    | _, _ => false
    end.

  Definition opt_eq (a b : option nat) : bool :=
    match a, b with Some x, Some y => Nat.eqb x y | None, None => true | _, _ => false end.

  Definition obj_eq (a b : obj) : bool :=
    Nat.eqb (o_rv a) (o_rv b) && Nat.eqb (o_ess a) (o_ess b) && opt_eq (o_last a) (o_last b)
    && recs_eq (o_recs a) (o_recs b) && Bool.eqb (o_fin a) (o_fin b) && Bool.eqb (o_dummy a) (o_dummy b).

  Lemma hst_eq_sound a b : hst_eq a b = true -> a = b.
  Proof.
    destruct a as [r d|x], b as [r' d'|y]; cbn; try discriminate.
    - intro H. apply andb_true_iff in H. destruct H as (A & B). apply Nat.eqb_eq in A, B. congruence.
    - intro H. apply Bool.eqb_prop in H. congruence.
  Qed.

  Lemma recs_eq_sound a b : recs_eq a b = true -> a = b.
  Proof.
    revert b. induction a as [|[k v] a IH]; intros [|[k' v'] b]; cbn; try discriminate; [reflexivity|].
    intro H. apply andb_true_iff in H. destruct H as (H & R). apply andb_true_iff in H. destruct H as (K & V).
    apply Nat.eqb_eq in K. apply hst_eq_sound in V. rewrite (IH b R). congruence.
  Qed.

  Lemma obj_eq_sound a b : obj_eq a b = true -> a = b.
  Proof.
    unfold obj_eq. intro H. repeat (apply andb_true_iff in H; destruct H as (H & ?)).
    destruct a, b. cbn in *.
    match goal with X : recs_eq _ _ = true |- _ => apply recs_eq_sound in X end.
    repeat match goal with X : Nat.eqb _ _ = true |- _ => apply Nat.eqb_eq in X end.
    repeat match goal with X : Bool.eqb _ _ = true |- _ => apply Bool.eqb_prop in X end.
    match goal with X : opt_eq ?x ?y = true |- _ =>
      assert (x = y) by (destruct x, y; cbn in X; try discriminate; [apply Nat.eqb_eq in X; congruence|reflexivity]) end.
    congruence.
  Qed.

  Definition calmb (w : world) : bool :=
    let m := w_mem w in let s := w_srv w in
    m_up m
    && match m_carried m with [] => true | _ => false end
    && Bool.eqb (w_need_fin w) (o_fin s)
    && match m_queue m with [] => true | [v] => obj_eq v s | _ => false end
    && match m_expected m with
       | None => true
       | Some (rv, _) => Nat.eqb rv (o_rv s) && match m_queue m with [v] => obj_eq v s | _ => false end
       end
    && forallb (fun h => match rget h (o_recs s) with None => true | Some _ => existsb (Nat.eqb h) (selected s) end) owned
    && match m_queue m with
       | [] => match m_timer m with
               | Some t => existsb (fun h => match hstate 0 s h with HOpen _ d => d <=? t | HDone _ => false end) (selected s)
               | None => settled s
               end
       | _ => true
       end.

  Lemma calmb_sound w : calmb w = true -> calm w.
  Proof.
    unfold calmb. cbn zeta. intro H.
    apply andb_true_iff in H. destruct H as (H & H7). apply andb_true_iff in H. destruct H as (H & H6).
    apply andb_true_iff in H. destruct H as (H & H5). apply andb_true_iff in H. destruct H as (H & H4).
    apply andb_true_iff in H. destruct H as (H & H3). apply andb_true_iff in H. destruct H as (H1 & H2).
    assert (Q : m_queue (w_mem w) = [] \/ m_queue (w_mem w) = [w_srv w]).
    { destruct (m_queue (w_mem w)) as [|v [|v' q]]; [left; reflexivity| |discriminate]. right. apply obj_eq_sound in H4. congruence. }
    constructor.
    - exact H1.
    - destruct (m_carried (w_mem w)); [reflexivity|discriminate].
    - apply Bool.eqb_prop. exact H3.
    - exact Q.
    - destruct (m_expected (w_mem w)) as [[rv dl]|]; [|left; reflexivity]. right.
      apply andb_true_iff in H5. destruct H5 as (A & B). apply Nat.eqb_eq in A. subst rv. exists dl. split; [reflexivity|].
      destruct (m_queue (w_mem w)) as [|v [|v' q]]; try discriminate. apply obj_eq_sound in B. congruence.
    - intros h Ih R. rewrite forallb_forall in H6. specialize (H6 h Ih).
      destruct (rget h (o_recs (w_srv w))); [|congruence].
      apply existsb_exists in H6. destruct H6 as (y & Iy & Ey). apply Nat.eqb_eq in Ey. subst y. exact Iy.
    - intros Q0 t TM. rewrite Q0, TM in H7. apply existsb_exists in H7. destruct H7 as (h & Ih & B).
      destruct (hstate 0 (w_srv w) h) as [r d|] eqn:Hs; [|discriminate]. apply Nat.leb_le in B. exists h, r, d. tauto.
    - intros Q0 TM. rewrite Q0, TM in H7. exact H7.
  Qed.

  (* how many states of a recorded history are calm *)
  Fixpoint calm_hits (w : world) (its : list item) : nat :=
    match its with
    | [] => 0
    | L l :: r => match step w l with
                  | Some w' => (if calmb w' then 1 else 0) + calm_hits w' r
                  | None => 0
                  end
    | Check _ :: r => calm_hits w r
    end.

  (* ---------- one step before calm: the finalizer is not yet as required ---------- *)
  (* e.g. a new process with daemons meets an object without the finalizer, or the last daemon has gone and the
     finalizer is still there: the first cycle only adds / removes the finalizer (a JSON-patch pinned to the version of
     the view), and its echo is processed in a calm state *)
  Record precalm (w : world) : Prop := mkPre {
    p_up : m_up (w_mem w) = true;
    p_car : m_carried (w_mem w) = [];
    p_fin : w_need_fin w = negb (o_fin (w_srv w));
    p_queue : m_queue (w_mem w) = [w_srv w];
    p_exp : m_expected (w_mem w) = None \/ exists dl, m_expected (w_mem w) = Some (o_rv (w_srv w), dl);
    p_dummy : o_dummy (w_srv w) = false;
    p_recs : forall h, In h owned -> rget h (o_recs (w_srv w)) <> None -> In h (selected (w_srv w));
  }.

  Definition flipped (s : obj) (nf : bool) : obj := mkObj (S (o_rv s)) (o_ess s) (o_last s) (o_recs s) nf (o_dummy s).

  Lemma calm_flipped s nf init now dl log :
    (forall h, In h owned -> rget h (o_recs s) <> None -> In h (selected s)) ->
    calm (mkWorld (flipped s nf) (mkMem true [flipped s nf] [] None (Some (o_rv (flipped s nf), dl)) init) nf now log).
  Proof.
    intro R. constructor; cbn [w_mem w_srv w_need_fin m_up m_carried m_queue m_expected m_timer]; try reflexivity; try discriminate.
    - right. reflexivity.
    - right. eexists. split; reflexivity.
    - intros h Ih Rh. rewrite (selected_same (flipped s nf) s) by reflexivity. apply (R h Ih). exact Rh.
  Qed.

  Lemma precalm_step_eq orc w :
    precalm w ->
    calm_step orc w = mkWorld (flipped (w_srv w) (w_need_fin w))
                              (mkMem true [flipped (w_srv w) (w_need_fin w)] [] None
                                     (Some (o_rv (flipped (w_srv w) (w_need_fin w)), w_now w + T)) (m_initial (w_mem w)))
                              (w_need_fin w) (w_now w) (w_log w).
  Proof.
    intro P. unfold calm_step. rewrite (p_queue w P). cbn zeta.
    assert (E0 : forall m, m_expected m = m_expected (w_mem w) -> expect_after_event m (w_srv w) = None).
    { intros m Em. unfold expect_after_event. rewrite Em. destruct (p_exp w P) as [E|(dl & E)]; rewrite E; [reflexivity|].
      rewrite Nat.eqb_refl. reflexivity. }
    rewrite (E0 (w_mem w) eq_refl). cbn [pending_at andb].
    unfold CycleWorld.cycle. cbn [w_mem w_srv w_now w_need_fin w_log m_initial m_carried Nat.eqb negb andb].
    assert (E1 : forall q c t i, expect_after_event (mkMem true q c t (m_expected (w_mem w)) i) (w_srv w) = None)
      by (intros; apply E0; reflexivity).
    rewrite !E1. cbn [pending_at negb orb andb].
    rewrite (p_car w P), (p_fin w P).
    pose proof (p_dummy w P) as PD.
    unfold CycleWorld.process_at, flipped. rewrite some_handlers.
    destruct (w_srv w) as [rv ess last recs fin dummy] eqn:S. cbn [o_fin o_dummy o_rv o_ess o_last o_recs] in *. subst dummy.
    destruct fin; cbn; rewrite Nat.eqb_refl; cbn; rewrite app_nil_r, andb_true_r; reflexivity.
  Qed.

  Lemma precalm_step orc w : precalm w -> calm (calm_step orc w) /\ o_ess (w_srv (calm_step orc w)) = o_ess (w_srv w).
  Proof.
    intro P. rewrite (precalm_step_eq orc w P). split; [|reflexivity]. apply calm_flipped. apply (p_recs w P).
  Qed.

  Theorem precalm_settles w (first : hid -> outcome) (failing : list (hid -> outcome)) :
    precalm w ->
    exists n, let w' := drive (first :: failing ++ repeat ok n) w in
      quiescent w' = true /\ settled (w_srv w') = true /\ o_ess (w_srv w') = o_ess (w_srv w).
  Proof.
    intro P. destruct (precalm_step first w P) as (C & E).
    destruct (calm_settles (calm_step first w) failing C) as (n & Qn & Sn & En & _).
    exists n. cbn zeta. cbn [drive]. split; [exact Qn|]. split; [exact Sn|]. rewrite En. exact E.
  Qed.

  (* ---------- ... and exactly once: no handler succeeds twice on the way to rest ---------- *)
  Definition okcount (h : hid) (l : list (hid * nat * nat * outcome)) : nat :=
    List.length (filter (fun x => Nat.eqb (fst (fst (fst x))) h && match snd x with OK => true | _ => false end) l).

  Lemma okcount_app h a b : okcount h (a ++ b) = okcount h a + okcount h b.
  Proof. unfold okcount. rewrite filter_app, app_length. reflexivity. Qed.

  Lemma okcount_planned now v h :
    selected v <> [] ->
    okcount h (log_of v (changing now v ok)) = if existsb (Nat.eqb h) (planned now v) then 1 else 0.
  Proof.
    intro S. unfold log_of. rewrite (invoked_planned now v ok S), map_map. cbn [fst snd].
    pose proof (planned_nodup hc hu lc ids_unique now v) as ND.
    unfold okcount. induction (planned now v) as [|x l IH]; [reflexivity|].
    inversion ND as [|? ? NI ND']; subst. cbn [map filter fst snd existsb]. unfold ok at 1.
    destruct (Nat.eqb x h) eqn:E.
    - apply Nat.eqb_eq in E. subst x. rewrite Nat.eqb_refl. cbn [andb orb length].
      rewrite (IH ND').
      destruct (existsb (Nat.eqb h) l) eqn:Ex; [|reflexivity]. exfalso.
      apply existsb_exists in Ex. destruct Ex as (y & Iy & Ey). apply Nat.eqb_eq in Ey. subst y. contradiction.
    - cbn [andb]. rewrite (IH ND'). rewrite Nat.eqb_sym, E. reflexivity.
  Qed.

  Definition finished_here (w : world) (h : hid) : Prop :=
    ~ outstanding (w_srv w) \/ (In h (selected (w_srv w)) /\ is_done (hstate 0 (w_srv w) h) = true).

  Lemma once_step w0 w h extra :
    calm w -> w_log w = w_log w0 ++ extra ->
    (pending_handler w h /\ okcount h extra = 0) \/ (finished_here w h /\ okcount h extra = 1) ->
    exists extra', w_log (calm_step ok w) = w_log w0 ++ extra'
      /\ ((pending_handler (calm_step ok w) h /\ okcount h extra' = 0) \/ (finished_here (calm_step ok w) h /\ okcount h extra' = 1)).
  Proof.
    intros C G J. destruct (c_queue w C) as [Q|Q].
    - (* sleep out the timer and touch, or stay at rest: nothing is invoked, the server's records are the same *)
      exists extra. unfold calm_step. rewrite Q.
      destruct (m_timer (w_mem w)); [|split; [exact G|exact J]].
      cbn [w_log]. split; [exact G|].
      unfold pending_handler, finished_here, outstanding in *. cbn [w_srv].
      rewrite (selected_same (touch (w_srv w)) (w_srv w)) by reflexivity. exact J.
    - rewrite (calm_proc w ok C Q).
      destruct (calm_shapes w ok C Q) as [L|[(O & Cl)|[(O & S & D & NE)|(O & S & D & E0)]]].
      + rewrite (calm_result_rest w ok C L). exists extra. cbn [w_log w_srv]. split; [exact G|exact J].
      + destruct (calm_result_close w ok C O Cl) as (s' & -> & L' & E' & F' & R').
        exists (extra ++ log_of (w_srv w) (changing (w_now w) (w_srv w) ok)). cbn [w_log w_srv].
        split; [rewrite G, app_assoc; reflexivity|]. right.
        assert (NO : ~ outstanding s') by (unfold outstanding; rewrite L', E'; tauto).
        split; [left; exact NO|]. rewrite okcount_app.
        destruct Cl as [S0|AD].
        * (* no handler at all for this cause *)
          assert (okcount h (log_of (w_srv w) (changing (w_now w) (w_srv w) ok)) = 0) as Z.
          { unfold log_of, CycleWorld.changing. rewrite S0. reflexivity. }
          rewrite Z. destruct J as [((_ & Sel & _) & _)|(_ & K)]; [rewrite S0 in Sel; destruct Sel|lia].
        * assert (S : selected (w_srv w) <> []).
          { destruct J as [((_ & Sel & _) & _)|([N|(Sel & _)] & _)]; try (intro X; rewrite X in Sel; destruct Sel). contradiction. }
          rewrite (okcount_planned _ _ h S).
          destruct J as [((_ & Sel & ND) & K)|([N|(Sel & Dn)] & K)].
          -- (* still pending: all_done forces it to be planned now *)
             assert (existsb (Nat.eqb h) (planned (w_now w) (w_srv w)) = true) as Ex.
             { unfold CycleWorld.all_done in AD. rewrite forallb_forall in AD. specialize (AD h Sel).
               unfold CycleWorld.state_after in AD. destruct (existsb (Nat.eqb h) (planned (w_now w) (w_srv w))); [reflexivity|].
               rewrite (hstate_now _ 0) in AD. congruence. }
             rewrite Ex. lia.
          -- contradiction.
          -- (* already finished: never planned again *)
             assert (existsb (Nat.eqb h) (planned (w_now w) (w_srv w)) = false) as Ex.
             { destruct (existsb (Nat.eqb h) (planned (w_now w) (w_srv w))) eqn:X; [|reflexivity]. exfalso.
               apply existsb_exists in X. destruct X as (y & Iy & Ey). apply Nat.eqb_eq in Ey. subst y.
               apply (planned_awake hc hu lc) in Iy. destruct Iy as (A & _). rewrite (hstate_now _ 0) in A.
               destruct (hstate 0 (w_srv w) h); [discriminate|discriminate]. }
             rewrite Ex. lia.
      + destruct (calm_result_store w ok C O S D NE) as (s' & -> & L' & E' & F' & R').
        exists (extra ++ log_of (w_srv w) (changing (w_now w) (w_srv w) ok)). cbn [w_log w_srv].
        split; [rewrite G, app_assoc; reflexivity|]. rewrite okcount_app, (okcount_planned _ _ h S).
        unfold finished_here, pending_handler. cbn [w_srv].
        assert (HS : forall x, In x (selected (w_srv w)) -> hstate 0 s' x = state_after (w_now w) (w_srv w) ok x).
        { intros x Ix. unfold hstate at 1. rewrite R', (stored_for_open _ _ _ x S D).
          assert (existsb (Nat.eqb x) (selected (w_srv w)) = true) as Es by (apply existsb_exists; exists x; split; [exact Ix|apply Nat.eqb_refl]).
          rewrite Es. cbn [andb]. destruct (store_filter (w_now w) (w_srv w) x) eqn:SF; [reflexivity|].
          unfold store_filter in SF. apply orb_false_iff in SF. destruct SF as (NP & _).
          unfold CycleWorld.state_after. rewrite NP. reflexivity. }
        assert (OS : outstanding s') by (unfold outstanding; rewrite L', E'; exact O).
        destruct (existsb (Nat.eqb h) (planned (w_now w) (w_srv w))) eqn:Ex.
        * (* invoked now, with success *)
          destruct J as [((_ & Sel & ND) & K)|([N|(Sel & Dn)] & K)].
          -- right. split; [|lia]. right. rewrite (selected_same s' (w_srv w) L' E'). split; [exact Sel|].
             rewrite (HS h Sel). unfold CycleWorld.state_after. rewrite Ex. reflexivity.
          -- contradiction.
          -- exfalso. apply existsb_exists in Ex. destruct Ex as (y & Iy & Ey). apply Nat.eqb_eq in Ey. subst y.
             apply (planned_awake hc hu lc) in Iy. destruct Iy as (A & _). rewrite (hstate_now _ 0) in A.
             destruct (hstate 0 (w_srv w) h); discriminate.
        * destruct J as [((_ & Sel & ND) & K)|([N|(Sel & Dn)] & K)].
          -- left. split; [|lia]. unfold pending_handler. rewrite (selected_same s' (w_srv w) L' E'). repeat split; try assumption.
             rewrite (HS h Sel). unfold CycleWorld.state_after. rewrite Ex. rewrite (hstate_now _ 0). exact ND.
          -- contradiction.
          -- right. split; [|lia]. right. rewrite (selected_same s' (w_srv w) L' E'). split; [exact Sel|].
             rewrite (HS h Sel). unfold CycleWorld.state_after. rewrite Ex. rewrite (hstate_now _ 0). exact Dn.
      + destruct (calm_result_sleep w ok C O S D E0) as (dl & Pos & -> & _).
        exists extra. cbn [w_log w_srv]. split; [exact G|exact J].
  Qed.

  Theorem calm_serves_exactly_once w h :
    calm w -> pending_handler w h ->
    forall n, let w' := drive (repeat ok n) w in
      settled (w_srv w') = true ->
      exists extra, w_log w' = w_log w ++ extra /\ okcount h extra = 1.
  Proof.
    intros C P n.
    assert (G : forall k w1 extra, calm w1 -> w_log w1 = w_log w ++ extra ->
                  (pending_handler w1 h /\ okcount h extra = 0) \/ (finished_here w1 h /\ okcount h extra = 1) ->
                  exists extra', w_log (drive (repeat ok k) w1) = w_log w ++ extra'
                    /\ ((pending_handler (drive (repeat ok k) w1) h /\ okcount h extra' = 0)
                        \/ (finished_here (drive (repeat ok k) w1) h /\ okcount h extra' = 1))).
    { induction k as [|k IH]; intros w1 extra C1 G1 J1; cbn [repeat drive]; [exists extra; tauto|].
      destruct (once_step w w1 h extra C1 G1 J1) as (extra' & G' & J').
      apply (IH (calm_step ok w1) extra' (calm_step_calm ok w1 C1) G' J'). }
    cbn zeta. intro St.
    destruct (G n w [] C (eq_sym (app_nil_r _)) (or_introl (conj P eq_refl))) as (extra & GE & [((O & _) & _)|(_ & K)]).
    - exfalso. apply O. unfold CycleWorld.settled in St. apply andb_true_iff in St. destruct St as (L & _).
      destruct (o_last _) as [l|]; [|discriminate]. apply Nat.eqb_eq in L. congruence.
    - exists extra. split; assumption.
  Qed.

  (* ---------- at rest the operator does nothing by itself ---------- *)
  Lemma rest_is_stable w : quiescent w = true ->
    (forall o waited lost, step w (Proc o waited lost) = None) /\ step w Fire = None /\ calm_step ok w = w.
  Proof.
    unfold quiescent. intro Q. apply andb_true_iff in Q. destruct Q as (Q & TM). apply andb_true_iff in Q. destruct Q as (Up & Q).
    destruct (m_queue (w_mem w)) eqn:EQ; [|discriminate]. destruct (m_timer (w_mem w)) eqn:ET; [discriminate|].
    repeat split.
    - intros o waited lost. cbn [CycleWorld.step]. rewrite Up, EQ. reflexivity.
    - cbn [CycleWorld.step]. rewrite Up, ET. reflexivity.
    - unfold calm_step. rewrite EQ, ET. reflexivity.
  Qed.

  (* ---------- all of it together ---------- *)
  Theorem calm_convergence w (failing : list (hid -> outcome)) :
    calm w ->
    exists n ls w',
      w' = drive (failing ++ repeat ok n) w
      /\ run w ls = Some w'                                   (* an execution of the transition system *)
      /\ quiescent w' = true                                  (* nothing queued, no sleep pending *)
      /\ o_ess (w_srv w') = o_ess (w_srv w)                   (* on the final essential state *)
      /\ o_last (w_srv w') = Some (o_ess (w_srv w))           (* recorded as handled *)
      /\ no_own_records (w_srv w') = true                     (* no progress records left *)
      /\ (forall h, pending_handler (drive failing w) h -> served (drive failing w) w' h).
  Proof.
    intro C. destruct (calm_settles w failing C) as (n & Qn & Sn & En & Ln & Nn).
    destruct (drive_run (failing ++ repeat ok n) w C) as (ls & R).
    exists n, ls, (drive (failing ++ repeat ok n) w).
    repeat split; try assumption.
    intros h P. rewrite drive_app. apply calm_serves.
    - apply drive_calm. exact C.
    - exact P.
    - rewrite <- drive_app. exact Sn.
  Qed.
End Calm.
