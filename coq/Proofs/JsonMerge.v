(* Lemmas about association lists and the RFC 7386 merge of Base/Json.v. *)
From Coq Require Import ZArith List String Bool Lia.
From KV Require Import Base.Json Base.Dicts.
Import ListNotations.
Open Scope string_scope.
Open Scope list_scope.

(* ---------- association lists ---------- *)
Section Assoc.
  Context {V : Type}.
  Implicit Types (l : list (string * V)) (k : string) (v : V).

  Lemma lookup_set_same k v l : lookup k (set k v l) = Some v.
  Proof.
    induction l as [|[k' v'] l IH]; cbn; [rewrite String.eqb_refl; reflexivity|].
    destruct (String.eqb k k') eqn:E; cbn; [rewrite String.eqb_refl; reflexivity|].
    rewrite E. exact IH.
  Qed.

  Lemma lookup_set_other k k' v l : k <> k' -> lookup k (set k' v l) = lookup k l.
  Proof.
    intro N. induction l as [|[k2 v2] l IH]; cbn.
    - apply String.eqb_neq in N. rewrite N. reflexivity.
    - destruct (String.eqb k' k2) eqn:E; cbn.
      + apply String.eqb_eq in E. subst k2.
        apply String.eqb_neq in N. rewrite N. reflexivity.
      + destruct (String.eqb k k2); [reflexivity|exact IH].
  Qed.

  Lemma lookup_del_same k l : lookup k (del k l) = None.
  Proof.
    induction l as [|[k' v'] l IH]; cbn; [reflexivity|].
    destruct (String.eqb k k') eqn:E; [exact IH|]. cbn. rewrite E. exact IH.
  Qed.

  Lemma lookup_del_other k k' l : k <> k' -> lookup k (del k' l) = lookup k l.
  Proof.
    intro N. induction l as [|[k2 v2] l IH]; cbn; [reflexivity|].
    destruct (String.eqb k' k2) eqn:E; cbn.
    - apply String.eqb_eq in E. subst k2. apply String.eqb_neq in N. rewrite N. exact IH.
    - destruct (String.eqb k k2); [reflexivity|exact IH].
  Qed.

  Lemma lookup_in_keys k l v : lookup k l = Some v -> In k (keys l).
  Proof.
    induction l as [|[k' v'] l IH]; cbn; [discriminate|].
    destruct (String.eqb k k') eqn:E; [apply String.eqb_eq in E; subst; left; reflexivity|].
    intro H. right. apply IH. exact H.
  Qed.

  Lemma lookup_none_not_in k l : lookup k l = None -> ~ In k (keys l).
  Proof.
    induction l as [|[k' v'] l IH]; cbn; [tauto|].
    destruct (String.eqb k k') eqn:E; [discriminate|]. apply String.eqb_neq in E.
    intros H [F|F]; [congruence|exact (IH H F)].
  Qed.
End Assoc.

(* ---------- merge, unfolded ---------- *)
Definition obj_of (j : json) : obj := match j with JObj o => o | _ => [] end.

Fixpoint merge_fields (pkvs : list (string * json)) (t : obj) : obj :=
  match pkvs with
  | [] => t
  | (k, JNull) :: rest => merge_fields rest (del k t)
  | (k, v) :: rest =>
      merge_fields rest (set k (merge (match lookup k t with Some tv => tv | None => JNull end) v) t)
  end.

Lemma merge_obj target pkvs : merge target (JObj pkvs) = JObj (merge_fields pkvs (obj_of target)).
Proof.
  reflexivity.
Qed.

Lemma merge_non_obj target p : is_obj p = false -> merge target p = p.
Proof. destruct p; cbn; try reflexivity. discriminate. Qed.

(* lookup in a merged object, for a patch object without duplicate keys *)
Lemma lookup_merge_fields_absent k pkvs t :
  lookup k pkvs = None -> lookup k (merge_fields pkvs t) = lookup k t.
Proof.
  revert t. induction pkvs as [|[k' v] rest IH]; intros t H; cbn [merge_fields]; [reflexivity|].
  cbn in H. destruct (String.eqb k k') eqn:E; [discriminate|]. apply String.eqb_neq in E.
  destruct v; rewrite (IH _ H); try (apply lookup_set_other; exact E). apply lookup_del_other; exact E.
Qed.

Lemma lookup_merge_fields_present k v pkvs t :
  nodup_keys (map fst pkvs) = true -> lookup k pkvs = Some v ->
  lookup k (merge_fields pkvs t) =
  match v with
  | JNull => None
  | _ => Some (merge (match lookup k t with Some tv => tv | None => JNull end) v)
  end.
Proof.
  revert t. induction pkvs as [|[k' v'] rest IH]; intros t ND H; [discriminate|].
  cbn in ND. apply andb_true_iff in ND. destruct ND as [NI ND].
  cbn in H. destruct (String.eqb k k') eqn:E.
  - injection H as ->. apply String.eqb_eq in E. subst k'.
    assert (A : lookup k rest = None).
    { destruct (lookup k rest) eqn:L; [|reflexivity]. apply lookup_in_keys in L.
      unfold keys in L. apply negb_true_iff in NI. unfold mem_str in NI.
      assert (existsb (String.eqb k) (map fst rest) = true) as X.
      { apply existsb_exists. exists k. split; [exact L|apply String.eqb_refl]. }
      congruence. }
    cbn [merge_fields].
    destruct v; rewrite (lookup_merge_fields_absent _ _ _ A); try apply lookup_set_same. apply lookup_del_same.
  - apply String.eqb_neq in E. cbn [merge_fields].
    destruct v'; rewrite (IH _ ND H); try rewrite (lookup_set_other _ _ _ _ E); try reflexivity.
    rewrite (lookup_del_other _ _ _ E). reflexivity.
Qed.

(* resolving a path in the merged body: where the patch has a non-null leaf (a non-object), that leaf wins *)
Fixpoint wf_path (p : json) (path : list string) : bool :=
  match path with
  | [] => true
  | k :: rest =>
      match p with
      | JObj kvs => nodup_keys (map fst kvs) && match lookup k kvs with Some v => wf_path v rest | None => true end
      | _ => true
      end
  end.

Lemma resolve_merge_leaf body p path v :
  wf_path p path = true -> path <> [] ->
  resolve p path = Some v -> is_obj v = false -> v <> JNull ->
  resolve (merge body p) path = Some v.
Proof.
  revert body p. induction path as [|k rest IH]; intros body p W NE R Lf NN; [congruence|].
  cbn in R. destruct p as [| | | | |pk|]; try discriminate.
  destruct (lookup k pk) as [pv|] eqn:Lk; [|discriminate].
  cbn in W. rewrite Lk in W. apply andb_true_iff in W. destruct W as [ND W].
  rewrite merge_obj. cbn [resolve].
  rewrite (lookup_merge_fields_present k pv pk (obj_of body) ND Lk).
  destruct rest as [|k2 rest].
  - cbn in R. injection R as ->. destruct v; try congruence; try discriminate;
      cbn [resolve]; rewrite merge_non_obj by reflexivity; reflexivity.
  - assert (pv <> JNull) as PN by (intro; subst; cbn in R; discriminate).
    destruct pv; try congruence; try (cbn in R; discriminate).
    apply IH; auto. discriminate.
Qed.

(* ... and where the patch does not mention the first key of the path, the body's value stays *)
Lemma resolve_merge_untouched body pk k rest :
  lookup k pk = None -> resolve (merge body (JObj pk)) (k :: rest) = resolve (JObj (obj_of body)) (k :: rest).
Proof.
  intro H. rewrite merge_obj. cbn [resolve]. rewrite (lookup_merge_fields_absent _ _ _ H). reflexivity.
Qed.
