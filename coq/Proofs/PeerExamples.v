(* Non-vacuity: the hypotheses of the implications in Props/C13.v hold in concrete reachable states
   (each check is one vm_compute of a boolean; the states themselves are never normalised). *)
From Coq Require Import ZArith List String Bool Lia.
From KV Require Import Base.Json Model.Peering Model.PeerNet Proofs.Peering Proofs.PeerNet Proofs.PeerSched Proofs.PeerLive.
Import ListNotations.
Open Scope string_scope.
Open Scope Z_scope.
Open Scope list_scope.

Definition inbox_nil (o : opst) : bool := match op_inbox o with [] => true | _ => false end.
Lemma inbox_nil_ok : forall o, inbox_nil o = true -> op_inbox o = [].
Proof. intros o; unfold inbox_nil; destruct (op_inbox o); [reflexivity | discriminate]. Qed.

Definition oZ_is (x : option Z) (z : Z) : bool := match x with Some y => y =? z | None => false end.
Lemma oZ_is_ok : forall x z, oZ_is x z = true -> x = Some z.
Proof. intros [y|] z H; simpl in H; [apply Z.eqb_eq in H; now subst | discriminate]. Qed.

(* ---- a running operator with a scheduled keep-alive and its record (own_record_never_expired) ---- *)
Definition ex_own_check : bool :=
  match run (net0 0) tr_two_ops with
  | Some s => is_up (n_ops s "a") && oZ_is (n_ka s "a") 55000 && (2 <=? op_life (n_ops s "a"))
              && existsb (fun kv => String.eqb (fst kv) "a") (n_status s)
  | None => false
  end.

Lemma own_record_example : exists s r, run (net0 0) tr_two_ops = Some s /\ is_up (n_ops s "a") = true /\
  n_ka s "a" = Some 55000 /\ 2 <= op_life (n_ops s "a") /\ In ("a", r) (n_status s).
Proof.
  assert (C : ex_own_check = true) by (vm_compute; reflexivity). unfold ex_own_check in C.
  destruct (run (net0 0) tr_two_ops) as [s|]; [|discriminate].
  apply andb_prop in C as [C C4]. apply andb_prop in C as [C C3]. apply andb_prop in C as [C1 C2].
  apply existsb_exists in C4 as ([k r] & Hin & E). simpl in E. apply String.eqb_eq in E. subst k.
  exists s, r. repeat split; auto; [now apply oZ_is_ok | now apply Z.leb_le].
Qed.

(* ---- an exiting operator without a record, and a step that is not its wake-up (exiting_record_only_by_wake) ---- *)
Definition ex_exiting_check : bool :=
  match run (net0 0) tr_touch_after_exit with
  | Some s => phase_eqb (op_phase (n_ops s "c")) Exiting && negb (existsb (fun kv => String.eqb (fst kv) "c") (n_status s))
              && match step s (LTick 11500) with Some _ => true | None => false end
  | None => false
  end.

Lemma exiting_example : exists s s', run (net0 0) tr_touch_after_exit = Some s /\ op_phase (n_ops s "c") = Exiting /\
  (forall r, ~ In ("c", r) (n_status s)) /\ step s (LTick 11500) = Some s' /\ LTick 11500 <> LWake "c".
Proof.
  assert (C : ex_exiting_check = true) by (vm_compute; reflexivity). unfold ex_exiting_check in C.
  destruct (run (net0 0) tr_touch_after_exit) as [s|]; [|discriminate].
  destruct (step s (LTick 11500)) as [s'|] eqn:S; [|rewrite andb_false_r in C; discriminate].
  apply andb_prop in C as [C _]. apply andb_prop in C as [C1 C2]. exists s, s'.
  split; [reflexivity|]. split; [now apply phase_eqb_eq|]. split; [|split; [exact S | discriminate]].
  intros r Hin. apply negb_true_iff in C2. assert (X : existsb (fun kv => String.eqb (fst kv) "c") (n_status s) = true).
  { apply existsb_exists. exists ("c", r). split; [assumption | reflexivity]. } congruence.
Qed.

(* ---- the latest event pending, with an expired foreign record to clean (observe_latest_..., clean_unchanged_...) ---- *)
Definition tr_clean : list label :=
  [ LStart "a" 0 60 false; LKeepalive "a" 5; LList "a"; LObserve "a" 1 [] false;
    LTick 1000; LForeign "x" (Some (mkRec 5 5 (Some (-10000)))) ].

Definition ex_clean_check : bool :=
  match run (net0 0) tr_clean with
  | Some s => is_up (n_ops s "a") && op_listed (n_ops s "a") &&
              match op_inbox (n_ops s "a") with [(v, snap)] => Nat.eqb v 2 && existsb (fun kv => String.eqb (fst kv) "x") snap | _ => false end &&
              match step s (LObserve "a" 2 ["x"] false) with Some _ => true | None => false end
  | None => false
  end.

Lemma clean_example : exists s snap s' r, run (net0 0) tr_clean = Some s /\ is_up (n_ops s "a") = true /\
  op_listed (n_ops s "a") = true /\ op_inbox (n_ops s "a") = [(2%nat, snap)] /\
  step s (LObserve "a" 2 ["x"] false) = Some s' /\ In ("x", r) snap.
Proof.
  assert (C : ex_clean_check = true) by (vm_compute; reflexivity). unfold ex_clean_check in C.
  destruct (run (net0 0) tr_clean) as [s|]; [|discriminate].
  destruct (step s (LObserve "a" 2 ["x"] false)) as [s'|] eqn:S; [|rewrite andb_false_r in C; discriminate].
  apply andb_prop in C as [C _]. apply andb_prop in C as [C C3]. apply andb_prop in C as [C1 C2].
  destruct (op_inbox (n_ops s "a")) as [|[v snap] [|? ?]] eqn:IB; try discriminate.
  apply andb_prop in C3 as [V X]. apply Nat.eqb_eq in V. subst v.
  apply existsb_exists in X as ([k r] & Hin & E). simpl in E. apply String.eqb_eq in E. subst k.
  exists s, snap, s', r. split; [reflexivity|]. split; [assumption|]. split; [assumption|]. split; [exact IB|]. split; [exact S | exact Hin].
Qed.

(* ---- paused, everything processed, the blocker (a killed operator) expired (resumes_after_expiry) ---- *)
Definition tr_expired : list label :=
  [ LStart "a" 0 60 false; LKeepalive "a" 5; LList "a"; LObserve "a" 1 [] false;
    LTick 1000; LStart "b" 100 12 false; LKeepalive "b" 5; LList "b"; LObserve "b" 2 [] false;
    LObserve "a" 2 [] true; LTick 2000; LKill "b"; LTick 13000 ].

Definition ex_expired_check : bool :=
  match run (net0 0) tr_expired with
  | Some s => is_up (n_ops s "a") && op_listed (n_ops s "a") && inbox_nil (n_ops s "a") && op_toggle (n_ops s "a")
              && negb (has_blocker "a" (op_prio (n_ops s "a")) (n_now s) (n_status s))
  | None => false
  end.

Lemma expired_example : exists s, run (net0 0) tr_expired = Some s /\ is_up (n_ops s "a") = true /\
  op_listed (n_ops s "a") = true /\ op_inbox (n_ops s "a") = [] /\ op_toggle (n_ops s "a") = true /\
  has_blocker "a" (op_prio (n_ops s "a")) (n_now s) (n_status s) = false.
Proof.
  assert (C : ex_expired_check = true) by (vm_compute; reflexivity). unfold ex_expired_check in C.
  destruct (run (net0 0) tr_expired) as [s|]; [|discriminate].
  apply andb_prop in C as [C C5]. apply andb_prop in C as [C C4]. apply andb_prop in C as [C C3]. apply andb_prop in C as [C1 C2].
  exists s. repeat split; auto; [now apply inbox_nil_ok | now apply negb_true_iff].
Qed.

(* ---- the blocker withdrew gracefully, its event is the only one pending (resumes_after_withdrawal, drain_latest) ---- *)
Definition tr_withdrawn : list label :=
  [ LStart "a" 0 60 false; LKeepalive "a" 5; LList "a"; LObserve "a" 1 [] false;
    LTick 1000; LStart "b" 100 12 false; LKeepalive "b" 5; LList "b"; LObserve "b" 2 [] false;
    LObserve "a" 2 [] true; LTick 2000; LExit "b" ].

Definition ex_withdrawn_check : bool :=
  match run (net0 0) tr_withdrawn with
  | Some s => is_up (n_ops s "a") && op_listed (n_ops s "a") && op_toggle (n_ops s "a")
              && match op_inbox (n_ops s "a") with [_] => true | _ => false end
              && negb (has_blocker "a" (op_prio (n_ops s "a")) (n_now s) (n_status s))
  | None => false
  end.

Lemma withdrawn_example : exists s v snap, run (net0 0) tr_withdrawn = Some s /\ is_up (n_ops s "a") = true /\
  op_listed (n_ops s "a") = true /\ op_inbox (n_ops s "a") = [(v, snap)] /\ op_toggle (n_ops s "a") = true /\
  has_blocker "a" (op_prio (n_ops s "a")) (n_now s) (n_status s) = false.
Proof.
  assert (C : ex_withdrawn_check = true) by (vm_compute; reflexivity). unfold ex_withdrawn_check in C.
  destruct (run (net0 0) tr_withdrawn) as [s|]; [|discriminate].
  apply andb_prop in C as [C C5]. apply andb_prop in C as [C C4]. apply andb_prop in C as [C C3]. apply andb_prop in C as [C1 C2].
  destruct (op_inbox (n_ops s "a")) as [|[v snap] [|? ?]] eqn:IB; try discriminate.
  exists s, v, snap. repeat split; auto. now apply negb_true_iff.
Qed.
