(* C12 — lemmas about Model/Throttle.v (throttlers.throttled and the per-object world). *)
From Coq Require Import ZArith List Bool Lia Arith.
From KV Require Import Model.Throttle.
Import ListNotations.
Open Scope Z_scope.

(* ---------- aiotime.sleep ---------- *)

Lemma sleep_full : forall ev rem now wk n ev',
  sleep ev rem now wk = (n, None, ev') -> n = now + Z.max 0 rem.
Proof.
  intros ev rem now wk n ev' H. unfold sleep in H.
  destruct (rem <=? 0) eqn:E.
  - apply Z.leb_le in E. injection H as <- <-. lia.
  - apply Z.leb_gt in E. destruct ev; [discriminate|].
    destruct wk as [o|].
    + destruct ((0 <=? o) && (o <? rem)); [discriminate|]. injection H as <- <-. lia.
    + injection H as <- <-. lia.
Qed.

Lemma sleep_woken : forall ev rem now wk n x ev',
  sleep ev rem now wk = (n, Some x, ev') -> 0 < rem /\ now <= n < now + rem /\ x = now + rem - n /\ ev' = true.
Proof.
  intros ev rem now wk n x ev' H. unfold sleep in H.
  destruct (rem <=? 0) eqn:E; [discriminate|]. apply Z.leb_gt in E.
  destruct ev.
  - injection H as <- <- <-. lia.
  - destruct wk as [o|]; [|discriminate].
    destruct ((0 <=? o) && (o <? rem)) eqn:E2; [|discriminate].
    apply andb_true_iff in E2. destruct E2 as [E3 E4]. apply Z.leb_le in E3. apply Z.ltb_lt in E4.
    injection H as <- <- <-. lia.
Qed.

(* a sleep nobody interrupts runs to its end *)
Lemma sleep_undisturbed : forall rem now, sleep false rem now None = (now + Z.max 0 rem, None, false).
Proof.
  intros rem now. unfold sleep. destruct (rem <=? 0) eqn:E.
  - apply Z.leb_le in E. f_equal. f_equal. lia.
  - apply Z.leb_gt in E. f_equal. f_equal. lia.
Qed.

(* ---------- case analysis of one episode ---------- *)

Ltac ep_cases st e :=
  unfold episode;
  destruct (until st) as [u|] eqn:Hu;
  [ destruct (sleep (e_ev e) (u - _) _ (e_wk1 e)) as [[n1 o1] ev1] eqn:Hs1; destruct o1 as [x1|] | ];
  destruct (e_body e) eqn:Hb; simpl;
  try (destruct (choose _ st) as [[d|] p'] eqn:Hch; simpl;
       try (destruct (sleep _ d _ (e_wk2 e)) as [[n2 o2] ev2] eqn:Hs2; destruct o2; simpl)).

(* a failing run that was allowed to run: the pause is the chosen delay; nothing escalates *)
Lemma episode_err_run : forall dl st now e,
  e_body e = BErr -> r_should (episode dl st now e) = true ->
  r_pause (episode dl st now e) = fst (choose dl st) /\
  pos (r_state (episode dl st now e)) = Some (snd (choose dl st)) /\
  lastd (r_state (episode dl st now e)) = fst (choose dl st) /\
  r_escalated (episode dl st now e) = false.
Proof.
  intros dl st now e Hbody. revert Hbody. ep_cases st e; intros Hbody Hsh; try discriminate; auto.
Qed.

(* a clean run that was allowed to run resets the throttler completely *)
Lemma episode_ok_run : forall dl st now e,
  e_body e = BOk -> r_should (episode dl st now e) = true ->
  r_state (episode dl st now e) = t0 /\ r_escalated (episode dl st now e) = false /\
  r_pause (episode dl st now e) = None.
Proof.
  intros dl st now e Hbody. revert Hbody. ep_cases st e; intros Hbody Hsh; try discriminate; auto.
Qed.

(* a skipped episode (pause still active, woken up by a new event) changes nothing *)
Lemma episode_skip : forall dl st now e,
  r_should (episode dl st now e) = false ->
  r_state (episode dl st now e) = st /\ r_pause (episode dl st now e) = None /\
  (e_body e = BOk -> r_escalated (episode dl st now e) = false).
Proof.
  intros dl st now e. destruct st as [p l u0]. ep_cases ({| pos := p; lastd := l; until := u0 |}) e;
    intros Hsh; try discriminate; simpl in *; subst; repeat split; auto; try discriminate.
Qed.

(* an escalating block (cancellation, foreign BaseException) leaves the delay sequence alone *)
Lemma episode_esc : forall dl st now e,
  e_body e = BEsc ->
  pos (r_state (episode dl st now e)) = pos st /\ lastd (r_state (episode dl st now e)) = lastd st /\
  r_escalated (episode dl st now e) = true /\ r_pause (episode dl st now e) = None.
Proof.
  intros dl st now e Hbody. revert Hbody. ep_cases st e; intros Hbody; try discriminate; auto.
Qed.

(* Exception-type errors never leave `throttled` when the block honours `should_run` *)
Lemma episode_never_fatal : forall dl st now e,
  e_body e <> BEsc ->
  (r_should (episode dl st now e) = false -> e_body e = BOk) ->
  r_escalated (episode dl st now e) = false.
Proof.
  intros dl st now e. ep_cases st e; intros Hne Hh; try reflexivity; try congruence;
    try (specialize (Hh eq_refl); discriminate).
Qed.

(* ---------- the pause in time ---------- *)

(* the block is not entered (should_run) before the pause is over ... *)
Lemma no_run_during_pause : forall dl st now e u,
  until st = Some u -> r_should (episode dl st now e) = true -> u <= r_start (episode dl st now e).
Proof.
  intros dl st now e u0 Hu0. ep_cases st e; intros Hsh; try discriminate;
    injection Hu0 as <-; apply sleep_full in Hs1; lia.
Qed.

(* ... it is entered as soon as it is over ... *)
Lemma run_after_pause : forall dl st now e u,
  until st = Some u -> u <= now -> r_should (episode dl st now e) = true /\ r_start (episode dl st now e) = now.
Proof.
  intros dl st now e u0 Hu0 Hle. ep_cases st e; try discriminate; injection Hu0 as <-;
    try (apply sleep_woken in Hs1; lia); apply sleep_full in Hs1; split; auto; lia.
Qed.

(* ... and an unthrottled object runs at once *)
Lemma run_when_inactive : forall dl st now e,
  until st = None -> r_should (episode dl st now e) = true /\ r_start (episode dl st now e) = now.
Proof.
  intros dl st now e Hu0. ep_cases st e; try discriminate; auto.
Qed.

(* the pause of a failing run: either slept out (throttling inactive again, exit = end of block + pause)
   or interrupted by a wake-up (throttling stays active until end of block + pause) *)
Lemma pause_in_time : forall dl st now e d,
  e_body e = BErr -> r_should (episode dl st now e) = true -> r_pause (episode dl st now e) = Some d ->
  let r := episode dl st now e in
  let body_end := r_start r + Z.max 0 (e_dur e) in
  (until (r_state r) = None /\ r_exit r = body_end + Z.max 0 d) \/
  (until (r_state r) = Some (body_end + d) /\ body_end <= r_exit r < body_end + d).
Proof.
  intros dl st now e d0 Hbody. revert Hbody. ep_cases st e; intros Hbody Hsh Hp; try discriminate;
    injection Hp as <-;
    try (apply sleep_full in Hs2; left; split; [reflexivity|lia]);
    try (apply sleep_woken in Hs2; right; split; [reflexivity|lia]).
Qed.

(* undisturbed (no wake-up at all): the object is paused for exactly the delay, then free *)
Lemma pause_undisturbed : forall dl st now e d,
  e_body e = BErr -> until st = None -> e_ev e = false -> e_evb e = false -> e_wk2 e = None ->
  fst (choose dl st) = Some d ->
  let r := episode dl st now e in
  until (r_state r) = None /\ r_exit r = now + Z.max 0 (e_dur e) + Z.max 0 d /\ r_pause r = Some d.
Proof.
  intros dl st now e d0 Hbody Hu0 Hev Hevb Hwk Hc. unfold episode. rewrite Hu0, Hbody, Hev, Hevb, Hwk. simpl.
  destruct (choose dl st) as [[d|] p']; simpl in Hc; [|discriminate]. injection Hc as ->.
  rewrite sleep_undisturbed. simpl. auto.
Qed.

(* ---------- which delay: finite sequences ---------- *)

(* the delay after c consecutive errors: the c-th, the last one repeating; none for an empty sequence *)
Definition expected (l : list Z) (c : nat) : option Z :=
  match l with [] => None | _ => nth_error l (Nat.min c (length l - 1)) end.

Definition TInv (l : list Z) (st : tstate) (c : nat) : Prop :=
  match c with
  | O => pos st = None /\ lastd st = None
  | S c' => pos st = Some (Nat.min c (length l)) /\ lastd st = expected l c'
  end.

Lemma TInv_t0 : forall l, TInv l t0 O.
Proof. intros; split; reflexivity. Qed.

Lemma expected_some : forall l c, l <> [] -> exists d, expected l c = Some d.
Proof.
  intros l c Hl. unfold expected. destruct l as [|a l]; [congruence|].
  destruct (nth_error (a :: l) (Nat.min c (length (a :: l) - 1))) eqn:E; [eauto|].
  apply nth_error_None in E. simpl in E. lia.
Qed.

Lemma choose_list : forall l st c, TInv l st c ->
  choose (dl_list l) st = (expected l c, Nat.min (S c) (length l)).
Proof.
  intros l st c H. unfold choose, dl_list.
  assert (Hp : match pos st with Some p => p | None => O end = Nat.min c (length l)).
  { destruct c; simpl in H; destruct H as [H1 _]; rewrite H1; [simpl; lia|reflexivity]. }
  rewrite Hp.
  destruct (le_lt_dec (length l) c) as [Hge|Hlt].
  - (* exhausted: the last used delay is reused *)
    rewrite Nat.min_r by lia.
    assert (Hn : nth_error l (length l) = None) by (apply nth_error_None; lia). rewrite Hn.
    rewrite Nat.min_r by lia. f_equal.
    destruct c as [|c'].
    + destruct l; [|simpl in Hge; lia]. simpl in H. destruct H as [_ H2]. rewrite H2. reflexivity.
    + simpl in H. destruct H as [_ H2]. rewrite H2. unfold expected. destruct l as [|z l]; [reflexivity|].
      assert (Hl : length (z :: l) = S (length l)) by reflexivity. f_equal. lia.
  - rewrite Nat.min_l by lia.
    destruct (nth_error l c) eqn:E; [|apply nth_error_None in E; lia].
    rewrite Nat.min_l by lia. f_equal. unfold expected. destruct l as [|z1 l]; [simpl in Hlt; lia|].
    assert (Hl : length (z1 :: l) = S (length l)) by reflexivity.
    replace (Nat.min c (length (z1 :: l) - 1)) with c by lia. symmetry; exact E.
Qed.

Lemma TInv_after_err : forall l st c now e,
  TInv l st c -> e_body e = BErr -> r_should (episode (dl_list l) st now e) = true ->
  r_pause (episode (dl_list l) st now e) = expected l c /\
  TInv l (r_state (episode (dl_list l) st now e)) (S c) /\
  r_escalated (episode (dl_list l) st now e) = false.
Proof.
  intros l st c now e HI Hb Hs.
  destruct (episode_err_run _ _ _ _ Hb Hs) as (H1 & H2 & H3 & H4).
  rewrite (choose_list _ _ _ HI) in *. simpl in *. repeat split; auto.
Qed.

Lemma TInv_after_ok : forall l st now e,
  e_body e = BOk -> r_should (episode (dl_list l) st now e) = true ->
  TInv l (r_state (episode (dl_list l) st now e)) O.
Proof.
  intros l st now e Hb Hs. destruct (episode_ok_run _ _ _ _ Hb Hs) as (H1 & _). rewrite H1. apply TInv_t0.
Qed.

Lemma TInv_after_skip : forall l st c now e,
  TInv l st c -> r_should (episode (dl_list l) st now e) = false ->
  TInv l (r_state (episode (dl_list l) st now e)) c.
Proof.
  intros l st c now e HI Hs. destruct (episode_skip _ _ _ _ Hs) as (H1 & _). rewrite H1. exact HI.
Qed.

Lemma TInv_pos_lastd : forall l st st' c, TInv l st c -> pos st' = pos st -> lastd st' = lastd st -> TInv l st' c.
Proof. intros l st st' c H Hp Hl. destruct c; simpl in *; rewrite Hp, Hl; exact H. Qed.

(* what every episode of a sequence must satisfy, given the number c of consecutive errors before it *)
Definition step_ok (exp : nat -> option Z) (x : nat * ep * result) : Prop :=
  match x with
  | (c, e, r) =>
      (r_should r = true -> e_body e = BErr -> r_pause r = exp c /\ r_escalated r = false) /\
      (r_should r = true -> e_body e = BOk -> r_state r = t0 /\ r_escalated r = false) /\
      (r_should r = false -> r_pause r = None) /\
      (e_body e <> BErr -> r_pause r = None)
  end.

(* one episode: the law of this step, and the invariant for the next *)
Lemma step_ok_episode : forall l st c now e,
  TInv l st c ->
  step_ok (expected l) (c, e, episode (dl_list l) st now e) /\
  TInv l (r_state (episode (dl_list l) st now e)) (count_after c (episode (dl_list l) st now e) (e_body e)).
Proof.
  intros l st c now e HI. split.
  - unfold step_ok. repeat split.
    + destruct (TInv_after_err _ _ _ now e HI H0 H) as (H1 & _ & _). exact H1.
    + destruct (TInv_after_err _ _ _ now e HI H0 H) as (_ & _ & H3). exact H3.
    + destruct (episode_ok_run _ _ _ _ H0 H) as (H1 & _). exact H1.
    + destruct (episode_ok_run _ _ _ _ H0 H) as (_ & H2 & _). exact H2.
    + intros H. destruct (episode_skip _ _ _ _ H) as (_ & H2 & _). exact H2.
    + intros Hne. destruct (e_body e) eqn:Hb; [| congruence |].
      * destruct (r_should (episode (dl_list l) st now e)) eqn:Hs.
        -- destruct (episode_ok_run _ _ _ _ Hb Hs) as (_ & _ & H3). exact H3.
        -- destruct (episode_skip _ _ _ _ Hs) as (_ & H2 & _). exact H2.
      * destruct (episode_esc (dl_list l) st now e Hb) as (_ & _ & _ & H4). exact H4.
  - unfold count_after.
    destruct (r_should (episode (dl_list l) st now e)) eqn:Hs.
    + destruct (e_body e) eqn:Hb.
      * apply (TInv_after_ok l st now e Hb Hs).
      * destruct (TInv_after_err _ _ _ now e HI Hb Hs) as (_ & H2 & _). exact H2.
      * destruct (episode_esc (dl_list l) st now e Hb) as (H1 & H2 & _). eapply TInv_pos_lastd; eauto.
    + apply TInv_after_skip; assumption.
Qed.

Lemma throttle_sequence_list : forall l es st c,
  TInv l st c -> Forall (step_ok (expected l)) (run_counts (dl_list l) st c es).
Proof.
  intros l es. induction es as [|[now e] es IH]; intros st c HI; simpl; constructor.
  - apply step_ok_episode; exact HI.
  - apply IH. apply step_ok_episode; exact HI.
Qed.

(* the same law for the cycles of process_resource_event (block guarded by should_run) *)
Lemma throttle_sequence_proc : forall l es st c,
  TInv l st c -> Forall (step_ok (expected l)) (proc_counts (dl_list l) st c es).
Proof.
  intros l es. induction es as [|[now e] es IH]; intros st c HI; simpl; constructor.
  - apply step_ok_episode; exact HI.
  - apply IH. apply step_ok_episode; exact HI.
Qed.

(* proc_counts is run_proc with the ghost counter attached *)
Lemma proc_counts_results : forall dl es st c, map snd (proc_counts dl st c es) = run_proc dl st es.
Proof.
  intros dl es. induction es as [|[now e] es IH]; intros st c; simpl; [reflexivity|].
  f_equal. apply IH.
Qed.

(* ---------- which delay: endless re-iterable sources ---------- *)

Definition FInv (g : nat -> Z) (st : tstate) (c : nat) : Prop :=
  match c with
  | O => pos st = None /\ lastd st = None
  | S c' => pos st = Some c /\ lastd st = Some (g c')
  end.

Lemma choose_fun : forall g st c, FInv g st c -> choose (dl_fun g) st = (Some (g c), S c).
Proof.
  intros g st c H. unfold choose, dl_fun. destruct c; simpl in H; destruct H as [H1 _]; rewrite H1; reflexivity.
Qed.

Lemma throttle_sequence_fun : forall g es st c,
  FInv g st c -> Forall (step_ok (fun c => Some (g c))) (run_counts (dl_fun g) st c es).
Proof.
  intros g es. induction es as [|[now e] es IH]; intros st c HI; simpl; constructor.
  - unfold step_ok. repeat split.
    + destruct (episode_err_run _ _ _ _ H0 H) as (H1 & _). rewrite (choose_fun _ _ _ HI) in H1. exact H1.
    + destruct (episode_err_run _ _ _ _ H0 H) as (_ & _ & _ & H4). exact H4.
    + destruct (episode_ok_run _ _ _ _ H0 H) as (H1 & _). exact H1.
    + destruct (episode_ok_run _ _ _ _ H0 H) as (_ & H2 & _). exact H2.
    + intros H. destruct (episode_skip _ _ _ _ H) as (_ & H2 & _). exact H2.
    + intros Hne. destruct (e_body e) eqn:Hb; [| congruence |].
      * destruct (r_should (episode (dl_fun g) st now e)) eqn:Hs.
        -- destruct (episode_ok_run _ _ _ _ Hb Hs) as (_ & _ & H3). exact H3.
        -- destruct (episode_skip _ _ _ _ Hs) as (_ & H2 & _). exact H2.
      * destruct (episode_esc (dl_fun g) st now e Hb) as (_ & _ & _ & H4). exact H4.
  - apply IH. unfold count_after.
    destruct (r_should (episode (dl_fun g) st now e)) eqn:Hs.
    + destruct (e_body e) eqn:Hb.
      * destruct (episode_ok_run _ _ _ _ Hb Hs) as (H1 & _). rewrite H1. split; reflexivity.
      * destruct (episode_err_run _ _ _ _ Hb Hs) as (_ & H2 & H3 & _).
        rewrite (choose_fun _ _ _ HI) in *. simpl in *. split; assumption.
      * destruct (episode_esc (dl_fun g) st now e Hb) as (H1 & H2 & _).
        destruct c; simpl in *; rewrite H1, H2; exact HI.
    + destruct (episode_skip _ _ _ _ Hs) as (H1 & _). rewrite H1. exact HI.
Qed.

(* ---------- recovery ---------- *)

(* once an object runs cleanly, its next error starts again from the first delay *)
Lemma recovers : forall l st now e now' e',
  e_body e = BOk -> r_should (episode (dl_list l) st now e) = true ->
  let st' := r_state (episode (dl_list l) st now e) in
  r_should (episode (dl_list l) st' now' e') = true /\
  r_start (episode (dl_list l) st' now' e') = now' /\
  (e_body e' = BErr -> r_pause (episode (dl_list l) st' now' e') = expected l O).
Proof.
  intros l st now e now' e' Hb Hs st'.
  destruct (episode_ok_run _ _ _ _ Hb Hs) as (H1 & _). subst st'. rewrite H1.
  destruct (run_when_inactive (dl_list l) t0 now' e' eq_refl) as [Hr Hst]. repeat split; auto.
  intros Hb'. destruct (TInv_after_err l t0 O now' e' (TInv_t0 l) Hb' Hr) as (Hp & _). exact Hp.
Qed.

(* ---------- containment: the world of several objects ---------- *)

Lemma wstep_frame : forall dl w u now e v, v <> u -> fst (wstep dl w u now e) v = w v.
Proof.
  intros dl w u now e v Hne. unfold wstep. simpl.
  destruct (Nat.eqb v u) eqn:E; [apply Nat.eqb_eq in E; congruence|reflexivity].
Qed.

Lemma wstep_own : forall dl w u now e, fst (wstep dl w u now e) u = r_state (episode dl (w u) now e).
Proof. intros. unfold wstep. simpl. rewrite Nat.eqb_refl. reflexivity. Qed.

(* an erroring object u never changes whether, when and how another object v runs *)
Lemma containment : forall dl w u nowu eu v nowv ev,
  v <> u ->
  snd (wstep dl (fst (wstep dl w u nowu eu)) v nowv ev) = snd (wstep dl w v nowv ev).
Proof.
  intros dl w u nowu eu v nowv ev Hne. unfold wstep. simpl.
  destruct (Nat.eqb v u) eqn:E; [apply Nat.eqb_eq in E; congruence|reflexivity].
Qed.

Lemma pause_respected : forall dl st now e u,
  until st = Some u ->
  (r_should (episode dl st now e) = true -> u <= r_start (episode dl st now e)) /\
  (u <= now -> r_should (episode dl st now e) = true /\ r_start (episode dl st now e) = now).
Proof. intros dl st now e u H. split; [exact (no_run_during_pause dl st now e u H)|exact (run_after_pause dl st now e u H)]. Qed.

Lemma containment_full : forall dl w u nowu eu v nowv ev,
  v <> u ->
  fst (wstep dl w u nowu eu) v = w v /\
  snd (wstep dl (fst (wstep dl w u nowu eu)) v nowv ev) = snd (wstep dl w v nowv ev).
Proof. intros. split; [apply wstep_frame; assumption|apply containment; assumption]. Qed.

(* ---------- process_resource_event: the guarded block, whole histories of several objects ---------- *)

Lemma should_body_indep : forall dl st now e b,
  r_should (episode dl st now (with_body e b)) = r_should (episode dl st now e).
Proof.
  intros dl st now [ev wk1 bd dur evb wk2] b. unfold with_body, episode. simpl.
  destruct (until st) as [u|]; [destruct (sleep ev (u - now) now wk1) as [[n o] ev1]; destruct o|];
    destruct b; destruct bd; simpl; try reflexivity;
    repeat match goal with
           | |- context [match ?x with _ => _ end] => destruct x; simpl; try reflexivity
           end.
Qed.

Lemma with_body_same : forall e, with_body e (e_body e) = e.
Proof. intros []; reflexivity. Qed.

Lemma guard_run : forall dl st now e,
  r_should (episode dl st now e) = true -> proc_event dl st now e = episode dl st now e.
Proof.
  intros dl st now e H. unfold proc_event, guard. rewrite should_body_indep, H. reflexivity.
Qed.

Lemma guard_skip : forall dl st now e,
  r_should (episode dl st now e) = false -> proc_event dl st now e = episode dl st now (with_body e BOk).
Proof.
  intros dl st now e H. unfold proc_event, guard. rewrite should_body_indep, H. reflexivity.
Qed.

(* processing one event never lets an Exception out (the worker and the operator go on), for every
   throttler state, time, delay source and wake-up pattern — no side condition *)
Lemma proc_never_fatal : forall dl st now e,
  e_body e <> BEsc -> r_escalated (proc_event dl st now e) = false.
Proof.
  intros dl st now e Hne.
  destruct (r_should (episode dl st now e)) eqn:Hs.
  - rewrite (guard_run _ _ _ _ Hs). apply episode_never_fatal; [exact Hne|]. rewrite Hs. discriminate.
  - rewrite (guard_skip _ _ _ _ Hs). apply episode_never_fatal; [simpl; discriminate|]. intros _. reflexivity.
Qed.

Lemma wrun_never_fatal : forall dl evs w,
  Forall (fun x => e_body (snd x) <> BEsc) evs ->
  Forall (fun ur => r_escalated (snd ur) = false) (wrun dl w evs).
Proof.
  intros dl evs. induction evs as [|[[u now] e] evs IH]; intros w H; simpl; constructor.
  - simpl. apply proc_never_fatal. inversion H; assumption.
  - apply IH. inversion H; assumption.
Qed.

(* non-interference: in ANY interleaving of processing cycles, what an object experiences (whether and
   when it runs, its pauses, its throttler) is exactly what it would experience alone: the errors
   of other objects neither delay nor accelerate it *)
Lemma wrun_noninterference : forall dl evs w v,
  of_object v (wrun dl w evs) = run_proc dl (w v) (events_of v evs).
Proof.
  intros dl evs. induction evs as [|[[u now] e] evs IH]; intros w v; [reflexivity|].
  unfold of_object, events_of in *. simpl.
  destruct (Nat.eqb u v) eqn:E.
  - apply Nat.eqb_eq in E. subst u. simpl. f_equal.
    rewrite IH. rewrite Nat.eqb_refl. reflexivity.
  - rewrite IH. rewrite Nat.eqb_sym in E. rewrite E. reflexivity.
Qed.

(* both together: inside any interleaving with any other objects, object v's cycles obey the delay law *)
Lemma contained_sequence : forall l evs w v c,
  TInv l (w v) c ->
  of_object v (wrun (dl_list l) w evs) = map snd (proc_counts (dl_list l) (w v) c (events_of v evs)) /\
  Forall (step_ok (expected l)) (proc_counts (dl_list l) (w v) c (events_of v evs)).
Proof.
  intros l evs w v c HI. split.
  - rewrite wrun_noninterference, proc_counts_results. reflexivity.
  - apply throttle_sequence_proc. exact HI.
Qed.

Lemma never_fatal_all : forall dl,
  (forall st now e, e_body e <> BEsc -> r_escalated (proc_event dl st now e) = false) /\
  (forall evs w, Forall (fun x => e_body (snd x) <> BEsc) evs ->
                 Forall (fun ur => r_escalated (snd ur) = false) (wrun dl w evs)).
Proof. intros dl. split; [apply proc_never_fatal|apply wrun_never_fatal]. Qed.

Definition ex_err : ep := {| e_ev := false; e_wk1 := None; e_body := BErr; e_dur := 0; e_evb := false; e_wk2 := None |}.
Definition ex_err_woken : ep := {| e_ev := false; e_wk1 := None; e_body := BErr; e_dur := 0; e_evb := false; e_wk2 := Some 1 |}.
Definition ex_ok : ep := {| e_ev := false; e_wk1 := Some 1; e_body := BOk; e_dur := 0; e_evb := false; e_wk2 := None |}.

(* two objects: 0 errs twice (pauses 2 then 4; a new event at t=1 interrupts the first pause, its cycle waits until t=2),
   1 is processed in between at its own times, untouched *)
Example wrun_example :
  map (fun ur => (fst ur, r_should (snd ur), r_start (snd ur), r_pause (snd ur), r_escalated (snd ur)))
      (wrun (dl_list [2; 4; 6]) w0 [(0%nat, 0, ex_err_woken); (1%nat, 1, ex_ok); (0%nat, 1, ex_err); (1%nat, 3, ex_ok)])
  = [(0%nat, true, 0, Some 2, false); (1%nat, true, 1, None, false); (0%nat, true, 2, Some 4, false); (1%nat, true, 3, None, false)].
Proof. vm_compute. reflexivity. Qed.

(* ---------- non-vacuity ---------- *)
Example throttle_example :
  map (fun r => (r_should r, r_pause r, r_exit r))
      (run_eps (dl_list [2; 4; 6]) t0
         [(0, {| e_ev := false; e_wk1 := None; e_body := BErr; e_dur := 0; e_evb := false; e_wk2 := None |});
          (2, {| e_ev := false; e_wk1 := None; e_body := BErr; e_dur := 0; e_evb := false; e_wk2 := Some 1 |});
          (3, {| e_ev := false; e_wk1 := Some 1; e_body := BOk; e_dur := 0; e_evb := false; e_wk2 := None |});
          (4, {| e_ev := false; e_wk1 := None; e_body := BOk; e_dur := 0; e_evb := false; e_wk2 := None |});
          (9, {| e_ev := false; e_wk1 := None; e_body := BErr; e_dur := 0; e_evb := false; e_wk2 := None |})])
  = [(true, Some 2, 2); (true, Some 4, 3); (false, None, 4); (true, None, 6); (true, Some 2, 11)].
Proof. vm_compute. reflexivity. Qed.

(* ---------- non-vacuity of the hypotheses used above ---------- *)
(* a paused object (pause interrupted by a new event): `until` is set, one error counted *)
Example paused_example :
  let r := episode (dl_list [2; 4; 6]) t0 0 ex_err_woken in
  until (r_state r) = Some 2 /\ TInv [2; 4; 6] (r_state r) 1 /\ r_should r = true /\ r_pause r = Some 2 /\
  r_should (episode (dl_list [2; 4; 6]) (r_state r) 1 (with_body ex_err_woken BOk)) = true /\
  r_should (episode (dl_list [2; 4; 6]) (r_state r) 1
              {| e_ev := false; e_wk1 := Some 0; e_body := BOk; e_dur := 0; e_evb := false; e_wk2 := None |}) = false.
Proof. vm_compute. repeat split; try reflexivity. Qed.

Example finv_example : FInv (fun i => 2 + Z.of_nat i) (r_state (episode (dl_fun (fun i => 2 + Z.of_nat i)) t0 0 ex_err)) 1.
Proof. vm_compute. split; reflexivity. Qed.
