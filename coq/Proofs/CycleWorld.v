(* Lemmas about the closed loop of one object (Model/CycleWorld.v). *)
From Coq Require Import Arith List Bool Lia.
From KV Require Import Model.CycleWorld.
Import ListNotations.

Section Facts.
  Variable hc hu : list hid.
  Variable lc : lifecycle.
  Variable T : nat.

  Notation selected := (selected hc hu).
  Notation changing := (changing hc hu lc).
  Notation process := (process hc hu lc).
  Notation planned := (planned hc hu lc).
  Notation todo := (todo hc hu).
  Notation state_after := (state_after hc hu lc).
  Notation all_done := (all_done hc hu lc).

  (* ---------- the lifecycle picks among the awake handlers, and at least one if there is any ---------- *)
  Lemma min_by_in f l b : In (min_by f l b) (b :: l).
  Proof.
    revert b. induction l as [|h l IH]; intro b; cbn [min_by]; [left; reflexivity|].
    destruct (f h <? f b).
    - specialize (IH h). destruct IH as [E|I]; [right; left; exact E|right; right; exact I].
    - specialize (IH b). destruct IH as [E|I]; [left; exact E|right; right; exact I].
  Qed.

  Lemma plan_subset now v l h : In h (plan lc now v l) -> In h l.
  Proof.
    unfold plan. destruct lc, l as [|x l]; cbn; try tauto.
    intros [E|[]]. subst h. apply (min_by_in _ l x).
  Qed.

  Lemma plan_nonempty now v l : l <> [] -> plan lc now v l <> [].
  Proof. unfold plan. destruct lc, l as [|x l]; congruence. Qed.

  Lemma planned_awake now v h : In h (planned now v) -> awakened now (hstate now v h) = true /\ In h (selected v).
  Proof.
    unfold CycleWorld.planned. intro H. apply plan_subset in H. unfold CycleWorld.todo in H.
    apply filter_In in H. tauto.
  Qed.

  (* ---------- C02-in-the-loop: only unfinished, awake handlers are invoked, with their recorded retries ---------- *)
  Lemma invoked_only_unfinished now v oracle h r o :
    In (h, r, o) (d_invoked (changing now v oracle)) ->
    In h (selected v) /\ awakened now (hstate now v h) = true /\ r = retries_of (hstate now v h) /\ o = oracle h.
  Proof.
    unfold CycleWorld.changing. destruct (selected v) eqn:S; [cbn; tauto|].
    destruct (all_done now v oracle); cbn [d_invoked]; rewrite in_map_iff; intros (x & E & I);
      injection E as <- <- <-; apply planned_awake in I; rewrite S in I; tauto.
  Qed.

  Lemma finished_never_invoked now v oracle h ok r o :
    rget h (o_recs v) = Some (HDone ok) -> ~ In (h, r, o) (d_invoked (changing now v oracle)).
  Proof.
    intros R I. apply invoked_only_unfinished in I. destruct I as (_ & A & _).
    unfold hstate in A. rewrite R in A. discriminate.
  Qed.

  (* ---------- closing: last-handled is written exactly when every selected handler has finished ---------- *)
  Lemma closing_sound now v oracle e :
    d_last (changing now v oracle) = Some e ->
    e = o_ess v /\ all_done now v oracle = true /\ (selected v <> [] -> d_purge (changing now v oracle) = true).
  Proof.
    unfold CycleWorld.changing. destruct (selected v) eqn:S.
    - cbn. intro E; injection E as <-. unfold CycleWorld.all_done. rewrite S. cbn. tauto.
    - destruct (all_done now v oracle) eqn:D; cbn; [|discriminate].
      intro E; injection E as <-. tauto.
  Qed.

  Lemma not_closed_before_done now v oracle :
    all_done now v oracle = false -> d_last (changing now v oracle) = None /\ d_purge (changing now v oracle) = false.
  Proof.
    unfold CycleWorld.changing. intro D. destruct (selected v) eqn:S.
    - unfold CycleWorld.all_done in D. rewrite S in D. discriminate.
    - rewrite D. cbn. tauto.
  Qed.

  (* ---------- progress: an unsettled, consistent view never yields "nothing" ---------- *)
  Definition quiet (d : decision) : bool :=
    negb (has_merge d) && match d_fns d with [] => true | _ => false end && match d_delays d with [] => true | _ => false end.

  Lemma changing_progress now v oracle :
    has_merge (changing now v oracle) = true \/ d_delays (changing now v oracle) <> [].
  Proof.
    unfold CycleWorld.changing. destruct (selected v) eqn:S; [left; reflexivity|].
    destruct (all_done now v oracle) eqn:D; [left; reflexivity|].
    right. cbn [d_delays]. unfold CycleWorld.all_done in D. rewrite S in D.
    assert (exists x, In x (h :: l) /\ is_done (state_after now v oracle x) = false) as (x & Ix & Nx).
    { clear S. induction (h :: l) as [|y ys IH]; [discriminate|]. cbn in D.
      destruct (is_done (state_after now v oracle y)) eqn:E.
      - destruct (IH D) as (x & I & N). exists x. split; [right; exact I|exact N].
      - exists y. split; [left; reflexivity|exact E]. }
    intro E. apply map_eq_nil in E.
    assert (In x (filter (fun h0 => negb (is_done (state_after now v oracle h0))) (h :: l))) as I.
    { apply filter_In. split; [exact Ix|rewrite Nx; reflexivity]. }
    rewrite E in I. destruct I.
  Qed.

  (* with the finalizer as required, nothing carried and a consistent worker, a cycle is the change handling alone *)
  Definition wants_change (v : obj) : bool :=
    match cause_of v with Noop => false | _ => has_handlers hc hu end.

  Lemma process_plain now v oracle :
    process now (o_fin v) [] true v oracle =
    let d0 := if wants_change v then changing now v oracle else no_change in
    mkDec (d_invoked d0) (d_store d0) (d_purge d0) (d_last d0) [] (d_delays d0)
          (match d_store d0, d_purge d0, d_last d0 with [], false, None => false | _, _, _ => true end && o_dummy v)
          (d_handled d0).
  Proof.
    unfold CycleWorld.process, CycleWorld.process_at, wants_change, no_change, cause_of.
    destruct (o_fin v); cbn [andb negb app];
      destruct (cause_at false v) eqn:C; cbn [andb negb];
      try (unfold cause_at in C; destruct (o_last v); [destruct (Nat.eqb _ _)|]; discriminate);
      destruct (has_handlers hc hu); cbn [andb negb];
      cbn [d_invoked d_store d_purge d_last d_fns d_delays d_handled];
      try reflexivity;
      destruct (d_store (changing now v oracle)), (d_purge (changing now v oracle)), (d_last (changing now v oracle)); reflexivity.
  Qed.

  Lemma changing_untouch now v oracle : d_untouch (changing now v oracle) = false.
  Proof.
    unfold CycleWorld.changing. destruct (selected v); [reflexivity|]. destruct (all_done now v oracle); reflexivity.
  Qed.

  Lemma process_progress now nf v oracle :
    cause_of v <> Noop -> has_handlers hc hu = true -> nf = o_fin v ->
    quiet (process now nf [] true v oracle) = false.
  Proof.
    intros C H F. subst nf. rewrite process_plain.
    assert (W : wants_change v = true) by (unfold wants_change; destruct (cause_of v); congruence).
    rewrite W. cbn zeta. unfold quiet, has_merge. cbn [d_store d_purge d_last d_untouch d_fns d_delays].
    destruct (changing_progress now v oracle) as [M|D].
    - unfold has_merge in M. rewrite changing_untouch in M.
      destruct (d_store (changing now v oracle)), (d_purge (changing now v oracle)), (d_last (changing now v oracle));
        cbn in *; try discriminate; reflexivity.
    - destruct (d_delays (changing now v oracle)); [congruence|]. rewrite !andb_false_r. reflexivity.
  Qed.

  (* the contrapositive: when processing yields nothing at all, there is no outstanding change *)
  Lemma fixpoint_sound_partial now nf v oracle :
    has_handlers hc hu = true -> nf = o_fin v ->
    quiet (process now nf [] true v oracle) = true ->
    o_last v = Some (o_ess v).
  Proof.
    intros H F Q. destruct (cause_of v) eqn:C.
    - rewrite process_progress in Q; congruence.
    - rewrite process_progress in Q; congruence.
    - unfold cause_of, cause_at in C. destruct (o_last v) as [l|]; [|discriminate].
      destruct (Nat.eqb l (o_ess v)) eqn:E; discriminate.
    - unfold cause_of, cause_at in C. destruct (o_last v) as [l|]; [|discriminate].
      destruct (Nat.eqb l (o_ess v)) eqn:E; [|discriminate]. apply Nat.eqb_eq in E. congruence.
  Qed.

  (* and it stops writing: a settled view with the finalizer as required and no touch marker yields nothing *)
  Lemma settled_view_is_quiet now v oracle :
    o_last v = Some (o_ess v) -> o_dummy v = false ->
    process now (o_fin v) [] true v oracle = mkDec [] [] false None [] [] false false.
  Proof.
    intros L D. rewrite process_plain. unfold wants_change, cause_of, cause_at. rewrite L, Nat.eqb_refl. cbn. reflexivity.
  Qed.

  (* ---------- variant: while handlers stop failing, each cycle finishes at least one more handler ---------- *)
  Definition unfinished (st : hid -> hst) (l : list hid) : nat := List.length (filter (fun h => negb (is_done (st h))) l).

  Lemma unfinished_le st st' l :
    (forall h, is_done (st h) = true -> is_done (st' h) = true) -> unfinished st' l <= unfinished st l.
  Proof.
    intro M. unfold unfinished. induction l as [|x l IH]; cbn; [lia|].
    destruct (is_done (st x)) eqn:A.
    - rewrite (M x A). cbn. exact IH.
    - destruct (is_done (st' x)); cbn; lia.
  Qed.

  Lemma unfinished_lt st st' l x :
    (forall h, is_done (st h) = true -> is_done (st' h) = true) ->
    In x l -> is_done (st x) = false -> is_done (st' x) = true -> unfinished st' l < unfinished st l.
  Proof.
    intros M I A B. unfold unfinished. induction l as [|y l IH]; [destruct I|]. cbn.
    destruct I as [->|I].
    - rewrite A, B. cbn. pose proof (unfinished_le st st' l M) as L. unfold unfinished in L. lia.
    - specialize (IH I). destruct (is_done (st y)) eqn:Y.
      + rewrite (M y Y). cbn. exact IH.
      + destruct (is_done (st' y)); cbn; lia.
  Qed.

  Lemma cycle_finishes_one now v oracle :
    (forall h, oracle h = OK) -> todo now v <> [] ->
    unfinished (state_after now v oracle) (selected v) < unfinished (hstate now v) (selected v).
  Proof.
    intros OKs TD.
    pose proof (plan_nonempty now v (todo now v) TD) as PN.
    fold (planned now v) in PN.
    destruct (planned now v) as [|x pl] eqn:P; [congruence|].
    assert (In x (planned now v)) as Ix by (rewrite P; left; reflexivity).
    destruct (planned_awake now v x Ix) as (A & S).
    apply (unfinished_lt _ _ _ x).
    - intros h Dn. unfold CycleWorld.state_after. destruct (existsb (Nat.eqb h) (planned now v)); [|exact Dn].
      rewrite (OKs h). reflexivity.
    - exact S.
    - unfold awakened in A. destruct (hstate now v x); [reflexivity|discriminate].
    - unfold CycleWorld.state_after.
      assert (existsb (Nat.eqb x) (planned now v) = true) as E.
      { apply existsb_exists. exists x. split; [exact Ix|apply Nat.eqb_refl]. }
      rewrite E, (OKs x). reflexivity.
  Qed.

  (* ---------- level-triggering: edits made while the operator is down accumulate into ONE view ---------- *)
  Notation run := (run hc hu lc T).
  Notation step := (step hc hu lc T).

  Fixpoint last_or (d : nat) (l : list nat) : nat := match l with [] => d | x :: l' => last_or x l' end.

  Lemma edits_while_down w es :
    m_up (w_mem w) = false ->
    exists w', run w (map Edit es) = Some w'
               /\ w_mem w' = w_mem w
               /\ o_ess (w_srv w') = last_or (o_ess (w_srv w)) es
               /\ o_last (w_srv w') = o_last (w_srv w)
               /\ o_recs (w_srv w') = o_recs (w_srv w)
               /\ o_fin (w_srv w') = o_fin (w_srv w)
               /\ w_need_fin w' = w_need_fin w.
  Proof.
    revert w. induction es as [|e es IH]; intros w Up.
    - exists w. cbn. tauto.
    - cbn [map CycleWorld.run CycleWorld.step]. unfold enqueue. rewrite Up.
      set (w1 := mkWorld (bump (w_srv w) e) (w_mem w) (w_need_fin w) (w_now w) (w_log w)).
      destruct (IH w1 Up) as (w' & R & M & E & L & Rc & F & N).
      exists w'. cbn in *. repeat split; assumption.
  Qed.

  Lemma downtime_accumulates w es nf :
    exists w', run w (Kill :: map Edit es ++ [Start nf]) = Some w'
               /\ m_queue (w_mem w') = [w_srv w']
               /\ o_ess (w_srv w') = last_or (o_ess (w_srv w)) es
               /\ o_last (w_srv w') = o_last (w_srv w)
               /\ o_recs (w_srv w') = o_recs (w_srv w).
  Proof.
    cbn [CycleWorld.run CycleWorld.step].
    set (w0 := mkWorld (w_srv w) (mkMem false [] [] None None false) (w_need_fin w) (w_now w) (w_log w)).
    destruct (edits_while_down w0 es eq_refl) as (w1 & R & M & E & L & Rc & F & N).
    assert (forall a b x, CycleWorld.run hc hu lc T x (a ++ b) =
                          match CycleWorld.run hc hu lc T x a with Some y => CycleWorld.run hc hu lc T y b | None => None end) as RA.
    { intros a b. induction a as [|l a IH]; intro x; cbn; [reflexivity|]. destruct (CycleWorld.step hc hu lc T x l); [apply IH|reflexivity]. }
    rewrite RA, R. cbn [CycleWorld.run CycleWorld.step]. rewrite M. cbn.
    eexists. split; [reflexivity|]. cbn. tauto.
  Qed.
End Facts.

(* ---------- the full statement is false of the faithful model: three witnesses, each a trace recorded from
   the real operator (corpus/C03/*.json) and accepted by the acceptor ---------- *)
Definition f13_trace : list label :=
  [Start false; Tick 4; Proc [] false 0; Proc [] false 0; Tick 10; Edit 2; Proc [(0, OK)] false 0;
   Proc [(1, Temp 16)] false 0; Proc [] false 0; Tick 6; Edit 3; Proc [] false 0; Tick 10; Fire;
   Proc [(1, OK)] false 0; Proc [] false 0].

(* F13: converged and settled, yet handler 0's only completed run saw essence 2, not the final essence 3 *)
Lemma absorbed_change_witness :
  exists w, run [] [0; 1] Asap 40 (init 1 false) f13_trace = Some w
            /\ quiescent w = true /\ settled [] [0; 1] (w_srv w) = true /\ o_ess (w_srv w) = 3
            /\ filter (fun x => Nat.eqb (fst (fst (fst x))) 0) (w_log w) = [(0, 0, 2, OK)].
Proof. eexists. vm_compute. repeat split. Qed.

Definition f14_trace : list label :=
  [Start true; Tick 4; Proc [] false 0; Proc [] false 0; Proc [] false 0; Tick 10; Edit 2;
   Proc [(0, Temp 16)] false 0; Proc [] false 0; Tick 6; DaemonExit; Tick 10; Fire;
   Proc [] false 0; Proc [] false 0; Proc [] false 0].

(* F14: nothing queued, no sleep pending, nothing carried — and the update handler is still unfinished *)
Lemma carried_patch_stall_witness :
  exists w, run [] [0] Asap 40 (init 1 true) f14_trace = Some w
            /\ quiescent w = true /\ m_carried (w_mem w) = [] /\ settled [] [0] (w_srv w) = false
            /\ rget 0 (o_recs (w_srv w)) = Some (HOpen 1 30) /\ o_last (w_srv w) = Some 1 /\ o_ess (w_srv w) = 2.
Proof. eexists. vm_compute. repeat split. Qed.

Definition f15_trace : list label :=
  [Start false; Tick 4; Proc [] false 0; Proc [] false 0; Tick 10; Edit 2; Proc [(0, Temp 16)] false 0;
   Proc [] false 0; Tick 6; Edit 1; Proc [] false 0].

(* F15: last-handled equals the essence again, nothing will ever run, but the progress record stays *)
Lemma reverted_change_witness :
  exists w, run [] [0] Asap 40 (init 1 false) f15_trace = Some w
            /\ quiescent w = true /\ o_last (w_srv w) = Some (o_ess (w_srv w))
            /\ rget 0 (o_recs (w_srv w)) = Some (HOpen 1 30) /\ settled [] [0] (w_srv w) = false.
Proof. eexists. vm_compute. repeat split. Qed.

(* non-vacuity of the positive lemmas: a plain create-edit history converges to a settled state *)
Example plain_history_converges :
  exists w, run [0] [1] Asap 40 (init 1 false)
                [Start false; Proc [(0, OK)] false 0; Proc [] false 0; Edit 2; Proc [(1, Temp 8)] false 0; Proc [] false 0;
                 Tick 8; Fire; Proc [(1, OK)] false 0; Proc [] false 0] = Some w
            /\ quiescent w = true /\ settled [0] [1] (w_srv w) = true /\ o_ess (w_srv w) = 2.
Proof. eexists. vm_compute. repeat split. Qed.
