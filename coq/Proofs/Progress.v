(* C02 — lemmas about Model/Progress.v (State / HandlerState algebra, the pipeline of process_changing_cause,
   subhandling.execute).  Statements exported by Props/C02.v. *)
From Coq Require Import ZArith List String Bool Ascii Lia.
From KV Require Import Base.Harness Model.Progress.
Import ListNotations.
Open Scope string_scope. Open Scope Z_scope. Open Scope list_scope.

(* ------------------------------------------------------------------ association lists *)
Lemma pg_mem_In : forall k l, pg_mem k l = true <-> In k l.
Proof.
  induction l as [|x l IH]; simpl; [split; [discriminate|tauto]|].
  rewrite orb_true_iff, String.eqb_eq, IH. tauto.
Qed.

Lemma pg_mem_false : forall k l, pg_mem k l = false <-> ~ In k l.
Proof. intros. rewrite <- pg_mem_In. destruct (pg_mem k l); split; congruence. Qed.

Lemma pg_find_In : forall A k (l : list (pg_hid * A)) v, pg_find k l = Some v -> In (k, v) l.
Proof.
  induction l as [|[k' v'] l IH]; simpl; intros v H; [discriminate|].
  destruct (String.eqb k' k) eqn:E.
  - apply String.eqb_eq in E. inversion H. subst. now left.
  - right. now apply IH.
Qed.

Lemma pg_find_none : forall A k (l : list (pg_hid * A)), pg_find k l = None <-> ~ In k (map fst l).
Proof.
  induction l as [|[k' v'] l IH]; simpl; [tauto|].
  destruct (String.eqb k' k) eqn:E.
  - apply String.eqb_eq in E. split; [discriminate|]. intros H. exfalso. apply H. now left.
  - apply String.eqb_neq in E. rewrite IH. tauto.
Qed.

Lemma pg_In_find : forall A k (l : list (pg_hid * A)), In k (map fst l) -> exists v, pg_find k l = Some v.
Proof.
  intros A k l H. destruct (pg_find k l) eqn:E; [eauto|]. apply pg_find_none in E. tauto.
Qed.

Lemma pg_find_app : forall A k (l1 l2 : list (pg_hid * A)),
  pg_find k (l1 ++ l2) = match pg_find k l1 with Some v => Some v | None => pg_find k l2 end.
Proof.
  induction l1 as [|[k' v'] l1 IH]; simpl; intros; [reflexivity|].
  destruct (String.eqb k' k); [reflexivity|apply IH].
Qed.

Lemma pg_find_map : forall A B (f : pg_hid -> A -> B) k (l : list (pg_hid * A)),
  pg_find k (map (fun kv => (fst kv, f (fst kv) (snd kv))) l) = option_map (f k) (pg_find k l).
Proof.
  induction l as [|[k' v'] l IH]; simpl; [reflexivity|].
  destruct (String.eqb k' k) eqn:E; [|apply IH].
  apply String.eqb_eq in E. now subst.
Qed.

Lemma pg_has_In : forall A k (l : list (pg_hid * A)), pg_has k l = true <-> In k (map fst l).
Proof.
  intros. unfold pg_has. destruct (pg_find k l) eqn:E.
  - split; [intros _|reflexivity]. apply pg_find_In in E. apply in_map_iff. now exists (k, a).
  - apply pg_find_none in E. split; [discriminate|tauto].
Qed.

(* ------------------------------------------------------------------ dedup / sort keep membership *)
Lemma pg_dedup_In : forall k l, In k (pg_dedup l) <-> In k l.
Proof.
  induction l as [|x l IH]; simpl; [tauto|].
  rewrite filter_In, IH, negb_true_iff, String.eqb_neq.
  destruct (string_dec x k); [subst; tauto|]. tauto.
Qed.

Lemma pg_insert_In : forall k x l, In k (pg_insert x l) <-> k = x \/ In k l.
Proof.
  induction l as [|y l IH]; simpl; [intuition|].
  destruct (String.leb x y); simpl; [intuition|]. rewrite IH. intuition.
Qed.

Lemma pg_sort_In : forall k l, In k (pg_sort l) <-> In k l.
Proof.
  induction l as [|x l IH]; simpl; [tauto|]. rewrite pg_insert_In, IH. intuition.
Qed.

(* ------------------------------------------------------------------ field-wise effect of the HandlerState operations *)
Definition pg_core (h : pg_hstate) := (h_success h, h_failure h, h_retries h, h_delayed h).

Lemma pg_core_as_active : forall h, pg_core (pg_as_active h) = pg_core h.
Proof. reflexivity. Qed.
Lemma pg_core_with_purpose : forall p h, pg_core (pg_hs_with_purpose p h) = pg_core h.
Proof. reflexivity. Qed.

Lemma pg_finished_core : forall h h', pg_core h = pg_core h' -> pg_finished h = pg_finished h'.
Proof. unfold pg_core, pg_finished. intros h h' H. inversion H. congruence. Qed.

Lemma pg_awakened_core : forall now h h', pg_core h = pg_core h' -> pg_awakened now h = pg_awakened now h'.
Proof.
  unfold pg_awakened, pg_sleeping. intros now h h' H. rewrite (pg_finished_core _ _ H).
  unfold pg_core in H. inversion H. congruence.
Qed.

(* ------------------------------------------------------------------ State operations through pg_find *)
Lemma pg_find_upd : forall k k' f items,
  pg_find k (pg_upd k' f items) = if String.eqb k' k then option_map f (pg_find k items) else pg_find k items.
Proof.
  induction items as [|[a h] items IH]; simpl.
  - now destruct (String.eqb k' k).
  - destruct (String.eqb a k') eqn:E1, (String.eqb a k) eqn:E2, (String.eqb k' k) eqn:E3; simpl;
      rewrite ?E2, ?E3 in *; simpl; try reflexivity; try exact IH;
      rewrite ?String.eqb_eq, ?String.eqb_neq in *; subst; congruence.
Qed.

Lemma pg_upd_keys : forall k f items, map fst (pg_upd k f items) = map fst items.
Proof.
  induction items as [|[a h] items IH]; simpl; [reflexivity|].
  destruct (String.eqb a k); simpl; now rewrite IH.
Qed.

Definition pg_wh_step (now : Z) (p : option string) (items : pg_items) (k : pg_hid) : pg_items :=
  if pg_has k items then pg_upd k pg_as_active items else items ++ [(k, pg_from_scratch now p)].

Lemma pg_with_handlers_fold : forall st ids now,
  st_items (pg_with_handlers st ids now) = fold_left (pg_wh_step now (st_purpose st)) ids (st_items st).
Proof. reflexivity. Qed.

Lemma pg_as_active_idem : forall h, pg_as_active (pg_as_active h) = pg_as_active h.
Proof. reflexivity. Qed.
Lemma pg_as_active_scratch : forall now p, pg_as_active (pg_from_scratch now p) = pg_from_scratch now p.
Proof. reflexivity. Qed.

(* the state of id k after with_handlers *)
Definition pg_wh_spec (now : Z) (p : option string) (ids : list pg_hid) (k : pg_hid) (old : option pg_hstate) : option pg_hstate :=
  if pg_mem k ids
  then Some (match old with Some h => pg_as_active h | None => pg_from_scratch now p end)
  else old.

Lemma pg_find_wh_fold : forall now p ids items k,
  pg_find k (fold_left (pg_wh_step now p) ids items) = pg_wh_spec now p ids k (pg_find k items).
Proof.
  induction ids as [|i ids IH]; intros items k; simpl; [reflexivity|].
  rewrite IH. unfold pg_wh_spec, pg_wh_step. simpl.
  destruct (pg_has i items) eqn:Hh.
  - rewrite pg_find_upd. destruct (String.eqb i k) eqn:E; simpl.
    + apply String.eqb_eq in E. subst i. unfold pg_has in Hh. destruct (pg_find k items); [|discriminate]. simpl.
      destruct (pg_mem k ids); now rewrite ?pg_as_active_idem.
    + reflexivity.
  - rewrite pg_find_app. simpl. destruct (String.eqb i k) eqn:E; simpl.
    + apply String.eqb_eq in E. subst i. unfold pg_has in Hh. destruct (pg_find k items); [discriminate|].
      destruct (pg_mem k ids); now rewrite ?pg_as_active_scratch.
    + destruct (pg_find k items); reflexivity.
Qed.

Lemma pg_find_with_handlers : forall st ids now k,
  pg_find k (st_items (pg_with_handlers st ids now)) = pg_wh_spec now (st_purpose st) ids k (pg_find k (st_items st)).
Proof. intros. rewrite pg_with_handlers_fold. apply pg_find_wh_fold. Qed.

Lemma pg_find_with_purpose : forall st p ids k,
  pg_find k (st_items (pg_with_purpose st p ids)) =
  option_map (fun h => if pg_mem k ids then pg_hs_with_purpose p h else h) (pg_find k (st_items st)).
Proof.
  intros. unfold pg_with_purpose. simpl.
  rewrite <- (pg_find_map _ _ (fun k h => if pg_mem k ids then pg_hs_with_purpose p h else h)).
  f_equal. apply map_ext. intros [a h]. simpl. now destruct (pg_mem a ids).
Qed.

Lemma pg_find_flat_map_owned : forall (body : list (pg_hid * pg_srec)) now l k,
  NoDup l ->
  pg_find k (flat_map (fun k => match pg_find k body with
                                | Some d => [(k, pg_hs_from_storage now d)]
                                | None => [] end) l) =
  if pg_mem k l then option_map (pg_hs_from_storage now) (pg_find k body) else None.
Proof.
  induction l as [|x l IH]; intros k ND; simpl; [reflexivity|].
  inversion ND as [|? ? Hx ND']. subst. rewrite pg_find_app, IH by assumption.
  destruct (String.eqb x k) eqn:E; simpl.
  - apply String.eqb_eq in E. subst x. destruct (pg_find k body); simpl.
    + now rewrite String.eqb_refl.
    + apply pg_mem_false in Hx. now rewrite Hx.
  - destruct (pg_find x body); simpl; [now rewrite E|reflexivity].
Qed.

Lemma pg_dedup_NoDup : forall l, NoDup (pg_dedup l).
Proof.
  induction l as [|x l IH]; simpl; [constructor|].
  constructor.
  - rewrite filter_In, negb_true_iff, String.eqb_neq. tauto.
  - now apply NoDup_filter.
Qed.

Lemma pg_find_from_storage : forall body owned now k,
  pg_find k (st_items (pg_from_storage body owned now)) =
  if pg_mem k owned then option_map (pg_hs_from_storage now) (pg_find k body) else None.
Proof.
  intros. unfold pg_from_storage. simpl. rewrite pg_find_flat_map_owned by apply pg_dedup_NoDup.
  destruct (pg_mem k (pg_dedup owned)) eqn:E1, (pg_mem k owned) eqn:E2; try reflexivity.
  - rewrite pg_mem_In, pg_dedup_In, <- pg_mem_In in E1. congruence.
  - rewrite pg_mem_In, <- pg_dedup_In, <- pg_mem_In in E2. congruence.
Qed.

(* ------------------------------------------------------------------ the prepared state of the pipeline *)
Definition pg_base (body : list (pg_hid * pg_srec)) (owned : list pg_hid) (now : Z) (k : pg_hid) : option pg_hstate :=
  if pg_mem k owned then option_map (pg_hs_from_storage now) (pg_find k body) else None.

Lemma pg_prepare1_find : forall body owned reason selected now k,
  pg_find k (st_items (pg_prepare1 body owned reason selected now)) =
  pg_wh_spec now (Some (pg_reason_str reason)) selected k (pg_base body owned now k).
Proof.
  intros. unfold pg_prepare1. rewrite pg_find_with_handlers, pg_find_with_purpose, pg_find_from_storage.
  cbn [st_purpose pg_with_purpose pg_mem]. unfold pg_base.
  destruct (pg_mem k owned); [|reflexivity]. now destruct (pg_find k body).
Qed.

Lemma pg_prepare_find : forall body owned reason selected now k,
  pg_find k (st_items (pg_prepare body owned reason selected now)) =
  option_map (fun h => if pg_has_extras (pg_prepare1 body owned reason selected now) && pg_mem k selected
                       then pg_hs_with_purpose (Some (pg_reason_str reason)) h else h)
             (pg_wh_spec now (Some (pg_reason_str reason)) selected k (pg_base body owned now k)).
Proof.
  intros. unfold pg_prepare. destruct (pg_has_extras _) eqn:E; cbv iota; cbn [andb].
  - rewrite pg_find_with_purpose, pg_prepare1_find. reflexivity.
  - rewrite pg_prepare1_find. now destruct (pg_wh_spec _ _ _ _ _).
Qed.

Lemma pg_prepare_selected : forall body owned reason selected now k,
  In k selected ->
  exists h, pg_find k (st_items (pg_prepare body owned reason selected now)) = Some h /\
            h_active h = true /\
            pg_core h = pg_core (match pg_base body owned now k with
                                 | Some h0 => h0
                                 | None => pg_from_scratch now (Some (pg_reason_str reason)) end).
Proof.
  intros * Hin. rewrite pg_prepare_find. unfold pg_wh_spec.
  apply pg_mem_In in Hin. rewrite Hin. simpl. rewrite andb_true_r.
  eexists. split; [reflexivity|].
  destruct (pg_has_extras _), (pg_base body owned now k); simpl; auto.
Qed.

Lemma pg_prepare_unselected : forall body owned reason selected now k,
  ~ In k selected ->
  pg_find k (st_items (pg_prepare body owned reason selected now)) = pg_base body owned now k.
Proof.
  intros * Hin. rewrite pg_prepare_find. unfold pg_wh_spec.
  apply pg_mem_false in Hin. rewrite Hin, andb_false_r. now destruct (pg_base _ _ _ _).
Qed.

(* what the stored record says = what the loaded state says *)
Lemma pg_finished_from_storage : forall now d, pg_finished (pg_hs_from_storage now d) = pg_rec_finished (Some d).
Proof. reflexivity. Qed.
Lemma pg_retries_from_storage : forall now d, h_retries (pg_hs_from_storage now d) = pg_rec_retries (Some d).
Proof. reflexivity. Qed.
Lemma pg_sleeping_from_storage : forall now d, pg_sleeping now (pg_hs_from_storage now d) = pg_rec_sleeping now (Some d).
Proof. reflexivity. Qed.

Lemma pg_sleeping_core : forall now h h', pg_core h = pg_core h' -> pg_sleeping now h = pg_sleeping now h'.
Proof.
  unfold pg_sleeping. intros now h h' H. rewrite (pg_finished_core _ _ H).
  unfold pg_core in H. inversion H. congruence.
Qed.

(* a selected and owned handler is judged by its stored record *)
Lemma pg_prepare_selected_owned : forall body owned reason selected now k,
  In k selected -> In k owned ->
  exists h, pg_find k (st_items (pg_prepare body owned reason selected now)) = Some h /\
            h_active h = true /\
            pg_finished h = pg_rec_finished (pg_find k body) /\
            pg_sleeping now h = pg_rec_sleeping now (pg_find k body) /\
            h_retries h = pg_rec_retries (pg_find k body).
Proof.
  intros * Hs Ho. destruct (pg_prepare_selected body owned reason selected now k Hs) as (h & Hf & Ha & Hc).
  exists h. split; [exact Hf|]. split; [exact Ha|].
  unfold pg_base in Hc. apply pg_mem_In in Ho. rewrite Ho in Hc.
  rewrite (pg_finished_core _ _ Hc), (pg_sleeping_core now _ _ Hc).
  assert (Hr : h_retries h = h_retries (match option_map (pg_hs_from_storage now) (pg_find k body) with
                                         | Some h0 => h0 | None => pg_from_scratch now (Some (pg_reason_str reason)) end)).
  { unfold pg_core in Hc. inversion Hc. congruence. }
  rewrite Hr. destruct (pg_find k body); simpl; auto.
Qed.

(* ------------------------------------------------------------------ lifecycles only pick from what they are given *)
Lemma pg_argmin_In : forall st l b, In (pg_argmin st b l) (b :: l).
Proof.
  induction l as [|x l IH]; intros b; simpl; [now left|].
  destruct (pg_retries_of st x <? pg_retries_of st b).
  - destruct (IH x) as [H|H]; [right; left; exact H|right; right; exact H].
  - destruct (IH b) as [H|H]; [left; exact H|right; right; exact H].
Qed.

Lemma pg_lc_incl : forall lc st todo, incl (pg_lc_apply lc st todo) todo.
Proof.
  intros lc st todo k H. destruct lc; simpl in H.
  - exact H.
  - destruct todo; simpl in H; [tauto|]. destruct H as [H|[]]. now left.
  - destruct todo as [|b l]; simpl in H; [tauto|]. destruct H as [H|[]]. subst. apply pg_argmin_In.
  - apply in_flat_map in H. destruct H as (i & _ & H). destruct (nth_error todo i) eqn:E; [|destruct H].
    destruct H as [H|[]]. subst. eapply nth_error_In; eauto.
Qed.

Lemma pg_plan_spec : forall lc st handlers now k,
  In k (pg_plan lc st handlers now) ->
  In k handlers /\ exists h, pg_find k (st_items st) = Some h /\ pg_awakened now h = true.
Proof.
  intros * H. apply pg_lc_incl in H. unfold pg_todo in H. apply filter_In in H. destruct H as [H1 H2].
  split; [exact H1|]. destruct (pg_find k (st_items st)); [eauto|discriminate].
Qed.

(* ------------------------------------------------------------------ C02: who is invoked, and with which retry number *)
Lemma pg_pipeline_invoked : forall body owned reason selected lc now nd orc k n,
  In (k, n) (r_invoked (pg_pipeline body owned reason selected lc now nd orc)) ->
  In k (pg_plan lc (pg_prepare body owned reason selected now) selected now) /\
  n = pg_retries_of (pg_prepare body owned reason selected now) k.
Proof.
  intros * H. unfold pg_pipeline in H. destruct (negb (pg_handler_reason reason)); [destruct H|].
  destruct selected as [|s sel]; [destruct H|]. simpl r_invoked in H.
  unfold pg_invocations in H. apply in_map_iff in H. destruct H as (k' & E & Hin). inversion E. subst. auto.
Qed.

Theorem invoked_only_unfinished : forall body owned reason selected lc now nd orc k n,
  incl selected owned ->
  In (k, n) (r_invoked (pg_pipeline body owned reason selected lc now nd orc)) ->
  In k selected /\
  pg_rec_finished (pg_find k body) = false /\
  pg_rec_sleeping now (pg_find k body) = false /\
  n = pg_rec_retries (pg_find k body).
Proof.
  intros * Hincl H. apply pg_pipeline_invoked in H. destruct H as [Hp Hn].
  apply pg_plan_spec in Hp. destruct Hp as (Hs & h & Hf & Haw).
  destruct (pg_prepare_selected_owned body owned reason selected now k Hs (Hincl _ Hs)) as (h' & Hf' & _ & F & S & R).
  rewrite Hf in Hf'. inversion Hf'. subst h'.
  unfold pg_awakened in Haw. apply andb_true_iff in Haw. destruct Haw as [A1 A2].
  apply negb_true_iff in A1, A2. rewrite F in A1. rewrite S in A2.
  repeat split; auto. subst n. unfold pg_retries_of. now rewrite Hf.
Qed.

Theorem finished_never_selected : forall body owned reason selected lc now nd orc k,
  incl selected owned ->
  pg_rec_finished (pg_find k body) = true ->
  ~ In k (map fst (r_invoked (pg_pipeline body owned reason selected lc now nd orc))).
Proof.
  intros * Hincl Hfin H. apply in_map_iff in H. destruct H as ([k' n] & E & H). simpl in E. subst k'.
  apply (invoked_only_unfinished _ _ _ _ _ _ _ _ _ _ Hincl) in H. destruct H as (_ & F & _). congruence.
Qed.

Theorem retry_is_recorded_retries : forall body owned reason selected lc now nd orc k n,
  incl selected owned ->
  In (k, n) (r_invoked (pg_pipeline body owned reason selected lc now nd orc)) ->
  n = pg_rec_retries (pg_find k body).
Proof. intros * Hincl H. now apply (invoked_only_unfinished _ _ _ _ _ _ _ _ _ _ Hincl) in H. Qed.

(* without the registry's guarantee selected <= owned, a record of a non-owned id is never read *)
Theorem invoked_unowned_from_scratch : forall body owned reason selected lc now nd orc k n,
  ~ In k owned ->
  In (k, n) (r_invoked (pg_pipeline body owned reason selected lc now nd orc)) -> n = 0.
Proof.
  intros * Hno H. apply pg_pipeline_invoked in H. destruct H as [Hp Hn].
  apply pg_plan_spec in Hp. destruct Hp as (Hs & h & Hf & _).
  destruct (pg_prepare_selected body owned reason selected now k Hs) as (h' & Hf' & _ & Hc).
  rewrite Hf in Hf'. inversion Hf'. subst h'. unfold pg_base in Hc. apply pg_mem_false in Hno. rewrite Hno in Hc.
  subst n. unfold pg_retries_of. rewrite Hf. unfold pg_core in Hc. inversion Hc. reflexivity.
Qed.

(* ------------------------------------------------------------------ the keys of a State are distinct *)
Lemma pg_nodup_find : forall A (l : list (pg_hid * A)) k v, NoDup (map fst l) -> In (k, v) l -> pg_find k l = Some v.
Proof.
  induction l as [|[a x] l IH]; simpl; intros k v ND H; [tauto|].
  inversion ND as [|? ? Ha ND']. subst. destruct H as [H|H].
  - inversion H. subst. now rewrite String.eqb_refl.
  - destruct (String.eqb a k) eqn:E; [|now apply IH].
    apply String.eqb_eq in E. subst. exfalso. apply Ha. apply in_map_iff. now exists (k, v).
Qed.

Lemma pg_keys_from_storage : forall body owned now, NoDup (map fst (st_items (pg_from_storage body owned now))).
Proof.
  intros. unfold pg_from_storage. simpl. generalize (pg_dedup_NoDup owned). generalize (pg_dedup owned).
  induction l as [|x l IH]; simpl; intros ND; [constructor|]. inversion ND as [|? ? Hx ND']. subst.
  rewrite map_app. destruct (pg_find x body); simpl; [|now apply IH].
  constructor; [|now apply IH]. intros H. apply in_map_iff in H. destruct H as ([a h] & E & H). simpl in E. subst a.
  apply in_flat_map in H. destruct H as (y & Hy & H). destruct (pg_find y body); [|destruct H].
  destruct H as [H|[]]. inversion H. subst. tauto.
Qed.

Lemma pg_keys_with_purpose : forall st p ids, map fst (st_items (pg_with_purpose st p ids)) = map fst (st_items st).
Proof.
  intros. unfold pg_with_purpose. simpl. rewrite map_map. apply map_ext. intros [a h]. simpl. now destruct (pg_mem a ids).
Qed.

Lemma pg_nodup_snoc : forall (l : list pg_hid) a, NoDup l -> ~ In a l -> NoDup (l ++ [a]).
Proof.
  intros l a ND H. apply (NoDup_Add (a:=a) (l:=l)).
  - rewrite <- (app_nil_r l) at 1. apply Add_app.
  - split; assumption.
Qed.

Lemma pg_keys_wh_fold : forall now p ids items,
  NoDup (map fst items) -> NoDup (map fst (fold_left (pg_wh_step now p) ids items)).
Proof.
  induction ids as [|i ids IH]; simpl; intros items ND; [exact ND|]. apply IH. unfold pg_wh_step.
  destruct (pg_has i items) eqn:E.
  - now rewrite pg_upd_keys.
  - rewrite map_app. simpl. apply pg_nodup_snoc; [exact ND|].
    intros H. apply pg_has_In in H. congruence.
Qed.

Lemma pg_keys_with_outcomes : forall st outs now, map fst (st_items (pg_with_outcomes st outs now)) = map fst (st_items st).
Proof.
  intros. unfold pg_with_outcomes. simpl. rewrite map_map. apply map_ext. intros [a h]. simpl.
  now destruct (pg_out_of a outs).
Qed.

Lemma pg_keys_prepare1 : forall body owned reason selected now,
  NoDup (map fst (st_items (pg_prepare1 body owned reason selected now))).
Proof.
  intros. unfold pg_prepare1. rewrite pg_with_handlers_fold. apply pg_keys_wh_fold.
  rewrite pg_keys_with_purpose. apply pg_keys_from_storage.
Qed.

Lemma pg_keys_prepare : forall body owned reason selected now,
  NoDup (map fst (st_items (pg_prepare body owned reason selected now))).
Proof.
  intros. unfold pg_prepare. destruct (pg_has_extras _).
  - rewrite pg_keys_with_purpose. apply pg_keys_prepare1.
  - apply pg_keys_prepare1.
Qed.

Lemma pg_find_with_outcomes : forall st outs now k,
  pg_find k (st_items (pg_with_outcomes st outs now)) =
  option_map (fun h => match pg_out_of k outs with Some o => pg_hs_with_outcome now h o | None => h end)
             (pg_find k (st_items st)).
Proof.
  intros. unfold pg_with_outcomes. simpl.
  rewrite <- (pg_find_map _ _ (fun k h => match pg_out_of k outs with Some o => pg_hs_with_outcome now h o | None => h end)).
  f_equal. apply map_ext. intros [a h]. simpl. now destruct (pg_out_of a outs).
Qed.

Lemma pg_done_spec : forall st,
  NoDup (map fst (st_items st)) ->
  (pg_done st = true <->
   forall k h, pg_find k (st_items st) = Some h -> h_active h = true -> pg_finished h = true).
Proof.
  intros st ND. unfold pg_done. rewrite forallb_forall. split.
  - intros H k h Hf Ha. apply pg_find_In in Hf. specialize (H _ Hf). simpl in H. rewrite Ha in H. exact H.
  - intros H [k h] Hin. simpl. destruct (h_active h) eqn:Ha; [|reflexivity]. simpl.
    apply (H k h); [|exact Ha]. now apply pg_nodup_find.
Qed.

(* active = selected, in the prepared state and after the outcomes *)
Lemma pg_prepare_active : forall body owned reason selected now k h,
  pg_find k (st_items (pg_prepare body owned reason selected now)) = Some h ->
  (h_active h = true <-> In k selected).
Proof.
  intros * Hf. destruct (pg_mem k selected) eqn:E.
  - apply pg_mem_In in E. destruct (pg_prepare_selected body owned reason selected now k E) as (h' & Hf' & Ha & _).
    rewrite Hf in Hf'. inversion Hf'. subst. tauto.
  - apply pg_mem_false in E. rewrite (pg_prepare_unselected _ _ _ _ _ _ E) in Hf.
    unfold pg_base in Hf. destruct (pg_mem k owned); [|discriminate].
    destruct (pg_find k body); [|discriminate]. inversion Hf. subst. simpl. split; [discriminate|tauto].
Qed.

Lemma pg_active_with_outcome : forall now h o, h_active (pg_hs_with_outcome now h o) = h_active h.
Proof. reflexivity. Qed.

Definition pg_final_of (body : list (pg_hid * pg_srec)) (owned : list pg_hid) (reason : pg_reason)
           (selected : list pg_hid) (lc : pg_lifecycle) (now : Z) (orc : pg_oracle) : pg_state :=
  let st2 := pg_prepare body owned reason selected now in
  pg_with_outcomes st2 (pg_outs_of_run (pg_run orc st2 (pg_plan lc st2 selected now))) now.

Lemma pg_pipeline_final : forall body owned reason selected lc now nd orc,
  pg_handler_reason reason = true -> selected <> [] ->
  let r := pg_pipeline body owned reason selected lc now nd orc in
  r_final r = pg_final_of body owned reason selected lc now orc /\
  r_done r = Some (pg_done (r_final r)) /\ r_fho r = pg_done (r_final r) /\
  r_diffbase r = (pg_done (r_final r) && nd) /\ r_skip r = false.
Proof.
  intros * Hr Hs. unfold pg_pipeline. rewrite Hr. simpl negb. cbv iota.
  destruct selected as [|s sel]; [congruence|]. simpl. repeat split; reflexivity.
Qed.

Lemma pg_pipeline_skip : forall body owned reason lc now nd orc,
  pg_handler_reason reason = true ->
  let r := pg_pipeline body owned reason [] lc now nd orc in
  r_invoked r = [] /\ r_done r = None /\ r_skip r = true /\ r_fho r = true /\ r_diffbase r = nd.
Proof. intros * Hr. unfold pg_pipeline. rewrite Hr. simpl. repeat split; reflexivity. Qed.

Lemma pg_pipeline_idle : forall body owned reason selected lc now nd orc,
  pg_handler_reason reason = false ->
  let r := pg_pipeline body owned reason selected lc now nd orc in
  r_invoked r = [] /\ r_patch r = [] /\ r_fho r = false /\ r_diffbase r = false /\ r_delays r = [].
Proof. intros * Hr. unfold pg_pipeline. rewrite Hr. simpl. repeat split; reflexivity. Qed.

(* C02: closed exactly when every selected handler has finished *)
Theorem close_iff_done : forall body owned reason selected lc now nd orc,
  pg_handler_reason reason = true ->
  let r := pg_pipeline body owned reason selected lc now nd orc in
  (r_fho r = true <->
   forall k, In k selected -> exists h, pg_find k (st_items (r_final r)) = Some h /\ pg_finished h = true) /\
  r_diffbase r = (r_fho r && nd).
Proof.
  intros * Hr. destruct selected as [|s sel] eqn:Es.
  - destruct (pg_pipeline_skip body owned reason lc now nd orc Hr) as (_ & _ & _ & F & D).
    cbv zeta in *. rewrite F, D. split; [|reflexivity]. split; [intros _ k []|reflexivity].
  - rewrite <- Es. assert (Hne : selected <> []) by (rewrite Es; discriminate).
    destruct (pg_pipeline_final body owned reason selected lc now nd orc Hr Hne) as (Ff & _ & F & D & _).
    cbv zeta in *. rewrite D, F. split; [|reflexivity]. rewrite Ff.
    set (st2 := pg_prepare body owned reason selected now).
    unfold pg_final_of. fold st2.
    set (outs := pg_outs_of_run (pg_run orc st2 (pg_plan lc st2 selected now))).
    assert (ND : NoDup (map fst (st_items (pg_with_outcomes st2 outs now)))).
    { rewrite pg_keys_with_outcomes. apply pg_keys_prepare. }
    rewrite (pg_done_spec _ ND). split.
    + intros H k Hk.
      destruct (pg_prepare_selected body owned reason selected now k Hk) as (h & Hf & Ha & _). fold st2 in Hf.
      pose proof (pg_find_with_outcomes st2 outs now k) as E. rewrite Hf in E. simpl in E.
      eexists. split; [exact E|]. apply (H _ _ E). now destruct (pg_out_of k outs).
    + intros H k h Hf Ha.
      pose proof (pg_find_with_outcomes st2 outs now k) as E. rewrite Hf in E.
      destruct (pg_find k (st_items st2)) as [h2|] eqn:E2; [|discriminate]. simpl in E. inversion E as [E']. clear E.
      assert (Ha2 : h_active h2 = true). { rewrite E' in Ha. now destruct (pg_out_of k outs). }
      apply (pg_prepare_active body owned reason selected now k h2 E2) in Ha2.
      destruct (H k Ha2) as (h' & Hf' & Fin). rewrite Hf in Hf'. inversion Hf'. now subst.
Qed.

(* ------------------------------------------------------------------ the patch, through pg_find *)
Lemma pg_find_p_del : forall k k' p, pg_find k (pg_p_del k' p) = if String.eqb k' k then None else pg_find k p.
Proof.
  induction p as [|[a x] p IH]; simpl; [now destruct (String.eqb k' k)|].
  destruct (String.eqb a k') eqn:E1; simpl.
  - apply String.eqb_eq in E1. subst a. rewrite IH. destruct (String.eqb k' k); reflexivity.
  - rewrite IH. destruct (String.eqb a k) eqn:E2; [|reflexivity].
    destruct (String.eqb k' k) eqn:E3; [|reflexivity].
    apply String.eqb_eq in E2, E3. subst. rewrite String.eqb_refl in E1. discriminate.
Qed.

Lemma pg_find_p_set : forall k k' a p, pg_find k (pg_p_set k' a p) = if String.eqb k' k then Some a else pg_find k p.
Proof.
  intros. unfold pg_p_set. simpl. rewrite pg_find_p_del. now destruct (String.eqb k' k).
Qed.

Definition pg_purged (body : list (pg_hid * pg_srec)) (k : pg_hid) : option pg_pact :=
  if pg_has k body then Some PNull else None.

Lemma pg_find_purge1 : forall body p x k,
  pg_find k (pg_purge1 body p x) = if String.eqb x k then pg_purged body k else pg_find k p.
Proof.
  intros. unfold pg_purge1, pg_purged. destruct (String.eqb x k) eqn:E.
  - apply String.eqb_eq in E. subst x. destruct (pg_has k body).
    + now rewrite pg_find_p_set, String.eqb_refl.
    + now rewrite pg_find_p_del, String.eqb_refl.
  - destruct (pg_has x body); [rewrite pg_find_p_set|rewrite pg_find_p_del]; now rewrite E.
Qed.

Lemma pg_find_purge_fold : forall body ids p k,
  pg_find k (fold_left (pg_purge1 body) ids p) = if pg_mem k ids then pg_purged body k else pg_find k p.
Proof.
  induction ids as [|x ids IH]; intros p k; simpl; [reflexivity|].
  rewrite IH, pg_find_purge1. destruct (String.eqb x k); simpl; [|reflexivity]. now destruct (pg_mem k ids).
Qed.

Lemma pg_after_purged : forall body p k, pg_find k p = pg_purged body k -> pg_after body p k = None.
Proof.
  intros body p k H. unfold pg_after, pg_purged in *. rewrite H. unfold pg_has.
  destruct (pg_find k body); reflexivity.
Qed.

Lemma pg_find_store_fold : forall items p k,
  NoDup (map fst items) ->
  pg_find k (fold_left (fun p kv => if pg_changed (snd kv) then pg_p_set (fst kv) (PStore (pg_for_storage (snd kv))) p else p) items p) =
  match pg_find k items with
  | Some h => if pg_changed h then Some (PStore (pg_for_storage h)) else pg_find k p
  | None => pg_find k p
  end.
Proof.
  induction items as [|[a h] items IH]; intros p k ND; simpl; [reflexivity|].
  inversion ND as [|? ? Ha ND']. subst. rewrite IH by assumption.
  destruct (String.eqb a k) eqn:E.
  - apply String.eqb_eq in E. subst a. apply pg_find_none in Ha. rewrite Ha.
    destruct (pg_changed h); [|reflexivity]. now rewrite pg_find_p_set, String.eqb_refl.
  - destruct (pg_changed h); [|reflexivity]. rewrite pg_find_p_set, E. reflexivity.
Qed.

Lemma pg_find_store : forall st p k,
  NoDup (map fst (st_items st)) ->
  pg_find k (pg_store st p) =
  match pg_find k (st_items st) with
  | Some h => if pg_changed h then Some (PStore (pg_for_storage h)) else pg_find k p
  | None => pg_find k p
  end.
Proof. intros. unfold pg_store. now apply pg_find_store_fold. Qed.

Lemma pg_purge_ids_spec : forall st owned k,
  (In k owned \/ In k (map fst (st_items st)) \/ exists k' h, In (k', h) (st_items st) /\ In k (h_subrefs h)) ->
  pg_mem k (pg_purge_ids st owned) = true.
Proof.
  intros st owned k H. apply pg_mem_In. unfold pg_purge_ids. apply in_or_app.
  destruct (pg_mem k owned) eqn:E.
  - left. apply pg_dedup_In. now apply pg_mem_In.
  - destruct H as [H|[H|H]].
    + apply pg_mem_In in H. congruence.
    + right. apply in_map_iff in H. destruct H as ([a h] & Ea & H). simpl in Ea. subst a.
      apply in_flat_map. exists (k, h). split; [exact H|]. simpl. rewrite E. now left.
    + right. destruct H as (k' & h & H1 & H2). apply in_flat_map. exists (k', h). split; [exact H1|].
      simpl. apply in_or_app. now right.
Qed.

Lemma pg_apply_effects_pure : forall orc st plan p, pg_pure orc -> pg_apply_effects (pg_run orc st plan) p = p.
Proof.
  intros orc st plan p Hp. unfold pg_apply_effects, pg_run. induction plan as [|x plan IH]; simpl; [reflexivity|].
  rewrite Hp. simpl. exact IH.
Qed.

(* the patch of a call that executed handlers *)
Definition pg_patch_of (body : list (pg_hid * pg_srec)) (owned : list pg_hid) (reason : pg_reason)
           (selected : list pg_hid) (lc : pg_lifecycle) (now : Z) (orc : pg_oracle) : pg_patch :=
  let st2 := pg_prepare body owned reason selected now in
  let p1 := if pg_has_extras st2 then pg_purge body st2 owned [] else [] in
  let ran := pg_run orc st2 (pg_plan lc st2 selected now) in
  let st3 := pg_final_of body owned reason selected lc now orc in
  let p2 := pg_store st3 (pg_apply_effects ran p1) in
  if pg_done st3 then pg_purge body st3 owned p2 else p2.

Lemma pg_pipeline_patch : forall body owned reason selected lc now nd orc,
  pg_handler_reason reason = true -> selected <> [] ->
  r_patch (pg_pipeline body owned reason selected lc now nd orc) = pg_patch_of body owned reason selected lc now orc.
Proof.
  intros * Hr Hs. unfold pg_pipeline. rewrite Hr. simpl negb. cbv iota.
  destruct selected as [|s sel]; [congruence|]. reflexivity.
Qed.

(* C02: closing removes the records: the owned ids, every id of the state, every recorded or reported sub-handler *)
Theorem close_purges : forall body owned reason selected lc now nd orc,
  pg_handler_reason reason = true -> selected <> [] ->
  let r := pg_pipeline body owned reason selected lc now nd orc in
  r_done r = Some true ->
  forall k, (In k owned \/ In k (map fst (st_items (r_final r))) \/
             exists k' h, In (k', h) (st_items (r_final r)) /\ In k (h_subrefs h)) ->
            pg_after body (r_patch r) k = None.
Proof.
  intros * Hr Hs. destruct (pg_pipeline_final body owned reason selected lc now nd orc Hr Hs) as (Ff & Fd & _).
  cbv zeta in *. intros Hd k Hk. rewrite Fd in Hd. inversion Hd as [Hd'].
  rewrite pg_pipeline_patch by assumption. unfold pg_patch_of. rewrite <- Ff, Hd'.
  apply pg_after_purged. unfold pg_purge. rewrite pg_find_purge_fold, (pg_purge_ids_spec _ _ _ Hk). reflexivity.
Qed.

(* what a handler reported as its sub-handlers is part of its final state, hence purged on closing *)
Lemma pg_out_of_run : forall orc st plan k,
  pg_out_of k (pg_outs_of_run (pg_run orc st plan)) =
  if pg_mem k plan then Some (fst (orc k (pg_retries_of st k))) else None.
Proof.
  intros. unfold pg_out_of, pg_outs_of_run, pg_run. rewrite map_map. simpl.
  induction plan as [|x plan IH]; simpl; [reflexivity|].
  rewrite pg_find_app, IH. simpl. destruct (pg_mem k plan); simpl.
  - now rewrite orb_true_r.
  - rewrite orb_false_r. destruct (String.eqb x k) eqn:E; [|reflexivity]. apply String.eqb_eq in E. now subst.
Qed.

Theorem children_purged_with_parent : forall body owned reason selected lc now nd orc,
  pg_handler_reason reason = true -> selected <> [] ->
  let r := pg_pipeline body owned reason selected lc now nd orc in
  r_done r = Some true ->
  forall k n s, In (k, n) (r_invoked r) -> In s (o_subrefs (fst (orc k n))) ->
                pg_after body (r_patch r) s = None.
Proof.
  intros * Hr Hs r Hd k n s Hinv Hsub. subst r.
  apply (close_purges body owned reason selected lc now nd orc Hr Hs Hd). right. right.
  destruct (pg_pipeline_final body owned reason selected lc now nd orc Hr Hs) as (Ff & _).
  cbv zeta in Ff. rewrite Ff. unfold pg_final_of.
  apply pg_pipeline_invoked in Hinv. destruct Hinv as [Hp Hn].
  set (st2 := pg_prepare body owned reason selected now) in *.
  destruct (pg_plan_spec _ _ _ _ _ Hp) as (Hsel & h & Hf & _).
  exists k. eexists. split.
  - apply pg_find_In. rewrite pg_find_with_outcomes, Hf. simpl. reflexivity.
  - rewrite pg_out_of_run. apply pg_mem_In in Hp. rewrite Hp. simpl.
    apply pg_sort_In, pg_dedup_In, in_or_app. right. now subst n.
Qed.

(* a State object's records that are not changed are not written; everything written is a changed record *)
Definition pg_no_store (p : pg_patch) : Prop := forall k x, pg_find k p <> Some (PStore x).

Lemma pg_no_store_purge : forall body ids p, pg_no_store p -> pg_no_store (fold_left (pg_purge1 body) ids p).
Proof.
  intros body ids p H k x. rewrite pg_find_purge_fold. destruct (pg_mem k ids); [|apply H].
  unfold pg_purged. destruct (pg_has k body); discriminate.
Qed.

Lemma pg_no_store_nil : pg_no_store [].
Proof. intros k x. discriminate. Qed.

Theorem store_only_changed : forall body owned reason selected lc now nd orc,
  pg_pure orc ->
  let r := pg_pipeline body owned reason selected lc now nd orc in
  forall k x, pg_find k (r_patch r) = Some (PStore x) ->
    exists h, pg_find k (st_items (r_final r)) = Some h /\ pg_changed h = true /\ x = pg_for_storage h.
Proof.
  intros * Hp r k x H. subst r. unfold pg_pipeline in *. destruct (negb (pg_handler_reason reason)); [discriminate|].
  set (st2 := pg_prepare body owned reason selected now) in *.
  assert (H1 : pg_no_store (if pg_has_extras st2 then pg_purge body st2 owned [] else [])).
  { destruct (pg_has_extras st2); [apply pg_no_store_purge|]; apply pg_no_store_nil. }
  destruct selected as [|s sel] eqn:Es; [simpl in H; now apply H1 in H|]. rewrite <- Es in *.
  simpl in *. rewrite (pg_apply_effects_pure _ _ _ _ Hp) in H.
  set (st3 := pg_with_outcomes st2 _ now) in *.
  assert (ND : NoDup (map fst (st_items st3))).
  { unfold st3. rewrite pg_keys_with_outcomes. apply pg_keys_prepare. }
  assert (H2 : pg_find k (pg_store st3 (if pg_has_extras st2 then pg_purge body st2 owned [] else [])) = Some (PStore x)).
  { destruct (pg_done st3); [|exact H]. unfold pg_purge in H at 1. rewrite pg_find_purge_fold in H.
    destruct (pg_mem k (pg_purge_ids st3 owned)); [|exact H]. unfold pg_purged in H. destruct (pg_has k body); discriminate. }
  rewrite (pg_find_store _ _ _ ND) in H2. destruct (pg_find k (st_items st3)) as [h|] eqn:Ef; [|now apply H1 in H2].
  destruct (pg_changed h) eqn:Ec; [|now apply H1 in H2]. inversion H2. exists h. split; [exact Ef|]. split; [exact Ec|reflexivity].
Qed.

(* ... and a record identical to what was fetched is exactly an unchanged one *)
Lemma pg_oz_eqb_eq : forall a b, pg_oz_eqb a b = true <-> a = b.
Proof. destruct a, b; simpl; try (split; congruence). rewrite Z.eqb_eq. split; congruence. Qed.
Lemma pg_ostr_eqb_eq : forall a b, pg_ostr_eqb a b = true <-> a = b.
Proof. destruct a, b; simpl; try (split; congruence). rewrite String.eqb_eq. split; congruence. Qed.
Lemma pg_ob_eqb_eq : forall a b, pg_ob_eqb a b = true <-> a = b.
Proof. destruct a as [[]|], b as [[]|]; simpl; split; congruence. Qed.
Lemma pg_ids_eqb_eq : forall a b, pg_ids_eqb a b = true <-> a = b.
Proof.
  unfold pg_ids_eqb. induction a as [|x a IH]; destruct b as [|y b]; simpl; try (split; congruence).
  rewrite andb_true_iff, String.eqb_eq, IH. split; [intros []; congruence|intros E; inversion E; auto].
Qed.
Lemma pg_oids_eqb_eq : forall a b, opt_eqb pg_ids_eqb a b = true <-> a = b.
Proof. destruct a, b; simpl; try (split; congruence). rewrite pg_ids_eqb_eq. split; congruence. Qed.

Lemma pg_srec_eqb_eq : forall a b, pg_srec_eqb a b = true <-> a = b.
Proof.
  intros [a1 a2 a3 a4 a5 a6 a7 a8 a9] [b1 b2 b3 b4 b5 b6 b7 b8 b9]. unfold pg_srec_eqb. simpl.
  rewrite !andb_true_iff, !pg_oz_eqb_eq, !pg_ostr_eqb_eq, !pg_ob_eqb_eq, pg_oids_eqb_eq.
  split; [intros [[[[[[[[? ?] ?] ?] ?] ?] ?] ?] ?]; congruence|intros E; inversion E; repeat split; reflexivity].
Qed.

Theorem unchanged_iff_equal_to_origin : forall h,
  pg_changed h = false <-> h_origin h = Some (pg_for_storage h).
Proof.
  intros h. unfold pg_changed. destruct (h_origin h) as [d|]; [|split; discriminate].
  rewrite negb_false_iff, pg_srec_eqb_eq. split; congruence.
Qed.

(* ------------------------------------------------------------------ an open cycle keeps its records — when no supersession purge happens *)
Definition pg_all_store (p : pg_patch) : Prop := forall k a, pg_find k p = Some a -> exists x, a = PStore x.

Lemma pg_all_store_effects : forall ran p, pg_all_store p -> pg_all_store (pg_apply_effects ran p).
Proof.
  unfold pg_apply_effects. induction ran as [|ke ran IH]; simpl; intros p H; [exact H|]. apply IH.
  generalize (e_stores (snd (snd ke))). intros l. revert p H.
  induction l as [|kr l IHl]; simpl; intros p H; [exact H|]. apply IHl.
  intros k a. rewrite pg_find_p_set. destruct (String.eqb (fst kr) k); [|apply H]. intros E. inversion E. eauto.
Qed.

Lemma pg_all_store_store : forall st p, NoDup (map fst (st_items st)) -> pg_all_store p -> pg_all_store (pg_store st p).
Proof.
  intros st p ND H k a. rewrite (pg_find_store _ _ _ ND). destruct (pg_find k (st_items st)) as [h|]; [|apply H].
  destruct (pg_changed h); [|apply H]. intros E. inversion E. eauto.
Qed.

Theorem open_keeps_records_partial : forall body owned reason selected lc now nd orc,
  pg_handler_reason reason = true -> selected <> [] ->
  let r := pg_pipeline body owned reason selected lc now nd orc in
  r_done r = Some false ->
  pg_has_extras (pg_prepare body owned reason selected now) = false ->
  forall k, pg_find k body <> None -> pg_after body (r_patch r) k <> None.
Proof.
  intros * Hr Hs. destruct (pg_pipeline_final body owned reason selected lc now nd orc Hr Hs) as (Ff & Fd & _).
  cbv zeta in *. intros Hd Hex k Hk. rewrite Fd, Ff in Hd. inversion Hd as [Hd'].
  rewrite pg_pipeline_patch by assumption. unfold pg_patch_of. rewrite Hd', Hex.
  assert (A : pg_all_store (pg_store (pg_final_of body owned reason selected lc now orc)
                (pg_apply_effects (pg_run orc (pg_prepare body owned reason selected now)
                    (pg_plan lc (pg_prepare body owned reason selected now) selected now)) []))).
  { apply pg_all_store_store.
    - unfold pg_final_of. rewrite pg_keys_with_outcomes. apply pg_keys_prepare.
    - apply pg_all_store_effects. intros k' a. discriminate. }
  set (P := pg_store _ _) in *. unfold pg_after. destruct (pg_find k P) as [a|] eqn:E; [|exact Hk].
  destruct (A _ _ E) as (x & ->). discriminate.
Qed.

(* ------------------------------------------------------------------ supersession *)
(* The cause changed while records of another purpose exist: the selected handlers' states are re-purposed
   AS THEY ARE (a recorded success stays a success), the others are left as fetched. *)
Theorem supersession_repurposes : forall body owned reason selected now,
  pg_has_extras (pg_prepare1 body owned reason selected now) = true ->
  let st2 := pg_prepare body owned reason selected now in
  (forall k d, In k selected -> In k owned -> pg_find k body = Some d ->
     pg_find k (st_items st2) =
     Some (pg_hs_with_purpose (Some (pg_reason_str reason)) (pg_as_active (pg_hs_from_storage now d)))) /\
  (forall k, In k selected -> (~ In k owned \/ pg_find k body = None) ->
     pg_find k (st_items st2) = Some (pg_from_scratch now (Some (pg_reason_str reason)))) /\
  (forall k, ~ In k selected -> pg_find k (st_items st2) = pg_base body owned now k).
Proof.
  intros * Hex st2. subst st2. split; [|split].
  - intros k d Hs Ho Hb. rewrite pg_prepare_find, Hex. unfold pg_wh_spec, pg_base.
    apply pg_mem_In in Hs, Ho. now rewrite Hs, Ho, Hb.
  - intros k Hs Hno. rewrite pg_prepare_find, Hex. unfold pg_wh_spec, pg_base.
    apply pg_mem_In in Hs. rewrite Hs. destruct Hno as [Hno|Hno].
    + apply pg_mem_false in Hno. now rewrite Hno.
    + rewrite Hno. now destruct (pg_mem k owned).
  - intros k Hs. now apply pg_prepare_unselected.
Qed.

(* whatever the purposes of the records are: handlers recorded as finished are not run, the cycle closes at once
   (with one id registered for update and for delete this is finding F8) *)
Lemma pg_incl_nil : forall A (l : list A), incl l [] -> l = [].
Proof. intros A [|x l] H; [reflexivity|]. destruct (H x). now left. Qed.

Theorem supersession_stale_success : forall body owned reason selected lc now nd orc,
  pg_handler_reason reason = true -> selected <> [] -> incl selected owned ->
  (forall k, In k selected -> pg_rec_finished (pg_find k body) = true) ->
  let r := pg_pipeline body owned reason selected lc now nd orc in
  r_invoked r = [] /\ r_fho r = true /\ r_diffbase r = nd.
Proof.
  intros * Hr Hs Hincl Hfin r. subst r.
  assert (Hinv : r_invoked (pg_pipeline body owned reason selected lc now nd orc) = []).
  { destruct (r_invoked _) as [|[k n] l] eqn:E; [reflexivity|]. exfalso.
    assert (Hin : In (k, n) (r_invoked (pg_pipeline body owned reason selected lc now nd orc))) by (rewrite E; now left).
    destruct (invoked_only_unfinished _ _ _ _ _ _ _ _ _ _ Hincl Hin) as (Hk & F & _).
    rewrite (Hfin _ Hk) in F. discriminate. }
  assert (Hplan : pg_plan lc (pg_prepare body owned reason selected now) selected now = []).
  { apply pg_incl_nil. intros k Hk. apply pg_plan_spec in Hk. destruct Hk as (Hk & h & Hf & Haw).
    destruct (pg_prepare_selected_owned body owned reason selected now k Hk (Hincl _ Hk)) as (h' & Hf' & _ & F & _).
    rewrite Hf in Hf'. inversion Hf'. subst h'. unfold pg_awakened in Haw. rewrite F, (Hfin _ Hk) in Haw. discriminate. }
  destruct (close_iff_done body owned reason selected lc now nd orc Hr) as [Hiff Hd]. cbv zeta in *.
  assert (Hf : r_fho (pg_pipeline body owned reason selected lc now nd orc) = true).
  { apply Hiff. intros k Hk.
    destruct (pg_pipeline_final body owned reason selected lc now nd orc Hr Hs) as (Ff & _). cbv zeta in Ff.
    rewrite Ff. unfold pg_final_of. rewrite Hplan. simpl.
    destruct (pg_prepare_selected_owned body owned reason selected now k Hk (Hincl _ Hk)) as (h & Hf & _ & F & _).
    exists h. split.
    - rewrite map_id. exact Hf.
    - rewrite F. now apply Hfin. }
  rewrite Hd, Hf. auto.
Qed.

(* records of handlers the new cause does not select are purged — when they are in the form kopf writes *)
Theorem supersession_purges_unselected : forall body owned reason selected lc now nd orc,
  pg_handler_reason reason = true -> pg_pure orc ->
  pg_has_extras (pg_prepare body owned reason selected now) = true ->
  let r := pg_pipeline body owned reason selected lc now nd orc in
  forall k d, In k owned -> ~ In k selected -> pg_find k body = Some d ->
              pg_changed (pg_hs_from_storage now d) = false ->
              pg_after body (r_patch r) k = None.
Proof.
  intros * Hr Hp Hex r k d Ho Hns Hb Hch. subst r. apply pg_after_purged.
  assert (Hpk : pg_mem k (pg_purge_ids (pg_prepare body owned reason selected now) owned) = true).
  { apply pg_purge_ids_spec. now left. }
  destruct selected as [|s sel] eqn:Es.
  - unfold pg_pipeline. rewrite Hr. simpl. rewrite Hex. unfold pg_purge. now rewrite pg_find_purge_fold, Hpk.
  - rewrite <- Es in *. assert (Hs : selected <> []) by (rewrite Es; discriminate).
    rewrite pg_pipeline_patch by assumption. unfold pg_patch_of. rewrite Hex, (pg_apply_effects_pure _ _ _ _ Hp).
    set (st2 := pg_prepare body owned reason selected now) in *.
    set (st3 := pg_final_of body owned reason selected lc now orc).
    assert (ND : NoDup (map fst (st_items st3))).
    { unfold st3, pg_final_of. rewrite pg_keys_with_outcomes. apply pg_keys_prepare. }
    assert (Hst : pg_find k (pg_store st3 (pg_purge body st2 owned [])) = pg_purged body k).
    { rewrite (pg_find_store _ _ _ ND). unfold st3, pg_final_of. fold st2.
      rewrite pg_find_with_outcomes.
      assert (Hb2 : pg_find k (st_items st2) = pg_base body owned now k) by (apply pg_prepare_unselected; exact Hns).
      rewrite Hb2.
      unfold pg_base. apply pg_mem_In in Ho. rewrite Ho, Hb. simpl.
      rewrite pg_out_of_run.
      assert (Hnp : pg_mem k (pg_plan lc st2 selected now) = false).
      { apply pg_mem_false. intros Hk. apply pg_plan_spec in Hk. tauto. }
      rewrite Hnp, Hch. unfold pg_purge. now rewrite pg_find_purge_fold, Hpk. }
    destruct (pg_done st3); [|exact Hst].
    unfold pg_purge at 1. rewrite pg_find_purge_fold.
    destruct (pg_mem k (pg_purge_ids st3 owned)); [reflexivity|exact Hst].
Qed.

(* ------------------------------------------------------------------ sub-handlers *)
Theorem sub_invoked_only_unfinished : forall body reason sub_owned sub_selected lc now orc k n,
  incl sub_selected sub_owned ->
  In (k, n) (sr_invoked (pg_sub_execute body reason sub_owned sub_selected lc now orc)) ->
  In k sub_selected /\
  pg_rec_finished (pg_find k body) = false /\
  pg_rec_sleeping now (pg_find k body) = false /\
  n = pg_rec_retries (pg_find k body).
Proof.
  intros * Hincl H. unfold pg_sub_execute in H. simpl in H.
  change (pg_with_handlers (pg_with_purpose (pg_from_storage body sub_owned now) (Some (pg_reason_str reason)) []) sub_selected now)
    with (pg_prepare1 body sub_owned reason sub_selected now) in H.
  set (st := pg_prepare1 body sub_owned reason sub_selected now) in *.
  unfold pg_invocations in H. apply in_map_iff in H. destruct H as (k' & E & Hp). inversion E. subst k' n. clear E.
  apply pg_plan_spec in Hp. destruct Hp as (Hs & h & Hf & Haw). split; [exact Hs|].
  unfold st in Hf. rewrite pg_prepare1_find in Hf. unfold pg_wh_spec, pg_base in Hf.
  pose proof (Hincl _ Hs) as Ho. apply pg_mem_In in Hs, Ho. rewrite Hs, Ho in Hf.
  unfold pg_retries_of. fold st. unfold st. rewrite pg_prepare1_find. unfold pg_wh_spec, pg_base. rewrite Hs, Ho.
  unfold pg_awakened in Haw. apply andb_true_iff in Haw. destruct Haw as [A1 A2]. apply negb_true_iff in A1, A2.
  destruct (pg_find k body) as [d|]; simpl in *; inversion Hf; subst h; simpl in *; auto.
Qed.

(* the parent's outcome is final exactly when every selected sub-handler has finished; otherwise it is the
   non-final "children retry" which keeps the parent unfinished; everything in the sub-state is referenced *)
Lemma pg_parent_outcome_fields : forall result sr deeper,
  let o := fst (pg_parent_outcome result sr deeper) in
  o_final o = sr_done sr /\ (sr_done sr = true -> o_exc o = None) /\ (sr_done sr = false -> o_exc o = Some "None") /\ o_subrefs o = sr_keys sr ++ deeper.
Proof. intros. subst o. unfold pg_parent_outcome. destruct (sr_done sr); cbn; repeat split; congruence. Qed.

Lemma pg_sub_done_spec : forall body reason so ss lc now orc,
  let sr := pg_sub_execute body reason so ss lc now orc in
  sr_done sr = true ->
  forall s, In s ss -> exists h, pg_find s (st_items (sr_final sr)) = Some h /\ pg_finished h = true.
Proof.
  intros body reason so ss lc now orc sr Hd s Hs. subst sr. unfold pg_sub_execute in *. cbn [sr_done sr_final] in *.
  set (st := pg_with_handlers _ ss now) in *.
  set (outs := pg_outs_of_run _) in *.
  assert (ND : NoDup (map fst (st_items (pg_with_outcomes st outs now)))).
  { rewrite pg_keys_with_outcomes. unfold st. rewrite pg_with_handlers_fold. apply pg_keys_wh_fold.
    rewrite pg_keys_with_purpose. apply pg_keys_from_storage. }
  rewrite (pg_done_spec _ ND) in Hd.
  assert (Hst : exists h, pg_find s (st_items st) = Some h /\ h_active h = true).
  { unfold st. rewrite pg_find_with_handlers. unfold pg_wh_spec. apply pg_mem_In in Hs. rewrite Hs.
    eexists. split; [reflexivity|]. now destruct (pg_find s _). }
  destruct Hst as (h & Hf & Ha).
  pose proof (pg_find_with_outcomes st outs now s) as E. rewrite Hf in E. cbn [option_map] in E.
  eexists. split; [exact E|]. apply (Hd _ _ E). now destruct (pg_out_of s outs).
Qed.

Lemma pg_sub_keys : forall body reason so ss lc now orc,
  sr_keys (pg_sub_execute body reason so ss lc now orc) =
  map fst (st_items (sr_final (pg_sub_execute body reason so ss lc now orc))).
Proof. reflexivity. Qed.

Theorem children_keep_parent_open : forall body reason lc now fam leaf k n result so ss,
  fam k = Some (result, so, ss) ->
  let o := fst (pg_children_oracle body reason lc now fam leaf k n) in
  let sr := pg_sub_execute body reason so ss lc now leaf in
  (o_final o = true <-> sr_done sr = true) /\
  (o_final o = true -> o_exc o = None /\
     forall s, In s ss -> exists h, pg_find s (st_items (sr_final sr)) = Some h /\ pg_finished h = true) /\
  (o_final o = false -> o_exc o <> None) /\
  incl (map fst (st_items (sr_final sr))) (o_subrefs o).
Proof.
  intros * Hfam o sr. subst o. unfold pg_children_oracle. rewrite Hfam. fold sr.
  destruct (pg_parent_outcome_fields result sr []) as (F1 & F2 & F3 & F4). cbv zeta in *.
  rewrite F1, F4. split; [tauto|]. split; [|split].
  - intros Hd. split; [now apply F2|]. now apply pg_sub_done_spec.
  - intros Hd. rewrite (F3 Hd). discriminate.
  - rewrite app_nil_r. unfold sr. rewrite pg_sub_keys. apply incl_refl.
Qed.

(* ------------------------------------------------------------------ restart: the in-memory state plays no role *)
Theorem restart_resumes : forall m1 m2 body owned reason selected lc now nd orc,
  fst (pg_process m1 body owned reason selected lc now nd orc) =
  fst (pg_process m2 body owned reason selected lc now nd orc) /\
  m_fho (snd (pg_process m1 body owned reason selected lc now nd orc)) =
  (m_fho m1 || r_fho (pg_pipeline body owned reason selected lc now nd orc)).
Proof. intros. split; reflexivity. Qed.

(* ... and of the object only the records of the owned ids are read to decide who runs *)
Lemma pg_from_storage_ext : forall b1 b2 owned now,
  (forall k, In k owned -> pg_find k b1 = pg_find k b2) ->
  pg_from_storage b1 owned now = pg_from_storage b2 owned now.
Proof.
  intros * H. unfold pg_from_storage. f_equal.
  assert (H' : forall k, In k (pg_dedup owned) -> pg_find k b1 = pg_find k b2).
  { intros k Hk. apply H. now apply pg_dedup_In. }
  induction (pg_dedup owned) as [|x l IH]; simpl; [reflexivity|].
  rewrite (H' x) by now left. f_equal. apply IH. intros k Hk. apply H'. now right.
Qed.

Theorem restart_resumes_view : forall b1 b2 owned reason selected lc now nd orc,
  (forall k, In k owned -> pg_find k b1 = pg_find k b2) ->
  let r1 := pg_pipeline b1 owned reason selected lc now nd orc in
  let r2 := pg_pipeline b2 owned reason selected lc now nd orc in
  r_invoked r1 = r_invoked r2 /\ r_final r1 = r_final r2 /\ r_done r1 = r_done r2 /\ r_fho r1 = r_fho r2 /\
  r_diffbase r1 = r_diffbase r2 /\ r_delays r1 = r_delays r2.
Proof.
  intros * H. cbv zeta. unfold pg_pipeline, pg_prepare, pg_prepare1. rewrite (pg_from_storage_ext b1 b2 owned now H).
  destruct (negb (pg_handler_reason reason)); [repeat split|].
  destruct selected; repeat split; reflexivity.
Qed.

(* ------------------------------------------------------------------ no KeyError / RuntimeError inside the pipeline *)
Theorem pipeline_defined : forall body owned reason selected lc now orc,
  pg_pipeline_defined body owned reason selected lc now orc = true.
Proof.
  intros. unfold pg_pipeline_defined. rewrite !andb_true_iff. split; [split|].
  - unfold pg_with_purpose_defined. apply forallb_forall. intros k Hk. unfold pg_has.
    rewrite pg_prepare1_find. unfold pg_wh_spec. apply pg_mem_In in Hk. now rewrite Hk.
  - unfold pg_execute_defined. apply forallb_forall. intros k Hk. unfold pg_has.
    destruct (pg_prepare_selected body owned reason selected now k Hk) as (h & Hf & _). now rewrite Hf.
  - unfold pg_with_outcomes_defined. apply forallb_forall. intros [k o] Hk. simpl.
    unfold pg_outs_of_run, pg_run in Hk. rewrite map_map in Hk. apply in_map_iff in Hk. destruct Hk as (k' & E & Hk).
    inversion E. subst k'. apply pg_plan_spec in Hk. destruct Hk as (_ & h & Hf & _). unfold pg_has. now rewrite Hf.
Qed.

(* ------------------------------------------------------------------ witnesses: where the full statements are false of the faithful model *)
Definition w_now : Z := 1000000000.
Definition w_done (purpose : string) : pg_srec :=
  mkPgRec (Some 990000000) (Some 990000000) None (Some purpose) (Some 1) (Some true) (Some false) None None.
Definition w_retry (purpose : string) : pg_srec :=
  mkPgRec (Some 990000000) None (Some 999875000) (Some purpose) (Some 1) (Some false) (Some false) (Some "later") None.
Definition w_ok : pg_outcome := mkPgOut true None None None [].
Definition w_tmp : pg_outcome := mkPgOut false (Some "later") (Some 1000000) None [].
Definition w_orc (tmp : list pg_hid) : pg_oracle := fun k _ => (if pg_mem k tmp then w_tmp else w_ok, pg_no_effects).

(* no handler selected while records of an abandoned cycle exist: last-handled is written, the records stay *)
Theorem close_purges_refuted :
  exists body owned reason lc now orc,
    let r := pg_pipeline body owned reason [] lc now true orc in
    pg_handler_reason reason = true /\ r_fho r = true /\ r_diffbase r = true /\
    exists k, In k owned /\ pg_after body (r_patch r) k <> None.
Proof.
  exists [("a", w_retry "update")], ["a"], PRUpdate, LAsap, w_now, (w_orc []).
  vm_compute. repeat split. exists "a". split; [now left|discriminate].
Qed.

(* supersession purge (an unselected record of another purpose is present): the recorded success of a selected
   handler of the CURRENT purpose is dropped while the cycle stays open (finding F0201) *)
Theorem open_keeps_records_refuted :
  exists body owned reason selected lc now orc,
    let r := pg_pipeline body owned reason selected lc now true orc in
    pg_handler_reason reason = true /\ incl selected owned /\ pg_pure orc /\ r_done r = Some false /\
    exists k, In k selected /\ pg_rec_finished (pg_find k body) = true /\ pg_after body (r_patch r) k = None.
Proof.
  exists [("a", w_done "update"); ("b", w_retry "create")], ["a"; "b"; "c"], PRUpdate, ["a"; "c"], LAsap, w_now, (w_orc ["c"]).
  cbv zeta. split; [reflexivity|]. split; [|split; [intros k n; reflexivity|]].
  - intros k [H|[H|[]]]; subst; simpl; tauto.
  - vm_compute. split; [reflexivity|]. exists "a". repeat split. now left.
Qed.

(* the same purge drops the records of the sub-handlers of a handler that stays selected and keeps its own progress *)
Definition w_parent : pg_srec :=
  mkPgRec (Some 990000000) None (Some 1001000000) (Some "resume") (Some 1) (Some false) (Some false) (Some "None")
          (Some ["p/s1"; "p/s2"]).
Definition w_fam : pg_hid -> option (option Z * list pg_hid * list pg_hid) :=
  fun k => if String.eqb k "p" then Some (None, ["p/s1"; "p/s2"], ["p/s1"; "p/s2"]) else None.

Theorem supersession_drops_subrecords :
  exists body owned reason selected lc now leaf,
    let orc := pg_children_oracle body reason lc now w_fam leaf in
    let r := pg_pipeline body owned reason selected lc now true orc in
    incl selected owned /\ r_done r = Some false /\
    (exists h, pg_find "p" (st_items (r_final r)) = Some h /\ h_retries h = 1 /\ h_purpose h = Some "update" /\
               In "p/s1" (h_subrefs h)) /\
    pg_rec_finished (pg_find "p/s1" body) = true /\ pg_after body (r_patch r) "p/s1" = None /\
    pg_after body (r_patch r) "p" <> None.
Proof.
  exists [("p", w_parent); ("p/s1", w_done "resume"); ("p/s2", w_retry "resume"); ("q", w_retry "resume")],
         ["p"; "q"; "u"], PRUpdate, ["p"; "u"], LAsap, w_now, (w_orc []).
  cbv zeta. split.
  - intros k [H|[H|[]]]; subst; simpl; tauto.
  - vm_compute. split; [reflexivity|]. split; [|repeat split; discriminate].
    eexists. split; [reflexivity|]. simpl. repeat split. now left.
Qed.

(* ------------------------------------------------------------------ non-vacuity *)
Example ex_finished_skipped_due_invoked :
  let r := pg_pipeline [("a", w_done "update"); ("b", w_retry "update")] ["a"; "b"] PRUpdate ["a"; "b"] LAll w_now true (w_orc []) in
  r_invoked r = [("b", 1)] /\ r_fho r = true /\ r_diffbase r = true /\
  pg_after [("a", w_done "update"); ("b", w_retry "update")] (r_patch r) "a" = None /\
  pg_after [("a", w_done "update"); ("b", w_retry "update")] (r_patch r) "b" = None.
Proof. vm_compute. repeat split. Qed.

Example ex_open_cycle_keeps_progress :
  let body := [("a", w_done "update"); ("b", w_retry "update")] in
  let r := pg_pipeline body ["a"; "b"] PRUpdate ["a"; "b"] LAsap w_now true (w_orc ["b"]) in
  r_invoked r = [("b", 1)] /\ r_done r = Some false /\ r_fho r = false /\ r_diffbase r = false /\
  pg_after body (r_patch r) "a" = Some (w_done "update") /\ pg_find "a" (r_patch r) = None /\
  r_delays r = [1000000] /\
  option_map s_retries (pg_after body (r_patch r) "b") = Some (Some 2).
Proof. vm_compute. repeat split. Qed.

Example ex_sleeping_not_invoked :
  let body := [("b", mkPgRec (Some 990000000) None (Some (w_now + 125000)) (Some "update") (Some 1) (Some false) (Some false) None None)] in
  let r := pg_pipeline body ["b"] PRUpdate ["b"] LAll w_now true (w_orc []) in
  r_invoked r = [] /\ r_done r = Some false /\ r_delays r = [125000] /\ r_patch r = [].
Proof. vm_compute. repeat split. Qed.

Example ex_children_retry_then_close :
  let body := [("p", w_parent); ("p/s1", w_done "resume"); ("p/s2", w_retry "resume")] in
  let fam := w_fam in
  let open := pg_pipeline body ["p"] PRResume ["p"] LAll 1002000000 false (pg_children_oracle body PRResume LAll 1002000000 fam (w_orc ["p/s2"])) in
  let closed := pg_pipeline body ["p"] PRResume ["p"] LAll 1002000000 false (pg_children_oracle body PRResume LAll 1002000000 fam (w_orc [])) in
  r_invoked open = [("p", 1)] /\ r_sub open = [("p/s2", 1)] /\ r_done open = Some false /\
  r_invoked closed = [("p", 1)] /\ r_sub closed = [("p/s2", 1)] /\ r_done closed = Some true /\
  pg_after body (r_patch closed) "p/s1" = None /\ pg_after body (r_patch closed) "p/s2" = None /\
  pg_after body (r_patch closed) "p" = None.
Proof. vm_compute. repeat split. Qed.

Example ex_supersession_hypotheses_satisfiable :
  pg_has_extras (pg_prepare1 [("a", w_done "update"); ("b", w_retry "update")] ["a"; "b"; "d"] PRDelete ["a"; "d"] w_now) = true /\
  pg_has_extras (pg_prepare [("a", w_done "update"); ("b", w_retry "update")] ["a"; "b"; "d"] PRDelete ["a"; "d"] w_now) = true /\
  pg_changed (pg_hs_from_storage w_now (w_retry "update")) = false.
Proof. vm_compute. repeat split. Qed.

(* ------------------------------------------------------------------ arbitrary nesting depth *)
Lemma pg_deep_unfold : forall f body reason lc now fam leaf k n res so ss,
  fam k = Some (res, so, ss) ->
  pg_deep_oracle (S f) body reason lc now fam leaf k n =
  pg_parent_outcome res (pg_sub_execute body reason so ss lc now (pg_deep_oracle f body reason lc now fam leaf))
                    (sr_deeper (pg_sub_execute body reason so ss lc now (pg_deep_oracle f body reason lc now fam leaf))).
Proof. intros * H. simpl. now rewrite H. Qed.

Lemma pg_deep_leaf : forall f body reason lc now fam leaf k n,
  fam k = None -> pg_deep_oracle f body reason lc now fam leaf k n = leaf k n.
Proof. intros * H. destruct f; simpl; [reflexivity|now rewrite H]. Qed.

Lemma pg_sub_invoked_ran : forall body reason so ss lc now orc c m,
  In (c, m) (sr_invoked (pg_sub_execute body reason so ss lc now orc)) ->
  incl (o_subrefs (fst (orc c m))) (sr_deeper (pg_sub_execute body reason so ss lc now orc)) /\
  incl (map fst (e_stores (snd (orc c m)))) (map fst (sr_stores (pg_sub_execute body reason so ss lc now orc))).
Proof.
  intros * H. unfold pg_sub_execute in *. cbn [sr_invoked sr_deeper sr_stores] in *.
  set (st := pg_with_handlers _ ss now) in *. set (plan := pg_plan lc st ss now) in *.
  unfold pg_invocations in H. apply in_map_iff in H. destruct H as (c' & E & Hc). inversion E. subst c' m. clear E.
  assert (Hran : In (c, orc c (pg_retries_of st c)) (pg_run orc st plan)).
  { unfold pg_run. apply in_map_iff. now exists c. }
  split.
  - intros s Hs. apply in_flat_map. eexists. split; [exact Hran|exact Hs].
  - intros s Hs. rewrite map_app. apply in_or_app. left.
    apply in_map_iff in Hs. destruct Hs as (kr & E & Hkr). apply in_map_iff. exists kr. split; [exact E|].
    apply in_flat_map. eexists. split; [exact Hran|exact Hkr].
Qed.

(* every ancestor's outcome lists the keys of its own sub-state and everything its invoked sub-handlers list *)
Theorem deep_subrefs_accumulate : forall f body reason lc now fam leaf k n res so ss,
  fam k = Some (res, so, ss) ->
  let sub := pg_deep_oracle f body reason lc now fam leaf in
  let sr := pg_sub_execute body reason so ss lc now sub in
  let o := fst (pg_deep_oracle (S f) body reason lc now fam leaf k n) in
  (forall s, In s (map fst (st_items (sr_final sr))) -> In s (o_subrefs o)) /\
  (forall c m s, In (c, m) (sr_invoked sr) -> In s (o_subrefs (fst (sub c m))) -> In s (o_subrefs o)).
Proof.
  intros * Hfam sub sr o. subst o. rewrite (pg_deep_unfold _ _ _ _ _ _ _ _ _ _ _ _ Hfam). fold sub. fold sr.
  destruct (pg_parent_outcome_fields res sr (sr_deeper sr)) as (_ & _ & _ & F). cbv zeta in F. rewrite F. split.
  - intros s Hs. apply in_or_app. left. unfold sr. now rewrite pg_sub_keys.
  - intros c m s Hc Hs. apply in_or_app. right. destruct (pg_sub_invoked_ran _ _ _ _ _ _ _ _ _ Hc) as [H _]. now apply H.
Qed.

(* the descendants of an invocation: the ids of its sub-state, and the descendants of the sub-handlers it invoked *)
Inductive pg_desc (body : list (pg_hid * pg_srec)) (reason : pg_reason) (lc : pg_lifecycle) (now : Z)
          (fam : pg_family) (leaf : pg_oracle) : nat -> pg_hid -> Z -> pg_hid -> Prop :=
  | pg_desc_child : forall f k n res so ss s,
      fam k = Some (res, so, ss) ->
      In s (map fst (st_items (sr_final (pg_sub_execute body reason so ss lc now (pg_deep_oracle f body reason lc now fam leaf))))) ->
      pg_desc body reason lc now fam leaf (S f) k n s
  | pg_desc_deeper : forall f k n res so ss c m s,
      fam k = Some (res, so, ss) ->
      In (c, m) (sr_invoked (pg_sub_execute body reason so ss lc now (pg_deep_oracle f body reason lc now fam leaf))) ->
      pg_desc body reason lc now fam leaf f c m s ->
      pg_desc body reason lc now fam leaf (S f) k n s.

Theorem deep_lists_all_descendants : forall body reason lc now fam leaf fuel k n s,
  pg_desc body reason lc now fam leaf fuel k n s ->
  In s (o_subrefs (fst (pg_deep_oracle fuel body reason lc now fam leaf k n))).
Proof.
  intros * H. induction H as [f k n res so ss s Hfam Hs|f k n res so ss c m s Hfam Hc _ IH].
  - destruct (deep_subrefs_accumulate f body reason lc now fam leaf k n res so ss Hfam) as [A _]. now apply A.
  - destruct (deep_subrefs_accumulate f body reason lc now fam leaf k n res so ss Hfam) as [_ B]. eapply B; eauto.
Qed.

(* at the closing of a cycle the record of every descendant, of any depth, of every invoked handler is removed *)
Theorem descendants_purged_with_ancestor : forall body owned reason selected lc now nd fuel fam leaf,
  pg_handler_reason reason = true -> selected <> [] ->
  let orc := pg_deep_oracle fuel body reason lc now fam leaf in
  let r := pg_pipeline body owned reason selected lc now nd orc in
  r_done r = Some true ->
  forall k n s, In (k, n) (r_invoked r) -> pg_desc body reason lc now fam leaf fuel k n s ->
                pg_after body (r_patch r) s = None.
Proof.
  intros * Hr Hs orc r Hd k n s Hinv Hdesc. subst r.
  apply (children_purged_with_parent body owned reason selected lc now nd orc Hr Hs Hd k n s Hinv).
  now apply deep_lists_all_descendants.
Qed.

(* whatever a handler (of any depth) writes into the shared patch is listed in its outcome's subrefs *)
Lemma pg_store_list_keys : forall st s, In s (map fst (pg_store_list st)) -> In s (map fst (st_items st)).
Proof.
  intros st s H. unfold pg_store_list in H. apply in_map_iff in H. destruct H as ([a x] & E & H). simpl in E. subst a.
  apply in_flat_map in H. destruct H as ([a h] & Hin & H). simpl in H. destruct (pg_changed h); [|destruct H].
  destruct H as [H|[]]. inversion H. subst. apply in_map_iff. now exists (s, h).
Qed.

Theorem deep_reports_stores : forall body reason lc now fam leaf,
  pg_pure leaf -> forall fuel, pg_reports_stores (pg_deep_oracle fuel body reason lc now fam leaf).
Proof.
  intros * Hp fuel. induction fuel as [|f IH]; intros k n s Hs.
  - simpl in Hs. rewrite Hp in Hs. destruct Hs.
  - destruct (fam k) as [[[res so] ss]|] eqn:Hfam.
    + rewrite (pg_deep_unfold _ _ _ _ _ _ _ _ _ _ _ _ Hfam) in *.
      set (sr := pg_sub_execute body reason so ss lc now (pg_deep_oracle f body reason lc now fam leaf)) in *.
      destruct (pg_parent_outcome_fields res sr (sr_deeper sr)) as (_ & _ & _ & F). cbv zeta in F. rewrite F.
      assert (Hst : In s (map fst (sr_stores sr))) by (unfold pg_parent_outcome in Hs; exact Hs). clear Hs.
      unfold sr, pg_sub_execute in Hst. cbn [sr_stores] in Hst. rewrite map_app in Hst. apply in_app_or in Hst.
      apply in_or_app. destruct Hst as [Hst|Hst].
      * right. unfold sr, pg_sub_execute. cbn [sr_deeper].
        apply in_map_iff in Hst. destruct Hst as (kr & E & Hst). apply in_flat_map in Hst. destruct Hst as (ke & Hke & Hkr).
        apply in_flat_map. exists ke. split; [exact Hke|].
        unfold pg_run in Hke. apply in_map_iff in Hke. destruct Hke as (c & Ec & _). subst ke. simpl in *.
        apply IH. apply in_map_iff. now exists kr.
      * left. unfold sr. rewrite pg_sub_keys. unfold pg_sub_execute. cbn [sr_final]. now apply pg_store_list_keys.
    + rewrite (pg_deep_leaf (S f) _ _ _ _ _ _ _ _ Hfam) in *. rewrite Hp in Hs. destruct Hs.
Qed.

(* ------------------------------------------------------------------ after a closing call NOTHING remains *)
Lemma pg_find_effects_fold : forall (l : list (pg_hid * pg_srec)) p s a,
  pg_find s (fold_left (fun p kr => pg_p_set (fst kr) (PStore (snd kr)) p) l p) = Some a ->
  pg_find s p = Some a \/ In s (map fst l).
Proof.
  induction l as [|kr l IH]; simpl; intros p s a H; [now left|].
  apply IH in H. destruct H as [H|H]; [|right; now right].
  rewrite pg_find_p_set in H. destruct (String.eqb (fst kr) s) eqn:E; [|now left].
  apply String.eqb_eq in E. right. now left.
Qed.

Lemma pg_find_apply_effects : forall ran p s a,
  pg_find s (pg_apply_effects ran p) = Some a ->
  pg_find s p = Some a \/ exists ke, In ke ran /\ In s (map fst (e_stores (snd (snd ke)))).
Proof.
  unfold pg_apply_effects. induction ran as [|ke ran IH]; simpl; intros p s a H; [now left|].
  apply IH in H. destruct H as [H|(ke' & H1 & H2)]; [|right; exists ke'; auto].
  apply pg_find_effects_fold in H. destruct H as [H|H]; [now left|]. right. exists ke. auto.
Qed.

Lemma pg_subrefs_with_outcome : forall now h o s,
  In s (h_subrefs h) \/ In s (o_subrefs o) -> In s (h_subrefs (pg_hs_with_outcome now h o)).
Proof. intros. simpl. apply pg_sort_In, pg_dedup_In, in_or_app. exact H. Qed.

(* the final state holds, for every owned id with a record, at least the references that record had *)
Lemma pg_final_keeps_refs : forall body owned reason selected lc now orc k d s,
  In k owned -> pg_find k body = Some d -> In s (pg_or (s_subrefs d) []) ->
  exists h, pg_find k (st_items (pg_final_of body owned reason selected lc now orc)) = Some h /\ In s (h_subrefs h).
Proof.
  intros * Ho Hb Hs. unfold pg_final_of. rewrite pg_find_with_outcomes, pg_prepare_find.
  unfold pg_wh_spec, pg_base. apply pg_mem_In in Ho. rewrite Ho, Hb. cbn [option_map].
  set (h2 := if pg_mem k selected then _ else _).
  assert (H2 : exists h0, h2 = Some h0 /\ In s (h_subrefs h0)).
  { unfold h2. destruct (pg_mem k selected); eexists; split; try reflexivity; exact Hs. }
  destruct H2 as (h0 & -> & Hs0). cbn [option_map].
  set (h1 := if _ && _ then _ else h0).
  assert (Hs1 : In s (h_subrefs h1)). { unfold h1. destruct (_ && _); exact Hs0. }
  eexists. split; [reflexivity|]. destruct (pg_out_of k _); [apply pg_subrefs_with_outcome; now left|exact Hs1].
Qed.

(* ... and for every invoked handler everything its outcome lists *)
Lemma pg_final_has_reported : forall body owned reason selected lc now orc k s,
  In k (pg_plan lc (pg_prepare body owned reason selected now) selected now) ->
  In s (o_subrefs (fst (orc k (pg_retries_of (pg_prepare body owned reason selected now) k)))) ->
  exists h, pg_find k (st_items (pg_final_of body owned reason selected lc now orc)) = Some h /\ In s (h_subrefs h).
Proof.
  intros * Hp Hs. unfold pg_final_of. set (st2 := pg_prepare body owned reason selected now) in *.
  destruct (pg_plan_spec _ _ _ _ _ Hp) as (_ & h & Hf & _).
  rewrite pg_find_with_outcomes, Hf. cbn [option_map]. rewrite pg_out_of_run. apply pg_mem_In in Hp. rewrite Hp.
  eexists. split; [reflexivity|]. apply pg_subrefs_with_outcome. now right.
Qed.

Theorem close_leaves_nothing : forall body owned reason selected lc now nd orc,
  pg_handler_reason reason = true -> selected <> [] ->
  pg_reports_stores orc ->
  pg_refs_closed (fun s => pg_find s body) owned ->
  let r := pg_pipeline body owned reason selected lc now nd orc in
  r_done r = Some true ->
  forall s, pg_after body (r_patch r) s = None.
Proof.
  intros * Hr Hs Hrep Hrc. destruct (pg_pipeline_final body owned reason selected lc now nd orc Hr Hs) as (Ff & Fd & _).
  cbv zeta in *. intros Hd s. rewrite Fd, Ff in Hd. inversion Hd as [Hd'].
  rewrite pg_pipeline_patch by assumption. unfold pg_patch_of. rewrite Hd'.
  set (st2 := pg_prepare body owned reason selected now).
  set (st3 := pg_final_of body owned reason selected lc now orc).
  set (ran := pg_run orc st2 (pg_plan lc st2 selected now)).
  set (p1 := if pg_has_extras st2 then pg_purge body st2 owned [] else []).
  unfold pg_purge at 1. unfold pg_after. rewrite pg_find_purge_fold.
  destruct (pg_mem s (pg_purge_ids st3 owned)) eqn:Hm.
  - unfold pg_purged, pg_has. destruct (pg_find s body); reflexivity.
  - assert (NP : ~ (In s owned \/ In s (map fst (st_items st3)) \/
                    exists k' h, In (k', h) (st_items st3) /\ In s (h_subrefs h))).
    { intros P. apply pg_purge_ids_spec in P. congruence. }
    assert (Hb : pg_find s body = None).
    { destruct (pg_find s body) as [x|] eqn:E; [|reflexivity]. exfalso.
      destruct (Hrc s) as [H|(k & d & Hk & Hkd & Hsd)]; [rewrite E; discriminate|apply NP; now left|].
      destruct (pg_final_keeps_refs body owned reason selected lc now orc k d s Hk Hkd Hsd) as (h & Hf & Hin).
      apply NP. right. right. exists k, h. split; [now apply pg_find_In|exact Hin]. }
    assert (ND : NoDup (map fst (st_items st3))).
    { unfold st3, pg_final_of. rewrite pg_keys_with_outcomes. apply pg_keys_prepare. }
    rewrite (pg_find_store _ _ _ ND).
    destruct (pg_find s (st_items st3)) as [h|] eqn:E3.
    { exfalso. apply NP. right. left. apply pg_find_In in E3. apply in_map_iff. now exists (s, h). }
    destruct (pg_find s (pg_apply_effects ran p1)) as [a|] eqn:Ea; [|now rewrite Hb].
    exfalso. apply pg_find_apply_effects in Ea. destruct Ea as [Ea|(ke & Hke & Hst)].
    + unfold p1 in Ea. destruct (pg_has_extras st2); [|discriminate].
      unfold pg_purge in Ea. rewrite pg_find_purge_fold in Ea. simpl in Ea.
      destruct (pg_mem s (pg_purge_ids st2 owned)); [|discriminate].
      unfold pg_purged, pg_has in Ea. rewrite Hb in Ea. discriminate.
    + unfold ran, pg_run in Hke. apply in_map_iff in Hke. destruct Hke as (k & Ek & Hk). subst ke. simpl in Hst.
      apply Hrep in Hst.
      destruct (pg_final_has_reported body owned reason selected lc now orc k s Hk Hst) as (h & Hf & Hin).
      apply NP. right. right. exists k, h. split; [now apply pg_find_In|exact Hin].
Qed.

(* for handlers with sub-handlers nested to any depth *)
Theorem close_leaves_nothing_deep : forall body owned reason selected lc now nd fuel fam leaf,
  pg_handler_reason reason = true -> selected <> [] -> pg_pure leaf ->
  pg_refs_closed (fun s => pg_find s body) owned ->
  let r := pg_pipeline body owned reason selected lc now nd (pg_deep_oracle fuel body reason lc now fam leaf) in
  r_done r = Some true ->
  forall s, pg_after body (r_patch r) s = None.
Proof.
  intros * Hr Hs Hp Hrc. apply close_leaves_nothing; auto. now apply deep_reports_stores.
Qed.

(* ------------------------------------------------------------------ "every record is referenced from the top" is an invariant *)
Definition pg_wf_h (h : pg_hstate) : Prop :=
  match h_origin h with Some d => h_retries h = pg_or (s_retries d) 0 | None => True end.

Lemma pg_prepare_item : forall body owned reason selected now s h,
  pg_find s (st_items (pg_prepare body owned reason selected now)) = Some h ->
  (In s owned \/ In s selected) /\ pg_wf_h h /\
  (forall d x, In s owned -> pg_find s body = Some d -> In x (pg_or (s_subrefs d) []) -> In x (h_subrefs h)).
Proof.
  intros * H. rewrite pg_prepare_find in H. unfold pg_wh_spec, pg_base in H.
  destruct (pg_mem s selected) eqn:Es, (pg_mem s owned) eqn:Eo, (pg_find s body) as [d|] eqn:Eb;
    cbn [option_map] in H; try discriminate; inversion H as [Hh]; clear H;
    rewrite ?pg_mem_In in *;
    (split; [tauto|]); (split; [destruct (_ && _); unfold pg_wf_h; simpl; auto|]);
    intros d' x Ho' Hd' Hx; try (apply pg_mem_false in Eo; tauto); try discriminate;
    inversion Hd'; subst d'; destruct (_ && _); simpl; exact Hx.
Qed.

Lemma pg_changed_with_outcome : forall now h o, pg_wf_h h -> pg_changed (pg_hs_with_outcome now h o) = true.
Proof.
  intros now h o W. unfold pg_changed. simpl. unfold pg_wf_h in W. destruct (h_origin h) as [d|]; [|reflexivity].
  apply negb_true_iff. destruct (pg_srec_eqb _ d) eqn:E; [|reflexivity]. exfalso.
  apply pg_srec_eqb_eq in E. rewrite <- E in W. simpl in W. lia.
Qed.

Lemma pg_for_storage_subrefs : forall h s, In s (h_subrefs h) -> In s (pg_or (s_subrefs (pg_for_storage h)) []).
Proof.
  intros h s H. unfold pg_for_storage. cbn [s_subrefs]. destruct (h_subrefs h) as [|x l]; [destruct H|].
  cbn [pg_or]. apply pg_sort_In. exact H.
Qed.

Lemma pg_find_effects_fold_keep : forall (l : list (pg_hid * pg_srec)) p s,
  pg_find s p <> None -> pg_find s (fold_left (fun p kr => pg_p_set (fst kr) (PStore (snd kr)) p) l p) <> None.
Proof.
  induction l as [|kr l IH]; simpl; intros p s H; [exact H|]. apply IH. rewrite pg_find_p_set.
  destruct (String.eqb (fst kr) s); [discriminate|exact H].
Qed.

Lemma pg_find_apply_effects_keep : forall ran p s, pg_find s p <> None -> pg_find s (pg_apply_effects ran p) <> None.
Proof.
  unfold pg_apply_effects. induction ran as [|ke ran IH]; simpl; intros p s H; [exact H|].
  apply IH. now apply pg_find_effects_fold_keep.
Qed.

Lemma pg_p1_spec : forall body owned (st2 : pg_state) s,
  pg_find s (if pg_has_extras st2 then pg_purge body st2 owned [] else []) =
  if pg_has_extras st2 && pg_mem s (pg_purge_ids st2 owned) then pg_purged body s else None.
Proof.
  intros. destruct (pg_has_extras st2); [|reflexivity]. unfold pg_purge. rewrite pg_find_purge_fold. simpl.
  now destruct (pg_mem s (pg_purge_ids st2 owned)).
Qed.

(* if the supersession purge nulls the record of an owned id, it nulls everything that record references *)
Lemma pg_p1_purges_refs : forall body owned reason selected now k d s,
  let st2 := pg_prepare body owned reason selected now in
  In k owned -> pg_find k body = Some d -> In s (pg_or (s_subrefs d) []) ->
  pg_find k (if pg_has_extras st2 then pg_purge body st2 owned [] else []) <> None ->
  pg_find s body <> None ->
  pg_find s (if pg_has_extras st2 then pg_purge body st2 owned [] else []) <> None.
Proof.
  intros * Ho Hb Hs Hk Hsb. rewrite pg_p1_spec in *. destruct (pg_has_extras st2) eqn:Ex; [|now simpl in Hk]. simpl in *.
  assert (Hitem : exists h, pg_find k (st_items st2) = Some h).
  { unfold st2. rewrite pg_prepare_find. unfold pg_wh_spec, pg_base. pose proof Ho as Ho'. apply pg_mem_In in Ho'.
    rewrite Ho', Hb. cbn [option_map]. destruct (pg_mem k selected); cbn [option_map]; eauto. }
  destruct Hitem as (h & Hf).
  destruct (pg_prepare_item body owned reason selected now k h Hf) as (_ & _ & Hrefs).
  assert (Hm : pg_mem s (pg_purge_ids st2 owned) = true).
  { apply pg_purge_ids_spec. right. right. exists k, h. split; [now apply pg_find_In|]. eapply Hrefs; eauto. }
  rewrite Hm. unfold pg_purged, pg_has. destruct (pg_find s body); [discriminate|tauto].
Qed.

Theorem refs_closed_preserved : forall body owned reason selected lc now nd orc,
  incl selected owned -> pg_reports_stores orc -> pg_stores_apart orc owned ->
  pg_refs_closed (fun s => pg_find s body) owned ->
  pg_refs_closed (pg_after body (r_patch (pg_pipeline body owned reason selected lc now nd orc))) owned.
Proof.
  intros * Hincl Hrep Hapart Hrc.
  destruct (pg_handler_reason reason) eqn:Hr.
  2:{ destruct (pg_pipeline_idle body owned reason selected lc now nd orc Hr) as (_ & Hp & _). cbv zeta in Hp. rewrite Hp.
      intros s Hs. unfold pg_after in *. simpl in *. exact (Hrc s Hs). }
  destruct selected as [|s0 sel] eqn:Es.
  - (* no handler selected: only the supersession purge *)
    unfold pg_pipeline. rewrite Hr. simpl negb. cbv iota. cbn [r_patch].
    set (st2 := pg_prepare body owned reason [] now).
    set (p1 := if pg_has_extras st2 then pg_purge body st2 owned [] else []).
    assert (NS : pg_no_store p1). { unfold p1. destruct (pg_has_extras st2); [apply pg_no_store_purge|]; apply pg_no_store_nil. }
    intros s Hs. unfold pg_after in Hs.
    destruct (pg_find s p1) as [[x|]|] eqn:E1; [exfalso; eapply NS; eauto|tauto|].
    destruct (Hrc s Hs) as [H|(k & d & Hk & Hkd & Hsd)]; [now left|]. right. exists k, d. split; [exact Hk|]. split; [|exact Hsd].
    unfold pg_after. destruct (pg_find k p1) as [[x|]|] eqn:Ek; [exfalso; eapply NS; eauto| |exact Hkd].
    exfalso. assert (Hn : pg_find s p1 <> None).
    { pose proof (pg_p1_purges_refs body owned reason [] now k d s Hk Hkd Hsd) as HH. cbv zeta in HH. fold st2 in HH.
      apply HH; [intro X; pose proof (eq_trans (eq_sym X) Ek) as Y; discriminate Y|exact Hs]. }
    congruence.
  - rewrite <- Es in *. assert (Hne : selected <> []) by (rewrite Es; discriminate).
    destruct (pg_pipeline_final body owned reason selected lc now nd orc Hr Hne) as (Ff & Fd & _). cbv zeta in Ff, Fd.
    destruct (pg_done (r_final (pg_pipeline body owned reason selected lc now nd orc))) eqn:Hd.
    + (* closing: nothing remains *)
      intros s Hs. exfalso. apply Hs.
      apply (close_leaves_nothing body owned reason selected lc now nd orc Hr Hne Hrep Hrc). exact Fd.
    + rewrite pg_pipeline_patch by assumption. unfold pg_patch_of. rewrite <- Ff, Hd. rewrite Ff.
      set (st2 := pg_prepare body owned reason selected now).
      set (st3 := pg_final_of body owned reason selected lc now orc).
      set (plan := pg_plan lc st2 selected now).
      set (ran := pg_run orc st2 plan).
      set (p1 := if pg_has_extras st2 then pg_purge body st2 owned [] else []).
      assert (NS : pg_no_store p1). { unfold p1. destruct (pg_has_extras st2); [apply pg_no_store_purge|]; apply pg_no_store_nil. }
      assert (ND : NoDup (map fst (st_items st3))).
      { unfold st3, pg_final_of. rewrite pg_keys_with_outcomes. apply pg_keys_prepare. }
      (* the record of an owned id after the call still lists what its state lists *)
      assert (Hkeep : forall k h x, In k owned -> pg_find k (st_items st3) = Some h -> In x (h_subrefs h) ->
                 pg_find k (pg_apply_effects ran p1) <> Some PNull ->
                 (pg_changed h = false -> pg_find k (pg_apply_effects ran p1) = None ->
                    exists d, pg_find k body = Some d /\ In x (pg_or (s_subrefs d) [])) ->
                 exists d', pg_after body (pg_store st3 (pg_apply_effects ran p1)) k = Some d' /\ In x (pg_or (s_subrefs d') [])).
      { intros k h x Hk Hf Hx Hnn Hunch. unfold pg_after. rewrite (pg_find_store _ _ _ ND), Hf.
        destruct (pg_changed h) eqn:Ec.
        - eexists. split; [reflexivity|]. now apply pg_for_storage_subrefs.
        - destruct (pg_find k (pg_apply_effects ran p1)) as [[r'|]|] eqn:Ea; [|congruence|now apply Hunch].
          exfalso. apply pg_find_apply_effects in Ea. destruct Ea as [Ea|(ke & Hke & Hst)]; [eapply NS; eauto|].
          unfold ran, pg_run in Hke. apply in_map_iff in Hke. destruct Hke as (c & Ec' & _). subst ke. simpl in Hst.
          apply Hapart in Hst. tauto. }
      intros s Hs.
      destruct (pg_find s (st_items st3)) as [hs|] eqn:E3.
      { left. unfold st3, pg_final_of in E3. rewrite pg_find_with_outcomes in E3. fold st2 in E3.
        destruct (pg_find s (st_items st2)) as [h2|] eqn:E2; [|discriminate].
        destruct (pg_prepare_item body owned reason selected now s h2 E2) as ([H|H] & _); auto. }
      unfold pg_after in Hs. rewrite (pg_find_store _ _ _ ND), E3 in Hs.
      destruct (pg_find s (pg_apply_effects ran p1)) as [a|] eqn:Ea.
      * (* written during an invocation: listed by the invoked handler, whose record is rewritten *)
        destruct a as [r'|]; [|tauto]. apply pg_find_apply_effects in Ea.
        destruct Ea as [Ea|(ke & Hke & Hst)]; [exfalso; eapply NS; eauto|].
        unfold ran, pg_run in Hke. apply in_map_iff in Hke. destruct Hke as (k & Ek & Hk). subst ke. simpl in Hst.
        apply Hrep in Hst. right.
        destruct (pg_plan_spec _ _ _ _ _ Hk) as (Hsel & h2 & Hf2 & _). fold st2 in Hf2.
        destruct (pg_prepare_item body owned reason selected now k h2 Hf2) as (_ & W & _).
        assert (Hf3 : pg_find k (st_items st3) = Some (pg_hs_with_outcome now h2 (fst (orc k (pg_retries_of st2 k))))).
        { unfold st3, pg_final_of. fold st2. rewrite pg_find_with_outcomes, Hf2. cbn [option_map]. fold plan.
          rewrite pg_out_of_run. apply pg_mem_In in Hk. fold plan in Hk. now rewrite Hk. }
        exists k. eexists. split; [now apply Hincl|]. unfold pg_after. rewrite (pg_find_store _ _ _ ND), Hf3.
        rewrite (pg_changed_with_outcome _ _ _ W). split; [reflexivity|].
        apply pg_for_storage_subrefs. apply pg_subrefs_with_outcome. now right.
      * (* untouched: as before the call *)
        destruct (Hrc s Hs) as [H|(k & d & Hk & Hkd & Hsd)]; [now left|]. right.
        destruct (pg_final_keeps_refs body owned reason selected lc now orc k d s Hk Hkd Hsd) as (h & Hf & Hin). fold st3 in Hf.
        destruct (Hkeep k h s Hk Hf Hin) as (d' & Ha & Hd').
        { intros Hnull. assert (Hk1 : pg_find k p1 <> None).
          { apply pg_find_apply_effects in Hnull. destruct Hnull as [Hn|(ke & Hke & Hst)]; [rewrite Hn; discriminate|].
            exfalso. unfold ran, pg_run in Hke. apply in_map_iff in Hke. destruct Hke as (c & Ec' & _). subst ke. simpl in Hst.
            apply Hapart in Hst. tauto. }
          assert (Hs1 : pg_find s p1 <> None).
          { pose proof (pg_p1_purges_refs body owned reason selected now k d s Hk Hkd Hsd) as HH. cbv zeta in HH. fold st2 in HH.
            apply HH; [exact Hk1|exact Hs]. }
          apply (pg_find_apply_effects_keep ran) in Hs1. congruence. }
        { intros _ _. eauto. }
        exists k, d'. auto.
Qed.

(* the nested-handler oracle satisfies the two side conditions *)
Theorem deep_stores_apart : forall body reason lc now fam leaf tops,
  pg_pure leaf -> pg_fam_apart fam tops -> forall fuel, pg_stores_apart (pg_deep_oracle fuel body reason lc now fam leaf) tops.
Proof.
  intros * Hp Hfa fuel. induction fuel as [|f IH]; intros k n s Hs.
  - simpl in Hs. rewrite Hp in Hs. destruct Hs.
  - destruct (fam k) as [[[res so] ss]|] eqn:Hfam.
    + rewrite (pg_deep_unfold _ _ _ _ _ _ _ _ _ _ _ _ Hfam) in Hs.
      set (sub := pg_deep_oracle f body reason lc now fam leaf) in *.
      assert (Hst : In s (map fst (sr_stores (pg_sub_execute body reason so ss lc now sub)))) by (unfold pg_parent_outcome in Hs; exact Hs).
      clear Hs. unfold pg_sub_execute in Hst. cbn [sr_stores] in Hst. rewrite map_app in Hst. apply in_app_or in Hst.
      destruct Hst as [Hst|Hst].
      * apply in_map_iff in Hst. destruct Hst as (kr & E & Hst). apply in_flat_map in Hst. destruct Hst as (ke & Hke & Hkr).
        unfold pg_run in Hke. apply in_map_iff in Hke. destruct Hke as (c & Ec & _). subst ke. simpl in *.
        eapply IH. apply in_map_iff. exists kr. eauto.
      * apply pg_store_list_keys in Hst. rewrite pg_keys_with_outcomes in Hst.
        apply pg_In_find in Hst. destruct Hst as (h & Hf). rewrite pg_find_with_handlers in Hf. unfold pg_wh_spec in Hf.
        destruct (pg_mem s ss) eqn:Ess.
        -- apply pg_mem_In in Ess. eapply Hfa; eauto.
        -- rewrite pg_find_with_purpose, pg_find_from_storage in Hf. destruct (pg_mem s so) eqn:Eso; [|discriminate].
           apply pg_mem_In in Eso. eapply Hfa; eauto.
    + rewrite (pg_deep_leaf (S f) _ _ _ _ _ _ _ _ Hfam) in Hs. rewrite Hp in Hs. destruct Hs.
Qed.

(* ------------------------------------------------------------------ nesting: witnesses and non-vacuity *)
Lemma refs_closed_empty : forall tops, pg_refs_closed (fun s => pg_find s (@nil (pg_hid * pg_srec))) tops.
Proof. intros tops s H. simpl in H. tauto. Qed.

(* the invariant is needed: a sub-handler record nobody references survives the closing *)
Theorem close_leaves_nothing_refuted :
  exists body owned reason selected lc now orc,
    let r := pg_pipeline body owned reason selected lc now true orc in
    pg_handler_reason reason = true /\ incl selected owned /\ pg_pure orc /\ r_done r = Some true /\
    exists s, pg_after body (r_patch r) s <> None.
Proof.
  exists [("p", w_retry "update"); ("p/c/leaf", w_done "update")], ["p"], PRUpdate, ["p"], LAsap, w_now, (w_orc []).
  cbv zeta. split; [reflexivity|]. split; [intros k [H|[]]; subst; now left|]. split; [intros k n; reflexivity|].
  vm_compute. split; [reflexivity|]. exists "p/c/leaf". discriminate.
Qed.

Definition w_fam3 : pg_hid -> option (option Z * list pg_hid * list pg_hid) :=
  fun k => if String.eqb k "p" then Some (None, ["p/c"; "p/o"], ["p/c"; "p/o"])
           else if String.eqb k "p/c" then Some (None, ["p/c/a"; "p/c/b"], ["p/c/a"; "p/c/b"])
           else if String.eqb k "p/c/b" then Some (None, ["p/c/b/t"], ["p/c/b/t"])
           else None.

(* three levels below the parent: one call runs them all (all_at_once), closes, and no record of any depth remains;
   with a retrying twig the parent and every ancestor stay open and the parent's record lists all descendants *)
Example ex_nested_three_levels :
  let closed := pg_pipeline [] ["p"] PRCreate ["p"] LAll w_now true (pg_deep_oracle 5 [] PRCreate LAll w_now w_fam3 (w_orc [])) in
  let open := pg_pipeline [] ["p"] PRCreate ["p"] LAll w_now true (pg_deep_oracle 5 [] PRCreate LAll w_now w_fam3 (w_orc ["p/c/b/t"])) in
  r_invoked closed = [("p", 0)] /\
  r_sub closed = [("p/c", 0); ("p/c/a", 0); ("p/c/b", 0); ("p/c/b/t", 0); ("p/o", 0)] /\
  r_done closed = Some true /\ r_patch closed = [] /\
  r_done open = Some false /\
  option_map s_subrefs (pg_after [] (r_patch open) "p") = Some (Some ["p/c"; "p/c/a"; "p/c/b"; "p/c/b/t"; "p/o"]) /\
  option_map s_subrefs (pg_after [] (r_patch open) "p/c") = Some (Some ["p/c/a"; "p/c/b"; "p/c/b/t"]) /\
  option_map s_success (pg_after [] (r_patch open) "p/c/a") = Some (Some true) /\
  option_map s_success (pg_after [] (r_patch open) "p/c/b") = Some (Some false).
Proof. vm_compute. repeat split. Qed.

Example ex_nested_descendant :
  pg_desc [] PRCreate LAll w_now w_fam3 (w_orc []) 5 "p" 0 "p/c/b/t".
Proof.
  eapply pg_desc_deeper with (c := "p/c") (m := 0); [reflexivity|vm_compute; now left|].
  eapply pg_desc_deeper with (c := "p/c/b") (m := 0); [reflexivity|vm_compute; right; now left|].
  eapply pg_desc_child; [reflexivity|vm_compute; now left].
Qed.

(* ================================================================== deepening round =============================== *)
Lemma pg_quiet_pure : forall orc, pg_quiet orc -> pg_pure orc.
Proof. intros orc H k n. now rewrite H. Qed.

(* ------------------------------------------------------------------ every invocation of every depth *)
Theorem deep_invoked_only_unfinished : forall body reason lc now fam leaf,
  pg_quiet leaf -> pg_fam_wf fam ->
  forall fuel k n s m,
    In (s, m) (e_invoked (snd (pg_deep_oracle fuel body reason lc now fam leaf k n))) ->
    pg_rec_finished (pg_find s body) = false /\
    pg_rec_sleeping now (pg_find s body) = false /\
    m = pg_rec_retries (pg_find s body).
Proof.
  intros * Hq Hwf fuel. induction fuel as [|f IH]; intros k n s m H.
  - simpl in H. rewrite Hq in H. destruct H.
  - destruct (fam k) as [[[res so] ss]|] eqn:Hfam.
    + rewrite (pg_deep_unfold _ _ _ _ _ _ _ _ _ _ _ _ Hfam) in H.
      set (sub := pg_deep_oracle f body reason lc now fam leaf) in *.
      assert (Ht : In (s, m) (sr_trace (pg_sub_execute body reason so ss lc now sub))) by (unfold pg_parent_outcome in H; exact H).
      clear H. unfold pg_sub_execute in Ht. cbn [sr_trace] in Ht.
      set (st := pg_with_handlers _ ss now) in *.
      apply in_flat_map in Ht. destruct Ht as (ke & Hke & Hin).
      unfold pg_run in Hke. apply in_map_iff in Hke. destruct Hke as (c & Ec & Hc). subst ke. cbn [fst snd] in Hin.
      destruct Hin as [E|Hin].
      * inversion E. subst s m.
        assert (Hinv : In (c, pg_retries_of st c) (sr_invoked (pg_sub_execute body reason so ss lc now sub))).
        { unfold pg_sub_execute. cbn [sr_invoked]. fold st. unfold pg_invocations. apply in_map_iff. now exists c. }
        destruct (sub_invoked_only_unfinished _ _ _ _ _ _ _ _ _ (Hwf _ _ _ _ Hfam) Hinv) as (_ & A & B & C). auto.
      * eapply IH. exact Hin.
    + rewrite (pg_deep_leaf (S f) _ _ _ _ _ _ _ _ Hfam) in H. rewrite Hq in H. destruct H.
Qed.

Lemma pg_pipeline_sub : forall body owned reason selected lc now nd orc s m,
  In (s, m) (r_sub (pg_pipeline body owned reason selected lc now nd orc)) ->
  exists k n, In (s, m) (e_invoked (snd (orc k n))).
Proof.
  intros * H. unfold pg_pipeline in H. destruct (negb (pg_handler_reason reason)); [destruct H|].
  destruct selected as [|s0 sel]; [destruct H|]. cbn [r_sub] in H.
  apply in_flat_map in H. destruct H as (ke & Hke & Hin).
  unfold pg_run in Hke. apply in_map_iff in Hke. destruct Hke as (c & Ec & _). subst ke. simpl in Hin. eauto.
Qed.

(* C02 for the whole trace of a call: handlers and sub-handlers of every depth *)
Theorem trace_only_unfinished : forall body owned reason selected lc now nd fuel fam leaf s m,
  incl selected owned -> pg_quiet leaf -> pg_fam_wf fam ->
  In (s, m) (pg_trace (pg_pipeline body owned reason selected lc now nd (pg_deep_oracle fuel body reason lc now fam leaf))) ->
  pg_rec_finished (pg_find s body) = false /\
  pg_rec_sleeping now (pg_find s body) = false /\
  m = pg_rec_retries (pg_find s body).
Proof.
  intros * Hincl Hq Hwf H. unfold pg_trace in H. apply in_app_or in H. destruct H as [H|H].
  - destruct (invoked_only_unfinished _ _ _ _ _ _ _ _ _ _ Hincl H) as (_ & A & B & C). auto.
  - apply pg_pipeline_sub in H. destruct H as (k & n & H). eapply deep_invoked_only_unfinished; eauto.
Qed.

(* ------------------------------------------------------------------ a handler that is due IS invoked *)
Lemma pg_todo_is_due : forall body owned reason selected now,
  incl selected owned ->
  pg_todo (pg_prepare body owned reason selected now) selected now = pg_due body selected now.
Proof.
  intros * Hincl. unfold pg_todo, pg_due. apply filter_ext_in. intros k Hk.
  destruct (pg_prepare_selected_owned body owned reason selected now k Hk (Hincl _ Hk)) as (h & Hf & _ & F & S & _).
  rewrite Hf. unfold pg_awakened. now rewrite F, S.
Qed.

Lemma pg_retries_prepared : forall body owned reason selected now k,
  incl selected owned -> In k selected ->
  pg_retries_of (pg_prepare body owned reason selected now) k = pg_rec_retries (pg_find k body).
Proof.
  intros * Hincl Hk.
  destruct (pg_prepare_selected_owned body owned reason selected now k Hk (Hincl _ Hk)) as (h & Hf & _ & _ & _ & R).
  unfold pg_retries_of. now rewrite Hf.
Qed.

Lemma pg_argmin_min : forall st l b x, In x (b :: l) -> pg_retries_of st (pg_argmin st b l) <= pg_retries_of st x.
Proof.
  induction l as [|y l IH]; intros b x Hx; simpl.
  - destruct Hx as [<-|[]]. lia.
  - destruct (pg_retries_of st y <? pg_retries_of st b) eqn:E.
    + apply Z.ltb_lt in E. destruct Hx as [<-|[<-|Hx]].
      * specialize (IH y y (or_introl eq_refl)). lia.
      * apply IH. now left.
      * apply IH. now right.
    + apply Z.ltb_ge in E. destruct Hx as [<-|[<-|Hx]].
      * apply IH. now left.
      * specialize (IH b b (or_introl eq_refl)). lia.
      * apply IH. now right.
Qed.

Lemma pg_pipeline_invoked_ids : forall body owned reason selected lc now nd orc,
  pg_handler_reason reason = true ->
  map fst (r_invoked (pg_pipeline body owned reason selected lc now nd orc)) =
  pg_plan lc (pg_prepare body owned reason selected now) selected now.
Proof.
  intros * Hr. unfold pg_pipeline. rewrite Hr. simpl negb. cbv iota.
  destruct selected as [|s0 sel] eqn:Es.
  - simpl. unfold pg_plan, pg_todo. simpl. now destruct lc; simpl; try reflexivity; induction idx as [|i idx IH]; simpl; [|destruct i]; auto.
  - cbn [r_invoked]. unfold pg_invocations. rewrite map_map. simpl. apply map_id.
Qed.

Theorem due_is_invoked : forall body owned reason selected lc now nd orc,
  pg_handler_reason reason = true -> incl selected owned ->
  let ids := map fst (r_invoked (pg_pipeline body owned reason selected lc now nd orc)) in
  let due := pg_due body selected now in
  (lc = LAll -> ids = due) /\
  (lc = LOne -> ids = firstn 1 due) /\
  (lc = LAsap -> (due = [] /\ ids = []) \/
                 exists k, ids = [k] /\ In k due /\
                           forall k', In k' due -> pg_rec_retries (pg_find k body) <= pg_rec_retries (pg_find k' body)).
Proof.
  intros * Hr Hincl ids due. subst ids due. rewrite (pg_pipeline_invoked_ids _ _ _ _ _ _ _ _ Hr).
  unfold pg_plan. rewrite (pg_todo_is_due _ _ _ _ _ Hincl).
  split; [intros ->; reflexivity|]. split; [intros ->; reflexivity|]. intros ->. simpl.
  destruct (pg_due body selected now) as [|b l] eqn:Ed; [now left|]. right.
  set (st := pg_prepare body owned reason selected now).
  assert (Hsub : forall x, In x (b :: l) -> In x selected).
  { intros x Hx. rewrite <- Ed in Hx. unfold pg_due in Hx. now apply filter_In in Hx. }
  exists (pg_argmin st b l). split; [reflexivity|]. split; [apply pg_argmin_In|]. intros k' Hk'.
  pose proof (pg_argmin_min st l b k' Hk') as Hm. unfold st in Hm.
  rewrite !pg_retries_prepared in Hm; auto. apply Hsub, pg_argmin_In.
Qed.

(* ------------------------------------------------------------------ what an invocation did IS recorded on the object *)
Theorem attempt_is_recorded : forall body owned reason selected lc now nd orc k n,
  pg_handler_reason reason = true -> selected <> [] ->
  let r := pg_pipeline body owned reason selected lc now nd orc in
  r_done r = Some false ->
  In (k, n) (r_invoked r) ->
  let o := fst (orc k n) in
  exists d, pg_after body (r_patch r) k = Some d /\
            s_retries d = Some (n + 1) /\
            s_success d = Some (o_final o && match o_exc o with None => true | Some _ => false end) /\
            s_failure d = Some (o_final o && match o_exc o with None => false | Some _ => true end) /\
            s_delayed d = match o_delay o with Some x => Some (now + x) | None => None end /\
            s_message d = o_exc o /\
            pg_rec_finished (Some d) = o_final o /\
            (forall s, In s (o_subrefs o) -> In s (pg_or (s_subrefs d) [])).
Proof.
  intros * Hr Hs r Hd Hinv o. subst r o.
  destruct (pg_pipeline_final body owned reason selected lc now nd orc Hr Hs) as (Ff & Fd & _). cbv zeta in Ff, Fd.
  rewrite Fd in Hd. injection Hd as Hd'. rewrite Ff in Hd'.
  rewrite pg_pipeline_patch by assumption. unfold pg_patch_of. rewrite Hd'.
  apply pg_pipeline_invoked in Hinv. destruct Hinv as [Hp Hn].
  set (st2 := pg_prepare body owned reason selected now) in *.
  destruct (pg_plan_spec _ _ _ _ _ Hp) as (_ & h2 & Hf2 & _).
  destruct (pg_prepare_item body owned reason selected now k h2 Hf2) as (_ & W & _).
  assert (Hr2 : pg_retries_of st2 k = h_retries h2) by (unfold pg_retries_of; now rewrite Hf2).
  set (st3 := pg_final_of body owned reason selected lc now orc).
  assert (ND : NoDup (map fst (st_items st3))).
  { unfold st3, pg_final_of. rewrite pg_keys_with_outcomes. apply pg_keys_prepare. }
  assert (Hf3 : pg_find k (st_items st3) = Some (pg_hs_with_outcome now h2 (fst (orc k n)))).
  { unfold st3, pg_final_of. fold st2. rewrite pg_find_with_outcomes, Hf2. cbn [option_map].
    rewrite pg_out_of_run. pose proof Hp as Hp'. apply pg_mem_In in Hp'. rewrite Hp'. now subst n. }
  unfold pg_after. rewrite (pg_find_store _ _ _ ND), Hf3, (pg_changed_with_outcome _ _ _ W).
  eexists. split; [reflexivity|]. cbn [pg_for_storage s_retries s_success s_failure s_delayed s_message pg_hs_with_outcome
                                        h_retries h_success h_failure h_delayed h_message].
  rewrite Hn, Hr2. repeat split.
  - unfold pg_rec_finished. cbn [s_success s_failure pg_for_storage pg_or h_success h_failure pg_hs_with_outcome].
    destruct (o_final _), (o_exc _); reflexivity.
  - intros s Hin. apply pg_for_storage_subrefs. apply pg_subrefs_with_outcome. now right.
Qed.

(* ... and for sub-handlers: subhandling.execute stores exactly that *)
Theorem sub_attempt_is_recorded : forall body reason so ss lc now orc c m,
  let sr := pg_sub_execute body reason so ss lc now orc in
  In (c, m) (sr_invoked sr) ->
  exists d, In (c, d) (sr_stores sr) /\ s_retries d = Some (m + 1) /\
            pg_rec_finished (Some d) = o_final (fst (orc c m)) /\
            s_success d = Some (o_final (fst (orc c m)) && match o_exc (fst (orc c m)) with None => true | Some _ => false end).
Proof.
  intros body reason so ss lc now orc c m sr H. subst sr. unfold pg_sub_execute in *. cbn [sr_invoked sr_stores] in *.
  set (st := pg_with_handlers _ ss now) in *. set (plan := pg_plan lc st ss now) in *.
  unfold pg_invocations in H. apply in_map_iff in H. destruct H as (c' & E & Hc). inversion E. subst c' m. clear E.
  destruct (pg_plan_spec _ _ _ _ _ Hc) as (_ & h & Hf & _).
  assert (W : pg_wf_h h).
  { unfold st in Hf. rewrite pg_find_with_handlers in Hf. unfold pg_wh_spec in Hf.
    rewrite pg_find_with_purpose, pg_find_from_storage in Hf.
    destruct (pg_mem c ss), (pg_mem c so), (pg_find c body); cbn [option_map pg_mem] in Hf; inversion Hf; unfold pg_wf_h; simpl; auto. }
  set (outs := pg_outs_of_run (pg_run orc st plan)).
  assert (Hf3 : pg_find c (st_items (pg_with_outcomes st outs now)) = Some (pg_hs_with_outcome now h (fst (orc c (pg_retries_of st c))))).
  { rewrite pg_find_with_outcomes, Hf. cbn [option_map]. unfold outs. rewrite pg_out_of_run.
    pose proof Hc as Hc'. apply pg_mem_In in Hc'. fold plan in Hc'. now rewrite Hc'. }
  exists (pg_for_storage (pg_hs_with_outcome now h (fst (orc c (pg_retries_of st c))))). split.
  - apply in_or_app. right. unfold pg_store_list. apply in_flat_map.
    exists (c, pg_hs_with_outcome now h (fst (orc c (pg_retries_of st c)))). split; [now apply pg_find_In|].
    cbn [fst snd]. rewrite (pg_changed_with_outcome _ _ _ W). now left.
  - assert (Hr : pg_retries_of st c = h_retries h) by (unfold pg_retries_of; now rewrite Hf). rewrite Hr.
    cbn [pg_for_storage s_retries s_success pg_hs_with_outcome h_retries h_success]. repeat split.
    unfold pg_rec_finished. cbn [s_success s_failure pg_for_storage pg_or h_success h_failure pg_hs_with_outcome].
    destruct (o_final _), (o_exc _); reflexivity.
Qed.

(* ------------------------------------------------------------------ "finished" stays recorded while the cycle is open *)
Lemma pg_find_effects_fold_src : forall (l : list (pg_hid * pg_srec)) p s a,
  pg_find s (fold_left (fun p kr => pg_p_set (fst kr) (PStore (snd kr)) p) l p) = Some a ->
  pg_find s p = Some a \/ exists r, In (s, r) l /\ a = PStore r.
Proof.
  induction l as [|kr l IH]; simpl; intros p s a H; [now left|].
  apply IH in H. destruct H as [H|(r & Hin & E)]; [|right; exists r; auto].
  rewrite pg_find_p_set in H. destruct (String.eqb (fst kr) s) eqn:E; [|now left].
  apply String.eqb_eq in E. inversion H. right. exists (snd kr). split; [left; destruct kr; simpl in *; congruence|reflexivity].
Qed.

Lemma pg_find_apply_effects_src : forall ran p s a,
  pg_find s (pg_apply_effects ran p) = Some a ->
  pg_find s p = Some a \/ exists ke r, In ke ran /\ In (s, r) (e_stores (snd (snd ke))) /\ a = PStore r.
Proof.
  unfold pg_apply_effects. induction ran as [|ke ran IH]; simpl; intros p s a H; [now left|].
  apply IH in H. destruct H as [H|(ke' & r & H1 & H2 & H3)]; [|right; exists ke', r; auto].
  apply pg_find_effects_fold_src in H. destruct H as [H|(r & Hin & E)]; [now left|]. right. exists ke, r. auto.
Qed.

Lemma pg_rec_finished_for_storage : forall h, pg_rec_finished (Some (pg_for_storage h)) = pg_finished h.
Proof. reflexivity. Qed.

Theorem finished_stays_finished : forall body owned reason selected lc now nd orc,
  incl selected owned -> pg_keeps_finished body orc ->
  let r := pg_pipeline body owned reason selected lc now nd orc in
  r_done r <> Some true ->
  (pg_handler_reason reason = true -> pg_has_extras (pg_prepare body owned reason selected now) = false) ->
  forall s, pg_rec_finished (pg_find s body) = true -> pg_rec_finished (pg_after body (r_patch r) s) = true.
Proof.
  intros * Hincl Hkf r Hnd Hex s Hfin. subst r.
  destruct (pg_handler_reason reason) eqn:Hr.
  2:{ destruct (pg_pipeline_idle body owned reason selected lc now nd orc Hr) as (_ & Hp & _). cbv zeta in Hp. rewrite Hp.
      unfold pg_after. simpl. exact Hfin. }
  specialize (Hex eq_refl).
  destruct selected as [|s0 sel] eqn:Es.
  - unfold pg_pipeline. rewrite Hr. simpl negb. cbv iota. cbn [r_patch]. rewrite Hex. unfold pg_after. simpl. exact Hfin.
  - rewrite <- Es in *. assert (Hne : selected <> []) by (rewrite Es; discriminate).
    destruct (pg_pipeline_final body owned reason selected lc now nd orc Hr Hne) as (Ff & Fd & _). cbv zeta in Ff, Fd.
    rewrite Fd, Ff in Hnd.
    destruct (pg_done (pg_final_of body owned reason selected lc now orc)) eqn:Hd; [congruence|].
    rewrite pg_pipeline_patch by assumption. unfold pg_patch_of. rewrite Hd, Hex.
    set (st2 := pg_prepare body owned reason selected now).
    set (st3 := pg_final_of body owned reason selected lc now orc).
    set (ran := pg_run orc st2 (pg_plan lc st2 selected now)).
    assert (ND : NoDup (map fst (st_items st3))).
    { unfold st3, pg_final_of. rewrite pg_keys_with_outcomes. apply pg_keys_prepare. }
    unfold pg_after. rewrite (pg_find_store _ _ _ ND).
    destruct (pg_find s (st_items st3)) as [h3|] eqn:E3.
    + (* a state of this call: s is owned, its state says finished, it was not run *)
      unfold st3, pg_final_of in E3. fold st2 in E3. rewrite pg_find_with_outcomes in E3.
      destruct (pg_find s (st_items st2)) as [h2|] eqn:E2; [|discriminate]. cbn [option_map] in E3.
      assert (Hown : In s owned).
      { destruct (pg_prepare_item body owned reason selected now s h2 E2) as ([H|H] & _); auto. }
      assert (F2 : pg_finished h2 = true).
      { destruct (pg_find s body) as [d|] eqn:Eb; [|discriminate].
        unfold st2 in E2. rewrite pg_prepare_find in E2. unfold pg_wh_spec, pg_base in E2.
        pose proof Hown as Ho. apply pg_mem_In in Ho. rewrite Ho, Eb in E2. cbn [option_map] in E2.
        destruct (pg_mem s selected); cbn [option_map] in E2; inversion E2; destruct (_ && _); exact Hfin. }
      assert (Hnp : pg_out_of s (pg_outs_of_run (pg_run orc st2 (pg_plan lc st2 selected now))) = None).
      { rewrite pg_out_of_run. destruct (pg_mem s (pg_plan lc st2 selected now)) eqn:Em; [|reflexivity].
        apply pg_mem_In in Em. apply pg_plan_spec in Em. destruct Em as (_ & h & Hf & Haw). fold st2 in Hf.
        rewrite E2 in Hf. inversion Hf. subst h. unfold pg_awakened in Haw. rewrite F2 in Haw. discriminate. }
      rewrite Hnp in E3. inversion E3. subst h3.
      destruct (pg_changed h2); [exact F2|].
      destruct (pg_find s (pg_apply_effects ran [])) as [a|] eqn:Ea; [|exact Hfin].
      apply pg_find_apply_effects_src in Ea. destruct Ea as [Ea|(ke & x & Hke & Hst & ->)]; [discriminate|].
      unfold ran, pg_run in Hke. apply in_map_iff in Hke. destruct Hke as (c & Ec & _). subst ke. simpl in Hst.
      eapply Hkf; eauto.
    + destruct (pg_find s (pg_apply_effects ran [])) as [a|] eqn:Ea; [|exact Hfin].
      apply pg_find_apply_effects_src in Ea. destruct Ea as [Ea|(ke & x & Hke & Hst & ->)]; [discriminate|].
      unfold ran, pg_run in Hke. apply in_map_iff in Hke. destruct Hke as (c & Ec & _). subst ke. simpl in Hst.
      eapply Hkf; eauto.
Qed.

(* the nested-handler oracle never writes "unfinished" over a record that says "finished" *)
Theorem deep_keeps_finished : forall body reason lc now fam leaf,
  pg_quiet leaf -> pg_fam_wf fam -> forall fuel, pg_keeps_finished body (pg_deep_oracle fuel body reason lc now fam leaf).
Proof.
  intros * Hq Hwf fuel. induction fuel as [|f IH]; intros k n s r Hs Hfin.
  - simpl in Hs. rewrite Hq in Hs. destruct Hs.
  - destruct (fam k) as [[[res so] ss]|] eqn:Hfam.
    + rewrite (pg_deep_unfold _ _ _ _ _ _ _ _ _ _ _ _ Hfam) in Hs.
      set (sub := pg_deep_oracle f body reason lc now fam leaf) in *.
      assert (Hst : In (s, r) (sr_stores (pg_sub_execute body reason so ss lc now sub))) by (unfold pg_parent_outcome in Hs; exact Hs).
      clear Hs. unfold pg_sub_execute in Hst. cbn [sr_stores] in Hst. apply in_app_or in Hst. destruct Hst as [Hst|Hst].
      * apply in_flat_map in Hst. destruct Hst as (ke & Hke & Hkr).
        unfold pg_run in Hke. apply in_map_iff in Hke. destruct Hke as (c & Ec & _). subst ke. simpl in Hkr. eapply IH; eauto.
      * set (st := pg_with_handlers _ ss now) in *.
        unfold pg_store_list in Hst. apply in_flat_map in Hst. destruct Hst as ([a h3] & Hin & Hst). cbn [fst snd] in Hst.
        destruct (pg_changed h3); [|destruct Hst]. destruct Hst as [E|[]]. inversion E. subst a r. clear E.
        rewrite pg_rec_finished_for_storage.
        assert (ND : NoDup (map fst (st_items (pg_with_outcomes st (pg_outs_of_run (pg_run sub st (pg_plan lc st ss now))) now)))).
        { rewrite pg_keys_with_outcomes. unfold st. rewrite pg_with_handlers_fold. apply pg_keys_wh_fold.
          rewrite pg_keys_with_purpose. apply pg_keys_from_storage. }
        apply (pg_nodup_find _ _ _ _ ND) in Hin. rewrite pg_find_with_outcomes in Hin.
        destruct (pg_find s (st_items st)) as [h2|] eqn:E2; [|discriminate]. cbn [option_map] in Hin.
        destruct (pg_find s body) as [d|] eqn:Eb; [|discriminate].
        assert (F2 : pg_finished h2 = true).
        { unfold st in E2. rewrite pg_find_with_handlers in E2. unfold pg_wh_spec in E2.
          rewrite pg_find_with_purpose, pg_find_from_storage in E2. rewrite Eb in E2.
          destruct (pg_mem s ss) eqn:Ess, (pg_mem s so) eqn:Eso; cbn [option_map pg_mem] in E2; inversion E2; try exact Hfin.
          - exfalso. apply pg_mem_In in Ess. apply (Hwf _ _ _ _ Hfam) in Ess. apply pg_mem_In in Ess. congruence. }
        assert (Hnp : pg_out_of s (pg_outs_of_run (pg_run sub st (pg_plan lc st ss now))) = None).
        { rewrite pg_out_of_run. destruct (pg_mem s (pg_plan lc st ss now)) eqn:Em; [|reflexivity].
          apply pg_mem_In in Em. apply pg_plan_spec in Em. destruct Em as (_ & h & Hf & Haw).
          rewrite E2 in Hf. inversion Hf. subst h. unfold pg_awakened in Haw. rewrite F2 in Haw. discriminate. }
        rewrite Hnp in Hin. inversion Hin. subst h3. exact F2.
    + rewrite (pg_deep_leaf (S f) _ _ _ _ _ _ _ _ Hfam) in Hs. rewrite Hq in Hs. destruct Hs.
Qed.

(* ------------------------------------------------------------------ the object after the patch, as the next call's view *)
Lemma pg_find_flat_map_gen : forall A (f : pg_hid -> option A) l k,
  NoDup l ->
  pg_find k (flat_map (fun k => match f k with Some d => [(k, d)] | None => [] end) l) =
  if pg_mem k l then f k else None.
Proof.
  induction l as [|x l IH]; intros k ND; simpl; [reflexivity|].
  inversion ND as [|? ? Hx ND']. subst. rewrite pg_find_app, IH by assumption.
  destruct (String.eqb x k) eqn:E; simpl.
  - apply String.eqb_eq in E. subst x. destruct (f k); simpl.
    + now rewrite String.eqb_refl.
    + apply pg_mem_false in Hx. now rewrite Hx.
  - destruct (f x); simpl; [now rewrite E|reflexivity].
Qed.

Theorem pg_find_apply : forall body p s, pg_find s (pg_apply body p) = pg_after body p s.
Proof.
  intros. unfold pg_apply. rewrite pg_find_flat_map_gen by apply pg_dedup_NoDup.
  destruct (pg_mem s (pg_dedup (map fst p ++ map fst body))) eqn:E; [reflexivity|].
  apply pg_mem_false in E. rewrite pg_dedup_In, in_app_iff in E.
  unfold pg_after. assert (H1 : pg_find s p = None) by (apply pg_find_none; tauto).
  assert (H2 : pg_find s body = None) by (apply pg_find_none; tauto). now rewrite H1, H2.
Qed.

(* ------------------------------------------------------------------ across calls: intervening events, sibling retries, restarts *)
(* what each call's handlers may do: never run what the object says is finished, never un-finish a record *)
Definition pg_orc_ok (c : pg_call) : Prop :=
  forall b, pg_keeps_finished b (c_orc c b) /\
            forall k n s m, In (s, m) (e_invoked (snd (c_orc c b k n))) -> pg_rec_finished (pg_find s b) = false.

Theorem no_rerun_across_calls : forall owned calls body s,
  (forall c, In c calls -> incl (c_selected c) owned /\ pg_orc_ok c) ->
  pg_all_calm owned body calls ->
  pg_rec_finished (pg_find s body) = true ->
  (forall r, In r (fst (pg_run_calls owned body calls)) -> ~ In s (map fst (pg_trace r))) /\
  pg_rec_finished (pg_find s (snd (pg_run_calls owned body calls))) = true.
Proof.
  intros owned calls. induction calls as [|c cs IH]; intros body s Hc Hcalm Hfin.
  - simpl. split; [intros r []|exact Hfin].
  - destruct (Hc c (or_introl eq_refl)) as [Hincl Hok]. destruct Hcalm as [[Hnd Hex] Hrest].
    set (r := pg_call_result owned body c) in *.
    assert (Hnot : ~ In s (map fst (pg_trace r))).
    { intros Hin. apply in_map_iff in Hin. destruct Hin as ([s' m] & E & Hin). simpl in E. subst s'.
      unfold pg_trace in Hin. apply in_app_or in Hin. destruct Hin as [Hin|Hin].
      - unfold r, pg_call_result in Hin.
        destruct (invoked_only_unfinished _ _ _ _ _ _ _ _ _ _ Hincl Hin) as (_ & F & _). congruence.
      - unfold r, pg_call_result in Hin. apply pg_pipeline_sub in Hin. destruct Hin as (k & n & Hin).
        destruct (Hok body) as [_ Ht]. apply Ht in Hin. congruence. }
    assert (Hfin' : pg_rec_finished (pg_find s (pg_apply body (r_patch r))) = true).
    { rewrite pg_find_apply. unfold r, pg_call_result.
      apply finished_stays_finished; auto. destruct (Hok body) as [Hk _]. exact Hk. }
    destruct (IH (pg_apply body (r_patch r)) s) as [IH1 IH2]; auto.
    { intros c' Hc'. apply Hc. now right. }
    simpl. fold r. split; [|exact IH2]. intros r' [<-|Hr']; [exact Hnot|now apply IH1].
Qed.

(* the nested-handler behaviour is such a behaviour *)
Theorem deep_orc_ok : forall reason selected lc now nd fuel fam leaf,
  pg_quiet leaf -> pg_fam_wf fam ->
  pg_orc_ok (mkPgCall reason selected lc now nd (fun b => pg_deep_oracle fuel b reason lc now fam leaf)).
Proof.
  intros * Hq Hwf b. cbn [c_orc]. split; [now apply deep_keeps_finished|].
  intros k n s m H. eapply deep_invoked_only_unfinished in H; eauto. tauto.
Qed.

(* ------------------------------------------------------------------ non-vacuity for the deepening round *)
Definition w_call (now : Z) (tmp : list pg_hid) : pg_call :=
  mkPgCall PRUpdate ["a"; "p"] LAll now true (fun b => pg_deep_oracle 5 b PRUpdate LAll now w_fam3 (w_orc tmp)).

(* two calls on the evolving object: in the first everything but the twig succeeds, the second runs p, p/c, p/c/b and
   the twig again (retry 1) and nothing that is recorded as finished; both calls are calm *)
Example ex_two_calls :
  let calls := [w_call w_now ["p/c/b/t"]; w_call (w_now + 2000000) ["p/c/b/t"]] in
  let run := pg_run_calls ["a"; "p"] [] calls in
  map pg_trace (fst run) =
    [[("a", 0); ("p", 0); ("p/c", 0); ("p/c/a", 0); ("p/c/b", 0); ("p/c/b/t", 0); ("p/o", 0)];
     [("p", 1); ("p/c", 1); ("p/c/b", 1); ("p/c/b/t", 1)]] /\
  pg_rec_finished (pg_find "a" (snd run)) = true /\ pg_rec_finished (pg_find "p/c/a" (snd run)) = true /\
  pg_rec_finished (pg_find "p/c/b" (snd run)) = false /\
  pg_rec_retries (pg_find "p/c/b/t" (snd run)) = 2.
Proof. vm_compute. repeat split. Qed.

Example ex_two_calls_calm :
  pg_all_calm ["a"; "p"] [] [w_call w_now ["p/c/b/t"]; w_call (w_now + 2000000) ["p/c/b/t"]].
Proof. simpl. repeat split; try (vm_compute; discriminate); intros _; vm_compute; reflexivity. Qed.

Lemma w_fam3_wf : pg_fam_wf w_fam3.
Proof.
  intros k res so ss H. unfold w_fam3 in H.
  destruct (String.eqb k "p"); [inversion H; apply incl_refl|].
  destruct (String.eqb k "p/c"); [inversion H; apply incl_refl|].
  destruct (String.eqb k "p/c/b"); [inversion H; apply incl_refl|discriminate].
Qed.

Example ex_due_asap :
  let body := [("a", w_retry "update"); ("b", mkPgRec (Some 990000000) None None (Some "update") (Some 0) (Some false) (Some false) None None);
               ("c", w_done "update")] in
  pg_due body ["a"; "b"; "c"] w_now = ["a"; "b"] /\
  map fst (r_invoked (pg_pipeline body ["a"; "b"; "c"] PRUpdate ["a"; "b"; "c"] LAsap w_now true (w_orc []))) = ["b"].
Proof. vm_compute. split; reflexivity. Qed.
