(* Patch._apply_patch (path-wise dicts.ensure / dicts.remove) against RFC 7386 merge, up to the
   presence of empty mappings; as_json_patch fidelity from the law of from_diff. *)
From Coq Require Import ZArith List String Bool Ascii Arith Lia.
From KV Require Import Base.Json Base.Dicts Model.JsonPatch Model.MergeDsl Proofs.JsonPatch.
Import ListNotations.
Open Scope string_scope.
Open Scope list_scope.

(* ---------- association lists ---------- *)
Section AssocFacts.
  Context {V : Type}.
  Implicit Types (l : list (string * V)).

  Lemma md_lookup_set_eq k (v : V) l : lookup k (set k v l) = Some v.
  Proof.
    induction l as [|[k' v'] l IH]; simpl.
    - now rewrite String.eqb_refl.
    - destruct (String.eqb k k') eqn:E; simpl; [now rewrite String.eqb_refl|now rewrite E].
  Qed.

  Lemma md_lookup_set_neq k k' (v : V) l : k <> k' -> lookup k' (set k v l) = lookup k' l.
  Proof.
    intro Hne. induction l as [|[k2 v2] l IH]; simpl.
    - destruct (String.eqb k' k) eqn:E; [apply String.eqb_eq in E; congruence|reflexivity].
    - destruct (String.eqb k k2) eqn:E; simpl.
      + apply String.eqb_eq in E. subst k2.
        destruct (String.eqb k' k) eqn:E2; [apply String.eqb_eq in E2; congruence|reflexivity].
      + destruct (String.eqb k' k2); [reflexivity|exact IH].
  Qed.

  Lemma md_lookup_del_eq k l : lookup k (del k l) = @None V.
  Proof.
    induction l as [|[k' v'] l IH]; simpl; [reflexivity|].
    destruct (String.eqb k k') eqn:E; simpl; [exact IH|now rewrite E].
  Qed.

  Lemma md_lookup_del_neq k k' l : k <> k' -> lookup k' (del k l) = lookup k' l.
  Proof.
    intro Hne. induction l as [|[k2 v2] l IH]; simpl; [reflexivity|].
    destruct (String.eqb k k2) eqn:E; simpl.
    - apply String.eqb_eq in E. subst k2.
      destruct (String.eqb k' k) eqn:E2; [apply String.eqb_eq in E2; congruence|exact IH].
    - destruct (String.eqb k' k2); [reflexivity|exact IH].
  Qed.

  Lemma md_lookup_notin k l : mem_str k (map fst l) = false -> lookup k l = None.
  Proof.
    induction l as [|[k' v'] l IH]; simpl; [reflexivity|].
    intro H. apply orb_false_iff in H. destruct H as [H1 H2]. rewrite H1. auto.
  Qed.

  Lemma md_lookup_in k (v : V) l : lookup k l = Some v -> In (k, v) l.
  Proof.
    induction l as [|[k' v'] l IH]; simpl; [discriminate|].
    destruct (String.eqb k k') eqn:E.
    - apply String.eqb_eq in E. subst. intro H. injection H as ->. left. reflexivity.
    - intro H. right. auto.
  Qed.

  Lemma md_in_mem k (v : V) l : In (k, v) l -> mem_str k (map fst l) = true.
  Proof.
    induction l as [|[k' v'] l IH]; simpl; [contradiction|].
    intros [H | H].
    - injection H as -> ->. now rewrite String.eqb_refl.
    - rewrite (IH H). apply orb_true_r.
  Qed.
End AssocFacts.

(* ---------- paths ---------- *)

Definition is_prefix (p q : path) : Prop := exists r, q = p ++ r.
Definition strict_prefix (q p : path) : Prop := exists r, r <> [] /\ p = q ++ r.

Lemma strict_prefix_snoc q p k : strict_prefix q (p ++ [k]) -> strict_prefix q p \/ q = p.
Proof.
  intros (r & Hr & Heq).
  destruct (exists_last Hr) as (r' & x & ->).
  rewrite app_assoc in Heq. apply app_inj_tail in Heq. destruct Heq as [Heq _].
  destruct r' as [|y r'].
  - right. now rewrite app_nil_r in Heq.
  - left. exists (y :: r'). split; [discriminate|exact Heq].
Qed.

Lemma strict_prefix_not_ext q p k : strict_prefix q p \/ q = p -> ~ is_prefix (p ++ [k]) q.
Proof.
  intros H (r & Hr).
  assert (Hlen : List.length q = (List.length p + 1 + List.length r)%nat)
    by (rewrite Hr, !app_length; simpl; lia).
  destruct H as [(r' & _ & ->) | ->]; rewrite ?app_length in Hlen; lia.
Qed.

Lemma sibling_not_ext p k k' r : k <> k' -> ~ is_prefix (p ++ [k]) (p ++ k' :: r).
Proof.
  intros Hne (r' & Hr). rewrite <- app_assoc in Hr. apply app_inv_head in Hr. simpl in Hr. congruence.
Qed.

Lemma strict_prefix_cons k q p : strict_prefix q p -> strict_prefix (k :: q) (k :: p).
Proof. intros (r & Hr & ->). exists r. split; [exact Hr|reflexivity]. Qed.

Lemma nil_strict_prefix k p : strict_prefix [] (k :: p).
Proof. exists (k :: p). split; [discriminate|reflexivity]. Qed.

(* ---------- leaf_at ---------- *)

Lemma leaf_at_nil j : leaf_at j [] = match j with JObj _ => None | _ => Some j end.
Proof. unfold leaf_at. simpl. destruct j; reflexivity. Qed.

Lemma leaf_at_obj_cons o k q :
  leaf_at (JObj o) (k :: q) = match lookup k o with Some v => leaf_at v q | None => None end.
Proof. unfold leaf_at. simpl. destruct (lookup k o); reflexivity. Qed.

Lemma leaf_at_nonobj_cons j k q : is_obj j = false -> leaf_at j (k :: q) = None.
Proof. unfold leaf_at. destruct j; simpl; intro H; try reflexivity; discriminate. Qed.

Lemma leaf_at_empty q : leaf_at (JObj []) q = None.
Proof. destruct q; [reflexivity|apply leaf_at_obj_cons]. Qed.

Lemma leaf_nil_none_obj j : leaf_at j [] = None -> exists o, j = JObj o.
Proof. rewrite leaf_at_nil. destruct j; try discriminate. eauto. Qed.

Lemma resolve_app j p r :
  resolve j (p ++ r) = match resolve j p with Some x => resolve x r | None => None end.
Proof.
  revert j. induction p as [|k p IH]; intro j; simpl; [reflexivity|].
  destruct j; try reflexivity. destruct (lookup k kvs); [apply IH|reflexivity].
Qed.

Lemma leaf_at_app j p r :
  leaf_at j (p ++ r) = match resolve j p with Some x => leaf_at x r | None => None end.
Proof. unfold leaf_at. rewrite resolve_app. destruct (resolve j p); reflexivity. Qed.

Definition obj_of (j : json) : obj := match j with JObj o => o | _ => [] end.
Definition sub_or_null (o : option json) : json := match o with Some x => x | None => JNull end.

Lemma leaf_at_cons_obj_of j k q :
  leaf_at j (k :: q) = match lookup k (obj_of j) with Some v => leaf_at v q | None => None end.
Proof. destruct j; try reflexivity. apply leaf_at_obj_cons. Qed.

Lemma leaf_at_sub j k q : q <> [] -> leaf_at (sub_or_null (lookup k (obj_of j))) q = leaf_at j (k :: q).
Proof.
  intro Hq. rewrite leaf_at_cons_obj_of. destruct (lookup k (obj_of j)); [reflexivity|].
  destruct q; [congruence|reflexivity].
Qed.

(* ---------- dicts.ensure / dicts.remove on leaves ---------- *)

Lemma ensure_leaf p : forall j v, p <> [] ->
  (forall q, strict_prefix q p -> leaf_at j q = None) ->
  exists j', ensure j p v = Ok j' /\
    (forall r, leaf_at j' (p ++ r) = leaf_at v r) /\
    (forall q, ~ is_prefix p q -> leaf_at j' q = leaf_at j q).
Proof.
  induction p as [|k p IH]; intros j v Hne Hg; [congruence|].
  destruct (leaf_nil_none_obj j (Hg [] (nil_strict_prefix k p))) as (o & ->).
  destruct p as [|k2 p].
  - simpl. eexists. split; [reflexivity|]. split.
    + intro r. rewrite leaf_at_obj_cons, md_lookup_set_eq. reflexivity.
    + intros q Hq. destruct q as [|k' q]; [reflexivity|].
      rewrite !leaf_at_obj_cons.
      destruct (String.eqb_spec k k') as [->|Hn].
      * exfalso. apply Hq. exists q. reflexivity.
      * now rewrite md_lookup_set_neq.
  - set (sub := match lookup k o with Some s => s | None => JObj [] end).
    destruct (IH sub v) as (sub' & Hens & H2 & H3); [discriminate| |].
    { intros q Hq. unfold sub. destruct (lookup k o) as [s|] eqn:El; [|apply leaf_at_empty].
      specialize (Hg (k :: q) (strict_prefix_cons k _ _ Hq)). rewrite leaf_at_obj_cons, El in Hg. exact Hg. }
    exists (JObj (set k sub' o)). split.
    { change (ensure (JObj o) (k :: k2 :: p) v) with (bind (ensure sub (k2 :: p) v) (fun sub' => Ok (JObj (set k sub' o)))).
      rewrite Hens. reflexivity. }
    split.
    + intro r. change ((k :: k2 :: p) ++ r) with (k :: ((k2 :: p) ++ r)).
      rewrite leaf_at_obj_cons, md_lookup_set_eq. apply H2.
    + intros q Hq. destruct q as [|k' q]; [reflexivity|].
      rewrite !leaf_at_obj_cons.
      destruct (String.eqb_spec k k') as [->|Hn].
      * rewrite md_lookup_set_eq. rewrite H3.
        -- unfold sub. destruct (lookup k' o); [reflexivity|apply leaf_at_empty].
        -- intros (r & ->). apply Hq. exists r. reflexivity.
      * now rewrite md_lookup_set_neq.
Qed.

Lemma remove_leaf p : forall j, p <> [] ->
  (forall q, strict_prefix q p -> leaf_at j q = None) ->
  exists j', remove j p = Ok j' /\
    (forall r, leaf_at j' (p ++ r) = None) /\
    (forall q, ~ is_prefix p q -> leaf_at j' q = leaf_at j q).
Proof.
  induction p as [|k p IH]; intros j Hne Hg; [congruence|].
  destruct (leaf_nil_none_obj j (Hg [] (nil_strict_prefix k p))) as (o & ->).
  destruct p as [|k2 p].
  - simpl. eexists. split; [reflexivity|]. split.
    + intro r. rewrite leaf_at_obj_cons, md_lookup_del_eq. reflexivity.
    + intros q Hq. destruct q as [|k' q]; [reflexivity|].
      rewrite !leaf_at_obj_cons.
      destruct (String.eqb_spec k k') as [->|Hn].
      * exfalso. apply Hq. exists q. reflexivity.
      * now rewrite md_lookup_del_neq.
  - change (remove (JObj o) (k :: k2 :: p)) with
      (match lookup k o with
       | None => Ok (JObj o)
       | Some sub => bind (remove sub (k2 :: p)) (fun sub' =>
                       if is_empty_obj sub' then Ok (JObj (del k o)) else Ok (JObj (set k sub' o)))
       end).
    destruct (lookup k o) as [sub|] eqn:El.
    + destruct (IH sub) as (sub' & Hrem & H2 & H3); [discriminate| |].
      { intros q Hq. specialize (Hg (k :: q) (strict_prefix_cons k _ _ Hq)).
        rewrite leaf_at_obj_cons, El in Hg. exact Hg. }
      rewrite Hrem. simpl. destruct (is_empty_obj sub') eqn:Ee.
      * assert (sub' = JObj []) as -> by (destruct sub' as [| | | | |[|]|]; simpl in Ee; try discriminate; reflexivity).
        eexists. split; [reflexivity|]. split.
        -- intro r. change ((k :: k2 :: p) ++ r) with (k :: ((k2 :: p) ++ r)).
           rewrite leaf_at_obj_cons, md_lookup_del_eq. reflexivity.
        -- intros q Hq. destruct q as [|k' q]; [reflexivity|].
           rewrite !leaf_at_obj_cons.
           destruct (String.eqb_spec k k') as [->|Hn].
           ++ rewrite md_lookup_del_eq, El. rewrite <- H3; [symmetry; apply leaf_at_empty|].
              intros (r & ->). apply Hq. exists r. reflexivity.
           ++ now rewrite md_lookup_del_neq.
      * eexists. split; [reflexivity|]. split.
        -- intro r. change ((k :: k2 :: p) ++ r) with (k :: ((k2 :: p) ++ r)).
           rewrite leaf_at_obj_cons, md_lookup_set_eq. apply H2.
        -- intros q Hq. destruct q as [|k' q]; [reflexivity|].
           rewrite !leaf_at_obj_cons.
           destruct (String.eqb_spec k k') as [->|Hn].
           ++ rewrite md_lookup_set_eq, El. apply H3.
              intros (r & ->). apply Hq. exists r. reflexivity.
           ++ now rewrite md_lookup_set_neq.
    + eexists. split; [reflexivity|]. split.
      * intro r. change ((k :: k2 :: p) ++ r) with (k :: ((k2 :: p) ++ r)).
        rewrite leaf_at_obj_cons, El. reflexivity.
      * reflexivity.
Qed.

(* ---------- RFC 7386 merge: its object part as a named function ---------- *)

Fixpoint mgo (pkvs : list (string * json)) (t : obj) : obj :=
  match pkvs with
  | [] => t
  | (k, v) :: rest =>
      match v with
      | JNull => mgo rest (del k t)
      | _ => mgo rest (set k (merge (sub_or_null (lookup k t)) v) t)
      end
  end.

Definition mgo_raw : list (string * json) -> obj -> obj :=
  fix go (pkvs : list (string * json)) (t : obj) : obj :=
    match pkvs with
    | [] => t
    | (k, JNull) :: rest => go rest (del k t)
    | (k, v) :: rest =>
        go rest (set k (merge (match lookup k t with Some tv => tv | None => JNull end) v) t)
    end.

Lemma mgo_raw_eq pkvs : forall o, mgo_raw pkvs o = mgo pkvs o.
Proof.
  induction pkvs as [|[k v] rest IH]; intro o; [reflexivity|].
  destruct v; simpl; apply IH.
Qed.

Lemma merge_obj t pkvs : merge t (JObj pkvs) = JObj (mgo pkvs (obj_of t)).
Proof.
  transitivity (JObj (mgo_raw pkvs (obj_of t))); [destruct t; reflexivity|].
  now rewrite mgo_raw_eq.
Qed.

Lemma md_in_lookup {V} k (v : V) l : nodup_keys (map fst l) = true -> In (k, v) l -> lookup k l = Some v.
Proof.
  induction l as [|[k' v'] l IH]; simpl; [contradiction|].
  intros Hnd [H | H]; apply andb_true_iff in Hnd; destruct Hnd as [Hn Hnd].
  - injection H as -> ->. now rewrite String.eqb_refl.
  - destruct (String.eqb_spec k k') as [->|Hne]; [|auto].
    rewrite (md_in_mem _ _ _ H) in Hn. discriminate.
Qed.

Lemma mgo_lookup pkvs : forall t k, nodup_keys (map fst pkvs) = true ->
  lookup k (mgo pkvs t) =
  match lookup k pkvs with
  | None => lookup k t
  | Some JNull => None
  | Some v => Some (merge (sub_or_null (lookup k t)) v)
  end.
Proof.
  induction pkvs as [|[k0 v0] rest IH]; intros t k Hnd; simpl; [reflexivity|].
  simpl in Hnd. apply andb_true_iff in Hnd. destruct Hnd as [Hn Hnd]. apply negb_true_iff in Hn.
  destruct (String.eqb_spec k k0) as [->|Hne].
  - destruct v0; rewrite IH by exact Hnd; rewrite (md_lookup_notin _ _ Hn);
      rewrite ?md_lookup_del_eq, ?md_lookup_set_eq; reflexivity.
  - assert (Hne' : k0 <> k) by congruence.
    destruct v0; rewrite IH by exact Hnd;
      rewrite ?(md_lookup_del_neq _ _ _ Hne'), ?(md_lookup_set_neq _ _ _ _ Hne'); reflexivity.
Qed.

(* ---------- the path-wise interpreter against merge ---------- *)

Definition lf (o : option json) (r : path) : option json :=
  match o with Some j => leaf_at j r | None => None end.
Definition merge_opt (t v : json) : option json :=
  match v with JNull => None | _ => Some (merge t v) end.

Fixpoint apply_kvs (P : path) (kvs : list (string * json)) (body : json) : res json :=
  match kvs with
  | [] => Ok body
  | (k, v) :: rest => bind (apply_at body (P ++ [k]) v) (apply_kvs P rest)
  end.

Lemma apply_at_obj body P kvs :
  apply_at body P (JObj kvs) = bind (overwrite_nonmapping body P) (apply_kvs P kvs).
Proof.
  simpl. destruct (overwrite_nonmapping body P) as [b| | |]; simpl; try reflexivity.
  revert b. induction kvs as [|[k v] rest IH]; intro b; simpl; [reflexivity|].
  destruct (apply_at b (P ++ [k]) v); simpl; auto.
Qed.

(* the new first statement of the Mapping case: afterwards there is a mapping or nothing at P,
   nothing else has changed, and what was a non-mapping at P has no leaves left below P *)
Lemma overwrite_leaf body P :
  (forall q, strict_prefix q P -> leaf_at body q = None) ->
  (P = [] -> leaf_at body [] = None) ->
  exists b1, overwrite_nonmapping body P = Ok b1 /\
    leaf_at b1 P = None /\
    (forall q, q <> [] -> leaf_at b1 (P ++ q) = leaf_at body (P ++ q)) /\
    (forall q, ~ is_prefix P q -> leaf_at b1 q = leaf_at body q).
Proof.
  intros HG1 Hroot. unfold overwrite_nonmapping.
  assert (Hkeep : leaf_at body P = None ->
            exists b1, Ok body = Ok b1 /\ leaf_at b1 P = None /\
              (forall q, q <> [] -> leaf_at b1 (P ++ q) = leaf_at body (P ++ q)) /\
              (forall q, ~ is_prefix P q -> leaf_at b1 q = leaf_at body q)).
  { intro H. exists body. repeat split; auto. }
  destruct (resolve body P) as [x|] eqn:Er.
  - assert (Hx : leaf_at body P = match x with JObj _ => None | _ => Some x end)
      by (unfold leaf_at; rewrite Er; destruct x; reflexivity).
    assert (Hover : is_obj x = false ->
              exists b1, ensure body P (JObj []) = Ok b1 /\ leaf_at b1 P = None /\
                (forall q, q <> [] -> leaf_at b1 (P ++ q) = leaf_at body (P ++ q)) /\
                (forall q, ~ is_prefix P q -> leaf_at b1 q = leaf_at body q)).
    { intro Hno.
      assert (HP : P <> []).
      { intros ->. specialize (Hroot eq_refl). rewrite Hx in Hroot. destruct x; try discriminate. }
      destruct (ensure_leaf P body (JObj []) HP HG1) as (b1 & He & H2 & H3).
      exists b1. split; [exact He|]. split; [|split; [|exact H3]].
      - specialize (H2 []). rewrite app_nil_r in H2. exact H2.
      - intros q Hq. rewrite H2, leaf_at_empty, leaf_at_app, Er.
        destruct q as [|k q]; [congruence|]. symmetry. apply leaf_at_nonobj_cons. exact Hno. }
    destruct x; try (apply Hover; reflexivity). apply Hkeep. exact Hx.
  - apply Hkeep. unfold leaf_at. now rewrite Er.
Qed.

Definition claim (V : json) : Prop :=
  forall body P T,
    (is_obj V = true \/ P <> []) ->
    wf V = true ->
    (forall q, strict_prefix q P -> leaf_at body q = None) ->
    (P = [] -> leaf_at body [] = None) ->
    (forall q, q <> [] -> leaf_at T q = leaf_at body (P ++ q)) ->
    exists b', apply_at body P V = Ok b' /\
      (forall r, leaf_at b' (P ++ r) = lf (merge_opt T V) r) /\
      (forall q, ~ is_prefix P q -> leaf_at b' q = leaf_at body q).

Lemma claim_value V :
  is_obj V = false -> V <> JNull ->
  (forall b p, apply_at b p V = ensure b p V) -> (forall T, merge T V = V) -> claim V.
Proof.
  intros Hno Hnn Hap Hm body P T [Ho|HP] _ HG1 _ _; [congruence|].
  destruct (ensure_leaf P body V HP HG1) as (b' & He & H2 & H3).
  exists b'. rewrite Hap. split; [exact He|]. split; [|exact H3].
  intro r. rewrite H2. unfold merge_opt, lf. destruct V; try congruence; rewrite Hm; reflexivity.
Qed.

Lemma fold_claim P T : forall kvs body,
  Forall (fun kv => claim (snd kv)) kvs ->
  nodup_keys (map fst kvs) = true ->
  forallb (fun kv => wf (snd kv)) kvs = true ->
  (forall q, strict_prefix q P -> leaf_at body q = None) ->
  leaf_at body P = None ->
  (forall k v q, In (k, v) kvs -> leaf_at T (k :: q) = leaf_at body (P ++ k :: q)) ->
  exists b', apply_kvs P kvs body = Ok b' /\
    (forall k r, leaf_at b' (P ++ k :: r) =
       match lookup k kvs with
       | None => leaf_at body (P ++ k :: r)
       | Some v => lf (merge_opt (sub_or_null (lookup k (obj_of T))) v) r
       end) /\
    leaf_at b' P = None /\
    (forall q, ~ is_prefix P q -> leaf_at b' q = leaf_at body q).
Proof.
  induction kvs as [|[k0 v0] rest IH]; intros body Hc Hnd Hwf HG1 HG1' HT.
  - exists body. split; [reflexivity|]. split; [intros; reflexivity|]. split; [exact HG1'|reflexivity].
  - inversion Hc as [|? ? Hc0 Hcr]; subst. simpl in Hc0.
    simpl in Hnd. apply andb_true_iff in Hnd. destruct Hnd as [Hn0 Hndr]. apply negb_true_iff in Hn0.
    simpl in Hwf. apply andb_true_iff in Hwf. destruct Hwf as [Hw0 Hwr].
    assert (Hsib : forall k v, In (k, v) rest -> k0 <> k).
    { intros k v Hin ->. rewrite (md_in_mem _ _ _ Hin) in Hn0. discriminate. }
    set (T0 := sub_or_null (lookup k0 (obj_of T))).
    destruct (Hc0 body (P ++ [k0]) T0) as (b1 & Ha1 & H12 & H13).
    + right. intro Hx. apply app_eq_nil in Hx. destruct Hx; discriminate.
    + exact Hw0.
    + intros q Hq. apply strict_prefix_snoc in Hq. destruct Hq as [Hq | ->]; [apply HG1; exact Hq|exact HG1'].
    + intro Hx. apply app_eq_nil in Hx. destruct Hx; discriminate.
    + intros q Hq. rewrite <- app_assoc. simpl. unfold T0. rewrite leaf_at_sub by exact Hq.
      apply (HT k0 v0 q). left. reflexivity.
    + destruct (IH b1) as (b' & Ha & H2 & H2' & H3); try assumption.
      * intros q Hq. rewrite H13; [apply HG1; exact Hq|]. apply strict_prefix_not_ext. left. exact Hq.
      * rewrite H13; [exact HG1'|]. apply strict_prefix_not_ext. right. reflexivity.
      * intros k v q Hin. rewrite H13; [apply (HT k v q); right; exact Hin|].
        apply sibling_not_ext. eapply Hsib; eauto.
      * exists b'. split; [simpl; rewrite Ha1; simpl; exact Ha|]. split; [|split; [exact H2'|]].
        -- intros k r. simpl. destruct (String.eqb_spec k k0) as [->|Hne].
           ++ rewrite H2, (md_lookup_notin _ _ Hn0).
              specialize (H12 r). rewrite <- app_assoc in H12. simpl in H12. exact H12.
           ++ rewrite H2. destruct (lookup k rest); [reflexivity|].
              apply H13. apply sibling_not_ext. congruence.
        -- intros q Hq. rewrite H3 by exact Hq. apply H13.
           intros (r & ->). apply Hq. exists ([k0] ++ r). now rewrite app_assoc.
Qed.

Lemma claim_all V : claim V.
Proof.
  induction V using json_ind'.
  - (* null: dicts.remove *)
    intros body P T [Ho|HP] _ HG1 _ _; [discriminate|].
    destruct (remove_leaf P body HP HG1) as (b' & Hr & H2 & H3).
    exists b'. split; [exact Hr|]. split; [exact H2|exact H3].
  - apply claim_value; try reflexivity; discriminate.
  - apply claim_value; try reflexivity; discriminate.
  - apply claim_value; try reflexivity; discriminate.
  - apply claim_value; try reflexivity; discriminate.
  - (* mapping: overwrite a non-mapping by {}, then key by key *)
    intros body P T _ Hwf HG1 Hroot HT. rewrite apply_at_obj.
    simpl in Hwf. apply andb_true_iff in Hwf. destruct Hwf as [Hnd Hwfs].
    destruct (overwrite_leaf body P HG1 Hroot) as (b1 & Ho & Hb1P & Hb1in & Hb1out).
    rewrite Ho. change (bind (Ok b1) (apply_kvs P kvs)) with (apply_kvs P kvs b1).
    assert (HT1 : forall q, q <> [] -> leaf_at T q = leaf_at b1 (P ++ q))
      by (intros q Hq; rewrite Hb1in by exact Hq; apply HT; exact Hq).
    destruct (fold_claim P T kvs b1) as (b' & Ha & H2 & H2' & H3); try assumption.
    + intros q Hq. rewrite Hb1out; [apply HG1; exact Hq|].
      intros (r & ->). destruct Hq as (r' & Hr' & Heq).
      rewrite <- app_assoc in Heq. rewrite <- (app_nil_r P) in Heq at 1.
      apply app_inv_head in Heq. symmetry in Heq. apply app_eq_nil in Heq. destruct Heq. contradiction.
    + intros k v q _. apply HT1. discriminate.
    + exists b'. split; [exact Ha|]. split.
      * intro r. unfold merge_opt, lf. rewrite merge_obj. destruct r as [|k r].
        -- rewrite app_nil_r. exact H2'.
        -- rewrite H2, leaf_at_obj_cons, mgo_lookup by exact Hnd.
           destruct (lookup k kvs) as [v|] eqn:El.
           ++ destruct v; reflexivity.
           ++ rewrite <- leaf_at_cons_obj_of. symmetry. apply HT1. discriminate.
      * intros q Hq. rewrite H3 by exact Hq. apply Hb1out. exact Hq.
  - apply claim_value; try reflexivity; discriminate.
Qed.

(* For every mapping-rooted object and every well-formed patch content, of any size and depth: the path-wise
   interpreter succeeds and agrees with RFC 7386 on every leaf, i.e. up to empty mappings (and key order). *)
Theorem dsl_is_merge p body :
  is_obj p = true -> wf p = true -> is_obj body = true ->
  exists b', apply_dsl p body = Ok b' /\ forall q, leaf_at b' q = leaf_at (merge body p) q.
Proof.
  intros Ho Hwf Hb.
  assert (Hroot : leaf_at body [] = None) by (destruct body; try discriminate; reflexivity).
  destruct (claim_all p body [] body) as (b' & Ha & H2 & _).
  - left. exact Ho.
  - exact Hwf.
  - intros q (r & Hr & Heq). symmetry in Heq. apply app_eq_nil in Heq. destruct Heq. contradiction.
  - intros _. exact Hroot.
  - intros q _. reflexivity.
  - exists b'. split; [exact Ha|]. intro q. specialize (H2 q). simpl in H2. rewrite H2.
    destruct p; try discriminate. reflexivity.
Qed.

(* prune leaves the leaves alone *)
Definition prune_kvs : list (string * json) -> list (string * json) :=
  fix go (kvs : list (string * json)) : list (string * json) :=
    match kvs with
    | [] => []
    | (k, v) :: rest => let v' := prune v in if is_empty_obj v' then go rest else (k, v') :: go rest
    end.

Lemma prune_obj kvs : prune (JObj kvs) = JObj (prune_kvs kvs).
Proof. reflexivity. Qed.

Lemma prune_kvs_lookup kvs k : nodup_keys (map fst kvs) = true ->
  lookup k (prune_kvs kvs) =
  match lookup k kvs with
  | Some v => if is_empty_obj (prune v) then None else Some (prune v)
  | None => None
  end.
Proof.
  induction kvs as [|[k' v'] rest IH]; [reflexivity|].
  intro Hnd. simpl in Hnd. apply andb_true_iff in Hnd. destruct Hnd as [Hn Hnd]. apply negb_true_iff in Hn.
  change (prune_kvs ((k', v') :: rest)) with
    (if is_empty_obj (prune v') then prune_kvs rest else (k', prune v') :: prune_kvs rest).
  simpl lookup at 2.
  destruct (is_empty_obj (prune v')) eqn:E.
  - destruct (String.eqb_spec k k') as [->|Hne].
    + rewrite IH by exact Hnd. rewrite (md_lookup_notin _ _ Hn), E. reflexivity.
    + apply IH. exact Hnd.
  - simpl. destruct (String.eqb k k'); [now rewrite E|apply IH; exact Hnd].
Qed.

Lemma leaf_at_prune j : wf j = true -> forall q, leaf_at (prune j) q = leaf_at j q.
Proof.
  induction j as [| | | |l IHl|kvs IHkvs|j IHj] using json_ind'; intros Hwf q; try reflexivity.
  rewrite prune_obj. destruct q as [|k q]; [reflexivity|].
  simpl in Hwf. apply andb_true_iff in Hwf. destruct Hwf as [Hnd Hwfs].
  rewrite !leaf_at_obj_cons, prune_kvs_lookup by exact Hnd.
  destruct (lookup k kvs) as [v|] eqn:El; [|reflexivity].
  apply md_lookup_in in El.
  rewrite Forall_forall in IHkvs. specialize (IHkvs _ El). simpl in IHkvs.
  rewrite forallb_forall in Hwfs. specialize (Hwfs _ El). simpl in Hwfs.
  destruct (is_empty_obj (prune v)) eqn:E.
  - rewrite <- (IHkvs Hwfs q).
    destruct (prune v) as [| | | | |[|]|]; simpl in E; try discriminate. symmetry. apply leaf_at_empty.
  - apply IHkvs. exact Hwfs.
Qed.

(* ---------- regression: the witnesses of the repaired findings F4 and F18c ---------- *)

Definition f4_patch : json := JObj [("spec", JObj [("a", JObj [("b", JNum 1%Z)])])].
Definition f4_body : json := JObj [("spec", JObj [("a", JStr "str")])].

(* F4 (fixed by 1b39531): a mapping over a string: the string is replaced, as RFC 7386 does *)
Example type_change_regression :
  apply_dsl f4_patch f4_body = Ok (JObj [("spec", JObj [("a", JObj [("b", JNum 1%Z)])])]) /\
  leaf_at (merge f4_body f4_patch) ["spec"; "a"; "b"] = Some (JNum 1%Z).
Proof. split; reflexivity. Qed.

Definition f18c_patch : json := JObj [("spec", JObj [("a", JObj [])])].
Definition f18c_body : json := JObj [("spec", JObj [("a", JNum 5%Z)])].

(* F18c (fixed by 1b39531): an empty mapping over a scalar replaces the scalar *)
Example empty_over_scalar_regression :
  apply_dsl f18c_patch f18c_body = Ok (JObj [("spec", JObj [("a", JObj [])])]) /\
  leaf_at (merge f18c_body f18c_patch) ["spec"; "a"] = None.
Proof. split; reflexivity. Qed.

(* a deletion below a list: the list is replaced by {}, the deletion empties it, the parents are cleaned up *)
Example delete_under_list_regression :
  apply_dsl (JObj [("spec", JObj [("a", JObj [("b", JNull)])])]) (JObj [("spec", JObj [("a", JList [JNum 1%Z])])])
  = Ok (JObj []).
Proof. reflexivity. Qed.

(* a root that is not a mapping: dicts.ensure(body, (), {}) raises ValueError *)
Example root_not_mapping : apply_dsl (JObj []) (JNum 1%Z) = ErrValue.
Proof. reflexivity. Qed.

(* ---------- as_json_patch ---------- *)

Section Fidelity.
  (* documents are compared by any reflexive relation (Python's == on dicts ignores the order of keys) *)
  Variable same : json -> json -> Prop.
  Hypothesis same_refl : forall x, same x x.
  Variable from_diff : json -> json -> list jop.
  Hypothesis from_diff_law : forall a b, exists r, apply_ops (from_diff a b) a = Some r /\ same r b.

  (* whenever the interpreter succeeds, the returned operations rebuild the mutated body *)
  Lemma patch_applies p fns body b' :
    apply_dsl p body = Ok b' ->
    exists ops r, as_json_patch from_diff p fns body = Ok ops /\
                  apply_ops ops body = Some r /\ same r (run_fns fns b').
  Proof.
    intro Ha. unfold as_json_patch. destruct (patch_is_empty p && is_nil fns) eqn:E.
    - apply andb_true_iff in E. destruct E as [Ep Ef].
      destruct p as [| | | | |[|]|]; simpl in Ep; try discriminate.
      destruct fns; simpl in Ef; try discriminate.
      assert (b' = body) as -> by (destruct body; vm_compute in Ha; try discriminate; now injection Ha as <-).
      exists [], body. repeat split. apply same_refl.
    - unfold body_to_be. rewrite Ha. simpl.
      destruct (from_diff_law body (run_fns fns b')) as (r & Hr & Hs).
      exists (from_diff body (run_fns fns b')), r. repeat split; assumption.
  Qed.

  Theorem patch_fidelity p fns body :
    is_obj p = true -> wf p = true -> is_obj body = true ->
    exists ops b' r,
      as_json_patch from_diff p fns body = Ok ops /\
      apply_dsl p body = Ok b' /\
      (forall q, leaf_at b' q = leaf_at (merge body p) q) /\
      apply_ops ops body = Some r /\ same r (run_fns fns b').
  Proof.
    intros Ho Hwf Hb. destruct (dsl_is_merge p body Ho Hwf Hb) as (b' & Ha & Hl).
    destruct (patch_applies p fns body b' Ha) as (ops & r & H1 & H2 & H3).
    exists ops, b', r. repeat split; assumption.
  Qed.
End Fidelity.

(* ---------- non-vacuity ---------- *)

Definition ex_patch : json :=
  JObj [("spec", JObj [("a", JObj [("b", JNull); ("c", JNum 1%Z)]); ("k/~", JList [JNull]); ("gone", JNull);
                       ("was-a-string", JObj [("now", JStr "a mapping")])]);
        ("status", JObj [("x", JObj [("y", JStr "new")])])].
Definition ex_body : json :=
  JObj [("spec", JObj [("a", JObj [("b", JNum 0%Z)]); ("gone", JObj [("z", JBool true)]); ("keep", JStr "v");
                       ("was-a-string", JStr "s")])].

Example hypotheses_satisfiable : is_obj ex_patch = true /\ wf ex_patch = true /\ is_obj ex_body = true.
Proof. repeat split. Qed.

Lemma root_replace_law_ex : forall a b, exists r, apply_ops (root_replace_diff a b) a = Some r /\ r = b.
Proof. intros a b. exists b. split; reflexivity. Qed.

Example fidelity_example :
  exists ops b' r,
    as_json_patch root_replace_diff ex_patch [] ex_body = Ok ops /\ apply_dsl ex_patch ex_body = Ok b' /\
    (forall q, leaf_at b' q = leaf_at (merge ex_body ex_patch) q) /\
    apply_ops ops ex_body = Some r /\ r = run_fns [] b' /\
    leaf_at b' ["spec"; "a"; "c"] = Some (JNum 1%Z) /\ leaf_at b' ["spec"; "a"; "b"] = None /\
    leaf_at b' ["spec"; "keep"] = Some (JStr "v") /\
    leaf_at b' ["spec"; "was-a-string"; "now"] = Some (JStr "a mapping").
Proof.
  destruct hypotheses_satisfiable as (Ho & Hw & Hb).
  destruct (patch_fidelity eq (@eq_refl json) root_replace_diff root_replace_law_ex ex_patch [] ex_body Ho Hw Hb)
    as (ops & b' & r & H1 & H2 & H3 & H4 & H5).
  exists ops, b', r. repeat split; try assumption.
  all: vm_compute in H2; injection H2 as <-; reflexivity.
Qed.

(* ============================================================================================
   Clause by clause: what the result shows at EVERY path (set, overwrite, delete, recursive merge,
   and what must not change).
   ============================================================================================ *)

Lemma merge_leaf_step t kvs k q : nodup_keys (map fst kvs) = true ->
  leaf_at (merge t (JObj kvs)) (k :: q) =
  match lookup k kvs with
  | None => leaf_at t (k :: q)
  | Some JNull => None
  | Some v => leaf_at (merge (sub_or_null (lookup k (obj_of t))) v) q
  end.
Proof.
  intro Hnd. rewrite merge_obj, leaf_at_obj_cons, mgo_lookup by exact Hnd.
  destruct (lookup k kvs) as [v|].
  - destruct v; reflexivity.
  - symmetry. apply leaf_at_cons_obj_of.
Qed.

Lemma untouchedb_nonobj v q : is_obj v = false -> untouchedb v q = false.
Proof. destruct q; [reflexivity|]. destruct v; simpl; intro H; try reflexivity; discriminate. Qed.

(* RFC 7386 merge, path by path *)
Lemma merge_requested q : forall p t, is_obj p = true -> wf p = true ->
  leaf_at (merge t p) q = requested p t q.
Proof.
  induction q as [|k q IH]; intros p t Ho Hwf; destruct p as [| | | | |kvs|]; try discriminate.
  - rewrite merge_obj. reflexivity.
  - simpl in Hwf. apply andb_true_iff in Hwf. destruct Hwf as [Hnd Hwfs].
    rewrite merge_leaf_step by exact Hnd. unfold requested. simpl untouchedb. rewrite leaf_at_obj_cons.
    destruct (lookup k kvs) as [v|] eqn:El; [|reflexivity].
    assert (Hwv : wf v = true).
    { apply md_lookup_in in El. rewrite forallb_forall in Hwfs. apply (Hwfs _ El). }
    destruct (is_obj v) eqn:Ev.
    + rewrite IH by assumption. unfold requested.
      destruct v; try discriminate.
      destruct (untouchedb (JObj kvs0) q) eqn:Eu; [|reflexivity].
      apply leaf_at_sub. intros ->. discriminate.
    + rewrite (untouchedb_nonobj v q Ev).
      destruct v; try discriminate; try reflexivity;
        (destruct q; [reflexivity|]); simpl; reflexivity.
Qed.

(* the result of Patch._apply_patch at every path *)
Theorem dsl_requested p body :
  is_obj p = true -> wf p = true -> is_obj body = true ->
  exists b', apply_dsl p body = Ok b' /\ forall q, leaf_at b' q = requested p body q.
Proof.
  intros Ho Hwf Hb. destruct (dsl_is_merge p body Ho Hwf Hb) as (b' & Ha & Hl).
  exists b'. split; [exact Ha|]. intro q. rewrite Hl. apply merge_requested; assumption.
Qed.

Lemma resolve_some_touched p q x : resolve p q = Some x -> forall r, is_obj x = false \/ r = [] -> untouchedb p (q ++ r) = false.
Proof.
  revert p. induction q as [|k q IH]; intros p Hr r Hx; simpl in Hr.
  - injection Hr as ->. simpl. destruct Hx as [Hx | ->]; [apply untouchedb_nonobj; exact Hx|reflexivity].
  - destruct p; try discriminate. simpl. destruct (lookup k kvs) as [v|]; [|discriminate]. eapply IH; eauto.
Qed.

(* set / overwrite: a non-null leaf v of the patch at q is what the object shows at q, and nothing remains below it *)
Lemma requested_set p body q v r :
  resolve p q = Some v -> is_obj v = false -> v <> JNull -> requested p body (q ++ r) = leaf_at v r.
Proof.
  intros Hr Hno Hnn. unfold requested. rewrite (resolve_some_touched p q v Hr r (or_introl Hno)).
  rewrite leaf_at_app, Hr. destruct r as [|k r].
  - rewrite leaf_at_nil. destruct v; try congruence; discriminate.
  - rewrite leaf_at_nonobj_cons by exact Hno. reflexivity.
Qed.

(* delete: a null of the patch at q: nothing at q or below *)
Lemma requested_delete p body q r : resolve p q = Some JNull -> requested p body (q ++ r) = None.
Proof.
  intro Hr. unfold requested. rewrite (resolve_some_touched p q JNull Hr r (or_introl eq_refl)).
  rewrite leaf_at_app, Hr. destruct r; reflexivity.
Qed.

(* must not change: a path the patch says nothing about *)
Lemma requested_untouched p body q : untouchedb p q = true -> requested p body q = leaf_at body q.
Proof. intro H. unfold requested. now rewrite H. Qed.

(* a mapping node of the patch is a mapping (or nothing) in the result, never a scalar *)
Lemma requested_interior p body q o : resolve p q = Some (JObj o) -> requested p body q = None.
Proof.
  intro Hr. unfold requested.
  pose proof (resolve_some_touched p q (JObj o) Hr [] (or_intror eq_refl)) as Hu. rewrite app_nil_r in Hu. rewrite Hu.
  unfold leaf_at. rewrite Hr. reflexivity.
Qed.

Theorem dsl_clauses p body :
  is_obj p = true -> wf p = true -> is_obj body = true ->
  exists b', apply_dsl p body = Ok b' /\
    (forall q v r, resolve p q = Some v -> is_obj v = false -> v <> JNull -> leaf_at b' (q ++ r) = leaf_at v r) /\
    (forall q r, resolve p q = Some JNull -> leaf_at b' (q ++ r) = None) /\
    (forall q o, resolve p q = Some (JObj o) -> leaf_at b' q = None) /\
    (forall q, untouchedb p q = true -> leaf_at b' q = leaf_at body q).
Proof.
  intros Ho Hwf Hb. destruct (dsl_requested p body Ho Hwf Hb) as (b' & Ha & Hl).
  exists b'. split; [exact Ha|]. repeat split; intros; rewrite Hl.
  - apply requested_set; assumption.
  - apply requested_delete; assumption.
  - eapply requested_interior; eauto.
  - apply requested_untouched; assumption.
Qed.

(* every path falls under exactly one clause *)
Lemma clause_cases p q :
  untouchedb p q = true \/
  (exists q1 r v, q = q1 ++ r /\ resolve p q1 = Some v /\ is_obj v = false) \/
  (exists o, resolve p q = Some (JObj o)) \/
  (q = [] /\ is_obj p = false).
Proof.
  revert p. induction q as [|k q IH]; intro p.
  - destruct (is_obj p) eqn:Eo.
    + right. right. left. destruct p; try discriminate. eexists. reflexivity.
    + right. left. exists [], [], p. auto.
  - destruct p as [| | | | |kvs|];
      try (right; left; eexists [], (k :: q), _; repeat split; reflexivity).
    simpl. destruct (lookup k kvs) as [v|] eqn:El; [|left; reflexivity].
    destruct (IH v) as [H | [(q1 & r & x & -> & Hr & Hx) | [(o & Hr) | (-> & Hx)]]].
    + left. exact H.
    + right. left. exists (k :: q1), r, x. repeat split; [|exact Hx]. simpl. now rewrite El.
    + right. right. left. exists o. exact Hr.
    + right. left. exists [k], [], v. repeat split; [|exact Hx]. simpl. now rewrite El.
Qed.

(* ---------- how the content is filled ---------- *)

Lemma ensure_resolve q : forall c v c', q <> [] -> ensure c q v = Ok c' -> resolve c' q = Some v.
Proof.
  induction q as [|k q IH]; intros c v c' Hne He; [congruence|].
  destruct q as [|k2 q].
  - simpl in He. destruct c; try discriminate. injection He as <-. simpl. now rewrite md_lookup_set_eq.
  - destruct c as [| | | | |o|]; try discriminate.
    change (ensure (JObj o) (k :: k2 :: q) v) with
      (bind (ensure (match lookup k o with Some s => s | None => JObj [] end) (k2 :: q) v)
            (fun sub' => Ok (JObj (set k sub' o)))) in He.
    destruct (ensure (match lookup k o with Some s => s | None => JObj [] end) (k2 :: q) v) as [sub'| | |] eqn:Es;
      try discriminate.
    simpl in He. injection He as <-.
    change (resolve (JObj (set k sub' o)) (k :: k2 :: q)) with
      (match lookup k (set k sub' o) with Some x => resolve x (k2 :: q) | None => None end).
    rewrite md_lookup_set_eq. eapply IH; [discriminate|exact Es].
Qed.

(* the last write of a handler is in the content handed to as_json_patch *)
Lemma last_write_recorded writes q v :
  q <> [] -> (exists c, ensure (content_of writes) q v = Ok c) -> resolve (content_of (writes ++ [(q, v)])) q = Some v.
Proof.
  intros Hq (c & Hc). unfold content_of. rewrite fold_left_app. simpl. unfold apply_write at 1. simpl.
  fold (content_of writes). rewrite Hc. eapply ensure_resolve; eauto.
Qed.

Example clauses_example :
  exists b', apply_dsl ex_patch ex_body = Ok b' /\
    leaf_at b' ["spec"; "a"; "c"] = Some (JNum 1%Z) /\          (* set *)
    leaf_at b' ["spec"; "was-a-string"; "now"] = Some (JStr "a mapping") /\   (* type change + set *)
    leaf_at b' ["spec"; "a"; "b"] = None /\                     (* delete *)
    leaf_at b' ["spec"; "gone"; "z"] = None /\                  (* delete of a subtree *)
    leaf_at b' ["spec"; "keep"] = Some (JStr "v") /\            (* untouched *)
    untouchedb ex_patch ["spec"; "keep"] = true.
Proof. eexists. split; [reflexivity|]. repeat split. Qed.

Example write_example :
  let ws := [(["spec"; "x"], JNum 1%Z); (["spec"], JStr "scalar"); (["spec"; "y"], JNum 2%Z)] in
  (exists c, ensure (content_of ws) ["metadata"; "labels"; "a/b"] (JStr "v") = Ok c) /\
  resolve (content_of (ws ++ [(["metadata"; "labels"; "a/b"], JStr "v")])) ["metadata"; "labels"; "a/b"] = Some (JStr "v") /\
  content_of ws = JObj [("spec", JStr "scalar")].     (* the view write over a scalar raised and was dropped *)
Proof. cbv zeta. split; [eexists; reflexivity|]. split; reflexivity. Qed.
