(* Round trip of the annotation progress storage (Model/Storage.v) through an RFC 7386 server. *)
From Coq Require Import ZArith NArith List String Bool Lia.
From KV Require Import Base.Json Base.Dicts Model.Keys Model.Storage Proofs.JsonMerge.
Import ListNotations.
Open Scope string_scope.
Open Scope list_scope.

(* ---------- ensure: what it does to paths ---------- *)
Lemma nodup_keys_set {V} k (v : V) (l : list (string * V)) :
  nodup_keys (map fst l) = true -> nodup_keys (map fst (set k v l)) = true.
Proof.
  induction l as [|[k' v'] l IH]; cbn; [reflexivity|].
  intro H. apply andb_true_iff in H. destruct H as [NI ND].
  destruct (String.eqb k k') eqn:E.
  - apply String.eqb_eq in E. subst k'. cbn. rewrite NI, ND. reflexivity.
  - cbn. rewrite (IH ND), andb_true_r.
    apply negb_true_iff. apply negb_true_iff in NI. unfold mem_str in *.
    apply not_true_is_false. intro X. apply existsb_exists in X. destruct X as (x & Ix & Ex).
    apply String.eqb_eq in Ex. subst x.
    assert (In k' (map fst l)) as Y.
    { clear - Ix E. induction l as [|[a b] l IH]; cbn in *; [destruct Ix as [F|[]]; subst; rewrite String.eqb_refl in E; discriminate|].
      destruct (String.eqb k a) eqn:Ea; cbn in Ix.
      - destruct Ix as [F|F]; [subst; rewrite String.eqb_refl in E; discriminate|right; exact F].
      - destruct Ix as [F|F]; [left; exact F|right; apply IH; exact F]. }
    assert (existsb (String.eqb k') (map fst l) = true) as Z.
    { apply existsb_exists. exists k'. split; [exact Y|apply String.eqb_refl]. }
    congruence.
Qed.

(* all objects along the path have unique keys (and so does everything [ensure] creates) *)
Fixpoint wf_along (p : json) (path : list string) : bool :=
  match p with
  | JObj kvs =>
      nodup_keys (map fst kvs) &&
      match path with
      | [] => true
      | k :: rest => match lookup k kvs with Some v => wf_along v rest | None => true end
      end
  | _ => true
  end.

Lemma wf_along_wf_path p path : wf_along p path = true -> wf_path p path = true.
Proof.
  revert p. induction path as [|k rest IH]; intros p H; [reflexivity|].
  destruct p; cbn in *; try reflexivity.
  apply andb_true_iff in H. destruct H as [ND H]. rewrite ND. cbn.
  destruct (lookup k kvs); [apply IH; exact H|reflexivity].
Qed.

Lemma ensure_single p k v :
  ensure p [k] v = match p with JObj kvs => Ok (JObj (set k v kvs)) | _ => ErrType end.
Proof. destruct p; reflexivity. Qed.

Lemma ensure_cons p k k2 rest v :
  ensure p (k :: k2 :: rest) v =
  match p with
  | JObj kvs => bind (ensure (match lookup k kvs with Some s => s | None => JObj [] end) (k2 :: rest) v)
                     (fun sub' => Ok (JObj (set k sub' kvs)))
  | _ => ErrType
  end.
Proof. destruct p; reflexivity. Qed.

Lemma ensure_cons_ne p a l v :
  l <> [] ->
  ensure p (a :: l) v =
  match p with
  | JObj kvs => bind (ensure (match lookup a kvs with Some s => s | None => JObj [] end) l v)
                     (fun sub' => Ok (JObj (set a sub' kvs)))
  | _ => ErrType
  end.
Proof. destruct l; [congruence|intros _; apply ensure_cons]. Qed.

Lemma app_one_ne {A} (l : list A) (x : A) : l ++ [x] <> [].
Proof. destruct l; discriminate. Qed.

Lemma resolve_empty_obj l : l <> [] -> resolve (JObj []) l = None.
Proof. destruct l; [congruence|reflexivity]. Qed.

Lemma wf_along_empty_obj l : wf_along (JObj []) l = true.
Proof. destruct l; reflexivity. Qed.

Lemma ensure_resolve_same p path v p' :
  ensure p path v = Ok p' -> resolve p' path = Some v.
Proof.
  revert p p'. induction path as [|k rest IH]; intros p p' H; [discriminate|].
  destruct rest as [|k2 rest].
  - rewrite ensure_single in H. destruct p; try discriminate. injection H as <-. cbn. rewrite lookup_set_same. reflexivity.
  - rewrite ensure_cons in H. destruct p as [| | | | |kvs|]; try discriminate.
    destruct (ensure (match lookup k kvs with Some s => s | None => JObj [] end) (k2 :: rest) v) as [sub'| | |] eqn:E; try discriminate.
    cbn in H. injection H as <-. cbn [resolve]. rewrite lookup_set_same. apply (IH _ _ E).
Qed.

Lemma ensure_wf p path v p' :
  is_obj v = false -> wf_along p path = true -> ensure p path v = Ok p' -> wf_along p' path = true.
Proof.
  intro Lf. revert p p'. induction path as [|k rest IH]; intros p p' W H; [discriminate|].
  destruct rest as [|k2 rest].
  - rewrite ensure_single in H. destruct p as [| | | | |kvs|]; try discriminate. injection H as <-.
    cbn in *. apply andb_true_iff in W. destruct W as [ND _].
    rewrite (nodup_keys_set _ _ _ ND), lookup_set_same. cbn. destruct v; try reflexivity; discriminate.
  - rewrite ensure_cons in H. destruct p as [| | | | |kvs|]; try discriminate.
    destruct (ensure (match lookup k kvs with Some s => s | None => JObj [] end) (k2 :: rest) v) as [sub'| | |] eqn:E; try discriminate.
    cbn in H. injection H as <-. cbn [wf_along] in *. apply andb_true_iff in W. destruct W as [ND W].
    rewrite (nodup_keys_set _ _ _ ND), lookup_set_same. cbn [andb].
    eapply IH; [|exact E]. destruct (lookup k kvs); [exact W|reflexivity].
Qed.

(* two paths that differ only in their last key *)
Lemma ensure_resolve_sibling p pre k k' v p' :
  k <> k' -> ensure p (pre ++ [k']) v = Ok p' -> resolve p' (pre ++ [k]) = resolve p (pre ++ [k]).
Proof.
  intros N. revert p p'. induction pre as [|a pre IH]; intros p p' H.
  - cbn [app] in H. rewrite ensure_single in H. destruct p as [| | | | |kvs|]; try discriminate. injection H as <-.
    cbn. rewrite (lookup_set_other _ _ _ _ N). reflexivity.
  - cbn [app] in *. rewrite (ensure_cons_ne _ _ _ _ (app_one_ne pre k')) in H.
    destruct p as [| | | | |kvs|]; try discriminate.
    destruct (ensure (match lookup a kvs with Some s => s | None => JObj [] end) (pre ++ [k']) v) as [sub'| | |] eqn:E; try discriminate.
    cbn in H. injection H as <-. cbn [resolve]. rewrite lookup_set_same.
    rewrite (IH _ _ E).
    destruct (lookup a kvs) as [s|]; [reflexivity|]. apply resolve_empty_obj. apply app_one_ne.
Qed.

Lemma ensure_wf_sibling p pre k k' v p' :
  wf_along p (pre ++ [k]) = true -> ensure p (pre ++ [k']) v = Ok p' -> is_obj v = false ->
  wf_along p' (pre ++ [k]) = true.
Proof.
  revert p p'. induction pre as [|a pre IH]; intros p p' W H Lf.
  - cbn [app] in H. rewrite ensure_single in H. destruct p as [| | | | |kvs|]; try discriminate. injection H as <-.
    cbn in *. apply andb_true_iff in W. destruct W as [ND W].
    rewrite (nodup_keys_set _ _ _ ND). cbn.
    destruct (String.eqb k k') eqn:E.
    + apply String.eqb_eq in E. subst. rewrite lookup_set_same. destruct v; try reflexivity; discriminate.
    + apply String.eqb_neq in E. rewrite (lookup_set_other _ _ _ _ E). exact W.
  - cbn [app] in *. rewrite (ensure_cons_ne _ _ _ _ (app_one_ne pre k')) in H.
    destruct p as [| | | | |kvs|]; try discriminate.
    destruct (ensure (match lookup a kvs with Some s => s | None => JObj [] end) (pre ++ [k']) v) as [sub'| | |] eqn:E; try discriminate.
    cbn in H. injection H as <-. cbn [wf_along] in *. apply andb_true_iff in W. destruct W as [ND W].
    rewrite (nodup_keys_set _ _ _ ND), lookup_set_same. cbn [andb].
    eapply IH; [|exact E|exact Lf]. destruct (lookup a kvs); [exact W|apply wf_along_empty_obj].
Qed.

(* ---------- the annotation progress storage ---------- *)
Section Roundtrip.
  Variable dg : chars -> list N.

  Definition meta := ["metadata"; "annotations"].

  Lemma ann_path_eq k : ann_path k = meta ++ [k].
  Proof. reflexivity. Qed.

  (* after storing [val] under every key of [ks], each of them resolves to [val] in the patch *)
  Lemma ensure_all_resolve ks : forall patch val p',
    wf_along patch meta = true -> is_obj val = false ->
    (forall k, In k ks -> wf_along patch (ann_path k) = true) ->
    ensure_all patch ks val = Ok p' ->
    wf_along p' meta = true
    /\ (forall k, In k ks -> resolve p' (ann_path k) = Some val /\ wf_along p' (ann_path k) = true).
  Proof.
    induction ks as [|k0 ks IH]; intros patch val p' W Lf Wk H.
    - cbn in H. injection H as <-. split; [exact W|intros k []].
    - cbn [ensure_all] in H. destruct (ensure patch (ann_path k0) val) as [p1| | |] eqn:E; try discriminate.
      cbn [bind] in H.
      assert (W1 : wf_along p1 meta = true).
      { (* meta is a prefix of the ensured path *)
        pose proof (ensure_wf _ _ _ _ Lf (Wk k0 (or_introl eq_refl)) E) as X.
        clear - X. unfold ann_path, meta in *. destruct p1; cbn in *; try reflexivity.
        apply andb_true_iff in X. destruct X as [ND X]. rewrite ND. cbn.
        destruct (lookup "metadata" kvs) as [m|]; [|reflexivity]. destruct m; cbn in *; try reflexivity.
        apply andb_true_iff in X. destruct X as [ND2 X]. rewrite ND2. cbn.
        destruct (lookup "annotations" kvs0) as [a|]; [|reflexivity]. destruct a; cbn in *; try reflexivity.
        apply andb_true_iff in X. destruct X as [ND3 _]. rewrite ND3. reflexivity. }
      assert (Wk1 : forall k, In k ks -> wf_along p1 (ann_path k) = true).
      { intros k Ik. destruct (String.eqb k k0) eqn:Ek.
        - apply String.eqb_eq in Ek. subst. apply (ensure_wf _ _ _ _ Lf (Wk k0 (or_introl eq_refl)) E).
        - apply String.eqb_neq in Ek. rewrite ann_path_eq in *. apply (ensure_wf_sibling patch meta k k0 val p1); auto.
          rewrite <- ann_path_eq. apply Wk. right. exact Ik. }
      destruct (IH p1 val p' W1 Lf Wk1 H) as (Wp & R).
      split; [exact Wp|]. intros k [<-|Ik]; [|apply R; exact Ik].
      destruct (in_dec string_dec k0 ks) as [I|NI]; [apply R; exact I|].
      (* k0 is not stored again: later ensures are siblings *)
      assert (G : forall ks' q q', ~ In k0 ks' -> ensure_all q ks' val = Ok q' ->
                  resolve q (ann_path k0) = Some val -> wf_along q (ann_path k0) = true ->
                  resolve q' (ann_path k0) = Some val /\ wf_along q' (ann_path k0) = true).
      { clear - Lf. induction ks' as [|x ks' IHk]; intros q q' NI H Rq Wq.
        - cbn in H. injection H as <-. tauto.
        - cbn [ensure_all] in H. destruct (ensure q (ann_path x) val) as [q1| | |] eqn:E; try discriminate.
          cbn [bind] in H. assert (k0 <> x) as Nx by (intro; subst; apply NI; left; reflexivity).
          apply (IHk q1 q'); [intro; apply NI; right; assumption|exact H| |].
          + rewrite ann_path_eq in *. rewrite (ensure_resolve_sibling q meta k0 x val q1 Nx E). exact Rq.
          + rewrite ann_path_eq in *. apply (ensure_wf_sibling q meta k0 x val q1 Wq E Lf). }
      apply (G ks p1 p' NI H).
      + apply (ensure_resolve_same _ _ _ _ E).
      + apply (ensure_wf _ _ _ _ Lf (Wk k0 (or_introl eq_refl)) E).
  Qed.

  (* the marker never disturbs a stored record *)
  Lemma store_marker_keeps prefix body patch p' k val :
    store_marker prefix body patch = Ok p' ->
    resolve patch (ann_path k) = Some val -> wf_along patch (ann_path k) = true ->
    resolve p' (ann_path k) = Some val /\ wf_along p' (ann_path k) = true.
  Proof.
    unfold store_marker. intros H R W.
    destruct (negb (String.eqb prefix "") && negb (known_without_marker prefix)); [|injection H as <-; tauto].
    set (mk := (prefix ++ "/" ++ marker_name)%string) in *.
    destruct (resolve_strict body ["metadata"; "annotations"; mk]) eqn:Eb;
      destruct (resolve_strict patch ["metadata"; "annotations"; mk]) eqn:Ep;
      try discriminate; try (injection H as <-; tauto).
    (* the marker is written: either it is the key itself (then it was present: contradiction) or a sibling *)
    destruct (String.eqb k mk) eqn:Ek.
    - apply String.eqb_eq in Ek. subst k. exfalso.
      clear - R Ep. unfold ann_path in R. cbn in *. destruct patch; try discriminate.
      destruct (lookup "metadata" kvs) as [m|]; [|discriminate]. destruct m; try discriminate.
      destruct (lookup "annotations" kvs0) as [a|]; [|discriminate]. destruct a; try discriminate.
      destruct (lookup mk kvs1); discriminate.
    - apply String.eqb_neq in Ek. change ["metadata"; "annotations"; mk] with (meta ++ [mk]) in H.
      rewrite ann_path_eq in *. split.
      + rewrite (ensure_resolve_sibling patch meta k mk (JStr "yes") p' Ek H). exact R.
      + apply (ensure_wf_sibling patch meta k mk (JStr "yes") p' W H eq_refl).
  Qed.

  (* ---- the patch built by the annotation storage touches metadata.annotations only ---- *)
  Definition ann_only (p : json) : Prop :=
    p = JObj [] \/ exists anns, p = JObj [("metadata", JObj [("annotations", JObj anns)])].

  Lemma ensure_ann_only p k v p' : ann_only p -> ensure p (ann_path k) v = Ok p' -> ann_only p'.
  Proof.
    intros [->|(anns & ->)] H; cbn in H; injection H as <-; right; eexists; reflexivity.
  Qed.

  Lemma ensure_all_ann_only ks : forall p v p', ann_only p -> ensure_all p ks v = Ok p' -> ann_only p'.
  Proof.
    induction ks as [|k ks IH]; intros p v p' A H; [cbn in H; injection H as <-; exact A|].
    cbn [ensure_all] in H. destruct (ensure p (ann_path k) v) as [p1| | |] eqn:E; try discriminate. cbn [bind] in H.
    apply (IH p1 v p' (ensure_ann_only _ _ _ _ A E) H).
  Qed.

  Lemma store_marker_ann_only prefix body p p' : ann_only p -> store_marker prefix body p = Ok p' -> ann_only p'.
  Proof.
    unfold store_marker. intros A H.
    destruct (negb (String.eqb prefix "") && negb (known_without_marker prefix)); [|injection H as <-; exact A].
    set (mk := (prefix ++ "/" ++ marker_name)%string) in *.
    destruct (resolve_strict body ["metadata"; "annotations"; mk]); destruct (resolve_strict p ["metadata"; "annotations"; mk]);
      try discriminate; try (injection H as <-; exact A).
    apply (ensure_ann_only p mk (JStr "yes") p' A H).
  Qed.

  Lemma is_drs_merge body p : ann_only p -> is_drs_body (merge body p) = is_drs_body body.
  Proof.
    intros [->|(anns & ->)]; rewrite merge_obj.
    - destruct body; reflexivity.
    - cbn [merge_fields]. unfold is_drs_body.
      rewrite (lookup_set_other "kind" "metadata") by discriminate.
      cbn [resolve]. rewrite lookup_set_same.
      rewrite merge_obj. cbn [merge_fields resolve].
      rewrite (lookup_set_other "ownerReferences" "annotations") by discriminate.
      destruct body as [| | | | |kvs|]; cbn [obj_of lookup]; try reflexivity.
      destruct (lookup "kind" kvs) as [[| | |s| | |]|]; try reflexivity.
      destruct (lookup "metadata" kvs) as [[| | | | |mk|]|]; cbn [obj_of lookup resolve]; try reflexivity;
        destruct (String.eqb s "ReplicaSet"); try reflexivity.
  Qed.

  (* C16 round trip, annotation storage: whatever record is stored for whatever key, under any prefix, v1/v2 and
     verbosity, is read back from the object as patched by an RFC 7386 server — for every body. *)
  Theorem ann_roundtrip prefix v1 verbose tk key record body patch :
    pstore dg (PAnn prefix v1 verbose tk) key record body (JObj []) = Ok patch ->
    pfetch dg (PAnn prefix v1 verbose tk) key (merge body patch)
    = Ok (Some (JObj (if verbose then record else drop_nulls record))).
  Proof.
    cbn [pstore pfetch]. intro H.
    match type of H with bind ?e _ = _ => destruct e as [p1| | |] eqn:E; try discriminate end.
    cbn [bind] in H.
    set (ks := full_keys dg prefix v1 body key) in *.
    set (val := JEnc (JObj (if verbose then record else drop_nulls record))) in *.
    assert (Hks : exists k2 rest, ks = k2 :: rest).
    { unfold ks, full_keys, make_keys. cbn [map]. eexists. eexists. reflexivity. }
    destruct Hks as (k2 & rest & Eks).
    destruct (ensure_all_resolve ks (JObj []) val p1 eq_refl eq_refl (fun _ _ => eq_refl) E) as (_ & R).
    destruct (R k2 ltac:(rewrite Eks; left; reflexivity)) as (R2 & W2).
    destruct (store_marker_keeps prefix body p1 patch k2 val H R2 W2) as (R3 & W3).
    (* the key list is the same for the patched body: the patch touches metadata.annotations only *)
    assert (A : ann_only patch).
    { eapply store_marker_ann_only; [|exact H]. eapply ensure_all_ann_only; [left; reflexivity|exact E]. }
    assert (Ek : full_keys dg prefix v1 (merge body patch) key = ks).
    { unfold ks, full_keys. rewrite (is_drs_merge body patch A). reflexivity. }
    rewrite Ek, Eks. cbn [fetch_keys].
    rewrite (resolve_merge_leaf body patch (ann_path k2) val (wf_along_wf_path _ _ W3) ltac:(discriminate) R3 eq_refl ltac:(discriminate)).
    unfold val. cbn. reflexivity.
  Qed.

  (* ... and the same with a PENDING patch: the cycle's patch is shared, earlier operations of the same cycle may have
     left anything under metadata.annotations - a purge (null) of this very key, another value for it, other keys.
     Whatever is pending, the record stored last is what is read back. *)
  Definition pending (anns : list (string * json)) : json := JObj [("metadata", JObj [("annotations", JObj anns)])].

  Lemma pending_wf anns k :
    nodup_keys (map fst anns) = true -> (forall v, lookup k anns = Some v -> is_obj v = false) ->
    wf_along (pending anns) (ann_path k) = true.
  Proof.
    intros ND Lf. unfold pending, ann_path. cbn. rewrite ND. cbn.
    destruct (lookup k anns) as [v|] eqn:L; [|reflexivity]. specialize (Lf v eq_refl). destruct v; try reflexivity; discriminate.
  Qed.

  Lemma pending_wf_meta anns : nodup_keys (map fst anns) = true -> wf_along (pending anns) meta = true.
  Proof. intro ND. unfold pending, meta. cbn. rewrite ND. reflexivity. Qed.

  Theorem ann_roundtrip_pending prefix v1 verbose tk key record body anns patch :
    nodup_keys (map fst anns) = true -> (forall k v, lookup k anns = Some v -> is_obj v = false) ->
    pstore dg (PAnn prefix v1 verbose tk) key record body (pending anns) = Ok patch ->
    pfetch dg (PAnn prefix v1 verbose tk) key (merge body patch)
    = Ok (Some (JObj (if verbose then record else drop_nulls record))).
  Proof.
    intros ND Lf. cbn [pstore pfetch]. intro H.
    match type of H with bind ?e _ = _ => destruct e as [p1| | |] eqn:E; try discriminate end.
    cbn [bind] in H.
    set (ks := full_keys dg prefix v1 body key) in *.
    set (val := JEnc (JObj (if verbose then record else drop_nulls record))) in *.
    assert (Hks : exists k2 rest, ks = k2 :: rest).
    { unfold ks, full_keys, make_keys. cbn [map]. eexists. eexists. reflexivity. }
    destruct Hks as (k2 & rest & Eks).
    destruct (ensure_all_resolve ks (pending anns) val p1 (pending_wf_meta anns ND) eq_refl
                                 (fun k _ => pending_wf anns k ND (Lf k)) E) as (_ & R).
    destruct (R k2 ltac:(rewrite Eks; left; reflexivity)) as (R2 & W2).
    destruct (store_marker_keeps prefix body p1 patch k2 val H R2 W2) as (R3 & W3).
    assert (A : ann_only patch).
    { eapply store_marker_ann_only; [|exact H]. eapply ensure_all_ann_only; [right; eexists; reflexivity|exact E]. }
    assert (Ek : full_keys dg prefix v1 (merge body patch) key = ks).
    { unfold ks, full_keys. rewrite (is_drs_merge body patch A). reflexivity. }
    rewrite Ek, Eks. cbn [fetch_keys].
    rewrite (resolve_merge_leaf body patch (ann_path k2) val (wf_along_wf_path _ _ W3) ltac:(discriminate) R3 eq_refl ltac:(discriminate)).
    unfold val. cbn. reflexivity.
  Qed.

  (* ---------- isolation ---------- *)
  (* keys the storage never writes stay unresolved in the patch ... *)
  Lemma ensure_all_other ks : forall p v p' k',
    ~ In k' ks -> ensure_all p ks v = Ok p' -> resolve p' (ann_path k') = resolve p (ann_path k').
  Proof.
    induction ks as [|k ks IH]; intros p v p' k' NI H; [cbn in H; injection H as <-; reflexivity|].
    cbn [ensure_all] in H. destruct (ensure p (ann_path k) v) as [p1| | |] eqn:E; try discriminate. cbn [bind] in H.
    rewrite (IH p1 v p' k' ltac:(intro; apply NI; right; assumption) H).
    rewrite !ann_path_eq in *. apply (ensure_resolve_sibling p meta k' k v p1); [|exact E].
    intro; subst; apply NI; left; reflexivity.
  Qed.

  Lemma store_marker_other prefix body p p' k' :
    k' <> (prefix ++ "/" ++ marker_name)%string ->
    store_marker prefix body p = Ok p' -> resolve p' (ann_path k') = resolve p (ann_path k').
  Proof.
    unfold store_marker. intros N H.
    destruct (negb (String.eqb prefix "") && negb (known_without_marker prefix)); [|injection H as <-; reflexivity].
    set (mk := (prefix ++ "/" ++ marker_name)%string) in *.
    destruct (resolve_strict body ["metadata"; "annotations"; mk]); destruct (resolve_strict p ["metadata"; "annotations"; mk]);
      try discriminate; try (injection H as <-; reflexivity).
    rewrite !ann_path_eq. apply (ensure_resolve_sibling p meta k' mk (JStr "yes") p' N H).
  Qed.

  (* ... and what the patch does not mention, an RFC 7386 server leaves alone *)
  Lemma merge_ann_only_other_top body p k :
    ann_only p -> k <> "metadata" -> lookup k (obj_of (merge body p)) = lookup k (obj_of body).
  Proof.
    intros [->|(anns & ->)] N; rewrite merge_obj; cbn [obj_of merge_fields]; [reflexivity|].
    apply lookup_set_other. exact N.
  Qed.

  Lemma merge_ann_only_other_meta body p k :
    ann_only p -> k <> "annotations" ->
    resolve (merge body p) ["metadata"; k] = resolve (JObj (obj_of body)) ["metadata"; k]
    \/ (resolve (merge body p) ["metadata"; k] = None /\ forall m, lookup "metadata" (obj_of body) = Some m -> is_obj m = false).
  Proof.
    intros [->|(anns & ->)] N; rewrite merge_obj; cbn [obj_of merge_fields]; [left; reflexivity|].
    cbn [resolve]. rewrite lookup_set_same, merge_obj. cbn [merge_fields resolve].
    rewrite (lookup_set_other k "annotations") by exact N.
    destruct (lookup "metadata" (obj_of body)) as [m|] eqn:Lm.
    - destruct m; cbn [obj_of lookup]; try (right; split; [reflexivity|intros m' E; injection E as <-; reflexivity]).
      left. reflexivity.
    - left. reflexivity.
  Qed.

  Lemma merge_ann_only_other_ann body anns k :
    lookup k anns = None ->
    resolve (merge body (JObj [("metadata", JObj [("annotations", JObj anns)])])) (ann_path k)
    = match resolve body ["metadata"; "annotations"] with
      | Some (JObj a) => lookup k a
      | _ => None
      end.
  Proof.
    intro H. rewrite merge_obj. cbn [merge_fields resolve ann_path]. rewrite lookup_set_same, merge_obj.
    cbn [merge_fields resolve]. rewrite lookup_set_same, merge_obj. cbn [resolve].
    rewrite (lookup_merge_fields_absent _ _ _ H).
    destruct body as [| | | | |kvs|]; cbn [obj_of lookup resolve]; try reflexivity.
    destruct (lookup "metadata" kvs) as [m|]; cbn [obj_of lookup]; [|reflexivity].
    destruct m as [| | | | |mk|]; cbn [obj_of lookup resolve]; try reflexivity.
    destruct (lookup "annotations" mk) as [a|]; cbn [obj_of lookup]; [|reflexivity].
    destruct a; cbn [obj_of lookup]; try reflexivity.
    match goal with |- context [lookup k ?l] => destruct (lookup k l) end; reflexivity.
  Qed.

  (* C16 isolation, annotation storage: an annotation that is neither one of the record's own keys nor the
     marker reads exactly as before; so does every top-level field other than metadata. *)
  Theorem ann_store_isolated prefix v1 verbose tk key record body patch k' :
    pstore dg (PAnn prefix v1 verbose tk) key record body (JObj []) = Ok patch ->
    ~ In k' (full_keys dg prefix v1 body key) -> k' <> (prefix ++ "/" ++ marker_name)%string ->
    resolve (merge body patch) (ann_path k')
    = match resolve body ["metadata"; "annotations"] with Some (JObj a) => lookup k' a | _ => None end
    /\ (forall f, f <> "metadata" -> lookup f (obj_of (merge body patch)) = lookup f (obj_of body)).
  Proof.
    cbn [pstore]. intros H NI NM.
    match type of H with bind ?e _ = _ => destruct e as [p1| | |] eqn:E; try discriminate end.
    cbn [bind] in H.
    assert (A : ann_only patch).
    { eapply store_marker_ann_only; [|exact H]. eapply ensure_all_ann_only; [left; reflexivity|exact E]. }
    assert (R : resolve patch (ann_path k') = None).
    { rewrite (store_marker_other prefix body p1 patch k' NM H), (ensure_all_other _ _ _ _ k' NI E). reflexivity. }
    split; [|intros f Nf; apply merge_ann_only_other_top; assumption].
    destruct A as [->|(anns & ->)].
    - rewrite merge_obj. unfold ann_path. cbn [merge_fields].
      destruct body as [| | | | |kvs|]; cbn [obj_of resolve lookup]; try reflexivity.
      destruct (lookup "metadata" kvs) as [m|]; cbn [resolve]; [|reflexivity].
      destruct m as [| | | | |mkv|]; cbn [resolve]; try reflexivity.
      destruct (lookup "annotations" mkv) as [a|]; cbn [resolve]; [|reflexivity].
      destruct a as [| | | | |av|]; cbn [resolve]; try reflexivity.
      destruct (lookup k' av); reflexivity.
    - apply merge_ann_only_other_ann. cbn in R. destruct (lookup k' anns); [discriminate|reflexivity].
  Qed.

  (* C16 isolation, touch: the dummy write that re-triggers a cycle goes to the storage's touch key(s) and the marker only;
     every other annotation - handlers' records, user data - and every top-level field other than metadata read as before. *)
  Lemma touch_keys_ann_only prefix body ks v : forall p p',
    ann_only p -> touch_keys prefix body p ks v = Ok p' -> ann_only p'.
  Proof.
    induction ks as [|k ks IH]; intros p p' A H; [cbn in H; injection H as <-; exact A|].
    cbn [touch_keys] in H. destruct (differs (resolve body (ann_path k)) v); [|exact (IH p p' A H)].
    destruct (ensure p (ann_path k) v) as [p1| | |] eqn:E; try discriminate. cbn [bind] in H.
    destruct (store_marker prefix body p1) as [p2| | |] eqn:M; try discriminate. cbn [bind] in H.
    apply (IH p2 p' (store_marker_ann_only _ _ _ _ (ensure_ann_only _ _ _ _ A E) M) H).
  Qed.

  Lemma touch_keys_other prefix body ks v : forall p p' k',
    ~ In k' ks -> k' <> (prefix ++ "/" ++ marker_name)%string ->
    touch_keys prefix body p ks v = Ok p' -> resolve p' (ann_path k') = resolve p (ann_path k').
  Proof.
    induction ks as [|k ks IH]; intros p p' k' NI NM H; [cbn in H; injection H as <-; reflexivity|].
    assert (NI' : ~ In k' ks) by (intro; apply NI; right; assumption).
    cbn [touch_keys] in H. destruct (differs (resolve body (ann_path k)) v); [|exact (IH p p' k' NI' NM H)].
    destruct (ensure p (ann_path k) v) as [p1| | |] eqn:E; try discriminate. cbn [bind] in H.
    destruct (store_marker prefix body p1) as [p2| | |] eqn:M; try discriminate. cbn [bind] in H.
    rewrite (IH p2 p' k' NI' NM H), (store_marker_other prefix body p1 p2 k' NM M).
    rewrite !ann_path_eq in *. apply (ensure_resolve_sibling p meta k' k v p1); [|exact E].
    intro; subst; apply NI; left; reflexivity.
  Qed.

  Theorem ann_touch_isolated prefix v1 verbose tk body v patch k' :
    ptouch dg (PAnn prefix v1 verbose tk) body (JObj []) v = Ok patch ->
    ~ In k' (full_keys dg prefix v1 body tk) -> k' <> (prefix ++ "/" ++ marker_name)%string ->
    resolve (merge body patch) (ann_path k')
    = match resolve body ["metadata"; "annotations"] with Some (JObj a) => lookup k' a | _ => None end
    /\ (forall f, f <> "metadata" -> lookup f (obj_of (merge body patch)) = lookup f (obj_of body)).
  Proof.
    cbn [ptouch]. intros H NI NM.
    assert (A : ann_only patch) by (eapply touch_keys_ann_only; [left; reflexivity|exact H]).
    assert (R : resolve patch (ann_path k') = None) by (rewrite (touch_keys_other _ _ _ _ _ _ k' NI NM H); reflexivity).
    split; [|intros f Nf; apply merge_ann_only_other_top; assumption].
    destruct A as [->|(anns & ->)].
    - rewrite merge_obj. unfold ann_path. cbn [merge_fields].
      destruct body as [| | | | |kvs|]; cbn [obj_of resolve lookup]; try reflexivity.
      destruct (lookup "metadata" kvs) as [m|]; cbn [resolve]; [|reflexivity].
      destruct m as [| | | | |mkv|]; cbn [resolve]; try reflexivity.
      destruct (lookup "annotations" mkv) as [a|]; cbn [resolve]; [|reflexivity].
      destruct a as [| | | | |av|]; cbn [resolve]; try reflexivity.
      destruct (lookup k' av); reflexivity.
    - apply merge_ann_only_other_ann. cbn in R. destruct (lookup k' anns); [discriminate|reflexivity].
  Qed.

  (* C16, the DEFAULT progress storage (SmartProgressStorage = annotations first, read-only status second): with the
     annotations written, the status stanza is not written at all - the patch of the smart storage is the patch of its
     annotation storage ... *)
  Theorem smart_store_is_ann_store prefix v1 verbose tk field tf key record body p :
    pstore dg (smart prefix v1 verbose tk field tf) key record body p
    = pstore dg (PAnn prefix v1 verbose tk) key record body p.
  Proof.
    unfold smart. cbn [pstore].
    match goal with |- bind ?e _ = _ => destruct e end; reflexivity.
  Qed.

  (* ... and what is stored is read back through the multi-storage's first-found read, for every configuration, id,
     record and body. *)
  Theorem smart_roundtrip prefix v1 verbose tk field tf key record body patch :
    pstore dg (smart prefix v1 verbose tk field tf) key record body (JObj []) = Ok patch ->
    pfetch dg (smart prefix v1 verbose tk field tf) key (merge body patch)
    = Ok (Some (JObj (if verbose then record else drop_nulls record))).
  Proof.
    rewrite smart_store_is_ann_store. intro H.
    pose proof (ann_roundtrip prefix v1 verbose tk key record body patch H) as R.
    unfold smart. cbn [pfetch] in *. rewrite R. reflexivity.
  Qed.

  (* C16 round trip, annotation diff-base storage (last-handled state): whatever essence is stored, under any prefix, key
     name, v1/v2, is read back from the object as patched by an RFC 7386 server - for every body.  (Essences are mappings;
     the guard excludes only a literal null, which the real fetch reads as "nothing stored".) *)
  Theorem dann_roundtrip prefix dkey v1 ign essence body patch :
    essence <> JNull ->
    dstore dg (DAnn prefix dkey v1 ign) body (JObj []) essence = Ok patch ->
    dfetch dg (DAnn prefix dkey v1 ign) (merge body patch) = Ok (Some essence).
  Proof.
    cbn [dstore dfetch]. intros NN H.
    match type of H with bind ?e _ = _ => destruct e as [p1| | |] eqn:E; try discriminate end.
    cbn [bind] in H.
    set (ks := full_keys dg prefix v1 body dkey) in *.
    set (val := JEnc essence) in *.
    assert (Hks : exists k2 rest, ks = k2 :: rest).
    { unfold ks, full_keys, make_keys. cbn [map]. eexists. eexists. reflexivity. }
    destruct Hks as (k2 & rest & Eks).
    destruct (ensure_all_resolve ks (JObj []) val p1 eq_refl eq_refl (fun _ _ => eq_refl) E) as (_ & R).
    destruct (R k2 ltac:(rewrite Eks; left; reflexivity)) as (R2 & W2).
    destruct (store_marker_keeps prefix body p1 patch k2 val H R2 W2) as (R3 & W3).
    assert (A : ann_only patch).
    { eapply store_marker_ann_only; [|exact H]. eapply ensure_all_ann_only; [left; reflexivity|exact E]. }
    assert (Ek : full_keys dg prefix v1 (merge body patch) dkey = ks).
    { unfold ks, full_keys. rewrite (is_drs_merge body patch A). reflexivity. }
    rewrite Ek, Eks. cbn [fetch_keys].
    rewrite (resolve_merge_leaf body patch (ann_path k2) val (wf_along_wf_path _ _ W3) ltac:(discriminate) R3 eq_refl ltac:(discriminate)).
    unfold val. destruct essence; try congruence; cbn; reflexivity.
  Qed.

  (* ... and the status diff-base storage, for every stanza path *)
  Theorem dstatus_roundtrip field ign essence body patch :
    essence <> JNull ->
    dstore dg (DStatus field ign) body (JObj []) essence = Ok patch ->
    dfetch dg (DStatus field ign) (merge body patch) = Ok (Some essence).
  Proof.
    cbn [dstore dfetch]. intros NN H.
    assert (NE : field <> []) by (intro; subst; discriminate).
    pose proof (ensure_resolve_same _ _ _ _ H) as R.
    pose proof (ensure_wf (JObj []) field (JEnc essence) patch eq_refl (wf_along_empty_obj field) H) as W.
    rewrite (resolve_merge_leaf body patch field (JEnc essence) (wf_along_wf_path _ _ W) NE R eq_refl ltac:(discriminate)).
    destruct essence; try congruence; cbn; reflexivity.
  Qed.

  (* C16 isolation with a PENDING patch: whatever earlier operations of the same cycle have left in the shared patch for
     any other annotation - another handler's record, its purge - is exactly what stays there after this handler's store. *)
  Theorem ann_store_keeps_pending prefix v1 verbose tk key record body p patch k' :
    pstore dg (PAnn prefix v1 verbose tk) key record body p = Ok patch ->
    ~ In k' (full_keys dg prefix v1 body key) -> k' <> (prefix ++ "/" ++ marker_name)%string ->
    resolve patch (ann_path k') = resolve p (ann_path k').
  Proof.
    cbn [pstore]. intros H NI NM.
    match type of H with bind ?e _ = _ => destruct e as [p1| | |] eqn:E; try discriminate end.
    cbn [bind] in H.
    rewrite (store_marker_other prefix body p1 patch k' NM H). apply (ensure_all_other _ _ _ _ k' NI E).
  Qed.

  (* ... and so does a touch: with ANY pending patch, what is pending for other annotations stays exactly as it is *)
  Theorem ann_touch_keeps_pending prefix v1 verbose tk body p v patch k' :
    ptouch dg (PAnn prefix v1 verbose tk) body p v = Ok patch ->
    ~ In k' (full_keys dg prefix v1 body tk) -> k' <> (prefix ++ "/" ++ marker_name)%string ->
    resolve patch (ann_path k') = resolve p (ann_path k').
  Proof. cbn [ptouch]. intros H NI NM. exact (touch_keys_other _ _ _ _ _ _ k' NI NM H). Qed.
End Roundtrip.
