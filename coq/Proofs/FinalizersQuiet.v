(* C06 — never released early under a weaker guard than "the filters' verdicts never change": label/annotation/spec
   edits are allowed whenever they keep the verdicts (plain spec edits: only the resourceVersion moves) or the operator
   is quiescent for the object (no delivered-but-unprocessed event, nothing inside patch_obj, nothing carried).  What
   F601 needs - a verdict changing while a cycle is in progress or a release is carried - is exactly what is excluded.
   The conclusion about the daemon becomes: a daemon still running at the release is one that does not match. *)
From Coq Require Import ZArith List String Bool Ascii Arith Lia.
From KV Require Import Base.Json Base.Dicts Model.Finalizers Proofs.Finalizers Proofs.FinalizersLts.
Import ListNotations.
Open Scope string_scope.
Open Scope list_scope.

Definition JustQ (c : fl_cfg) (s : fl_state) : Prop :=
  (c_del c = true -> v_mdel (sv s) = true -> g_done s = true) /\
  (fl_daemon_live (p_daemon s) = true -> v_mdmn (sv s) = false) /\ NoSpawn c s.

Definition InvQ (c : fl_cfg) (s : fl_state) : Prop :=
  (v_rec (sv s) = true -> g_done s = true) /\
  match p_view s with Some v => snapB s v | None => True end /\
  match p_flight s with
  | FJson f _ => snapB s f
  | FMerge r _ => r = true -> g_done s = true
  | FNone => True
  end /\
  (fl_daemon_live (p_daemon s) = true -> c_dmn c = true /\ p_forever s = false) /\
  (In FAllow (p_carried s ++ flight_fns (p_flight s)) -> JustQ c s).

Lemma InvQ_init : forall c fins a b, InvQ c (fl_init c fins a b).
Proof. intros. unfold InvQ, fl_init; simpl. repeat split; auto; try discriminate; try contradiction. Qed.

Section PartQ.
  Variable c : fl_cfg.
  Hypothesis Hshared : c_shared c = false.

  Lemma snapQ_weaken : forall s s' v, snapB s v ->
    (g_done s = true -> g_done s' = true) -> v_mdel (sv s') = v_mdel (sv s) -> v_mdmn (sv s') = v_mdmn (sv s) ->
    (v_deleting (sv s) = true -> v_deleting (sv s') = true) -> snapB s' v.
  Proof. intros s s' v [H1 [H2 [H3 H4]]] Hd Hm1 Hm2 Hdel. unfold snapB. rewrite Hm1, Hm2. repeat split; auto. Qed.

  (* server-side changes that keep the record, the filters' verdicts and never clear deletionTimestamp *)
  Lemma InvQ_server_change : forall s x',
    InvQ c s -> v_rec x' = v_rec (sv s) -> v_mdel x' = v_mdel (sv s) -> v_mdmn x' = v_mdmn (sv s) ->
    (v_deleting (sv s) = true -> v_deleting x' = true) -> forall gf,
    InvQ c (fl_set_x s x' gf).
  Proof.
    intros s x' [B1 [B2 [B3 [B4 B5]]]] Hr Hm1 Hm2 Hd gf. unfold InvQ, fl_set_x; simpl.
    split; [rewrite Hr; exact B1|].
    split; [destruct (p_view s) as [v|]; [|exact I]; eapply snapQ_weaken; eauto|].
    split; [destruct (p_flight s) as [|r fns|f fns]; auto; eapply snapQ_weaken; eauto|].
    split; [exact B4|].
    intros Hin. destruct (B5 Hin) as [J1 [J2 J3]]. unfold JustQ; simpl. rewrite Hm1.
    split; [exact J1|]. split; [rewrite Hm2; exact J2|].
    unfold NoSpawn in *; simpl. rewrite Hm2. destruct J3 as [J3 | [J3 J4]]; [left; exact J3 | right; split; auto].
  Qed.

  Ltac fq_close B4 := repeat split; auto; try discriminate; try contradiction;
    try (match goal with H : fl_daemon_live _ = true |- _ => apply (B4 H) end).

  Lemma InvQ_step : forall s l s', InvQ c s -> fl_steady s l = true -> fl_step c s l = Some s' -> InvQ c s'.
  Proof.
    intros s l s' HB Hcalm Hs. pose proof HB as [B1 [B2 [B3 [B4 B5]]]].
    destruct l; simpl in Hs.
    - (* LForeign *)
      destruct (v_alive (sv s) && _); [|discriminate]. injection Hs as <-.
      destruct (fl_with_fins_proj (sv s) l') as [_ [_ [P3 [P4 [P5 P6]]]]].
      apply InvQ_server_change; auto. rewrite P3; auto.
    - (* LMatch *)
      destruct (v_alive (sv s)); [|discriminate]. injection Hs as <-.
      simpl in Hcalm. apply orb_prop in Hcalm. destruct Hcalm as [Hsame | Hq].
      + apply andb_prop in Hsame. destruct Hsame as [E1 E2]. apply eqb_prop in E1. apply eqb_prop in E2. subst mdel mdmn.
        apply InvQ_server_change; auto.
      + (* the operator is quiescent: no snapshot, nothing pending *)
        unfold fl_op_quiet in Hq. destruct (p_view s) eqn:Ev; [discriminate|]. destruct (p_carried s) eqn:Ecar; [|discriminate].
        destruct (p_flight s) eqn:Efl; try discriminate.
        unfold InvQ, fl_set_x; simpl. rewrite Ev, Ecar, Efl. simpl.
        split; [exact B1|]. split; [exact I|]. split; [exact I|]. split; [exact B4|]. intros [].
    - (* LDelete *)
      destruct (v_alive (sv s) && _); [|discriminate]. injection Hs as <-.
      destruct (fl_with_deleting_proj (sv s)) as [_ [_ [P3 [P4 [P5 P6]]]]].
      apply InvQ_server_change; auto.
    - (* LEvent *)
      injection Hs as <-. unfold InvQ, fl_set_op; simpl.
      split; [exact B1|]. split; [unfold snapB; repeat split; auto|]. split; [exact B3|]. split; [exact B4|].
      intros Hin. destruct (B5 Hin) as [J1 [J2 J3]]. unfold JustQ; simpl. repeat split; auto.
      unfold NoSpawn in *; simpl. destruct J3 as [J3 | [J3 J4]]; [left; exact J3 | right; split; auto].
    - (* LCycle *)
      destruct (p_view s) as [v|] eqn:Ev; [|discriminate]. destruct (p_flight s) eqn:Ef; try discriminate.
      injection Hs as <-. destruct B2 as [V1 [V2 [V3 V4]]].
      destruct (v_alive v) eqn:Hal.
      2:{ unfold fl_cycle. rewrite Hal. simpl. unfold InvQ, fl_set_op; simpl. fq_close B4. }
      pose proof (fl_cycle_alive c s v k Hal) as HC. cbv zeta in HC.
      set (sp := fl_spawning c v (p_daemon s) (p_forever s) (k_stop k)) in *.
      set (a := fl_atoms c s v k (snd sp) (fl_h_delay c v k)) in *.
      set (out := fz_decide a) in *. set (s' := fl_cycle c s v k) in *.
      destruct HC as [C1 [C2 [C3 [C4 [C5 C6]]]]].
      assert (Hdone : g_done s = true -> g_done s' = true) by (intros H; rewrite C5, H; reflexivity).
      (* daemon clause *)
      assert (HB4 : fl_daemon_live (p_daemon s') = true -> c_dmn c = true /\ p_forever s' = false).
      { rewrite C3, C4. intros Hl. destruct (fl_spawning_live _ _ _ _ _ Hl) as [Hl' | [_ Hsp]]; [auto|].
        destruct (c_dmn c), (v_mdmn v), (p_forever s); simpl in Hsp; try discriminate; auto. }
      (* old pending releases stay justified *)
      assert (Hold : JustQ c s -> JustQ c s').
      { intros [J1 [J2 J3]]. unfold JustQ. rewrite C1. split; [auto|]. split.
        - rewrite C3. intros El.
          destruct (fl_spawning_live _ _ _ _ _ El) as [Hl' | [Hnd Hsp]]; [exact (J2 Hl')|]. exfalso.
          unfold NoSpawn in J3. rewrite Ev in J3. rewrite V3 in Hsp. destruct J3 as [J3 | [_ J3]]; congruence.
        - unfold NoSpawn in *. rewrite C1, C2, C4. destruct J3 as [J3 | [J3 _]]; [left; exact J3 | right; split; auto]. }
      (* a release decided in this cycle is justified *)
      assert (Hnew : In FAllow (o_fns out) -> JustQ c s').
      { intros Hin. apply fz_allow_only_if in Hin. fold a in Hin.
        destruct Hin as [[Hm Hb] | [Hm [Hdel [Hon [Hb [Hdl [Hsd Hch]]]]]]].
        - (* nobody requires it *)
          destruct (fl_atoms_must_false _ _ _ _ _ _ Hm) as [M1 M2]. rewrite V3 in M1. rewrite V2 in M2.
          unfold JustQ. rewrite C1. split.
          + intros H1 H2. rewrite H1, H2 in M2. discriminate.
          + split.
            * rewrite C3. intros El.
              destruct (fl_spawning_live _ _ _ _ _ El) as [Hl' | [_ Hsp]].
              -- destruct (B4 Hl') as [D1 D3]. rewrite D1, D3 in M1. simpl in M1. rewrite andb_true_r in M1. exact M1.
              -- exfalso. rewrite V3 in Hsp. congruence.
            * left. rewrite C1, C4. exact M1.
        - (* the release proper *)
          unfold a, fl_atoms in Hon, Hdel, Hb, Hsd; simpl in Hon, Hdel, Hb, Hsd.
          apply app_eq_nil in Hsd. destruct Hsd as [Hsd _].
          pose proof (fl_spawning_delays c v (p_daemon s) (p_forever s) (k_stop k) Hon Hsd) as Hd2. fold sp in Hd2.
          unfold JustQ. rewrite C1, C3. split; [|split; [intros El; rewrite Hd2 in El; discriminate El | right; rewrite C1, C2; split; auto]].
          intros H1 H2. rewrite C5.
          assert (Hpre : match a_chg a with Some hs => fz_chg_prematch hs | None => false end = true).
          { unfold a, fl_atoms; simpl. rewrite H1, V2, H2. reflexivity. }
          destruct (Hch Hpre) as [Hcg [Hcd _]]. fold out in Hcg. rewrite Hcg. simpl.
          unfold a, fl_atoms in Hcd; simpl in Hcd. apply app_eq_nil in Hcd. destruct Hcd as [Hcd _].
          unfold fl_h_delay in Hcd.
          assert (Hsel : fl_h_selected c v = true).
          { unfold fl_h_selected. rewrite H1, V2, H2, Hon, Hb, Hal. reflexivity. }
          unfold fl_h_invoked in *. rewrite Hsel in *. simpl in *.
          destruct (v_rec v) eqn:Erec; simpl in *.
          + rewrite (V1 eq_refl). reflexivity.
          + destruct (k_h_finishes k); simpl in *; [apply orb_true_r | discriminate Hcd]. }
      unfold InvQ.
      split; [rewrite C1, C5; intros H; rewrite (B1 H); reflexivity|].
      split; [rewrite C2; exact I|].
      destruct C6 as [[F1 F2] | [F2 [[r [F1 F3]] | F1]]]; rewrite F1, F2.
      + split; [exact I|]. split; [exact HB4|]. simpl. intros [].
      + split.
        * intros Hr. destruct (F3 Hshared Hr) as [H|H]; [rewrite C5, (V1 H); reflexivity | rewrite C5, H; apply orb_true_r].
        * split; [exact HB4|]. simpl. intros Hin.
          apply in_app_or in Hin. destruct Hin as [Hin|Hin].
          -- apply Hold. apply B5. apply in_or_app. left. exact Hin.
          -- apply in_app_or in Hin. destruct Hin as [Hin|Hin]; [|apply Hnew; exact Hin].
             apply Hold. apply B5. apply in_or_app. left. exact Hin.
      + split.
        * unfold snapB. rewrite C1. repeat split; auto.
        * split; [exact HB4|]. simpl. intros Hin.
          apply in_app_or in Hin. destruct Hin as [Hin|Hin].
          -- apply Hold. apply B5. apply in_or_app. left. exact Hin.
          -- apply in_app_or in Hin. destruct Hin as [Hin|Hin]; [|apply Hnew; exact Hin].
             apply Hold. apply B5. apply in_or_app. left. exact Hin.
    - (* LMerge *)
      destruct (p_flight s) as [|r fns|] eqn:Ef; try discriminate.
      destruct (v_alive (sv s)).
      + injection Hs as <-.
        assert (Hpend : In FAllow fns -> JustQ c s) by (intros H; apply B5; apply in_or_app; right; exact H).
        unfold InvQ, fl_set_op, fl_set_x; simpl.
        split; [exact B3|].
        split.
        { destruct (p_view s) as [v|]; [|exact I]. destruct B2 as [V1 [V2 [V3 V4]]]. unfold snapB; simpl. repeat split; auto. }
        assert (HJ : JustQ c s -> JustQ c (fl_set_op (fl_set_x s (fl_with_rec (sv s) r) (g_foreign s)) (p_view s)
                       match fns with [] => [] | _ :: _ => p_carried s end
                       match fns with [] => FNone | _ :: _ => FJson (fl_with_rec (sv s) r) fns end)).
        { intros [J1 [J2 J3]]. unfold JustQ, NoSpawn in *; simpl. repeat split; auto. }
        destruct fns as [|f fns'].
        * split; [exact I|]. split; [exact B4|]. simpl. intros [].
        * split; [unfold snapB; simpl; repeat split; auto|]. split; [exact B4|].
          simpl flight_fns. intros Hin. apply HJ. apply in_app_or in Hin. destruct Hin as [Hin|Hin].
          -- apply B5. apply in_or_app. left. exact Hin.
          -- apply Hpend. exact Hin.
      + injection Hs as <-. unfold InvQ, fl_set_op; simpl. fq_close B4.
    - (* LJson *)
      destruct (p_flight s) as [| |fresh fns] eqn:Ef; try discriminate. injection Hs as <-.
      assert (Hpend : In FAllow fns -> JustQ c s) by (intros H; apply B5; apply in_or_app; right; exact H).
      unfold fl_json.
      destruct (fl_eqb _ _); [unfold InvQ, fl_set_op; simpl; fq_close B4|].
      destruct (negb (v_alive (sv s))); [unfold InvQ, fl_set_op; simpl; fq_close B4|].
      destruct (Nat.eqb (v_rv fresh) (v_rv (sv s)) && _).
      + destruct (fl_with_fins_proj (sv s) (fl_apply_fns (c_own c) fns (v_fins fresh))) as [_ [_ [P3 [P4 [P5 P6]]]]].
        assert (HB' : InvQ c (fl_set_x s (fl_with_fins (sv s) (fl_apply_fns (c_own c) fns (v_fins fresh))) (g_foreign s))).
        { apply InvQ_server_change; auto. rewrite P3; auto. }
        destruct HB' as [B1' [B2' [_ [B4' _]]]].
        unfold InvQ, fl_set_op; simpl. simpl in B1', B2', B4'. fq_close B4'.
      + unfold InvQ, fl_set_op; simpl. split; [exact B1|]. split; [exact B2|]. split; [exact I|]. split; [exact B4|].
        rewrite app_nil_r. intros Hin. destruct (Hpend Hin) as [J1 [J2 J3]]. unfold JustQ, NoSpawn in *; simpl. auto.
    - (* LDaemonExit *)
      assert (Hgo : forall forever', (p_forever s = true -> forever' = true) ->
                InvQ c (fl_set_daemon s DExited forever')).
      { intros forever' Hf. unfold InvQ, fl_set_daemon; simpl. split; [exact B1|]. split; [exact B2|]. split; [exact B3|].
        split; [intros; discriminate|]. intros Hin. destruct (B5 Hin) as [J1 [J2 J3]].
        unfold JustQ, NoSpawn in *; simpl. split; [exact J1|]. split; [intros Hx; discriminate Hx|].
        destruct J3 as [J3 | J3]; [left | right; exact J3].
        destruct (c_dmn c), (v_mdmn (sv s)), (p_forever s); simpl in *; try discriminate; auto; rewrite Hf; auto. }
      destruct (p_daemon s); try discriminate; injection Hs as <-; apply Hgo; auto.
    - (* LRestart *)
      injection Hs as <-. unfold InvQ; simpl. fq_close B4.
  Qed.

  Lemma InvQ_run : forall tr s s', InvQ c s -> fl_run_steady c s tr = Some s' -> InvQ c s'.
  Proof.
    induction tr as [|l tr IH]; intros s s' HB Hr; simpl in Hr.
    - injection Hr as <-. exact HB.
    - destruct (fl_steady s l) eqn:Hst; [|discriminate].
      destruct (fl_step c s l) as [s1|] eqn:Es; [|discriminate].
      apply (IH s1 s'); [eapply InvQ_step; eauto | exact Hr].
  Qed.

  (* Whenever an accepted request of the framework takes the own finalizer off - after any history in which ids are not
     shared and every label/annotation/spec edit either keeps the filters' verdicts or meets a quiescent operator -
     H, if it matches, has been invoked for the deletion and has finished, and a daemon that is still running or being
     stopped is one that does not match the object. *)
  Theorem fl_not_released_early_steady : forall fins a b tr s s',
    fl_run_steady c (fl_init c fins a b) tr = Some s ->
    fl_step c s LJson = Some s' -> fl_releases c s s' = true ->
    (c_del c = true -> v_mdel (sv s) = true -> g_done s = true) /\
    (fl_daemon_live (p_daemon s) = true -> v_mdmn (sv s) = false).
  Proof.
    intros fins a b tr s s' Hr Hs Hrel.
    pose proof (InvQ_run tr _ s (InvQ_init c fins a b) Hr) as [_ [_ [_ [_ B5]]]].
    simpl in Hs. destruct (p_flight s) as [| |fresh fns] eqn:Ef; try discriminate. injection Hs as <-.
    unfold fl_releases in Hrel. apply andb_prop in Hrel. destruct Hrel as [R1 R2]. apply negb_true_iff in R2.
    assert (Hin : In FAllow fns).
    { destruct (in_dec (fun x y : fz_fn => ltac:(decide equality) : {x = y} + {x <> y}) FAllow fns) as [H|Hn]; [exact H|exfalso].
      unfold fl_json in R2.
      destruct (fl_eqb (fl_apply_fns (c_own c) fns (v_fins fresh)) (v_fins fresh)) eqn:Ee; [simpl in R2; congruence|].
      destruct (negb (v_alive (sv s))); [simpl in R2; congruence|].
      destruct (Nat.eqb (v_rv fresh) (v_rv (sv s)) && _); [|simpl in R2; congruence].
      simpl in R2. destruct (fl_with_fins_proj (sv s) (fl_apply_fns (c_own c) fns (v_fins fresh))) as [_ [P2 _]].
      rewrite P2 in R2.
      destruct (fl_apply_no_allow (c_own c) fns (v_fins fresh) Hn) as [H|H]; [|congruence].
      rewrite H, fl_eqb_refl in Ee. discriminate. }
    assert (HJ : JustQ c s) by (apply B5; apply in_or_app; right; simpl; exact Hin).
    destruct HJ as [J1 [J2 _]]. split; auto.
  Qed.
End PartQ.

(* calm histories are steady ones *)
Lemma fl_calm_steady : forall c tr s s', forallb fl_calm tr = true -> fl_run c s tr = Some s' -> fl_run_steady c s tr = Some s'.
Proof.
  intros c tr. induction tr as [|l tr IH]; intros s s' Hc Hr; simpl in *; [exact Hr|].
  apply andb_prop in Hc. destruct Hc as [Hc1 Hc2].
  assert (Hst : fl_steady s l = true) by (destruct l; simpl in *; try reflexivity; discriminate Hc1).
  rewrite Hst. destruct (fl_step c s l) as [s1|]; [|discriminate]. apply IH; assumption.
Qed.

(* non-vacuity: a steady, not calm history: the label that H's filter needs is removed and set again while the operator
   is quiescent (finalizer dropped, then added again), a plain spec edit races with a cycle; then deletion, H runs, release *)
Definition fq_k_fin : fl_orc :=
  {| k_spawn_others := []; k_chg_others := [{| ch_reqfin := false; ch_prematch := true |}]; k_low_empty := true; k_ctime := CtNone;
     k_timed_out := true; k_sdelays_others := []; k_cdelays_others := []; k_h_finishes := true; k_other_rec := false;
     k_extra_merge := true; k_stop := SStill |}.
Definition fq_trace : list fl_label :=
  [LEvent; LCycle fl_k0; LJson;                       (* H matches: finalizer added *)
   LMatch false false; LEvent; LCycle fl_k0; LJson;   (* quiescent: the label goes; finalizer dropped *)
   LMatch true false; LEvent; LCycle fl_k0; LJson;    (* quiescent: the label is back; finalizer added again *)
   LEvent; LMatch true false;                         (* a plain spec edit races with the delivered event: verdicts kept *)
   LCycle fl_k0; LDelete; LEvent; LCycle fq_k_fin; LMerge].

Example fq_nonvacuous :
  exists s s', forallb fl_calm fq_trace = false /\
    fl_run_steady fl_cfg_plain (fl_init fl_cfg_plain [] true false) fq_trace = Some s /\
    fl_step fl_cfg_plain s LJson = Some s' /\ fl_releases fl_cfg_plain s s' = true /\ g_done s = true /\ v_mdel (sv s) = true.
Proof. eexists; eexists. split; [reflexivity|]. split; [vm_compute; reflexivity|]. split; [vm_compute; reflexivity|]. vm_compute. auto. Qed.

(* the F601 trace is not steady: that hypothesis is what it violates *)
Example fq_f601_not_steady : fl_run_steady fl_cfg_plain (fl_init fl_cfg_plain [] true false) fl_trace_stale = None.
Proof. vm_compute. reflexivity. Qed.
